package main

// C09, XML / SVG slice: the output of xml.Minify and svg.Minify is well-formed at the token level according to the
// independent Lean tokeniser `spec.c09.xml.tokens` (Spec/C09XmlLex.lean), keeps the element / attribute structure,
// and is accepted again (second pass).  Generators are hazard-directed (attribute quoting and references, `]]>`
// across token boundaries, CDATA budget, comments/PIs/DOCTYPE, empty-element collapse; SVG: style element / style
// attribute through the CSS sub-minifier, path data, dropped namespaced items, nested svg, metadata, KeepComments),
// plus big documents composed from the corpus.  Hazard hit counts are measured on the OUTPUT.

import (
	"bytes"
	"fmt"
	"os"
	"path/filepath"
	"regexp"
	"sort"
	"strings"
	"time"

	"github.com/tdewolff/minify/v2"
	mincss "github.com/tdewolff/minify/v2/css"
	minjs "github.com/tdewolff/minify/v2/js"
	minsvg "github.com/tdewolff/minify/v2/svg"
	minxml "github.com/tdewolff/minify/v2/xml"
	"github.com/tdewolff/parse/v2"
	pxml "github.com/tdewolff/parse/v2/xml"

	"verifharness/h"
)

// ---------- token lists from the Lean tokeniser ----------

type c09XmlTok struct {
	kind             int
	data, text, attr string
}

// reply of spec.c09.xml.tokens: ok=false when the tokeniser rejects the bytes
func c09XmlDecodeToks(reply string) (toks []c09XmlTok, ok bool, err error) {
	b, good, msg := h.DecodeReply(reply)
	if !good {
		return nil, false, fmt.Errorf("vdrv: %s", msg)
	}
	items := h.DecodeListReply(b)
	if len(items) == 0 {
		return nil, false, fmt.Errorf("empty reply")
	}
	if string(items[0]) != "1" {
		return nil, false, nil
	}
	items = items[1:]
	for i := 0; i+3 < len(items); i += 4 {
		k := 0
		fmt.Sscanf(string(items[i]), "%d", &k)
		toks = append(toks, c09XmlTok{k, string(items[i+1]), string(items[i+2]), string(items[i+3])})
	}
	return toks, true, nil
}

func c09XmlClauses(reply string) ([]string, error) {
	b, good, msg := h.DecodeReply(reply)
	if !good {
		return nil, fmt.Errorf("vdrv: %s", msg)
	}
	var out []string
	for _, it := range h.DecodeListReply(b) {
		out = append(out, string(it))
	}
	return out, nil
}

func c09XmlHas(l []string, s string) bool {
	for _, x := range l {
		if x == s {
			return true
		}
	}
	return false
}

// c09XmlRender: the bytes of a token list, with `]]>` inside attribute values written `]]&gt;` (XML 1.0 allows the
// literal sequence there, encoding/xml does not)
func c09XmlRender(toks []c09XmlTok) []byte {
	var sb bytes.Buffer
	for _, t := range toks {
		if t.kind == 10 {
			sb.WriteString(" " + t.text + "=" + strings.ReplaceAll(t.attr, "]]>", "]]&gt;"))
		} else {
			sb.WriteString(t.data)
		}
	}
	return sb.Bytes()
}

// ---------- minifier configurations ----------

type c09XmlCfg struct {
	name string
	svg  bool
	keep bool // xml.KeepWhitespace
	run  func(in []byte) ([]byte, error)
}

func c09XmlDefaultM() *minify.M {
	m := minify.New()
	m.AddFunc("text/css", mincss.Minify)
	m.AddFunc("image/svg+xml", minsvg.Minify)
	m.AddFuncRegexp(regexp.MustCompile("^(application|text)/(x-)?(java|ecma|j|live)script(1\\.[0-5])?$|^module$"), minjs.Minify)
	m.AddFuncRegexp(regexp.MustCompile("[/+]xml$"), minxml.Minify)
	return m
}

func c09XmlCfgs() (xmlCfgs, svgCfgs []c09XmlCfg) {
	mDef := c09XmlDefaultM()
	mBare := minify.New()
	mk := func(name string, svg, keep bool, f func(w *bytes.Buffer, in []byte) error) c09XmlCfg {
		return c09XmlCfg{name, svg, keep, func(in []byte) ([]byte, error) {
			var w bytes.Buffer
			err := f(&w, append([]byte(nil), in...))
			return append([]byte(nil), w.Bytes()...), err
		}}
	}
	for _, keep := range []bool{false, true} {
		keep := keep
		xmlCfgs = append(xmlCfgs, mk(fmt.Sprintf("xml keep=%v", keep), false, keep, func(w *bytes.Buffer, in []byte) error {
			return (&minxml.Minifier{KeepWhitespace: keep}).Minify(mDef, w, bytes.NewReader(in), nil)
		}))
	}
	for _, kc := range []bool{false, true} {
		for _, bare := range []bool{false, true} {
			kc, bare := kc, bare
			m := mDef
			if bare {
				m = mBare
			}
			svgCfgs = append(svgCfgs, mk(fmt.Sprintf("svg keepComments=%v bare=%v", kc, bare), true, false, func(w *bytes.Buffer, in []byte) error {
				return (&minsvg.Minifier{KeepComments: kc}).Minify(m, w, bytes.NewReader(in), nil)
			}))
		}
	}
	svgCfgs = append(svgCfgs, mk("svg precision=3", true, false, func(w *bytes.Buffer, in []byte) error {
		return (&minsvg.Minifier{Precision: 3}).Minify(mDef, w, bytes.NewReader(in), nil)
	}))
	return
}

// ---------- generators ----------

var c09XmlRefLt = []string{"&lt;", "&#60;", "&#x3c;", "&#x3C;", "&#060;"}
var c09XmlRefAmp = []string{"&amp;", "&#38;", "&#x26;"}
var c09XmlRefGt = []string{"&gt;", "&#62;", "&#x3e;", ">"}
var c09XmlRefWs = []string{"&#9;", "&#10;", "&#13;", "&#xA;", "&#x9;", "&#xD;", "&#32;", "&#x20;"}

// attribute value content over the hazard alphabet, safe inside the quote q
func c09XmlAttrBody(r *h.RNG, q byte) string {
	var sb strings.Builder
	n := 1 + r.Intn(6)
	for i := 0; i < n; i++ {
		switch r.Intn(14) {
		case 0:
			if q == '"' {
				sb.WriteString(r.Pick([]string{"&quot;", "&#34;", "&#x22;"}))
			} else {
				sb.WriteByte('"')
			}
		case 1:
			if q == '\'' {
				sb.WriteString(r.Pick([]string{"&apos;", "&#39;", "&#x27;"}))
			} else {
				sb.WriteByte('\'')
			}
		case 2:
			sb.WriteString(r.Pick(c09XmlRefLt))
		case 3:
			sb.WriteString(r.Pick(c09XmlRefAmp))
		case 4:
			sb.WriteString(r.Pick(c09XmlRefWs))
		case 5:
			sb.WriteString(r.Pick(c09XmlRefGt))
		case 6:
			sb.WriteString(r.Pick([]string{" ", "  ", "\t", "\n", " \n "}))
		case 7:
			sb.WriteString(r.Pick([]string{"]]>", "]]", "?>", "?", "--", "/>", "/", "=", "<!--"[1:], "#", ";", "amp;", "lt;", "#60;", "x26;"}))
		case 8:
			sb.WriteString(r.Pick(c09XmlRefAmp) + r.Pick([]string{"lt;", "#60;", "amp;", "#x3c;", "quot;"}))
		case 9:
			sb.WriteString(r.Pick([]string{"&quot;", "&apos;", "&#34;", "&#39;"}))
		default:
			sb.WriteString(r.Pick([]string{"a", "bc", "x1", "é", "0", "1.50", "#fff", "url(#a)"}))
		}
	}
	return sb.String()
}

func c09XmlAttr(r *h.RNG, name string) string {
	q := byte('"')
	if r.Bool() {
		q = '\''
	}
	eq := r.Pick([]string{"=", "=", "=", " = ", "= ", " ="})
	return " " + name + eq + string(q) + c09XmlAttrBody(r, q) + string(q)
}

// character data / markup pieces around `]]>`
func c09XmlCdEndPieces(r *h.RNG, n int) string {
	var sb strings.Builder
	for i := 0; i < n; i++ {
		sb.WriteString(r.Pick([]string{"]", "]", "]]", ">", "&gt;", "&#62;", "&#x3e;", "<!--c-->", "<![CDATA[]]]]>", "<![CDATA[>]]>", "<![CDATA[]]>", "<![CDATA[]]]>",
			"<![CDATA[]]]]><![CDATA[>]]>", "x", " ", "<?p?>", "<b/>", "]]&gt;", "]]&#62;", "&amp;", "&lt;"}))
	}
	return sb.String()
}

func c09XmlCData(r *h.RNG) string {
	// 3*#'<' + 4*#'&' around the 12-byte budget of EscapeCDATAVal
	target := 6 + r.Intn(12)
	var sb strings.Builder
	sb.WriteString("<![CDATA[")
	if r.Chance(30) {
		sb.WriteString(r.Pick([]string{" ", "\n", "  "}))
	}
	sum := 0
	for sum < target {
		switch r.Intn(4) {
		case 0:
			sb.WriteByte('<')
			sum += 3
		case 1:
			sb.WriteByte('&')
			sum += 4
		case 2:
			sb.WriteString(r.Pick([]string{"a", "b c", "]]", "]", ">", "/style", "!--", "?"}))
		default:
			if r.Chance(15) {
				sb.WriteString(strings.Repeat("long content ", 3+r.Intn(20)))
			}
			sb.WriteByte('<')
			sum += 3
		}
	}
	if r.Chance(30) {
		sb.WriteString(r.Pick([]string{" ", "]", "]]", "\n"}))
	}
	sb.WriteString("]]>")
	return sb.String()
}

func c09XmlMisc(r *h.RNG) string {
	return r.Pick([]string{"<!-- a - b -->", "<!---->", "<!-- -a -->", "<!--a-b-c-->", "<!-- <x> & ]]> -->", "<?p a?b ?>", "<?p ?>", "<?p x=\"?\"?>", "<?p  q  r?>", "<?p a='b' c = \"d\"?>",
		"<?p a=\"&lt;\" ?>", "<?php echo \"x\"; ?>", "<?p >?>", "<?p ? >?>", "<?xml-stylesheet href=\"a.css\" type='text/css'?>"})
}

func c09XmlDoctype(r *h.RNG, root string) string {
	return r.Pick([]string{"", "", "<!DOCTYPE " + root + ">", "<!DOCTYPE " + root + " SYSTEM \"a.dtd\">", "<!DOCTYPE " + root + " PUBLIC \"-//X//Y\" 'b.dtd' >",
		"<!DOCTYPE " + root + " [<!ENTITY e \"x>y\"><!-- ] > ' -->]>", "<!DOCTYPE " + root + " [ <!ENTITY e1 'a\"]b'> <?p ]>?> ] >", "<!DOCTYPE " + root + " SYSTEM \"a>b\" [<!ELEMENT a (#PCDATA)>]>"})
}

func c09XmlGenXML(r *h.RNG, hazard string) string {
	var sb strings.Builder
	if r.Chance(30) {
		sb.WriteString(r.Pick([]string{"<?xml version=\"1.0\"?>", "<?xml version='1.0' encoding=\"UTF-8\" ?>\n"}))
	}
	if hazard == "misc" || r.Chance(15) {
		sb.WriteString(c09XmlDoctype(r, "r"))
	}
	sb.WriteString("<r")
	nattr := 0
	if hazard == "attr" {
		nattr = 1 + r.Intn(4)
	} else if r.Chance(30) {
		nattr = 1
	}
	for i := 0; i < nattr; i++ {
		sb.WriteString(c09XmlAttr(r, fmt.Sprintf("a%d", i)))
	}
	sb.WriteString(r.Pick([]string{">", " >", "\n>"}))
	switch hazard {
	case "attr":
		sb.WriteString("<e" + c09XmlAttr(r, "k") + c09XmlAttr(r, "xml:lang") + "/>")
	case "cdend":
		sb.WriteString(c09XmlCdEndPieces(r, 2+r.Intn(8)))
	case "cdata":
		for i := 0; i < 1+r.Intn(3); i++ {
			sb.WriteString(r.Pick([]string{"", "t", " ", "]]", "a ", " b"}))
			sb.WriteString(c09XmlCData(r))
		}
		sb.WriteString(r.Pick([]string{"", ">", " z", "]]>"[:2]}))
	case "misc":
		for i := 0; i < 1+r.Intn(4); i++ {
			sb.WriteString(r.Pick([]string{"", "t", " ", "x ", " y", "]]"}))
			sb.WriteString(c09XmlMisc(r))
		}
	case "collapse":
		for i := 0; i < 1+r.Intn(4); i++ {
			sb.WriteString(r.Pick([]string{"<a></a>", "<a> </a>", "<a>\n</a>", "<a><b></b></a>", "<a\n></a >", "<a k=\"v\"></a>", "<a k='v' ></a\n>", "<a><!--c--></a>", "<a><![CDATA[]]></a>", "<a>&#32;</a>", "<a/>", "<a />", " "}))
		}
	default:
		sb.WriteString(c09XmlCdEndPieces(r, 2))
	}
	sb.WriteString(r.Pick([]string{"</r>", "</r >", "</r\n>"}))
	if r.Chance(20) {
		sb.WriteString(r.Pick([]string{"\n", "<!-- end -->", "<?p?>"}))
	}
	return sb.String()
}

var c09XmlCSS = []string{"a{b:c}", " a > b { c : d } ", "a[b]{c:d}", "a[b=\"]\"]{c:d}", "a[b] ] > c{d:e}", "a[b]] > c{d:e}", "a[b=\\] ] > c{d:e}", "a{b:\"&lt;/style\"}", "a{c:\"&lt;\"}", "a{d:'&amp;'}",
	".a{&amp; .b{c:d}}", "a{--x:&amp;}", "a{b:c&amp;}", "@media (width&lt;=600px){a{b:c}}", "a{b:url(x?y&amp;z)}", "a{b:url(\"x y\")}", "a{color:#ff0000;margin:0px}", "/* ]]> */", "a{b:']]'}&gt;", "]] > x{y:z}", "a{b:c} ]]", "&gt;b{c:d}"}

// the same style sheets for a CDATA section (markup characters literal, no `]]>`)
func c09XmlCSSForCData(s string) string {
	s = strings.NewReplacer("&lt;", "<", "&amp;", "&", "&gt;", ">").Replace(s)
	return strings.ReplaceAll(s, "]]>", "]] >")
}

var c09XmlStyleDecl = []string{"fill:red", "fill : #FF0000 ; stroke:none", "font-family:'A B'", "font-family:&quot;A&quot;", "content:'&lt;'", "a:&lt;", "a:&amp;", "a:b&amp;c", "background:url(a&amp;b)", "x:\"y\"", "x:'y\"z'",
	"a:'&quot;&lt;'", "margin:0px 0px", "a:&#60;b", "a:b;&#10;c:d", "a:]]&gt;"}

var c09XmlPaths = []string{"M0 0L1 1z", "M 10,10 L 20 20 A 5 5 0 0 1 30 30 z M.5.5 1-2", "M0 0&#10;L1 1", "M0,0 C1,1 2,2 3,3 S4 4 5 5", "m1e2 .5-.5.5", "M0 0 a1 1 0 1 0 2 2", "M 0 0 X", "", "M0 0L1 1 &lt;"}

func c09XmlGenSVG(r *h.RNG, hazard string) string {
	var sb strings.Builder
	if r.Chance(30) {
		sb.WriteString("<?xml version=\"1.0\" encoding=\"UTF-8\"?>\n")
	}
	if hazard == "prolog" || r.Chance(10) {
		sb.WriteString(c09XmlDoctype(r, "svg"))
		if r.Chance(50) {
			sb.WriteString("<?xml-stylesheet href=\"a.css\" type=\"text/css\"?>")
		}
	}
	pre := ""
	if hazard == "ns" && r.Chance(30) {
		pre = "svg:"
	}
	sb.WriteString("<" + pre + "svg xmlns=\"http://www.w3.org/2000/svg\"")
	if r.Chance(50) {
		sb.WriteString(r.Pick([]string{" version=\"1.1\"", " x=\"0\" y=\"0\"", " width=\"10px\" height=\"1.50em\"", " viewBox=\"0 0 10.0 10\"", " xmlns:xlink=\"http://www.w3.org/1999/xlink\"", " xmlns:inkscape=\"http://i\" inkscape:version=\"1\""}))
	}
	if hazard == "attr" {
		sb.WriteString(c09XmlAttr(r, "id") + c09XmlAttr(r, "class"))
	}
	sb.WriteString(">")
	n := 1 + r.Intn(3)
	for i := 0; i < n; i++ {
		switch hazard {
		case "text":
			sb.WriteString("<text>" + c09XmlCdEndPieces(r, 2+r.Intn(7)) + "</text>")
		case "attr":
			sb.WriteString("<g" + c09XmlAttr(r, r.Pick([]string{"id", "class", "data-x", "title", "lang", "xlink:href", "aria-label"})) + c09XmlAttr(r, r.Pick([]string{"fill", "width", "x", "transform", "font-family"})) + "><rect/></g>")
		case "style-elem":
			css := r.Pick(c09XmlCSS)
			if r.Chance(40) {
				css += r.Pick(c09XmlCSS)
			}
			switch r.Intn(3) {
			case 0:
				sb.WriteString("<style>" + css + "</style>")
			case 1:
				sb.WriteString("<style type=\"text/css\"><![CDATA[" + c09XmlCSSForCData(css) + "]]></style>")
			default:
				// exceed the EscapeCDATAVal budget so that the section is kept
				sb.WriteString("<style><![CDATA[" + c09XmlCSSForCData(css) + "a{b:\"" + strings.Repeat("<", 3+r.Intn(4)) + r.Pick([]string{"", "&", "&&"}) + "\"}]]></style>")
			}
		case "script":
			sb.WriteString(r.Pick([]string{"<script>var a = 1 &lt; 2 &amp;&amp; b;</script>", "<script><![CDATA[ if (a < b && c) { d(\"</script\") } ]]></script>", "<script type=\"text/javascript\"><![CDATA[var s = ']]' + '>';]]></script>", "<script>x = a[b[0]]&gt;1</script>"}))
		case "style-attr":
			d := r.Pick(c09XmlStyleDecl)
			if r.Chance(40) {
				d += ";" + r.Pick(c09XmlStyleDecl)
			}
			q := r.Pick([]string{"\"", "'"})
			if q == "'" {
				d = strings.ReplaceAll(d, "'", "&apos;")
			} else {
				d = strings.ReplaceAll(d, "\"", "&quot;")
			}
			sb.WriteString("<rect style=" + q + d + q + "/>")
		case "path":
			sb.WriteString("<path d=\"" + r.Pick(c09XmlPaths) + "\"" + r.Pick([]string{"", " fill=\"#FF0000\"", " stroke='BLACK'", " fill=\"url(#a)\""}) + "/>")
		case "ns":
			sb.WriteString(r.Pick([]string{"<sodipodi:namedview a=\"b\"><x/>t</sodipodi:namedview>", "<g inkscape:label=\"x\" id=\"g1\"><rect/></g>", "<use xlink:href=\"#a\"/>", "<text xml:space=\"preserve\"> a  b </text>",
				"<" + pre + "g><" + pre + "rect/></" + pre + "g>", "<metadata><rdf:RDF><cc:Work rdf:about=\"\">]]&gt;</cc:Work></rdf:RDF></metadata>", "<metadata/>", "<defs/>", "<defs></defs>", "<defs><g id=\"a\"/></defs>", "<g></g>", "<g> </g>",
				"<svg width=\"5\"><rect/></svg>", "<svg x=\"0\" version=\"1.1\"><g/></svg>", "<foreignObject><div xmlns=\"http://www.w3.org/1999/xhtml\">a <b> c </b></div></foreignObject>", "<a:b/>t", "<a:b>]]</a:b>&gt;"}))
		case "comments":
			sb.WriteString(r.Pick([]string{"<text>]]<!--c-->&gt;</text>", "<!-- a - b -->", "<text>a<!---->b</text>", "<g><!-- x --></g>", "<text>]<!--]-->]<!--c-->&gt;</text>", "<!--]]--><text>&gt;</text>"}))
		default:
			sb.WriteString("<rect width=\"10px\" height=\"0.50\"/>")
		}
		if r.Chance(20) {
			sb.WriteString(r.Pick([]string{" ", "\n", "<!--c-->", "t", "]]"}))
		}
	}
	sb.WriteString("</" + pre + "svg>")
	return sb.String()
}

// ---------- big documents from the corpus ----------

var c09XmlPrologRe = regexp.MustCompile(`(?s)^\s*(<\?xml[^>]*\?>)?\s*(<!--.*?-->\s*)*(<!DOCTYPE[^\[>]*(\[.*?\])?\s*>)?\s*`)

func c09XmlCorpus(repo, dir, ext string, maxBytes int) [][]byte {
	var out [][]byte
	files, _ := filepath.Glob(filepath.Join(repo, "tests", dir, "corpus", "*"))
	more, _ := filepath.Glob(filepath.Join(repo, "_benchmarks", "sample_*."+ext))
	files = append(files, more...)
	sort.Strings(files)
	for _, f := range files {
		if b, err := os.ReadFile(f); err == nil && len(b) > 0 && len(b) <= maxBytes {
			out = append(out, b)
		}
	}
	return out
}

func c09XmlBig(r *h.RNG, pool [][]byte, svg bool, target int) []byte {
	var sb bytes.Buffer
	root := "big"
	if svg {
		root = "svg"
		sb.WriteString("<?xml version=\"1.0\"?><svg xmlns=\"http://www.w3.org/2000/svg\" xmlns:xlink=\"http://www.w3.org/1999/xlink\">")
	} else {
		sb.WriteString("<?xml version=\"1.0\"?><!DOCTYPE big [<!ENTITY e \"v\">]><big>")
	}
	hz := []string{"attr", "cdend", "cdata", "misc", "collapse"}
	hzs := []string{"text", "attr", "style-attr", "path", "ns", "comments"}
	for sb.Len() < target && len(pool) > 0 {
		doc := pool[r.Intn(len(pool))]
		body := doc[len(c09XmlPrologRe.Find(doc)):]
		sb.Write(body)
		sb.WriteString("\n")
		// a hazard fragment between the pieces (its own prolog removed)
		var frag string
		if svg {
			frag = c09XmlGenSVG(r, hzs[r.Intn(len(hzs))])
		} else {
			frag = c09XmlGenXML(r, hz[r.Intn(len(hz))])
		}
		fb := []byte(frag)
		rootAt := bytes.Index(fb, []byte("<r"))
		if svg {
			rootAt = bytes.Index(fb, []byte("<svg"))
		}
		if rootAt >= 0 && c09XMLValid(fb) { // only well-formed fragments: one ill-formed piece would take the whole document out of the judgement
			sb.Write(fb[rootAt:])
		}
	}
	sb.WriteString("</" + root + ">")
	return sb.Bytes()
}

// ---------- SVG structure comparison on the tokens of the independent tokeniser ----------

type c09XmlElem struct {
	name  string
	attrs [][2]string // name, raw literal
}

var c09XmlPlainAttr = map[string]bool{"id": true, "class": true, "data-x": true, "title": true, "lang": true, "xlink:href": true, "aria-label": true, "k": true}

func c09XmlNormVal(raw string) string {
	if len(raw) >= 2 {
		raw = raw[1 : len(raw)-1]
	}
	var wf []string
	cs := c06Decode(raw, true, &wf)
	var sb strings.Builder
	for _, c := range cs {
		if c.r < 0 {
			sb.WriteString("&" + c.ent + ";")
		} else {
			sb.WriteRune(c.r)
		}
	}
	return strings.Join(strings.FieldsFunc(sb.String(), func(r rune) bool { return r == ' ' || r == '\n' || r == '\t' || r == '\r' || r == '\f' }), " ")
}

func c09XmlTextOf(raw string, cdata bool) string {
	var sb strings.Builder
	if cdata {
		sb.WriteString(raw)
	} else {
		var wf []string
		for _, c := range c06Decode(raw, false, &wf) {
			if c.r < 0 {
				sb.WriteString("&" + c.ent + ";")
			} else {
				sb.WriteRune(c.r)
			}
		}
	}
	return strings.Map(func(r rune) rune {
		if r == ' ' || r == '\n' || r == '\t' || r == '\r' || r == '\f' {
			return -1
		}
		return r
	}, sb.String())
}

// c09XmlSvgView: elements in document order and the character data outside style/script elements; with
// simulate=true the documented drops of svg.go are applied (metadata and foreign-namespace subtrees, the
// `<defs x="y"/>` quirk K-C05-7, the `svg:` prefix); nested=false when element nesting is broken.
func c09XmlSvgView(toks []c09XmlTok, simulate bool) (elems []c09XmlElem, text string, nested bool) {
	nested = true
	var stack []string
	var sb strings.Builder
	skipDepth := -1 // stack depth at which a dropped subtree started
	for i := 0; i < len(toks); i++ {
		t := toks[i]
		switch t.kind {
		case 4: // start tag
			name := t.text
			if simulate {
				name = strings.TrimPrefix(name, "svg:")
			}
			drop := false
			if simulate && skipDepth < 0 {
				if name == "metadata" || strings.Contains(name, ":") {
					drop = true
				} else if name == "defs" && i+2 < len(toks) && toks[i+1].kind == 10 && toks[i+2].kind == 7 {
					drop = true
				}
			}
			stack = append(stack, name)
			if drop {
				skipDepth = len(stack)
			}
			if skipDepth < 0 {
				e := c09XmlElem{name: name}
				for j := i + 1; j < len(toks) && toks[j].kind == 10; j++ {
					e.attrs = append(e.attrs, [2]string{toks[j].text, toks[j].attr})
				}
				elems = append(elems, e)
			}
		case 7: // />
			if len(stack) == 0 {
				nested = false
			} else {
				if skipDepth == len(stack) {
					skipDepth = -1
				}
				stack = stack[:len(stack)-1]
			}
		case 9: // end tag
			name := t.text
			if simulate {
				name = strings.TrimPrefix(name, "svg:")
			}
			if len(stack) == 0 || stack[len(stack)-1] != name {
				nested = false
				if len(stack) > 0 {
					stack = stack[:len(stack)-1]
				}
			} else {
				if skipDepth == len(stack) {
					skipDepth = -1
				}
				stack = stack[:len(stack)-1]
			}
		case 11, 3:
			if skipDepth < 0 {
				in := ""
				if len(stack) > 0 {
					in = stack[len(stack)-1]
				}
				if in != "style" && in != "script" {
					if t.kind == 3 {
						sb.WriteString(c09XmlTextOf(t.text, true))
					} else {
						sb.WriteString(c09XmlTextOf(t.data, false))
					}
				}
			}
		}
	}
	if len(stack) != 0 {
		nested = false
	}
	return elems, sb.String(), nested
}

func c09XmlSvgCompare(in, out []c09XmlTok) []string {
	var bad []string
	ie, itext, inest := c09XmlSvgView(in, true)
	oe, otext, onest := c09XmlSvgView(out, false)
	if inest && !onest {
		bad = append(bad, "nest")
	}
	if !inest {
		return bad
	}
	if len(ie) != len(oe) {
		bad = append(bad, fmt.Sprintf("elements %d vs %d", len(ie), len(oe)))
		return bad
	}
	for i := range ie {
		if ie[i].name != oe[i].name {
			bad = append(bad, "element "+ie[i].name+" vs "+oe[i].name)
			return bad
		}
		// attribute names of the output: a subsequence of the input's; plain attributes keep their value
		j := 0
		for _, oa := range oe[i].attrs {
			for j < len(ie[i].attrs) && ie[i].attrs[j][0] != oa[0] {
				j++
			}
			if j == len(ie[i].attrs) {
				bad = append(bad, "attribute "+oa[0]+" of "+oe[i].name+" not in the input")
				break
			}
			if c09XmlPlainAttr[oa[0]] {
				if a, b := c09XmlNormVal(ie[i].attrs[j][1]), c09XmlNormVal(oa[1]); a != b {
					bad = append(bad, fmt.Sprintf("value of %s: %q vs %q", oa[0], a, b))
				}
			}
			j++
		}
		for _, ia := range ie[i].attrs {
			if c09XmlPlainAttr[ia[0]] {
				found := false
				for _, oa := range oe[i].attrs {
					found = found || oa[0] == ia[0]
				}
				if !found {
					bad = append(bad, "attribute "+ia[0]+" of "+ie[i].name+" dropped")
				}
			}
		}
	}
	if itext != otext {
		bad = append(bad, fmt.Sprintf("character data %q vs %q", trunc([]byte(itext), 80), trunc([]byte(otext), 80)))
	}
	return bad
}

// ---------- known findings of this slice ----------

var c09XmlStyleElemRe = regexp.MustCompile(`(?s)<style[^>]*>(.*?)</style\s*>`)
var c09XmlStyleAttrRe = regexp.MustCompile(`(?s)\sstyle\s*=\s*("[^"]*"|'[^']*')`)
var c09XmlBareAmpRe = regexp.MustCompile(`&(#[0-9]+;|#x[0-9a-fA-F]+;|[A-Za-z_:][-A-Za-z0-9_:.]*;)?`)

func c09XmlHasBareAmp(s string) bool {
	for _, m := range c09XmlBareAmpRe.FindAllString(s, -1) {
		if m == "&" {
			return true
		}
	}
	return false
}

// c09XmlLexerKnown: the deviation of the dependency lexer from XML 1.0 on the INPUT that is recorded as an open known
// finding: K-C09-Xml-4 the DOCTYPE token of the real lexer is not the DOCTYPE declaration (it ends at the first `>` after
// a `]` outside a double-quoted literal, or runs on after an unpaired `"`).  (K-C09-Xml-5, `>` inside PI data, is fixed
// in /repo 59fe76b: such inputs are judged like any other.)
func c09XmlLexerKnown(real []c06Tok, mine []c09XmlTok) string {
	var rd, md []string
	for _, t := range real {
		if t.tt == pxml.DOCTYPEToken {
			rd = append(rd, string(t.data))
		}
	}
	for _, t := range mine {
		if t.kind == 2 {
			md = append(md, t.data)
		}
	}
	if strings.Join(rd, "\x00") != strings.Join(md, "\x00") {
		return "K-C09-Xml-4"
	}
	return ""
}

// ---------- one batch of cases ----------

type c09XmlCase struct {
	hazard    string
	in        []byte
	cfg       c09XmlCfg
	out, out2 []byte
	lexIn     []c06Tok
	line0     int // index of the first request line of this case
}

func c09XmlHazardTags(st *h.Stage, cs *c09XmlCase, outToks []c09XmlTok) {
	in, out := cs.in, cs.out
	if bytes.Contains(out, []byte("]]&gt;")) {
		st.Tag("hazard=cdend-split")
	}
	if bytes.Contains(out, []byte("<![CDATA[")) {
		st.Tag("hazard=cdata-kept")
	}
	if bytes.Count(in, []byte("<![CDATA[")) > bytes.Count(out, []byte("<![CDATA[")) {
		st.Tag("hazard=cdata-to-text")
	}
	if bytes.Count(out, []byte("/>")) > bytes.Count(in, []byte("/>")) {
		st.Tag("hazard=empty-collapse")
	}
	if bytes.Contains(out, []byte("<!--")) {
		st.Tag("hazard=comment-kept")
	}
	if bytes.Contains(out, []byte("<!DOCTYPE")) && bytes.Contains(out, []byte("[")) {
		st.Tag("hazard=doctype-subset")
	}
	both, ltamp, wsref, esc := false, false, false, false
	style, path := false, false
	for _, t := range outToks {
		switch t.kind {
		case 10:
			v := t.attr
			if (strings.Contains(v, "&#34;") || strings.Contains(v, "&#39;")) && len(v) > 0 {
				esc = true
			}
			if len(v) >= 2 && ((v[0] == '"' && strings.Contains(v, "'")) || (v[0] == '\'' && strings.Contains(v, "\""))) && esc {
				both = true
			}
			if strings.Contains(v, "&lt;") || strings.Contains(v, "&amp;") || strings.Contains(v, "&#60;") || strings.Contains(v, "&#38;") {
				ltamp = true
			}
			if strings.Contains(v, "&#9;") || strings.Contains(v, "&#10;") || strings.Contains(v, "&#13;") {
				wsref = true
			}
			if t.text == "style" {
				style = true
			}
			if t.text == "d" {
				path = true
			}
		case 5:
			st.Tag("hazard=pi-kept")
		}
	}
	if esc {
		st.Tag("hazard=attr-quote-escaped")
	}
	if both {
		st.Tag("hazard=attr-both-quotes")
	}
	if ltamp {
		st.Tag("hazard=attr-lt-amp-ref")
	}
	if wsref {
		st.Tag("hazard=attr-ws-ref")
	}
	if style {
		st.Tag("hazard=style-attr")
	}
	if path {
		st.Tag("hazard=path-data")
	}
	if cs.cfg.svg {
		if m := c09XmlStyleElemRe.FindSubmatch(out); m != nil && len(bytes.TrimSpace(m[1])) > 0 {
			st.Tag("hazard=style-element")
		}
		if bytes.Contains(in, []byte("<metadata")) && !bytes.Contains(out, []byte("<metadata")) {
			st.Tag("hazard=metadata-dropped")
		}
		if bytes.Count(out, []byte("<svg")) > 1 {
			st.Tag("hazard=nested-svg")
		}
		if bytes.Contains(in, []byte("inkscape:")) || bytes.Contains(in, []byte("sodipodi:")) || bytes.Contains(in, []byte("<a:b")) {
			st.Tag("hazard=ns-dropped")
		}
	}
}

func c09XmlRun(c *Ctx, st *h.Stage, cases []*c09XmlCase) error {
	var lines []string
	var live []*c09XmlCase
	for _, cs := range cases {
		cs := cs
		var err error
		if crash := h.Safely(60*time.Second, func() { cs.out, err = cs.cfg.run(cs.in) }); crash != "" {
			c.R.Add(h.Finding{Stage: st.Name, Kind: "crash", What: crash, Input: h.Q(trunc(cs.in, 300)), Hex: h.Hex(trunc(cs.in, 200000)), Config: cs.cfg.name})
			continue
		}
		key := cs.cfg.name + " " + cs.hazard + " " + h.Q(trunc(cs.in, 160))
		if err != nil {
			st.Count(key, false)
			st.Tag("rejected")
			continue
		}
		st.Count(key, !bytes.Equal(cs.in, cs.out))
		var err2 error
		if crash := h.Safely(60*time.Second, func() { cs.out2, err2 = cs.cfg.run(cs.out) }); crash != "" || err2 != nil {
			c.R.Add(h.Finding{Stage: st.Name, Kind: "fail", What: "second pass on the output fails: " + crash + fmt.Sprint(err2), Input: h.Q(trunc(cs.in, 300)), Hex: h.Hex(trunc(cs.in, 200000)), Config: cs.cfg.name, Impl: h.Q(trunc(cs.out, 300))})
			continue
		}
		if bytes.Equal(cs.out, cs.out2) {
			st.Tag("second=fixed-point")
		} else {
			st.Tag("second=changes")
		}
		cs.lexIn = c06Lex(cs.in)
		cs.line0 = len(lines)
		lines = append(lines,
			"spec.c09.xml.tokens "+h.Hex(cs.in),
			"spec.c09.xml.tokens "+h.Hex(cs.out),
			"spec.c09.xml.cmp "+h.Bool(cs.cfg.keep)+" "+h.Hex(cs.in)+" "+h.Hex(cs.out),
			"spec.c09.xml.contract "+c06Groups(cs.lexIn),
			"spec.c09.xml.agree "+h.Hex(cs.out)+" "+c06Groups(c06Lex(cs.out)),
			"spec.c09.xml.tokens "+h.Hex(cs.out2),
			"model.c09.xml.pass "+h.Bool(cs.cfg.keep)+" "+h.Hex(cs.in))
		live = append(live, cs)
	}
	replies, err := h.Eval(lines)
	if err != nil {
		return err
	}
	for _, cs := range live {
		inToks, inOK, e1 := c09XmlDecodeToks(replies[cs.line0])
		outToks, outOK, e2 := c09XmlDecodeToks(replies[cs.line0+1])
		clauses, e3 := c09XmlClauses(replies[cs.line0+2])
		contract, e4 := c09XmlClauses(replies[cs.line0+3])
		agreeB, good5, msg5 := h.DecodeReply(replies[cs.line0+4])
		_, out2OK, e6 := c09XmlDecodeToks(replies[cs.line0+5])
		for _, e := range []error{e1, e2, e3, e4, e6} {
			if e != nil {
				return fmt.Errorf("c09 xml: %v (input %s)", e, h.Q(trunc(cs.in, 200)))
			}
		}
		if !good5 {
			return fmt.Errorf("c09 xml: agree: %s", msg5)
		}
		known := func() string {
			return c09XmlLexerKnown(cs.lexIn, inToks)
		}
		report := func(what, detail string) {
			if k := known(); k != "" {
				c.R.ExcludedKnown++
				st.Tag("known=" + k)
				if d := os.Getenv("C09XML_DEBUG"); d != "" {
					f, _ := os.OpenFile(filepath.Join(d, "excluded.txt"), os.O_APPEND|os.O_CREATE|os.O_WRONLY, 0o644)
					fmt.Fprintf(f, "%s %s | %s\n  IN  %q\n  OUT %q\n", k, cs.cfg.name, what, trunc(cs.in, 600), trunc(cs.out, 600))
					f.Close()
				}
				return
			}
			c.R.Add(h.Finding{Stage: st.Name, Kind: "fail", What: what, Input: h.Q(trunc(cs.in, 400)), Hex: h.Hex(trunc(cs.in, 200000)), Config: cs.cfg.name, Impl: h.Q(trunc(cs.out, 400)) + " " + detail})
		}
		if !inOK {
			st.Tag("input=not-accepted")
			if d := os.Getenv("C09XML_DEBUG"); d != "" && len(cs.in) > 5000 {
				os.WriteFile(filepath.Join(d, fmt.Sprintf("rej-%d.xml", cs.line0)), cs.in, 0o644)
			}
			// the minifiers are no validators: nothing is demanded of the output
			continue
		}
		st.Tag("input=accepted")
		if len(contract) == 0 {
			st.Tag("lexer-contract=holds")
		} else {
			st.Tag("lexer-contract=" + strings.Join(contract, "+"))
			if d := os.Getenv("C09XML_DEBUG"); d != "" && known() == "" {
				f, _ := os.OpenFile(filepath.Join(d, "contract.txt"), os.O_APPEND|os.O_CREATE|os.O_WRONLY, 0o644)
				fmt.Fprintf(f, "%v %s\n  IN  %q\n", contract, cs.cfg.name, trunc(cs.in, 400))
				f.Close()
			}
		}
		c09XmlHazardTags(st, cs, outToks)
		if !outOK {
			report("the independent XML tokeniser accepts the input but not the output", "")
			continue
		}
		ev := c09XMLValid(cs.in) && c09XMLNoOddDirective(cs.in)
		if ev && !c09XMLValid(cs.out) && !c09XMLValid(c09XmlRender(outToks)) {
			report("encoding/xml accepts the input but not the output", "")
			continue
		}
		if cs.cfg.svg {
			if bad := c09XmlSvgCompare(inToks, outToks); len(bad) > 0 {
				report("SVG element/attribute/character structure of the output differs from the intended one", strings.Join(bad, "; "))
				continue
			}
		} else if len(clauses) > 0 {
			report("XML token structure of the output differs from the input: "+strings.Join(clauses, ","), "")
			continue
		}
		switch string(agreeB) {
		case "1":
			st.Tag("real-lexer=agrees")
		case "0":
			// the real lexer reads the output differently from the independent tokeniser.  When the lexer contract holds
			// for the input the theorems predict agreement (model/contract mismatch: diff); otherwise it is one of the
			// lexer's deviations from XML 1.0 (DOCTYPE, PI data) or a verbatim copy (SVG: PIs, foreignObject)
			if len(contract) == 0 && !cs.cfg.svg {
				c.R.Add(h.Finding{Stage: st.Name, Kind: "diff", What: "lexer contract holds for the input, yet the dependency lexer and the independent tokeniser read the output differently", Input: h.Q(trunc(cs.in, 400)), Hex: h.Hex(trunc(cs.in, 200000)), Config: cs.cfg.name, Impl: h.Q(trunc(cs.out, 400))})
				continue
			}
			st.Tag("real-lexer=differs")
		}
		if !out2OK {
			report("the output of the second pass is not accepted by the independent tokeniser", h.Q(trunc(cs.out2, 300)))
		}
		// bytes-level tie of `xml_accepted_in_accepted_out`: where the real lexer keeps its contract and the document has no
		// PI (whose data the real lexer splits into items and rewrites), the model on the tokeniser's tokens predicts the bytes
		if !cs.cfg.svg && len(contract) == 0 && !bytes.Contains(cs.in, []byte("<?")) {
			pb, good, msg := h.DecodeReply(replies[cs.line0+6])
			if !good {
				return fmt.Errorf("c09 xml: pass: %s", msg)
			}
			items := h.DecodeListReply(pb)
			if len(items) == 2 && string(items[0]) == "1" {
				st.Tag("bytes-model=compared")
				if !bytes.Equal(items[1], cs.out) {
					c.R.Add(h.Finding{Stage: st.Name, Kind: "diff", What: "model of xml.Minify on the tokens of the independent tokeniser vs xml.Minify bytes", Input: h.Q(trunc(cs.in, 400)), Hex: h.Hex(trunc(cs.in, 200000)), Config: cs.cfg.name, Impl: h.Q(trunc(cs.out, 400)), Model: h.Q(trunc(items[1], 400))})
				}
			}
		}
	}
	return nil
}

// ---------- tie of the SVG writer model (Model/C09SvgText.lean) to svg.go ----------

func c09XmlSvgModel(c *Ctx, n int) error {
	st := c.R.StartStage("c09-xml-svgmodel", "model.c09.xml.svgtext / svgcdata / svgattr (Lean model of the TextToken, CDATAToken and attribute-value writers of svg.go with bw.n = 0..3) against svg.Minify on documents `<svg><text>]]<!--c-->DATA</text></svg>`, `…<![CDATA[TXT]]>…`, `<svg><g id=\"BODY\"/></svg>` (no sub-minifier registered), and model.c09.xml.svgstyletext / svgstylecdata / svgstyleattr (the same writers inside `style` / for the `style` attribute, the sub-minifier function instantiated with the real CSS minifier's result on the data the host gives it: isCharData check, `]]>` check, escapeCDEnd after the sub-minifier) against svg.Minify with the CSS minifier registered; DATA/TXT/BODY over the hazard alphabets; non-trivial = the written bytes differ from the source bytes")
	defer st.End()
	bare := minify.New()
	run := func(in string) (string, bool) {
		var w bytes.Buffer
		var err error
		if crash := h.Safely(20*time.Second, func() { err = (&minsvg.Minifier{}).Minify(bare, &w, strings.NewReader(in), nil) }); crash != "" || err != nil {
			return "", false
		}
		return w.String(), true
	}
	isWsOnly := func(s string) bool { return strings.Trim(s, " \t\n\r\f") == "" }
	mCSS := c09XmlDefaultM()
	runCSS := func(in string) (string, bool) {
		var w bytes.Buffer
		var err error
		if crash := h.Safely(20*time.Second, func() { err = (&minsvg.Minifier{}).Minify(mCSS, &w, strings.NewReader(in), nil) }); crash != "" || err != nil {
			return "", false
		}
		return w.String(), true
	}
	cssMin := func(css []byte, inline bool) (string, bool) {
		var w bytes.Buffer
		var params map[string]string
		if inline {
			params = map[string]string{"inline": "1"}
		}
		if err := mCSS.MinifyMimetype([]byte("text/css"), &w, bytes.NewReader(append([]byte(nil), css...)), params); err != nil {
			return "", false
		}
		return w.String(), true
	}
	var cases []h.Case
	// the writers inside `style` / for the `style` attribute: f := the real CSS minifier's answer
	for k := 0; k < n/2; k++ {
		r := c.Rng.Fork()
		switch k % 3 {
		case 0:
			data := r.Pick(c09XmlCSS)
			if r.Chance(50) {
				data += r.Pick([]string{" ", "", "\n"}) + r.Pick(c09XmlCSS)
			}
			if isWsOnly(data) || strings.Contains(data, "]]>") {
				continue
			}
			pre := parse.TrimWhitespace(parse.ReplaceMultipleWhitespaceAndEntities([]byte(data), minxml.EntitiesMap, minxml.TextRevEntitiesMap))
			m, ok1 := cssMin(pre, false)
			out, ok := runCSS("<svg><style>" + data + "</style></svg>")
			if !ok1 || !ok || !strings.HasPrefix(out, "<svg><style>") || !strings.HasSuffix(out, "</style></svg>") {
				st.Tag("skipped")
				continue
			}
			got := out[len("<svg><style>") : len(out)-len("</style></svg>")]
			st.Tag("writer=style-text")
			if m != string(pre) && got == m {
				st.Tag("style-text=sub-minifier-result-used")
			} else if m != string(pre) {
				st.Tag("style-text=result-rejected-or-escaped")
			}
			cases = append(cases, h.Case{Line: "model.c09.xml.svgstyletext " + h.Int(0) + " " + h.HexS(data) + " " + h.HexS(m), Key: fmt.Sprintf("style text %q css=%q", data, m), InHex: h.HexS(data), Want: []byte(got), Nontrivial: got != data})
		case 1:
			txt := c09XmlCSSForCData(r.Pick(c09XmlCSS))
			if r.Chance(50) {
				txt += "a{b:\"" + strings.Repeat("<", 3+r.Intn(4)) + r.Pick([]string{"", "&", "&&"}) + "\"}"
			}
			m, ok1 := cssMin([]byte(txt), false)
			out, ok := runCSS("<svg><style><![CDATA[" + txt + "]]></style></svg>")
			if !ok1 || !ok || !strings.HasPrefix(out, "<svg><style>") || !strings.HasSuffix(out, "</style></svg>") {
				st.Tag("skipped")
				continue
			}
			got := out[len("<svg><style>") : len(out)-len("</style></svg>")]
			st.Tag("writer=style-cdata")
			if strings.Contains(m, "]]>") {
				st.Tag("style-cdata=result-with-cdend-rejected")
			}
			cases = append(cases, h.Case{Line: "model.c09.xml.svgstylecdata " + h.Int(0) + " " + h.HexS("<![CDATA["+txt+"]]>") + " " + h.HexS(txt) + " " + h.HexS(m), Key: fmt.Sprintf("style cdata %q css=%q", txt, m), InHex: h.HexS(txt), Want: []byte(got), Nontrivial: got != "<![CDATA["+txt+"]]>"})
		default:
			d := r.Pick(c09XmlStyleDecl)
			if r.Chance(50) {
				d += ";" + r.Pick(c09XmlStyleDecl)
			}
			d = strings.ReplaceAll(d, "\"", "&quot;")
			pre := parse.TrimWhitespace(parse.ReplaceMultipleWhitespaceAndEntities([]byte(d), minxml.EntitiesMap, minxml.AttrRevEntitiesMap))
			m, ok1 := cssMin(pre, true)
			out, ok := runCSS("<svg><g style=\"" + d + "\"/></svg>")
			if !ok1 || !ok || !strings.HasPrefix(out, "<svg><g style=") || !strings.HasSuffix(out, "/></svg>") {
				st.Tag("skipped")
				continue
			}
			got := out[len("<svg><g style=") : len(out)-len("/></svg>")]
			st.Tag("writer=style-attr")
			cases = append(cases, h.Case{Line: "model.c09.xml.svgstyleattr " + h.HexS(d) + " " + h.HexS(m), Key: fmt.Sprintf("style attr %q css=%q", d, m), InHex: h.HexS(d), Want: []byte(got), Nontrivial: got != "\""+d+"\""})
		}
	}
	for k := 0; k < n; k++ {
		r := c.Rng.Fork()
		pre := r.Pick([]string{"", "", "]", "]]", "]]]"})
		sep := ""
		if pre != "" {
			sep = "<!--c-->"
		}
		switch k % 3 {
		case 0:
			var sb strings.Builder
			for i := 0; i < 1+r.Intn(6); i++ {
				sb.WriteString(r.Pick([]string{"]", "]]", ">", "&gt;", "&#62;", " ", "  ", "\n", "\t ", "x", "y z", "&amp;", "&lt;", "&#60;", "&#38;", "&#32;", "&#10;", "&quot;", "&#x26;#60;", "&e;", "\f", "é"}))
			}
			data := sb.String()
			if isWsOnly(data) {
				continue
			}
			out, ok := run("<svg><text>" + pre + sep + data + "</text></svg>")
			if !ok || !strings.HasPrefix(out, "<svg><text>"+pre) || !strings.HasSuffix(out, "</text></svg>") {
				st.Tag("skipped")
				continue
			}
			got := out[len("<svg><text>"+pre) : len(out)-len("</text></svg>")]
			st.Tag("writer=text")
			cases = append(cases, h.Case{Line: "model.c09.xml.svgtext " + h.Int(int64(len(pre))) + " " + h.HexS(data), Key: fmt.Sprintf("text n=%d %q", len(pre), data), InHex: h.HexS(data), Want: []byte(got), Nontrivial: got != data})
		case 1:
			var sb strings.Builder
			for i := 0; i < r.Intn(7); i++ {
				sb.WriteString(r.Pick([]string{"]", "]]", ">", "<", "<", "&", " ", "  ", "\n", "x", "y z", "&amp;", "]>", "\t", "é"}))
			}
			txt := strings.ReplaceAll(sb.String(), "]]>", "]] >")
			out, ok := run("<svg><text>" + pre + sep + "<![CDATA[" + txt + "]]></text></svg>")
			if !ok || !strings.HasPrefix(out, "<svg><text>"+pre) || !strings.HasSuffix(out, "</text></svg>") {
				st.Tag("skipped")
				continue
			}
			got := out[len("<svg><text>"+pre) : len(out)-len("</text></svg>")]
			st.Tag("writer=cdata")
			cases = append(cases, h.Case{Line: "model.c09.xml.svgcdata " + h.Int(int64(len(pre))) + " " + h.HexS("<![CDATA["+txt+"]]>") + " " + h.HexS(txt), Key: fmt.Sprintf("cdata n=%d %q", len(pre), txt), InHex: h.HexS(txt), Want: []byte(got), Nontrivial: got != "<![CDATA["+txt+"]]>"})
		default:
			q := byte('"')
			if r.Bool() {
				q = '\''
			}
			body := c09XmlAttrBody(r, q)
			out, ok := run("<svg><g id=" + string(q) + body + string(q) + "/></svg>")
			if !ok || !strings.HasPrefix(out, "<svg><g id=") || !strings.HasSuffix(out, "/></svg>") {
				st.Tag("skipped")
				continue
			}
			got := out[len("<svg><g id=") : len(out)-len("/></svg>")]
			// the lexer replaces TAB, LF and CR inside a quoted value by spaces before svg.go sees it
			lexed := strings.Map(func(r rune) rune {
				if r == '\t' || r == '\n' || r == '\r' {
					return ' '
				}
				return r
			}, body)
			st.Tag("writer=attr")
			cases = append(cases, h.Case{Line: "model.c09.xml.svgattr " + h.HexS(lexed), Key: fmt.Sprintf("attr %q", body), InHex: h.HexS(body), Want: []byte(got), Nontrivial: got != string(q)+body+string(q)})
		}
	}
	return h.CompareAll(c.R, st, "svg writer model vs svg.Minify", cases)
}

// ---------- stages ----------

var c09XmlFixedXML = []string{
	// inputs of the fixed findings 41cc98f (attribute references), 9a0c504 (`]]>`), 604975d, 34fd522, ce8fb25
	"<a b=\"x&#60;y &#38; z&#10;\"/>", "<a b=\"x&#60;y\"/>", "<a b=\"&#9;&#10;&#13;\"/>", "<a>]]&gt;</a>", "<a><![CDATA[a]]]]><![CDATA[>b]]></a>", "<a>x <![CDATA[y]]> z</a>", "<b> </b>", "<?php echo \"x\"; ?><a/>",
	"<a>]]<!-- note -->&gt;<b><![CDATA[x]]]]><!--c--><![CDATA[>y]]></b><c>]]&#62;</c></a>", "<a b='x\"y' c=\"x'y\" d='&quot;&apos;' e=\"&#34;&#39;&lt;&amp;&#9;&#10;&#13;>\"/>",
	"<a b = \"c\"  d  =  'e' />", "<a><![CDATA[ x ]]></a>", "<a>a&#32; b</a>", "<!DOCTYPE a [<!ENTITY e \"x>y\"><!-- ] > -->]><a>&e;</a>", "<a><![CDATA[<<<<<]]]]><![CDATA[>]]></a>", "<a><![CDATA[<<<<]]]]><![CDATA[>]]></a>",
	"<a>]]<![CDATA[>]]></a>", "<a>]<![CDATA[]]]><![CDATA[>]]></a>", "<a>]]<?p ?>&gt;</a>", "<a>&#x26;#60;</a>", "<a b=\"&#38;lt;\"/>", "<a b=\"&amp;#60;\"/>", "<a> &#x20; </a>", "<a><b></b><c> </c><d\n></d ></a>",
	// K-C09-Xml-1 and K-C09-Xml-5 (fixed in 59fe76b): every variant
	"<a><?x k=\"?&gt;\"?></a>", "<?x a=\"?&gt;\"?><a/>", "<?x a=\"?&#62;\" b=\"c\"?><a/>", "<a><?x k=\"?&#x3e;\" l='?&gt;'?></a>",
	"<r><?p >?></r>", "<r><?p ? >?></r>", "<r><?p />?></r>", "<r><?p a >b?></r>", "<r><?p a=\"b\">?></r>", "<r>x <?p > y ?> z</r>",
	"<a><?x a='?&gt;'?></a>", "<a><?x ?&gt;?></a>", "<a><?x a=\"b\"c=\"d\" \"e\"?></a>", "<a b=\"]]>\"/>", "<a>x&#60;![CDATA[y</a>",
}

var c09XmlFixedSVG = []string{
	"<svg><text>]]&gt;</text></svg>", "<svg><text>]]<!--c-->&gt;</text></svg>", "<svg><text><![CDATA[]]]]><![CDATA[>]]></text></svg>", "<svg><text>]]<metadata/>&gt;</text></svg>",
	"<svg><use xlink:href=\"#a\"/></svg>", "<svg:svg xmlns:svg=\"http://www.w3.org/2000/svg\"><svg:g></svg:g></svg:svg>", "<svg><g id=\"1.50\"/></svg>", "<svg data-x=\"1.50px\"/>",
	"<svg b=\"x&#60;y &#38; z&#10;\"/>", "<svg><style>a{b:c}</style><text> a &lt; b </text></svg>", "<svg><style><![CDATA[a[b]]]]><![CDATA[>c{d:\"<<<<<\"}]]></style></svg>", "<svg><style>a{content:\"&amp;\"}</style></svg>",
	"<svg style=\"content:'&amp;'\"/>", "<svg style=\"a:'&quot;&lt;'\"/>", "<?xml version=\"1.0\"?><!DOCTYPE svg [<!ENTITY e \"v\">] ><?xml-stylesheet href=\"a.css\"?><svg><text>&e;</text></svg>",
	// K-C09-Xml-2 and K-C09-Xml-3 (fixed in d582c28), K-C09-Xml-5 in SVG (59fe76b): every variant
	"<svg><style>a[b]] > c{d:e}</style></svg>", "<svg><style>a[b=\\] ] > c{d:e}</style></svg>", "<svg><style><![CDATA[a[b]] > c{d:\"<<<<<\"}]]></style></svg>",
	"<svg><style><![CDATA[a[b=\\] ] > c{d:\"<<<<<\"}]]></style></svg>", "<svg><style>a{b:c&amp;}</style></svg>", "<svg style=\"a:&lt;\"/>", "<svg style=\"a:&amp;\"/>",
	"<svg><style><![CDATA[a{--x:&}]]></style></svg>", "<svg><style>a{--x:&amp;}</style></svg>", "<svg><rect style='x:&apos;y\"z&apos;;a:&lt;'/></svg>",
	"<svg><?p >?><g></g></svg>", "<svg><?p ? >?>x<g></g></svg>", "<svg><?p />?><g/></svg>",
	"<svg><defs/><defs></defs><g> </g><rect/></svg>", "<svg><path d=\"M 10,10 L 20 20 A 5 5 0 0 1 30 30 z M.5.5 1-2\"/></svg>",
}

func c09XmlStages(c *Ctx) error {
	xmlCfgs, svgCfgs := c09XmlCfgs()

	// ---- known findings of this slice: replay the exact inputs ----
	for _, k := range h.Known("C09") {
		if k.Status != "open" || !strings.HasPrefix(k.ID, "K-C09-Xml-") {
			continue
		}
		in := []byte(k.ReplayStr("input"))
		cfgs := xmlCfgs
		if k.ReplayStr("mediatype") == "image/svg+xml" {
			cfgs = svgCfgs
		}
		out, err := cfgs[0].run(in)
		still := err == nil && string(out) == k.ReplayStr("observed")
		c.R.AddKnown(k.ID, still, k.What, fmt.Sprintf("%q err=%v", out, err))
	}

	st := c.R.StartStage("c09-xml-fixed", "hand-written XML and SVG documents (inputs of the fixed findings 41cc98f / 9a0c504 / 2fde2e2 / 79d51a1 …, one per hazard) x all configurations: real minifier; independent tokeniser spec.c09.xml.tokens on input, output and second-pass output; compareDocs (XML) / element-attribute-text comparison (SVG); encoding/xml as second witness; lexer contract on the real lexer's tokens; non-trivial = output differs from input")
	var cases []*c09XmlCase
	for _, f := range c09XmlFixedXML {
		for _, cfg := range xmlCfgs {
			cases = append(cases, &c09XmlCase{hazard: "fixed", in: []byte(f), cfg: cfg})
		}
	}
	for _, f := range c09XmlFixedSVG {
		for _, cfg := range svgCfgs {
			cases = append(cases, &c09XmlCase{hazard: "fixed", in: []byte(f), cfg: cfg})
		}
	}
	if err := c09XmlRun(c, st, cases); err != nil {
		return err
	}
	st.End()

	n := c.N(700, 30000)
	if c.Search {
		n *= 4
	}
	st = c.R.StartStage("c09-xml-gen", "seeded XML documents per hazard class (attr: quotes/references to < & TAB LF CR/both quote forms; cdend: ] ]] > &gt; split over text/CDATA/comment/PI tokens; cdata: 3*'<'+4*'&' around the 12-byte budget; misc: comments, PIs, DOCTYPE with internal subset; collapse: empty elements) x KeepWhitespace off/on; same judgement as c09-xml-fixed; non-trivial = output differs from input")
	cases = nil
	hz := []string{"attr", "cdend", "cdata", "misc", "collapse"}
	for k := 0; k < n; k++ {
		r := c.Rng.Fork()
		hzd := hz[k%len(hz)]
		cases = append(cases, &c09XmlCase{hazard: hzd, in: []byte(c09XmlGenXML(r, hzd)), cfg: xmlCfgs[r.Intn(len(xmlCfgs))]})
	}
	if err := c09XmlRun(c, st, cases); err != nil {
		return err
	}
	st.End()

	st = c.R.StartStage("c09-xml-svg-gen", "seeded SVG documents per hazard class (text with ]]> pieces; attribute values; style element as text / CDATA / CDATA over budget through the CSS sub-minifier; script; style attribute; path data; namespaced attributes and tags, metadata, defs, nested svg, foreignObject; comments with KeepComments; prolog with DOCTYPE and PIs) x {default minify.M, bare} x KeepComments; same judgement; non-trivial = output differs from input")
	cases = nil
	hzs := []string{"text", "attr", "style-elem", "script", "style-attr", "path", "ns", "comments", "prolog"}
	for k := 0; k < n; k++ {
		r := c.Rng.Fork()
		hzd := hzs[k%len(hzs)]
		cases = append(cases, &c09XmlCase{hazard: hzd, in: []byte(c09XmlGenSVG(r, hzd)), cfg: svgCfgs[r.Intn(len(svgCfgs))]})
	}
	if err := c09XmlRun(c, st, cases); err != nil {
		return err
	}
	st.End()

	if err := c09XmlSvgModel(c, n); err != nil {
		return err
	}

	st = c.R.StartStage("c09-xml-big", "big documents: pieces of /repo/tests/{xml,svg}/corpus and _benchmarks/*.{xml,svg} (prolog removed) concatenated under one root with generated hazard fragments in between, plus every corpus document as it is; same judgement; non-trivial = output differs from input")
	cases = nil
	maxPiece := c.N(80000, 600000)
	target := c.N(60000, 300000)
	xp := c09XmlCorpus(c.Repo, "xml", "xml", maxPiece)
	sp := c09XmlCorpus(c.Repo, "svg", "svg", maxPiece)
	for _, d := range xp {
		cases = append(cases, &c09XmlCase{hazard: "corpus", in: d, cfg: xmlCfgs[0]})
	}
	for _, d := range sp {
		cases = append(cases, &c09XmlCase{hazard: "corpus", in: d, cfg: svgCfgs[0]})
	}
	for k := 0; k < c.N(3, 16); k++ {
		r := c.Rng.Fork()
		cases = append(cases, &c09XmlCase{hazard: "big", in: c09XmlBig(r, xp, false, target), cfg: xmlCfgs[r.Intn(len(xmlCfgs))]})
		cases = append(cases, &c09XmlCase{hazard: "big", in: c09XmlBig(r, sp, true, target), cfg: svgCfgs[r.Intn(len(svgCfgs))]})
	}
	if err := c09XmlRun(c, st, cases); err != nil {
		return err
	}
	st.End()
	return nil
}

// development entry: `corr C09Xml …` runs only the stages of this slice (the property runner is C09)
func init() { register("C09Xml", c09XmlStages) }

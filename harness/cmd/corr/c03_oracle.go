package main

// C03 — independent DOM oracle: parses the input and the minifier's output with golang.org/x/net/html (scripting
// disabled, so that noscript content is compared structurally) and compares the two documents modulo the documented
// changes of the HTML minifier.  All tables below are derived from the HTML standard (rendering section §15.3 for the
// display classes, the attribute index for the value kinds), NOT from the minifier's tables.
//
// c03oCompare(in, out, o) returns "" when the documents are equivalent, otherwise "<signature>: <detail>" for the FIRST
// difference in document order; signatures: element-structure, attr-value, attr-missing, attr-extra, text-words,
// text-space, raw-text (and parse-error).  Method: each document is flattened depth-first into a stream of items --
// word / white space for normal text (adjacent text nodes concatenated, comments ignored), raw text for pre, textarea,
// script, style, listing, xmp, plaintext, iframe, noembed, noframes and svg/math subtrees, and a start and an end
// marker for every element, of kind block ('b'), object ('o', behaves like a word) or inline ('i', transparent).  The
// white space that cannot render is removed from both streams (c03oNormalise) and the streams are compared item by
// item; attributes are compared at the start markers (c03oCmpAttrs) after the documented normalisations.
// Deliberate tolerances: <script></script>/<style></style> without attributes and children are ignored (the minifier
// removes them); white-space-only text directly in select/optgroup/datalist is ignored; everything inside head is a
// block boundary; enumerated, numeric and ID-reference attributes are compared trimmed/collapsed (see c03oTrim).

import (
	"bytes"
	"encoding/base64"
	"fmt"
	"sort"
	"strconv"
	"strings"

	xhtml "golang.org/x/net/html"
)

// c03oOpts mirrors the html.Minifier options that matter for the comparison.
type c03oOpts struct {
	KeepComments, KeepSpecialComments, KeepDefaultAttrVals, KeepDocumentTags, KeepEndTags, KeepQuotes, KeepWhitespace bool
}

func c03oSet(s string) map[string]bool {
	m := map[string]bool{}
	for _, f := range strings.Fields(s) {
		m[f] = true
	}
	return m
}

var (
	// §15.3.3 flow content, §15.3.6 sections and headings, §15.3.7 lists, §15.3.8 tables, §15.3.10 form controls,
	// §15.3.11 hr, §15.3.12 fieldset/legend, details/summary/dialog, frames; br (forced line break); option/optgroup
	// (their label is whitespace-stripped and collapsed)
	c03oBlock = c03oSet(`html body address blockquote center dialog div figure figcaption footer form header hr legend listing
		main p plaintext pre search xmp article aside h1 h2 h3 h4 h5 h6 hgroup nav section dir dd dl dt menu ol ul li table
		caption colgroup col thead tbody tfoot tr td th fieldset details summary optgroup option br frameset frame head`)
	// §15.3.1 hidden elements (display:none): they generate no box, hence are transparent for white space in body;
	// noscript: display:none when scripting is enabled (the usual rendering; the tree is compared with scripting disabled)
	c03oHidden = c03oSet(`area base basefont datalist link meta noembed noframes noscript param rp script style template
		title`)
	// replaced elements, inline-block widgets, ruby annotations, elements with generated content (q), wbr
	c03oObj = c03oSet(`img input button select textarea iframe object video audio canvas meter progress embed applet
		marquee q rt rtc wbr`)
	// content that is not white-space normalised (white-space:pre / RCDATA / raw text)
	// elements whose children are fallback content: either not rendered at all or rendered as inline content of the parent
	c03oFallback = c03oSet(`object video audio canvas applet`)
	c03oPre      = c03oSet(`pre textarea script style listing xmp plaintext iframe noembed noframes`)

	c03oTrim = c03oSet(`class rel rev accesskey headers itemprop itemref itemtype sandbox ping blocking autocomplete allow
		accept-charset for sizes accept coords srcset imagesrcset imagesizes media cols colspan rows rowspan size span height
		width maxlength minlength start tabindex high low max min optimum step as autocapitalize capture contenteditable
		crossorigin decoding dir draggable enctype enterkeyhint fetchpriority formenctype formmethod hidden inputmode kind
		loading method popover popovertargetaction preload referrerpolicy scope shadowrootmode shape spellcheck translate
		wrap type http-equiv charset hreflang lang srclang datetime form list popovertarget usemap is color`)
	c03oURL = c03oSet(`href src action cite data formaction poster profile itemid xmlns manifest longdesc background
		codebase classid`)
	// boolean attributes and the elements they are defined on ("*" = global, "-" = form-associated custom elements)
	c03oBool = map[string]string{"allowfullscreen": "iframe", "async": "script", "autofocus": "*", "autoplay": "audio video",
		"checked": "input", "controls": "audio video", "default": "track", "defer": "script",
		"disabled": "button fieldset input optgroup option select textarea link -", "formnovalidate": "button input",
		"inert": "*", "ismap": "img", "itemscope": "*", "loop": "audio video", "multiple": "input select",
		"muted": "audio video", "nomodule": "script", "novalidate": "form", "open": "details dialog",
		"playsinline": "video", "readonly": "input textarea -", "required": "input select textarea", "reversed": "ol",
		"selected": "option", "shadowrootdelegatesfocus": "template"}
	c03oJSMime = c03oSet(`application/ecmascript application/javascript application/x-ecmascript application/x-javascript
		text/ecmascript text/javascript text/javascript1.0 text/javascript1.1 text/javascript1.2 text/javascript1.3
		text/javascript1.4 text/javascript1.5 text/jscript text/livescript text/x-ecmascript text/x-javascript`)
	c03oMimeTypeOn = c03oSet(`a link embed object source script`)
)

const c03oWS = " \t\n\f\r"

func c03oIsWS(c byte) bool { return c == ' ' || c == '\t' || c == '\n' || c == '\f' || c == '\r' }

// ---------- flattening ----------

type c03oItem struct {
	k byte        // 'w' word, 's' white space, 'r' raw text, 'b' block marker, 'o' object marker, 'i' inline marker
	s string      // bytes of the word / raw text; qualified element name for markers ("/name" for end markers)
	n *xhtml.Node // element (markers) or parent element (text)
	t bool        // transparent for the white-space rules: inline markers, everything inside display:none elements
}

type c03oCtx struct{ pre, head, foreign bool }

func c03oQName(n *xhtml.Node) string {
	if n.Namespace != "" {
		return n.Namespace + ":" + n.Data
	}
	return n.Data
}

func c03oKind(n *xhtml.Node, c c03oCtx) byte {
	switch {
	case c.foreign: // inside svg/math everything is raw; only the root matters for the surrounding white space
		return 'i'
	case n.Namespace != "":
		return 'o'
	case c.head || c03oBlock[n.Data]:
		return 'b'
	case c03oObj[n.Data]:
		return 'o'
	}
	return 'i' // inline, display:contents, display:none in body, unknown and custom elements
}

// c03oEmptyRaw: an empty inline script (no src) or an empty style element has no effect whatever its other attributes are;
// the minifier removes `<script></script>` / `<style></style>` when they are (or, after dropping a default `type`,
// `media`, become) attribute-less.  Such elements are ignored on both sides.
func c03oEmptyRaw(n *xhtml.Node) bool {
	if n.Namespace != "" || (n.Data != "script" && n.Data != "style") || n.FirstChild != nil && !c03oSubMode {
		return false
	}
	for _, a := range n.Attr {
		if a.Key == "src" || a.Key == "id" && a.Val != "" {
			return false
		}
	}
	return true
}

// c03oFlatten appends the items of the subtree of n.  A display:none element outside head generates no box: its
// content is normalised on its own (start and end of the element are block boundaries for the content) and the whole
// subtree is transparent for the white space around it.
func c03oFlatten(n *xhtml.Node, c c03oCtx, out *[]c03oItem) {
	isEl := n.Type == xhtml.ElementNode
	k := byte(0)
	if isEl {
		if k = c03oKind(n, c); k == 'i' && !c.foreign && c03oHidden[n.Data] {
			var sub []c03oItem
			c.pre = c.pre || c03oPre[n.Data]
			c03oChildren(n, c, &sub)
			*out = append(*out, c03oItem{k, c03oQName(n), n, true})
			for _, it := range c03oNormalise(sub) {
				it.t = true
				*out = append(*out, it)
			}
			*out = append(*out, c03oItem{k, "/" + c03oQName(n), n, true})
			return
		}
		*out = append(*out, c03oItem{k, c03oQName(n), n, k == 'i'})
		c.foreign = c.foreign || n.Namespace != ""
		c.pre = c.pre || c.foreign || c03oPre[n.Data]
		c.head = c.head || n.Data == "head"
	}
	c03oChildren(n, c, out)
	if isEl {
		*out = append(*out, c03oItem{k, "/" + c03oQName(n), n, k == 'i'})
	}
}

func c03oChildren(n *xhtml.Node, c c03oCtx, out *[]c03oItem) {
	var buf strings.Builder
	flush := func() {
		t := buf.String()
		buf.Reset()
		switch {
		case t == "":
		case c.pre:
			*out = append(*out, c03oItem{'r', t, n, false})
		case (n.Data == "select" || n.Data == "optgroup" || n.Data == "datalist") && strings.Trim(t, c03oWS) == "":
		default: // adjacent text nodes are already concatenated
			for i := 0; i < len(t); {
				j := i
				for j < len(t) && c03oIsWS(t[j]) == c03oIsWS(t[i]) {
					j++
				}
				if c03oIsWS(t[i]) {
					*out = append(*out, c03oItem{'s', " ", n, false})
				} else {
					*out = append(*out, c03oItem{'w', t[i:j], n, false})
				}
				i = j
			}
		}
	}
	for ch := n.FirstChild; ch != nil; ch = ch.NextSibling {
		switch ch.Type {
		case xhtml.TextNode:
			buf.WriteString(ch.Data)
		case xhtml.ElementNode:
			if !c03oEmptyRaw(ch) {
				flush()
				c03oFlatten(ch, c, out)
			}
		} // comments and doctypes are ignored (text around a comment is concatenated)
	}
	flush()
}

// c03oNormalise removes the white space that does not render: after a block boundary or another kept white space,
// and before a block boundary; transparent items are skipped when looking for the neighbour.  Start and end of the
// stream are block boundaries.  Looking to the right, the END of a replaced / inline-block / ruby-annotation element is
// skipped too (white space at the end of an inline-block is at the end of a line of its block container; fallback
// content of object/video/... is inline content of the parent) -- except q, whose closing quote is generated content.
// Looking to the left, the START of an element with fallback content is skipped for the same reason.
func c03oNormalise(in []c03oItem) []c03oItem {
	var a []c03oItem
	last := byte('b')
	for _, it := range in {
		if !it.t {
			if it.k == 's' && (last == 'b' || last == 's') {
				continue
			}
			if !(it.k == 'o' && c03oFallback[it.s]) {
				last = it.k
			}
		}
		a = append(a, it)
	}
	keep := make([]bool, len(a))
	next := byte('b')
	for i := len(a) - 1; i >= 0; i-- {
		keep[i] = a[i].t || !(a[i].k == 's' && next == 'b')
		if !a[i].t && keep[i] && !(a[i].k == 'o' && a[i].s[0] == '/' && a[i].s != "/q") {
			next = a[i].k
		}
	}
	var b []c03oItem
	for i, it := range a {
		if keep[i] {
			b = append(b, it)
		}
	}
	return b
}

func c03oPath(n *xhtml.Node) string {
	var parts []string
	for ; n != nil && n.Type == xhtml.ElementNode; n = n.Parent {
		idx := 1
		for s := n.PrevSibling; s != nil; s = s.PrevSibling {
			if s.Type == xhtml.ElementNode && !c03oEmptyRaw(s) {
				idx++
			}
		}
		parts = append([]string{fmt.Sprintf("%s[%d]", c03oQName(n), idx)}, parts...)
	}
	return "/" + strings.Join(parts, "/")
}

// ---------- attribute values ----------

func c03oCollapse(v string) string {
	return strings.Join(strings.FieldsFunc(v, func(r rune) bool { return r < 128 && c03oIsWS(byte(r)) }), " ")
}

// c03oMime: lower-case outside quoted strings, white space removed at the ends and around ';' and ','
func c03oMime(v string) string {
	v = strings.Trim(v, c03oWS)
	var b []byte
	inStr := false
	for i := 0; i < len(v); i++ {
		c := v[i]
		switch {
		case c == '"':
			inStr = !inStr
		case inStr:
		case c03oIsWS(c):
			j := i
			for j < len(v) && c03oIsWS(v[j]) {
				j++
			}
			i = j - 1
			if len(b) > 0 && b[len(b)-1] != ';' && b[len(b)-1] != ',' && j < len(v) && v[j] != ';' && v[j] != ',' {
				b = append(b, ' ')
			}
			continue
		case 'A' <= c && c <= 'Z':
			c += 'a' - 'A'
		}
		b = append(b, c)
	}
	return string(b)
}

func c03oPctDecode(s string) []byte {
	var b []byte
	for i := 0; i < len(s); i++ {
		if s[i] == '%' && i+2 < len(s) {
			if x, err := strconv.ParseUint(s[i+1:i+3], 16, 8); err == nil {
				b = append(b, byte(x))
				i += 2
				continue
			}
		}
		b = append(b, s[i])
	}
	return b
}

// c03oDataURL: the Fetch standard's data: URL processor; canonical form "data:<mime>,<hex body>#<fragment>"
func c03oDataURL(v string) string {
	rest, frag := v[5:], ""
	if i := strings.IndexByte(rest, '#'); i >= 0 {
		rest, frag = rest[:i], rest[i:]
	}
	i := strings.IndexByte(rest, ',')
	if i < 0 {
		return v
	}
	mt, body := strings.Trim(rest[:i], c03oWS), c03oPctDecode(rest[i+1:])
	if j := strings.LastIndexByte(mt, ';'); j >= 0 && strings.EqualFold(strings.Trim(mt[j+1:], " "), "base64") {
		mt = mt[:j]
		s := strings.Map(func(r rune) rune {
			if r < 128 && c03oIsWS(byte(r)) {
				return -1
			}
			return r
		}, string(body))
		if len(s)%4 == 0 {
			s = strings.TrimSuffix(strings.TrimSuffix(s, "="), "=")
		}
		dec, err := base64.RawStdEncoding.DecodeString(s)
		if err != nil {
			return v
		}
		body = dec
	}
	if strings.HasPrefix(mt, ";") {
		mt = "text/plain" + mt
	}
	// RFC 2397: the default is text/plain;charset=US-ASCII, "text/plain" can be omitted when a charset is given
	mt = c03oMime(mt) + ";"
	if mt = strings.TrimSuffix(strings.Replace(mt, ";charset=us-ascii;", ";", 1), ";"); !strings.Contains(mt, "/") || mt == "text/plain" {
		mt = ""
	}
	return fmt.Sprintf("data:%s,%x%s", mt, body, frag)
}

func c03oNum(v string) string {
	if f, err := strconv.ParseFloat(v, 64); err == nil && v != "" && strings.Trim(v, "+-.0123456789eE") == "" {
		return strconv.FormatFloat(f, 'g', -1, 64)
	}
	return v
}

// c03oViewport: the viewport meta parsing algorithm (CSS Device Adaptation §10.4): pairs separated by white space, ',' or ';'
func c03oViewport(v string) string {
	sep := func(c byte) bool { return c03oIsWS(c) || c == ',' || c == ';' }
	var out []string
	for i := 0; i < len(v); {
		for i < len(v) && (sep(v[i]) || v[i] == '=') {
			i++
		}
		j := i
		for j < len(v) && !sep(v[j]) && v[j] != '=' {
			j++
		}
		name, val := strings.ToLower(v[i:j]), ""
		for j < len(v) && c03oIsWS(v[j]) {
			j++
		}
		if j < len(v) && v[j] == '=' {
			for j < len(v) && (v[j] == '=' || c03oIsWS(v[j])) {
				j++
			}
			k := j
			for k < len(v) && !sep(v[k]) && v[k] != '=' {
				k++
			}
			val, j = c03oNum(strings.ToLower(v[j:k])), k
		}
		if name != "" {
			out = append(out, name+"="+val)
		}
		i = j
	}
	return strings.Join(out, ",")
}

func c03oIsBool(el, key string) bool {
	on, ok := c03oBool[key]
	return ok && (on == "*" || strings.Contains(" "+on+" ", " "+el+" ") || strings.Contains(on, "-") && strings.Contains(el, "-"))
}

func c03oIsEvent(key string) bool { return len(key) > 2 && strings.HasPrefix(key, "on") }

// c03oAttrs returns the attribute map of an element with the documented normalisations applied to the values.
func c03oAttrs(n *xhtml.Node) map[string]string {
	raw := map[string]string{}
	for _, a := range n.Attr {
		key := a.Key
		if a.Namespace != "" {
			key = a.Namespace + ":" + key
		}
		if _, dup := raw[key]; !dup {
			raw[key] = a.Val
		}
	}
	if n.Namespace != "" {
		return raw
	}
	for p := n.Parent; p != nil; p = p.Parent {
		if p.Namespace != "" {
			return raw // HTML integration point inside svg/math: written verbatim
		}
	}
	el := n.Data
	m := map[string]string{}
	for key, v := range raw {
		switch {
		case c03oIsBool(el, key):
			v = ""
		case key == "style":
			v = strings.Trim(v, c03oWS)
		case c03oIsEvent(key):
			v = strings.Trim(v, c03oWS)
			if len(v) >= 11 && strings.EqualFold(v[:11], "javascript:") {
				v = strings.Trim(v[11:], c03oWS)
			}
		case key == "enctype" || key == "formenctype" || key == "accept" || key == "type" && c03oMimeTypeOn[el]:
			v = c03oMime(c03oCollapse(v))
		case c03oURL[key]:
			v = strings.Trim(v, c03oWS)
			switch {
			case len(v) > 5 && strings.EqualFold(v[:5], "data:"):
				v = c03oDataURL(v)
			case len(v) > 5 && strings.EqualFold(v[:5], "http:"):
				v = "http:" + v[5:]
			case len(v) > 6 && strings.EqualFold(v[:6], "https:"):
				v = "https:" + v[6:]
			}
		case el == "meta" && key == "content":
			if _, hasCs := raw["charset"]; !hasCs && strings.EqualFold(strings.Trim(raw["http-equiv"], c03oWS), "content-type") {
				v = c03oMime(v)
			}
			switch strings.ToLower(strings.Trim(raw["name"], c03oWS)) {
			case "viewport":
				v = c03oViewport(v)
			case "keywords":
				toks := strings.Split(v, ",")
				for i := range toks {
					toks[i] = strings.Trim(toks[i], " ")
				}
				v = strings.Join(toks, ",")
			}
		case el == "meta" && key == "name":
			v = strings.Trim(v, c03oWS) // the minifier trims the name of a meta element that has a content attribute
		case c03oTrim[key]:
			v = c03oCollapse(v)
		}
		m[key] = v
	}
	// <meta http-equiv=content-type content="text/html; charset=utf-8"> == <meta charset=utf-8>
	if _, hasCs := raw["charset"]; el == "meta" && !hasCs && strings.EqualFold(m["http-equiv"], "content-type") &&
		m["content"] == "text/html;charset=utf-8" {
		delete(m, "http-equiv")
		delete(m, "content")
		m["charset"] = "utf-8"
	}
	return m
}

// c03oDroppable: may the attribute key (normalised value v) of element el be absent from the output?
func c03oDroppable(el, key, v string, m map[string]string, o c03oOpts) bool {
	lv := strings.ToLower(v)
	_, hasSrc := m["src"]
	typ := strings.ToLower(m["type"])
	switch {
	case v == "" && (key == "class" || key == "dir" || key == "id" || key == "name" || key == "style" || c03oIsEvent(key) ||
		key == "action" && el == "form"):
		return true
	case key == "charset" && el == "script" && hasSrc:
		return true
	case key == "name" && el == "a" && m["id"] == v:
		return true
	case key == "value" && el == "input":
		// value mode "default" / "value": a missing value attribute equals the empty string; mode "default/on"
		// (checkbox, radio): a missing attribute equals "on"; for submit/reset/button it is the (non-empty) default label
		switch typ {
		case "radio":
			return lv == "on"
		case "checkbox", "submit", "reset", "button", "image":
			return false
		}
		return v == ""
	case o.KeepDefaultAttrVals:
		return false
	case key == "type":
		return el == "script" && c03oJSMime[lv] || (el == "style" || el == "link") && lv == "text/css" ||
			el == "input" && lv == "text" || el == "button" && lv == "submit"
	case key == "method":
		return lv == "get"
	case key == "enctype":
		return lv == "application/x-www-form-urlencoded"
	case key == "shape":
		return lv == "rect"
	case key == "media":
		return el == "style" && lv == "all"
	case key == "colspan" || key == "rowspan" || key == "span":
		return v == "one" // sic: what the minifier documents/implements
	}
	return false
}

func c03oCmpAttrs(a, b *xhtml.Node, o c03oOpts) string {
	ma, mb := c03oAttrs(a), c03oAttrs(b)
	keys := func(m map[string]string) []string {
		var ks []string
		for k := range m {
			ks = append(ks, k)
		}
		sort.Strings(ks) // deterministic order
		return ks
	}
	html := a.Namespace == ""
	for _, k := range keys(ma) {
		va := ma[k]
		vb, ok := mb[k]
		switch {
		case !ok && !(html && c03oDroppable(a.Data, k, va, ma, o)):
			return fmt.Sprintf("attr-missing: %s @%s: input value %q", c03oPath(a), k, va)
		case ok && va != vb:
			return fmt.Sprintf("attr-value: %s @%s: input %q, output %q", c03oPath(a), k, va, vb)
		}
	}
	for _, k := range keys(mb) {
		if _, ok := ma[k]; !ok {
			return fmt.Sprintf("attr-extra: %s @%s: output value %q", c03oPath(b), k, mb[k])
		}
	}
	return ""
}

// ---------- comparison ----------

func c03oShow(it c03oItem) string {
	switch it.k {
	case 0:
		return "end of document"
	case 'w':
		return fmt.Sprintf("word %q in %s", it.s, c03oPath(it.n))
	case 's':
		return "white space in " + c03oPath(it.n)
	case 'r':
		return fmt.Sprintf("raw text %q in %s", it.s, c03oPath(it.n))
	}
	if strings.HasPrefix(it.s, "/") {
		return fmt.Sprintf("end of %s", c03oPath(it.n))
	}
	return fmt.Sprintf("start of %s", c03oPath(it.n))
}

func c03oMarker(k byte) bool { return k == 'b' || k == 'o' || k == 'i' }

func c03oSig(x, y c03oItem) string {
	switch {
	case c03oMarker(x.k) && c03oMarker(y.k):
		return "element-structure"
	case x.k == 'r' || y.k == 'r':
		return "raw-text"
	case x.k == 'w' || y.k == 'w': // incl. a word against a marker: text moved across an element boundary or was lost
		return "text-words"
	}
	return "element-structure"
}

// c03oHasDoctype: does the tree builder see a DOCTYPE token in its "initial" insertion mode?
func c03oHasDoctype(b []byte) bool {
	for {
		b = bytes.TrimLeft(bytes.TrimPrefix(b, []byte("\xef\xbb\xbf")), c03oWS)
		if !bytes.HasPrefix(b, []byte("<!--")) {
			return len(b) >= 9 && strings.EqualFold(string(b[:9]), "<!doctype")
		}
		i := bytes.Index(b[4:], []byte("-->"))
		if i < 0 {
			return false
		}
		b = b[4+i+3:]
	}
}

// c03oCompare: see the head of this file.  An input without DOCTYPE is taken as a fragment of a conforming (no-quirks)
// document: "<!doctype html>" is put in front of both sides (in quirks mode a table start tag does not close an open
// p, so that the omission of </p> before <table> -- allowed by the standard for conforming documents -- changes the
// tree).  An input WITH a doctype is parsed as it is; the minifier rewrites every doctype to <!doctype html>.
func c03oCompare(in, out []byte, o c03oOpts) string {
	if !c03oHasDoctype(in) {
		in = append([]byte("<!doctype html>"), in...)
		out = append([]byte("<!doctype html>"), out...)
	}
	return c03oCompareDocs(in, out, o)
}

// c03oCompareDocs compares the two byte strings exactly as they are.
func c03oCompareDocs(in, out []byte, o c03oOpts) string {
	return c03oCompareDocsX(in, out, o, false)
}

// c03oCompareSub: like c03oCompare, but the text inside script and style elements is not compared (it went through a
// sub-minifier); where these elements start and end, and everything outside them, is.
func c03oCompareSub(in, out []byte, o c03oOpts) string {
	if !c03oHasDoctype(in) {
		in = append([]byte("<!doctype html>"), in...)
		out = append([]byte("<!doctype html>"), out...)
	}
	return c03oCompareDocsX(in, out, o, true)
}

// c03oSubMode (set only while c03oCompareSub runs; the stages run one after the other): the content of script/style
// went through a sub-minifier and may have become empty, so an inline script / style element without src and id is
// ignored on both sides whatever its content is.  Text, elements and attributes outside them are compared as always:
// content that leaks out of such an element, or a following part of the page that it swallows, is a difference.
var c03oSubMode bool

func c03oCompareDocsX(in, out []byte, o c03oOpts, ignoreSubRaw bool) string {
	if ignoreSubRaw {
		c03oSubMode = true
		defer func() { c03oSubMode = false }()
	}
	flat := func(b []byte) ([]c03oItem, error) {
		doc, err := xhtml.ParseWithOptions(bytes.NewReader(b), xhtml.ParseOptionEnableScripting(false))
		if err != nil {
			return nil, err
		}
		var items []c03oItem
		c03oFlatten(doc, c03oCtx{}, &items)
		if ignoreSubRaw {
			kept := items[:0]
			for _, it := range items {
				if it.k == 'r' && it.n != nil && (it.n.Data == "script" || it.n.Data == "style") {
					continue
				}
				kept = append(kept, it)
			}
			items = kept
		}
		return c03oNormalise(items), nil
	}
	a, err := flat(in)
	if err != nil {
		return "parse-error: input: " + err.Error()
	}
	b, err := flat(out)
	if err != nil {
		return "parse-error: output: " + err.Error()
	}
	at := func(s []c03oItem, i int) c03oItem {
		if i < len(s) {
			return s[i]
		}
		return c03oItem{}
	}
	for i := 0; i < len(a) || i < len(b); i++ {
		x, y := at(a, i), at(b, i)
		if x.k == y.k && x.s == y.s {
			if c03oMarker(x.k) && x.s[0] != '/' {
				if d := c03oCmpAttrs(x.n, y.n, o); d != "" {
					return d
				}
			}
			continue
		}
		sig := c03oSig(x, y)
		if (x.k == 's') != (y.k == 's') { // pure white-space difference if the streams agree after skipping it
			nx, ny := x, y
			if x.k == 's' {
				nx = at(a, i+1)
			} else {
				ny = at(b, i+1)
			}
			if nx.k == ny.k && nx.s == ny.s {
				sig = "text-space"
			} else {
				sig = c03oSig(nx, ny)
			}
		}
		return fmt.Sprintf("%s: input has %s, output has %s", sig, c03oShow(x), c03oShow(y))
	}
	return ""
}

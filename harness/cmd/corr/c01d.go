package main

// C01D — sub-check of C01: declaration handling of the JS minifier (hoistVars, mergeVarDecls,
// mergeVarDeclExprStmt, addDefinition, isShadowed, the declaration merges of optimizeStmtList).

import (
	"bufio"
	"bytes"
	"fmt"
	"os"
	"time"

	"github.com/tdewolff/minify/v2/js"

	"verifharness/h"
)

// c01dReal runs the real minifier through its public API.
func c01dReal(src string, keepNames bool) (out string, err error, crash string) {
	crash = h.Safely(10*time.Second, func() {
		var b bytes.Buffer
		err = (&js.Minifier{KeepVarNames: keepNames}).Minify(nil, &b, bytes.NewReader([]byte(src)), nil)
		out = b.String()
	})
	return
}

func c01dDebug(path string) error {
	f, err := os.Open(path)
	if err != nil {
		return err
	}
	defer f.Close()
	sc := bufio.NewScanner(f)
	sc.Buffer(make([]byte, 1<<20), 1<<20)
	for sc.Scan() {
		src := sc.Text()
		if src == "" {
			continue
		}
		fmt.Println("SRC  ", src)
		real, rerr, crash := c01dReal(src, true)
		fmt.Println("REAL ", real, rerr, crash)
		enc, perr, uerr := c01dEncode(src, true)
		if perr != nil || uerr != nil {
			fmt.Println("ENC  ", perr, uerr)
			continue
		}
		rep, err := h.Eval([]string{"model.c01d.min " + h.HexS(enc),
			"spec.c01d.run " + h.HexS(enc) + " " + h.ListS([]string{"v1", "v2", "u"}) + " " + h.Int(6) + " " + h.ListS([]string{"a", "b", "c", "d", "e"})})
		if err != nil {
			return err
		}
		b, ok, msg := h.DecodeReply(rep[0])
		mark := ""
		if ok && string(b) != real {
			mark = "   <<<<<<<< DIFF"
		}
		fmt.Println("MODEL", string(b), msg, mark)
		b, _, msg = h.DecodeReply(rep[1])
		fmt.Println("RUN  ", string(b), msg)
		if rerr == nil {
			enc2, perr, uerr := c01dEncode(real, false)
			if perr != nil || uerr != nil {
				fmt.Println("ENC2 ", perr, uerr)
				continue
			}
			rep, err := h.Eval([]string{"spec.c01d.run " + h.HexS(enc2) + " " + h.ListS([]string{"v1", "v2", "u"}) + " " + h.Int(6) + " " + h.ListS([]string{"a", "b", "c", "d", "e"})})
			if err != nil {
				return err
			}
			b, _, msg = h.DecodeReply(rep[0])
			fmt.Println("RUN2 ", string(b), msg)
		}
	}
	return nil
}

package main

// C01D — structured generator of JS programs around declarations: nested functions, blocks, loops, var/let/const in
// all positions, uses before and after the declaration, shadowing (let in blocks, parameters and catch parameters with
// the names of vars), assignments next to declarations, loop heads.  `ext` adds forms outside the Lean fragment
// (function expressions and arrows capturing loop variables, destructuring, for-in/of, do-while, switch, labels,
// finally) for the node differential.

import (
	"fmt"
	"strings"

	"verifharness/h"
)

type c01dGen struct {
	r       *h.RNG
	ext     bool
	fnCount int
	long    bool // use long variable names now and then (negative hoisting scores)
}

var c01dVarPool = []string{"a", "b", "c", "d"}
var c01dLongPool = []string{"abcd", "xy", "foo", "longer"}
var c01dLexPool = []string{"x", "y", "z"}
var c01dLoopPool = []string{"i", "j"}

// c01dObsNames are the global names whose final bindings are observed by the spec side.
var c01dObsNames = []string{"a", "b", "c", "d", "abcd", "xy", "foo", "longer", "x", "y", "z", "i", "j", "e", "m", "n"}

type c01dScope struct {
	fn      *c01dFn
	lex     map[string]bool // lexical names of this block
	parent  *c01dScope
	loop    int // loop nesting depth inside the function
	inTry   bool
	isConst map[string]bool
}

type c01dFn struct {
	callable []string // user functions that may be called from here (declared earlier: no recursion)
	isFn     bool
	params   []string
}

func (g *c01dGen) varName() string {
	if g.long && g.r.Chance(25) {
		return g.r.Pick(c01dLongPool)
	}
	return g.r.Pick(c01dVarPool)
}

// a name to read or assign: mostly a var-pool name, sometimes a lexical or loop name or parameter
func (g *c01dGen) useName(sc *c01dScope) string {
	k := g.r.Intn(100)
	switch {
	case k < 60:
		return g.varName()
	case k < 80:
		// a lexical name that is in scope, if any
		for s := sc; s != nil; s = s.parent {
			for n := range s.lex {
				_ = n
			}
		}
		var names []string
		for s := sc; s != nil; s = s.parent {
			for _, n := range c01dLexPool {
				if s.lex[n] {
					names = append(names, n)
				}
			}
			for _, n := range c01dVarPool {
				if s.lex[n] {
					names = append(names, n)
				}
			}
		}
		if len(names) > 0 {
			return names[g.r.Intn(len(names))]
		}
		return g.varName()
	case k < 88:
		if len(sc.fn.params) > 0 {
			return sc.fn.params[g.r.Intn(len(sc.fn.params))]
		}
		return g.varName()
	case k < 90:
		return g.r.Pick(c01dLexPool)
	case k < 92:
		return g.r.Pick(c01dLoopPool)
	default:
		return g.varName()
	}
}

func (g *c01dGen) isConstName(sc *c01dScope, n string) bool {
	for s := sc; s != nil; s = s.parent {
		if s.lex[n] {
			return s.isConst[n]
		}
	}
	return false
}

// assignable name: never a loop counter; rarely a const
func (g *c01dGen) assignName(sc *c01dScope) string {
	for k := 0; k < 8; k++ {
		n := g.useName(sc)
		if n == "i" || n == "j" {
			continue
		}
		if g.isConstName(sc, n) && !g.r.Chance(5) {
			continue
		}
		return n
	}
	return g.varName()
}

func (g *c01dGen) num() string { return fmt.Sprint(g.r.Intn(10)) }

func (g *c01dGen) call(sc *c01dScope, depth int) string {
	name := "g"
	if g.r.Chance(35) {
		name = "h"
	}
	if len(sc.fn.callable) > 0 && g.r.Chance(30) {
		name = sc.fn.callable[g.r.Intn(len(sc.fn.callable))]
	}
	n := g.r.Intn(3)
	args := make([]string, n)
	for i := range args {
		args[i] = g.expr(sc, depth+1, 2)
	}
	return name + "(" + strings.Join(args, ",") + ")"
}

// prec: 0 comma level not used; 1 assignment; 2 anything below needs parentheses when not atomic
func (g *c01dGen) expr(sc *c01dScope, depth int, prec int) string {
	k := g.r.Intn(100)
	if depth >= 3 {
		k = g.r.Intn(45)
	}
	switch {
	case k < 20:
		return g.num()
	case k < 45:
		return g.useName(sc)
	case k < 58:
		return g.call(sc, depth)
	case k < 72:
		op := g.r.Pick([]string{"+", "+", "-", "<", "===", "&&", "||"})
		s := g.expr(sc, depth+1, 2) + op + g.expr(sc, depth+1, 2)
		return "(" + s + ")"
	case k < 76:
		return "!" + g.atom(sc, depth)
	case k < 80:
		return "typeof " + g.useName(sc)
	case k < 85:
		s := g.expr(sc, depth+1, 2) + "?" + g.expr(sc, depth+1, 2) + ":" + g.expr(sc, depth+1, 2)
		return "(" + s + ")"
	case k < 93:
		s := g.assignName(sc) + "=" + g.expr(sc, depth+1, 1)
		if prec > 1 {
			return "(" + s + ")"
		}
		return s
	case k < 96:
		return g.assignName(sc) + "++"
	default:
		if g.ext && g.r.Chance(50) {
			return g.extExpr(sc, depth)
		}
		return "(" + g.expr(sc, depth+1, 1) + "," + g.expr(sc, depth+1, 1) + ")"
	}
}

func (g *c01dGen) atom(sc *c01dScope, depth int) string {
	switch g.r.Intn(3) {
	case 0:
		return g.num()
	case 1:
		return g.useName(sc)
	}
	return g.call(sc, depth)
}

func (g *c01dGen) extExpr(sc *c01dScope, depth int) string {
	switch g.r.Intn(4) {
	case 0:
		return "[" + g.expr(sc, depth+1, 1) + "," + g.expr(sc, depth+1, 1) + "]"
	case 1:
		return "{p:" + g.expr(sc, depth+1, 1) + ",q:" + g.num() + "}"
	case 2:
		return "(function(){return " + g.expr(sc, depth+1, 1) + "})()"
	}
	return "(()=>" + g.expr(sc, depth+1, 1) + ")()"
}

func (g *c01dGen) declItems(sc *c01dScope, names []string, initPct int) string {
	var items []string
	for _, n := range names {
		if g.r.Chance(initPct) {
			items = append(items, n+"="+g.expr(sc, 1, 1))
		} else {
			items = append(items, n)
		}
	}
	return strings.Join(items, ",")
}

func (g *c01dGen) varDecl(sc *c01dScope) string {
	n := 1 + g.r.Intn(3)
	names := make([]string, n)
	for i := range names {
		names[i] = g.varName()
		if g.r.Chance(6) {
			names[i] = g.r.Pick(c01dLoopPool)
		}
	}
	return "var " + g.declItems(sc, names, 60)
}

func (g *c01dGen) lexDecl(sc *c01dScope) string {
	kind := "let"
	if g.r.Chance(35) {
		kind = "const"
	}
	n := 1 + g.r.Intn(2)
	var names []string
	for i := 0; i < n; i++ {
		nm := g.r.Pick(c01dLexPool)
		if g.r.Chance(25) {
			nm = g.varName() // a lexical name that is also a var name somewhere: shadowing
		}
		if sc.lex[nm] {
			continue
		}
		sc.lex[nm] = true
		if kind == "const" {
			sc.isConst[nm] = true
		}
		names = append(names, nm)
	}
	if len(names) == 0 {
		return g.exprStmt(sc)
	}
	pct := 75
	if kind == "const" {
		pct = 100
	}
	return kind + " " + g.declItems(sc, names, pct)
}

func (g *c01dGen) exprStmt(sc *c01dScope) string {
	k := g.r.Intn(100)
	switch {
	case k < 50:
		s := g.assignName(sc) + "=" + g.expr(sc, 1, 1)
		if g.r.Chance(20) {
			s += "," + g.assignName(sc) + "=" + g.expr(sc, 1, 1)
		}
		return s
	case k < 85:
		return g.call(sc, 1)
	case k < 90:
		return g.assignName(sc) + "++"
	}
	return g.expr(sc, 1, 1)
}

func (g *c01dGen) child(sc *c01dScope) *c01dScope {
	return &c01dScope{fn: sc.fn, lex: map[string]bool{}, isConst: map[string]bool{}, parent: sc, loop: sc.loop, inTry: sc.inTry}
}

func (g *c01dGen) block(sc *c01dScope, depth int, n int) string {
	c := g.child(sc)
	return "{" + g.stmts(c, depth, n, false) + "}"
}

// body of if / loop: a block or a single statement
func (g *c01dGen) body(sc *c01dScope, depth int) string {
	if g.r.Chance(60) {
		return g.block(sc, depth+1, 1+g.r.Intn(3))
	}
	c := g.child(sc)
	s := g.stmt(c, depth+1, false, true)
	if strings.HasPrefix(s, "let ") || strings.HasPrefix(s, "const ") || strings.HasPrefix(s, "function ") {
		return "{" + s + "}"
	}
	if s == "" {
		return ";"
	}
	if !strings.HasSuffix(s, "}") {
		s += ";"
	}
	return s
}

func (g *c01dGen) forStmt(sc *c01dScope, depth int) string {
	if sc.loop >= 2 {
		return g.exprStmt(sc)
	}
	cnt := c01dLoopPool[sc.loop]
	c := g.child(sc)
	c.loop++
	bound := fmt.Sprint(1 + g.r.Intn(3))
	k := g.r.Intn(100)
	var init string
	switch {
	case k < 35:
		init = "var " + cnt + "=0"
		if g.r.Chance(35) {
			init += "," + g.declItems(sc, []string{g.varName()}, 70)
		} else if g.r.Chance(15) {
			init = "var " + g.declItems(sc, []string{g.varName()}, 70) + "," + cnt + "=0"
		}
	case k < 50:
		init = "let " + cnt + "=0"
		c.lex[cnt] = true
	case k < 65:
		init = cnt + "=0"
		if g.r.Chance(30) {
			init = g.assignName(sc) + "=" + g.num() + "," + init
		}
	case k < 80:
		// while loop over a counter that is set before
		pre := cnt + "=0;"
		if g.r.Chance(50) {
			pre = "var " + cnt + "=0;"
		}
		if g.r.Chance(25) {
			pre = ""
		}
		inner := g.stmts(c, depth+1, g.r.Intn(3), false)
		if inner != "" {
			inner += ";"
		}
		return pre + "while(" + cnt + "<" + bound + "){" + inner + cnt + "++}"
	case k < 90:
		init = ""
	default:
		init = "var " + cnt
	}
	return "for(" + init + ";" + cnt + "<" + bound + ";" + cnt + "++)" + g.body(c, depth)
}

func (g *c01dGen) tryStmt(sc *c01dScope, depth int) string {
	t := g.child(sc)
	t.inTry = true
	body := g.stmts(t, depth+1, 1+g.r.Intn(2), false)
	if g.r.Chance(40) {
		if body != "" {
			body += ";"
		}
		body += "throw " + g.expr(sc, 2, 1)
	}
	c := g.child(sc)
	p := "e"
	if g.r.Chance(35) {
		p = g.varName()
	}
	c.lex[p] = true
	s := "try{" + body + "}catch(" + p + "){" + g.stmts(c, depth+1, 1+g.r.Intn(2), false) + "}"
	if g.ext && g.r.Chance(30) {
		s += "finally{" + g.stmts(g.child(sc), depth+1, 1, false) + "}"
	}
	return s
}

func (g *c01dGen) funcDecl(sc *c01dScope, depth int) string {
	g.fnCount++
	name := fmt.Sprintf("p%d", g.fnCount)
	np := g.r.Intn(3)
	var params []string
	for i := 0; i < np; i++ {
		p := g.r.Pick([]string{"m", "n"})
		if g.r.Chance(40) {
			p = g.varName()
		}
		dup := false
		for _, q := range params {
			if q == p {
				dup = true
			}
		}
		if !dup {
			params = append(params, p)
		}
	}
	fn := &c01dFn{callable: append([]string{}, sc.fn.callable...), isFn: true, params: params}
	fsc := &c01dScope{fn: fn, lex: map[string]bool{}, isConst: map[string]bool{}, parent: sc}
	body := g.stmts(fsc, depth+1, 2+g.r.Intn(5), true)
	if g.r.Chance(50) {
		if body != "" {
			body += ";"
		}
		body += "return " + g.expr(fsc, 1, 1)
	}
	sc.fn.callable = append(sc.fn.callable, name)
	return "function " + name + "(" + strings.Join(params, ",") + "){" + body + "}"
}

func (g *c01dGen) extStmt(sc *c01dScope, depth int) string {
	switch g.r.Intn(9) {
	case 0: // closure capturing a loop variable
		cnt := "i"
		kind := g.r.Pick([]string{"let", "var"})
		return "var fs=[];for(" + kind + " " + cnt + "=0;" + cnt + "<2;" + cnt + "++){fs.push(function(){return g(" + cnt + "," + g.useName(sc) + ")})}fs[0](),fs[1]()"
	case 1:
		return "var [" + g.varName() + "," + g.varName() + "]=[" + g.expr(sc, 1, 1) + "," + g.num() + "]"
	case 2:
		n := g.varName()
		return "var {" + n + "}={" + n + ":" + g.expr(sc, 1, 1) + "}"
	case 3:
		k := g.varName()
		return "for(var " + k + " in {p:1,q:2})" + g.body(g.child(sc), depth)
	case 4:
		k := g.varName()
		return "for(var " + k + " of [" + g.num() + "," + g.num() + "])" + g.body(g.child(sc), depth)
	case 5:
		if sc.loop >= 2 {
			return g.exprStmt(sc)
		}
		cnt := c01dLoopPool[sc.loop]
		c := g.child(sc)
		c.loop++
		inner := g.stmts(c, depth+1, 1+g.r.Intn(2), false)
		if inner != "" {
			inner += ";"
		}
		return "var " + cnt + "=0;do{" + inner + cnt + "++}while(" + cnt + "<2)"
	case 6:
		c := g.child(sc)
		return "switch(" + g.expr(sc, 1, 1) + "){case 1:" + g.stmts(c, depth+1, 1, false) + ";break;default:" + g.stmts(c, depth+1, 1, false) + "}"
	case 7:
		n := "k1" // function-valued variables have their own name: their source text must not reach the trace
		return "var " + n + "=()=>{" + g.stmts(&c01dScope{fn: &c01dFn{callable: sc.fn.callable, isFn: true}, lex: map[string]bool{}, isConst: map[string]bool{}, parent: sc}, depth+1, 2, true) + "};" + n + "()"
	}
	if sc.loop >= 2 {
		return g.exprStmt(sc)
	}
	cnt := c01dLoopPool[sc.loop]
	c := g.child(sc)
	c.loop++
	return "lbl:for(var " + cnt + "=0;" + cnt + "<3;" + cnt + "++){if(" + g.expr(sc, 1, 1) + ")continue lbl;" + g.stmts(c, depth+1, 1, false) + ";if(" + g.expr(sc, 1, 1) + ")break lbl}"
}

// one statement (without the terminating semicolon)
func (g *c01dGen) stmt(sc *c01dScope, depth int, top bool, single bool) string {
	k := g.r.Intn(100)
	if depth >= 4 {
		k = g.r.Intn(55)
	}
	switch {
	case k < 22:
		return g.varDecl(sc)
	case k < 32:
		if single {
			return g.varDecl(sc)
		}
		return g.lexDecl(sc)
	case k < 55:
		return g.exprStmt(sc)
	case k < 67:
		s := "if(" + g.expr(sc, 1, 1) + ")" + g.body(sc, depth)
		if g.r.Chance(40) {
			if !strings.HasSuffix(s, "}") && !strings.HasSuffix(s, ";") {
				s += ";"
			}
			s += "else " + g.body(sc, depth)
		}
		return strings.TrimSuffix(s, ";")
	case k < 73:
		return g.block(sc, depth+1, 1+g.r.Intn(3))
	case k < 85:
		return strings.TrimSuffix(g.forStmt(sc, depth), ";")
	case k < 90:
		return g.tryStmt(sc, depth)
	case k < 94:
		if top && depth < 3 {
			return g.funcDecl(sc, depth)
		}
		return g.exprStmt(sc)
	case k < 97:
		if sc.fn.isFn && g.r.Chance(60) {
			if g.r.Chance(30) {
				return "return"
			}
			return "return " + g.expr(sc, 1, 1)
		}
		if sc.inTry && g.r.Chance(50) {
			return "throw " + g.expr(sc, 2, 1)
		}
		return g.exprStmt(sc)
	default:
		if g.ext {
			return g.extStmt(sc, depth)
		}
		return g.varDecl(sc)
	}
}

func (g *c01dGen) stmts(sc *c01dScope, depth int, n int, top bool) string {
	var out []string
	for i := 0; i < n; i++ {
		s := g.stmt(sc, depth, top, false)
		if s != "" {
			out = append(out, s)
		}
	}
	return strings.Join(out, ";")
}

// c01dProgram generates one program.  size: number of top-level statements.
func c01dProgram(r *h.RNG, size int, ext bool) string {
	g := &c01dGen{r: r, ext: ext, long: r.Chance(30)}
	fn := &c01dFn{}
	sc := &c01dScope{fn: fn, lex: map[string]bool{}, isConst: map[string]bool{}}
	body := g.stmts(sc, 0, size, true)
	if !ext && r.Chance(55) {
		// give the names values first (plain assignments: globals without a declaration), so that fewer runs end in an
		// early ReferenceError
		var pre []string
		for _, n := range []string{"a", "b", "c", "d", "i", "j"} {
			if r.Chance(75) {
				pre = append(pre, n+"="+g.num())
			}
		}
		if len(pre) > 0 {
			sep := ";"
			if r.Chance(50) {
				sep = ","
			}
			body = strings.Join(pre, sep) + ";" + body
		}
	}
	if ext {
		// the host world of tools/jsrun.mjs binds a…e, p…z only: declare the other names that the generator reads, so
		// that a lost ReferenceError (open finding K-C01-3 of C01) cannot occur here
		return "var i,j,abcd,xy,foo,longer;" + body
	}
	return body
}

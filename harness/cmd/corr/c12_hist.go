package main

// C12, stage "histories" — results retained across calls.
//
// The other stages call one entry point and compare at once.  Here HISTORIES of 2-6 calls over all entry points
// (Bytes, String, Minify, MinifyMimetype, Reader, Writer, ResponseWriter, Middleware; plus the helpers DataURI,
// Mediatype, Number, Decimal) with DIFFERENT inputs / media types run on ONE *minify.M; everything an entry point
// hands back (the returned slice itself, the string, every buffer read from m.Reader, the writer's content) is
// kept and compared with the plain reader-to-writer call only after the whole history has finished, together
// with the caller's input slices (must be unchanged).  The same with 2-8 goroutines each running its own
// sequence, and a part of both under the race detector (cmd/race12).  Executor: harness/c12hist.
//
// A failing sequential history is minimised (greedy step removal) before it is reported; its JSON form goes
// into the finding's config, from where `./check C12 --replay` re-runs it.

import (
	"bufio"
	"bytes"
	"encoding/base64"
	"encoding/json"
	"errors"
	"fmt"
	"os"
	"os/exec"
	"path/filepath"
	"sort"
	"strings"
	"time"

	"github.com/tdewolff/minify/v2"

	"verifharness/c12hist"
	"verifharness/h"
)

const c12HistTimeout = 30 * time.Second

type c12Doc struct {
	mt   string
	data []byte
}

// c12HistDocs: documents of very different lengths per media type (short literals, generated documents, invalid and
// truncated ones, small corpus files) plus an unregistered type and the late-writing failing stub
func c12HistDocs(c *Ctx) []c12Doc {
	var docs []c12Doc
	for _, t := range ioTypes {
		for _, s := range c12Short[t.mt] {
			docs = append(docs, c12Doc{t.mt, []byte(s)})
		}
		for i := 0; i < 6; i++ {
			docs = append(docs, c12Doc{t.mt, ioGen(c.Rng.Fork(), t.pkg, 1+i%3)})
		}
	}
	for _, in := range ioInvalid {
		docs = append(docs, c12Doc{in.mt, in.data})
	}
	for i, in := range ioEdges {
		if i%3 == 0 {
			docs = append(docs, c12Doc{in.mt, in.data})
		}
	}
	n := 0
	for _, in := range ioCorpus(c.Repo, 6<<10, false) {
		if n++; n%5 == 0 {
			docs = append(docs, c12Doc{in.mt, in.data})
		}
	}
	docs = append(docs, c12Doc{"x/unknown", []byte("abc def")}, c12Doc{"x/late-fail", []byte("abcd")}, c12Doc{"x/late-fail", bytes.Repeat([]byte("x"), 700)},
		c12Doc{"text/css; charset=utf-8", []byte("a { color : #ff0000 ; }")}, c12Doc{"text/html;q=1", []byte("<p> x  y </p>")})
	return docs
}

func c12HelperSteps() []c12hist.Step {
	b64 := func(s string) string { return base64.StdEncoding.EncodeToString([]byte(s)) }
	var st []c12hist.Step
	for _, s := range []string{
		"data:text/css;base64," + b64("a { color : #ff0000 ; margin : 0px 0px }"), "data:image/svg+xml,<svg xmlns=\"http://www.w3.org/2000/svg\"><g> </g></svg>",
		"data:,hello%20world", "data:text/plain;charset=us-ascii,x y", "data:application/json;base64," + b64("{ \"a\" : [ 1 , 2 ] }"), "data:text/html,<p> a  b </p>",
		"data:text/css;base64,@@@", "data:application/javascript," + "var a = 1 ;", "nodata", "data:image/png;base64,AAAA",
	} {
		st = append(st, c12hist.Step{Op: c12hist.OpDataURI, In: []byte(s)})
	}
	for _, s := range []string{"text/HTML ; Charset=\"UTF-8\"", "TEXT/css", "a/b; X=\"Y z\" ; q = 1", "application/json", " text/plain ;\tcharset = us-ascii ", "x/y;a=\"b\\\"c\""} {
		st = append(st, c12hist.Step{Op: c12hist.OpMediatype, In: []byte(s)})
	}
	for i, s := range []string{"+0.5000", "1.0e3", "100000", "-0.0", "12.34E-2", "0.000010", "1000e-2", "5", "+.5e+10", "00012.500"} {
		st = append(st, c12hist.Step{Op: c12hist.OpNumber, In: []byte(s), Prec: []int{0, 0, 3, 1}[i%4]})
	}
	for i, s := range []string{"+001.500", "0.10", "-0.000", "123.456789", "100", ".50"} {
		st = append(st, c12hist.Step{Op: c12hist.OpDecimal, In: []byte(s), Prec: []int{0, 2}[i%2]})
	}
	return st
}

func c12RandCut(r *h.RNG, n int) []int {
	if n < 2 {
		return nil
	}
	var cut []int
	for k := r.Intn(4); k > 0; k-- {
		cut = append(cut, r.Intn(n+1))
	}
	sort.Ints(cut)
	return cut
}

func c12RandStep(r *h.RNG, docs []c12Doc, helpers []c12hist.Step, op string, avoid []byte) c12hist.Step {
	if op == "" {
		switch k := r.Intn(100); {
		case k < 30:
			op = c12hist.OpBytes
		case k < 42:
			op = c12hist.OpString
		case k < 92:
			op = c12hist.EntryOps[2+r.Intn(len(c12hist.EntryOps)-2)]
		default:
			return helpers[r.Intn(len(helpers))]
		}
	}
	d := docs[r.Intn(len(docs))]
	for try := 0; try < 4 && bytes.Equal(d.data, avoid); try++ {
		d = docs[r.Intn(len(docs))]
	}
	st := c12hist.Step{Op: op, MT: d.mt, In: d.data}
	switch op {
	case c12hist.OpReader:
		st.Cut = c12RandCut(r, len(d.data))
		st.Read = [][]int{{1}, {2, 1, 3}, {7}, {4096}, {1, 512}, {3, 3, 100}, {64}}[r.Intn(7)]
	case c12hist.OpWriter, c12hist.OpRespWriter, c12hist.OpMiddleware:
		st.Cut = c12RandCut(r, len(d.data))
	}
	return st
}

func c12RandSeq(r *h.RNG, docs []c12Doc, helpers []c12hist.Step, n int) []c12hist.Step {
	var steps []c12hist.Step
	var prev []byte
	for i := 0; i < n; i++ {
		st := c12RandStep(r, docs, helpers, "", prev)
		steps = append(steps, st)
		prev = st.In
	}
	return steps
}

// c12Minimise drops steps of a failing sequential history while it keeps failing
func c12Minimise(m *minify.M, hs c12hist.History) c12hist.History {
	if len(hs.Threads) != 1 {
		// a concurrent history: does one of its threads fail on its own?
		for _, steps := range hs.Threads {
			one := c12hist.History{ID: hs.ID, Threads: [][]c12hist.Step{steps}, Reps: min(max(hs.Reps, 1), 2)}
			if len(c12hist.Run(m, one, c12HistTimeout).Findings) > 0 {
				return c12Minimise(m, one)
			}
		}
		return hs
	}
	if hs.Reps > 1 {
		one := hs
		one.Reps = 1
		if len(c12hist.Run(m, one, c12HistTimeout).Findings) > 0 {
			hs = one
		}
	}
	for changed := true; changed; {
		changed = false
		for i := 0; i < len(hs.Threads[0]) && len(hs.Threads[0]) > 1; i++ {
			steps := append(append([]c12hist.Step(nil), hs.Threads[0][:i]...), hs.Threads[0][i+1:]...)
			cand := c12hist.History{ID: hs.ID, Threads: [][]c12hist.Step{steps}, Reps: hs.Reps}
			if len(c12hist.Run(m, cand, c12HistTimeout).Findings) > 0 {
				hs, changed = cand, true
				i--
			}
		}
	}
	return hs
}

// c12ReplayHistory extracts a history from a replay file written by ./check for a finding of this stage
func c12ReplayHistory(path string) (c12hist.History, bool) {
	var hs c12hist.History
	b, err := os.ReadFile(path)
	if err != nil {
		return hs, false
	}
	var rp struct {
		Finding struct {
			Config string `json:"config"`
		} `json:"finding"`
	}
	if json.Unmarshal(b, &rp) != nil || !strings.HasPrefix(rp.Finding.Config, `{"id"`) {
		return hs, false
	}
	if json.Unmarshal([]byte(rp.Finding.Config), &hs) != nil || len(hs.Threads) == 0 {
		return hs, false
	}
	return hs, true
}

func c12HistKey(hs c12hist.History) string {
	return "history " + hs.ID + ": " + c12hist.Describe(hs)
}

func c12HistNontrivial(hs c12hist.History) bool {
	// at least one call that hands memory back is followed by (or runs next to) a call with a different input
	if len(hs.Threads) > 1 {
		return true
	}
	steps := hs.Threads[0]
	for i := 0; i+1 < len(steps); i++ {
		if !bytes.Equal(steps[i].In, steps[i+1].In) {
			return true
		}
	}
	return false
}

func c12Histories(c *Ctx) error {
	m := c12hist.NewM()
	docs := c12HistDocs(c)
	helpers := c12HelperSteps()
	st := c.R.StartStage("histories", "RESULTS RETAINED ACROSS CALLS: histories of 2-6 calls over Bytes, String, Minify, MinifyMimetype, Reader, Writer, ResponseWriter, Middleware (and the helpers DataURI, Mediatype, Number, Decimal) with different inputs / media types on ONE *minify.M; the returned slice / string / every buffer read from m.Reader / the writer's content are kept (not copied) and compared with the plain m.Minify call only AFTER the whole history finished, the caller's input slices and the MinifyMimetype mimetype must be unchanged then; EXHAUSTIVE over ordered pairs of entry points for several input pairs, random longer histories, and 2-8 goroutines each running its own sequence (checked when the goroutine finished and again when all finished); a part of them in a -race build (cmd/race12): no data race; helpers: result equals an isolated call and is not changed by later calls on other memory (their doc comments state no more); non-trivial = consecutive calls with different inputs")
	report := func(hs c12hist.History, fs []c12hist.Finding, cfg string) {
		if len(fs) == 0 {
			return
		}
		if cfg == "" {
			small := c12Minimise(m, hs)
			if mf := c12hist.Run(m, small, c12HistTimeout).Findings; len(mf) > 0 {
				hs, fs = small, mf
			}
		}
		js, _ := json.Marshal(hs)
		seen := map[string]bool{}
		for _, f := range fs {
			if seen[f.What] {
				continue
			}
			seen[f.What] = true
			kind := "fail"
			if f.Crash {
				kind = "crash"
			}
			c.R.Add(h.Finding{Stage: st.Name, Kind: kind, What: f.What, Input: fmt.Sprintf("%s -> call #%d of thread %d (%s)%s", c12HistKey(hs), f.Index, f.Thread, f.Phase, cfg),
				Hex: h.Hex(clip(f.Input, 8192)), Config: string(js), Impl: f.Got, Model: f.Want})
		}
	}
	nfail := 0
	runSeq := func(hs c12hist.History) {
		res := c12hist.Run(m, hs, c12HistTimeout)
		st.Count(c12HistKey(hs), c12HistNontrivial(hs))
		for i := 1; i < res.Calls; i++ {
			st.Evaluations++
		}
		if len(res.Findings) > 0 && nfail < 12 {
			nfail++
			report(hs, res.Findings, "")
		}
	}
	if c.Replay != "" {
		if hs, ok := c12ReplayHistory(c.Replay); ok {
			hs.ID = "replay"
			for i := 0; i < 3 && nfail == 0; i++ {
				runSeq(hs)
			}
			st.Tag("replay")
		}
	}
	// (a) every ordered pair of entry points, for several pairs of different inputs (both orders of length)
	rng := c.Rng.Fork()
	npairs := c.N(4, 12)
	if c.Search {
		npairs *= 3
	}
	for _, op1 := range c12hist.EntryOps {
		for _, op2 := range c12hist.EntryOps {
			for k := 0; k < npairs; k++ {
				s1 := c12RandStep(rng, docs, helpers, op1, nil)
				s2 := c12RandStep(rng, docs, helpers, op2, s1.In)
				runSeq(c12hist.History{ID: fmt.Sprintf("pair-%s-%s-%d", op1, op2, k), Threads: [][]c12hist.Step{{s1, s2}}})
				st.Tag("pair " + op1 + ";" + op2)
			}
		}
	}
	// helpers: every ordered pair of helper kinds, and helper next to an entry point
	for i, h1 := range helpers {
		h2 := helpers[(i*7+3)%len(helpers)]
		e := c12RandStep(rng, docs, helpers, c12hist.EntryOps[i%len(c12hist.EntryOps)], nil)
		runSeq(c12hist.History{ID: fmt.Sprintf("helper-%d", i), Threads: [][]c12hist.Step{{h1, e, h2, helpers[(i+1)%len(helpers)]}}})
		st.Tag("helpers")
	}
	// (b) random histories of 2-6 calls
	nrand := c.N(1500, 20000)
	if c.Search {
		nrand *= 4
	}
	for i := 0; i < nrand; i++ {
		r := c.Rng.Fork()
		hs := c12hist.History{ID: fmt.Sprintf("seq-%d", i), Threads: [][]c12hist.Step{c12RandSeq(r, docs, helpers, 2+r.Intn(5))}}
		runSeq(hs)
		st.Tag(fmt.Sprintf("sequential len=%d", len(hs.Threads[0])))
	}
	// (c) 2-8 goroutines, each its own sequence
	var conc []c12hist.History
	nconc := c.N(120, 1500)
	if c.Search {
		nconc *= 4
	}
	for i := 0; i < nconc; i++ {
		r := c.Rng.Fork()
		g := 2 + r.Intn(7)
		hs := c12hist.History{ID: fmt.Sprintf("conc-%d", i), Reps: 1 + r.Intn(6), Procs: []int{0, 0, 1, 2, 4, 16}[r.Intn(6)]}
		for t := 0; t < g; t++ {
			hs.Threads = append(hs.Threads, c12RandSeq(r, docs, helpers, 2+r.Intn(5)))
		}
		conc = append(conc, hs)
		res := c12hist.Run(m, hs, c12HistTimeout)
		st.Count(c12HistKey(hs), true)
		for k := 1; k < res.Calls; k++ {
			st.Evaluations++
		}
		st.Tag(fmt.Sprintf("goroutines=%d", g))
		if len(res.Findings) > 0 && nfail < 12 {
			nfail++
			report(hs, res.Findings, "")
		}
	}
	// (m) tie of the heap model (Model/Stream.lean, ocall/orun configured by the regenerated ownership facts): histories of
	// Bytes/String calls; what the retained results, the callers' input slices and the errors read after the whole
	// history must be what model.c12.hist computes
	if err := c12ModelHistories(c, st, m, docs); err != nil {
		return err
	}
	// (d) the same executor under the race detector
	if err := c12RaceRun(c, st, conc, docs, helpers, report); err != nil {
		c.R.Note("C12 histories: the -race part did not run: %v", err)
	}
	st.End()
	return nil
}

func c12ModelHistories(c *Ctx, st *h.Stage, m *minify.M, docs []c12Doc) error {
	type mcase struct {
		hs    c12hist.History
		final []c12hist.Kept
	}
	var cases []mcase
	lines := []string{"model.c12.own"}
	n := c.N(300, 3000)
	for i := 0; i < n; i++ {
		r := c.Rng.Fork()
		var steps []c12hist.Step
		var groups [][][]byte
		var prev []byte
		for k := 2 + r.Intn(5); k > 0; k-- {
			op, kind := c12hist.OpBytes, "b"
			if r.Chance(35) {
				op, kind = c12hist.OpString, "s"
			}
			stp := c12RandStep(r, docs, nil, op, prev)
			prev = stp.In
			steps = append(steps, stp)
			out, err := c12Plain(m, stp.MT, append([]byte(nil), stp.In...))
			exists := "1"
			if errors.Is(err, minify.ErrNotExist) {
				exists = "0"
			}
			groups = append(groups, [][]byte{[]byte(kind), stp.In, out, []byte(c12ErrCode(err)), []byte(exists)})
		}
		hs := c12hist.History{ID: fmt.Sprintf("model-%d", i), Threads: [][]c12hist.Step{steps}}
		res := c12hist.Run(m, hs, c12HistTimeout)
		st.Count(c12HistKey(hs)+" vs model.c12.hist", c12HistNontrivial(hs))
		st.Tag("model-tie")
		if len(res.Final) == 1 && len(res.Final[0]) == len(steps) {
			cases = append(cases, mcase{hs, res.Final[0]})
			lines = append(lines, "model.c12.hist "+h.Groups(groups))
		}
	}
	rep, err := h.Eval(lines)
	if err != nil {
		return err
	}
	st.Count("wfOwnership of the regenerated ownership facts (Bytes/String return a fresh local buffer)", true)
	if b, ok, _ := h.DecodeReply(rep[0]); !ok || string(b) != "1" {
		c.R.Add(h.Finding{Stage: st.Name, Kind: "diff", What: "regenerated ownership facts: Bytes/String no longer cut their result from a fresh local buffer (or no longer copy the input)", Input: "Gen/Wrappers.lean retFacts"})
	}
	ndiff := 0
	for i, cs := range cases {
		b, ok, msg := h.DecodeReply(rep[i+1])
		parts := h.DecodeListReply(b)
		bad := !ok || len(parts) != 3*len(cs.final)
		var impl, model string
		for k := 0; !bad && k < len(cs.final); k++ {
			code := map[bool]string{true: "nil", false: "min"}[cs.final[k].Err == "<nil>"]
			if cs.final[k].Err == minify.ErrNotExist.Error() {
				code = "notexist"
			}
			if !bytes.Equal(parts[3*k], cs.final[k].Out) || !bytes.Equal(parts[3*k+1], cs.final[k].In) || string(parts[3*k+2]) != code {
				bad = true
				impl = fmt.Sprintf("call #%d: result %s input %s err %s", k, h.Q(clip(cs.final[k].Out, 100)), h.Q(clip(cs.final[k].In, 100)), code)
				model = fmt.Sprintf("call #%d: result %s input %s err %s", k, h.Q(clip(parts[3*k], 100)), h.Q(clip(parts[3*k+1], 100)), parts[3*k+2])
			}
		}
		if bad && ndiff < 4 {
			ndiff++
			js, _ := json.Marshal(cs.hs)
			c.R.Add(h.Finding{Stage: st.Name, Kind: "diff", What: "retained results after a history of Bytes/String calls differ from the heap model (model.c12.hist) " + msg, Input: c12HistKey(cs.hs), Config: string(js), Impl: impl, Model: model})
		}
	}
	return nil
}

func c12RaceRun(c *Ctx, st *h.Stage, conc []c12hist.History, docs []c12Doc, helpers []c12hist.Step, report func(c12hist.History, []c12hist.Finding, string)) error {
	dir, err := os.MkdirTemp("", "verif-c12-")
	if err != nil {
		return err
	}
	defer os.RemoveAll(dir)
	exe := filepath.Join(dir, "race12")
	build := exec.Command("go", append(h.GoBuildArgs(), "-race", "-tags", "verif", "-o", exe, "./cmd/race12")...)
	build.Dir = filepath.Join(h.Root(), "harness")
	build.Env = append(os.Environ(), "CGO_ENABLED=1")
	if out, err := build.CombinedOutput(); err != nil {
		return fmt.Errorf("building cmd/race12 with -race failed: %v\n%s", err, clipS(string(out), 600))
	}
	var hs []c12hist.History
	nc, ns := c.N(16, 120), c.N(150, 1500)
	if c.Search {
		nc, ns = nc*3, ns*3
	}
	for i := 0; i < nc && i < len(conc); i++ {
		hs = append(hs, conc[i])
	}
	for i := 0; i < ns; i++ {
		r := c.Rng.Fork()
		hs = append(hs, c12hist.History{ID: fmt.Sprintf("race-seq-%d", i), Threads: [][]c12hist.Step{c12RandSeq(r, docs, helpers, 2+r.Intn(5))}})
	}
	byID := map[string]c12hist.History{}
	for _, x := range hs {
		byID[x.ID] = x
	}
	in, _ := json.Marshal(hs)
	cmd := exec.Command(exe)
	cmd.Env = append(os.Environ(), "GORACE=halt_on_error=0 exitcode=66")
	cmd.Stdin = bytes.NewReader(in)
	var stdout, stderr bytes.Buffer
	cmd.Stdout, cmd.Stderr = &stdout, &stderr
	runErr := cmd.Run()
	sawSummary := false
	sc := bufio.NewScanner(&stdout)
	sc.Buffer(make([]byte, 1<<20), 1<<26)
	nrep := 0
	for sc.Scan() {
		var ev struct {
			Kind    string          `json:"kind"`
			Finding c12hist.Finding `json:"finding"`
			Calls   int             `json:"calls"`
		}
		if json.Unmarshal(sc.Bytes(), &ev) != nil {
			continue
		}
		switch ev.Kind {
		case "finding":
			if nrep < 6 {
				nrep++
				report(byID[ev.Finding.Hist], []c12hist.Finding{ev.Finding}, " (seen in the -race build)")
			}
		case "summary":
			sawSummary = true
			for k := 0; k < ev.Calls; k++ {
				st.Evaluations++
			}
			st.Nontrivial += len(hs)
			st.Tag("race-build")
		}
	}
	if races := strings.Count(stderr.String(), "WARNING: DATA RACE"); races > 0 {
		first := stderr.String()
		if i := strings.Index(first, "WARNING: DATA RACE"); i >= 0 {
			first = first[i:]
		}
		c.R.Add(h.Finding{Stage: st.Name, Kind: "fail", What: "race detector: data race while histories of entry-point calls run on one *minify.M (memory handed back by one call is written by another)", Input: fmt.Sprintf("cmd/race12 with %d histories (%d concurrent), seed %d", len(hs), min(nc, len(conc)), c.Seed), Config: fmt.Sprintf("%d data race report(s)", races), Impl: clipS(first, 1800)})
	} else if runErr != nil || !sawSummary {
		c.R.Add(h.Finding{Stage: st.Name, Kind: "crash", What: fmt.Sprintf("cmd/race12 failed: %v", runErr), Input: fmt.Sprintf("cmd/race12 with %d histories, seed %d", len(hs), c.Seed), Impl: clipS(stderr.String(), 1500)})
	}
	return nil
}

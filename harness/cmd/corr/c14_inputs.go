package main

// Inputs shared by the C14 (fault sweep) and C12 (chunking) runners: the six media types with their
// minifiers, small generated documents, and the files of /repo/tests/*/corpus and /repo/_benchmarks.

import (
	"fmt"
	"os"
	"path/filepath"
	"sort"
	"strings"

	"github.com/tdewolff/minify/v2"
	"github.com/tdewolff/minify/v2/css"
	"github.com/tdewolff/minify/v2/html"
	"github.com/tdewolff/minify/v2/js"
	"github.com/tdewolff/minify/v2/json"
	"github.com/tdewolff/minify/v2/svg"
	"github.com/tdewolff/minify/v2/xml"

	"verifharness/h"
)

type ioInput struct {
	mt   string // media type
	pkg  string // package whose Minify is the top-level minifier
	name string // where it comes from
	data []byte
}

var ioTypes = []struct{ mt, pkg, ext string }{
	{"text/css", "css", ".css"},
	{"text/html", "html", ".html"},
	{"application/javascript", "js", ".js"},
	{"application/json", "json", ".json"},
	{"image/svg+xml", "svg", ".svg"},
	{"text/xml", "xml", ".xml"},
}

// ioNewM registers the six minifiers the way cmd/minify does (embedded resources are minified too).
func ioNewM() *minify.M {
	m := minify.New()
	m.Add("text/css", &css.Minifier{})
	m.Add("text/html", &html.Minifier{})
	m.Add("application/javascript", &js.Minifier{})
	m.Add("application/json", &json.Minifier{})
	m.Add("image/svg+xml", &svg.Minifier{})
	m.Add("text/xml", &xml.Minifier{})
	return m
}

func ioPkgOf(mt string) string {
	for _, t := range ioTypes {
		if t.mt == mt {
			return t.pkg
		}
	}
	return ""
}

// ---- generators (valid documents by construction, with embedded resources where the format has them) ----

func genJSON(r *h.RNG, depth int) string {
	switch k := r.Intn(8); {
	case depth <= 0 || k < 3:
		return r.Pick([]string{"1", "-0.50", "1e3", "12.0e+1", "true", "false", "null", `"a"`, `"x y"`, `""`, `"é\n"`, "0.0", "100"})
	case k < 6:
		n := r.Intn(4)
		var p []string
		for i := 0; i < n; i++ {
			p = append(p, fmt.Sprintf(`%s"k%d"%s:%s%s`, r.Pick([]string{"", " ", "\n  "}), i, r.Pick([]string{"", " "}), r.Pick([]string{"", " "}), genJSON(r, depth-1)))
		}
		return "{" + strings.Join(p, ",") + r.Pick([]string{"", " ", "\n"}) + "}"
	default:
		n := r.Intn(4)
		var p []string
		for i := 0; i < n; i++ {
			p = append(p, r.Pick([]string{"", " "})+genJSON(r, depth-1))
		}
		return "[" + strings.Join(p, ",") + r.Pick([]string{"", " "}) + "]"
	}
}

func genXML(r *h.RNG, depth int) string {
	var sb strings.Builder
	n := 1 + r.Intn(3)
	for i := 0; i < n; i++ {
		switch k := r.Intn(10); {
		case k < 2 || depth <= 0:
			sb.WriteString(r.Pick([]string{"text", " a  b ", "x &amp; y", "&lt;", "\n  ", "1 &#60; 2"}))
		case k < 3:
			sb.WriteString(r.Pick([]string{"<!-- c -->", "<![CDATA[ a<b ]]>", "<![CDATA[plain]]>", "<?pi x?>"}))
		default:
			tag := r.Pick([]string{"a", "b", "item", "ns:e"})
			sb.WriteString("<" + tag)
			for j := r.Intn(3); j > 0; j-- {
				sb.WriteString(r.Pick([]string{` k="v"`, ` x='a"b'`, ` y = "1 &amp; 2"`, ` e=""`, ` z="it's"`}))
			}
			if r.Chance(25) {
				sb.WriteString(r.Pick([]string{"/>", " />"}))
			} else {
				sb.WriteString(">" + genXML(r, depth-1) + "</" + tag + r.Pick([]string{"", " "}) + ">")
			}
		}
	}
	return sb.String()
}

func genCSSDecls(r *h.RNG) string {
	n := 1 + r.Intn(4)
	var p []string
	for i := 0; i < n; i++ {
		p = append(p, r.Pick([]string{"color: #ff0000", "margin: 0px 0px 0px 0px", "width: 10.0px", "background: url( 'a.png' )", "font-weight: bold",
			"padding: 1px 2px 1px 2px", "color: rgb(255, 255, 255)", "transition: all 0.50s", "content: \"a b\"", "top: calc(1px + 2px)", "border: none", "opacity: 0.5 !important"}))
	}
	return strings.Join(p, r.Pick([]string{";", "; ", " ;\n  "})) + r.Pick([]string{"", ";"})
}

func genCSS(r *h.RNG, depth int) string {
	var sb strings.Builder
	n := 1 + r.Intn(4)
	for i := 0; i < n; i++ {
		switch k := r.Intn(10); {
		case k < 1:
			sb.WriteString("/* c */")
		case k < 2:
			sb.WriteString(`@import "x.css";` + "\n")
		case k < 4 && depth > 0:
			sb.WriteString("@media screen and (min-width: 100px) {" + genCSS(r, depth-1) + "}")
		default:
			sb.WriteString(r.Pick([]string{"a", ".c > b", "#id , p", "a:hover", "*", "div[x = \"y\"]", "ul  li"}) + r.Pick([]string{"{", " {\n  "}) + genCSSDecls(r) + r.Pick([]string{"}", " }\n"}))
		}
	}
	return sb.String()
}

func genJS(r *h.RNG, n int) string {
	var sb strings.Builder
	for i := 0; i < n; i++ {
		sb.WriteString(r.Pick([]string{
			"var a = 1;", "let b = a + 2 ;", "function f(x, y) { return x + y }", "if (a) { b = 1 } else { b = 2 }", "for (var i = 0; i < 10; i++) { f(i, 1) }",
			"const s = 'str' + \"ing\";", "a = b ? 1 : 2;", "x = function () { return true };", "while (a) { a-- }", "// comment\n", "/* c */", "y = [1, 2, 3].map(z => z * 2);",
			"try { f() } catch (e) { g(e) } finally { }", "switch (a) { case 1: b(); break; default: c() }", "o = { a: 1, 'b': 2, [c]: 3 };", "`t${a}`;", "class A extends B { m() { return 1 } }",
			"if (!a) return1(); ", "a = void 0;", "b = a === undefined;", "label: for (;;) { break label }",
		}))
		sb.WriteString(r.Pick([]string{"", " ", "\n", "\n\n  "}))
	}
	return sb.String()
}

func genSVG(r *h.RNG) string {
	var sb strings.Builder
	sb.WriteString(r.Pick([]string{`<svg xmlns="http://www.w3.org/2000/svg" version="1.1" x="0" y="0" viewBox="0 0 100.0 100.0">`, `<svg width="10px" height="10.0px">`, `<?xml version="1.0"?><!DOCTYPE svg><svg>`}))
	n := 1 + r.Intn(5)
	for i := 0; i < n; i++ {
		sb.WriteString(r.Pick([]string{
			`<path d="M 10 10 L 20 20 L 30 10 z" fill="#ff0000"/>`, `<g style="fill: red; stroke: #000000"><rect x="0" y="0" width="10" height="10"></rect></g>`,
			`<style>` + genCSS(r, 0) + `</style>`, `<style><![CDATA[ a { color: blue } ]]></style>`, `<!-- comment -->`, `<text> a  b </text>`, `<metadata><x>y</x></metadata>`,
			`<defs/>`, `<circle cx="5.0" cy="5.0" r="2.50" stroke="black" inkscape:label="l"/>`, `<foreignObject><p> x </p></foreignObject>`, `<path d="m1 1h2v2h-2z"/>`, `<g> </g>`,
			`<line x1="0" y1="0" x2="1e2" y2="0.10" style="stroke-width:2.0px"/>`,
		}))
		sb.WriteString(r.Pick([]string{"", "\n", "  "}))
	}
	sb.WriteString("</svg>")
	return sb.String()
}

func genHTML(r *h.RNG, n int) string {
	var sb strings.Builder
	if r.Chance(50) {
		sb.WriteString("<!DOCTYPE html>\n<html><head><title> T </title>")
		if r.Chance(50) {
			sb.WriteString(`<meta charset="utf-8">`)
		}
		sb.WriteString("</head><body>")
	}
	for i := 0; i < n; i++ {
		sb.WriteString(r.Pick([]string{
			"<p> some  text </p>", "<div class=\" a  b \" id='x'>x &amp; y</div>", "<style> " + genCSS(r, 0) + " </style>", "<script> " + genJS(r, 1+r.Intn(3)) + " </script>",
			`<a href="http://example.com/" style="color: #ff0000; margin: 0px">l</a>`, `<button onclick="javascript:f( 1 );">b</button>`, "<!-- comment -->", "<pre>  keep \n  this </pre>",
			"<ul><li>a</li><li>b</li></ul>", genSVG(r), "<br>", "<input type=\"text\" disabled=\"disabled\">", "<!--[if IE]><p> ie </p><![endif]-->", "<textarea> t </textarea>",
			`<script type="application/json">{ "a" : [ 1 , 2 ] }</script>`, `<math><mi>x</mi></math>`, "<table><tr><td>1</td></tr></table>", "<span>a</span> <span>b</span>", "<iframe><p> i </p></iframe>",
			`<img src="data:image/png;base64,AAAA" alt="">`, "text &lt; more &nbsp; text",
		}))
		sb.WriteString(r.Pick([]string{"", " ", "\n", "\n  "}))
	}
	return sb.String()
}

func ioGen(r *h.RNG, pkg string, size int) []byte {
	switch pkg {
	case "json":
		return []byte(r.Pick([]string{"", " ", "\n"}) + genJSON(r, 1+size) + r.Pick([]string{"", "\n"}))
	case "xml":
		return []byte(r.Pick([]string{"", `<?xml version="1.0" encoding="UTF-8"?>` + "\n", "<!DOCTYPE r>"}) + "<r>" + genXML(r, size) + "</r>" + r.Pick([]string{"", "\n"}))
	case "css":
		return []byte(genCSS(r, size))
	case "js":
		return []byte(genJS(r, 1+size*3))
	case "svg":
		return []byte(genSVG(r))
	default:
		return []byte(genHTML(r, 1+size*3))
	}
}

// ioInvalid: inputs on which the minifier itself reports an error (syntax error)
var ioInvalid = []ioInput{
	{"application/json", "json", "invalid", []byte(`{"a":1,`)},
	{"application/json", "json", "invalid", []byte(`[1,2,,]`)},
	{"application/javascript", "js", "invalid", []byte(`var a = ; b`)},
	{"application/javascript", "js", "invalid", []byte(`function (`)},
	{"text/html", "html", "invalid-embedded", []byte(`<p>a</p><script>var = ;</script><p>b</p>`)},
	{"text/html", "html", "invalid-embedded", []byte(`<p>a</p><script type="application/json">{"a":}</script>`)},
	{"image/svg+xml", "svg", "invalid-nul", []byte("<svg><a>\x00</a></svg>")},
	{"text/xml", "xml", "invalid-nul", []byte("<a>\x00</a>")},
	{"text/css", "css", "invalid-nul", []byte("a{color:\x00red}")},
}

// ioEdges: documents that are empty after minification or end inside a construct (comment, CDATA, processing instruction,
// string, attribute value, block): the places where a minifier leaves its main loop early and may skip the final probe write
var ioEdges = []ioInput{
	{"application/javascript", "js", "edge", []byte(" ")}, {"application/javascript", "js", "edge", []byte("// c\n")}, {"application/javascript", "js", "edge", []byte("/* c */")},
	{"application/javascript", "js", "edge", []byte(";")}, {"application/javascript", "js", "edge", []byte("{}")}, {"application/javascript", "js", "edge", []byte("{;}")},
	{"application/javascript", "js", "edge", []byte("#!/usr/bin/env node\n")}, {"application/javascript", "js", "edge", []byte("'use strict'")},
	{"text/css", "css", "edge", []byte(" ")}, {"text/css", "css", "edge", []byte("/* c */")}, {"text/css", "css", "edge", []byte("a{}")}, {"text/css", "css", "edge", []byte("@media print{}")},
	{"text/css", "css", "edge", []byte("a{color:red")}, {"text/css", "css", "edge", []byte("a{b:url(")}, {"text/css", "css", "edge", []byte("/* c")}, {"text/css", "css", "edge", []byte("a{b:'c")},
	{"application/json", "json", "edge", []byte(" ")}, {"application/json", "json", "edge", []byte("[]")}, {"application/json", "json", "edge", []byte("{}")}, {"application/json", "json", "edge", []byte("[1,2")},
	{"text/html", "html", "edge", []byte(" ")}, {"text/html", "html", "edge", []byte("<!-- c -->")}, {"text/html", "html", "edge", []byte("<!-- c")}, {"text/html", "html", "edge", []byte("<p>a</p><!--")},
	{"text/html", "html", "edge", []byte("<script>")}, {"text/html", "html", "edge", []byte("<style>a{b:c}")}, {"text/html", "html", "edge", []byte("<a href=\"x")}, {"text/html", "html", "edge", []byte("<html><head></head><body></body></html>")},
	{"text/html", "html", "edge", []byte("<svg><?pi")}, {"text/html", "html", "edge", []byte("<p>a<svg><path d=\"M0 0")}, {"text/html", "html", "edge", []byte("<textarea>")}, {"text/html", "html", "edge", []byte("<![CDATA[x")},
	{"image/svg+xml", "svg", "edge", []byte(" ")}, {"image/svg+xml", "svg", "edge", []byte("<?xml version=\"1.0\"")}, {"image/svg+xml", "svg", "edge", []byte("<?xml version=\"1.0\"?>")},
	{"image/svg+xml", "svg", "edge", []byte("<svg></svg><?render hint")}, {"image/svg+xml", "svg", "edge", []byte("<svg><?pi a")}, {"image/svg+xml", "svg", "edge", []byte("<svg><!-- c")}, {"image/svg+xml", "svg", "edge", []byte("<svg><![CDATA[ a")},
	{"image/svg+xml", "svg", "edge", []byte("<svg><metadata><a>")}, {"image/svg+xml", "svg", "edge", []byte("<svg><g inkscape:x=\"1\"")}, {"image/svg+xml", "svg", "edge", []byte("<svg><foreignObject><p>")}, {"image/svg+xml", "svg", "edge", []byte("<svg><path d=\"M0 0")},
	{"image/svg+xml", "svg", "edge", []byte("<!DOCTYPE svg [")}, {"image/svg+xml", "svg", "edge", []byte("<svg><style>a{")}, {"image/svg+xml", "svg", "edge", []byte("<metadata/>")}, {"image/svg+xml", "svg", "edge", []byte("<!-- only -->")},
	{"text/xml", "xml", "edge", []byte(" ")}, {"text/xml", "xml", "edge", []byte("<?xml version=\"1.0\"")}, {"text/xml", "xml", "edge", []byte("<a/><?pi x")}, {"text/xml", "xml", "edge", []byte("<a><!-- c")},
	{"text/xml", "xml", "edge", []byte("<a><![CDATA[ x")}, {"text/xml", "xml", "edge", []byte("<a b=\"c")}, {"text/xml", "xml", "edge", []byte("<!DOCTYPE a [")}, {"text/xml", "xml", "edge", []byte("<!-- only -->")},
}

// ioTruncated: the edge documents plus per media type n generated documents cut at a random byte offset
func ioTruncated(r *h.RNG, n int) []ioInput {
	out := append([]ioInput(nil), ioEdges...)
	for _, t := range ioTypes {
		for i := 0; i < n; i++ {
			d := ioGen(r, t.pkg, 1+i%3)
			if len(d) < 2 {
				continue
			}
			cut := 1 + r.Intn(len(d)-1)
			out = append(out, ioInput{t.mt, t.pkg, fmt.Sprintf("truncated#%d@%d", i, cut), d[:cut]})
		}
	}
	return out
}

// ioCorpus returns the corpus / benchmark files of the six media types up to maxSize bytes
// (larger files contribute their first maxSize bytes when prefixes is set).
func ioCorpus(repo string, maxSize int, prefixes bool) []ioInput {
	var out []ioInput
	for _, t := range ioTypes {
		var files []string
		a, _ := filepath.Glob(filepath.Join(repo, "tests", t.pkg, "corpus", "*"))
		b, _ := filepath.Glob(filepath.Join(repo, "_benchmarks", "*"+t.ext))
		files = append(append(files, a...), b...)
		sort.Strings(files)
		for _, f := range files {
			d, err := os.ReadFile(f)
			if err != nil || len(d) == 0 {
				continue
			}
			name := strings.TrimPrefix(f, repo+"/")
			if len(d) > maxSize {
				if !prefixes {
					continue
				}
				d = d[:maxSize]
				name += fmt.Sprintf("[:%d]", maxSize)
			}
			out = append(out, ioInput{t.mt, t.pkg, name, d})
		}
	}
	return out
}

package main

// C04B histories: several calls on ONE shared *css.Minifier, registered in one M with m.Add (the set-up of cmd/minify and
// of the bindings; css.Minify / AddFunc builds a fresh Minifier per call).  The output of a call must not depend on the
// calls made before, the option struct must not change, and every css output is judged like any other case (model, oracle,
// Lean spec).

import (
	"bytes"
	"encoding/json"
	"fmt"
	"reflect"
	"strings"
	"time"

	"github.com/tdewolff/minify/v2"
	"github.com/tdewolff/minify/v2/css"
	"github.com/tdewolff/minify/v2/html"

	"verifharness/h"
)

type c04bCall struct {
	Kind string `json:"kind"` // direct | direct-inline | registry | registry-inline | html
	Doc  string `json:"doc"`
}

type c04bHistory struct {
	CSS2  bool       `json:"keepCSS2"`
	Calls []c04bCall `json:"calls"`
}

func (hs c04bHistory) json(upto int) string {
	b, _ := json.Marshal(c04bHistory{hs.CSS2, hs.Calls[:upto+1]})
	return string(b)
}

func c04bSharedSetup(css2 bool) (*minify.M, *css.Minifier) {
	m := minify.New()
	sm := &css.Minifier{KeepCSS2: css2}
	m.Add("text/css", sm)
	m.AddFunc("text/html", html.Minify)
	return m, sm
}

func c04bDoCall(m *minify.M, sm *css.Minifier, call c04bCall) (out string, err error, crash string) {
	crash = h.Safely(30*time.Second, func() {
		var w bytes.Buffer
		r := strings.NewReader(call.Doc)
		switch call.Kind {
		case "direct":
			err = sm.Minify(m, &w, r, nil)
		case "direct-inline":
			err = sm.Minify(m, &w, r, map[string]string{"inline": "1"})
		case "registry":
			err = m.Minify("text/css", &w, r)
		case "registry-inline":
			err = m.Minify("text/css;inline=1", &w, r)
		case "html":
			err = m.Minify("text/html", &w, r)
		}
		out = w.String()
	})
	return
}

func c04bInlineKind(kind string) bool { return kind == "direct-inline" || kind == "registry-inline" }

// c04bHistFixed: the call sequences that matter first — an inline call (directly, through the registry, through an HTML
// page with a style attribute), then a style sheet
var c04bHistFixed = []c04bHistory{
	{false, []c04bCall{{"direct-inline", "color:#ff0000"}, {"direct", "a:hover{color:#ff0000}ul :first-child{margin:0 0 0 0}"}}},
	{false, []c04bCall{{"registry-inline", "color:red"}, {"registry", "a:hover{color:#ff0000}ul :first-child{margin:0 0 0 0}b, c :focus{x:y}"}}},
	{false, []c04bCall{{"html", `<p style="color:#ff0000">x</p><style>a:hover{color:#ff0000}ul :first-child{margin:0 0 0 0}</style>`}, {"registry", "li :first-child{margin:0 0 0 0}"}, {"html", `<style>a:hover{color:#ff0000}ul :first-child{margin:0 0 0 0}</style>`}}},
	{true, []c04bCall{{"direct", "a{width:0.50px}"}, {"direct-inline", "width:0.50px"}, {"direct", "a:hover{width:0.50px}x :hover{margin:0 0}"}, {"direct-inline", "a:b"}}},
	{false, []c04bCall{{"direct-inline", "margin:0 0;"}, {"registry", "@media screen{a :hover{b:c}}@import 'x';p :not(a){font:normal 12px a}"}}},
}

func c04bGenHistory(r *h.RNG, shapes []c04Shape) c04bHistory {
	hs := c04bHistory{CSS2: r.Chance(30)}
	n := 2 + r.Intn(3)
	plain := func(s string) bool { return !strings.ContainsAny(s, "\"<>&\x00\r") }
	for k := 0; k < n; k++ {
		kind := r.Pick([]string{"direct", "direct-inline", "registry", "registry-inline", "html", "direct-inline", "registry", "direct"})
		var doc string
		switch {
		case c04bInlineKind(kind):
			doc = c04bDeclList(r, shapes, 1)
		case kind == "html":
			inl, sheet := c04bDeclList(r, shapes, 1), c04bSheet(r, shapes, 0)
			if !plain(inl) {
				inl = "color:#ff0000"
			}
			if !plain(sheet) {
				sheet = "a:hover{color:#ff0000}ul :first-child{margin:0 0 0 0}"
			}
			doc = r.Pick([]string{`<p style="` + inl + `">x</p><style>` + sheet + `</style>`, `<style>` + sheet + `</style><p style="` + inl + `">x</p>`, `<style>` + sheet + `</style>`, `<p style="` + inl + `">x`})
		default:
			doc = c04bSheet(r, shapes, 0)
			if r.Chance(25) {
				// the shape a declaration-list parser would misread: `ident:` stretches with a descendant combinator in front of a colon
				doc = r.Pick([]string{"a:hover", "li:first-child", "a:not(b)", "x::before"}) + "{" + c04bDeclList(r, shapes, 1) + "}" + r.Pick([]string{"ul", "b, c", ".x", "#y"}) + r.Pick([]string{" ", "  ", "\n"}) + r.Pick([]string{":first-child", ":hover", "::after", ":not(p)"}) + "{" + c04bDeclList(r, shapes, 1) + "}" + doc
			}
		}
		hs.Calls = append(hs.Calls, c04bCall{kind, doc})
	}
	return hs
}

// c04bRunHistories plays every history on a shared minifier; each call is compared with the same call on a fresh set-up,
// the option struct before and after, and every css call goes through c04bRun with the output it produced here.
func c04bRunHistories(c *Ctx, st *h.Stage, hists []c04bHistory) error {
	var cases []c04bCase
	for _, hs := range hists {
		m, sm := c04bSharedSetup(hs.CSS2)
		inlineBefore := false
		for k, call := range hs.Calls {
			before := *sm
			out, err, crash := c04bDoCall(m, sm, call)
			after := *sm
			fm, fsm := c04bSharedSetup(hs.CSS2)
			fout, ferr, fcrash := c04bDoCall(fm, fsm, call)
			input := hs.json(k)
			cfg := fmt.Sprintf("history call=%d kind=%s KeepCSS2=%v Precision=0", k, call.Kind, hs.CSS2)
			sheetCall := call.Kind == "direct" || call.Kind == "registry"
			st.Tag("call=" + call.Kind)
			if crash != "" || fcrash != "" {
				st.Count(input+" "+cfg, true)
				c.R.Add(h.Finding{Stage: st.Name, Kind: "crash", What: crash + fcrash, Input: input, Hex: h.HexS(input), Config: cfg})
				break
			}
			if !reflect.DeepEqual(before, after) {
				c.R.Add(h.Finding{Stage: st.Name, Kind: "diff", What: fmt.Sprintf("the css.Minifier option struct was changed by a call: %+v -> %+v", before, after), Input: input, Hex: h.HexS(input), Config: cfg})
			}
			if (err == nil) != (ferr == nil) || out != fout {
				st.Tag("shared!=fresh")
				c.R.Add(h.Finding{Stage: st.Name, Kind: "fail", What: "the output of a call depends on the calls made before on the same *css.Minifier (same call on a fresh minifier under `model`)", Input: input, Hex: h.HexS(input), Config: cfg, Impl: out, Model: fout})
			} else {
				st.Tag("shared=fresh")
			}
			if call.Kind == "html" {
				st.Count(input+" "+cfg, inlineBefore || strings.Contains(call.Doc, "style=") && strings.Contains(call.Doc, "<style>"))
			} else if err != nil {
				st.Count(input+" "+cfg, false)
				st.Tag("rejected")
			} else {
				o := out
				cases = append(cases, c04bCase{src: call.Doc, inline: c04bInlineKind(call.Kind), css2: hs.CSS2, tag: "history", pre: &o, hist: input, histCfg: cfg})
				if inlineBefore && sheetCall {
					st.Tag("sheet-after-inline")
				}
			}
			if c04bInlineKind(call.Kind) || (call.Kind == "html" && strings.Contains(call.Doc, "style=")) {
				inlineBefore = true
			}
		}
	}
	return c04bRun(c, st, cases)
}

func c04bHistories(c *Ctx, st *h.Stage, shapes []c04Shape) error {
	hists := append([]c04bHistory{}, c04bHistFixed...)
	n := c.N(1500, 15000)
	if c.Search {
		n *= 3
	}
	for i := 0; i < n; i++ {
		hists = append(hists, c04bGenHistory(c.Rng.Fork(), shapes))
	}
	return c04bRunHistories(c, st, hists)
}

package main

// C17 — the built-in replacement tables agree with the standards.
//
// The property itself is decided by Lean theorems over the tables regenerated from /repo (Props/C17.lean).
// This runner adds the checked tie and the search:
//   translator   the regenerated tables (as the driver prints them, `dump.*`) = the live exported Go maps;
//                the unexported ones (tagMap, attrMap, jsMimetypes, optionalZeroDimension, colorAttrMap) are read back
//                through the behaviour of the public minifiers; every name of the */hash.go tables round-trips.
//   entities     every row of the LIVE html.EntitiesMap (and every HTML5 name) through html.Minify in text and in an
//                attribute, judged by html.UnescapeString and by golang.org/x/net/html (input and output must decode equal);
//                XML entities through xml.Minify and svg.Minify, judged by encoding/xml.
//   colours      every row of the LIVE css.ShortenColorName / ShortenColorHex and every CSS colour keyword through
//                css.Minify and svg.Minify, judged by the independent colour table.
//   spec         the hand-written Lean decoders against html.UnescapeString, x/net/html, encoding/xml.
//   known        K-C17-2 (xmlns); fixed K-C17-1 (marquee) and F06 (lightslateblue) as regression inputs.
//   search       (c.Search) every row that fails its Lean checker (`bad.*`) is turned into a minifier input.

import (
	stdxml "encoding/xml"
	"fmt"
	stdhtml "html"
	"io"
	"net/url"
	"regexp"
	"sort"
	"strconv"
	"strings"
	"time"

	"github.com/tdewolff/minify/v2"
	"github.com/tdewolff/minify/v2/css"
	"github.com/tdewolff/minify/v2/html"
	"github.com/tdewolff/minify/v2/svg"
	"github.com/tdewolff/minify/v2/xml"
	xhtml "golang.org/x/net/html"

	"verifharness/h"
)

func init() { register("C17", runC17) }

// ---------- the real code, through the public API ----------

type c17M struct{ m *minify.M }

func c17New() *c17M {
	m := minify.New()
	m.Add("text/html", &html.Minifier{})
	m.Add("text/css", &css.Minifier{})
	m.Add("image/svg+xml", &svg.Minifier{})
	m.Add("text/xml", &xml.Minifier{})
	return &c17M{m}
}

// run minifies one input; a panic is returned as crash text.
func (x *c17M) run(mt, in string) (out string, err error, crash string) {
	defer func() {
		if p := recover(); p != nil {
			crash = fmt.Sprintf("panic: %v", p)
		}
	}()
	out, err = x.m.String(mt, in)
	return
}

// ---------- oracles ----------

// c17Dom returns the text content of the first <p>/<div>/… element named tag and the attributes of the first element named atag.
func c17Text(doc string) (text string, ok bool) {
	n, err := xhtml.Parse(strings.NewReader(doc))
	if err != nil {
		return "", false
	}
	var sb strings.Builder
	var walk func(*xhtml.Node)
	walk = func(n *xhtml.Node) {
		if n.Type == xhtml.TextNode {
			sb.WriteString(n.Data)
		}
		for c := n.FirstChild; c != nil; c = c.NextSibling {
			walk(c)
		}
	}
	walk(n)
	return sb.String(), true
}

func c17Attr(doc, tag, attr string) (val string, found bool) {
	n, err := xhtml.Parse(strings.NewReader(doc))
	if err != nil {
		return "", false
	}
	var walk func(*xhtml.Node) bool
	walk = func(n *xhtml.Node) bool {
		if n.Type == xhtml.ElementNode && n.Data == tag {
			for _, a := range n.Attr {
				if a.Key == attr {
					val, found = a.Val, true
					return true
				}
			}
		}
		for c := n.FirstChild; c != nil; c = c.NextSibling {
			if walk(c) {
				return true
			}
		}
		return false
	}
	walk(n)
	return
}

// c17Ws collapses runs of ASCII white space and trims it at both ends (the HTML minifier collapses white space and
// trims it at block boundaries by design, also when it was written as `&Tab;` / `&NewLine;`; that is C03's concern, not C17's).
func c17Ws(s string) string {
	var sb strings.Builder
	ws := false
	for _, r := range s {
		if r == ' ' || r == '\t' || r == '\n' || r == '\r' || r == '\f' {
			ws = true
			continue
		}
		if ws {
			sb.WriteByte(' ')
			ws = false
		}
		sb.WriteRune(r)
	}
	return strings.TrimLeft(sb.String(), " ")
}

// c17XML decodes a document with encoding/xml into "chardata|attr=val|…" (error → ok=false).
func c17XML(doc string) (string, bool) { return c17XMLw(doc, false) }

// c17XMLw: with wsNorm, character data is compared modulo collapsing/trimming of white space (the XML minifier
// collapses white space in character data by design — C06's equivalence; attribute values stay exact).
func c17XMLw(doc string, wsNorm bool) (string, bool) {
	d := stdxml.NewDecoder(strings.NewReader(doc))
	var sb strings.Builder
	var text []byte // character data is one run until the next tag (comments and CDATA boundaries do not split it)
	flush := func() {
		if wsNorm {
			if t := strings.TrimRight(c17Ws(string(text)), " "); t != "" {
				sb.WriteString("T:" + t + "|")
			}
		} else if len(text) > 0 {
			sb.WriteString("T:")
			sb.Write(text)
			sb.WriteByte('|')
		}
		text = text[:0]
	}
	for {
		t, err := d.Token()
		if err == io.EOF {
			flush()
			return sb.String(), true
		}
		if err != nil {
			return "", false
		}
		switch v := t.(type) {
		case stdxml.CharData:
			text = append(text, v...)
		case stdxml.EndElement:
			flush()
		case stdxml.StartElement:
			flush()
			sb.WriteString("<" + v.Name.Local)
			for _, a := range v.Attr {
				sb.WriteString(" " + a.Name.Local + "=" + strconv.Quote(a.Value))
			}
			sb.WriteString(">|")
		}
	}
}

type c17RGB struct{ r, g, b int }

func c17Hex1(c byte) int {
	switch {
	case c >= '0' && c <= '9':
		return int(c - '0')
	case c >= 'a' && c <= 'f':
		return int(c-'a') + 10
	case c >= 'A' && c <= 'F':
		return int(c-'A') + 10
	}
	return -1
}

// c17Color: keyword (any case) or #rgb / #rrggbb ↦ sRGB, judged with the independent colour table.
func c17Color(cols map[string]c17RGB, s string) (c17RGB, bool) {
	if strings.HasPrefix(s, "#") {
		d := []int{}
		for i := 1; i < len(s); i++ {
			v := c17Hex1(s[i])
			if v < 0 {
				return c17RGB{}, false
			}
			d = append(d, v)
		}
		switch len(d) {
		case 3:
			return c17RGB{17 * d[0], 17 * d[1], 17 * d[2]}, true
		case 6:
			return c17RGB{16*d[0] + d[1], 16*d[2] + d[3], 16*d[4] + d[5]}, true
		}
		return c17RGB{}, false
	}
	c, ok := cols[strings.ToLower(s)]
	return c, ok
}

// ---------- driver tables ----------

type c17Dump struct {
	pairs  map[string][][2]string // table → rows
	names  map[string][]string
	class  map[string]map[string]bool
	bad    map[string][]string
	colors map[string]c17RGB
	html5  [][2]string // name, "cp cp"
}

var c17PairTables = []string{"EntitiesHtml", "TextRevHtml", "AttrRevHtml", "EntitiesXml", "TextRevXml", "AttrRevXml", "ShortenColorHex", "ShortenColorName",
	"TagTraits", "AttrTraits", "HashNames.html", "HashNames.css", "HashNames.svg", "Html5Entities", "CssColors"}
var c17NameTables = []string{"JsMimetypes", "OptionalZeroDimension", "SvgColorAttrs", "ZeroAngleFuncs", "AngleDimension"}
var c17Classes = []string{"booleanAttrs", "urlAttrs", "rawJustified", "wsInsignificant", "jsMimeTypes", "svgColorAttrs", "lengthUnits", "angleUnits", "zeroAngleFunctions"}
var c17Bads = []string{"entitiesHtml", "textRevHtml", "attrRevHtml", "textRevHtmlCovers", "entitiesXml", "textRevXml", "attrRevXml", "colorHex", "colorName", "boolAttrs", "urlAttrs",
	"rawTags", "blockTags", "jsMimetypes", "zeroUnits", "zeroAngleFuncs", "angleDimension", "zeroAngleGuard", "svgColorAttrs", "hashNames.html", "hashNames.css", "hashNames.svg"}

func c17Load() (*c17Dump, error) {
	lines := []string{}
	for _, t := range c17PairTables {
		lines = append(lines, "dump."+t)
	}
	for _, t := range c17NameTables {
		lines = append(lines, "dump."+t)
	}
	for _, t := range c17Classes {
		lines = append(lines, "spec.classList "+h.HexS(t))
	}
	for _, t := range c17Bads {
		lines = append(lines, "bad."+t)
	}
	rep, err := h.Eval(lines)
	if err != nil {
		return nil, err
	}
	d := &c17Dump{pairs: map[string][][2]string{}, names: map[string][]string{}, class: map[string]map[string]bool{}, bad: map[string][]string{}, colors: map[string]c17RGB{}}
	get := func(i int) ([]string, error) {
		b, ok, msg := h.DecodeReply(rep[i])
		if !ok {
			return nil, fmt.Errorf("vdrv %s: %s", lines[i], msg)
		}
		items := h.DecodeListReply(b)
		out := make([]string, len(items))
		for k, it := range items {
			out[k] = string(it)
		}
		return out, nil
	}
	i := 0
	for _, t := range c17PairTables {
		it, err := get(i)
		if err != nil {
			return nil, err
		}
		if len(it)%2 != 0 {
			return nil, fmt.Errorf("dump.%s: odd number of items", t)
		}
		for k := 0; k < len(it); k += 2 {
			d.pairs[t] = append(d.pairs[t], [2]string{it[k], it[k+1]})
		}
		i++
	}
	for _, t := range c17NameTables {
		it, err := get(i)
		if err != nil {
			return nil, err
		}
		d.names[t] = it
		i++
	}
	for _, t := range c17Classes {
		it, err := get(i)
		if err != nil {
			return nil, err
		}
		d.class[t] = map[string]bool{}
		for _, n := range it {
			d.class[t][n] = true
		}
		i++
	}
	for _, t := range c17Bads {
		it, err := get(i)
		if err != nil {
			return nil, err
		}
		d.bad[t] = it
		i++
	}
	for _, r := range d.pairs["CssColors"] {
		var c c17RGB
		if _, err := fmt.Sscanf(r[1], "%d %d %d", &c.r, &c.g, &c.b); err != nil {
			return nil, fmt.Errorf("dump.CssColors: %q", r[1])
		}
		d.colors[r[0]] = c
	}
	d.html5 = d.pairs["Html5Entities"]
	return d, nil
}

// ---------- stage: translator cross-check ----------

func c17CmpMap(c *Ctx, st *h.Stage, what string, live map[string]string, dump [][2]string) {
	dm := map[string]string{}
	for _, r := range dump {
		if _, dup := dm[r[0]]; dup {
			c.R.Add(h.Finding{Stage: st.Name, Kind: "diff", What: what + ": duplicate key in the regenerated table", Input: strconv.Quote(r[0])})
		}
		dm[r[0]] = r[1]
	}
	keys := map[string]bool{}
	for k := range live {
		keys[k] = true
	}
	for k := range dm {
		keys[k] = true
	}
	ks := make([]string, 0, len(keys))
	for k := range keys {
		ks = append(ks, k)
	}
	sort.Strings(ks)
	for _, k := range ks {
		lv, lok := live[k]
		dv, dok := dm[k]
		st.Count(what+"["+strconv.Quote(k)+"]", true)
		if lok != dok || lv != dv {
			c.R.Add(h.Finding{Stage: st.Name, Kind: "diff", What: what + ": regenerated table ≠ live Go map (translator, or stale lean/Verif/Gen)",
				Input: strconv.Quote(k), Impl: fmt.Sprintf("%q present=%v", lv, lok), Model: fmt.Sprintf("%q present=%v", dv, dok)})
		}
	}
}

func c17Translator(c *Ctx, d *c17Dump) {
	st := c.R.StartStage("translator", "one case per key of an exported table (live Go map vs regenerated Lean table as printed by the driver) and per name of a */hash.go table (ToHash(name).String() == name); all are non-trivial")
	st.Exhaustive = true
	live := map[string]string{}
	for k, v := range html.EntitiesMap {
		live[k] = string(v)
	}
	c17CmpMap(c, st, "html.EntitiesMap", live, d.pairs["EntitiesHtml"])
	live = map[string]string{}
	for k, v := range html.TextRevEntitiesMap {
		live[string([]byte{k})] = string(v)
	}
	c17CmpMap(c, st, "html.TextRevEntitiesMap", live, d.pairs["TextRevHtml"])
	live = map[string]string{}
	for k, v := range html.AttrRevEntitiesMap {
		live[string([]byte{k})] = string(v)
	}
	c17CmpMap(c, st, "html.AttrRevEntitiesMap", live, d.pairs["AttrRevHtml"])
	live = map[string]string{}
	for k, v := range xml.EntitiesMap {
		live[k] = string(v)
	}
	c17CmpMap(c, st, "xml.EntitiesMap", live, d.pairs["EntitiesXml"])
	live = map[string]string{}
	for k, v := range xml.TextRevEntitiesMap {
		live[string([]byte{k})] = string(v)
	}
	c17CmpMap(c, st, "xml.TextRevEntitiesMap", live, d.pairs["TextRevXml"])
	live = map[string]string{}
	for k, v := range xml.AttrRevEntitiesMap {
		live[string([]byte{k})] = string(v)
	}
	c17CmpMap(c, st, "xml.AttrRevEntitiesMap", live, d.pairs["AttrRevXml"])
	live = map[string]string{}
	for k, v := range css.ShortenColorHex {
		live[k] = string(v)
	}
	c17CmpMap(c, st, "css.ShortenColorHex", live, d.pairs["ShortenColorHex"])
	live = map[string]string{}
	for k, v := range css.ShortenColorName {
		live[k.String()] = string(v)
	}
	c17CmpMap(c, st, "css.ShortenColorName", live, d.pairs["ShortenColorName"])

	// perfect-hash sanity: every name of every hash.go round-trips through the real ToHash / String
	type hf struct {
		name string
		f    func(string) string
	}
	for _, p := range []hf{
		{"html", func(s string) string { return html.ToHash([]byte(s)).String() }},
		{"css", func(s string) string { return css.ToHash([]byte(s)).String() }},
		{"svg", func(s string) string { return svg.ToHash([]byte(s)).String() }},
	} {
		seen := map[string]bool{}
		for _, r := range d.pairs["HashNames."+p.name] {
			name := r[1]
			st.Count(p.name+".ToHash("+strconv.Quote(name)+")", true)
			st.Tag("hash=" + p.name)
			var got string
			if crash := h.Safely(5*time.Second, func() { got = p.f(name) }); crash != "" {
				c.R.Add(h.Finding{Stage: st.Name, Kind: "crash", What: p.name + ".ToHash: " + crash, Input: strconv.Quote(name)})
				continue
			}
			if got != name || name == "" {
				c.R.Add(h.Finding{Stage: st.Name, Kind: "fail", What: p.name + "/hash.go: ToHash(name).String() ≠ name (perfect hash does not find a name of its own table; constant " + r[0] + ")",
					Input: strconv.Quote(name), Impl: strconv.Quote(got)})
			}
			if seen[name] {
				c.R.Add(h.Finding{Stage: st.Name, Kind: "fail", What: p.name + "/hash.go: two constants address the same name", Input: strconv.Quote(name)})
			}
			seen[name] = true
		}
	}
	st.End()
}

// ---------- stage: unexported tables read back through behaviour ----------

func c17Has(traits, t string) bool {
	for _, x := range strings.Fields(traits) {
		if x == t {
			return true
		}
	}
	return false
}

func c17Behaviour(c *Ctx, d *c17Dump, x *c17M) {
	st := c.R.StartStage("behaviour", "one probe per (name, trait) of the unexported tables: the public minifier must behave as the regenerated table says (trait present ⇔ rewrite observed); non-trivial = the rewrite is observed")
	st.Exhaustive = true
	diff := func(what, in, out, model string) {
		c.R.Add(h.Finding{Stage: st.Name, Kind: "diff", What: what, Input: strconv.Quote(in), Impl: strconv.Quote(out), Model: model})
	}
	run := func(mt, in string) (string, bool) {
		var out string
		var err error
		var crash string
		if cr := h.Safely(10*time.Second, func() { out, err, crash = x.run(mt, in) }); cr != "" {
			crash = cr
		}
		if crash != "" {
			c.R.Add(h.Finding{Stage: st.Name, Kind: "crash", What: mt + ": " + crash, Input: strconv.Quote(in)})
			return "", false
		}
		if err != nil {
			diff(mt+": minifier returned an error on a probe", in, err.Error(), "")
			return "", false
		}
		return out, true
	}
	// tagMap: blockTag ⇔ white space before the start tag is dropped.  All names of html/hash.go are probed (names that
	// are not in tagMap have no traits).  Tags the lexer treats specially are probed with the same input; svg/math are
	// delivered as one token (their traits come from tagMap as well).
	tag := map[string]string{}
	for _, r := range d.pairs["TagTraits"] {
		tag[r[0]] = r[1]
	}
	for _, r := range d.pairs["HashNames.html"] {
		name := r[1]
		traits := tag[name]
		in := "<div>x <" + name + ">"
		out, ok := run("text/html", in)
		if !ok {
			continue
		}
		dropped := strings.HasPrefix(out, "<div>x<") || out == "<div>x"
		kept := strings.HasPrefix(out, "<div>x <") || out == "<div>x "
		want := c17Has(traits, "blockTag")
		st.Count("blockTag "+name, dropped)
		st.Tag("tag.blockTag=" + strconv.FormatBool(want))
		if (want && !dropped) || (!want && !kept) {
			if want && out == "<div>x" {
				continue
			}
			diff("tagMap["+name+"] blockTag: table says "+strconv.FormatBool(want)+" but white space before the start tag was "+map[bool]string{true: "dropped", false: "kept"}[dropped], in, out, traits)
		}
	}
	// attrMap: booleanAttr ⇔ value dropped; urlAttr ⇔ scheme lower-cased; trimAttr ⇔ inner white space collapsed
	attr := map[string]string{}
	for _, r := range d.pairs["AttrTraits"] {
		attr[r[0]] = r[1]
	}
	for _, r := range d.pairs["HashNames.html"] {
		name := r[1]
		if name == "style" || strings.HasPrefix(name, "on") || name == "" {
			continue
		}
		traits := attr[name]
		// boolean
		in := "<span " + name + "=\"v1\">"
		if out, ok := run("text/html", in); ok {
			got := out == "<span "+name+">"
			want := c17Has(traits, "booleanAttr")
			st.Count("booleanAttr "+name, got)
			st.Tag("attr.booleanAttr=" + strconv.FormatBool(want))
			if got != want {
				diff("attrMap["+name+"] booleanAttr: table says "+strconv.FormatBool(want), in, out, traits)
			}
		}
		// url
		in = "<span " + name + "=\"HTTP://h/P1\">"
		if out, ok := run("text/html", in); ok {
			got := strings.Contains(out, "http://h/P1")
			want := c17Has(traits, "urlAttr") && !c17Has(traits, "booleanAttr")
			st.Count("urlAttr "+name, got)
			st.Tag("attr.urlAttr=" + strconv.FormatBool(want))
			if got != want {
				diff("attrMap["+name+"] urlAttr: table says "+strconv.FormatBool(want), in, out, traits)
			}
		}
		// trim (accept / enctype / formenctype are additionally normalised as media types by the code: skipped)
		in = "<span " + name + "=\"a1  b1\">"
		if name == "accept" || name == "enctype" || name == "formenctype" {
			st.Tag("attr.trimAttr probe skipped (media type normalisation)")
		} else if out, ok := run("text/html", in); ok {
			got := strings.Contains(out, "a1 b1")
			want := c17Has(traits, "trimAttr") && !c17Has(traits, "booleanAttr")
			st.Count("trimAttr "+name, got)
			st.Tag("attr.trimAttr=" + strconv.FormatBool(want))
			if got != want {
				diff("attrMap["+name+"] trimAttr: table says "+strconv.FormatBool(want), in, out, traits)
			}
		}
	}
	// jsMimetypes: in table ⇔ `type` dropped from <script>
	jm := map[string]bool{}
	cand := map[string]bool{"module": true, "text/plain": true, "application/json": true, "text/css": true, "application/ld+json": true}
	for _, n := range d.names["JsMimetypes"] {
		jm[n] = true
		cand[n] = true
	}
	for n := range d.class["jsMimeTypes"] {
		cand[n] = true
	}
	for _, n := range c17Sorted(cand) {
		in := "<script type=\"" + n + "\">x</script>"
		if out, ok := run("text/html", in); ok {
			got := out == "<script>x</script>"
			st.Count("jsMimetypes "+n, got)
			st.Tag("jsMimetypes=" + strconv.FormatBool(jm[n]))
			if got != jm[n] {
				diff("jsMimetypes["+n+"]: table says "+strconv.FormatBool(jm[n]), in, out, "")
			}
		}
	}
	// optionalZeroDimension: in table ⇔ unit dropped from `0<unit>`
	zu := map[string]bool{}
	cand = map[string]bool{"s": true, "ms": true, "hz": true, "khz": true, "dpi": true, "dpcm": true, "dppx": true, "fr": true, "x": true}
	for _, n := range d.names["OptionalZeroDimension"] {
		zu[n] = true
		cand[n] = true
	}
	for n := range d.class["lengthUnits"] {
		cand[n] = true
	}
	for n := range d.class["angleUnits"] {
		cand[n] = true
	}
	for _, n := range c17Sorted(cand) {
		// (a zero angle only loses its unit inside the functions that accept a bare 0 for an <angle>: css.go zeroAngleFuncs)
		in, bare := "a{margin:0"+n+"}", "a{margin:0}"
		if d.class["angleUnits"][n] {
			in, bare = "a{transform:rotate(0"+n+")}", "a{transform:rotate(0)}"
		}
		if out, ok := run("text/css", in); ok {
			got := out == bare
			st.Count("optionalZeroDimension "+n, got)
			st.Tag("zeroUnit=" + strconv.FormatBool(zu[n]))
			if got != zu[n] {
				diff("optionalZeroDimension["+n+"]: table says "+strconv.FormatBool(zu[n]), in, out, "")
			}
		}
	}
	// zeroAngleFuncs: in table ⇔ `0deg` loses its unit inside the function; angleDimension: in table ⇔ (for a unit of
	// optionalZeroDimension) the zero keeps its unit at the top level of a declaration
	zf := map[string]bool{}
	cand = map[string]bool{"translate": true, "scale": true, "hsl": true, "calc": true, "image-set": true, "var": true}
	for _, n := range d.names["ZeroAngleFuncs"] {
		zf[n] = true
		cand[n] = true
	}
	for n := range d.class["zeroAngleFunctions"] {
		cand[n] = true
	}
	for _, n := range c17Sorted(cand) {
		in := "a{x:" + n + "(0deg)}"
		if out, ok := run("text/css", in); ok {
			got := out == "a{x:"+n+"(0)}"
			st.Count("zeroAngleFuncs "+n, got)
			st.Tag("zeroAngleFunc=" + strconv.FormatBool(zf[n]))
			if got != zf[n] {
				diff("zeroAngleFuncs["+n+"]: table says "+strconv.FormatBool(zf[n]), in, out, "")
			}
		}
	}
	ad := map[string]bool{}
	for _, n := range d.names["AngleDimension"] {
		ad[n] = true
	}
	for _, n := range d.names["OptionalZeroDimension"] {
		in := "a{x:0" + n + "}"
		if out, ok := run("text/css", in); ok {
			kept := out == in
			st.Count("angleDimension "+n, kept)
			st.Tag("angleDimension=" + strconv.FormatBool(ad[n]))
			if kept != ad[n] {
				diff("angleDimension["+n+"]: table says "+strconv.FormatBool(ad[n])+" (unit kept at the top level)", in, out, "")
			}
		}
	}
	// colorAttrMap: in table ⇔ a colour keyword in the attribute is rewritten
	ca := map[string]bool{}
	for _, n := range d.names["SvgColorAttrs"] {
		ca[n] = true
	}
	for _, r := range d.pairs["HashNames.svg"] {
		n := r[1]
		if n == "" || n == "d" || n == "style" || n == "xmlns" || strings.Contains(n, ":") {
			continue
		}
		in := "<svg><a " + n + "=\"black\"/></svg>"
		if out, ok := run("image/svg+xml", in); ok {
			got := strings.Contains(out, "#000")
			st.Count("colorAttrMap "+n, got)
			st.Tag("svgColorAttr=" + strconv.FormatBool(ca[n]))
			if got != ca[n] {
				diff("svg colorAttrMap["+n+"]: table says "+strconv.FormatBool(ca[n]), in, out, "")
			}
		}
	}
	st.End()
}

func c17Sorted(m map[string]bool) []string {
	ks := make([]string, 0, len(m))
	for k := range m {
		ks = append(ks, k)
	}
	sort.Strings(ks)
	return ks
}

// ---------- stage: entities through the HTML minifier ----------

var c17Suffixes = []string{"y", " z", "=", ";", "#", "", "1", "&", "&amp;", "lt;", "<b>q</b>"}

// c17EntityCase minifies `<p>x REF SUFFIX` (text) or `<a title="x REF SUFFIX">` (attribute) and judges by both oracles.
func c17EntityCase(c *Ctx, st *h.Stage, x *c17M, ref, suf string, attr bool, what string) (changed bool) {
	return c17EntityCaseX(c, st, x, ref, suf, attr, what, false)
}

// exact: compare the decoded text byte for byte (no white-space normalisation) — used for the reverse maps, whose
// point is that a decoded CR / NUL / `<` stays exactly that.
func c17EntityCaseX(c *Ctx, st *h.Stage, x *c17M, ref, suf string, attr bool, what string, exact bool) (changed bool) {
	ws := c17Ws
	if exact {
		ws = func(s string) string { return s }
	}
	var in string
	if attr {
		if strings.ContainsAny(suf, "<>") {
			return false
		}
		in = "<a title=\"x" + ref + suf + "\">k</a>"
	} else {
		in = "<p>x" + ref + suf + "</p>"
	}
	out, err, crash := x.run("text/html", in)
	if crash != "" {
		c.R.Add(h.Finding{Stage: st.Name, Kind: "crash", What: "html.Minify: " + crash, Input: strconv.Quote(in)})
		return false
	}
	if err != nil {
		c.R.Add(h.Finding{Stage: st.Name, Kind: "fail", What: "html.Minify returns an error on " + what, Input: strconv.Quote(in), Impl: err.Error()})
		return false
	}
	if attr {
		vi, fi := c17Attr(in, "a", "title")
		vo, fo := c17Attr(out, "a", "title")
		if !fi || !fo || vi != vo {
			c.R.Add(h.Finding{Stage: st.Name, Kind: "fail", What: what + ": decodes to different text after minification",
				Input: strconv.Quote(in), Impl: strconv.Quote(out), Model: fmt.Sprintf("golang.org/x/net/html: attribute value before %q, after %q", vi, vo)})
		}
	} else {
		ti, _ := c17Text(in)
		to, _ := c17Text(out)
		if ws(ti) != ws(to) {
			c.R.Add(h.Finding{Stage: st.Name, Kind: "fail", What: what + ": decodes to different text after minification",
				Input: strconv.Quote(in), Impl: strconv.Quote(out), Model: fmt.Sprintf("golang.org/x/net/html: text before %q, after %q", ti, to)})
		}
		// second oracle on the raw text between the tags (no markup inside for these suffixes)
		if !strings.Contains(suf, "<") {
			ri := strings.TrimSuffix(strings.TrimPrefix(in, "<p>"), "</p>")
			ro := strings.TrimSuffix(strings.TrimPrefix(out, "<p>"), "</p>")
			if ws(stdhtml.UnescapeString(ri)) != ws(stdhtml.UnescapeString(ro)) {
				c.R.Add(h.Finding{Stage: st.Name, Kind: "fail", What: what + ": decodes to different text after minification",
					Input: strconv.Quote(in), Impl: strconv.Quote(out), Model: "html.UnescapeString of the text before and after differ"})
			}
		}
	}
	return out != in && out+"</p>" != in
}

func c17Entities(c *Ctx, d *c17Dump, x *c17M) {
	st := c.R.StartStage("entities-html", "every key of the live html.EntitiesMap as `&name;` and every identifier of the HTML5 table (with and without `;`), × "+strconv.Itoa(len(c17Suffixes))+" following contexts × {text, attribute}, through html.Minify; judged by x/net/html and html.UnescapeString; non-trivial = the minifier rewrote the input")
	st.Exhaustive = true
	names := make([]string, 0, len(html.EntitiesMap))
	for k := range html.EntitiesMap {
		names = append(names, k)
	}
	sort.Strings(names)
	for _, n := range names {
		repl := string(html.EntitiesMap[n])
		// the row itself, judged directly (independent of the minifier's control flow)
		ref := "&" + n + ";"
		if stdhtml.UnescapeString(ref) != stdhtml.UnescapeString(repl) {
			c.R.Add(h.Finding{Stage: st.Name, Kind: "fail", What: "html.EntitiesMap[" + n + "]: decodes to different text after minification",
				Input: strconv.Quote("<p>" + ref + "</p>"), Impl: strconv.Quote(repl), Model: "html.UnescapeString of the reference and of its replacement differ"})
		}
		crash := h.Safely(30*time.Second, func() {
			for _, suf := range c17Suffixes {
				for _, attr := range []bool{false, true} {
					ch := c17EntityCase(c, st, x, ref, suf, attr, "html.EntitiesMap["+n+"]")
					st.Count(fmt.Sprintf("&%s;%q attr=%v", n, suf, attr), ch)
					st.Tag("ctx=" + map[bool]string{false: "text", true: "attr"}[attr])
				}
			}
		})
		if crash != "" {
			c.R.Add(h.Finding{Stage: st.Name, Kind: "crash", What: "html.Minify: " + crash, Input: strconv.Quote(ref)})
		}
	}
	// all HTML5 identifiers, with and without `;` (those not in EntitiesMap must be left alone)
	for _, r := range d.html5 {
		ref := "&" + r[0]
		crash := h.Safely(30*time.Second, func() {
			for _, suf := range []string{"y", " z", "=", ""} {
				for _, attr := range []bool{false, true} {
					ch := c17EntityCase(c, st, x, ref, suf, attr, "HTML5 reference &"+r[0])
					st.Count(fmt.Sprintf("&%s%q attr=%v", r[0], suf, attr), ch)
					st.Tag("html5")
				}
			}
		})
		if crash != "" {
			c.R.Add(h.Finding{Stage: st.Name, Kind: "crash", What: "html.Minify: " + crash, Input: strconv.Quote(ref)})
		}
	}
	// TextRevEntitiesMap / AttrRevEntitiesMap: every way of writing a reference to the byte, compared exactly
	for _, tb := range []struct {
		name string
		m    map[byte][]byte
		attr bool
	}{{"html.TextRevEntitiesMap", html.TextRevEntitiesMap, false}, {"html.AttrRevEntitiesMap", html.AttrRevEntitiesMap, true}} {
		keys := []int{}
		for b := range tb.m {
			keys = append(keys, int(b))
		}
		sort.Ints(keys)
		for _, bi := range keys {
			b := byte(bi)
			esc := tb.m[b]
			num := "&#" + strconv.Itoa(bi) + ";"
			if stdhtml.UnescapeString(string(esc)) != stdhtml.UnescapeString(num) {
				c.R.Add(h.Finding{Stage: st.Name, Kind: "fail", What: fmt.Sprintf("%s[%q]: decodes to different text after minification", tb.name, b),
					Input: strconv.Quote("<p>" + num + "</p>"), Impl: strconv.Quote(string(esc)), Model: "html.UnescapeString of the escape and of a numeric reference to the byte differ"})
			}
			for _, ref := range []string{num, fmt.Sprintf("&#x%x;", b), fmt.Sprintf("&#x%X;", b), fmt.Sprintf("&#%04d;", b)} {
				for _, suf := range c17Suffixes {
					ch := c17EntityCaseX(c, st, x, ref, suf, tb.attr, fmt.Sprintf("%s[%q]", tb.name, b), true)
					st.Count(fmt.Sprintf("%s%q attr=%v", ref, suf, tb.attr), ch)
					st.Tag("rev")
				}
			}
		}
	}
	st.End()
}

// ---------- stage: every entry in context ----------

// A replacement that is correct in isolation can still complete a reference together with its neighbourhood
// (`&amp;` + `&num;60;` → `&#60;`; `&lt` + `&semi;` → `&lt;`).  The code guards against that (html.go hasReferenceGlue,
// parse.replaceEntities' look at the character after `&amp;`), so table entry and guard are only meaning-preserving
// together: every entry is therefore also run through the minifier inside a set of contexts.
var c17CtxPrefixes = []string{"", "x", "&", "&amp;", "&AMP;", "&amp", "&lt", "&LT", "&#", "&#x", "&#38;", "&num;", "&amp;&num;", "&not"}
var c17CtxSuffixes = []string{"", "y", ";", "60;", "x3C;", "lt;", "amp;", "abc", "#60;", "=", " z", "&num;60;", "&semi;", "&equals;"}
var c17CtxGlue = []string{"&num;", "&semi;", "&equals;", "&amp;", "&AMP;", "&lt;", "&LT;", "&gt;", "&quot;", "&apos;", "&Tab;", "&#35;", "&#59;", "&#38;", "&#60;", "&#61;"}

type c17CtxCand struct {
	in, out, what string
	attr          bool
	model         string
}

// c17RawAttr extracts the source characters of the title attribute of `<a title=…>` as the minifier wrote it.
func c17RawAttr(doc string) (string, bool) {
	i := strings.Index(doc, "title=")
	if i < 0 {
		return "", false
	}
	r := doc[i+6:]
	if r == "" {
		return "", false
	}
	if r[0] == '"' || r[0] == '\'' {
		j := strings.IndexByte(r[1:], r[0])
		if j < 0 {
			return "", false
		}
		return r[1 : 1+j], true
	}
	j := strings.IndexAny(r, " >")
	if j < 0 {
		return "", false
	}
	return r[:j], true
}

// c17WsKeepCR: like c17Ws, but a CR (which can only come from a reference: the parser turns a literal one into LF)
// is kept as a character of its own.
func c17WsKeepCR(s string) string {
	parts := strings.Split(s, "\r")
	for i := range parts {
		parts[i] = strings.TrimRight(c17Ws(parts[i]), " ")
	}
	return strings.Join(parts, "\r")
}

func c17Contexts(c *Ctx, d *c17Dump, x *c17M) error {
	st := c.R.StartStage("entities-context", "every key of the live html.EntitiesMap as `&name;` and every row of the html reverse maps as `&#N;`/`&#xH;`, inside contexts (prefix ∈ "+strconv.Itoa(len(c17CtxPrefixes))+" × suffix ∈ "+strconv.Itoa(len(c17CtxSuffixes))+": all pairs for the entries whose replacement is a single character and for the reverse rows, prefix-only / suffix-only / diagonal for the others; plus every entry adjacent to "+strconv.Itoa(len(c17CtxGlue))+" glue references on either side), in a text node and in a quoted attribute value, through html.Minify; XML entities and reverse rows likewise through xml.Minify and svg.Minify; decoded text of input vs output by x/net/html (confirmed by the Lean decoder where Go deviates from the standard) / encoding/xml; non-trivial = the minifier rewrote the input")
	st.Exhaustive = true
	cands := []c17CtxCand{}
	one := func(pre, ref, suf string, attr bool, what string, exact bool) {
		var in string
		if attr {
			in = "<a title=\"" + pre + ref + suf + "\">k</a>"
		} else {
			in = "<p>" + pre + ref + suf + "</p>"
		}
		out, err, crash := x.run("text/html", in)
		st.Count(in, out != in && out+"</p>" != in)
		if crash != "" {
			c.R.Add(h.Finding{Stage: st.Name, Kind: "crash", What: "html.Minify: " + crash, Input: strconv.Quote(in)})
			return
		}
		if err != nil {
			c.R.Add(h.Finding{Stage: st.Name, Kind: "fail", What: "html.Minify returns an error on " + what, Input: strconv.Quote(in), Impl: err.Error()})
			return
		}
		if attr {
			vi, fi := c17Attr(in, "a", "title")
			vo, fo := c17Attr(out, "a", "title")
			if !fi || !fo || vi != vo {
				cands = append(cands, c17CtxCand{in, out, what, true, fmt.Sprintf("golang.org/x/net/html: attribute value before %q, after %q", vi, vo)})
			}
		} else {
			ti, _ := c17Text(in)
			to, _ := c17Text(out)
			if (exact && c17WsKeepCR(ti) != c17WsKeepCR(to)) || (!exact && c17Ws(ti) != c17Ws(to)) {
				cands = append(cands, c17CtxCand{in, out, what, false, fmt.Sprintf("golang.org/x/net/html: text before %q, after %q", ti, to)})
			}
		}
	}
	all := func(ref, what string, hot, exact bool, attrs []bool) {
		for _, attr := range attrs {
			st.Tag("ctx=" + map[bool]string{false: "text", true: "attr"}[attr])
			if hot {
				for _, p := range c17CtxPrefixes {
					for _, sf := range c17CtxSuffixes {
						one(p, ref, sf, attr, what, exact)
					}
				}
			} else {
				for i, p := range c17CtxPrefixes {
					one(p, ref, "", attr, what, exact)
					one(p, ref, c17CtxSuffixes[i%len(c17CtxSuffixes)], attr, what, exact)
				}
				for _, sf := range c17CtxSuffixes {
					one("", ref, sf, attr, what, exact)
					one("x", ref, sf, attr, what, exact)
				}
			}
			for _, g := range c17CtxGlue {
				one("", ref, g, attr, what, exact)
				one("", g, ref, attr, what, exact)
				one("&", ref, g, attr, what, exact)
			}
		}
	}
	names := make([]string, 0, len(html.EntitiesMap))
	for k := range html.EntitiesMap {
		names = append(names, k)
	}
	sort.Strings(names)
	both := []bool{false, true}
	for _, n := range names {
		n := n
		hot := c.Thorough() || len(html.EntitiesMap[n]) == 1
		if crash := h.Safely(60*time.Second, func() { all("&"+n+";", "html.EntitiesMap["+n+"]", hot, false, both) }); crash != "" {
			c.R.Add(h.Finding{Stage: st.Name, Kind: "crash", What: "html.Minify: " + crash, Input: strconv.Quote("&" + n + ";")})
		}
	}
	for _, tb := range []struct {
		name string
		m    map[byte][]byte
		attr bool
	}{{"html.TextRevEntitiesMap", html.TextRevEntitiesMap, false}, {"html.AttrRevEntitiesMap", html.AttrRevEntitiesMap, true}} {
		keys := []int{}
		for b := range tb.m {
			keys = append(keys, int(b))
		}
		sort.Ints(keys)
		for _, bi := range keys {
			for _, ref := range []string{"&#" + strconv.Itoa(bi) + ";", fmt.Sprintf("&#x%X;", bi)} {
				ref, what := ref, fmt.Sprintf("%s[%q]", tb.name, byte(bi))
				if crash := h.Safely(60*time.Second, func() { all(ref, what, true, true, []bool{tb.attr}) }); crash != "" {
					c.R.Add(h.Finding{Stage: st.Name, Kind: "crash", What: "html.Minify: " + crash, Input: strconv.Quote(ref)})
				}
			}
		}
	}
	// candidates: where Go's decoder is known to deviate from the standard the Lean decoder decides
	lines := []string{}
	idx := []int{}
	for i, k := range cands {
		if !c17GoDeviates.MatchString(k.in) && !c17GoDeviates.MatchString(k.out) {
			continue
		}
		var ri, ro string
		ok := true
		if k.attr {
			ri, _ = c17RawAttr(k.in)
			ro, ok = c17RawAttr(k.out)
		} else {
			ri = strings.TrimSuffix(strings.TrimPrefix(k.in, "<p>"), "</p>")
			ro = strings.TrimSuffix(strings.TrimPrefix(k.out, "<p>"), "</p>")
			ok = strings.HasPrefix(k.out, "<p>") && !strings.Contains(ro, "<")
		}
		if !ok {
			continue
		}
		cx := h.Int(0)
		if k.attr {
			cx = h.Int(1)
		}
		lines = append(lines, "spec.decodeRefs "+cx+" "+h.HexS(ri), "spec.decodeRefs "+cx+" "+h.HexS(ro))
		idx = append(idx, i)
	}
	cleared := map[int]bool{}
	if len(lines) > 0 {
		rep, err := h.Eval(lines)
		if err != nil {
			return err
		}
		for k, i := range idx {
			a, aok, _ := h.DecodeReply(rep[2*k])
			b, bok, _ := h.DecodeReply(rep[2*k+1])
			if aok && bok && (string(a) == string(b) || (!cands[i].attr && c17Ws(string(a)) == c17Ws(string(b)))) {
				cleared[i] = true
				st.Tag("cleared by the Lean decoder (Go oracle deviates from the standard)")
			}
		}
	}
	for i, k := range cands {
		if cleared[i] {
			continue
		}
		c.R.Add(h.Finding{Stage: st.Name, Kind: "fail", What: k.what + ": decodes to different text after minification (in context)",
			Input: strconv.Quote(k.in), Impl: strconv.Quote(k.out), Model: k.model})
	}

	// XML: entities and reverse rows in context, through xml.Minify and svg.Minify
	xrefs := map[string]bool{"&lt;": true, "&gt;": true, "&amp;": true, "&apos;": true, "&quot;": true}
	for k := range xml.EntitiesMap {
		xrefs["&"+k+";"] = true
	}
	for _, m := range []map[byte][]byte{xml.TextRevEntitiesMap, xml.AttrRevEntitiesMap} {
		for b := range m {
			xrefs["&#"+strconv.Itoa(int(b))+";"] = true
			xrefs[fmt.Sprintf("&#x%X;", b)] = true
		}
	}
	// prefixes with `<` only make sense in character data: pieces that end in `]` before a reference to `>`
	// (comments are removed, CDATA sections become text) must not complete `]]>`
	xpre := []string{"", "x", "&amp;", "&lt;", "&#38;", "&#x26;", "&amp;amp;", "&amp;#", "]]", "x]<!--c-->]", "x]<!--c-->]<!--c-->", "<![CDATA[x]]]><![CDATA[]]]>", "]<!--c-->]<!--c-->]<!--c-->"}
	xsuf := []string{"", "y", ";", "60;", "x3C;", "lt;", "amp;", "#60;", "abc", "=", "&#59;", "&#35;60;", "&amp;"}
	// where the reference is placed: {media type, attribute?, before, after}
	type xwrap struct {
		mt          string
		attr        bool
		before, aft string
	}
	wraps := []xwrap{
		{"text/xml", false, "<a>", "</a>"},
		{"text/xml", true, "<a b=\"", "\">k</a>"},
		{"text/xml", true, "<a b='", "'/>"},
		{"image/svg+xml", false, "<svg><text>", "</text></svg>"},
		{"image/svg+xml", true, "<svg><text id=\"", "\">k</text></svg>"},
		// regions the svg minifier treats specially: foreignObject content is written verbatim, title/desc are kept,
		// defs content and unknown attributes
		{"image/svg+xml", true, "<svg><foreignObject><p title=\"", "\">k</p></foreignObject></svg>"},
		{"image/svg+xml", true, "<svg><foreignObject><p class='", "'>k</p><b>i</b></foreignObject><g/></svg>"},
		{"image/svg+xml", false, "<svg><foreignObject><p>", "</p></foreignObject></svg>"},
		{"image/svg+xml", true, "<svg><defs><g id=\"", "\"/></defs><use/></svg>"},
		{"image/svg+xml", true, "<svg><g data-q=\"", "\" fill=\"red\"><path d=\"M0 0\"/></g></svg>"},
		{"image/svg+xml", true, "<svg><title id=\"", "\">t</title></svg>"},
		{"image/svg+xml", false, "<svg><desc>", "</desc></svg>"},
		{"image/svg+xml", false, "<svg><title>", "</title><g/></svg>"},
	}
	wsRef := map[string]bool{"&#9;": true, "&#10;": true, "&#13;": true, "&#x9;": true, "&#xA;": true, "&#xD;": true}
	for _, ref := range c17Sorted(xrefs) {
		for _, p := range xpre {
			for _, sf := range xsuf {
				for _, wr := range wraps {
					if wr.attr && strings.ContainsAny(p, "<]") {
						continue // `]]>` is only forbidden in character data (encoding/xml rejects it in attribute values too)
					}
					if wsRef[ref] && wr.mt == "image/svg+xml" && !wr.attr && strings.Contains(p, "<") {
						// the svg minifier trims every text node, also next to a removed comment (open known finding of
						// C05: "character data is trimmed per text node"): not a matter of the tables
						c.R.ExcludedKnown++
						continue
					}
					mt := wr.mt
					in := wr.before + p + ref + sf + wr.aft
					a, aok := c17XMLw(in, true)
					if !aok {
						continue
					}
					var out string
					var err error
					var crash string
					if cr := h.Safely(10*time.Second, func() { out, err, crash = x.run(mt, in) }); cr != "" {
						crash = cr
					}
					st.Count(mt+" "+in, out != in)
					st.Tag("xml")
					if crash != "" {
						c.R.Add(h.Finding{Stage: st.Name, Kind: "crash", What: mt + ": " + crash, Input: strconv.Quote(in)})
						continue
					}
					if err != nil {
						c.R.Add(h.Finding{Stage: st.Name, Kind: "fail", What: mt + ": minifier returns an error on a well-formed document", Input: strconv.Quote(in), Impl: err.Error()})
						continue
					}
					b, bok := c17XMLw(out, true)
					if !bok || a != b {
						c.R.Add(h.Finding{Stage: st.Name, Kind: "fail", What: mt + ": reference " + ref + " decodes to different text after minification (in context, encoding/xml)",
							Input: strconv.Quote(in), Impl: strconv.Quote(out), Model: a + " → " + b + map[bool]string{true: "", false: " (output not well-formed)"}[bok]})
					}
				}
			}
		}
	}
	st.End()
	return nil
}

// ---------- stage: white space at element boundaries ----------

// c17Visible is a small rendering model: the text a reader sees, with `■` for an inline replaced element
// (svg, math, img, input, …), a line break at every boundary of an element next to which white space is
// insignificant (the class `wsInsignificant` of Spec/HtmlTraits.lean), white space collapsed and dropped next to line breaks.
func c17Visible(doc string, wsInsig map[string]bool) (string, bool) {
	n, err := xhtml.Parse(strings.NewReader(doc))
	if err != nil {
		return "", false
	}
	var sb strings.Builder
	var walk func(*xhtml.Node)
	walk = func(n *xhtml.Node) {
		switch n.Type {
		case xhtml.TextNode:
			sb.WriteString(n.Data)
			return
		case xhtml.ElementNode:
			switch n.Data {
			case "svg", "math", "img", "input", "button", "select", "textarea", "object", "embed", "video", "audio", "canvas", "iframe", "meter", "progress":
				sb.WriteString("■")
				return
			case "script", "style", "title", "head", "template":
				return
			}
			if wsInsig[n.Data] {
				sb.WriteByte('\n')
			}
		}
		for c := n.FirstChild; c != nil; c = c.NextSibling {
			walk(c)
		}
		if n.Type == xhtml.ElementNode && wsInsig[n.Data] {
			sb.WriteByte('\n')
		}
	}
	walk(n)
	// collapse: runs of white space containing a line break → one line break, others → one space
	var out strings.Builder
	pend := byte(0)
	for _, r := range sb.String() {
		if r == '\n' {
			pend = '\n'
			continue
		}
		if r == ' ' || r == '\t' || r == '\r' || r == '\f' {
			if pend == 0 {
				pend = ' '
			}
			continue
		}
		if pend != 0 && out.Len() > 0 {
			out.WriteByte(pend)
		}
		pend = 0
		out.WriteRune(r)
	}
	return out.String(), true
}

func c17WsBoundary(c *Ctx, d *c17Dump, x *c17M) {
	st := c.R.StartStage("ws-boundary", "white space between a word and an inline element that is NOT in tagMap (inline <svg>, <math>: delivered as one token) or that has no blockTag (span, img, input, comment+word), preceded by every tag of html/hash.go as start tag and as end tag and by every attribute of attrMap, with 0‥9 filler tokens in front so that the element lands in every slot of the 8-slot look-ahead buffer; judged by the visible text (x/net/html + the rendering classes of Spec/HtmlTraits): the space may only disappear next to an element whose boundary makes it insignificant; non-trivial = the minifier rewrote the input")
	st.Exhaustive = true
	ws := d.class["wsInsignificant"]
	inl := []string{"<svg><circle r=\"1\"/></svg>", "<math><mi>y</mi></math>", "<span>s</span>", "<img src=i>", "<!--c-->w", "<input>"}
	fill := []string{"", "<i>f</i> ", "<i>f</i> <b>g</b> ", "<!--c-->", "<i class=a>f</i> ", "<i>f</i> <b>g</b> <u>h</u> ", "<i class=a id=b>f</i> <b>g</b> ", "<i>1</i><i>2</i><i>3</i><i>4</i> ", "<br>", "<i>f</i><!--c--> <b>g</b><!--d--> "}
	tags := []string{}
	for _, r := range d.pairs["TagTraits"] {
		switch r[0] {
		case "html", "head", "body", "title", "script", "style", "textarea", "iframe", "svg", "math", "plaintext", "xmp", "noscript", "noembed", "noframes", "template", "select", "option", "optgroup", "frameset", "frame", "pre":
			continue // change the insertion mode / raw text / white-space mode: C03's documents
		case "table", "caption", "colgroup", "col", "thead", "tbody", "tfoot", "tr", "td", "th":
			continue // foster parenting moves the probe out of the table: C03's documents
		}
		tags = append(tags, r[0])
	}
	attrs := []string{}
	for _, r := range d.pairs["AttrTraits"] {
		if r[0] != "style" {
			attrs = append(attrs, r[0])
		}
	}
	one := func(in, what string) {
		var out string
		var err error
		var crash string
		if cr := h.Safely(10*time.Second, func() { out, err, crash = x.run("text/html", in) }); cr != "" {
			crash = cr
		}
		st.Count(in, out != in)
		if crash != "" {
			c.R.Add(h.Finding{Stage: st.Name, Kind: "crash", What: "html.Minify: " + crash, Input: strconv.Quote(in)})
			return
		}
		if err != nil {
			c.R.Add(h.Finding{Stage: st.Name, Kind: "fail", What: "html.Minify returns an error", Input: strconv.Quote(in), Impl: err.Error()})
			return
		}
		vi, iok := c17Visible(in, ws)
		vo, ook := c17Visible(out, ws)
		if !iok || !ook || vi != vo {
			c.R.Add(h.Finding{Stage: st.Name, Kind: "fail", What: what + ": rendered white space next to an inline element is lost or added", Input: strconv.Quote(in), Impl: strconv.Quote(out), Model: fmt.Sprintf("visible text before %q, after %q", vi, vo)})
		}
	}
	for _, e := range inl {
		for _, f := range fill {
			for _, t := range tags {
				st.Tag("after tag")
				one("<div>"+f+"<"+t+">see "+e+" here</"+t+"></div>", "white space after <"+t+">")
				one("<div>"+f+"<"+t+">x</"+t+">see "+e+" here</div>", "white space after </"+t+">")
			}
			for _, a := range attrs {
				st.Tag("after attribute")
				one("<div>"+f+"<span "+a+"=x>see "+e+" here</span></div>", "white space after attribute "+a)
				one("<div>"+f+"<span id=y "+a+"=x>see "+e+" here</span></div>", "white space after attribute "+a)
			}
		}
	}
	st.End()
}

// ---------- stage: XML entities ----------

func c17XMLEntities(c *Ctx, d *c17Dump, x *c17M) {
	st := c.R.StartStage("entities-xml", "the five predefined XML entities and every key of the live xml.EntitiesMap / TextRevEntitiesMap, × following contexts × {character data, attribute}, through xml.Minify and svg.Minify; judged by encoding/xml; non-trivial = rewritten")
	st.Exhaustive = true
	refs := map[string]bool{"&lt;": true, "&gt;": true, "&amp;": true, "&apos;": true, "&quot;": true}
	for k, v := range xml.EntitiesMap {
		refs["&"+k+";"] = true
		// the row judged directly
		a, aok := c17XML("<a>" + "&" + k + ";" + "</a>")
		b, bok := c17XML("<a>" + string(v) + "</a>")
		if !aok || !bok || a != b {
			c.R.Add(h.Finding{Stage: st.Name, Kind: "fail", What: "xml.EntitiesMap[" + k + "]: replacement is not the same character data as the reference (encoding/xml)",
				Input: strconv.Quote("<a>&" + k + ";</a>"), Impl: strconv.Quote(string(v))})
		}
	}
	for _, tb := range []struct {
		name string
		m    map[byte][]byte
	}{{"xml.TextRevEntitiesMap", xml.TextRevEntitiesMap}, {"xml.AttrRevEntitiesMap", xml.AttrRevEntitiesMap}} {
		for b, esc := range tb.m {
			got, ok := c17XML("<a>" + string(esc) + "</a>")
			want, wok := c17XML("<a>&#" + strconv.Itoa(int(b)) + ";</a>")
			if !ok || !wok || got != want {
				c.R.Add(h.Finding{Stage: st.Name, Kind: "fail", What: fmt.Sprintf("%s[%q]: escape %q is not a reference to the character (encoding/xml)", tb.name, b, esc), Input: strconv.Quote("<a>&#" + strconv.Itoa(int(b)) + ";</a>")})
			}
			refs["&#"+strconv.Itoa(int(b))+";"] = true
			refs[fmt.Sprintf("&#x%x;", b)] = true
		}
	}
	for _, ref := range c17Sorted(refs) {
		for _, suf := range []string{"y", " z", ";", "", "#", "amp;", "="} {
			for _, mt := range []string{"text/xml", "image/svg+xml"} {
				for _, attr := range []bool{false, true} {
					var in string
					if mt == "text/xml" {
						if attr {
							in = "<a b=\"x" + ref + suf + "\">k</a>"
						} else {
							in = "<a>x" + ref + suf + "</a>"
						}
					} else {
						if attr {
							in = "<svg><text id=\"x" + ref + suf + "\">k</text></svg>"
						} else {
							in = "<svg><text>x" + ref + suf + "</text></svg>"
						}
					}
					var out string
					var err error
					var crash string
					if cr := h.Safely(10*time.Second, func() { out, err, crash = x.run(mt, in) }); cr != "" {
						crash = cr
					}
					st.Count(mt+" "+in, out != in)
					st.Tag("mt=" + mt)
					if crash != "" {
						c.R.Add(h.Finding{Stage: st.Name, Kind: "crash", What: mt + ": " + crash, Input: strconv.Quote(in)})
						continue
					}
					if err != nil {
						c.R.Add(h.Finding{Stage: st.Name, Kind: "fail", What: mt + ": minifier returns an error on a well-formed document", Input: strconv.Quote(in), Impl: err.Error()})
						continue
					}
					a, aok := c17XMLw(in, true)
					b, bok := c17XMLw(out, true)
					if !aok {
						continue // not well-formed input (e.g. `&amp;#` is fine, but be safe)
					}
					if !bok || a != b {
						c.R.Add(h.Finding{Stage: st.Name, Kind: "fail", What: mt + ": document decodes differently after minification (encoding/xml) for reference " + ref,
							Input: strconv.Quote(in), Impl: strconv.Quote(out), Model: a + " → " + b})
					}
				}
			}
		}
	}
	st.End()
}

// ---------- stage: colours ----------

func c17Colours(c *Ctx, d *c17Dump, x *c17M) {
	st := c.R.StartStage("colours", "every key of the live css.ShortenColorName / ShortenColorHex, every CSS colour keyword (lower, upper, mixed case) and its #rrggbb / #rgb forms, through css.Minify (`a{color:V}`) and svg.Minify (`fill=\"V\"`); judged by the independent colour table: output must denote the same sRGB triple; non-trivial = rewritten")
	st.Exhaustive = true
	vals := map[string]bool{}
	for k, v := range css.ShortenColorName {
		n := k.String()
		vals[n] = true
		// the row judged directly
		a, aok := c17Color(d.colors, n)
		b, bok := c17Color(d.colors, string(v))
		if !aok || !bok || a != b || len(v) > len(n) {
			c.R.Add(h.Finding{Stage: st.Name, Kind: "fail", What: "css colour `" + n + "`: rewritten to a different colour, to something that is not a CSS colour, or to something longer", Model: fmt.Sprintf("css.ShortenColorName[%s] = %s judged by the independent colour table", n, v), Input: strconv.Quote("a{color:" + n + "}"), Impl: string(v)})
		}
	}
	for k, v := range css.ShortenColorHex {
		vals[k] = true
		a, aok := c17Color(d.colors, k)
		b, bok := c17Color(d.colors, string(v))
		if !aok || !bok || a != b || len(v) > len(k) {
			c.R.Add(h.Finding{Stage: st.Name, Kind: "fail", What: "css colour `" + k + "`: rewritten to a different colour, to something that is not a CSS colour, or to something longer", Model: fmt.Sprintf("css.ShortenColorHex[%s] = %s judged by the independent colour table", k, v), Input: strconv.Quote("a{color:" + k + "}"), Impl: string(v)})
		}
	}
	for n, rgb := range d.colors {
		vals[n] = true
		vals[strings.ToUpper(n)] = true
		vals[strings.ToUpper(n[:1])+n[1:]] = true
		hx := fmt.Sprintf("#%02x%02x%02x", rgb.r, rgb.g, rgb.b)
		vals[hx] = true
		vals[strings.ToUpper(hx)] = true
		if rgb.r%17 == 0 && rgb.g%17 == 0 && rgb.b%17 == 0 {
			vals[fmt.Sprintf("#%x%x%x", rgb.r/17, rgb.g/17, rgb.b/17)] = true
		}
	}
	for _, v := range c17Sorted(vals) {
		want, ok := c17Color(d.colors, v)
		for _, mt := range []string{"text/css", "image/svg+xml"} {
			var in, pre, post string
			if mt == "text/css" {
				pre, post = "a{color:", "}"
			} else {
				pre, post = "<svg><rect fill=\"", "\"/></svg>"
			}
			in = pre + v + post
			var out string
			var err error
			var crash string
			if cr := h.Safely(10*time.Second, func() { out, err, crash = x.run(mt, in) }); cr != "" {
				crash = cr
			}
			st.Count(mt+" "+v, out != in)
			st.Tag("mt=" + mt)
			if crash != "" {
				c.R.Add(h.Finding{Stage: st.Name, Kind: "crash", What: mt + ": " + crash, Input: strconv.Quote(in)})
				continue
			}
			if err != nil || !strings.HasPrefix(out, pre) || !strings.HasSuffix(out, post) {
				c.R.Add(h.Finding{Stage: st.Name, Kind: "fail", What: mt + ": colour value not recognisable in the output", Input: strconv.Quote(in), Impl: strconv.Quote(out) + fmt.Sprint(err)})
				continue
			}
			ov := out[len(pre) : len(out)-len(post)]
			got, gok := c17Color(d.colors, ov)
			if !ok {
				// not a colour per the independent table (a key of a /repo table that is no CSS colour): reported above; here the output just must not invent a colour
				continue
			}
			if !gok || got != want {
				c.R.Add(h.Finding{Stage: st.Name, Kind: "fail", What: "css colour `" + strings.ToLower(v) + "`: rewritten to a different colour, to something that is not a CSS colour, or to something longer",
					Input: strconv.Quote(in), Impl: strconv.Quote(out), Model: fmt.Sprintf("%s: before %v, after %v (known colour: %v)", mt, want, got, gok)})
			}
			if len(ov) > len(v) {
				c.R.Add(h.Finding{Stage: st.Name, Kind: "fail", What: "css colour `" + strings.ToLower(v) + "`: rewritten to a different colour, to something that is not a CSS colour, or to something longer", Input: strconv.Quote(in), Impl: strconv.Quote(out)})
			}
		}
	}
	st.End()
}

// ---------- stage: the hand-written Lean decoders against independent implementations ----------

func c17PickInt(r *h.RNG, xs []int) int { return xs[r.Intn(len(xs))] }

func c17GenRefString(r *h.RNG, names [][2]string) string {
	var sb strings.Builder
	n := 1 + r.Intn(4)
	for i := 0; i < n; i++ {
		switch r.Intn(10) {
		case 0, 1, 2:
			sb.WriteString("&" + names[r.Intn(len(names))][0])
		case 3:
			nm := names[r.Intn(len(names))][0]
			nm = strings.TrimSuffix(nm, ";")
			if r.Bool() && len(nm) > 1 {
				nm = nm[:1+r.Intn(len(nm)-1)]
			}
			sb.WriteString("&" + nm + r.Pick([]string{"", ";", "x", "=", "1"}))
		case 4:
			sb.WriteString("&#" + strconv.Itoa(c17PickInt(r, []int{0, 9, 10, 38, 60, 65, 127, 128, 129, 130, 141, 150, 159, 160, 255, 256, 0xD7FF, 0xD800, 0xDFFF, 0xE000, 0xFFFD, 0xFFFE, 0xFFFF, 0x10000, 0x10FFFF, 0x110000, 99999999999})) + r.Pick([]string{";", "", "x", " "}))
		case 5:
			sb.WriteString("&#" + r.Pick([]string{"x", "X"}) + strconv.FormatInt(int64(c17PickInt(r, []int{0, 9, 0x26, 0x3c, 0x41, 0x7f, 0x80, 0x81, 0x8d, 0x9f, 0xa0, 0xff, 0x100, 0xd800, 0xdfff, 0xfffd, 0x10ffff, 0x110000, 0x7fffffffffff})), 16) + r.Pick([]string{";", "", "g", " "}))
		case 6:
			sb.WriteString("&#" + strconv.Itoa(r.Intn(0x3000)) + r.Pick([]string{";", ""}))
		default:
			al := []string{"&", "#", "x", "X", ";", "=", " ", "a", "amp", "lt", "g", "t", "1", "0", "é", "&&", "&#", "&#x", "not", "in"}
			sb.WriteString(r.Pick(al))
		}
	}
	return sb.String()
}

// c17GoDeviates: inputs on which Go's html.UnescapeString (and its copy in x/net/html) is known to deviate from the
// HTML standard's tokenizer: a one-digit decimal reference without `;` (`&#9x` is left undecoded: off-by-one in
// unescapeEntity's "no characters matched" test) and `&#x` without digits (decoded to U+FFFD instead of left alone).
var c17GoDeviates = regexp.MustCompile(`&#[0-9]([^0-9;]|$)|&#[xX]([^0-9a-fA-F]|$)`)

func c17SpecStage(c *Ctx, d *c17Dump) error {
	st := c.R.StartStage("spec", "Lean `decodeRefs` (text ctx) vs html.UnescapeString and x/net/html, (attribute ctx) vs x/net/html, `decodeXml` vs encoding/xml: every HTML5 identifier × contexts plus seeded random reference soup; non-trivial = the decoded text differs from the source")
	type cs struct {
		line string
		in   string
		kind int // 0 text, 1 attr, 2 xml
	}
	cases := []cs{}
	add := func(s string) {
		cases = append(cases, cs{"spec.decodeRefs " + h.Int(0) + " " + h.HexS(s), s, 0})
		cases = append(cases, cs{"spec.decodeRefs " + h.Int(1) + " " + h.HexS(s), s, 1})
	}
	for _, r := range d.html5 {
		for _, suf := range []string{"", "y", "=", ";", " ", "1"} {
			add("&" + r[0] + suf)
		}
	}
	n := c.N(20000, 300000)
	for i := 0; i < n; i++ {
		add(c17GenRefString(c.Rng, d.html5))
	}
	xn := c.N(5000, 60000)
	xal := []string{"&lt;", "&gt;", "&amp;", "&apos;", "&quot;", "&#60;", "&#x26;", "&#x3C;", "&#0;", "&#9;", "&#xFFFE;", "&#x10000;", "&#1114112;", "&", "&;", "&#;", "&#x;", "&lt", "&LT;", "&nbsp;", "a", " ", ";", "#", "&#X41;", "&#65;", "é"}
	for i := 0; i < xn; i++ {
		var sb strings.Builder
		for k := 1 + c.Rng.Intn(4); k > 0; k-- {
			sb.WriteString(c.Rng.Pick(xal))
		}
		s := sb.String()
		cases = append(cases, cs{"spec.decodeXml " + h.HexS(s), s, 2})
	}
	lines := make([]string, len(cases))
	for i, k := range cases {
		lines[i] = k.line
	}
	rep, err := h.Eval(lines)
	if err != nil {
		return err
	}
	for i, k := range cases {
		b, ok, msg := h.DecodeReply(rep[i])
		if !ok {
			c.R.Add(h.Finding{Stage: st.Name, Kind: "diff", What: "spec decoder error: " + msg, Input: strconv.Quote(k.in)})
			continue
		}
		if k.kind != 2 && c17GoDeviates.MatchString(k.in) {
			st.Tag("excluded: Go oracle deviates from the standard")
			continue
		}
		switch k.kind {
		case 0:
			got := string(b)
			want := stdhtml.UnescapeString(k.in)
			st.Count("text "+k.in, got != k.in)
			st.Tag("ctx=text")
			if got != want {
				c.R.Add(h.Finding{Stage: st.Name, Kind: "diff", What: "Spec.HtmlRefs.decodeRefs(text) ≠ html.UnescapeString", Input: strconv.Quote(k.in), Impl: strconv.Quote(want), Model: strconv.Quote(got)})
			}
			if !strings.ContainsAny(k.in, "<\r\x00") {
				if t, ok := c17Text("<p>" + k.in + "</p>"); ok && t != got {
					c.R.Add(h.Finding{Stage: st.Name, Kind: "diff", What: "Spec.HtmlRefs.decodeRefs(text) ≠ golang.org/x/net/html", Input: strconv.Quote(k.in), Impl: strconv.Quote(t), Model: strconv.Quote(got)})
				}
			}
		case 1:
			got := string(b)
			st.Count("attr "+k.in, got != k.in)
			st.Tag("ctx=attr")
			if !strings.ContainsAny(k.in, "\"\r\x00") {
				if v, ok := c17Attr("<a t=\""+k.in+"\">", "a", "t"); ok && v != got {
					c.R.Add(h.Finding{Stage: st.Name, Kind: "diff", What: "Spec.HtmlRefs.decodeRefs(attr) ≠ golang.org/x/net/html", Input: strconv.Quote(k.in), Impl: strconv.Quote(v), Model: strconv.Quote(got)})
				}
			}
		case 2:
			items := h.DecodeListReply(b)
			okFlag := len(items) > 0 && string(items[0]) == "1"
			got := ""
			if len(items) > 1 {
				got = string(items[1])
			}
			want, wok := c17XML("<a>" + k.in + "</a>")
			if wok {
				want = strings.TrimSuffix(strings.TrimPrefix(want, "<a>|"), "|")
				want = strings.TrimPrefix(want, "T:")
			}
			st.Count("xml "+k.in, okFlag && got != k.in)
			st.Tag("ctx=xml")
			if okFlag != wok || (okFlag && got != want) {
				c.R.Add(h.Finding{Stage: st.Name, Kind: "diff", What: "Spec.HtmlRefs.decodeXml ≠ encoding/xml", Input: strconv.Quote(k.in), Impl: fmt.Sprintf("%q ok=%v", want, wok), Model: fmt.Sprintf("%q ok=%v", got, okFlag)})
			}
		}
	}
	st.End()
	return nil
}

// ---------- known findings ----------

func c17KnownMarquee(x *c17M) (still bool, observed string) {
	in := "<p>a <marquee>b</marquee> c</p>"
	out, _, _ := x.run("text/html", in)
	return !strings.Contains(out, "a <marquee") || !strings.Contains(out, "</marquee> c"), out
}

func c17KnownXmlns() (still bool, observed string) {
	x := c17New()
	x.m.URL, _ = url.Parse("http://www.w3.org/")
	in := "<html xmlns=\"http://www.w3.org/1999/xhtml\"><p>x"
	out, _, _ := x.run("text/html", in)
	vi, _ := c17Attr(in, "html", "xmlns")
	vo, _ := c17Attr(out, "html", "xmlns")
	return vi != vo, out
}

// ---------- search: failing rows → concrete inputs ----------

func c17Search(c *Ctx, d *c17Dump, x *c17M) {
	st := c.R.StartStage("search", "every row that fails its Lean checker (`bad.*`, same functions as the theorems) is turned into a minifier input and judged by the independent oracle; non-trivial = the property fails on that input")
	fail := func(what, in, out, model string) {
		c.R.Add(h.Finding{Stage: st.Name, Kind: "fail", What: what, Input: strconv.Quote(in), Impl: strconv.Quote(out), Model: model})
	}
	run := func(mt, in string) string {
		out, err, crash := x.run(mt, in)
		if crash != "" {
			c.R.Add(h.Finding{Stage: st.Name, Kind: "crash", What: mt + ": " + crash, Input: strconv.Quote(in)})
		}
		if err != nil {
			return "error: " + err.Error()
		}
		return out
	}
	isKnown := func(table, key string) bool {
		return table == "urlAttrs" && key == "xmlns"
	}
	for _, t := range c17Bads {
		for _, key := range d.bad[t] {
			if isKnown(t, key) {
				c.R.ExcludedKnown++
				continue
			}
			st.Tag("bad." + t)
			c.R.Note("row failing its checker: %s[%q]", t, key)
			before := len(c.R.Findings)
			switch t {
			case "entitiesHtml":
				for _, suf := range c17Suffixes {
					for _, attr := range []bool{false, true} {
						c17EntityCase(c, st, x, "&"+key+";", suf, attr, "html.EntitiesMap["+key+"]")
					}
				}
			case "textRevHtml", "attrRevHtml", "textRevHtmlCovers":
				refs := []string{"&" + key + ";"}
				if t != "textRevHtmlCovers" && len(key) == 1 {
					refs = []string{"&#" + strconv.Itoa(int(key[0])) + ";", fmt.Sprintf("&#x%x;", key[0])}
				}
				for _, ref := range refs {
					for _, suf := range c17Suffixes {
						c17EntityCaseX(c, st, x, ref, suf, t == "attrRevHtml", "html reverse map ("+t+") / reference "+ref, true)
					}
				}
			case "entitiesXml", "textRevXml", "attrRevXml":
				ref := "&" + key + ";"
				if t != "entitiesXml" && len(key) == 1 {
					ref = "&#" + strconv.Itoa(int(key[0])) + ";"
				}
				for _, in := range []string{"<a>x" + ref + "y</a>", "<a b=\"x" + ref + "y\"/>"} {
					out := run("text/xml", in)
					a, aok := c17XML(in)
					b, bok := c17XML(out)
					if aok && (!bok || a != b) {
						fail("xml table row "+key+": document decodes differently after minification (encoding/xml)", in, out, a+" → "+b)
					}
				}
			case "colorHex", "colorName":
				for _, mt := range [][3]string{{"text/css", "a{color:", "}"}, {"image/svg+xml", "<svg><rect fill=\"", "\"/></svg>"}} {
					in := mt[1] + key + mt[2]
					out := run(mt[0], in)
					if !strings.HasPrefix(out, mt[1]) || !strings.HasSuffix(out, mt[2]) {
						continue
					}
					ov := out[len(mt[1]) : len(out)-len(mt[2])]
					a, aok := c17Color(d.colors, key)
					b, bok := c17Color(d.colors, ov)
					switch {
					case ov == key:
					default:
						w := "css colour `" + key + "`: rewritten to a different colour, to something that is not a CSS colour, or to something longer"
						switch {
						case !aok && !strings.HasPrefix(key, "#"):
							fail(w, in, out, "`"+key+"` is not a CSS colour keyword but is rewritten to "+ov)
						case !bok:
							fail(w, in, out, "`"+ov+"` is not a CSS colour")
						case aok && a != b:
							fail(w, in, out, fmt.Sprintf("sRGB %v → %v", a, b))
						case len(ov) > len(key):
							fail(w, in, out, "replacement longer than the original")
						}
					}
				}
			case "boolAttrs":
				in := "<input " + key + "=\"v1\">"
				out := run("text/html", in)
				vi, _ := c17Attr(in, "input", key)
				vo, fo := c17Attr(out, "input", key)
				if !fo || vi != vo {
					fail("attrMap["+key+"] booleanAttr: `"+key+"` is not a boolean attribute of the HTML standard but its value is dropped", in, out, fmt.Sprintf("value %q → %q", vi, vo))
				}
			case "urlAttrs":
				in := "<a " + key + "=\" HTTP://Example.com/A \">k</a>"
				out := run("text/html", in)
				vi, _ := c17Attr(in, "a", key)
				vo, fo := c17Attr(out, "a", key)
				if !fo || vi != vo {
					fail("attrMap["+key+"] urlAttr: `"+key+"` is not a URL-valued attribute of the HTML standard but its value is rewritten as a URL", in, out, fmt.Sprintf("value %q → %q", vi, vo))
				}
			case "rawTags":
				in := "<" + key + ">a &amp;amp; b</" + key + "><p>c &amp;amp; d</p>"
				out := run("text/html", in)
				ti, _ := c17Text(in)
				to, _ := c17Text(out)
				if c17Ws(ti) != c17Ws(to) {
					fail("tagMap["+key+"] rawTag: text decodes differently after minification (x/net/html)", in, out, fmt.Sprintf("%q → %q", ti, to))
				}
			case "blockTags":
				in := "<p>a <" + key + ">b</" + key + "> c</p>"
				out := run("text/html", in)
				if !strings.Contains(out, "a <"+key) || !strings.Contains(out, "</"+key+"> c") {
					if !d.class["wsInsignificant"][key] {
						fail("tagMap["+key+"] blockTag: white space next to `"+key+"` is removed, but `"+key+"` is neither block-level, a table part, a line break nor unrendered (HTML Standard §15)", in, out, "")
					}
				}
			case "jsMimetypes":
				in := "<script type=\"" + key + "\">x</script>"
				out := run("text/html", in)
				if !strings.Contains(out, "type") && !d.class["jsMimeTypes"][key] {
					fail("jsMimetypes["+key+"]: the script type is dropped (= classic JavaScript) but `"+key+"` is not a JavaScript MIME type", in, out, "")
				}
			case "zeroUnits":
				for _, in := range []string{"a{margin:0" + key + "}", "a{transition-delay:0" + key + "}", "a{width:0" + key + "}", "a{transform:rotate(0" + key + ")}"} {
					out := run("text/css", in)
					if !strings.Contains(out, "0"+key) && !d.class["lengthUnits"][key] && !d.class["angleUnits"][key] {
						fail("optionalZeroDimension["+key+"]: the unit is dropped from a zero value but `"+key+"` is neither a length nor an angle unit", in, out, "")
					}
				}
			case "zeroAngleFuncs":
				in := "a{x:" + key + "(0deg)}"
				out := run("text/css", in)
				if !strings.Contains(out, "0deg") && !d.class["zeroAngleFunctions"][key] {
					fail("zeroAngleFuncs["+key+"]: a zero angle loses its unit inside `"+key+"()`, whose grammar does not admit a bare 0 for an <angle>", in, out, "")
				}
			case "zeroAngleGuard", "angleDimension":
				for _, in := range []string{"a{rotate:0" + key + "}", "a{font-style:oblique 0" + key + "}", "a{x:0" + key + "}"} {
					out := run("text/css", in)
					if !strings.Contains(out, "0"+key) && d.class["angleUnits"][key] {
						fail("angleDimension: the angle unit `"+key+"` is dropped from a zero outside the functions that admit a bare 0 for an <angle>", in, out, "")
					}
				}
			case "svgColorAttrs":
				in := "<svg><rect " + key + "=\"black\"/></svg>"
				out := run("image/svg+xml", in)
				if !strings.Contains(out, "black") && !d.class["svgColorAttrs"][key] {
					fail("svg colorAttrMap["+key+"]: the value is rewritten as a colour but `"+key+"` is not a colour-valued attribute", in, out, "")
				}
			default: // hash names: a constant that addresses the wrong slice of the name table
				c.R.Add(h.Finding{Stage: st.Name, Kind: "diff", What: t + ": constant " + key + " does not spell the name it addresses", Input: key})
			}
			st.Count(t+"["+key+"]", len(c.R.Findings) > before)
		}
	}
	st.End()
}

// ---------- runner ----------

func runC17(c *Ctx) error {
	d, err := c17Load()
	if err != nil {
		if c.Search {
			// the driver could not be built/run against the regenerated tables: judge the live tables with the Go oracles only
			c.R.Note("driver unavailable (%v): live exported tables judged by the Go oracles only", err)
			d = &c17Dump{pairs: map[string][][2]string{}, names: map[string][]string{}, class: map[string]map[string]bool{}, bad: map[string][]string{}, colors: map[string]c17RGB{}}
			x := c17New()
			c17Entities(c, d, x)
			c17XMLEntities(c, d, x)
			return nil
		}
		return err
	}
	x := c17New()
	c17Translator(c, d)
	c17Behaviour(c, d, x)
	c17Entities(c, d, x)
	if err := c17Contexts(c, d, x); err != nil {
		return err
	}
	c17WsBoundary(c, d, x)
	c17XMLEntities(c, d, x)
	c17Colours(c, d, x)
	if err := c17SpecStage(c, d); err != nil {
		return err
	}
	for _, k := range h.Known("C17") {
		if k.Status != "open" {
			// fixed entries: regression corpus — the row must stay away
			if k.ReplayStr("input") == "<p>a <marquee>b</marquee> c</p>" {
				if still, obs := c17KnownMarquee(x); still {
					c.R.Add(h.Finding{Stage: "known", Kind: "fail", What: "regression of fixed finding " + k.ID + ": white space next to `marquee` (inline-block) is removed again", Input: strconv.Quote(k.ReplayStr("input")), Impl: strconv.Quote(obs)})
				}
			}
			if k.ReplayStr("entry") == "Lightslateblue" {
				out, _, _ := x.run("text/css", "a{color:lightslateblue}")
				if out != "a{color:lightslateblue}" {
					c.R.Add(h.Finding{Stage: "known", Kind: "fail", What: "regression of fixed finding " + k.ID + ": `lightslateblue` (not a CSS colour) is rewritten again", Input: strconv.Quote("a{color:lightslateblue}"), Impl: strconv.Quote(out)})
				}
			}
			continue
		}
		switch k.Trigger {
		case "c17.urlAttr.xmlns":
			still, obs := c17KnownXmlns()
			c.R.AddKnown(k.ID, still, k.What, obs)
		}
	}
	// rows failing their checker: always evaluated (cheap); anything outside the known findings is a failing input
	c17Search(c, d, x)
	return nil
}

package main

// C09, HTML slice — the output of html.Minify re-tokenises (HTML standard §13.2.5) to the intended token stream and is
// accepted again.
//
// Property oracle (independent of the model): the Lean transcription of the standard's tokenizer
// (`spec.c09.html.tokens`, lean/Verif/Spec/C09HtmlTok.lean) is evaluated on the INPUT and on the REAL OUTPUT; the two
// token streams must be equal modulo the documented normalisations (c09HtmlNorm / c09HtmlCompare).  Second witness on
// the output: the golang.org/x/net/html tokenizer must read the same tags and attribute lists as the specification.
// Third clause: the second pass on the output succeeds.

import (
	"bytes"
	"fmt"
	"os"
	"path/filepath"
	"regexp"
	"sort"
	"strings"
	"time"

	"github.com/tdewolff/minify/v2"
	mincss "github.com/tdewolff/minify/v2/css"
	minhtml "github.com/tdewolff/minify/v2/html"
	minjs "github.com/tdewolff/minify/v2/js"
	minjson "github.com/tdewolff/minify/v2/json"
	minsvg "github.com/tdewolff/minify/v2/svg"
	minxml "github.com/tdewolff/minify/v2/xml"
	xhtml "golang.org/x/net/html"

	"verifharness/h"
)

// ---------- options / the real minifier ----------

type c09HtmlCfg struct {
	mask int  // 1 KeepComments 2 KeepSpecialComments 4 KeepDefaultAttrVals 8 KeepDocumentTags 16 KeepEndTags 32 KeepQuotes 64 KeepWhitespace
	sub  bool // all sub-minifiers registered (minify default set) / none
}

func (c c09HtmlCfg) String() string {
	names := []string{"KeepComments", "KeepSpecialComments", "KeepDefaultAttrVals", "KeepDocumentTags", "KeepEndTags", "KeepQuotes", "KeepWhitespace"}
	var p []string
	for i, n := range names {
		if c.mask&(1<<i) != 0 {
			p = append(p, n)
		}
	}
	s := "default"
	if len(p) > 0 {
		s = strings.Join(p, "+")
	}
	if c.sub {
		return s + " sub=all"
	}
	return s + " sub=none"
}

func (c c09HtmlCfg) keepComments() bool { return c.mask&1 != 0 }
func (c c09HtmlCfg) keepSpecial() bool  { return c.mask&2 != 0 }

type c09HtmlMin struct {
	m  *minify.M
	ho *minhtml.Minifier
}

// sub=none: the registry is empty (the HTML minifier is called directly, so not even iframe content finds a minifier)
func c09HtmlM(c c09HtmlCfg) *c09HtmlMin {
	m := minify.New()
	ho := &minhtml.Minifier{KeepComments: c.mask&1 != 0, KeepSpecialComments: c.mask&2 != 0, KeepDefaultAttrVals: c.mask&4 != 0,
		KeepDocumentTags: c.mask&8 != 0, KeepEndTags: c.mask&16 != 0, KeepQuotes: c.mask&32 != 0, KeepWhitespace: c.mask&64 != 0}
	if c.sub {
		m.Add("text/html", ho)
		m.AddFunc("text/css", mincss.Minify)
		m.AddFunc("image/svg+xml", minsvg.Minify)
		m.AddFuncRegexp(regexp.MustCompile("^(application|text)/(x-)?(java|ecma|j|live)script(1\\.[0-5])?$|^module$"), minjs.Minify)
		m.AddFuncRegexp(regexp.MustCompile("[/+]json$"), minjson.Minify)
		m.AddFuncRegexp(regexp.MustCompile("[/+]xml$"), minxml.Minify)
	}
	return &c09HtmlMin{m, ho}
}

func c09HtmlRun(m *c09HtmlMin, in []byte) (out []byte, err error, crash string) {
	crash = h.Safely(60*time.Second, func() {
		var w bytes.Buffer
		err = m.ho.Minify(m.m, &w, bytes.NewReader(append([]byte(nil), in...)), nil)
		out = append([]byte(nil), w.Bytes()...)
	})
	return
}

// ---------- the specification's token stream ----------

type c09HtmlAttr struct{ name, q, raw, dec string }
type c09HtmlItem struct {
	kind  byte // T S E C D
	name  string
	refs  bool
	raw   string
	dec   string
	sc    bool
	attrs []c09HtmlAttr
}

// c09HtmlParseItems decodes a `spec.c09.html.tokens` reply; the closing `Z` record becomes an item of kind 'Z' with
// name "tag" when the document ends inside a tag
func c09HtmlParseItems(reply string) ([]c09HtmlItem, error) {
	b, ok, msg := h.DecodeReply(reply)
	if !ok {
		return nil, fmt.Errorf("spec error: %s", msg)
	}
	f := h.DecodeListReply(b)
	var items []c09HtmlItem
	for i := 0; i < len(f); {
		need := func(n int) bool { return i+n <= len(f) }
		switch string(f[i]) {
		case "T":
			if !need(4) {
				return nil, fmt.Errorf("short T")
			}
			items = append(items, c09HtmlItem{kind: 'T', refs: string(f[i+1]) == "1", raw: string(f[i+2]), dec: string(f[i+3])})
			i += 4
		case "S":
			if !need(4) {
				return nil, fmt.Errorf("short S")
			}
			it := c09HtmlItem{kind: 'S', name: string(f[i+1]), sc: string(f[i+2]) == "1"}
			n := 0
			fmt.Sscanf(string(f[i+3]), "%d", &n)
			i += 4
			if !need(4 * n) {
				return nil, fmt.Errorf("short attrs")
			}
			for k := 0; k < n; k++ {
				it.attrs = append(it.attrs, c09HtmlAttr{string(f[i]), string(f[i+1]), string(f[i+2]), string(f[i+3])})
				i += 4
			}
			items = append(items, it)
		case "E":
			items = append(items, c09HtmlItem{kind: 'E', name: string(f[i+1])})
			i += 2
		case "C":
			items = append(items, c09HtmlItem{kind: 'C', raw: string(f[i+1])})
			i += 2
		case "D":
			items = append(items, c09HtmlItem{kind: 'D', raw: string(f[i+1])})
			i += 2
		case "Z":
			items = append(items, c09HtmlItem{kind: 'Z', name: string(f[i+1])})
			i += 2
		default:
			return nil, fmt.Errorf("bad item tag %q", f[i])
		}
	}
	return items, nil
}

func c09HtmlTokLine(scripting bool, doc []byte) string {
	return "spec.c09.html.tokens " + h.Bool(scripting) + " " + h.Hex(doc)
}

// ---------- normalisation: what a reader of the output is meant to see ----------

var c09HtmlOptEnd = map[string]bool{"p": true, "li": true, "dt": true, "dd": true, "tr": true, "td": true, "th": true, "thead": true, "tbody": true, "tfoot": true,
	"option": true, "optgroup": true, "rb": true, "rt": true, "rtc": true, "rp": true, "html": true, "head": true, "body": true, "colgroup": true}
var c09HtmlDocTags = map[string]bool{"html": true, "head": true, "body": true, "colgroup": true}
var c09HtmlSubRaw = map[string]bool{"script": true, "style": true, "iframe": true}
// elements whose text the minifier must not touch (title is RCDATA for the tokenizer, but its text is ordinary text for the
// minifier: references and whitespace are normalised as everywhere else)
var c09HtmlRawEl = map[string]bool{"script": true, "style": true, "iframe": true, "textarea": true, "xmp": true, "noembed": true, "noframes": true, "plaintext": true}

// attributes the minifier may drop (defaults, empty values, special cases) or whose value it rewrites through other
// functions (media types, URLs, embedded CSS/JS): their presence / value is C03's and C11's business, not tokenisation
var c09HtmlMayDrop = map[string]bool{"type": true, "method": true, "enctype": true, "colspan": true, "rowspan": true, "shape": true, "span": true, "media": true,
	"charset": true, "http-equiv": true, "value": true, "name": true, "class": true, "dir": true, "id": true, "action": true, "style": true, "language": true}
var c09HtmlRewritten = map[string]bool{"type": true, "enctype": true, "formenctype": true, "accept": true, "content": true, "style": true, "charset": true}
var c09HtmlURLAttr = map[string]bool{"href": true, "src": true, "action": true, "cite": true, "data": true, "formaction": true, "poster": true, "manifest": true,
	"background": true, "longdesc": true, "codebase": true, "classid": true, "icon": true, "profile": true, "usemap": true, "xlink:href": true, "srcset": true, "ping": true}

// boolean attributes of the HTML standard: only their presence counts, the minifier writes them without a value
var c09HtmlBoolAttr = map[string]bool{"allowfullscreen": true, "async": true, "autofocus": true, "autoplay": true, "checked": true, "controls": true, "default": true,
	"defer": true, "disabled": true, "formnovalidate": true, "inert": true, "ismap": true, "itemscope": true, "loop": true, "multiple": true, "muted": true, "nomodule": true,
	"novalidate": true, "open": true, "playsinline": true, "readonly": true, "required": true, "reversed": true, "selected": true, "shadowrootdelegatesfocus": true}

func c09HtmlStripWs(s string) string {
	var b strings.Builder
	for i := 0; i < len(s); i++ {
		if c := s[i]; c != ' ' && c != '\t' && c != '\n' && c != '\r' && c != '\f' {
			b.WriteByte(c)
		}
	}
	return b.String()
}

func c09HtmlCollapse(s string) string { return strings.Join(strings.Fields(s), " ") }

type c09HtmlN struct {
	kind  byte // S E D t (text, references decoded, compared without whitespace) r (raw text, exact) F (foreign placeholder)
	name  string
	text  string
	attrs []c09HtmlAttr
	pos   int // index in the item list (for messages)
}

// c09HtmlNorm: comments out; DOCTYPE → D; attribute-less html/head/body/colgroup start tags and every optional end tag
// out; with sub-minifiers the text of script/style/iframe and everything inside svg/math out (placeholders);
// attribute-less empty script/style elements of the input out; adjacent texts joined; texts that are empty (after whitespace
// removal where references are decoded) out.  Returns also the comments.
func c09HtmlNorm(items []c09HtmlItem, cfg c09HtmlCfg, isInput bool) (out []c09HtmlN, comments []string) {
	push := func(n c09HtmlN) {
		if n.kind == 't' || n.kind == 'r' {
			if n.text == "" {
				return
			}
			if k := len(out); k > 0 && out[k-1].kind == n.kind && out[k-1].name == n.name {
				out[k-1].text += n.text
				return
			}
		}
		out = append(out, n)
	}
	cur := ""     // the raw-text / RCDATA element we are in (name of the last start tag if it switched the tokenizer)
	foreign := "" // svg / math
	depth := 0
	for i, it := range items {
		if foreign != "" {
			if it.kind == 'S' && it.name == foreign && !it.sc {
				depth++
			} else if it.kind == 'E' && it.name == foreign {
				depth--
				if depth == 0 {
					foreign = ""
				}
			}
			if cfg.sub {
				continue
			}
		}
		switch it.kind {
		case 'C':
			// `<![CDATA[ … >` in HTML content is a bogus comment for the standard and text for the minifier, which writes
			// it back as it is: not one of the comments that options keep or remove
			if !strings.HasPrefix(it.raw, "[CDATA[") {
				comments = append(comments, it.raw)
			}
		case 'D':
			push(c09HtmlN{kind: 'D', pos: i})
		case 'S':
			cur = ""
			if (it.name == "svg" || it.name == "math") && foreign == "" && !it.sc {
				foreign, depth = it.name, 1
				if cfg.sub {
					push(c09HtmlN{kind: 'F', name: it.name, pos: i})
					continue
				}
			}
			if c09HtmlRawEl[it.name] && foreign == "" {
				cur = it.name
			}
			if len(it.attrs) == 0 && c09HtmlDocTags[it.name] {
				continue
			}
			push(c09HtmlN{kind: 'S', name: it.name, attrs: it.attrs, pos: i})
		case 'E':
			cur = ""
			if c09HtmlOptEnd[it.name] {
				continue
			}
			if k := len(out); isInput && k > 0 && out[k-1].kind == 'S' && out[k-1].pos == i-1 && out[k-1].name == it.name && len(out[k-1].attrs) == 0 && (it.name == "script" || it.name == "style") {
				out = out[:k-1] // an attribute-less `<script></script>` of the input is not written at all
				continue
			}
			push(c09HtmlN{kind: 'E', name: it.name, pos: i})
		case 'T':
			if cur != "" && c09HtmlSubRaw[cur] && cfg.sub {
				continue
			}
			if cur != "" || !it.refs {
				push(c09HtmlN{kind: 'r', name: cur, text: it.raw, pos: i})
			} else {
				push(c09HtmlN{kind: 't', text: c09HtmlStripWs(it.dec), pos: i})
			}
		}
	}
	return
}

func c09HtmlShowN(n c09HtmlN) string {
	switch n.kind {
	case 'S':
		var a []string
		for _, x := range n.attrs {
			a = append(a, fmt.Sprintf("%s=%q", x.name, x.dec))
		}
		return "<" + n.name + " " + strings.Join(a, " ") + ">"
	case 'E':
		return "</" + n.name + ">"
	case 'D':
		return "DOCTYPE"
	case 'F':
		return "[" + n.name + "]"
	case 'r':
		return fmt.Sprintf("raw(%s)%q", n.name, trunc([]byte(n.text), 80))
	}
	return fmt.Sprintf("text%q", trunc([]byte(n.text), 80))
}

func c09HtmlIsEvent(n string) bool { return len(n) > 2 && n[0] == 'o' && n[1] == 'n' }

var c09HtmlInlineM = func() *minify.M {
	m := minify.New()
	m.AddFunc("text/css", mincss.Minify)
	m.AddFunc("application/javascript", minjs.Minify)
	return m
}()

// what a style / on* attribute should hold after minification: the sub-minifier applied (inline) to the DECODED input
// value, as a browser would see it; ok=false: the sub-minifier rejects that value
func c09HtmlEmbeddedWant(name, dec string) (string, bool) {
	v := strings.Trim(dec, " \t\n\r\f")
	mt := "text/css"
	if name != "style" {
		mt = "application/javascript"
		if len(v) >= 11 && strings.EqualFold(v[:11], "javascript:") {
			v = v[11:]
		}
	}
	var w bytes.Buffer
	var err error
	if crash := h.Safely(20*time.Second, func() {
		err = c09HtmlInlineM.MinifyMimetype([]byte(mt), &w, strings.NewReader(v), map[string]string{"inline": "1"})
	}); crash != "" || err != nil {
		return "", false
	}
	return w.String(), true
}

// attributes: the output list must be the input list (duplicates already removed by the tokenizer) without some
// droppable attributes; names equal (meta content → charset is the one rename); values of attributes that no other
// function rewrites are equal after decoding, modulo whitespace collapsing/trimming
func c09HtmlCmpAttrs(tag string, a, b []c09HtmlAttr, cfg c09HtmlCfg) string {
	j := 0
	for _, x := range a {
		if j < len(b) && (b[j].name == x.name || tag == "meta" && x.name == "content" && b[j].name == "charset") {
			y := b[j]
			j++
			if cfg.sub && tag != "x-el" && (x.name == "style" || c09HtmlIsEvent(x.name)) {
				if want, ok := c09HtmlEmbeddedWant(x.name, x.dec); ok && want != y.dec {
					return fmt.Sprintf("embedded: attribute %s of <%s>: decoded value %q became %q, the sub-minifier gives %q for the decoded value", x.name, tag, x.dec, y.dec, want)
				}
				continue
			}
			if y.name != x.name || c09HtmlRewritten[x.name] || c09HtmlURLAttr[x.name] || c09HtmlIsEvent(x.name) || c09HtmlBoolAttr[x.name] && y.q == "m" {
				continue
			}
			if y.dec != x.dec && c09HtmlCollapse(y.dec) != c09HtmlCollapse(x.dec) {
				return fmt.Sprintf("attribute %s of <%s>: value %q became %q", x.name, tag, x.dec, y.dec)
			}
			continue
		}
		if c09HtmlMayDrop[x.name] || c09HtmlIsEvent(x.name) || x.dec == "" && false {
			continue
		}
		return fmt.Sprintf("attribute %s of <%s> is missing in the output (output has %d attributes, next %v)", x.name, tag, len(b), b[j:])
	}
	if j < len(b) {
		return fmt.Sprintf("<%s> has an extra attribute %s=%q in the output", tag, b[j].name, b[j].dec)
	}
	return ""
}

// c09HtmlCompare returns "" or the first difference between the normalised streams
func c09HtmlCompare(in, out []c09HtmlItem, cfg c09HtmlCfg) string {
	d, _ := c09HtmlCompareSig(in, out, cfg)
	return d
}

// c09HtmlCompareSig also names the kind of the difference: text | raw | tag | attr | extra | comment
func c09HtmlCompareSig(in, out []c09HtmlItem, cfg c09HtmlCfg) (string, string) {
	a, ca := c09HtmlNorm(in, cfg, true)
	b, cb := c09HtmlNorm(out, cfg, false)
	n := len(a)
	if len(b) < n {
		n = len(b)
	}
	for i := 0; i < n; i++ {
		x, y := a[i], b[i]
		if x.kind != y.kind || x.name != y.name {
			return fmt.Sprintf("token %d: input %s, output %s", i, c09HtmlShowN(x), c09HtmlShowN(y)), "tag"
		}
		switch x.kind {
		case 't', 'r':
			if x.text != y.text {
				return fmt.Sprintf("token %d: input %s, output %s", i, c09HtmlShowN(x), c09HtmlShowN(y)), map[byte]string{'t': "text", 'r': "raw"}[x.kind]
			}
		case 'S':
			if d := c09HtmlCmpAttrs(x.name, x.attrs, y.attrs, cfg); d != "" {
				if strings.HasPrefix(d, "embedded: ") {
					return fmt.Sprintf("token %d: %s", i, d), "embedded"
				}
				return fmt.Sprintf("token %d: %s", i, d), "attr"
			}
		}
	}
	if len(a) != len(b) {
		if len(a) > n {
			return fmt.Sprintf("output ends early: input continues with %s", c09HtmlShowN(a[n])), "extra"
		}
		return fmt.Sprintf("output has extra token %s", c09HtmlShowN(b[n])), "extra"
	}
	// comments
	switch {
	case cfg.keepComments():
		if strings.Join(ca, "\x00") != strings.Join(cb, "\x00") {
			return fmt.Sprintf("KeepComments: comments differ: %q vs %q", ca, cb), "comment"
		}
	case cfg.keepSpecial():
		j := 0
		for _, c := range cb {
			for j < len(ca) && !c09HtmlSameSpecial(ca[j], c) {
				j++
			}
			if j == len(ca) {
				return fmt.Sprintf("output comment %q is not a comment of the input", c), "comment"
			}
			j++
		}
	default:
		if len(cb) != 0 {
			return fmt.Sprintf("output has a comment %q although comments are removed", cb[0]), "comment"
		}
	}
	return "", ""
}

// a kept special comment: same data, or a conditional comment whose inside was minified (same `[if …]>` head and same tail)
func c09HtmlSameSpecial(in, out string) bool {
	if in == out {
		return true
	}
	if strings.HasPrefix(in, "[if ") && strings.HasSuffix(in, "<![endif]") && strings.HasSuffix(out, "<![endif]") {
		i, j := strings.IndexByte(in, '>'), strings.IndexByte(out, '>')
		return i >= 0 && j == i && in[:i] == out[:j]
	}
	return false
}

// the skeleton under the other reading of noscript (scripting enabled): only tags, comments, DOCTYPE
func c09HtmlSkeleton(items []c09HtmlItem, cfg c09HtmlCfg, isInput bool) string {
	n, _ := c09HtmlNorm(items, cfg, isInput)
	var b strings.Builder
	inNoscript := false
	for _, x := range n {
		if x.kind == 'S' && x.name == "noscript" {
			inNoscript = true
		} else if x.kind == 'E' && x.name == "noscript" {
			inNoscript = false
		}
		if x.kind == 'S' || x.kind == 'E' || x.kind == 'D' || x.kind == 'F' {
			b.WriteString(string(x.kind) + x.name + " ")
		} else if (x.kind == 't' || x.kind == 'r') && !inNoscript {
			b.WriteString("t ")
		}
	}
	return b.String()
}

// ---------- second witness: the x/net/html tokenizer on the output ----------

func c09HtmlNl(s string) string {
	return strings.ReplaceAll(strings.ReplaceAll(s, "\r\n", "\n"), "\r", "\n")
}

// c09HtmlXnet renders what x/net/html reads: tags with (deduplicated) attribute lists, comments, doctype; text joined
func c09HtmlXnet(doc []byte) []string {
	z := xhtml.NewTokenizer(bytes.NewReader(doc))
	var out []string
	text := ""
	flush := func() {
		if text != "" {
			out = append(out, "T"+text)
			text = ""
		}
	}
	foreign, depth := "", 0
	for {
		if foreign != "" {
			z.NextIsNotRawText()
		}
		z.AllowCDATA(foreign != "")
		tt := z.Next()
		if tt == xhtml.ErrorToken {
			break
		}
		rawHasAmp := bytes.Contains(z.Raw(), []byte("&")) // before Token(): it decodes in place
		t := z.Token()
		switch tt {
		case xhtml.TextToken:
			text += t.Data
		case xhtml.StartTagToken, xhtml.SelfClosingTagToken:
			flush()
			seen := map[string]bool{}
			s := "S" + t.Data
			for _, a := range t.Attr {
				if !seen[a.Key] {
					seen[a.Key] = true
					s += fmt.Sprintf(" %s=%q", a.Key, a.Val)
				}
			}
			out = append(out, s)
			if (t.Data == "svg" || t.Data == "math") && tt == xhtml.StartTagToken {
				if foreign == "" {
					foreign, depth = t.Data, 1
				} else if foreign == t.Data {
					depth++
				}
			}
		case xhtml.EndTagToken:
			flush()
			out = append(out, "E"+t.Data)
			if t.Data == foreign {
				if depth--; depth == 0 {
					foreign = ""
				}
			}
		case xhtml.CommentToken:
			flush()
			if rawHasAmp {
				out = append(out, "C&") // x/net/html decodes references inside comments (the standard does not)
			} else {
				out = append(out, "C"+t.Data)
			}
		case xhtml.DoctypeToken:
			flush()
			out = append(out, "D")
		}
	}
	flush()
	return out
}

func c09HtmlSpecAsXnet(items []c09HtmlItem) []string {
	var out []string
	text := ""
	flush := func() {
		if text != "" {
			out = append(out, "T"+text)
			text = ""
		}
	}
	for _, it := range items {
		switch it.kind {
		case 'T':
			text += c09HtmlNl(it.dec)
		case 'S':
			flush()
			s := "S" + it.name
			for _, a := range it.attrs {
				s += fmt.Sprintf(" %s=%q", a.name, c09HtmlNl(a.dec))
			}
			out = append(out, s)
		case 'E':
			flush()
			out = append(out, "E"+it.name)
		case 'C':
			flush()
			if strings.Contains(it.raw, "&") {
				out = append(out, "C&")
			} else {
				out = append(out, "C"+c09HtmlNl(it.raw))
			}
		case 'D':
			flush()
			out = append(out, "D")
		}
	}
	flush()
	return out
}

// c09HtmlXnetShape: the element structure and the visible text as the x/net/html PARSER sees them: element names in document
// order (optional html/head/body/tbody/colgroup wrappers aside) and the text outside script/style/iframe/noscript without white space
func c09HtmlXnetShape(doc []byte) string {
	root, err := xhtml.Parse(bytes.NewReader(doc))
	if err != nil {
		return "parse-error"
	}
	var b strings.Builder
	var walk func(n *xhtml.Node, hidden bool)
	walk = func(n *xhtml.Node, hidden bool) {
		switch n.Type {
		case xhtml.ElementNode:
			switch n.Data {
			case "html", "head", "body", "tbody", "colgroup":
			default:
				b.WriteString("<" + n.Data + ">")
			}
			if n.Data == "script" || n.Data == "style" || n.Data == "iframe" || n.Data == "noscript" || n.Data == "noembed" || n.Data == "noframes" {
				hidden = true // not rendered; iframe/noscript content is raw text for this parser and markup for the minifier
			}
		case xhtml.TextNode:
			if !hidden {
				b.WriteString(c09HtmlStripWs(n.Data))
			}
		}
		for c := n.FirstChild; c != nil; c = c.NextSibling {
			walk(c, hidden)
		}
	}
	walk(root, false)
	return b.String()
}

// inputs on which x/net/html is known to deviate from the standard (or from the byte-level reading of the
// specification): NUL bytes, non-UTF-8 bytes (x/net replaces them), numeric references it overflows or rejects
// (see c03OracleSafe), `<![CDATA[` outside foreign content, `<plaintext>`, `</>` (x/net: empty comment; standard: nothing)
func c09HtmlXnetSafe(doc []byte) bool {
	for _, c := range doc {
		if c == 0 || c >= 0x80 {
			return false
		}
	}
	if bytes.Contains(doc, []byte("<![CDATA[")) || bytes.Contains(doc, []byte("</>")) || bytes.Contains(bytes.ToLower(doc), []byte("<plaintext")) {
		return false
	}
	// x/net/html leaves the script-data-escaped state on `<` + anything but `/` or a letter (the standard stays in it):
	// skip documents with such a `<` after a `<!--` when there is a script
	if i := bytes.Index(doc, []byte("<!--")); i >= 0 && bytes.Contains(bytes.ToLower(doc), []byte("<script")) {
		rest := doc[i+4:]
		for k := 0; k+1 < len(rest); k++ {
			if c := rest[k+1]; rest[k] == '<' && c != '/' && !(c >= 'a' && c <= 'z' || c >= 'A' && c <= 'Z') {
				return false
			}
		}
	}
	return c03OracleSafe(doc)
}

// ---------- known findings of this slice and of C03 that explain a token-stream difference ----------

// `</script` etc. followed by something that is neither a letter nor whitespace, `/`, `>`: the minifier's lexer ends the raw text there, the standard does not
var c09HtmlEndNoDelim = regexp.MustCompile("(?is)</(script|style|textarea|title|iframe|xmp)[^a-zA-Z \\t\\n\\f\\r/>]|<!--.*<script[^a-zA-Z \\t\\n\\f\\r/>]")
// an end tag with a quoted attribute before its first `>` (the lexer ends the tag at the first `>`, the standard after the quote)
var c09HtmlEndQuoted = regexp.MustCompile("</[a-zA-Z][^>]*[\"']")

var c09HtmlRefLike = regexp.MustCompile(`(?i)&(amp;|#0*38;|#x0*26;|[#0-9A-Za-z]*)$`)
var c09HtmlTagLike = regexp.MustCompile(`<[/!]?-?$`)

// which kinds of difference a known finding explains (an attribute difference is never excused)
var c09HtmlExplains = map[string]string{
	"K-C09-HTML-1": "text tag extra comment", "K-C09-HTML-2": "raw text tag extra", 
	"K-C09-HTML-4": "text tag extra", "K-C09-HTML-5": "text tag extra", "K-C09-HTML-6": "raw text tag extra comment", "K-C09-HTML-7": "raw text tag extra comment",
	 "K-C03-8": "text", "K-C03-11": "raw text tag extra", "OBS-embedded-ref": "embedded",
}

// c09HtmlKnownClasses names the known findings (of this slice and of C03) whose narrow trigger the generated document
// falls under: non-conforming constructs that the minifier's lexer reads differently from the standard, and the
// text-join situations
func c09HtmlKnownClasses(in []byte, items []c09HtmlItem) (ks []string) {
	low := bytes.ToLower(in)
	has := func(s string) bool { return bytes.Contains(low, []byte(s)) }
	if has("<!-->") || has("<!--->") {
		ks = append(ks, "K-C09-HTML-1")
	}
	if c09HtmlEndNoDelim.Match(in) {
		ks = append(ks, "K-C09-HTML-2")
	}
	if has("<xmp") || has("<listing") || has("<noembed") || has("<noframes") || has("<plaintext") || has("amp-boilerplate") {
		ks = append(ks, "K-C03-11")
	}
	// `<![CDATA[` in HTML content: a bogus comment up to the first `>` for the standard (the tokenizer reports it with the
	// data `[CDATA[…`), character data up to `]]>` for the minifier's lexer
	for _, it := range items {
		if it.kind == 'C' && strings.HasPrefix(it.raw, "[CDATA[") {
			ks = append(ks, "K-C09-HTML-6")
			break
		}
	}
	if c09HtmlEndQuoted.Match(in) {
		ks = append(ks, "K-C09-HTML-7")
	}
	if c09HtmlEmbeddedRef(items) {
		ks = append(ks, "OBS-embedded-ref")
	}
	if n := len(items); n > 0 && items[n-1].kind == 'Z' && items[n-1].name == "tag" {
		ks = append(ks, "K-C09-HTML-5")
	}
	// a removed token (comment, dropped html/head/body tag, omitted end tag) between a text that ends in a reference
	// prefix or a decoded ampersand (K-C03-8) or in `<`, `</`, `<!` (K-C09-HTML-4) and the text that continues it
	join := func(re *regexp.Regexp) bool {
		for i := 0; i+2 < len(items); i++ {
			if items[i].kind == 'T' && items[i].refs && re.MatchString(items[i].raw) {
				for j := i + 1; j < len(items); j++ {
					if items[j].kind == 'T' {
						if j > i+1 {
							return true
						}
						break
					}
					if !(items[j].kind == 'C' || items[j].kind == 'S' && c09HtmlDocTags[items[j].name] && len(items[j].attrs) == 0 || items[j].kind == 'E' && c09HtmlOptEnd[items[j].name]) {
						break
					}
				}
			}
		}
		return false
	}
	if join(c09HtmlRefLike) {
		ks = append(ks, "K-C03-8")
	}
	if join(c09HtmlTagLike) {
		ks = append(ks, "K-C09-HTML-4")
	}
	return
}

// OBS-embedded-ref: html.go hands a style / on* value to the CSS / JS minifier with some references still in it
// (hasReferenceGlue leaves the whole value alone, e.g. `&#39;a;b&#39;`; non-ASCII and NUL/CR references always stay):
// the sub-minifier then tokenises `&#39;` as delimiters. C03/C11 business (value semantics), recorded as an observation.
func c09HtmlEmbeddedRef(items []c09HtmlItem) bool {
	for _, it := range items {
		if it.kind == 'S' {
			for _, a := range it.attrs {
				if (a.name == "style" || c09HtmlIsEvent(a.name)) && strings.Contains(a.raw, "&") {
					return true
				}
			}
		}
	}
	return false
}

func c09HtmlExcused(ks []string, sig string) string {
	for _, k := range ks {
		if strings.Contains(" "+c09HtmlExplains[k]+" ", " "+sig+" ") {
			return k
		}
	}
	return ""
}

// ---------- evaluation of a batch of cases ----------

type c09HtmlCase struct {
	shape  bool // also compare the x/net/html parser's element structure + visible text of input and output
	in     []byte
	cfg    c09HtmlCfg
	label  string
	hazard []string // hazards the generator aimed at (hit counts are measured on the output)
}

type c09HtmlRes struct {
	out, out2 []byte
	err, err2 error
	crash     string
}

func c09HtmlFail(c *Ctx, st *h.Stage, cs c09HtmlCase, what string, out []byte, detail string) {
	c.R.Add(h.Finding{Stage: st.Name, Kind: "fail", What: what, Input: h.Q(trunc(cs.in, 400)), Hex: h.Hex(trunc(cs.in, 200000)), Config: cs.cfg.String(),
		Impl: h.Q(trunc(out, 400)) + " " + detail})
}

var c09HtmlDoubleEscaped = regexp.MustCompile("(?is)<!--.*<script[ \\t\\n\\f\\r/>]")
var c09HtmlRawEnd = regexp.MustCompile(`(?i)</(script|style|textarea|title|iframe)[ \t\n\f\r/>]`)

// measured on the OUTPUT: which hazard constructs are really there
func c09HtmlHazards(st *h.Stage, in, out []c09HtmlItem, outBytes []byte) {
	cur := ""
	for i, it := range out {
		switch it.kind {
		case 'S':
			cur = it.name
			for k, a := range it.attrs {
				last := k == len(it.attrs)-1
				switch a.q {
				case "u":
					st.Tag("hazard=attr-unquoted")
					if last && strings.HasSuffix(a.raw, "/") {
						st.Tag("hazard=attr-unquoted-slash-before-gt")
					}
					if strings.ContainsAny(a.raw, "&") {
						st.Tag("hazard=attr-unquoted-amp")
					}
				case "m":
					st.Tag("hazard=attr-no-value")
					if !last {
						st.Tag("hazard=attr-no-value-then-attr")
					}
				case "s", "d":
					st.Tag("hazard=attr-quoted")
					if strings.Contains(a.raw, "&#34;") || strings.Contains(a.raw, "&#39;") {
						st.Tag("hazard=attr-quote-escaped")
					}
					if strings.ContainsAny(a.raw, "<>") {
						st.Tag("hazard=attr-quoted-angle")
					}
				}
				if a.raw != a.dec {
					st.Tag("hazard=attr-reference-kept")
					if a.name == "style" || c09HtmlIsEvent(a.name) {
						st.Tag("hazard=quote-ref-in-embedded-attr")
					}
				}
				if strings.Contains(a.dec, "&") && a.raw == a.dec {
					st.Tag("hazard=attr-bare-amp")
				}
			}
			if it.name == "svg" || it.name == "math" {
				st.Tag("hazard=embedded-" + it.name)
			}
		case 'E':
			cur = ""
		case 'C':
			st.Tag("hazard=comment-kept")
			if strings.HasPrefix(it.raw, "[if ") {
				st.Tag("hazard=comment-conditional")
			}
			if strings.Contains(it.raw, "--") {
				st.Tag("hazard=comment-inner-dashes")
			}
		case 'T':
			if !it.refs && c09HtmlRawEl[cur] || cur == "textarea" || cur == "title" {
				if strings.Contains(it.raw, "</") {
					st.Tag("hazard=raw-lt-slash")
				}
				if strings.Contains(strings.ToLower(it.raw), "<\\/"+cur) {
					st.Tag("hazard=raw-escaped-end-tag")
				}
				if strings.Contains(it.raw, "<!--") {
					st.Tag("hazard=raw-comment-open")
				}
				if strings.Contains(it.raw, "]]>") {
					st.Tag("hazard=raw-cdata-end")
				}
				if cur == "script" && c09HtmlDoubleEscaped.MatchString(it.raw) {
					st.Tag("hazard=script-double-escaped") // the state is really entered by the OUTPUT's script text
				}
				if strings.Contains(strings.ToLower(it.raw), "</"+cur) {
					st.Tag("hazard=raw-own-end-tag-prefix") // `</script` not followed by whitespace, `/`, `>`
				}
			} else if it.refs {
				if strings.Contains(it.raw, "<") {
					st.Tag("hazard=text-raw-lt")
				}
				if strings.Contains(it.raw, "&lt;") {
					st.Tag("hazard=text-lt-escaped")
				}
				if strings.Contains(it.dec, "&") && !strings.Contains(it.raw, "&amp;") {
					st.Tag("hazard=text-bare-amp")
				}
				if i > 0 && i+1 < len(out) && out[i-1].kind == 'C' {
					st.Tag("hazard=text-after-comment")
				}
			}
		}
	}
	nc, nt := 0, 0
	for _, it := range in {
		if it.kind == 'C' {
			nc++
		}
	}
	for _, it := range out {
		if it.kind == 'C' {
			nt++
		}
	}
	if nt < nc {
		st.Tag("hazard=comment-removed")
	}
	if len(outBytes) >= 100000 {
		st.Tag("hazard=large-output>=100KB")
	}
}

// c09HtmlEval: real minifier, specification tokens of input and output (one batch), comparison, x/net witness, second pass
func c09HtmlEval(c *Ctx, st *h.Stage, cases []c09HtmlCase) error {
	res := make([]c09HtmlRes, len(cases))
	ms := map[c09HtmlCfg]*c09HtmlMin{}
	var lines []string
	idx := make([][4]int, len(cases)) // line numbers: in/out scripting off, in/out scripting on (or -1)
	for i, cs := range cases {
		m := ms[cs.cfg]
		if m == nil {
			m = c09HtmlM(cs.cfg)
			ms[cs.cfg] = m
		}
		r := &res[i]
		r.out, r.err, r.crash = c09HtmlRun(m, cs.in)
		idx[i] = [4]int{-1, -1, -1, -1}
		if r.crash != "" || r.err != nil {
			continue
		}
		var crash2 string
		r.out2, r.err2, crash2 = c09HtmlRun(m, r.out)
		if crash2 != "" {
			r.err2 = fmt.Errorf("%s", crash2)
		}
		idx[i][0] = len(lines)
		lines = append(lines, c09HtmlTokLine(false, cs.in))
		idx[i][1] = len(lines)
		lines = append(lines, c09HtmlTokLine(false, r.out))
		if bytes.Contains(bytes.ToLower(cs.in), []byte("<noscript")) {
			idx[i][2] = len(lines)
			lines = append(lines, c09HtmlTokLine(true, cs.in))
			idx[i][3] = len(lines)
			lines = append(lines, c09HtmlTokLine(true, r.out))
		}
	}
	rep, err := h.Eval(lines)
	if err != nil {
		return err
	}
	for i, cs := range cases {
		r := res[i]
		key := cs.label + " " + h.Q(trunc(cs.in, 200)) + " " + cs.cfg.String()
		if r.crash != "" {
			c.R.Add(h.Finding{Stage: st.Name, Kind: "crash", What: r.crash, Input: h.Q(trunc(cs.in, 400)), Hex: h.Hex(trunc(cs.in, 200000)), Config: cs.cfg.String()})
			continue
		}
		if r.err != nil {
			st.Count(key, false)
			st.Tag("rejected")
			continue
		}
		st.Count(key, !bytes.Equal(r.out, cs.in))
		if cs.cfg.sub {
			st.Tag("sub=all")
		} else {
			st.Tag("sub=none")
		}
		in, e1 := c09HtmlParseItems(rep[idx[i][0]])
		out, e2 := c09HtmlParseItems(rep[idx[i][1]])
		if e1 != nil || e2 != nil {
			return fmt.Errorf("spec.c09.html.tokens: %v %v", e1, e2)
		}
		c09HtmlHazards(st, in, out, r.out)
		known := c09HtmlKnownClasses(cs.in, in)
		// (1) second pass
		if r.err2 != nil && strings.Contains(r.err2.Error(), "expected colon character after object key") && bytes.Contains(cs.in, []byte("json")) {
			c.R.ExcludedKnown++ // K-C09-1 in an embedded JSON script: a truncated JSON text is accepted, its output is not
			st.Tag("excluded=K-C09-1")
			continue
		}
		if r.err2 != nil {
			if k := c09HtmlExcused(known, "secondpass"); k != "" {
				c.R.ExcludedKnown++
				st.Tag("excluded=" + k)
				continue
			}
			c09HtmlFail(c, st, cs, "output of a successful pass is rejected by the second pass", r.out, r.err2.Error())
			continue
		}
		if !bytes.Equal(r.out2, r.out) {
			st.Tag("second-pass-changes-output")
		}
		// (2) the token stream is the intended one
		if d, sig := c09HtmlCompareSig(in, out, cs.cfg); d != "" {
			if k := c09HtmlExcused(known, sig); k != "" {
				c.R.ExcludedKnown++
				st.Tag("excluded=" + k)
			} else {
				c09HtmlFail(c, st, cs, "the output tokenises (HTML standard) to a different token stream than the input", r.out, d)
			}
			continue
		}
		if idx[i][2] >= 0 {
			a, e1 := c09HtmlParseItems(rep[idx[i][2]])
			b, e2 := c09HtmlParseItems(rep[idx[i][3]])
			if e1 != nil || e2 != nil {
				return fmt.Errorf("spec.c09.html.tokens: %v %v", e1, e2)
			}
			st.Tag("noscript-both-readings")
			if x, y := c09HtmlSkeleton(a, cs.cfg, true), c09HtmlSkeleton(b, cs.cfg, false); x != y && c09HtmlExcused(known, "tag") == "" {
				c09HtmlFail(c, st, cs, "with scripting enabled (noscript = raw text) the tag skeleton of the output differs", r.out, x+" vs "+y)
				continue
			}
		}
		if cs.shape && c09HtmlXnetSafe(cs.in) {
			st.Tag("xnet-shape-compared")
			if x, y := c09HtmlXnetShape(cs.in), c09HtmlXnetShape(r.out); x != y && len(known) == 0 {
				c09HtmlFail(c, st, cs, "x/net/html parser: element structure / visible text of the output differ from the input", r.out, x+" vs "+y)
				continue
			}
		}
		// (3) x/net/html reads the output as the specification does
		if c09HtmlXnetSafe(r.out) && !bytes.Contains(bytes.ToLower(r.out), []byte("<noscript")) {
			st.Tag("xnet-compared")
			x, y := c09HtmlXnet(r.out), c09HtmlSpecAsXnet(out)
			if strings.Join(x, "\x00") != strings.Join(y, "\x00") {
				k := 0
				for k < len(x) && k < len(y) && x[k] == y[k] {
					k++
				}
				xs, ys := "<end>", "<end>"
				if k < len(x) {
					xs = x[k]
				}
				if k < len(y) {
					ys = y[k]
				}
				c.R.Add(h.Finding{Stage: st.Name, Kind: "diff", What: "x/net/html and the specification tokenizer read the output differently (one of the two witnesses is wrong)", Input: h.Q(trunc(r.out, 400)), Hex: h.Hex(trunc(r.out, 200000)), Config: cs.cfg.String(), Impl: h.Q([]byte(xs)), Model: h.Q([]byte(ys))})
			}
		}
	}
	return nil
}

// ---------- generators ----------

func c09HtmlPick(r *h.RNG, s []string) string { return s[r.Intn(len(s))] }

func c09HtmlMask(r *h.RNG) int {
	switch r.Intn(4) {
	case 0:
		return 0
	case 1:
		return 1 << r.Intn(7)
	}
	return r.Intn(128)
}

var c09HtmlValAtoms = []string{" ", "\t", "\n", "\"", "'", "=", "<", ">", "`", "&", ";", "#", "x", "1", "3", "9", "0", "a", "l", "t", "m", "p", "g", "q", "/",
	"&amp;", "&lt;", "&gt;", "&quot;", "&apos;", "&#39;", "&#34;", "&#x27;", "&#x22;", "&#38;", "&amp", "&lt", "&copy", "&nbsp;", "&#32;", "&#9;", "&#10;", "&Tab;", "&NewLine;", "&equals;", "&grave;"}

func c09HtmlGenVal(r *h.RNG, maxLen int) string {
	n := r.Intn(maxLen + 1)
	var b strings.Builder
	for i := 0; i < n; i++ {
		b.WriteString(c09HtmlValAtoms[r.Intn(len(c09HtmlValAtoms))])
	}
	return b.String()
}

// write `name=value` in quote form q (0 unquoted, 1 single, 2 double); bytes that would end the value in that form are
// written as references, so the value the reader gets is the decoding of `v` in every form
func c09HtmlWriteAttr(name, v string, q int) (string, bool) {
	switch q {
	case 1:
		return name + "='" + strings.ReplaceAll(v, "'", "&#39;") + "'", true
	case 2:
		return name + "=\"" + strings.ReplaceAll(v, "\"", "&quot;") + "\"", true
	}
	if v == "" {
		return "", false
	}
	rep := strings.NewReplacer(" ", "&#32;", "\t", "&#9;", "\n", "&#10;", ">", "&gt;")
	v = rep.Replace(v)
	if v[0] == '"' || v[0] == '\'' {
		return "", false // would open a quoted value
	}
	return name + "=" + v, true
}

var c09HtmlAttrTags = []string{"a", "div", "meta", "input", "x-el", "img", "p", "span", "td", "link", "button"}
var c09HtmlAttrNames = []string{"title", "data-x", "alt", "content", "property", "about", "class", "id", "value", "placeholder", "href", "src", "lang", "name", "rel", "aria-label", "x"}
var c09HtmlEmbeddedVals = []string{"content:&#39;a;b&#39;", "content:&#39;a&#39;;x:1", "a:&#39;;b:1", "font-family:&#39;A  B&#39;", "font-family:&quot;A B&quot;, serif", "a:url(&#39;x&#39;) 1", "color:red;;", "content:\"&amp;\"",
	"content:'&lt;'", "background:url(a.png?x=1&amp;y=2)", "a:&amp;#39;1", "margin:0px", "content:&#34;x&#34;", "content:'&copy;'"}
var c09HtmlEmbeddedJS = []string{"a = b ? \"x\" : &#39;y&#39;", "a=&#39;1&#39;+2", "f(&quot;x&quot;)", "return a &lt; b", "if (a &amp;&amp; b) c()", "x = '&amp;lt;'", "javascript:g(&#39;x&#39;)", "a = 1 &lt;!--b", "s = &quot;&lt;/script&gt;&quot;"}

var c09HtmlAfterAttr = []string{"", "", " b", " c=d", " e='f g'", " hidden", "/", " /", " x=y/"}

func c09HtmlGenAttrDoc(r *h.RNG, v string, q int) ([]byte, bool) {
	tag := c09HtmlPick(r, c09HtmlAttrTags)
	name := c09HtmlPick(r, c09HtmlAttrNames)
	if r.Chance(8) {
		// style / on* attribute with references to quotes, `&`, `<` in all quote forms (the value is already written with references)
		name, v = "style", c09HtmlPick(r, c09HtmlEmbeddedVals)
		if r.Bool() {
			name, v = c09HtmlPick(r, []string{"onclick", "onload", "onmouseover"}), c09HtmlPick(r, c09HtmlEmbeddedJS)
		}
		if q == 1 {
			v = strings.ReplaceAll(v, "'", "&apos;")
		}
	}
	a, ok := c09HtmlWriteAttr(name, v, q)
	if !ok {
		return nil, false
	}
	pre := c09HtmlPick(r, []string{"", "", " k=v", " checked", " z=\"\""})
	return []byte("<div>t<" + tag + pre + " " + a + c09HtmlPick(r, c09HtmlAfterAttr) + ">x</" + tag + ">u</div>"), true
}

var c09HtmlJSPieces = []string{"</script", "</SCRIPT ", "<\\/script>", "</scr", "<!--", "-->", "<!--<script>", "<script>", "]]>", "<![CDATA[", "</style>", "&amp;", "&lt;", "<b>", "\\x3c/script>", "\\u003c/script>", "<\\/SCRIPT\t>", "</script/", "< /script>", "</scriptx>", "</script-x>"}
var c09HtmlCSSPieces = []string{"</style", "</STYLE ", "<\\/style>", "\\3c/style>", "</sty", "<!--", "-->", "]]>", "<![CDATA[", "</script>", "&amp;", "<b>", "</style/", "</stylex>", "\\3c /style>"}

func c09HtmlGenScript(r *h.RNG) string {
	var b strings.Builder
	n := 1 + r.Intn(4)
	for i := 0; i < n; i++ {
		p := c09HtmlPick(r, c09HtmlJSPieces)
		switch r.Intn(8) {
		case 0:
			b.WriteString("var s" + fmt.Sprint(i) + " = \"a" + p + "b\";")
		case 1:
			b.WriteString("var t" + fmt.Sprint(i) + " = 'a" + p + "b';")
		case 2:
			b.WriteString("/* " + p + " */")
		case 3:
			b.WriteString("// " + p + "\n")
		case 4:
			b.WriteString("var u" + fmt.Sprint(i) + " = `a" + p + "${1}b`;")
		case 5:
			b.WriteString("x = a <" + c09HtmlPick(r, []string{" ", "", "/", "!"}) + "b;")
		case 6:
			b.WriteString("if (a < b && c --> d) { e = f <!--g\n }")
		case 7:
			b.WriteString("r = /a" + strings.NewReplacer("/", "\\/", "[", "\\[", "]", "\\]").Replace(p) + "/.test(s);")
		}
		b.WriteString(c09HtmlPick(r, []string{"", " ", "\n"}))
	}
	return b.String()
}

func c09HtmlGenStyle(r *h.RNG) string {
	var b strings.Builder
	n := 1 + r.Intn(3)
	for i := 0; i < n; i++ {
		p := c09HtmlPick(r, c09HtmlCSSPieces)
		switch r.Intn(5) {
		case 0:
			b.WriteString("a{content:\"x" + p + "y\"}")
		case 1:
			b.WriteString("b{content:'x" + p + "y'}")
		case 2:
			b.WriteString("/* " + p + " */c{d:e}")
		case 3:
			b.WriteString("f{background:url(" + strings.NewReplacer("<", "%3C", ">", "%3E", " ", "", "\"", "", "'", "", "\\", "").Replace(p) + ")}")
		case 4:
			b.WriteString("g > h{i:j}")
		}
		b.WriteString(c09HtmlPick(r, []string{"", " ", "\n"}))
	}
	return b.String()
}

// script-double-escaped: `<!--` and `<script`+delimiter survive JS minification only inside regular expression literals and
// kept `/*! … */` comments (string and template literals get `<\!--` since a80add2); the `</script` that balances them in
// the source sits in a removable comment, in a string that the JS minifier rewrites to `<\/script`, or is absent
var c09HtmlDEOpen = []string{"var re=/<!--<script>/;", "var re = /<!--[\\s\\S]*<SCRIPT /i;", "var re=/a<!--b<script\t/;", "/*! <!--<script> */", "/*! <!--<Script/ */", "/*! x <!--\n<script\n */",
	"var t=`<!--<script>`;", "var re=/<!--/, r2=/<script>/;", "if (/<!--<script >/.test(x)) y();"}
var c09HtmlDEClose = []string{"/* </script> */", "// </SCRIPT >\n", "/* </script/ */", "/* x </Script\t y */", "var s = \"</script>\";", "var s = 'a</script b';", "", ""}

func c09HtmlGenScriptDE(r *h.RNG) string {
	var b strings.Builder
	b.WriteString("<script>")
	b.WriteString(c09HtmlPick(r, []string{"", "var a = 1; ", "f0();\n"}))
	b.WriteString(c09HtmlPick(r, c09HtmlDEOpen))
	b.WriteString(c09HtmlPick(r, []string{"", " ", "\n"}))
	b.WriteString(c09HtmlPick(r, c09HtmlDEClose))
	switch r.Intn(5) {
	case 0: // a second level: enter the double-escaped state again and balance it again
		b.WriteString(" var r3=/<script>/; " + c09HtmlPick(r, c09HtmlDEClose[:6]))
	case 1: // `-->` leaves the escaped states altogether
		b.WriteString(" var q=/-->/; ")
	case 2:
		b.WriteString(" var r4=/<script\\/>/; /* </script> */ /* </script> */")
	}
	b.WriteString(c09HtmlPick(r, []string{" f()", "\nf();", " var z = a < b;"}))
	b.WriteString("</script>")
	b.WriteString(c09HtmlPick(r, []string{"<p>x</p><script>g()</script>", "<p>  x  y </p><script>g( 1 )</script><i>t</i>", "<div>d</div>"}))
	return b.String()
}

func c09HtmlGenRaw(r *h.RNG) string {
	if r.Chance(12) {
		return c09HtmlGenScriptDE(r)
	}
	switch r.Intn(7) {
	case 0, 1:
		t := c09HtmlPick(r, []string{"", "", " type=text/javascript", " type=module", " async", " type=\"text/template\"", " type=application/ld+json"})
		body := c09HtmlGenScript(r)
		if strings.Contains(t, "template") {
			body = "<div>  a  </div>" + c09HtmlPick(r, c09HtmlJSPieces)
		} else if strings.Contains(t, "json") {
			body = "{\"a\": \"x" + strings.ReplaceAll(c09HtmlPick(r, c09HtmlJSPieces), "\\", "\\\\") + "\", \"b\": [1, 2]}"
		}
		return "<script" + t + ">" + body + "</script>"
	case 2:
		return "<style" + c09HtmlPick(r, []string{"", " media=all", " type=text/css", " media=print"}) + ">" + c09HtmlGenStyle(r) + "</style>"
	case 3:
		return "<textarea>" + c09HtmlPick(r, []string{"", "\n"}) + " a  &amp; b " + c09HtmlPick(r, []string{"</textare", "</textarea-x>", "<b>", "<!--", "&lt;/textarea>", "</title>", "</TEXTAREAx"}) + " c </textarea>"
	case 4:
		return "<title> a  &amp; b " + c09HtmlPick(r, []string{"</titl", "<b>", "<!-- x -->", "&lt;/title>", "</textarea>", "</titlex>"}) + "</title>"
	case 5:
		return "<iframe" + c09HtmlPick(r, []string{"", " src=x"}) + ">" + c09HtmlPick(r, []string{"", "<p>  a  b </p>", "<!-- c --> x", "a &amp; b </ifram", "<b title=\"</iframe-x>\">", "&lt;/iframe&gt;", "<b title=\"&lt;/iframe&gt;\">x</b>", "<script>var s = \"<\\/iframe>\";</script>", "<a href=\"&#60;/iframe \">y</a>"}) + "</iframe>"
	}
	return "<script>" + c09HtmlPick(r, []string{"<!--\nx = 1;\n//-->", "<!--\nvar s = '<script>';\nvar t = '<\\/script>';\n//-->", "x = 1 //<!--<script>\n", "var s = \"<!--\", t = \"<script>\", u = \"</script>\";", "var s = \"<!--<script>\"; // </script>\n", "var a = \"<!--\"; if (x < script > y) z()", "document.write(\"<!--<script>alert(1)</script>-->\")"}) + "</script>"
}

var c09HtmlCommentPieces = []string{"<!-- a -->", "<!---->", "<!-- a -- b -->", "<!-- a --!> b", "<!-- <!-- n --> x", "<!--[if IE]><p title=\"a--&gt;b\">  x  y </p><![endif]-->",
	"<!--[if !IE]><!--><p>x</p><!--<![endif]-->", "<!--[if lt IE 9]><script src=\"x.js\"></script><![endif]-->", "<!--# include file=\"x\" -->", "<!a>", "<?php x ?>", "</ x>", "<!--[if IE]> a -- b <![endif]-->",
	"<!--[if IE]><![endif]-->", "<!-- a > b -->", "<!--a--->", "<!-- - -->", "<!--[if IE]><a href=\"x\">  l  </a> <!-- in --> <![endif]-->", "<!-->", "<!--->", "<!DOCTYPE html>", "<![CDATA[ x ]]>", "<!--[if gte mso 9]><xml><o:x>1</o:x></xml><![endif]-->", "</>", "<!--->x-->"}

var c09HtmlTextPieces = []string{"1 < 2", "a<b", "a &lt; b", "&lt;b", "&lt;/b", "&lt;!--", "&lt;?", "<3", "a<", "&amp;lt;", "&amp;amp;", "&amp;#60;", "&", "&a", "&amp", "&ampx", "&lt", "&ltx", "&amp;", "&#60;b", "&#x3c;/p",
	"x &gt; y", "&quot;q&quot;", "a&nbsp;b", "&copy;", "<<b>>", "< b", "<-", "<=", "&amp;&amp;", "a & b", "&amp;copy;", "&#38;lt;", "&lt;&gt;", "if (a&lt;b) {", "<1>", "a<!b", "<é", "<&#98;>", "<&#47;b>", "<&#33;--", "<&amp;", "<&#50;", "<&sol;p>"}
var c09HtmlBoundaryPieces = []string{"&am<!-- -->p;", "&amp;<b>lt;</b>", "&#6<!---->0;", "&l<!-- c -->t;", "&amp<!-- -->;", "&lt;<!-- -->b", "<<!-- -->b>", "a<!-- -->b", "a <!-- --> b", "&amp;<!---->amp;"}

func c09HtmlGenText(r *h.RNG) string {
	var b strings.Builder
	n := 1 + r.Intn(3)
	for i := 0; i < n; i++ {
		if r.Chance(15) {
			b.WriteString(c09HtmlPick(r, c09HtmlBoundaryPieces))
		} else {
			b.WriteString(c09HtmlPick(r, c09HtmlTextPieces))
		}
		b.WriteString(c09HtmlPick(r, []string{"", " ", "  ", "\n"}))
	}
	return b.String()
}

var c09HtmlSvgPieces = []string{
	`<svg width="10" height="10"><path d="M 0 0 L 10 10 z" fill="#ff0000"/><text x="1">a &lt; b</text></svg>`,
	`<svg viewBox="0 0 1 1"><title>t</title><style>a{b:c}</style><g><rect width="1" height="1"/></g></svg>`,
	`<svg><script>var a = 1 < 2;</script><circle r="1"/></svg>`,
	`<math><mi>x</mi><mo>&lt;</mo><mn>1</mn></math>`,
	`<svg><![CDATA[ a < b ]]><desc>d</desc></svg>`,
	`<svg xmlns="http://www.w3.org/2000/svg"><a xlink:href="x/"><text>l</text></a></svg>`,
}

func c09HtmlGenElement(r *h.RNG, depth int) string {
	switch r.Intn(14) {
	case 0:
		return c09HtmlGenRaw(r)
	case 1:
		return c09HtmlPick(r, c09HtmlCommentPieces[:18])
	case 2, 3:
		return c09HtmlGenText(r)
	case 4:
		return c09HtmlPick(r, c09HtmlSvgPieces)
	case 5:
		d, ok := c09HtmlGenAttrDoc(r, c09HtmlGenVal(r, 5), r.Intn(3))
		if ok {
			return string(d)
		}
		return "<br>"
	case 6:
		return "<ul><li>" + c09HtmlGenText(r) + "</li><li>b</li></ul>"
	case 7:
		return "<table><tr><td>" + c09HtmlGenText(r) + "</td><td>2</td></tr></table>"
	case 8:
		return "<select><option value=1>a</option><option selected>b</option></select>"
	case 9:
		return "<pre>" + c09HtmlPick(r, []string{"", "\n"}) + " a  <b> b </b>\n c </pre>"
	case 10:
		return "<noscript><img src=\"x.gif\" alt=\"a > b\"><p>  n  </p></noscript>"
	case 11:
		return "<a href=\"" + c09HtmlPick(r, []string{"http://x/y?a=1&amp;b=2", "HTTP://X/", "x/", "data:text/plain;base64,YQ==", "javascript:void(0)", "#a", "y?a=1&lt=2", "z?a&amp;copy=1"}) + "\" onclick=\"" + c09HtmlPick(r, []string{"return f(1 < 2)", "a = &quot;x&quot;", "javascript:g('&lt;')", "if (a && b) c()"}) + "\" style=\"" + c09HtmlPick(r, []string{"color: red;", "content: '&gt;'", "background: url(a.png) ;", "font-family: &quot;A B&quot;"}) + "\">l</a>"
	}
	if depth <= 0 {
		return "<p>" + c09HtmlGenText(r) + "</p>"
	}
	tag := c09HtmlPick(r, []string{"div", "p", "span", "b", "section", "h1", "em", "x-y"})
	var b strings.Builder
	b.WriteString("<" + tag + c09HtmlPick(r, []string{"", " class=\"a  b\"", " id=i", " title='t &amp; u'", " data-v=\"<&gt;\""}) + ">")
	n := 1 + r.Intn(3)
	for i := 0; i < n; i++ {
		b.WriteString(c09HtmlGenElement(r, depth-1))
		b.WriteString(c09HtmlPick(r, []string{"", " ", "\n  "}))
	}
	b.WriteString("</" + tag + ">")
	return b.String()
}

func c09HtmlGenDoc(r *h.RNG, minBytes int) []byte {
	var b bytes.Buffer
	b.WriteString("<!DOCTYPE html>\n<html lang=\"en\">\n<head>\n<meta charset=\"utf-8\">\n<title>T &amp; t</title>\n<meta name=\"viewport\" content=\"width=device-width, initial-scale=1.0\">\n<link rel=\"stylesheet\" type=\"text/css\" href=\"a.css\">\n")
	b.WriteString(c09HtmlGenRaw(r))
	b.WriteString("\n</head>\n<body class=\"c\">\n")
	for b.Len() < minBytes {
		b.WriteString(c09HtmlGenElement(r, 3))
		b.WriteString("\n")
	}
	b.WriteString("</body>\n</html>\n")
	return b.Bytes()
}

func c09HtmlCorpus(repo string, maxBytes int) (names []string, docs [][]byte) {
	var files []string
	for _, g := range []string{"tests/html/corpus/*", "_benchmarks/*.html"} {
		f, _ := filepath.Glob(filepath.Join(repo, g))
		sort.Strings(f)
		files = append(files, f...)
	}
	for _, f := range files {
		if b, err := os.ReadFile(f); err == nil && len(b) > 0 && len(b) <= maxBytes {
			names = append(names, strings.TrimPrefix(f, repo+"/"))
			docs = append(docs, b)
		}
	}
	return
}

// inputs of the fixed findings (all variants tried while hunting)
var c09HtmlFixedCorpus = []string{
	// K-C09-HTML-3: the recursive result would close the conditional comment
	"<!--[if IE]><p title=\"a--&gt;b\">x</p><![endif]-->z", "<!--[if IE]><p title=\"a--!&gt;b\">x</p><![endif]-->z",
	"<!--[if IE]><p title=\"a--&#62;b\">x</p><![endif]-->z", "<!--[if IE]><p>a--&gt;b</p><![endif]-->z", "<!--[if IE]>--<br>&gt;<![endif]-->z",
	"<!--[if IE]><p title=\"a--&gt;b\" class=\" c  d \">  x  &amp;  y </p><![endif]-->z", "<!--[if lt IE 9]><a href=\"x--&gt;\">  l  </a><![endif]--><p>q</p>",
	// K-C09-HTML-8: script-data escaped / double-escaped state
	"<script>var s = \"<!--\", t = \"<script>\", u = \"</script>\";</script><p>after</p>", "<script>var s = \"<!--<script>\"; // </script>\n</script><p>after</p>",
	"<script>var s = \"<!--<script>\"; /* </script> */</script><p>after</p>", "<script>var a = \"<!--\"; if (x < script > y) z()</script><p>after</p>",
	"<script>var s = `<!--<script>`; var t = `</script>`;</script><p>after</p>", "<script>document.write(\"<!--<script>alert(1)</script>-->\")</script><p>after</p>",
	"<script><!--\ndocument.write(\"<script>x</script>\");\n//--></script><p>after</p>", "<script>var r = /<!--<script>/; var q = 1 </script>/ 2;</script><p>after</p>",
	"<script>var t0 = 'a<!--<script>b';\nvar s1 = \"a</scriptx>b\";/* < /script> */ // </script\n\n</script><p>  y  z</p>",
	// K-C09-HTML-8, script-double-escaped with what survives JS minification (regex literals, bang comments), seeded C09-m8
	"<script>var re=/<!--<script>/;/* </script> */ f()</script><p>x</p><script>g()</script>",
	"<script>var re=/<!--<script>/; // </script>\nf()</script><p>x</p><script>g()</script>",
	"<script>var re=/<!--[\\s\\S]*<SCRIPT /i; var s = \"</script>\"; f()</script><p>x</p><script>g()</script>",
	"<script>/*! <!--<script> */ /* </script> */ f()</script><p>x</p><script>g()</script>",
	"<script>/*! <!--<Script/ */ // </SCRIPT >\nf()</script><p>x</p><script>g()</script>",
	"<script>var re=/<!--<script>/;/* </script> */ var r2=/<script\t/; /* </SCRIPT > */ f()</script><p>x</p><script>g()</script>",
	"<script>var re=/<!--<script>/;/* </script> */ var q=/-->/; f()</script><p>x</p><script>g()</script>",
	"<script>var re=/<!--<script>-->/; f()</script><p>x</p><script>g()</script>",
	"<script>var t=`<!--<script>`; /* </script> */ f()</script><p>x</p><script>g()</script>",
	"<script>if (/<!--<script >/.test(x)) y(); var s = 'a</script b'; f()</script><p>  x  y </p><script>g( 1 )</script><i>t</i>",
	// K-C09-HTML-9: iframe content
	"<iframe><b title=\"&lt;/iframe&gt;\">x</b></iframe><p>after</p>", "<iframe><script>var s = \"<\\/iframe>\";</script></iframe><p>after</p>",
	"<iframe><a href=\"&#60;/iframe \">y</a></iframe><p>after</p>", "<iframe><b title=\"&amp;&lt;/iframe&gt;\" class=\" a  b \">  x  &amp;  y </b></iframe>z",
	"<iframe><style>a{content:\"\\3c/iframe>\"}</style></iframe><p>after</p>", "<iframe><p>  a  b </p></iframe><p>after</p>",
	// K-C09-HTML-10: reference directly after a raw `<`
	"<p><&#115;cript>alert(1)<&#47;script></p>", "<p><&#x73;cript>alert(1)</script></p>", "<p><&#98;>x</p>", "<p><&#47;p>x</p>", "<p><&#33;-- x --></p>", "<p><&sol;b></p>",
	"<p><&excl;-- x</p>", "<p><&quest;x></p>", "<p><&#x62; title=1>x</p>", "<title><&#47;title>x</title>", "<textarea><&#47;textarea>x</textarea>", "<p>1 <&#50; 3</p>", "<p>a <&amp; b</p>", "<p><&lt;b></p>",
	"<pre>  <&#98;>  x </pre>", "<p>a  <&#98;>  &amp;  c</p>",
	// K-C09-3 (coordinator): white space removed by the CSS/JS minifier inside `< /style >`
	"<style>a{b:< /style >}</style><p>x</p>", "<script>x = a< /script >/.test(b)</script>", "<style>a{b:\"<\"/style }</style><p>x</p>",
}

// ---------- stages ----------

func c09HtmlStages(c *Ctx) error {
	r := c.Rng.Fork()
	wide := 1
	if c.Search {
		wide = 4
	}

	// (0) the specification tokenizer against x/net/html on the generated INPUTS (validation of the spec side)
	{
		st := c.R.StartStage("c09-html-specval", "Spec/C09HtmlTok.lean vs the golang.org/x/net/html tokenizer (svg/math depth tracked for both) on generated elements, comments, raw-text contents and attribute documents; documents on which x/net/html is known to deviate (NUL, non-ASCII bytes, CDATA in HTML content, plaintext, oversized numeric references, noscript) are skipped and counted; non-trivial = the document has a tag, comment or reference")
		n := c.N(1500, 40000) * wide
		var docs [][]byte
		var lines []string
		for i := 0; i < n; i++ {
			var d []byte
			switch r.Intn(5) {
			case 0:
				d = []byte(c09HtmlGenRaw(r) + c09HtmlGenText(r))
			case 1:
				d = []byte("a" + c09HtmlPick(r, c09HtmlCommentPieces) + "b" + c09HtmlPick(r, c09HtmlCommentPieces) + "c -->d")
			case 2:
				dd, ok := c09HtmlGenAttrDoc(r, c09HtmlGenVal(r, 6), r.Intn(3))
				if !ok {
					continue
				}
				d = dd
			case 3:
				// hostile tag syntax
				d = []byte("<" + c09HtmlPick(r, []string{"a", "A", "a/", "a/b", "br/", "p\n", "x-y"}) + c09HtmlPick(r, []string{"", " ", "  b", " b=", " b= c", " =b", " b=c/", " b='c'd", " b=\"c\"/", " b c", " B=C b=d", " \"b=c", " b<c", " b=c=d", " b=`c`", " /b", " b / c"}) + c09HtmlPick(r, []string{">", "/>", " >", " / >", ">x</a>", "></a >", "></a b=c>", "></A/>", ">", ""}))
			default:
				d = []byte(c09HtmlGenElement(r, 2))
			}
			if !c09HtmlXnetSafe(d) || bytes.Contains(bytes.ToLower(d), []byte("<noscript")) {
				st.Tag("skipped-xnet-deviation")
				continue
			}
			docs = append(docs, d)
			lines = append(lines, c09HtmlTokLine(false, d))
		}
		rep, err := h.Eval(lines)
		if err != nil {
			return err
		}
		for i, d := range docs {
			items, err := c09HtmlParseItems(rep[i])
			if err != nil {
				return err
			}
			st.Count(h.Q(trunc(d, 200)), bytes.ContainsAny(d, "<&"))
			x, y := c09HtmlXnet(d), c09HtmlSpecAsXnet(items)
			if strings.Join(x, "\x00") != strings.Join(y, "\x00") {
				k := 0
				for k < len(x) && k < len(y) && x[k] == y[k] {
					k++
				}
				xs, ys := "<end>", "<end>"
				if k < len(x) {
					xs = x[k]
				}
				if k < len(y) {
					ys = y[k]
				}
				c.R.Add(h.Finding{Stage: st.Name, Kind: "diff", What: "x/net/html and Spec/C09HtmlTok.lean tokenise differently", Input: h.Q(trunc(d, 400)), Hex: h.Hex(d), Impl: h.Q([]byte(xs)), Model: h.Q([]byte(ys))})
			}
		}
		st.End()
	}

	cfgOf := func() c09HtmlCfg { return c09HtmlCfg{mask: c09HtmlMask(r), sub: r.Chance(50)} }

	// (1) attribute values
	{
		st := c.R.StartStage("c09-html-attr", "attribute values over the hazard alphabet (whitespace, both quotes, = < > backtick & ; # digits letters /, complete and semicolon-less references) in all three quote forms, on plain, trimmed, RDFa (must-quote), URL attributes of known and unknown tags, followed by nothing / another attribute / `/`; every value of up to two atoms exhaustively (quick: one configuration each) plus random longer ones; KeepQuotes and all other options random; with all sub-minifiers and with none; clauses: second pass, token stream of the output = token stream of the input modulo normalisation (names in order, decoded values equal), x/net/html reads the same attribute lists; non-trivial = the output differs from the input")
		var cases []c09HtmlCase
		var vals []string
		for _, a := range c09HtmlValAtoms {
			vals = append(vals, a)
			for _, b := range c09HtmlValAtoms {
				vals = append(vals, a+b)
			}
		}
		for _, v := range vals {
			for q := 0; q < 3; q++ {
				if c.Thorough() || c.Search || r.Chance(40) {
					if d, ok := c09HtmlGenAttrDoc(r, v, q); ok {
						cases = append(cases, c09HtmlCase{in: d, cfg: c09HtmlCfg{mask: []int{0, 32, c09HtmlMask(r)}[r.Intn(3)], sub: r.Bool()}, label: "attr"})
					}
				}
			}
		}
		n := c.N(1500, 60000) * wide
		for i := 0; i < n; i++ {
			if d, ok := c09HtmlGenAttrDoc(r, c09HtmlGenVal(r, 7), r.Intn(3)); ok {
				cases = append(cases, c09HtmlCase{in: d, cfg: c09HtmlCfg{mask: []int{0, 32, c09HtmlMask(r)}[r.Intn(3)], sub: r.Bool()}, label: "attr"})
			}
		}
		if err := c09HtmlEval(c, st, cases); err != nil {
			return err
		}
		st.End()
	}

	// (2) raw-text elements, comments, `<` and references in text
	{
		st := c.R.StartStage("c09-html-raw", "script / style / textarea / title / iframe elements whose content contains `</script`, `</SCRIPT `, `<\\/script`, `\\x3c/script`, `<!--`, `<!--<script>`, `-->`, `]]>`, `</style` in strings, comments, regular expressions, template literals, url()s, and legacy `<!-- … //-->` wrappers; real JS/CSS/JSON/HTML sub-minifiers and none; class script-double-escaped: `<!--` + `<script`+delimiter in regex literals / bang comments / templates, the balancing `</script` in a removable comment, a rewritten string, or absent, two levels, `-->`, followed by more document (also judged by the x/net/html parser: same elements, same visible text); clause: same tags in the same order (no element closes early or late), raw text byte-identical without sub-minifier; non-trivial = output differs from input")
		var cases []c09HtmlCase
		n := c.N(900, 40000) * wide
		for i := 0; i < n; i++ {
			d := "<div>" + c09HtmlPick(r, []string{"", "a ", "<p>x"}) + c09HtmlGenRaw(r) + c09HtmlPick(r, []string{"", " b", "<p>  y  z</p>"}) + "</div>"
			cases = append(cases, c09HtmlCase{in: []byte(d), cfg: cfgOf(), label: "raw"})
			if i%6 == 0 { // the script-double-escaped class on its own, with the real JS minifier and with the empty registry
				de := c09HtmlGenScriptDE(r)
				cases = append(cases, c09HtmlCase{in: []byte(de), cfg: c09HtmlCfg{mask: c09HtmlMask(r), sub: true}, label: "script-double-escaped", shape: true})
				cases = append(cases, c09HtmlCase{in: []byte(de), cfg: c09HtmlCfg{mask: 0, sub: false}, label: "script-double-escaped", shape: true})
			}
		}
		if err := c09HtmlEval(c, st, cases); err != nil {
			return err
		}
		st.End()
	}
	{
		st := c.R.StartStage("c09-html-comment", "comments (`--` inside, `--!>`, nested `<!--`, `<!-->`, `<!--->`, bogus comments `<!a>` `<?…>` `</ x>`, SSI, downlevel-hidden and downlevel-revealed conditional comments with markup, attributes containing `-->`, nested comments) between text, in pre, before raw-text elements, under KeepComments / KeepSpecialComments / neither; clauses: kept comments are single comment tokens with the input's data (conditional: inside minified), removed ones leave the neighbouring tokens intact; non-trivial = output differs from input")
		var cases []c09HtmlCase
		n := c.N(900, 30000) * wide
		for i := 0; i < n; i++ {
			d := c09HtmlPick(r, []string{"", "<p>", "<pre>", "<div> "}) + c09HtmlPick(r, []string{"a", "a ", "", "&amp"}) + c09HtmlPick(r, c09HtmlCommentPieces) + c09HtmlPick(r, []string{"b", " b", "", ";", "\nb", "<b>c</b>", "-->"}) + c09HtmlPick(r, c09HtmlCommentPieces[:18]) + c09HtmlPick(r, []string{"", "<script>x()</script>", "</p>", "z"})
			mask := c09HtmlMask(r)
			switch r.Intn(3) {
			case 0:
				mask |= 1
			case 1:
				mask = mask&^1 | 2
			}
			cases = append(cases, c09HtmlCase{in: []byte(d), cfg: c09HtmlCfg{mask: mask, sub: r.Bool()}, label: "comment"})
		}
		if err := c09HtmlEval(c, st, cases); err != nil {
			return err
		}
		st.End()
	}
	{
		st := c.R.StartStage("c09-html-text", "`<` in text before letters / digits / space / `/` / `!` / `?`, escaped and raw; `&amp;` before text that would form a reference; references and reference prefixes at text/tag/comment boundaries; clause: decoded text of the output = decoded text of the input (whitespace aside), no text turns into a tag; non-trivial = output differs from input")
		var cases []c09HtmlCase
		n := c.N(900, 30000) * wide
		for i := 0; i < n; i++ {
			d := "<p>" + c09HtmlGenText(r) + c09HtmlPick(r, []string{"", "<b>" + c09HtmlGenText(r) + "</b>", "<br>"}) + c09HtmlGenText(r) + "</p>" + c09HtmlPick(r, []string{"", c09HtmlGenText(r)})
			cases = append(cases, c09HtmlCase{in: []byte(d), cfg: cfgOf(), label: "text"})
		}
		if err := c09HtmlEval(c, st, cases); err != nil {
			return err
		}
		st.End()
	}

	// (3) documents: corpus, benchmarks, composed documents of real-world size with embedded languages
	{
		st := c.R.StartStage("c09-html-doc", "tests/html/corpus and _benchmarks/*.html (size bound by tier) and composed documents (head with meta/link/style/script, nested block and inline elements, lists, tables, select, pre, noscript, svg/math, comments, raw-text elements, attribute hazards, URL/style/on* attributes with the real sub-minifiers); thorough: every composed document ≥ 100 KB; all clauses; non-trivial = output differs from input")
		var cases []c09HtmlCase
		names, docs := c09HtmlCorpus(c.Repo, c.N(150000, 4000000))
		for i, d := range docs {
			for _, cfg := range []c09HtmlCfg{{0, true}, {0, false}, {c09HtmlMask(r) | 2, true}} {
				cases = append(cases, c09HtmlCase{in: d, cfg: cfg, label: names[i]})
			}
		}
		n := c.N(40, 60) * wide
		for i := 0; i < n; i++ {
			size := 500 + r.Intn(c.N(8000, 20000))
			if c.Thorough() {
				size = 100000 + r.Intn(60000)
			} else if i < 2 {
				size = 100000
			}
			cases = append(cases, c09HtmlCase{in: c09HtmlGenDoc(r, size), cfg: cfgOf(), label: "composed"})
		}
		if err := c09HtmlEval(c, st, cases); err != nil {
			return err
		}
		st.End()
	}

	// (3b) fixed findings: every variant input must pass all clauses, under every Keep* mask that matters and both registries
	{
		st := c.R.StartStage("c09-html-fixed", "regression corpus of the fixed findings K-C09-HTML-3 (3c66722), -8 (1557146, a80add2), -9 (1557146), -10 (6635adc) and K-C09-3 (1557146): every variant input × {default, KeepSpecialComments, KeepComments, KeepQuotes, KeepWhitespace} × {all sub-minifiers, none}; all clauses of the oracle, no exclusion; non-trivial = output differs from input")
		var cases []c09HtmlCase
		for _, in := range c09HtmlFixedCorpus {
			for _, mask := range []int{0, 2, 1, 32, 64, 2 | 16 | 32} {
				for _, sub := range []bool{true, false} {
					cases = append(cases, c09HtmlCase{in: []byte(in), cfg: c09HtmlCfg{mask: mask, sub: sub}, label: "fixed", shape: true})
				}
			}
		}
		if err := c09HtmlEval(c, st, cases); err != nil {
			return err
		}
		st.Exhaustive = true
		st.End()
	}

	// (4) the theorem's guard on real token streams
	{
		st := c.R.StartStage("c09-html-model", "documents (generated elements and composed documents <= 20 KB, tests/html/corpus, html_test.go inputs) lexed by the REAL lexer/TokenBuffer (c03Lex), random Keep* masks, no sub-minifier or (35 %) the recording stub minifiers of C03 for every media type (their results pass through html.go's re-lex check): model.c09.html.walk = model output + the decidable guard of html_output_retokenises_partial + whether the standard's tokenizer reads the output as the intended pieces; the model output must equal the real html.Minify output (C03 owns that comparison: counted, not reported here) and guard ⇒ re-tokenisation must hold (a counter-instance would contradict the theorem: diff); distribution = which kind of step first leaves the guard; non-trivial = the guard holds")
		type mc struct {
			doc  []byte
			mask int
			out  []byte
		}
		var cases []mc
		var lines []string
		var docs [][]byte
		n := c.N(500, 20000) * wide
		for i := 0; i < n; i++ {
			switch r.Intn(4) {
			case 0:
				docs = append(docs, c09HtmlGenDoc(r, 300+r.Intn(3000)))
			case 1:
				docs = append(docs, []byte("<div>"+c09HtmlGenRaw(r)+c09HtmlGenText(r)+"</div>"))
			default:
				docs = append(docs, []byte(c09HtmlGenElement(r, 2)))
			}
		}
		_, cdocs := c09HtmlCorpus(c.Repo, 20000)
		docs = append(docs, cdocs...)
		_, tdocs := c03TestInputs(c.Repo)
		for _, d := range tdocs {
			if len(d) <= 20000 {
				docs = append(docs, d)
			}
		}
		for _, d := range docs {
			toks, lexErr := c03Lex(d)
			if lexErr {
				continue
			}
			mask := c09HtmlMask(r)
			o := c03OptsOf(mask)
			stub := r.Chance(35) // recording stubs for every media type: their results go through html.go's re-lex check
			out, err, crash := c03RunReal(d, o, stub)
			if err != nil || crash != "" {
				continue
			}
			sm := 0
			if stub {
				sm = 1
			}
			cases = append(cases, mc{d, mask, out})
			lines = append(lines, "model.c09.html.walk "+h.Int(int64(mask))+" "+h.Int(int64(sm))+" "+c03Ext(toks, o, stub)+" "+c03EncodeToks(toks))
		}
		rep, err := h.Eval(lines)
		if err != nil {
			return err
		}
		for i, cs := range cases {
			key := h.Q(trunc(cs.doc, 200)) + " " + c03OptsOf(cs.mask).String()
			b, ok, msg := h.DecodeReply(rep[i])
			if !ok {
				st.Count(key, false)
				if strings.Contains(msg, "ext missing") {
					st.Tag("outside=ext-missing")
				} else {
					st.Tag("outside=model-error")
				}
				continue
			}
			f := h.DecodeListReply(b)
			if len(f) != 4 {
				return fmt.Errorf("model.c09.html.walk: bad reply %q", b)
			}
			guard, holds := string(f[1]) == "1", string(f[2]) == "1"
			st.Count(key, guard)
			if !bytes.Equal(f[0], cs.out) {
				st.Tag("model!=impl (C03's comparison)")
				continue
			}
			if guard {
				st.Tag("guard=holds")
			} else {
				st.Tag("guard-left-at=" + string(f[3]))
			}
			if holds {
				st.Tag("retokenises=yes")
			} else {
				st.Tag("retokenises=no")
			}
			if guard && !holds {
				c.R.Add(h.Finding{Stage: st.Name, Kind: "diff", What: "guard of html_output_retokenises_partial holds but the output does not re-tokenise to the intended pieces (contradicts the theorem: driver or encoding defect)", Input: key, Hex: h.Hex(cs.doc)})
			}
		}
		st.End()
	}

	// known findings of this slice
	for _, k := range h.Known("C09") {
		if k.Status != "open" || !strings.HasPrefix(k.ID, "K-C09-HTML-") {
			continue
		}
		in := []byte(k.ReplayStr("input"))
		cfg := c09HtmlCfg{mask: 0, sub: k.ReplayStr("sub") != "none"}
		fmt.Sscanf(k.ReplayStr("mask"), "%d", &cfg.mask)
		m := c09HtmlM(cfg)
		out, err, crash := c09HtmlRun(m, in)
		still, obs := false, fmt.Sprintf("out=%q err=%v %s", out, err, crash)
		if err == nil && crash == "" {
			rep, e := h.Eval([]string{c09HtmlTokLine(false, in), c09HtmlTokLine(false, out)})
			if e != nil {
				return e
			}
			a, e1 := c09HtmlParseItems(rep[0])
			b, e2 := c09HtmlParseItems(rep[1])
			if e1 != nil || e2 != nil {
				return fmt.Errorf("known replay: %v %v", e1, e2)
			}
			d := c09HtmlCompare(a, b, cfg)
			_, err2, _ := c09HtmlRun(m, out)
			still = d != "" || err2 != nil
			obs += fmt.Sprintf(" %s second pass err=%v", d, err2)
		}
		c.R.AddKnown(k.ID, still, k.What, obs)
	}
	return nil
}

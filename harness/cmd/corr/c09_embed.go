package main

// C09 — "real-world sized documents with embedded languages": HTML host documents are COMPOSED from real corpus /
// benchmark documents of every embedded language (style elements, classic and JSON script elements, inline svg, style=""
// and on*="" attributes, conditional comments, RCDATA elements holding look-alike markup) around real HTML bodies, so the
// harness knows, independently of the minifier, which embedded payloads a reader must find in the output and in which
// order.  The output of the real html minifier (all sub-minifiers registered) is read by golang.org/x/net/html:
//   * the same sequence of embedded elements (kind by kind) as composed,
//   * every classic script payload is accepted by V8, every JSON payload by encoding/json with the same value,
//     every style payload is balanced CSS, every inline svg re-read from the raw output bytes is well-formed XML,
//   * textarea / pre / title payloads are byte-identical, the visible text outside embedded elements is the same up to white space,
//   * the second pass succeeds; whether the output is a fixed point is measured (tag), not required.

import (
	"bytes"
	"encoding/json"
	"fmt"
	"reflect"
	"regexp"
	"strings"
	"time"

	"github.com/tdewolff/minify/v2"
	xhtml "golang.org/x/net/html"

	"verifharness/h"
)

type c09Piece struct {
	kind string // css | js | json | svg | rcdata | attr | markup | cond
	html []byte // the bytes placed into the host document
	body []byte // the embedded payload as composed (what a reader finds inside the element)
	head bool   // may be placed inside <head>
}

var (
	c09ReEndScript = regexp.MustCompile(`(?i)</script|<!--`)
	c09ReEndStyle  = regexp.MustCompile(`(?i)</style`)
	c09ReSvgRoot   = regexp.MustCompile(`(?s)<svg[\s>].*</svg\s*>`)
)

// the embedded payloads a reader (x/net/html) finds in a document, in document order
type c09Embedded struct {
	kinds   []string // "script", "json", "style", "svg", "textarea", "pre", "title"
	payload [][]byte
}

func c09ReadEmbedded(doc []byte) (c09Embedded, bool) {
	var e c09Embedded
	root, err := xhtml.Parse(bytes.NewReader(doc))
	if err != nil {
		return e, false
	}
	text := func(n *xhtml.Node) []byte {
		var b bytes.Buffer
		for c := n.FirstChild; c != nil; c = c.NextSibling {
			if c.Type == xhtml.TextNode {
				b.WriteString(c.Data)
			}
		}
		return b.Bytes()
	}
	var walk func(n *xhtml.Node, inSvg bool)
	walk = func(n *xhtml.Node, inSvg bool) {
		if n.Type == xhtml.ElementNode {
			switch {
			case n.Data == "svg" && !inSvg:
				e.kinds = append(e.kinds, "svg")
				e.payload = append(e.payload, nil)
				inSvg = true
			case inSvg:
			case n.Data == "script":
				k := "script"
				for _, a := range n.Attr {
					if a.Key == "type" && strings.Contains(strings.ToLower(a.Val), "json") {
						k = "json"
					} else if a.Key == "type" && strings.Contains(strings.ToLower(a.Val), "template") {
						k = "template"
					}
				}
				e.kinds = append(e.kinds, k)
				e.payload = append(e.payload, text(n))
			case n.Data == "style" || n.Data == "textarea" || n.Data == "pre" || n.Data == "title":
				e.kinds = append(e.kinds, n.Data)
				e.payload = append(e.payload, text(n))
			}
		}
		for c := n.FirstChild; c != nil; c = c.NextSibling {
			walk(c, inSvg)
		}
	}
	walk(root, false)
	return e, true
}

// the text a reader sees outside raw-text elements (x/net/html), white space removed
func c09VisibleText(doc []byte) []byte {
	root, err := xhtml.Parse(bytes.NewReader(doc))
	if err != nil {
		return nil
	}
	var b bytes.Buffer
	var walk func(n *xhtml.Node)
	walk = func(n *xhtml.Node) {
		if n.Type == xhtml.ElementNode && (n.Data == "script" || n.Data == "style" || n.Data == "svg" || n.Data == "math") {
			return
		}
		if n.Type == xhtml.TextNode {
			b.WriteString(strings.Join(strings.Fields(n.Data), ""))
		}
		for c := n.FirstChild; c != nil; c = c.NextSibling {
			walk(c)
		}
	}
	walk(root)
	return b.Bytes()
}

// raw byte ranges of the top-level svg elements of an HTML document, by the x/net/html tokenizer
func c09SvgSegments(doc []byte) [][]byte {
	var segs [][]byte
	z := xhtml.NewTokenizer(bytes.NewReader(doc))
	depth, off, start := 0, 0, -1
	for {
		tt := z.Next()
		raw := z.Raw()
		if tt == xhtml.ErrorToken {
			return segs
		}
		if tt == xhtml.StartTagToken || tt == xhtml.EndTagToken {
			name, _ := z.TagName()
			if string(name) == "svg" {
				if tt == xhtml.StartTagToken {
					if depth == 0 {
						start = off
					}
					depth++
				} else if depth > 0 {
					depth--
					if depth == 0 {
						segs = append(segs, append([]byte(nil), doc[start:off+len(raw)]...))
					}
				}
			}
		}
		off += len(raw)
	}
}

func c09EmbedPieces(c *Ctx, docs []c09Doc, node *c09JS, maxPiece int) []c09Piece {
	var ps []c09Piece
	for _, d := range docs {
		if len(d.data) > maxPiece || strings.HasPrefix(d.name, "seed-") {
			continue
		}
		switch d.mt {
		case "text/css":
			if c09ReEndStyle.Match(d.data) || !c09CSSValid(d.data) {
				continue
			}
			ps = append(ps, c09Piece{"css", append(append([]byte("<style>"), d.data...), "</style>"...), d.data, true})
		case "application/javascript":
			if c09ReEndScript.Match(d.data) {
				continue
			}
			if ok, _ := node.valid(d.data); !ok {
				continue
			}
			ps = append(ps, c09Piece{"js", append(append([]byte("<script>"), d.data...), "</script>"...), d.data, true})
		case "application/json":
			if c09ReEndScript.Match(d.data) || !json.Valid(d.data) {
				continue
			}
			ps = append(ps, c09Piece{"json", append(append([]byte(`<script type="application/ld+json">`), d.data...), "</script>"...), d.data, true})
		case "image/svg+xml":
			seg := c09ReSvgRoot.Find(d.data)
			if seg == nil || !c09XMLValid(seg) || bytes.Contains(seg, []byte("<!ENTITY")) || bytes.Contains(seg, []byte("<![CDATA[")) {
				continue
			}
			ps = append(ps, c09Piece{"svg", seg, seg, false})
		}
	}
	return ps
}

// payloads that do not contain the end tag of their host element but whose MINIFIED form would (the sub-minifier removes the
// white space that kept `<` and `/tag` apart): K-C09-3, fixed in /repo by 1557146 (html.go re-reads `<tag>`+result+`</tag>` and
// keeps the original payload unless the result is read back as one text token) and a80add2 (js).  Regression inputs: they
// must pass every oracle of this stage.
var c09HostileCSS = []string{"a{b:< /style >}", "a{b:c}d{e:< /STYLE >;f:g}", "a{b:< /*x*/ /style >}"}
var c09HostileJS = []string{"x = a< /script >/.test(b)", "var y = b< /script\t>/i.exec(c)",
	"var re=/<!--<script>/;/* </script> */ f()", "/*! <!--<script > */var s=\"</script>\";f()", "var r2=/<!--<SCRIPT\\/>/i; // </script >\nf()"}

var c09AttrCSS = []string{"color:#ff0000;margin:0px 0px 0px 0px", `background:url("a b.png") no-repeat`, `font-family:"Times New Roman",serif`, `content:'"'`, `content:"'"`, "width:calc(100% - 10px)", `quotes:'<' '>'`, "--x: {a:b}", `background:url(data:image/png;base64,AAAA)`}
var c09AttrJS = []string{`return false`, `alert("a" + 'b')`, `x = a < b && c > d`, "f(`t${a}`)", `if (a) { b() } else { c() }`, `s = "</div>" + '&amp;'`, `javascript:void(0)`, `a = b ? "x" : 'y'`, `e = /"'/.test(s)`}
var c09Markup = []string{
	`<p class="a  b" id=x>Hello <b>w</b> &amp; <a href="http://x/y?a=1&amp;b=2">l</a> 1 &lt; 2 &gt; 0</p>`,
	`<ul><li>a</li> <li>b</li></ul><table><tr><td>1</td><td>2</td></tr></table>`,
	`<input type=text value="a&quot;b" disabled=disabled><img alt='it&#39;s' src=x.png>`,
	`<select><option value=1 selected>one</option><option>two</option></select>`,
	`<p>a<!-- plain comment --> b</p><div title="a=b">c</div><span title='a"b'>d</span><span title="a'b">e</span>`,
	`<math><mi>x</mi><mo>&lt;</mo><mn>1</mn></math>`,
	`<a href="https://example.com/a%20b?x=1&y=2#f">x</a><a href="javascript:f('a')">y</a>`,
}
var c09RCData = []string{
	"<textarea><script>alert(1)</script> &lt;/textarea&gt; </textarea>",
	"<pre>  a <b> b </b>\n\tc  </pre>",
	"<textarea> a  &amp;  b\n</textarea>",
	"<script type=\"text/template\"><div class=\"{{c}}\">  {{x}} </div></script>",
}
var c09Cond = []string{
	`<!--[if IE]><p class="a">x  y</p><![endif]-->`,
	`<!--[if lt IE 9]><script src="a.js"></script><![endif]-->`,
}

func c09EmbedStage(c *Ctx, docs []c09Doc, node *c09JS, m *minify.M) {
	st := c.R.StartStage("c09-embed-compose", "HTML host documents composed from real corpus/benchmark documents of every embedded language (style, classic/JSON script, inline svg, style=/on*= attributes, conditional comments, RCDATA look-alikes) around markup fragments; real html minifier with all sub-minifiers; x/net/html must find the same sequence of embedded elements, V8 / encoding/json / CSS balance / encoding/xml must accept every embedded payload of the output, RCDATA payloads byte-identical, second pass succeeds; non-trivial = at least three different embedded languages present and the output differs from the input; tags: embedded=<kind> per payload found in the OUTPUT, size class of the host document")
	defer st.End()
	pieces := c09EmbedPieces(c, docs, node, c.N(260000, 4000000))
	byKind := map[string][]c09Piece{}
	for _, p := range pieces {
		byKind[p.kind] = append(byKind[p.kind], p)
	}
	if len(byKind["css"]) == 0 || len(byKind["js"]) == 0 || len(byKind["svg"]) == 0 || len(byKind["json"]) == 0 {
		c.R.Note("c09-embed-compose: piece pool incomplete (css %d js %d svg %d json %d)", len(byKind["css"]), len(byKind["js"]), len(byKind["svg"]), len(byKind["json"]))
		return
	}
	nDocs := c.N(24, 400)
	budget := c.N(700000, 12000000) // bytes of host documents per document (upper bound)
	for k := 0; k < nDocs; k++ {
		r := c.Rng.Fork()
		var doc bytes.Buffer
		var want []string
		doc.WriteString("<!doctype html><html lang=en><head><meta charset=\"utf-8\"><title> C09  &amp; composed </title>")
		want = append(want, "title")
		nHead := 1 + r.Intn(3)
		nBody := 3 + r.Intn(c.N(8, 24))
		target := 20000 + r.Intn(budget)
		hostile := false
		add := func(p c09Piece) {
			doc.Write(p.html)
			switch p.kind {
			case "css":
				want = append(want, "style")
			case "js":
				want = append(want, "script")
			case "json":
				want = append(want, "json")
			case "svg":
				want = append(want, "svg")
			}
		}
		pick := func(kind string) c09Piece { l := byKind[kind]; return l[r.Intn(len(l))] }
		for i := 0; i < nHead; i++ {
			add(pick([]string{"css", "js", "json"}[r.Intn(3)]))
		}
		doc.WriteString("</head><body>")
		for i := 0; i < nBody && doc.Len() < target; i++ {
			switch r.Intn(10) {
			case 0, 1:
				add(pick("js"))
			case 2:
				add(pick("css"))
			case 3:
				add(pick("svg"))
			case 4:
				add(pick("json"))
			case 5:
				s := c09RCData[r.Intn(len(c09RCData))]
				doc.WriteString(s)
				switch {
				case strings.HasPrefix(s, "<textarea"):
					want = append(want, "textarea")
				case strings.HasPrefix(s, "<pre"):
					want = append(want, "pre")
				default:
					want = append(want, "template")
				}
			case 6:
				q := []string{`"`, `'`}[r.Intn(2)]
				css := c09AttrCSS[r.Intn(len(c09AttrCSS))]
				js := c09AttrJS[r.Intn(len(c09AttrJS))]
				// named references are decoded before the value reaches the sub-minifier; a NUMERIC reference to the attribute's own
				// quote character is not (observation, see docs/C09.md): such a host document may be rejected, which is counted
				numeric := r.Chance(20)
				esc := func(s string) string {
					s = strings.ReplaceAll(s, "&", "&amp;")
					if q == `"` {
						return strings.ReplaceAll(s, `"`, map[bool]string{true: "&#34;", false: "&quot;"}[numeric])
					}
					return strings.ReplaceAll(s, `'`, map[bool]string{true: "&#39;", false: "&apos;"}[numeric])
				}
				fmt.Fprintf(&doc, "<div style=%s%s%s onclick=%s%s%s>attr</div>", q, esc(css), q, q, esc(js), q)
			case 7:
				if r.Chance(50) {
					doc.WriteString(c09Cond[r.Intn(len(c09Cond))])
				} else if r.Bool() {
					add(c09Piece{"css", []byte("<style>" + c09HostileCSS[r.Intn(len(c09HostileCSS))] + "</style>"), nil, true})
					hostile = true
				} else {
					add(c09Piece{"js", []byte("<script>" + c09HostileJS[r.Intn(len(c09HostileJS))] + "</script>"), nil, true})
					hostile = true
				}
			default:
				doc.WriteString(c09Markup[r.Intn(len(c09Markup))])
			}
			if r.Chance(50) {
				doc.WriteString("\n  ")
			}
		}
		doc.WriteString("</body></html>")
		in := append([]byte(nil), doc.Bytes()...)
		name := fmt.Sprintf("composed-%d (%d bytes, embedded %s)", k, len(in), strings.Join(want, ","))
		fail := func(what, detail string, o []byte) {
			c.R.Add(h.Finding{Stage: st.Name, Kind: "fail", What: what, Input: name + " " + h.Q(trunc(in, 300)), Hex: h.Hex(trunc(in, 400000)), Config: "default", Impl: h.Q(trunc(o, 300)) + " " + detail})
		}
		// the reader must find the composed sequence in the INPUT (otherwise the composition itself is off: skip)
		ein, ok := c09ReadEmbedded(in)
		if !ok || !reflect.DeepEqual(ein.kinds, want) {
			st.Count(name, false)
			st.Tag("composition-not-read-back")
			continue
		}
		var out bytes.Buffer
		var err error
		if crash := h.Safely(180*time.Second, func() { err = m.Minify("text/html", &out, bytes.NewReader(append([]byte(nil), in...))) }); crash != "" {
			c.R.Add(h.Finding{Stage: st.Name, Kind: "crash", What: crash, Input: name, Hex: h.Hex(trunc(in, 400000)), Config: "default"})
			continue
		}
		if err != nil {
			// the property speaks about successful passes only: a rejected composition is counted, not reported
			st.Count(name, false)
			st.Tag("rejected")
			continue
		}
		o := append([]byte(nil), out.Bytes()...)
		langs := map[string]bool{}
		for _, k := range want {
			langs[k] = true
		}
		nl := 0
		for _, k := range []string{"style", "script", "json", "svg"} {
			if langs[k] {
				nl++
			}
		}
		st.Count(name, nl >= 3 && !bytes.Equal(o, in))
		switch {
		case len(in) >= 1000000:
			st.Tag("host>=1MB")
		case len(in) >= 100000:
			st.Tag("host>=100KB")
		default:
			st.Tag("host<100KB")
		}
		eout, ok := c09ReadEmbedded(o)
		if hostile {
			st.Tag("hazard=payload-minifies-to-host-end-tag")
		}
		if !ok || !reflect.DeepEqual(eout.kinds, ein.kinds) {
			fail("x/net/html finds a different sequence of embedded elements in the output", fmt.Sprintf("%v vs %v", ein.kinds, eout.kinds), o)
			continue
		}
		// what a reader sees as text outside script / style / svg / math is the same up to white space: a raw-text element or a
		// comment that ends early turns payload into visible text, an element that does not end swallows text
		if vi, vo := c09VisibleText(in), c09VisibleText(o); !bytes.Equal(vi, vo) {
			i := 0
			for i < len(vi) && i < len(vo) && vi[i] == vo[i] {
				i++
			}
			a := i - 40
			if a < 0 {
				a = 0
			}
			fail("the visible text of the output differs from the visible text of the input (white space ignored)", fmt.Sprintf("at %d: %s vs %s", i, h.Q(trunc(vi[a:], 120)), h.Q(trunc(vo[a:], 120))), o)
			continue
		}
		segsIn, segsOut := c09SvgSegments(in), c09SvgSegments(o)
		si := 0
		for i, kind := range eout.kinds {
			st.Tag("embedded=" + kind)
			p := eout.payload[i]
			switch kind {
			case "script":
				if ok, e := node.valid(p); !ok {
					fail("V8 rejects an embedded script of the output (it accepted the composed one)", fmt.Sprintf("#%d %s: %s", i, e, h.Q(trunc(p, 200))), o)
				}
			case "json":
				var a, b any
				if json.Unmarshal(ein.payload[i], &a) != nil {
					break
				}
				if json.Unmarshal(p, &b) != nil {
					fail("embedded JSON of the output is not valid JSON", fmt.Sprintf("#%d %s", i, h.Q(trunc(p, 200))), o)
				} else if !reflect.DeepEqual(a, b) && !bytes.Contains(ein.payload[i], []byte("e")) && !bytes.Contains(ein.payload[i], []byte("E")) {
					// numbers with exponents may lose float64 precision differently when respelled: compared only without exponents
					fail("embedded JSON of the output has a different value", fmt.Sprintf("#%d %s", i, h.Q(trunc(p, 200))), o)
				}
			case "style":
				if !c09CSSValid(p) {
					fail("embedded style sheet of the output is unbalanced (the composed one is balanced)", fmt.Sprintf("#%d %s", i, h.Q(trunc(p, 200))), o)
				}
			case "svg":
				if si < len(segsIn) && si < len(segsOut) {
					if c09XMLValid(segsIn[si]) && !c09XMLValid(segsOut[si]) {
						fail("inline svg of the output is not well-formed XML (the composed one is)", fmt.Sprintf("#%d %s", i, h.Q(trunc(segsOut[si], 200))), o)
					}
				} else {
					fail("inline svg of the output not found by the tokenizer", fmt.Sprintf("#%d", i), o)
				}
				si++
			case "textarea", "pre", "template":
				if !bytes.Equal(p, ein.payload[i]) {
					fail("payload of a "+kind+" element changed", fmt.Sprintf("#%d %s vs %s", i, h.Q(trunc(ein.payload[i], 120)), h.Q(trunc(p, 120))), o)
				}
			}
		}
		var out2 bytes.Buffer
		var err2 error
		if crash := h.Safely(180*time.Second, func() { err2 = m.Minify("text/html", &out2, bytes.NewReader(append([]byte(nil), o...))) }); crash != "" {
			fail("second pass "+crash, "", o)
			continue
		}
		if err2 != nil {
			fail("output of a successful pass is rejected by the same minifier", err2.Error(), o)
			continue
		}
		if bytes.Equal(out2.Bytes(), o) {
			st.Tag("second-pass=fixed-point")
		} else {
			st.Tag("second-pass=changes")
			// the second output must still carry the same embedded sequence
			if e2, ok := c09ReadEmbedded(out2.Bytes()); !ok || !reflect.DeepEqual(e2.kinds, ein.kinds) {
				fail("x/net/html finds a different sequence of embedded elements after the second pass", fmt.Sprintf("%v", e2.kinds), out2.Bytes())
			}
		}
	}
}

package main

// C04 — generators: declarations (property × value shapes) and whole stylesheets.

import (
	"fmt"
	"strings"


	"verifharness/h"
)

var c04Units = []string{"px", "mm", "q", "cm", "in", "pt", "pc", "ch", "em", "ex", "rem", "vh", "vw", "vmin", "vmax", "deg", "grad", "rad", "turn",
	"s", "ms", "fr", "dpi", "dpcm", "dppx", "hz", "khz", "x", "dvh", "lh", "cqw", "PX", "Em", "REM", "Q", "DEG", "e", "E", "ee"}

var c04Numbers = []string{"0", "1", "10", "100", "1000", "100000", "12", "0.5", ".5", "00.50", "1.0", "1.50", "0.0", "0.00", ".0", "00", "000", "-0", "+0", "-0.0", "+.0", "-1", "+1", "-.5", "+0.5", "1.25",
	"0.001", "0.0001", "0.00001", "123456", "1200", "120000", "1e3", "1E3", "1e+3", "1e-3", "1.5e3", "1.50e3", "15e-1", "0e0", "0e5", "0.0e5", "1e0", "1e1", "1.5e0", "1.5e10", "1e-10", "0.1e1", "100e-2", "5e-7", "9.99", "99.5", "255", "256", "50", "20", "33.3333"}

func c04Number(r *h.RNG) string {
	if r.Chance(75) {
		return r.Pick(c04Numbers)
	}
	var sb strings.Builder
	sb.WriteString(r.Pick([]string{"", "", "", "+", "-"}))
	ni := r.Intn(5)
	for k := 0; k < ni; k++ {
		sb.WriteByte("00123456789"[r.Intn(11)])
	}
	nf := r.Intn(5)
	if ni == 0 && nf == 0 {
		nf = 1
	}
	if nf > 0 {
		sb.WriteByte('.')
		for k := 0; k < nf; k++ {
			sb.WriteByte("00123456789"[r.Intn(11)])
		}
	}
	if r.Chance(25) {
		sb.WriteString(r.Pick([]string{"e", "E"}) + r.Pick([]string{"", "+", "-"}) + r.Pick([]string{"0", "1", "2", "3", "5", "10", "02"}))
	}
	return sb.String()
}

func c04Length(r *h.RNG) string {
	switch r.Intn(12) {
	case 0:
		return "0"
	case 1:
		return r.Pick([]string{"auto", "inherit", "var(--a)", "calc(1px + 2px)", "calc( 100% - 0px )", "min(0px,1em)", "env(safe-area-inset-top)", "thin", "medium"})
	case 2:
		return c04Number(r) + "%"
	default:
		return c04Number(r) + r.Pick(c04Units)
	}
}

// small pools make equalities likely
func c04Pool(r *h.RNG, n int, gen func(*h.RNG) string) []string {
	p := make([]string, n)
	for i := range p {
		p[i] = gen(r)
	}
	return p
}

var c04ColorNames = []string{"red", "RED", "Red", "black", "white", "blue", "navy", "fuchsia", "magenta", "aqua", "cyan", "gray", "grey", "darkgray", "darkgrey", "lightslategray", "rebeccapurple", "transparent", "currentcolor", "currentColor", "CURRENTCOLOR",
	"aliceblue", "yellow", "tan", "azure", "ivory", "gold", "orange", "darkblue", "mediumspringgreen", "lightgoldenrodyellow", "papayawhip", "peachpuff", "inherit", "initial", "foo", "none"}

func c04Hex(r *h.RNG) string {
	hexd := "0123456789abcdefABCDEF"
	pick := func() byte { return hexd[r.Intn(len(hexd))] }
	n := []int{3, 4, 6, 6, 6, 8, 8, 5, 7}[r.Intn(9)]
	b := make([]byte, n)
	mode := r.Intn(4)
	for i := range b {
		b[i] = pick()
		if mode <= 1 && i%2 == 1 && n >= 6 { // doubled digits
			b[i] = b[i-1]
		}
	}
	if n == 8 && r.Chance(60) {
		copy(b[6:], r.Pick([]string{"ff", "FF", "00", "fF", "80", "f0"}))
	}
	if r.Chance(25) {
		return "#" + r.Pick([]string{"ff0000", "f00", "FF0000", "000", "000000", "00000000", "0000", "fff", "ffffff", "FFFFFFFF", "808080", "c0c0c0", "000080", "ffa500", "f0f8ff", "800000", "008080", "663399", "ff00ff", "00ffff"})
	}
	return "#" + string(b)
}

func c04Chan(r *h.RNG, pct bool) string {
	if pct {
		return r.Pick([]string{"0%", "100%", "50%", "20%", "40%", "60%", "80%", "10%", "30%", "33%", "75%", "99%", "1%", "120%", "-5%", "12.5%", "0.0%", "100.0%"})
	}
	return r.Pick([]string{"0", "255", "128", "127", "1", "254", "51", "102", "153", "204", "17", "34", "170", "187", "300", "-5", "127.5", "0.4", "254.5", "255.0", "00", "1e2", "16", "15", "240"})
}

func c04Alpha(r *h.RNG) string {
	return r.Pick([]string{"1", "1.0", "0", "0.0", ".5", "0.5", "50%", "100%", "0%", "0.05", ".005", "0.001", "5%", "1%", "0.5%", ".10", ".055", "0.25", "25%", "2", "-1", "150%", ".99999", "0.999999", "1e-6", "10%", "90%", "0.9", "0.123"})
}

func c04ColorFunc(r *h.RNG) string {
	name := r.Pick([]string{"rgb", "rgba", "hsl", "hsla", "RGB", "Rgba", "HSL"})
	low := strings.ToLower(name)
	var a, b, cc string
	if strings.HasPrefix(low, "rgb") {
		pct := r.Chance(35)
		a, b, cc = c04Chan(r, pct), c04Chan(r, pct), c04Chan(r, pct)
		if r.Chance(5) {
			b = c04Chan(r, !pct)
		}
	} else {
		a = r.Pick([]string{"0", "120", "240", "360", "30", "60", "90", "180", "210", "300", "-120", "480", "45", "1", "359", "12.5", "0.0", "120deg", "0.5turn", "-700", "-400", "-361", "-360", "-1", "721", "800", "1085", "-1000"})
		b = r.Pick([]string{"0%", "100%", "50%", "25%", "75%", "10%", "33%", "120%"})
		cc = r.Pick([]string{"0%", "100%", "50%", "25%", "75%", "10%", "90%", "33%"})
		if r.Chance(4) {
			b = "50"
		}
	}
	withAlpha := r.Chance(50)
	switch r.Intn(10) {
	case 0, 1, 2: // modern syntax
		s := name + "(" + a + " " + b + " " + cc
		if withAlpha {
			s += r.Pick([]string{" / ", "/", " /", "/ "}) + c04Alpha(r)
		}
		return s + ")"
	case 3: // spaces
		s := name + "( " + a + " , " + b + " , " + cc
		if withAlpha {
			s += " , " + c04Alpha(r)
		}
		return s + " )"
	case 4:
		s := name + "(" + a + ", " + b + ", " + cc
		if withAlpha {
			s += ", " + c04Alpha(r)
		}
		return s + ")"
	default:
		s := name + "(" + a + "," + b + "," + cc
		if withAlpha {
			s += "," + c04Alpha(r)
		}
		return s + ")"
	}
}

func c04Color(r *h.RNG) string {
	switch r.Intn(10) {
	case 0, 1, 2:
		return r.Pick(c04ColorNames)
	case 3, 4, 5:
		return c04Hex(r)
	case 6, 7, 8:
		return c04ColorFunc(r)
	}
	return r.Pick([]string{"var(--c)", "color-mix(in srgb,red 50%,blue)", "hwb(0 0% 0%)", "#12", "#xyz", "#GGHHII"})
}

func c04String(r *h.RNG) string {
	q := r.Pick([]string{"\"", "'"})
	body := r.Pick([]string{"a", "A b", "Times New Roman", "serif", "Sans-Serif", "inherit", "a  b", " a", "a ", "3d", "-x", "--x", "_a", "a-b c_d", "Foo Default", "é", "a.b", "a,b", "", " ", "x y z", "Arial", "Helvetica Neue", "monospace", "Initial", "a\\\nb", "a\\\r\nb\\\nc", "\\31\\\n2", "\\31 2", "a\\41", "url(x)", "a)b", "it" + map[string]string{"\"": "'", "'": "\""}[q] + "s"})
	return q + body + q
}

func c04URL(r *h.RNG) string {
	return r.Pick([]string{"url(a.png)", "url( a.png )", "url(\"a.png\")", "url('a.png')", "url( \"a b.png\" )", "url('a)b.png')", "url(\"a(b.png\")", "url(\"long/path/to/image.png\")", "url( 'long/path/to/image.png' )",
		"url(\"data:image/png;base64,AAAA\")", "url(data:text/plain,hello%20world)", "url(\"\")", "url()", "url(\"a'b.png\")", "url('long path/x.png')", "URL(foo_bar_baz.png)", "url(\"foo\\\nbar_baz_quux.png\")"})
}

func c04Join(parts []string) string { return strings.Join(parts, " ") }

func c04Sep(r *h.RNG) string {
	return r.Pick([]string{" ", " ", " ", "  ", "\t", "\n", " /**/ ", "/**/"})
}

func c04JoinR(r *h.RNG, parts []string) string {
	var sb strings.Builder
	for i, p := range parts {
		if i > 0 {
			sb.WriteString(c04Sep(r))
		}
		sb.WriteString(p)
	}
	return sb.String()
}

func c04Layers(r *h.RNG, gen func(*h.RNG) string) string {
	n := []int{1, 1, 1, 1, 2, 2, 3}[r.Intn(7)]
	ls := make([]string, n)
	for i := range ls {
		ls[i] = gen(r)
	}
	return strings.Join(ls, r.Pick([]string{",", ", ", " , ", " ,"}))
}

func c04BgPosLayer(r *h.RNG) string {
	kw := []string{"left", "right", "top", "bottom", "center", "LEFT", "Center"}
	off := []string{"0", "0%", "50%", "100%", "10%", "25%", "5px", "0px", "-5px", "1em", "10.5%", ".5%", "0.0%", "50.0%", "-10%", "120%", "calc(1px + 2px)", "var(--x)", "1e1%", "100.0%"}
	n := 1 + r.Intn(4)
	parts := make([]string, n)
	if r.Chance(70) { // grammatical shapes
		h1 := r.Pick([]string{"left", "right", "center"})
		v1 := r.Pick([]string{"top", "bottom", "center"})
		switch n {
		case 1:
			parts[0] = r.Pick(append(kw[:5], off...))
		case 2:
			a, b := r.Pick(append([]string{h1}, off...)), r.Pick(append([]string{v1}, off...))
			if r.Chance(30) {
				a, b = h1, v1
				if r.Chance(50) {
					a, b = b, a
				}
			}
			parts[0], parts[1] = a, b
		case 3:
			if r.Chance(50) {
				parts = []string{r.Pick([]string{"left", "right"}), r.Pick(off), v1}
			} else {
				parts = []string{h1, r.Pick([]string{"top", "bottom"}), r.Pick(off)}
			}
			if r.Chance(30) {
				if parts[2] == v1 {
					parts = []string{r.Pick([]string{"top", "bottom"}), r.Pick(off), h1}
				} else {
					parts = []string{v1, r.Pick([]string{"left", "right"}), r.Pick(off)}
				}
			}
		case 4:
			parts = []string{r.Pick([]string{"left", "right"}), r.Pick(off), r.Pick([]string{"top", "bottom"}), r.Pick(off)}
			if r.Chance(30) {
				parts[0], parts[1], parts[2], parts[3] = parts[2], parts[3], parts[0], parts[1]
			}
		}
		return c04Join(parts)
	}
	for i := range parts {
		if r.Chance(50) {
			parts[i] = r.Pick(kw)
		} else {
			parts[i] = r.Pick(off)
		}
	}
	return c04Join(parts)
}

func c04FamilyItem(r *h.RNG) string {
	switch r.Intn(6) {
	case 0, 1, 2:
		return c04String(r)
	case 3:
		return r.Pick([]string{"serif", "sans-serif", "Arial", "Helvetica Neue", "Times New Roman", "inherit", "-apple-system", "system-ui", "a b  c", "a\\31  b", "x\\41 y", "f\\6f o"})
	}
	return r.Pick([]string{"monospace", "Georgia", "var(--f)", "\"Font Awesome 5 Free\"", "'Segoe UI'", "\"3rd\"", "\"A\"", "\"a-\"", "\"-\"", "\"--a\"", "\"a b-\""})
}

func c04URangeItem(r *h.RNG) string {
	hx := func(max int) string { return fmt.Sprintf(r.Pick([]string{"%X", "%x", "%04X", "%06x"}), r.Intn(max)) }
	switch r.Intn(8) {
	case 0:
		return "U+" + hx(0x300)
	case 1:
		a, b := r.Intn(0x300), r.Intn(0x300)
		if a > b && r.Chance(90) {
			a, b = b, a
		}
		return fmt.Sprintf("U+%X-%X", a, b)
	case 2:
		return r.Pick([]string{"U+0-7F", "U+80-FF", "U+0-10FFFF", "U+??????", "U+0-FFFFFF", "U+1?????", "U+0000-00FF", "u+0-7f", "U+100-17F", "U+0100-024F", "U+00-FF"})
	case 3:
		return "U+" + r.Pick([]string{"4??", "??", "?", "1?", "10??", "0??", "00?", "F???", "10????", "1?????"})
	case 4:
		a := r.Intn(0x20) * 16
		return fmt.Sprintf("U+%X-%X", a, a+15+16*r.Intn(3))
	case 5:
		a := r.Intn(0x110000)
		return fmt.Sprintf("U+%X-%X", a, a+r.Intn(0x1000))
	}
	a := r.Intn(0x40)
	return fmt.Sprintf("U+%X-%X", a, a+r.Intn(0x40))
}

type c04Shape struct {
	props []string
	tag   string
	gen   func(r *h.RNG) string
}

func c04Shapes() []c04Shape {
	lenPool := func(r *h.RNG, n int) string {
		pool := c04Pool(r, 2, c04Length)
		parts := make([]string, n)
		for i := range parts {
			parts[i] = r.Pick(pool)
			if r.Chance(10) {
				parts[i] = c04Length(r)
			}
		}
		return c04JoinR(r, parts)
	}
	return []c04Shape{
		{[]string{"margin", "padding", "border-width", "MARGIN", "-webkit-margin", "*margin", "border-radius", "border-style", "inset"}, "sides", func(r *h.RNG) string {
			return lenPool(r, 1+r.Intn(5))
		}},
		{[]string{"margin", "padding", "border-width"}, "sides-zero", func(r *h.RNG) string {
			zs := []string{"0", "0px", "0em", "0%", "0.0px", "-0", "0pt", "+0px", "0E0px", "0.0em", "00px"}
			n := 1 + r.Intn(4)
			parts := make([]string, n)
			for i := range parts {
				parts[i] = r.Pick(zs)
			}
			return c04Join(parts)
		}},
		{[]string{"width", "height", "top", "line-height", "font-size", "letter-spacing", "opacity", "z-index", "orphans", "widows", "counter-increment", "counter-reset", "flex", "rotate", "transition-delay", "grid-template-columns", "stroke-width", "order", "--len", "word-spacing"}, "numeric", func(r *h.RNG) string {
			switch r.Intn(6) {
			case 0:
				return c04Number(r)
			case 1:
				return c04Number(r) + "%"
			case 2:
				return r.Pick([]string{"name ", ""}) + c04Number(r)
			}
			return c04Number(r) + r.Pick(c04Units)
		}},
		{[]string{"transform", "width", "filter", "background-image", "grid-template-columns", "transition", "animation", "clip-path", "content", "src", "cursor"}, "functions", func(r *h.RNG) string {
			L := func() string { return c04Number(r) + r.Pick(c04Units) }
			switch r.Intn(16) {
			case 0:
				return "translate(" + L() + "," + L() + ")" + r.Pick([]string{" ", ""}) + "rotate(" + c04Number(r) + r.Pick([]string{"deg", "turn", "rad", ""}) + ")"
			case 1:
				return "calc(" + L() + r.Pick([]string{" + ", " - ", "*", " * ", "/"}) + r.Pick([]string{L(), c04Number(r)}) + ")"
			case 2:
				return r.Pick([]string{"min", "max", "clamp", "hypot", "abs", "minmax", "fit-content", "repeat", "rotate", "skew", "hue-rotate", "blur", "steps", "cubic-bezier", "var", "attr", "env", "MIN", "Calc"}) + "(" + L() + r.Pick([]string{"", "," + L(), ", " + c04Number(r), " " + L()}) + ")"
			case 3:
				return "linear-gradient(" + r.Pick([]string{"0deg", "90deg", "to right", "0.5turn", "0"}) + "," + c04Color(r) + " " + c04Number(r) + "%," + c04Color(r) + ")"
			case 4:
				return r.Pick([]string{"all", "opacity", "width"}) + " " + c04Number(r) + r.Pick([]string{"s", "ms"}) + " " + r.Pick([]string{"ease", "linear", "cubic-bezier(0.10,0.70,1.0,0.1)", "steps(4,end)"}) + r.Pick([]string{"", " 0s", " 0ms", " 1.50s"})
			case 5:
				return c04URL(r)
			case 6:
				return c04URL(r) + r.Pick([]string{" ", ""}) + "format(" + c04String(r) + ")" + r.Pick([]string{"", ",local(\"Foo Bar\")", ",local(Foo)"})
			case 7:
				return c04String(r)
			case 8:
				return c04String(r) + " " + r.Pick([]string{"counter(x)", "attr(title)", "\"b\"", "open-quote"})
			case 9:
				return "calc((" + L() + " + " + L() + ")*" + c04Number(r) + ")"
			case 10:
				return "var(--a," + r.Pick([]string{L(), c04Number(r) + "+" + c04Number(r), " " + L(), c04Color(r)}) + ")"
			case 11:
				return "foo(" + c04Number(r) + r.Pick([]string{"+", "-", " ", ","}) + c04Number(r) + ")"
			case 12:
				return "drop-shadow(" + L() + " " + L() + " " + L() + " " + c04Color(r) + ")"
			case 13:
				return "polygon(" + c04Number(r) + "% " + L() + "," + L() + " " + c04Number(r) + "%)"
			case 14:
				return r.Pick([]string{"progid:DXImageTransform.Microsoft.Alpha(Opacity=50)", "alpha(opacity=50)", "expression(this.x)", "a/b", "1px/2px", "1 / *", "c / *d", "foo(1 / *2)", "1 / 2 / 3", "span 1 / * / 2", "*/ *x", "[a] 1fr [b]", "{a}", "(1px)", "a=b", "a:b"})
			}
			return "rgb(" + c04Number(r) + "," + c04Number(r) + "," + c04Number(r) + ")"
		}},
		{[]string{"color", "background-color", "border-top-color", "border-left-color", "text-decoration-color", "text-emphasis-color", "caret-color", "outline-color", "fill", "stroke", "stop-color", "COLOR", "-webkit-text-fill-color", "column-rule-color"}, "color", c04Color},
		{[]string{"border-color"}, "border-color", func(r *h.RNG) string {
			pool := c04Pool(r, 2, c04Color)
			n := 1 + r.Intn(4)
			parts := make([]string, n)
			for i := range parts {
				parts[i] = r.Pick(pool)
			}
			return c04JoinR(r, parts)
		}},
		{[]string{"border", "border-top", "border-bottom", "border-left", "border-right", "outline", "column-rule", "text-decoration", "text-emphasis"}, "line", func(r *h.RNG) string {
			pool := []string{"none", "medium", "currentcolor", "solid", "invert", "NONE", "Medium", "1px", "0", "0px", "thin", "dotted", "underline", "line-through", "wavy", "red", "#ff0000", "#FFF", "rgba(0,0,0,.5)", "black", "inherit", "initial", "filled", "dot", "2px", "transparent", "auto", "hidden", "var(--b)"}
			n := 1 + r.Intn(4)
			parts := make([]string, n)
			for i := range parts {
				parts[i] = r.Pick(pool)
			}
			return c04JoinR(r, parts)
		}},
		{[]string{"font-weight"}, "font-weight", func(r *h.RNG) string {
			return r.Pick([]string{"normal", "bold", "NORMAL", "Bold", "bolder", "lighter", "400", "700", "100", "900", "400.0", "inherit", "initial", "normal bold", "var(--w)", "1e3", "550"})
		}},
		{[]string{"font-family"}, "font-family", func(r *h.RNG) string {
			return c04Layers(r, c04FamilyItem)
		}},
		{[]string{"unicode-range"}, "unicode-range", func(r *h.RNG) string {
			n := 1 + r.Intn(5)
			parts := make([]string, n)
			for i := range parts {
				parts[i] = c04URangeItem(r)
			}
			s := strings.Join(parts, r.Pick([]string{",", ", "}))
			if r.Chance(3) {
				s = r.Pick([]string{"initial", "U+0-7F,foo", "inherit"})
			}
			return s
		}},
		{[]string{"background-position"}, "bg-position", func(r *h.RNG) string { return c04Layers(r, c04BgPosLayer) }},
		{[]string{"background-size"}, "bg-size", func(r *h.RNG) string {
			return c04Layers(r, func(r *h.RNG) string {
				v := []string{"auto", "AUTO", "10px", "50%", "0", "0px", "cover", "contain", "calc(1px + 1%)", "1.0em"}
				if r.Chance(35) {
					return r.Pick(v)
				}
				return r.Pick(v) + " " + r.Pick(v)
			})
		}},
		{[]string{"background-repeat"}, "bg-repeat", func(r *h.RNG) string {
			return c04Layers(r, func(r *h.RNG) string {
				v := []string{"repeat", "no-repeat", "space", "round", "repeat-x", "repeat-y", "REPEAT", "No-Repeat", "foo", "bar", "inherit"}
				if r.Chance(30) {
					return r.Pick(v)
				}
				return r.Pick(v) + " " + r.Pick(v)
			})
		}},
		{[]string{"box-shadow", "text-shadow", "-webkit-box-shadow"}, "shadow", func(r *h.RNG) string {
			return c04Layers(r, func(r *h.RNG) string {
				if r.Chance(8) {
					return r.Pick([]string{"none", "initial", "inherit", "NONE"})
				}
				ls := []string{"0", "0px", "1px", "2px", "-1px", "0em", ".5em", "0.0px", "calc(1px + 1px)", "var(--s)", "3px", "0", "4px"}
				n := 2 + r.Intn(3)
				parts := []string{}
				if r.Chance(25) {
					parts = append(parts, "inset")
				}
				if r.Chance(25) {
					parts = append(parts, c04Color(r))
				}
				for i := 0; i < n; i++ {
					parts = append(parts, r.Pick(ls))
				}
				if r.Chance(50) {
					parts = append(parts, c04Color(r))
				}
				if r.Chance(10) {
					parts = append(parts, "inset")
				}
				return c04Join(parts)
			})
		}},
		{[]string{"flex"}, "flex", func(r *h.RNG) string {
			nums := []string{"0", "1", "2", "0.5", "1.0", "10", "00", "3"}
			basis := []string{"auto", "0", "0px", "0%", "10px", "50%", "content", "0em", "AUTO", "calc(1px)", "0.0px", "1e1px"}
			switch r.Intn(8) {
			case 0:
				return r.Pick([]string{"none", "auto", "initial", "inherit", "NONE"})
			case 1:
				return r.Pick(nums)
			case 2:
				return r.Pick(basis)
			case 3:
				return r.Pick(nums) + " " + r.Pick(nums)
			case 4:
				return r.Pick(nums) + " " + r.Pick(basis)
			}
			return r.Pick(nums) + " " + r.Pick(nums) + " " + r.Pick(basis)
		}},
		{[]string{"flex-basis", "order", "flex-grow", "flex-shrink"}, "flex-longhand", func(r *h.RNG) string {
			return r.Pick([]string{"initial", "INITIAL", "auto", "0", "0px", "0%", "1", "2", "10px", "inherit", "content", "0.0em", "-1", "1.50"})
		}},
		{[]string{"-ms-filter"}, "ms-filter", func(r *h.RNG) string {
			return r.Pick([]string{"\"progid:DXImageTransform.Microsoft.Alpha(Opacity=50)\"", "'progid:DXImageTransform.Microsoft.Alpha(Opacity=5)'", "\"alpha(opacity=50)\"", "\"progid:DXImageTransform.Microsoft.gradient(a=b)\"", "\"\""})
		}},
		{[]string{"--x", "--Foo", "--a-b"}, "custom", func(r *h.RNG) string {
			return r.Pick([]string{" #FF0000 ", "0px", " 1.0  2.0 ", "", " ", "{a:b}", "red", "calc( 1px + 0px )", "'x'", "url( a )", "  a  b  "})
		}},
		// shorthands outside the model: judged by the generic comparison only
		{[]string{"font", "background"}, "unmodelled-shorthand", func(r *h.RNG) string {
			return r.Pick([]string{"12px/1.5 a", "bold 12px \"A B\",serif", "italic 1.0em a", "caption", "red", "#ff0000", "url(a.png) no-repeat", "none", "0 0", "#FFF url(a.png) 0px 0px"})
		}},
	}
}

var c04Fixed = []c04Case{
	{prop: "background-position", value: "right 10% bottom 20%", inline: true},  // F01 (fixed): must denote (90%, 80%)
	{prop: "background-position", value: "right 10% bottom 20%", inline: false}, // F01
	{prop: "background-position", value: "right 10% bottom 20%", inline: false, css2: true},
	{prop: "background-position", value: "left 10% bottom 20%"},
	{prop: "background-position", value: "bottom 20% right 10%"},
	{prop: "margin", value: "1px 1px 1px 1px"},
	{prop: "color", value: "#aabbccdd"},
	{prop: "color", value: "rgba(255,0,0,1)"},
	{prop: "unicode-range", value: "U+0-7F,U+80-FF"},
	{prop: "flex", value: "1 1 0%"},
	{prop: "width", value: "0.0em"},
	{prop: "width", value: "0.0rem"},
	// fixed findings (commits cdc67a2, 32210ae, ddd07ad+30f2f83, 5361331, 6e2925f, e7baddf): must pass
	{prop: "background-position", value: "right 10.5% bottom 20%", inline: true},
	{prop: "background-position", value: "right .5% bottom 20%"},
	{prop: "background-position", value: "0 0,0 0,left 5px top 3px", inline: true},
	{prop: "background-position", value: "0,0,left 5px top"},
	{prop: "width", value: "1.5e10px", css2: true},
	{prop: "width", value: "0e5px", css2: true},
	{prop: "width", value: "1.5e0px", css2: true},
	{prop: "border-style", value: "0.1e1ex", css2: true}, // 30f2f83: a leading zero of an unminified lexeme is not "zero"
	{prop: "padding", value: "00.6285e-10em", css2: true},
	{prop: "inset", value: "0.1e1PX", css2: true, inline: true},
	{prop: "unicode-range", value: "U+5-3", inline: true},
	{prop: "unicode-range", value: "U+0-10FFFF,U+6-1D,U+12-42", inline: true},
	{prop: "unicode-range", value: "U+6-1D,U+12-42,U+17-4B"},
	{prop: "b", value: "c / *d"},
	{prop: "b", value: "1 / *"},
	{prop: "b", value: "*/ *x"},
	{prop: "b", value: "foo(1 / *2)"},
	// b69fe55 K09, 7dece89 K04, 8662e59 K05, f9619c5 K12, 42934f1 K08
	{prop: "line-height", value: "var(--a,1+2)"},
	{prop: "grid-template-columns", value: "foo(1E3-0.00)"},
	{prop: "transition", value: "foo(123456++08)", inline: true},
	{prop: "width", value: "calc(0%-0px)"},
	{prop: "width", value: "calc(2*+3px)"},
	{prop: "rotate", value: "0deg"},
	{prop: "font-style", value: "oblique 0deg", css2: true},
	{prop: "transform", value: "rotate(0deg) translate(0px,0px) skewX(0rad)"},
	{prop: "offset-path", value: "ray(0deg closest-side)"},
	{prop: "filter", value: "hue-rotate(0deg)"},
	{prop: "width", value: "hypot(0px,3px)"},
	{prop: "width", value: "calc(1px + abs(0px))", inline: true},
	{prop: "color", value: "rgb(255,0%,0)"},
	{prop: "color", value: "rgb(255 0% 0)"},
	{prop: "color", value: "rgb(1,2,3,)"},
	{prop: "color", value: "hsl(50,10,10)"},
	{prop: "width", value: "1x000"},
	{prop: "width", value: "1px\\000"},
	{prop: "width", value: "100PX\\9", css2: true},
	// a933f35: a hexadecimal escape is terminated by the white space that follows it
	{prop: "font-family", value: "a\\31  b,c"},
	{prop: "animation-name", value: "x\\41 y"},
	{prop: "content", value: "\"\\31\\\n2\""},
	{prop: "x", value: "a\\31  (b)"},
	{prop: "grid-area", value: "\\31 a / b\\32  c"},
	{prop: "width", value: "foo(1.0.5)"},
	{prop: "width", value: "foo(a1.0)"},
	{prop: "width", value: "foo(8.24E3-255)"},
	{prop: "transform", value: "foo(1e1-+0.5)"},
	{prop: "background", value: "linear-gradient(rgb(255,0,0)10%,blue)"},
	// shapes the seeded changes of this property aim at
	{prop: "box-shadow", value: "1px 2px 0 3px red"},
	{prop: "box-shadow", value: "1px 2px 0px 3px,inset 0 0 0 1px #000"},
	{prop: "color", value: "hsl(-700,100%,50%)"},
	{prop: "color", value: "hsl(-400,100%,25%)"},
	{prop: "color", value: "hsl(800,100%,50%)"},
	{prop: "color", value: "hsla(-725,50%,25%,1)"},
}

// c04FixedSheets: whole style sheets of fixed findings; the structure check must pass
var c04FixedSheets = []string{"a{b:c / *d;e:f}g{h:i}", "a{b:1 / *}g{h:i}", "a{b:foo(bar(1)/ *2)}g{h:i}"}

func c04Decl(c *Ctx) error {
	st := c.R.StartStage("decl", "fixed regression corpus, then generated declarations: every modelled property x value shapes (numbers in every notation x all units, 1-4 sides, colours as hex/name/rgb()/hsl(), line shorthands, font-weight/-family, unicode-range, background-position/-size/-repeat layers, shadows, flex, functions, strings, url(), custom properties, vendor prefixes, IE hacks, !important spellings) x stylesheet/inline mode x KeepCSS2 on/off, Precision 0; real css.Minify bytes vs model.c04.decl and, independently, spec.c04.holds on the re-parsed real output; non-trivial = the minifier changed the text")
	var cases []c04Case
	for _, k := range c04Fixed {
		k.tag = "fixed"
		cases = append(cases, k)
	}
	shapes := c04Shapes()
	per := c.N(6000, 60000)
	if c.Search {
		per *= 3
	}
	imps := []string{"", "", "", "", "", "!important", " !important", " ! important", "!IMPORTANT", " !Important"}
	for _, sh := range shapes {
		for i := 0; i < per; i++ {
			r := c.Rng.Fork()
			k := c04Case{prop: r.Pick(sh.props), value: sh.gen(r), important: r.Pick(imps), inline: r.Chance(30), css2: r.Chance(35), tag: sh.tag}
			if i < len(sh.props) {
				k.prop = sh.props[i]
			}
			if r.Chance(8) {
				k.value = r.Pick([]string{" ", "  ", "\n"}) + k.value + r.Pick([]string{" ", "", " ;"})
			}
			cases = append(cases, k)
		}
	}
	err := c04RunCases(c, st, cases, true)
	st.End()
	return err
}

// c04BgPos enumerates every background-position layer of 1-4 tokens over the five keywords and one representative of
// every offset class the code distinguishes (zero number / zero percentage / zero length, 50%, 100%, whole percentage,
// fractional percentage, negative percentage, length, function), in both modes of KeepCSS2.
func c04BgPos(c *Ctx) error {
	st := c.R.StartStage("bgpos", "exhaustive: every background-position layer of 1-4 tokens over {left,right,top,bottom,center} and 11 offset representatives (0, 0%, 0px, 50%, 100%, 10%, 10.5%, -5%, 5px, calc(1px + 2px), 50.0%), plus every two-layer value built from a fixed set of 24 layers; real css.Minify vs model.c04.decl (structured branch for valid positions, index-faithful branch otherwise) and spec.c04.holds; non-trivial = the minifier changed the text")
	st.Exhaustive = true
	alpha := []string{"left", "right", "top", "bottom", "center", "0", "0%", "0px", "50%", "100%", "10%", "10.5%", "-5%", "5px", "calc(1px + 2px)", "50.0%"}
	var cases []c04Case
	var rec func(prefix []string, n int)
	rec = func(prefix []string, n int) {
		if len(prefix) > 0 {
			cases = append(cases, c04Case{prop: "background-position", value: strings.Join(prefix, " "), tag: fmt.Sprintf("len%d", len(prefix))})
		}
		if n == 0 {
			return
		}
		for _, a := range alpha {
			rec(append(append([]string{}, prefix...), a), n-1)
		}
	}
	rec(nil, 4)
	layers := []string{"0", "0 0", "top", "left", "center", "right bottom", "left 5px top", "left 5px top 3px", "right 10% bottom 20%", "right 5px bottom 3px", "center top 0", "left 0 top 0",
		"50% 50%", "0% 0%", "bottom 10% right", "center bottom 5%", "right 0 center", "10px", "top left", "calc(1px + 2px) 0px", "right 10.5% bottom 20%", "left 0 bottom", "center", "100% 0"}
	for _, a := range layers {
		for _, b := range layers {
			cases = append(cases, c04Case{prop: "background-position", value: a + "," + b, tag: "layers2", css2: len(a)%2 == 0})
		}
	}
	err := c04RunCases(c, st, cases, true)
	st.End()
	return err
}

// ---------- whole stylesheets ----------

func c04Selector(r *h.RNG) string {
	simple := []string{"a", "A", "DIV", "div", "p", "*", ".Foo", ".foo-Bar", "#Id", "#main", "a:hover", "A:HOVER", "a::BEFORE", "li:nth-child(2n+1)", "LI:Nth-Child( 2N + 1 )", "a:not(.B)", "[href]", "[HREF]", "a[href=\"x\"]", "a[Title='Y z']", "a[data-x=\"Y\" i]", "a[data-x='y' I]", "a[x|=\"en\"]", "input[type=text]", "svg|circle", "linearGradient", "foreignObject", "h1.Title", "ul>li", "a:is(B,C)", "::selection", ":root", "tr:nth-of-type(odd)", "a[b=\"c d\"]", "a[b=\"1\"]"}
	n := 1 + r.Intn(3)
	parts := make([]string, n)
	for i := range parts {
		parts[i] = r.Pick(simple)
	}
	comb := []string{" ", " > ", ">", " + ", "~", " ~ ", "  "}
	var sb strings.Builder
	for i, p := range parts {
		if i > 0 {
			sb.WriteString(r.Pick(comb))
		}
		sb.WriteString(p)
	}
	return sb.String()
}

func c04DeclText(r *h.RNG, shapes []c04Shape) string {
	sh := shapes[r.Intn(len(shapes))]
	return r.Pick(sh.props) + r.Pick([]string{":", ": ", " : "}) + sh.gen(r) + r.Pick([]string{"", "", "", " !important"})
}

func c04Rule(r *h.RNG, shapes []c04Shape) string {
	ns := 1 + r.Intn(3)
	sels := make([]string, ns)
	for i := range sels {
		sels[i] = c04Selector(r)
	}
	nd := r.Intn(4)
	ds := make([]string, nd)
	for i := range ds {
		ds[i] = c04DeclText(r, shapes)
	}
	body := strings.Join(ds, r.Pick([]string{";", "; ", ";\n  ", ";;"}))
	if r.Chance(30) && nd > 0 {
		body += ";"
	}
	if r.Chance(10) {
		body = "/* c */" + body
	}
	return strings.Join(sels, r.Pick([]string{",", ", ", " ,\n"})) + r.Pick([]string{"{", " {", " {\n "}) + body + r.Pick([]string{"}", " }", "\n}"})
}

func c04Sheet(r *h.RNG, shapes []c04Shape, depth int) string {
	var sb strings.Builder
	n := 1 + r.Intn(4)
	for i := 0; i < n; i++ {
		switch k := r.Intn(14); {
		case k == 0 && depth == 0:
			sb.WriteString(r.Pick([]string{"@charset \"utf-8\";", "@import url(foo.css);", "@import url( \"foo.css\" ) screen;", "@import 'foo.css';", "@namespace svg url(http://www.w3.org/2000/svg);", "@import url(  foo.css  );"}))
		case k == 1 && depth < 2:
			sb.WriteString(r.Pick([]string{"@media screen", "@MEDIA Screen and (min-width:100PX)", "@media (max-width: 0px)", "@supports (display: grid)", "@media print , screen and (color)", "@document url(x)"}) + r.Pick([]string{"{", " {\n"}) + c04Sheet(r, shapes, depth+1) + "}")
		case k == 2:
			sb.WriteString("@font-face{" + "font-family:" + c04FamilyItem(r) + ";src:" + c04URL(r) + ";unicode-range:" + c04URangeItem(r) + "," + c04URangeItem(r) + "}")
		case k == 3:
			sb.WriteString(r.Pick([]string{"@keyframes X", "@-webkit-keyframes Spin"}) + "{" + r.Pick([]string{"from", "FROM", "0%", "0.0%"}) + "{" + c04DeclText(r, shapes) + "}" + r.Pick([]string{"to", "TO", "100%", "50.0%"}) + "{" + c04DeclText(r, shapes) + "}}")
		case k == 4:
			sb.WriteString(r.Pick([]string{"/* comment */", "/*! keep  me */", "/*# sourceMappingURL=x.map */", "<!--", "-->"}))
		case k == 5:
			sb.WriteString("@page :first{" + c04DeclText(r, shapes) + "}")
		default:
			sb.WriteString(c04Rule(r, shapes))
		}
		sb.WriteString(r.Pick([]string{"", "", "\n", " "}))
	}
	return sb.String()
}

type c04SheetCase struct {
	src  string
	css2 bool
	tag  string
}

func c04Sheets(c *Ctx) error {
	st := c.R.StartStage("sheet", "generated stylesheets: 1-4 top-level items (rules with 1-3 selectors incl. attribute strings, case variations, combinators; @media/@supports nesting <= 2; @font-face; @keyframes; @page; @import/@charset/@namespace; comments; CDO/CDC), declarations from the decl shapes; KeepCSS2 random; checked: same sequence of grammar events, equivalent selectors/preludes, same properties and !important, every declaration value through spec.c04.holds; non-trivial = output differs from input")
	shapes := c04Shapes()
	n := c.N(12000, 150000)
	var cases []c04SheetCase
	for i := 0; i < n+len(c04FixedSheets); i++ {
		r := c.Rng.Fork()
		src := c04Sheet(r, shapes, 0)
		css2 := r.Chance(30)
		if i < len(c04FixedSheets) {
			src = c04FixedSheets[i]
		}
		cases = append(cases, c04SheetCase{src: src, css2: css2})
	}
	err := c04RunSheets(c, st, cases, false)
	st.End()
	return err
}

// c04RunSheets: whole style sheets through the real code; structure of input vs output, every declaration value through
// the per-declaration oracle spec.c04.holds.  With alone=true (long sheets) additionally every distinct declaration is
// minified ALONE (`a{prop:value}`, fresh minifier): the value written for it inside the sheet must be the same bytes — what
// the code does to a declaration must not depend on the declarations before it — and the declaration alone goes through model
// and oracle like the cases of the decl stage.  At most three failing declarations and one such difference per sheet are listed.
func c04RunSheets(c *Ctx, st *h.Stage, cases []c04SheetCase, alone bool) error {
	type item struct {
		src, out string
		css2     bool
		pairs    []c04DeclPair
		known    []string
		first    int
	}
	var items []item
	var lines []string
	type aloneOut struct {
		val string
		ok  bool
	}
	aloneCache := map[string]aloneOut{}
	var diffs []h.Finding // listed after the failing inputs
	var aloneCases []c04Case
	clip := func(s string) string {
		if len(s) > 300 {
			return s[:300] + "…"
		}
		return s
	}
	for _, k := range cases {
		src, css2 := k.src, k.css2
		out, err, crash := c04Minify(src, false, css2)
		key := fmt.Sprintf("%q keepCSS2=%v", src, css2)
		if crash != "" {
			c.R.Add(h.Finding{Stage: st.Name, Kind: "crash", What: crash, Input: src, Hex: h.HexS(src), Config: fmt.Sprintf("KeepCSS2=%v", css2)})
			continue
		}
		if err != nil {
			st.Count(key, false)
			st.Tag("rejected")
			continue
		}
		inEv, perr := c04Parse(src, false)
		outEv, _ := c04Parse(out, false)
		st.Count(key, out != src)
		if k.tag != "" {
			st.Tag("shape=" + k.tag)
		}
		if perr {
			st.Tag("parse-error-passthrough")
		}
		pairs, problem := c04Structure(inEv, outEv)
		if problem != "" {
			if perr {
				// a parse error re-synchronises differently on the minified text: only reported when the input parses cleanly
				st.Tag("structure-differs-after-parse-error")
				continue
			}
			c.R.Add(h.Finding{Stage: st.Name, Kind: "fail", What: "structure: " + problem, Input: src, Hex: h.HexS(src), Config: fmt.Sprintf("KeepCSS2=%v", css2), Impl: out})
			continue
		}
		it := item{src: src, out: out, css2: css2, pairs: pairs, first: len(lines)}
		ndiff := 0
		for _, p := range pairs {
			it.known = append(it.known, c04Trigger(p.prop, p.in, css2))
			lines = append(lines, "spec.c04.holds "+h.HexS(p.prop)+" "+c04Groups(p.in)+" "+c04Groups(p.out))
			if !alone || perr || len(p.in) == 0 {
				continue
			}
			val := c04TokStr(p.in)
			ck := fmt.Sprintf("%v %s:%s", css2, p.prop, val)
			a, seen := aloneCache[ck]
			if !seen {
				asrc := "a{" + p.prop + ":" + val + "}"
				aout, aerr, acrash := c04Minify(asrc, false, css2)
				if aerr == nil && acrash == "" {
					aIn, aperr := c04Parse(asrc, false)
					aOut, _ := c04Parse(aout, false)
					if ap, prob := c04Structure(aIn, aOut); prob == "" && !aperr && len(ap) == 1 && ap[0].prop == p.prop && c04TokStr(ap[0].in) == val {
						a = aloneOut{c04TokStr(ap[0].out), true}
					}
				}
				aloneCache[ck] = a
				if a.ok && len(val) <= 4000 {
					aloneCases = append(aloneCases, c04Case{prop: p.prop, value: val, css2: css2, tag: "of-long-sheet"})
				}
			}
			if a.ok {
				st.Tag("alone=compared")
				if got := c04TokStr(p.out); got != a.val && ndiff < 1 {
					ndiff++
					diffs = append(diffs, h.Finding{Stage: st.Name, Kind: "diff", What: fmt.Sprintf("the value of a declaration is written differently inside the sheet than for the same declaration alone (fresh minifier, `a{…}`): %s: %q -> in the sheet %q, alone %q", p.prop, clip(val), clip(got), clip(a.val)), Input: src, Hex: h.HexS(src), Config: fmt.Sprintf("KeepCSS2=%v", css2), Impl: out})
				}
			}
		}
		items = append(items, it)
	}
	rep, err := h.Eval(lines)
	if err != nil {
		return err
	}
	for _, it := range items {
		nfail := 0
		for k, p := range it.pairs {
			b, ok, msg := h.DecodeReply(rep[it.first+k])
			if !ok {
				return fmt.Errorf("spec.c04.holds: %s", msg)
			}
			if string(b) == "1" {
				continue
			}
			if string(b) == "2" {
				st.Tag("oracle=not-judged")
				continue
			}
			if it.known[k] != "" {
				c.R.ExcludedKnown++
				st.Tag("known=" + it.known[k])
				continue
			}
			if nfail++; nfail > 3 {
				continue
			}
			c.R.Add(h.Finding{Stage: st.Name, Kind: "fail", What: fmt.Sprintf("value of %s changed: %q -> %q", p.prop, clip(c04TokStr(p.in)), clip(c04TokStr(p.out))), Input: it.src, Hex: h.HexS(it.src), Config: fmt.Sprintf("KeepCSS2=%v", it.css2), Impl: it.out})
		}
	}
	for _, f := range diffs {
		c04AddDiff(c, st, f)
	}
	if len(aloneCases) > 0 {
		return c04RunCases(c, st, aloneCases, true)
	}
	return nil
}

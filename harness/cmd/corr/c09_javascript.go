package main

// C09, JavaScript slice — token separation and re-acceptance of the real printer's output.
//
// For generated hazard programs, the corpus and the benchmark scripts: the REAL minifier (public API) is run; on its
// output `out`
//   (i)   the independent lexer of Spec/C09JsLex.lean (`spec.c09.js.lex`) must succeed and give the same tokens as
//         (a) acorn driven by its parser (node's bundled acorn: the parser-decided regex/division and template
//         goals) and (b) the dependency lexer parse/v2/js (regex decisions taken from the token kinds),
//   (ii)  re-emitting those tokens through the writer model (`model.c09.js.emit`) must give `out` back byte for byte;
//         every space of `out` is classified into a hazard class,
//   (iii) V8 accepts `out` whenever it accepts the input,
//   (iv)  the second pass succeeds (idempotence is only measured),
//   (v)   every string / template / regex token of `out` is embed-safe: no raw `</script`, and `<!--` only if the
//         input had it (`spec.c09.js.embed`), and string values are preserved (`spec.c09.js.strval`, V8 as oracle).

import (
	"bufio"
	"bytes"
	"encoding/json"
	"fmt"
	"io"
	"os"
	"os/exec"
	"path/filepath"
	"regexp"
	"sort"
	"strings"
	"time"

	"github.com/tdewolff/minify/v2"
	minjs "github.com/tdewolff/minify/v2/js"
	"github.com/tdewolff/parse/v2"
	pjs "github.com/tdewolff/parse/v2/js"

	"verifharness/h"
)

// ---------- node oracle: V8 syntax check + acorn tokens ----------

const c09JsNodeScript = `
const acorn = require('internal/deps/acorn/acorn/dist/acorn');
const vm = require('node:vm');
const readline = require('node:readline');
function v8ok(src) {
  try { new vm.Script(src); return [true, '']; } catch (e) {
    if (/import|export/.test(String(e.message))) {
      try { new vm.SourceTextModule(src); return [true, '']; } catch (e2) { return [false, String(e2.name + ': ' + e2.message)]; }
    }
    return [false, String(e.name + ': ' + e.message)];
  }
}
function tokens(src) {
  let raw = [], mode = 'script';
  try { acorn.parse(src, {ecmaVersion: 'latest', sourceType: 'script', onToken: raw, allowHashBang: true}); }
  catch (e) { raw = []; mode = 'module'; acorn.parse(src, {ecmaVersion: 'latest', sourceType: 'module', onToken: raw, allowHashBang: true}); }
  const out = []; const stack = []; let prevEnd = 0;
  const emit = (k, s, e) => { out.push([k, src.slice(s, e), /[\n\r\u2028\u2029]/.test(src.slice(prevEnd, s)) ? 1 : 0]); prevEnd = e; };
  let i = 0;
  const piece = (start) => { // raw[i] is the template content token
    let t = raw[i];
    if (t.type.label === 'template' || t.type.label === 'invalidTemplate') { i++; t = raw[i]; }
    if (t.type.label === '${') { emit('t', start, t.end); stack.push('S'); i++; }
    else if (t.type.label === '` + "`" + `') { emit('t', start, t.end); stack.pop(); i++; }
    else throw new Error('template structure');
  };
  while (i < raw.length) {
    const t = raw[i], lab = t.type.label;
    if (lab === 'eof') break;
    if (lab === '` + "`" + `') { stack.push('T'); i++; piece(t.start); continue; }
    if (lab === '{') { stack.push('B'); emit('p', t.start, t.end); i++; continue; }
    if (lab === '}') {
      if (stack[stack.length - 1] === 'S') { stack.pop(); i++; piece(t.start); continue; }
      stack.pop(); emit('p', t.start, t.end); i++; continue;
    }
    let k = 'p';
    if (lab === 'name' || t.type.keyword) k = 'n';
    else if (lab === 'privateId') k = 'h';
    else if (lab === 'num') k = 'd';
    else if (lab === 'string') k = 's';
    else if (lab === 'regexp') k = 'r';
    emit(k, t.start, t.end); i++;
  }
  return [mode, out];
}
const rl = readline.createInterface({ input: process.stdin, crlfDelay: Infinity });
(async () => {
for await (const line of rl) {
  if (!line.trim()) continue;
  let req; try { req = JSON.parse(line); } catch (e) { continue; }
  const res = { id: req.id };
  if (req.v8) { const [ok, err] = v8ok(req.src); res.ok = ok; res.err = err; }
  if (req.toks) { try { const [mode, t] = tokens(req.src); res.toks = t; res.mode = mode; } catch (e) { res.tokErr = String(e.message); } }
  if (req.run) { // run closed programs in fresh contexts, report the final value of result (or the error)
    res.runs = req.run.map(code => { try { const ctx = vm.createContext({});
      vm.runInContext(code, ctx, { timeout: 500 }); return 'v:' + JSON.stringify(vm.runInContext('typeof result === "undefined" ? null : result', ctx)); }
      catch (e) { return 'e:' + String(e && e.name); } });
  }
  if (req.strs) { // values of string literals: [[literal, ...]] -> UTF-16 code units as hex
    res.vals = req.strs.map(s => { try { const v = (0, eval)('(' + s + ')'); if (typeof v !== 'string') return null;
      let o = ''; for (let j = 0; j < v.length; j++) o += v.charCodeAt(j).toString(16).padStart(4, '0'); return o; } catch (e) { return null; } });
  }
  process.stdout.write(JSON.stringify(res) + '\n');
}
})();
`

type c09JsNode struct {
	cmd  *exec.Cmd
	in   io.WriteCloser
	out  *bufio.Scanner
	file string
}

type c09JsNodeRes struct {
	ID     int
	Ok     bool
	Err    string
	Toks   [][]any
	Mode   string
	TokErr string
	Vals   []*string
	Runs   []string
}

func c09JsStartNode() (*c09JsNode, error) {
	f, err := os.CreateTemp("", "c09js-*.cjs")
	if err != nil {
		return nil, err
	}
	f.WriteString(c09JsNodeScript)
	f.Close()
	cmd := exec.Command("node", "--expose-internals", "--experimental-vm-modules", "--no-warnings", "--stack-size=4000", f.Name())
	in, err := cmd.StdinPipe()
	if err != nil {
		return nil, err
	}
	outp, err := cmd.StdoutPipe()
	if err != nil {
		return nil, err
	}
	if err := cmd.Start(); err != nil {
		return nil, err
	}
	sc := bufio.NewScanner(outp)
	sc.Buffer(make([]byte, 1<<20), 1<<30)
	return &c09JsNode{cmd, in, sc, f.Name()}, nil
}

func (n *c09JsNode) close() {
	n.in.Close()
	n.cmd.Wait()
	os.Remove(n.file)
}

func (n *c09JsNode) ask(req map[string]any) (*c09JsNodeRes, error) {
	b, _ := json.Marshal(req)
	if _, err := n.in.Write(append(b, '\n')); err != nil {
		return nil, err
	}
	if !n.out.Scan() {
		return nil, fmt.Errorf("node died")
	}
	var r c09JsNodeRes
	if err := json.Unmarshal(n.out.Bytes(), &r); err != nil {
		return nil, err
	}
	return &r, nil
}

// ---------- tokens ----------

type c09JsTok struct {
	K    byte // n h d s t r p
	Text string
	NL   bool
}

func (t c09JsTok) String() string { return fmt.Sprintf("%c:%s", t.K, t.Text) }

func c09JsToksOfNode(r *c09JsNodeRes) []c09JsTok {
	var out []c09JsTok
	for _, t := range r.Toks {
		k, _ := t[0].(string)
		s, _ := t[1].(string)
		nl, _ := t[2].(float64)
		out = append(out, c09JsTok{k[0], s, nl != 0})
	}
	return out
}

func c09JsToksOfLean(reply string) ([]c09JsTok, string) {
	b, ok, msg := h.DecodeReply(reply)
	if !ok {
		return nil, msg
	}
	var out []c09JsTok
	for _, it := range h.DecodeListReply(b) {
		if len(it) < 2 {
			return nil, "short token"
		}
		out = append(out, c09JsTok{it[0], string(it[2:]), it[1] == '1'})
	}
	return out, ""
}

// the dependency lexer on src; at a `/` or `/=` the decision regex/division is taken from `kinds` (the token kinds of
// another lexer at the same index)
func c09JsToksOfDep(src []byte, kinds []c09JsTok) ([]c09JsTok, string) {
	l := pjs.NewLexer(parse.NewInputBytes(src))
	var out []c09JsTok
	nl := false
	for {
		tt, text := l.Next()
		switch {
		case tt == pjs.ErrorToken:
			if l.Err() == io.EOF {
				return out, ""
			}
			return out, fmt.Sprint(l.Err())
		case tt == pjs.WhitespaceToken || tt == pjs.CommentToken:
			continue
		case tt == pjs.LineTerminatorToken || tt == pjs.CommentLineTerminatorToken:
			nl = true
			continue
		}
		if (tt == pjs.DivToken || tt == pjs.DivEqToken) && len(out) < len(kinds) && kinds[len(out)].K == 'r' {
			tt, text = l.RegExp()
			if tt == pjs.ErrorToken {
				return out, fmt.Sprint(l.Err())
			}
		}
		k := byte('p')
		switch {
		case tt == pjs.StringToken:
			k = 's'
		case tt == pjs.TemplateToken || tt == pjs.TemplateStartToken || tt == pjs.TemplateMiddleToken || tt == pjs.TemplateEndToken:
			k = 't'
		case tt == pjs.RegExpToken:
			k = 'r'
		case tt == pjs.PrivateIdentifierToken:
			k = 'h'
		case pjs.IsNumeric(tt):
			k = 'd'
		case pjs.IsIdentifierName(tt):
			k = 'n'
		}
		out = append(out, c09JsTok{k, string(text), nl})
		nl = false
	}
}

func c09JsSameToks(a, b []c09JsTok, withNL bool) (bool, string) {
	n := len(a)
	if len(b) < n {
		n = len(b)
	}
	for i := 0; i < n; i++ {
		if a[i].K != b[i].K || a[i].Text != b[i].Text || (withNL && i > 0 && a[i].NL != b[i].NL) {
			return false, fmt.Sprintf("token %d: %v(nl=%v) vs %v(nl=%v)", i, a[i], a[i].NL, b[i], b[i].NL)
		}
	}
	if len(a) != len(b) {
		return false, fmt.Sprintf("%d vs %d tokens", len(a), len(b))
	}
	return true, ""
}

// ---------- positions of the tokens in the output, gaps between them ----------

type c09JsGap struct {
	A, B   int    // token indices (A = -1: before the first token)
	Text   string // the bytes between the two tokens
	PrevLt bool   // the token before A ends in `<`
}

// c09JsGaps locates the tokens in src (skipping white space and comments) and returns the non-empty gaps.
func c09JsGaps(src []byte, toks []c09JsTok) ([]c09JsGap, []int, bool) {
	pos := 0
	var gaps []c09JsGap
	starts := make([]int, len(toks))
	for i, t := range toks {
		start := pos
		for {
			if pos >= len(src) {
				return nil, nil, false
			}
			c := src[pos]
			if c == ' ' || c == '\t' || c == '\n' || c == '\r' || c == '\v' || c == '\f' {
				pos++
				continue
			}
			if c == '/' && pos+1 < len(src) && src[pos+1] == '*' {
				j := bytes.Index(src[pos+2:], []byte("*/"))
				if j < 0 {
					return nil, nil, false
				}
				pos += j + 4
				continue
			}
			if c == '/' && pos+1 < len(src) && src[pos+1] == '/' {
				j := bytes.IndexAny(src[pos:], "\n\r")
				if j < 0 {
					pos = len(src)
				} else {
					pos += j
				}
				continue
			}
			break
		}
		if !bytes.HasPrefix(src[pos:], []byte(t.Text)) {
			return nil, nil, false
		}
		if pos > start {
			g := c09JsGap{A: i - 1, B: i, Text: string(src[start:pos])}
			if i >= 2 && strings.HasSuffix(toks[i-2].Text, "<") {
				g.PrevLt = true
			}
			gaps = append(gaps, g)
		}
		starts[i] = pos
		pos += len(t.Text)
	}
	if pos < len(src) {
		rest := bytes.TrimLeft(src[pos:], " \t\n\r")
		if len(rest) > 0 && !(bytes.HasPrefix(rest, []byte("/*")) || bytes.HasPrefix(rest, []byte("//"))) {
			return nil, nil, false
		}
		gaps = append(gaps, c09JsGap{A: len(toks) - 1, B: len(toks), Text: string(src[pos:])})
	}
	return gaps, starts, true
}

// c09JsCommentsOf splits a gap that consists of comments only (`/* */`, `// …\n`) into its comments
func c09JsCommentsOf(gap string) ([]string, bool) {
	var out []string
	for len(gap) > 0 {
		switch {
		case strings.HasPrefix(gap, "/*"):
			j := strings.Index(gap[2:], "*/")
			if j < 0 {
				return nil, false
			}
			out = append(out, gap[:j+4])
			gap = gap[j+4:]
		case strings.HasPrefix(gap, "//"):
			j := strings.IndexByte(gap, '\n')
			if j < 0 {
				return nil, false
			}
			out = append(out, gap[:j])
			gap = gap[j+1:]
		default:
			return nil, false
		}
	}
	return out, len(out) > 0
}

// c09JsEmitRequest: the tokens of the output (with the kept comments as pseudo tokens) for `model.c09.js.emit`
func c09JsEmitRequest(toks []c09JsTok, gaps []c09JsGap) string {
	before := map[int][]string{}
	for _, g := range gaps {
		if cs, ok := c09JsCommentsOf(g.Text); ok {
			before[g.B] = cs
		}
	}
	var items [][]byte
	for i := 0; i <= len(toks); i++ {
		for _, c := range before[i] {
			items = append(items, append([]byte{'c'}, c...))
		}
		if i < len(toks) {
			items = append(items, append([]byte{toks[i].K}, toks[i].Text...))
		}
	}
	return "model.c09.js.emit " + h.List(items)
}

func c09JsIsIdByte(c byte) bool {
	return c >= 0x80 || c == '$' || c == '_' || c == '\\' || ('0' <= c && c <= '9') || ('a' <= c && c <= 'z') || ('A' <= c && c <= 'Z')
}

var c09JsSpaceKw = map[string]bool{"typeof": true, "void": true, "delete": true, "await": true, "in": true, "instanceof": true, "of": true,
	"return": true, "throw": true, "else": true, "do": true, "case": true, "new": true, "yield": true, "var": true, "let": true, "const": true,
	"function": true, "class": true, "extends": true, "static": true, "get": true, "set": true, "async": true, "default": true, "import": true,
	"export": true, "as": true, "from": true, "break": true, "continue": true}

// keywords after which an operand (not a template tag's template) follows
var c09JsOperandKw = map[string]bool{"typeof": true, "void": true, "delete": true, "in": true, "instanceof": true,
	"return": true, "throw": true, "else": true, "do": true, "case": true, "new": true, "default": true, "extends": true}

// c09JsClassifyGap names the hazard class that explains a single space between tokens a and b ("" = unexplained).
func c09JsClassifyGap(a, b c09JsTok, prevLt bool) string {
	la, fb := a.Text[len(a.Text)-1], b.Text[0]
	switch {
	case a.K == 'r' && b.K == 'n' && (b.Text == "in" || b.Text == "instanceof" || b.Text == "of"):
		return "regex-then-word"
	case a.K == 'p' && a.Text == "+" && fb == '+':
		return "plus-plus"
	case a.K == 'p' && a.Text == "-" && fb == '-':
		return "minus-minus"
	case a.K == 'p' && a.Text == "/" && fb == '/':
		return "div-regex"
	case a.K == 'p' && a.Text == "!" && prevLt && fb == '-':
		return "lt-not-decr"
	case la == '-' && b.K == 'p' && b.Text == ">":
		return "decr-gt"
	case la == '<' && b.K == 'r' && len(b.Text) >= 7 && strings.EqualFold(b.Text[1:7], "script"):
		return "lt-regex-script"
	case a.K == 'n' && a.Text == "as" && b.K == 's', a.K == 's' && b.K == 'n' && b.Text == "as":
		return "as-string"
	case a.K == 'n' && a.Text == "static" && b.K == 'd':
		return "static-number"
	case c09JsIsIdByte(la) && c09JsIsIdByte(fb):
		switch {
		case a.K == 'd':
			return "number-word"
		case b.K == 'd':
			return "word-number"
		case a.K == 'n' && c09JsSpaceKw[a.Text]:
			return "kw-" + a.Text
		case b.K == 'n' && (b.Text == "in" || b.Text == "instanceof" || b.Text == "of" || b.Text == "as" || b.Text == "from" || b.Text == "extends"):
			return "word-" + b.Text
		default:
			return "word-word"
		}
	}
	return ""
}

// no-space adjacencies worth counting: the printer decided that no separator is needed
func c09JsClassifyTight(a, b c09JsTok) string {
	switch {
	case a.K == 'p' && (a.Text == "++" || a.Text == "--") && b.K == 'p' && (b.Text == "+" || b.Text == "-"):
		return "tight-postfix-additive"
	case a.K == 'p' && (a.Text == "++" || a.Text == "--") && b.K == 'p' && strings.HasPrefix(b.Text, ">"):
		return "tight-decr-gt-other"
	case a.K == 'd' && b.K == 'p' && b.Text == ".":
		if strings.HasSuffix(a.Text, ".") {
			return "num-dot-dot"
		}
		return "num-dot-tight"
	case a.K == 'p' && a.Text == "?" && b.K == 'd' && b.Text[0] == '.':
		return "question-dotnumber"
	case a.K == 'n' && b.K == 'r':
		return "word-regex-tight"
	case a.K == 'n' && c09JsSpaceKw[a.Text] && !c09JsIsIdByte(b.Text[0]):
		return "kw-punct-tight"
	case a.K == 'p' && (a.Text == "/" || a.Text == "/=") && b.K != 'r':
		return "div-tight"
	case a.K == 'p' && a.Text == "<" && b.K == 'p' && b.Text == "!":
		return "lt-not"
	case a.K == 't' || b.K == 't':
		return "template-adjacent"
	case a.K == 'r':
		return "regex-then-punct"
	case b.K == 'r':
		return "punct-then-regex"
	}
	return ""
}

// ---------- generator of hazard programs ----------

type c09JsGen struct {
	r        *h.RNG
	n        int
	depth    int
	inGen    bool
	inAsync  bool
	inFunc   bool
	inLoop   bool
	inSwitch bool
	inClass  bool
	noIn     bool
	labels   []string
	module   bool
}

type c09JsE struct {
	s   string
	lvl int
}

const (
	c09lvExpr = iota
	c09lvAssign
	c09lvShort
	c09lvOr
	c09lvAnd
	c09lvBitOr
	c09lvBitXor
	c09lvBitAnd
	c09lvEq
	c09lvRel
	c09lvShift
	c09lvAdd
	c09lvMul
	c09lvExp
	c09lvUnary
	c09lvUpdate
	c09lvLHS
	c09lvCall
	c09lvNew
	c09lvMember
	c09lvPrimary
)

func (g *c09JsGen) pick(ss ...string) string { return ss[g.r.Intn(len(ss))] }

func (g *c09JsGen) fresh(p string) string { g.n++; return fmt.Sprintf("%s%d", p, g.n) }

func (g *c09JsGen) ident() string {
	return g.pick("a", "b", "c", "d", "x", "y", "$", "_", "a1", "of", "get", "set", "async", "static", "from", "as", "in1", "typeofx", "ab$", "é", "\\u0061b", "NaN", "undefined", "Infinity")
}

func (g *c09JsGen) number() string {
	return g.pick("0", "1", "5", "10", "1000", "100000", "1e3", "1E3", "1e21", "1e-7", "0.5", ".5", "5.", "5.0", "1.50", "0.001", "0.0000001",
		"0x10", "0XfF", "0b101", "0B11", "0o17", "0O7", "10n", "0n", "0x1Fn", "0b1n", "0o7n", "1_000", "1_0.0_1", "0xFFFFFFFFFFFFFF", "123456789012345678901234567890",
		"1e400", "9007199254740993", "2", "3", "255", "-1", "1e+3", "0e0", "0.0")
}

func (g *c09JsGen) str() string {
	return g.pick(`"a"`, `'a'`, `""`, `''`, `"a b"`, `'it\'s'`, `"say \"hi\""`, `'"'`, `"'"`, `"\n"`, `"a\nb\nc"`, `'\x41\u0042\u{43}'`, `"\0"`, `"\x00"`, `"\08"`, `"\1"`, `"\u2028"`,
		`"</script>"`, `'<\/script>'`, `"\x3c/script>"`, `"<\x2fscript>"`, `"<!--"`, `"<\!--"`, `"<\x21--"`, `"]]>"`, `"${a}"`, `'`+"`"+`'`, `"a\
b"`, `"\\"`, `"\\n"`, `'\
'`, `"é"`, `"\xe9"`, `"\u00e9"`, `"use strict"`, `"a-"`, `"/"`, `"<"`, `"</SCRIPT"`, `"<\/scr\ipt>"`, `"\74/script"`, `"</scrip\x74>"`, `"-->"`, `"\055->"`)
}

func (g *c09JsGen) regex() string {
	return g.pick(`/re/`, `/re/g`, `/[/]/`, `/\//`, `/a/gimsuy`, `/[\]/]/`, `/=/`, `/=a/`, `/script>/`, `/script/`, `/SCRIPT>/i`, `/<\/script>/`, `/a*/`, `/(?<n>a)\k<n>/u`, `/\p{L}/u`, `/\-/`, `/[a\-z]/`, `/ /`, `/\d+/`)
}

func (g *c09JsGen) template() string {
	if g.depth > 3 || g.r.Chance(50) {
		return g.pick("`a`", "``", "`$`", "`$$`", "`\\``", "`a\\${b}`", "`a\nb`", "`\\n`", "`</script>`", "`<\\/script>`", "`</scrip\\x74>`", "`<!--`", "`a}b`", "`{`", "`\\u0041`", "`'\"`")
	}
	s := "`" + g.pick("", "a", "}", "$", "</script") + "${" + g.expr(c09lvExpr).s + "}"
	if g.r.Chance(40) {
		s += g.pick("", "b", "{") + "${" + g.expr(c09lvExpr).s + "}"
	}
	return s + g.pick("", "c") + "`"
}

func (g *c09JsGen) sub(min int) string {
	e := g.expr(min)
	if e.lvl < min {
		return "(" + e.s + ")"
	}
	if g.r.Chance(4) {
		return "(" + e.s + ")"
	}
	return e.s
}

// member access on e: a plain decimal integer literal at the end of e needs `..`, ` .` or parentheses
func (g *c09JsGen) dot(e, name string) string {
	i := len(e)
	for i > 0 && e[i-1] >= '0' && e[i-1] <= '9' {
		i--
	}
	isExp := i >= 3 && i < len(e) && (e[i-1] == '+' || e[i-1] == '-') && (e[i-2] == 'e' || e[i-2] == 'E') && e[i-3] >= '0' && e[i-3] <= '9'
	if i < len(e) && !isExp && (i == 0 || !c09JsIsIdByte(e[i-1]) && e[i-1] != '.') {
		switch g.r.Intn(3) {
		case 0:
			return e + ".." + name
		case 1:
			return e + " ." + name
		default:
			return "(" + e + ")." + name
		}
	}
	return e + "." + name
}

func (g *c09JsGen) args() string {
	n := g.r.Intn(3)
	var parts []string
	for i := 0; i < n; i++ {
		a := g.sub(c09lvAssign)
		if g.r.Chance(10) {
			a = "..." + a
		}
		parts = append(parts, a)
	}
	return "(" + strings.Join(parts, ",") + ")"
}

func (g *c09JsGen) target() string {
	switch g.r.Intn(4) {
	case 0:
		return g.pick("a", "b", "x", "y")
	case 1:
		return g.dot(g.sub(c09lvCall), g.pick("p", "q", "in", "typeof", "if"))
	case 2:
		return g.sub(c09lvCall) + "[" + g.expr(c09lvExpr).s + "]"
	default:
		return g.pick("a", "b") + "." + g.pick("p", "q")
	}
}

func (g *c09JsGen) params() string {
	switch g.r.Intn(6) {
	case 0:
		return "()"
	case 1:
		return "(p)"
	case 2:
		return "(p,q)"
	case 3:
		return "(p=" + g.sub(c09lvAssign) + ",...q)"
	case 4:
		return "({p,q:[r]},s)"
	default:
		return "(p,q=1)"
	}
}

func (g *c09JsGen) funcBody(gen, async bool) string {
	sg, sa, sf, sl, ss, lb := g.inGen, g.inAsync, g.inFunc, g.inLoop, g.inSwitch, g.labels
	g.inGen, g.inAsync, g.inFunc, g.inLoop, g.inSwitch, g.labels = gen, async, true, false, false, nil
	sn := g.noIn
	g.noIn = false
	s := "{" + g.stmts(g.r.Intn(3)) + "}"
	g.noIn = sn
	g.inGen, g.inAsync, g.inFunc, g.inLoop, g.inSwitch, g.labels = sg, sa, sf, sl, ss, lb
	return s
}

func (g *c09JsGen) primary() c09JsE {
	g.depth++
	defer func() { g.depth-- }()
	k := g.r.Intn(22)
	if g.depth > 5 {
		k = g.r.Intn(6)
	}
	switch k {
	case 0, 1, 2:
		return c09JsE{g.ident(), c09lvPrimary}
	case 3, 4:
		n := g.number()
		if n[0] == '-' {
			return c09JsE{n, c09lvUnary}
		}
		return c09JsE{n, c09lvPrimary}
	case 5:
		return c09JsE{g.str(), c09lvPrimary}
	case 6:
		return c09JsE{g.regex(), c09lvPrimary}
	case 7:
		return c09JsE{g.template(), c09lvPrimary}
	case 8:
		return c09JsE{g.pick("this", "null", "true", "false"), c09lvPrimary}
	case 9:
		n := g.r.Intn(3)
		var parts []string
		for i := 0; i < n; i++ {
			if g.r.Chance(10) {
				parts = append(parts, "")
			} else if g.r.Chance(10) {
				parts = append(parts, "..."+g.sub(c09lvAssign))
			} else {
				parts = append(parts, g.sub(c09lvAssign))
			}
		}
		return c09JsE{"[" + strings.Join(parts, ",") + "]", c09lvPrimary}
	case 10:
		n := g.r.Intn(3)
		var parts []string
		for i := 0; i < n; i++ {
			switch g.r.Intn(9) {
			case 0:
				parts = append(parts, g.pick("a", "b", "get", "set", "async", "static"))
			case 1:
				parts = append(parts, g.pick("a", "if", "in", "get", "set", "async", "function", "1", "1.5", ".5", "0x10", `"a"`, `"a b"`, `'1'`)+":"+g.sub(c09lvAssign))
			case 2:
				parts = append(parts, "["+g.sub(c09lvAssign)+"]:"+g.sub(c09lvAssign))
			case 3:
				parts = append(parts, g.pick("get ", "set ", "", "async ", "*", "async*")+g.pick("m", "if", "1", `"s"`, "[a]", "get", "set", "async")+"(p)"+g.funcBody(false, false))
			case 4:
				parts = append(parts, "..."+g.sub(c09lvAssign))
			default:
				parts = append(parts, g.pick("k", "v")+":"+g.sub(c09lvAssign))
			}
		}
		return c09JsE{"{" + strings.Join(parts, ",") + "}", c09lvPrimary}
	case 11:
		gen, async := g.r.Chance(25), g.r.Chance(25)
		s := ""
		if async {
			s = "async "
		}
		s += "function"
		if gen {
			s += "*"
		}
		if g.r.Chance(40) {
			s += " " + g.fresh("f")
		}
		return c09JsE{s + g.params() + g.funcBody(gen, async), c09lvPrimary}
	case 12:
		return c09JsE{g.class(false), c09lvPrimary}
	case 13:
		async := g.r.Chance(25)
		s := ""
		if async {
			s = "async "
		}
		switch g.r.Intn(3) {
		case 0:
			s += "p=>"
		case 1:
			s += g.params() + "=>"
		default:
			s += "()=>"
		}
		if g.r.Chance(60) {
			sa, sgn := g.inAsync, g.inGen
			g.inAsync, g.inGen = async, false
			b := g.sub(c09lvAssign)
			g.inAsync, g.inGen = sa, sgn
			if strings.HasPrefix(b, "{") {
				b = "(" + b + ")"
			}
			return c09JsE{s + b, c09lvAssign}
		}
		return c09JsE{s + g.funcBody(false, async), c09lvAssign}
	case 14:
		callee := g.sub(c09lvMember)
		if strings.Contains(callee, "?.") {
			callee = "(" + callee + ")"
		}
		if g.r.Chance(70) {
			return c09JsE{"new " + callee + g.args(), c09lvMember}
		}
		return c09JsE{"new " + callee, c09lvNew}
	case 15:
		return c09JsE{"(" + g.expr(c09lvExpr).s + ")", c09lvPrimary}
	case 16:
		if g.inFunc && g.r.Chance(50) {
			return c09JsE{"new.target", c09lvMember}
		}
		if g.module {
			return c09JsE{"import.meta", c09lvMember}
		}
		return c09JsE{"import(" + g.sub(c09lvAssign) + ")", c09lvCall}
	default:
		return c09JsE{g.ident(), c09lvPrimary}
	}
}

func (g *c09JsGen) class(decl bool) string {
	s := "class"
	if decl {
		s += " " + g.fresh("C")
	} else if g.r.Chance(40) {
		s += " " + g.fresh("K")
	}
	if g.r.Chance(40) {
		s += " extends " + g.sub(c09lvLHS)
	}
	s += "{"
	n := g.r.Intn(4)
	sc := g.inClass
	g.inClass = true
	for i := 0; i < n; i++ {
		st := g.pick("", "", "static ")
		switch g.r.Intn(8) {
		case 0:
			s += st + g.pick("a", "b", "get", "set", "static", "async", "#p", "0", "1.5", `"s"`, "[x]") + g.pick("", "=1", "="+g.sub(c09lvAssign)) + ";"
		case 1:
			s += st + g.pick("get ", "set ") + g.pick("a", "#q", "0", `"s"`, "[x]", "get", "static") + "(v)" + g.funcBody(false, false)
		case 2:
			s += st + g.pick("async ", "*", "async*", "") + g.pick("m", "#r", "1", `"t"`, "[x]", "async", "if") + g.params() + g.funcBody(false, false)
		case 3:
			s += "static" + g.funcBody(false, false)
		case 4:
			s += g.pick("a", "b") + "\n" + g.pick("c", "[x]", "*g(){}", "#z") + ";"
		default:
			s += st + g.fresh("m") + g.params() + g.funcBody(false, false)
		}
	}
	g.inClass = sc
	return s + "}"
}

var c09JsBinOps = []struct {
	op          string
	lvl, l, r   int
	rightAssocT bool
}{
	{"**", c09lvExp, c09lvUpdate, c09lvExp, true},
	{"*", c09lvMul, c09lvMul, c09lvExp, false}, {"/", c09lvMul, c09lvMul, c09lvExp, false}, {"%", c09lvMul, c09lvMul, c09lvExp, false},
	{"+", c09lvAdd, c09lvAdd, c09lvMul, false}, {"-", c09lvAdd, c09lvAdd, c09lvMul, false},
	{"<<", c09lvShift, c09lvShift, c09lvAdd, false}, {">>", c09lvShift, c09lvShift, c09lvAdd, false}, {">>>", c09lvShift, c09lvShift, c09lvAdd, false},
	{"<", c09lvRel, c09lvRel, c09lvShift, false}, {">", c09lvRel, c09lvRel, c09lvShift, false}, {"<=", c09lvRel, c09lvRel, c09lvShift, false}, {">=", c09lvRel, c09lvRel, c09lvShift, false},
	{" in ", c09lvRel, c09lvRel, c09lvShift, false}, {" instanceof ", c09lvRel, c09lvRel, c09lvShift, false},
	{"==", c09lvEq, c09lvEq, c09lvRel, false}, {"!=", c09lvEq, c09lvEq, c09lvRel, false}, {"===", c09lvEq, c09lvEq, c09lvRel, false}, {"!==", c09lvEq, c09lvEq, c09lvRel, false},
	{"&", c09lvBitAnd, c09lvBitAnd, c09lvEq, false}, {"^", c09lvBitXor, c09lvBitXor, c09lvBitAnd, false}, {"|", c09lvBitOr, c09lvBitOr, c09lvBitXor, false},
	{"&&", c09lvAnd, c09lvAnd, c09lvBitOr, false}, {"||", c09lvOr, c09lvOr, c09lvAnd, false}, {"??", c09lvShort, c09lvBitOr, c09lvBitOr, false},
}

func (g *c09JsGen) expr(min int) c09JsE {
	g.depth++
	defer func() { g.depth-- }()
	if g.depth > 6 {
		return g.primary()
	}
	switch k := g.r.Intn(20); {
	case k < 4:
		return g.primary()
	case k < 7: // member / call chain
		e := g.sub(c09lvCall)
		opt := false
		for i := g.r.Intn(3) + 1; i > 0; i-- {
			switch g.r.Intn(8) {
			case 0, 1:
				e = g.dot(e, g.pick("p", "q", "in", "typeof", "if", "of", "r"))
			case 2:
				e += "[" + g.expr(c09lvExpr).s + "]"
			case 3:
				e += "[" + g.pick(`"a"`, `'b c'`, `"1"`, `"10"`, `"01"`, `"if"`, `"é"`) + "]"
			case 4:
				e += g.args()
			case 5:
				e += g.pick("?.p", "?.[0]", "?.(1)", "?.in")
				opt = true
			case 6:
				if !opt {
					e += g.template()
				}
			default:
				e = g.dot(e, g.pick("p", "q"))
			}
		}
		return c09JsE{e, c09lvCall}
	case k < 9: // unary
		op := g.pick("!", "~", "+", "-", "typeof ", "void ", "delete ", "++", "--", "-", "+", "!")
		if g.inAsync && g.r.Chance(15) {
			op = "await "
		}
		switch op {
		case "++", "--":
			return c09JsE{op + g.target(), c09lvUnary}
		case "delete ":
			return c09JsE{op + g.dot(g.sub(c09lvCall), g.pick("p", "q")), c09lvUnary}
		}
		x := g.sub(c09lvUnary)
		if (op == "+" || op == "-") && strings.HasPrefix(x, op) {
			x = " " + x
		}
		return c09JsE{op + x, c09lvUnary}
	case k < 10: // postfix
		return c09JsE{g.target() + g.pick("++", "--"), c09lvUpdate}
	case k < 15: // binary
		b := c09JsBinOps[g.r.Intn(len(c09JsBinOps))]
		if g.r.Chance(35) {
			b = c09JsBinOps[[]int{1, 2, 4, 5, 9, 10, 13, 14, 6}[g.r.Intn(9)]]
		}
		l, r := g.sub(b.l), g.sub(b.r)
		if b.op == " in " && g.noIn {
			return c09JsE{"(" + l + b.op + r + ")", c09lvPrimary}
		}
		sp := ""
		if g.r.Chance(30) {
			sp = g.pick(" ", "\n", " /*c*/ ", " /* c\n */ ")
		}
		// keep the INPUT lexically what the tree says
		ls, rs := sp, sp
		if strings.HasSuffix(l, "+") || strings.HasSuffix(l, "-") || strings.HasSuffix(l, "/") || strings.HasSuffix(l, "<") || strings.HasSuffix(l, ">") || strings.HasSuffix(l, "!") || strings.HasSuffix(l, "=") || strings.HasSuffix(l, "*") || strings.HasSuffix(l, "&") || strings.HasSuffix(l, "|") || strings.HasSuffix(l, "?") {
			ls = " "
		}
		if rs == "" && (strings.HasPrefix(r, "+") || strings.HasPrefix(r, "-") || strings.HasPrefix(r, "/") || strings.HasPrefix(r, "!") || strings.HasPrefix(r, "=") || strings.HasPrefix(r, ".")) {
			rs = " "
		}
		return c09JsE{l + ls + b.op + rs + r, b.lvl}
	case k < 16: // conditional
		c, x, y := g.sub(c09lvShort), g.sub(c09lvAssign), g.sub(c09lvAssign)
		sep := ""
		if strings.HasPrefix(x, ".") {
			sep = " "
		}
		return c09JsE{c + "?" + sep + x + ":" + y, c09lvAssign}
	case k < 18: // assignment
		op := g.pick("=", "+=", "-=", "*=", "/=", "%=", "**=", "<<=", ">>=", ">>>=", "&=", "|=", "^=", "&&=", "||=", "??=", "=", "=")
		if op == "=" && g.r.Chance(15) {
			return c09JsE{g.pick("[a,b]", "[a,...b]", "[a=1,[b]]") + "=" + g.sub(c09lvAssign), c09lvAssign}
		}
		r := g.sub(c09lvAssign)
		sp := ""
		if strings.HasPrefix(r, "=") || strings.HasPrefix(r, ">") {
			sp = " "
		}
		return c09JsE{g.target() + op + sp + r, c09lvAssign}
	case k < 19: // comma
		return c09JsE{g.sub(c09lvAssign) + "," + g.sub(c09lvAssign), c09lvExpr}
	default:
		if g.inGen && !g.inClass {
			switch g.r.Intn(3) {
			case 0:
				return c09JsE{"yield", c09lvAssign}
			case 1:
				return c09JsE{"yield " + g.sub(c09lvAssign), c09lvAssign}
			default:
				return c09JsE{"yield*" + g.sub(c09lvAssign), c09lvAssign}
			}
		}
		return g.primary()
	}
}

func (g *c09JsGen) exprStmtText() string {
	e := g.expr(c09lvExpr).s
	for _, p := range []string{"{", "function", "class", "let[", "let [", "async function"} {
		if strings.HasPrefix(e, p) {
			return "(" + e + ")"
		}
	}
	return e
}

func (g *c09JsGen) block() string { return "{" + g.stmts(g.r.Intn(3)) + "}" }

func (g *c09JsGen) body() string {
	if g.r.Chance(50) {
		return g.block()
	}
	return g.stmt1(false)
}

func (g *c09JsGen) term() string { return g.pick(";", ";", ";", "\n", ";\n") }

func (g *c09JsGen) stmts(n int) string {
	var b strings.Builder
	for i := 0; i < n; i++ {
		b.WriteString(g.stmt())
	}
	return b.String()
}

func (g *c09JsGen) stmt() string { return g.stmt1(true) }

// listLevel: the statement is an item of a statement list (declarations, comments and ASI fragments are allowed)
func (g *c09JsGen) stmt1(listLevel bool) string {
	g.depth++
	defer func() { g.depth-- }()
	k := g.r.Intn(30)
	if g.depth > 4 {
		k = g.r.Intn(8)
	}
	if !listLevel && (k == 8 || k == 9 || (k >= 21 && k < 24) || k == 25 || k == 26) {
		k = 0
	}
	switch {
	case k < 8:
		return g.exprStmtText() + g.term()
	case k < 10:
		kw := g.pick("var", "let", "const")
		name := g.fresh("v")
		if kw == "var" && g.r.Chance(50) {
			name = g.pick("a", "b", "x")
		}
		if kw != "const" && g.r.Chance(30) {
			return kw + " " + name + g.term()
		}
		if g.r.Chance(15) {
			if g.r.Bool() {
				return kw + g.pick(" [", "[") + name + "]=" + g.sub(c09lvAssign) + g.term()
			}
			return kw + g.pick(" {", "{") + name + "}=" + g.sub(c09lvAssign) + g.term()
		}
		return kw + " " + name + "=" + g.sub(c09lvAssign) + g.pick("", ","+g.fresh("w")+"="+g.sub(c09lvAssign)) + g.term()
	case k < 13:
		s := "if(" + g.expr(c09lvExpr).s + ")" + g.body()
		if g.r.Chance(50) {
			s += "else " + g.body()
		}
		return s
	case k < 14:
		if g.inFunc {
			return g.pick("return ", "return\n", "return;", "return ") + g.pick("", g.exprStmtText()) + g.term()
		}
		return "throw " + g.sub(c09lvExpr) + g.term()
	case k < 15:
		return "throw " + g.sub(c09lvExpr) + g.term()
	case k < 17:
		sl := g.inLoop
		g.inLoop = true
		defer func() { g.inLoop = sl }()
		switch g.r.Intn(6) {
		case 0:
			return "while(" + g.expr(c09lvExpr).s + ")" + g.body()
		case 1:
			return "do " + g.body() + "while(" + g.expr(c09lvExpr).s + ")" + g.pick(";", "\n", " ")
		case 2:
			g.noIn = true
			init := g.pick("", "var i=0", "let "+g.fresh("i")+"=0", g.expr(c09lvExpr).s)
			g.noIn = false
			return "for(" + init + ";" + g.pick("", g.expr(c09lvExpr).s) + ";" + g.pick("", g.expr(c09lvExpr).s) + ")" + g.body()
		case 3:
			return "for(" + g.pick("var k", "let "+g.fresh("k"), "const "+g.fresh("k"), "x", "a.p") + " in " + g.expr(c09lvExpr).s + ")" + g.body()
		case 4:
			return "for(" + g.pick("var k", "let "+g.fresh("k"), "const "+g.fresh("k"), "x", "a.p", "[a,b]") + " of " + g.sub(c09lvAssign) + ")" + g.body()
		default:
			if g.inAsync {
				return "for await(" + g.pick("var k", "x") + " of " + g.sub(c09lvAssign) + ")" + g.body()
			}
			return "for(;;)" + g.body()
		}
	case k < 18:
		ss := g.inSwitch
		g.inSwitch = true
		defer func() { g.inSwitch = ss }()
		s := "switch(" + g.expr(c09lvExpr).s + "){"
		for i := g.r.Intn(3); i > 0; i-- {
			s += "case " + g.expr(c09lvExpr).s + ":" + g.stmts(g.r.Intn(2))
		}
		if g.r.Chance(50) {
			s += "default:" + g.stmts(g.r.Intn(2))
		}
		return s + "}"
	case k < 19:
		s := "try" + g.block()
		if g.r.Chance(70) {
			s += "catch" + g.pick("(e)", "", "({message})") + g.block()
			if g.r.Chance(30) {
				s += "finally" + g.block()
			}
		} else {
			s += "finally" + g.block()
		}
		return s
	case k < 20:
		if g.inLoop || g.inSwitch {
			if g.inLoop && g.r.Chance(40) {
				return "continue" + g.term()
			}
			return "break" + g.term()
		}
		if len(g.labels) > 0 {
			return "break " + g.labels[g.r.Intn(len(g.labels))] + g.term()
		}
		return ";"
	case k < 21:
		l := g.fresh("L")
		g.labels = append(g.labels, l)
		defer func() { g.labels = g.labels[:len(g.labels)-1] }()
		return l + ":" + g.body()
	case k < 23:
		gen, async := g.r.Chance(25), g.r.Chance(25)
		s := ""
		if async {
			s = "async "
		}
		s += "function"
		if gen {
			s += "*"
		}
		return s + " " + g.fresh("f") + g.params() + g.funcBody(gen, async)
	case k < 24:
		return g.class(true)
	case k < 25:
		return g.block()
	case k < 26:
		return g.pick("/*! bang */", "//! bang\n", "/*!\n*/", "/* plain */", "// plain\n", "debugger;", ";")
	case k < 27:
		// ASI / restricted productions in the input
		return g.pick("a\n++b\n", "a\n--b\n", "x=a\n(b)\n", "x=a\n[b]\n", "x=a\n/b/g\n", "x=a\n`b`\n", "a\n++\nb\n", "x\n;[a]\n", "let\nzz"+g.fresh("q")+"\n", "a=b\n+c\n", "a=b\n-c\n", "a=b+\n+c\n")
	default:
		return g.exprStmtText() + g.term()
	}
}

func (g *c09JsGen) program() string {
	g.depth = 0
	s := ""
	if g.r.Chance(10) {
		s = g.pick(`"use strict";`, `'use strict'`+"\n", `"use asm";`)
	}
	if g.module {
		s += g.pick(`import a0 from "m";`, `import * as a0 from "m";`, `import {a0 as b0, c0} from "m";`, `import a0, {b0} from "m";`, `import a0, * as b0 from "m";`, `import "m";`, `import {"a-b" as a0} from "m";`, `import {default as a0} from "m";`)
	}
	s += g.stmts(g.r.Intn(4) + 1)
	if g.module {
		s += g.pick(`export {a0};`, `export {a0 as z0};`, `export {a0 as "z-0"};`, `export * from "m";`, `export * as z0 from "m";`, `export default a0;`, `export default function(){}`, `export default class{}`, `export default [a0];`, `export default /re/;`, `export default "s";`, `export var z1 = 1;`, `export function z2(){}`, `export class Z3{}`, `export async function z4(){}`, `export default async function(){}`, `export const z5 = 1, z6 = 2;`)
	}
	return s
}

// hand-written programs: every hazard class of docs/C09-js.md at least once
var c09JsSeeds = []string{
	"a = b + +c; d = e - -f; g = h / /re/.exec('x'); i = j < !--k; l = 1..toString(); m = 2 .toString()",
	"x = a++ + b; y = a + ++b; z = a-- - b; w = a - --b; v = a-- > b; u = a-- >> b; t = a-- >= b",
	"x=+ +a; x=- -a; x=+ ++a; x=- --a; x = - +a; x = + -a; x=-(-a); x=+(+a);x=-(--a)",
	"x = a / /b/; x = a / /b/g; x = a /= /b/; x = a / /[/]/.source",
	"x = /re/ in y; x = /re/g instanceof RegExp; for (x of /re/g) ; for (x in /re/) ;",
	"x = a < !--b; x = a << !--b; x = a <!b; x = a < ! --b; x = a < !(--b); x = a<!- -b",
	"x = typeof a; x = typeof /re/; x = typeof(a); x = typeof[a]; x = typeof\"a\"; x = typeof`a`; x= typeof 1; x = typeof .5; x = typeof +a",
	"x = void a.b; delete a.b; x = new a; x = new a(); x = new(a()); x = new (a.b()); x = new a.b.c",
	"x = a in b; x = 1 in b; x = \"a\" in b; x = a.b in c; x = [a] in b; x = (a) in b; x= a() in b; x = `a` in b; x = 1. in b; x=.5 in b; x = 0x10 in b; x = 10n in b",
	"function f(){return a} function g(){return /re/} function h(){return\"a\"} function i(){return-a} function j(){return[a]} function k(){return 1} function l(){return.5}",
	"function*f(){yield a; yield /re/; yield* a; yield+a; yield; yield 1; x = yield}",
	"async function f(){await a; await /re/; await(a); await+a; await 1; for await (x of y);}",
	"x = 1..a; x = 1.0.a; x = 1.5.a; x = 1e3.a; x = 1000..a ; x = 0x10.a; x = 0b11.a; x = 0o17.a; x = 10n.a; x = 1_000..a; x=1e21.a; x = .5.a; x = 5..a; x = 0..a; x=0.0.a; x = 1.50.a; x=100000.0.a",
	"x = 1 .a; x = 1[\"a\"]; x = 1.0[\"a\"]; x=1e3[\"a\"]; x = (1).a; x = (1.5).a; x = (1)[\"a\"]; x = 0x10[\"a\"]; x = (-1).a; x= (+1).a",
	"x = a ? .5 : 1; x = a?.5:1; x = a?.b; x = a?.[0]; x = a?.(1); x = a ?.5:1; x= a?0.5:1; x = a?b:.5",
	"x = a ?? b; x = a ** b; x = (-a) ** b; x = a ** -b; x = (a,b) => c; x = a => b; x = async a => b; x = async (a) => b; x = async () => b",
	"class A{static 0=1; static a=1; static \"a\"=1; static [a]=1; static #a=1; static 1.5=2; static .5=1; 0=1; \"a\"=1; static static=1; static get=1; get a(){}; static get a(){} ; static async a(){}; static async*a(){}; static *a(){}; async a(){}; get=1; set; static; async; a(){} }",
	"class A extends B{}; x = class extends B{}; x = class Q extends (B,C){}; x = class{}; class R extends /re/ {}; class S extends \"a\".b{}; class T extends[a][0]{}",
	"x = {get a(){}, set a(b){}, get:1, set:2, async a(){}, *a(){}, async *a(){}, async:1, static:1, get 1(){}, get \"a\"(){}, get [a](){}, get(){}, set(a){}, async(){}, \"a\":1, 1:2, [a]:3, a, b, ...c}",
	"let n = a\n++b", "a\n++\nb", "function f(){return\nx}", "function f(){return /*\n*/ x}", "a: for(;;){break\na} b: for(;;){continue\nb}",
	"var a = b\n(c)", "var a = b\n[c]", "var a = b\n`c`", "var a = b\n/c/g", "do a\nwhile(b) c", "do;while(a)b", "if(a);else b", "for(;;);", "a:;",
	"function f(){}\n/re/.test(a)", "{}/re/.test(a)", "if(a)/re/.test(b)", "x={}/2", "x=a++/2/g", "x=a\n++/2/g.lastIndex", "x = (a)/2/g; y = [a]/2/g; z = a.in/2/g",
	"x = function(){}/2/g; y = class{}/2/g; z = ()=>{}\n/re/.test(a)",
	"x = \"</script>\"; y = '<\\/script>'; z = \"\\x3c/script>\"; v = `</script>`; t = /<\\/script>/; q = \"<!--\"; p = \"\\x3c!--\"; o = \"]]>\"",
	"x = a < /script>/.test(b); x = a << /script>/; x = a< /script/; x = a < /SCRIPT>/",
	"x = `a${b}c`; x = `a${`b${c}d`}e`; x = `${a}${b}`; x = `a${ {b:1}.b }c`; x = `a\\${b}`; x = `$`; x=`$$`; x = tag`a${b}c`; x = a.b`c`",
	"x = \"a\" + \"b\"; x = \"a\" + 'b\"' + `c`; x = \"\\1\" + \"2\"; x = a + \"b\" + \"c\"; x = \"<\" + \"/script>\"; x = \"<\" + \"!--\"",
	"/*! bang */ x = 1; /*! b2 */", "//! bang line\nx=1", "x=1 //! bang2", "a-->b; a--\n>b", "a\n-->b\nc", "<!-- c\nb", "x = a--\n/*!c\n*/ > b",
	"x = Infinity; y = -Infinity; z = 1/Infinity; w = Infinity.toString(); v = undefined; u = void 0; t = undefined.x; s = true.x; r = a/Infinity; q = Infinity/a",
	"x = a ? b : c ? d : e; x = (a, b) ? c : d; x = a ? (b, c) : d; x = a = b ? c : d; x = (a = b) ? c : d",
	"x = new (a.b`c`); x = new a`c`; x = new (a())(); x = new new a; x = new a.b(); x = (new a).b; x = new (a?.b)()",
	"x = a => {}; y = (a => b)(); z = a => ({}); w = async a => {await a}; v = (a, b) => a + b; u = ({a}) => a; t = ([a]) => a; s = (a = 1) => a; r = (...a) => a",
	"for (var i = 0, j = (a in b); i < 1; i++); for (var k = a ? (b in c) : d;;); for (x = (a in b) ? 1 : 2;;);",
	"label: { break label } ; if (a) { b } else { c } ; if (a) b; else if (c) d; else e",
	"x = a !== b; x = !a; x = !!a; x = a != !b; x = a=!b; x = a==!b; x = a<=!b",
	"x = a & b; x = a && b; x = a &&= b; x = a | b; x = a || b; x = a ||= b; x = a ^ b; x = a ?? b; x = a ??= b; x = a >> b; x = a >>> b; x = a >>>= b; x = a << b; x = a <<= b; x = a ** b; x = a **= b",
	"x = {a: 1}.a; ({a: 1}).a; ({}).toString(); (function(){})(); (class{}).name; (async function(){})(); (function*(){})(); (() => {})(); let\nq = 1",
	"if (a) function f1(){}", "x = y => z => w; x = async function*(){ yield await a; for await (b of c); }",
	"x = 'a\\\nb'; y = \"\\u2028\\u2029\"; z = '\\0' + '1'; w = '\\x00'+'1'; v = `\\0${a}1`",
	"switch (a) { case 1: case \"b\": case -c: case /re/: case (d): case [e]: case !f: default: }",
	"throw /re/; ", "throw a", "x = a ? /re/ : /re2/g; y = [/re/, /re/]; z = {a: /re/}; w = (/re/); v = !/re/; u = a || /re/; t = a, /re/",
	"x = a.b /c/g; y = a[0] /c/g; z = a() /c/g; w = a`b` /c/g; v = \"s\" /c/g; u = 1 /c/g; t = this /c/g; s = a++ /c/g",
	"x = a ? b : c; y = a ?. b; z = a ?.5 : c; w = a ?.[5]; v = a?.b?.c?.(d)?.[e]",
	// fixed findings K-C09-JS-1 (86dcc30), -2 (6f68ab7), -5/-6/-7 (a80add2): every variant must pass every oracle
	"if(a){/*! c */}else b", "if(a){/*! c */}", "if(a)b;else{/*! c */}", "L:{/*! c */}", "while(a){/*! c */}", "for(;;){/*! c */}",
	"for(x in y){//! c\n}", "do{/*! c */}while(a)", "with(a){/*! c */}", "function f(){if(a){/*! c */}}", "if(a){/*! c */}b();c()",
	"if(a){/*! c */}function f(){}", "if(y){//! bang\n}function f1(p){p}", "L1:{/*!\n*/}let z", "for(k in o){//! bang\n}function*f3(){}",
	"if(a)b;else{/*! bang */}async function f5(){}", "if(a){/*! bang */}class C1{}",
	"(class{}).p=1", "(class{})**x", "(class{})[a]=1", "(class{}).p++", "(class{}),b", "(class A{}).p()",
	"x='<\\x2fscript>';y='<\\57script>';z='<\\u{2f}script>';w='</\\x73cript>';v='</scrip\\x74>';u=`</scrip\\x74>`;t='<\\/\\script>';p='\\</script>';n='</SCRIPT';m=`a${b}</scr\\ipt`",
	"s='<\\!--';r='<'+'!--';o='<!\\x2d-';l=`<\\!--${b}<!-\\-`;x='<'+'!--<script>';q='<'+'/script>'",
	"x=a< /script/.test(y);y=a< /SCRIPT>/;z=a<< /ScRiPt/;w=a< /scriptx/;v=a< /scrip/",
	"'</script>';x={'</script>':1,'<!--':2};class A{'</script>'(){} static '<!--'=1};y=a['</script>']",
	"try{}catch{a}/re/.test(b); try{}catch(e){}/re/.test(b); import.meta in x; function f(){new.target instanceof f}",
	"//! bang\n/re/.test(a); /*! b *//=/.test(a)",
	"x = new (a?.b)[c](); y = new ((a?.b)).c; z = (a?.b)[c]; w = (a?.b)(); v = (a?.b)`t`; (a?.b).c = 1; (a?.b.c).d++; ++(a?.b)[c]",
	"x = 5..toString(); y = 5 .toString(); z = 5.5.toString(); w = (5).toString(); v = 5[\"toString\"](); u = 5e0.toString(); t = 0x5.toString()",
}

// ---------- signatures of the known findings of this slice (meta/C09js.known.json) ----------

var c09JsCommentBodyRe = regexp.MustCompile(`(?:\)|\belse|\bdo|:)(?:/\*!(?s:.*?)\*/|//![^\n]*\n)`)

// c09JsSyntaxSignature names the known finding that explains a rejected output ("" = none)
func c09JsSyntaxSignature(out []byte, v8err, seconderr string) string {
	switch {
	case seconderr != "" && strings.Contains(seconderr, "unexpected ** in expression"):
		return "update-exp"
	case (v8err != "" || seconderr != "") && c09JsCommentBodyRe.Match(out):
		return "comment-body"
	case (strings.Contains(v8err, "Invalid left-hand side in assignment") || strings.Contains(v8err, "Unary operator used immediately before exponentiation")) && bytes.Contains(out, []byte("!class")):
		return "bang-class"
	case bytes.Contains(out, []byte("?.")) && (strings.Contains(v8err, "Invalid left-hand side") || strings.Contains(v8err, "Invalid tagged template on optional chain") || strings.Contains(v8err, "Invalid optional chain from new expression")):
		return "opt-chain"
	}
	return ""
}

func c09JsContainsFold(b []byte, pat string) int {
	return bytes.Index(bytes.ToLower(b), []byte(pat))
}

// c09JsEmbedSignature: the output contains `</script` or `<!--` although the input does not
func c09JsEmbedSignature(src, out []byte, toks []c09JsTok, starts []int) string {
	if i := c09JsContainsFold(out, "</script"); i >= 0 && c09JsContainsFold(src, "</script") < 0 {
		for k := range toks {
			if starts[k] <= i && i < starts[k]+len(toks[k].Text) && (toks[k].K == 's' || toks[k].K == 't') {
				return "embed-script-string"
			}
		}
		return "embed-script-regex"
	}
	if bytes.Contains(out, []byte("<!--")) && !bytes.Contains(src, []byte("<!--")) {
		return "embed-comment-open"
	}
	return ""
}

// ---------- the stage ----------

type c09JsCase struct {
	name string
	src  []byte
	cfg  string
	opts *minjs.Minifier
	out   []byte
	gen   bool
	known string
}

func c09JsMinify(o *minjs.Minifier, src []byte) (out []byte, err error, crash string) {
	m := minify.New()
	m.Add("application/javascript", o)
	var buf bytes.Buffer
	crash = h.Safely(120*time.Second, func() {
		err = m.Minify("application/javascript", &buf, bytes.NewReader(append([]byte(nil), src...)))
	})
	return append([]byte(nil), buf.Bytes()...), err, crash
}

func c09JsOpts(r *h.RNG) (*minjs.Minifier, string) {
	o := &minjs.Minifier{KeepVarNames: r.Chance(60), Version: []int{0, 0, 2015, 2019, 2020, 2022}[r.Intn(6)], Precision: []int{0, 0, 0, 5}[r.Intn(4)]}
	return o, fmt.Sprintf("%+v", *o)
}

func c09JsStages(c *Ctx) error {
	node, err := c09JsStartNode()
	if err != nil {
		return fmt.Errorf("cannot start node: %v", err)
	}
	defer node.close()

	// open known findings of this slice, by signature
	openSig := map[string]string{}
	var known []h.KnownEntry
	for _, k := range h.Known("C09") {
		if strings.HasPrefix(k.ID, "K-C09-JS-") {
			known = append(known, k)
			if k.Status == "open" {
				openSig[k.ReplayStr("signature")] = k.ID
			}
		}
	}

	// ----- collect the cases: seeds, known replays, corpus, benchmarks, generated programs -----
	var cases []*c09JsCase
	for i, s := range c09JsSeeds {
		for _, keep := range []bool{true, false} {
			o := &minjs.Minifier{KeepVarNames: keep}
			cases = append(cases, &c09JsCase{name: fmt.Sprintf("seed-%d", i), src: []byte(s), cfg: fmt.Sprintf("%+v", *o), opts: o})
		}
	}
	for _, k := range known {
		o := &minjs.Minifier{KeepVarNames: true}
		cases = append(cases, &c09JsCase{name: k.ID, src: []byte(k.ReplayStr("input")), cfg: fmt.Sprintf("%+v", *o), opts: o, known: k.ID})
	}
	maxB := c.N(150000, 4000000)
	files, _ := filepath.Glob(filepath.Join(c.Repo, "tests", "js", "corpus", "*"))
	bench, _ := filepath.Glob(filepath.Join(c.Repo, "_benchmarks", "sample_*.js"))
	files = append(files, bench...)
	sort.Strings(files)
	nfile := 0
	for _, f := range files {
		b, err := os.ReadFile(f)
		if err != nil || len(b) == 0 || len(b) > maxB {
			continue
		}
		if strings.Contains(f, "corpus") && nfile >= c.N(60, 100000) {
			continue
		}
		nfile++
		o := &minjs.Minifier{}
		cases = append(cases, &c09JsCase{name: strings.TrimPrefix(f, c.Repo+"/"), src: b, cfg: "default", opts: o})
	}
	ngen := c.N(1500, 60000)
	if c.Search {
		ngen *= 3
	}
	for k := 0; k < ngen; k++ {
		r := c.Rng.Fork()
		g := &c09JsGen{r: r, module: r.Chance(12)}
		src := g.program()
		o, cfg := c09JsOpts(r)
		cases = append(cases, &c09JsCase{name: fmt.Sprintf("gen-%d", k), src: []byte(src), cfg: cfg, opts: o, gen: true})
	}

	st := c.R.StartStage("c09-js-relex", "seed hazard programs (kept and renamed names), the replay inputs of the known findings, tests/js/corpus and _benchmarks scripts (size bound by tier) and generated hazard programs with random options, through the real js.Minifier: when V8 accepts the input, V8 must accept the output, the second pass must succeed, the output must be lexable by spec.c09.js.lex with exactly the tokens of acorn (parser-driven) and of the dependency lexer, every space of the output must fall into a hazard class, and the output must not contain `</script` or `<!--` unless the input does; non-trivial = accepted by the minifier and by V8, output differs from input")
	var live []*c09JsCase
	for _, cs := range cases {
		out, err, crash := c09JsMinify(cs.opts, cs.src)
		key := cs.name + " " + h.Q(trunc(cs.src, 160)) + " " + cs.cfg
		if crash != "" {
			c.R.Add(h.Finding{Stage: st.Name, Kind: "crash", What: crash, Input: h.Q(trunc(cs.src, 2000)), Hex: h.Hex(trunc(cs.src, 100000)), Config: cs.cfg})
			continue
		}
		if err != nil {
			st.Count(key, false)
			st.Tag("rejected-by-minifier")
			continue
		}
		cs.out = out
		live = append(live, cs)
	}
	lines := make([]string, len(live))
	for i, cs := range live {
		lines[i] = "spec.c09.js.lex " + h.Hex(cs.out)
	}
	replies, err := h.Eval(lines)
	if err != nil {
		return err
	}
	observed := map[string]string{} // known id -> what the replay showed
	var emitLines []string
	var emitIdx []int
	fail := func(cs *c09JsCase, kind, what, detail, sig string) {
		if id, ok := openSig[sig]; ok && sig != "" {
			c.R.ExcludedKnown++
			st.Tag("known=" + sig)
			if cs.known == id {
				observed[id] = h.Q(trunc(cs.out, 200)) + " " + detail
			}
			return
		}
		c.R.Add(h.Finding{Stage: st.Name, Kind: kind, What: what, Input: fmt.Sprintf("%s (%d bytes) %s", cs.name, len(cs.src), h.Q(trunc(cs.src, 600))), Hex: h.Hex(trunc(cs.src, 200000)), Config: cs.cfg, Impl: h.Q(trunc(cs.out, 600)) + " " + detail})
	}
	for i, cs := range live {
		key := cs.name + " " + h.Q(trunc(cs.src, 160)) + " " + cs.cfg
		inRes, err := node.ask(map[string]any{"id": i, "src": string(cs.src), "v8": true})
		if err != nil {
			return err
		}
		if !inRes.Ok {
			st.Count(key, false)
			st.Tag("input-rejected-by-v8")
			continue
		}
		st.Count(key, !bytes.Equal(cs.out, cs.src))
		if cs.gen {
			st.Tag("generated")
		} else {
			st.Tag("document")
		}
		if len(cs.out) == 0 {
			continue
		}
		outRes, err := node.ask(map[string]any{"id": i, "src": string(cs.out), "v8": true, "toks": true})
		if err != nil {
			return err
		}
		out2, err2, crash2 := c09JsMinify(cs.opts, cs.out)
		if crash2 != "" {
			fail(cs, "crash", "second pass "+crash2, "", "")
			continue
		}
		if !outRes.Ok {
			fail(cs, "fail", "V8 rejects the output although it accepts the input", outRes.Err, c09JsSyntaxSignature(cs.out, outRes.Err, ""))
			continue
		}
		if err2 != nil {
			fail(cs, "fail", "output of a successful pass is rejected by the same minifier", err2.Error(), c09JsSyntaxSignature(cs.out, "", err2.Error()))
			continue
		}
		if bytes.Equal(out2, cs.out) {
			st.Tag("second-pass=identical")
		} else {
			st.Tag("second-pass=differs")
		}
		lean, msg := c09JsToksOfLean(replies[i])
		if lean == nil && msg != "" {
			fail(cs, "fail", "the output is not lexable by the independent lexer (spec.c09.js.lex)", msg, "")
			continue
		}
		if outRes.TokErr != "" {
			st.Tag("acorn-rejects-output")
		} else {
			ac := c09JsToksOfNode(outRes)
			if ok, d := c09JsSameToks(lean, ac, true); !ok {
				fail(cs, "fail", "tokens of the independent lexer differ from acorn's tokens on the output", d, "")
				continue
			}
			st.Tag("acorn=" + outRes.Mode)
		}
		dep, derr := c09JsToksOfDep(cs.out, lean)
		if derr != "" {
			fail(cs, "fail", "dependency lexer error on the output", derr, "")
			continue
		}
		if ok, d := c09JsSameToks(lean, dep, true); !ok {
			fail(cs, "fail", "tokens of the independent lexer differ from the dependency lexer's tokens on the output", d, "")
			continue
		}
		// hazards present in the output
		gaps, starts, ok := c09JsGaps(cs.out, lean)
		if !ok {
			fail(cs, "diff", "cannot locate the tokens in the output", "", "")
			continue
		}
		// string literals and untagged templates never contain `</script` (any case) or `<!--` (since /repo a80add2)
		{
			var tagStack []bool
			for j, t := range lean {
				check := false
				switch {
				case t.K == 's':
					check = true
				case t.K == 't':
					tagged := false
					if t.Text[0] == '`' {
						if j > 0 {
							pv := lean[j-1]
							tagged = pv.K == 't' && strings.HasSuffix(pv.Text, "`") || pv.K == 's' || pv.K == 'h' || pv.K == 'd' || pv.K == 'r' || pv.K == 'n' && (!c09JsOperandKw[pv.Text] || j >= 2 && lean[j-2].K == 'p' && (lean[j-2].Text == "." || lean[j-2].Text == "?.")) ||
								pv.K == 'p' && (pv.Text == ")" || pv.Text == "]" || pv.Text == "}" || pv.Text == "?.")
						}
						if strings.HasSuffix(t.Text, "${") {
							tagStack = append(tagStack, tagged)
						}
					} else if len(tagStack) > 0 {
						tagged = tagStack[len(tagStack)-1]
						if strings.HasSuffix(t.Text, "`") {
							tagStack = tagStack[:len(tagStack)-1]
						}
					}
					check = !tagged
					if tagged {
						st.Tag("template=tagged")
					}
				}
				if check {
					st.Tag("literal=embed-checked")
				}
				if check && (c09JsContainsFold([]byte(t.Text), "</script") >= 0 || strings.Contains(t.Text, "<!--")) {
					fail(cs, "fail", "a string literal or untagged template of the output contains `</script` or `<!--`", t.Text, "")
				}
			}
		}
		if sig := c09JsEmbedSignature(cs.src, cs.out, lean, starts); sig != "" {
			fail(cs, "fail", "the output contains `</script` or `<!--` although the input does not (it would end or hide the end of an HTML script element)", sig, sig)
		} else if cs.known != "" {
			observed[cs.known] = ""
		}
		emitIdx = append(emitIdx, i)
		emitLines = append(emitLines, c09JsEmitRequest(lean, gaps))
		gapAt := map[int]c09JsGap{}
		for _, g := range gaps {
			gapAt[g.B] = g
		}
		for j := 1; j < len(lean); j++ {
			a, b := lean[j-1], lean[j]
			if g, has := gapAt[j]; has {
				if g.Text == " " {
					cl := c09JsClassifyGap(a, b, g.PrevLt)
					if cl == "" {
						st.Tag("space=unexplained")
						fail(cs, "diff", "a space of the output falls into no hazard class", fmt.Sprintf("between %v and %v", a, b), "")
					} else {
						st.Tag("hazard=" + cl)
					}
				} else if strings.Contains(g.Text, "/*") || strings.Contains(g.Text, "//") {
					st.Tag("hazard=bang-comment")
				} else {
					st.Tag("gap=other")
				}
			} else if cl := c09JsClassifyTight(a, b); cl != "" {
				st.Tag("hazard=" + cl)
			}
		}
	}
	// (ii) the writer model reproduces every spacing decision of the real printer
	emitReplies, err := h.Eval(emitLines)
	if err != nil {
		return err
	}
	for j, rep := range emitReplies {
		cs := live[emitIdx[j]]
		b, ok, msg := h.DecodeReply(rep)
		if !ok {
			fail(cs, "diff", "model.c09.js.emit failed", msg, "")
			continue
		}
		if bytes.Equal(b, cs.out) {
			st.Tag("writer-model=same")
		} else {
			st.Tag("writer-model=differs")
			k := 0
			for k < len(b) && k < len(cs.out) && b[k] == cs.out[k] {
				k++
			}
			lo := k - 30
			if lo < 0 {
				lo = 0
			}
			fail(cs, "diff", "the writer model (model.c09.js.emit) does not reproduce the output from its tokens", fmt.Sprintf("at byte %d: impl %s model %s", k, h.Q(trunc(cs.out[lo:], 80)), h.Q(trunc(b[lo:], 80))), "")
		}
	}
	st.End()
	if err := c09JsStringStage(c, node, openSig); err != nil {
		return err
	}
	if err := c09JsStmtModelStage(c); err != nil {
		return err
	}
	if err := c09JsEvalStage(c, node, openSig); err != nil {
		return err
	}
	for _, k := range known {
		if k.Status != "open" {
			continue
		}
		obs, seen := observed[k.ID]
		c.R.AddKnown(k.ID, seen && obs != "", k.What, obs)
	}
	return nil
}

// ---------- string literals: value, quoting, embedding ----------

func c09JsGenLiteral(r *h.RNG) string {
	q := []string{"\"", "'", "`"}[r.Intn(3)]
	var b strings.Builder
	b.WriteString(q)
	n := r.Intn(7)
	for i := 0; i < n; i++ {
		var it string
		switch r.Intn(10) {
		case 0, 1:
			it = []string{"a", " ", "b", "é", "€", "0", "7", "9", "x", "u", "n", "script", "SCRIPT>", "s", "c"}[r.Intn(15)]
		case 2:
			it = []string{"\"", "'", "`", "$", "{", "}", "<", "/", "!", "-", "--", ">", "]]>", "${"}[r.Intn(14)]
		case 3:
			it = []string{`\n`, `\t`, `\b`, `\v`, `\f`, `\r`, `\\`, `\'`, `\"`, "\\`", `\0`}[r.Intn(11)]
		case 4:
			it = []string{`\x41`, `\x3c`, `\x3C`, `\x2f`, `\x2F`, `\x00`, `\x0a`, `\x0d`, `\x22`, `\x27`, `\x60`, `\x24`, `\x5c`, `\x7b`, `\xe9`, `\x21`, `\x2d`, `\x73`, `\x7f`, `\x80`}[r.Intn(20)]
		case 5:
			it = []string{`\u0041`, `\u003c`, `\u002f`, `\u2028`, `\u2029`, `\u000a`, `\u000d`, `\u0000`, `\u0022`, `\u0027`, `\u0060`, `\u0024`, `\u005c`, `\u00e9`, `\u{41}`, `\u{3c}`, `\u{2f}`, `\u{1F600}`, `\u{0}`, `\u{000a}`, `\uD83D\uDE00`, `\uD800`, `\uDC00`, `\u{10FFFF}`, `\u0021`, `\u002d`}[r.Intn(26)]
		case 6:
			if q != "`" {
				it = []string{`\1`, `\7`, `\12`, `\101`, `\74`, `\57`, `\377`, `\400`, `\08`, `\8`, `\9`, `\00`, `\000`, `\0000`, `\42`, `\47`, `\140`, `\134`, `\41`, `\55`}[r.Intn(20)]
			} else {
				it = `\0`
			}
		case 7:
			it = []string{"\\\n", "\\\r\n", "\\\r", "\\\u2028"}[r.Intn(4)]
		case 8:
			it = []string{`\a`, `\s`, `\/`, `\!`, `\-`, `\$`, `\{`, `\<`, `\>`, `\é`, `\c`, `\i`, `\p`}[r.Intn(13)]
		default:
			it = []string{"</script>", "<\\/script", "<!--", "<\\!--", "</scr", "ipt>", "<", "!--", "/script", "<\\x2fscript", "</\\script>", "-->"}[r.Intn(12)]
		}
		if q == "`" {
			it = strings.ReplaceAll(it, "${", "$\\{")
		}
		if it == q {
			it = "\\" + it
		}
		if q != "`" && (it == "\n" || it == "\r") {
			it = " "
		}
		b.WriteString(it)
	}
	b.WriteString(q)
	return b.String()
}

func c09JsWTF8(hexUnits string) []byte {
	var units []uint16
	for i := 0; i+4 <= len(hexUnits); i += 4 {
		var v uint16
		fmt.Sscanf(hexUnits[i:i+4], "%04x", &v)
		units = append(units, v)
	}
	var out []byte
	enc := func(n int) {
		switch {
		case n < 0x80:
			out = append(out, byte(n))
		case n < 0x800:
			out = append(out, byte(0xC0+n/64), byte(0x80+n%64))
		case n < 0x10000:
			out = append(out, byte(0xE0+n/4096), byte(0x80+n/64%64), byte(0x80+n%64))
		default:
			out = append(out, byte(0xF0+n/262144), byte(0x80+n/4096%64), byte(0x80+n/64%64), byte(0x80+n%64))
		}
	}
	for i := 0; i < len(units); i++ {
		u := int(units[i])
		if 0xD800 <= u && u < 0xDC00 && i+1 < len(units) && 0xDC00 <= int(units[i+1]) && int(units[i+1]) < 0xE000 {
			enc(0x10000 + (u-0xD800)*1024 + (int(units[i+1]) - 0xDC00))
			i++
			continue
		}
		enc(u)
	}
	return out
}

func c09JsStringStage(c *Ctx, node *c09JsNode, openSig map[string]string) error {
	st := c.R.StartStage("c09-js-strings", "generated string literals and templates without substitutions (all escape forms, quotes, line continuations, legacy octal, `</script`, `<!--`, `${`) as `x=LIT` through the real js.Minifier (Version 0 / 2015+): the output must lex (spec.c09.js.lex) to x = LIT' with LIT' one string/template token whose value (spec.c09.js.strval, ECMA-262 SV/TV) equals the value of LIT — cross-checked with V8's evaluation of both literals — and LIT' must not contain `</script` nor, unless LIT does, `<!--`; non-trivial = V8 accepts the input and the literal changed")
	type sc struct {
		lit, out string
		cfg      string
	}
	var cases []sc
	n := c.N(4000, 200000)
	fixedLits := []string{`'<\x2fscript>'`, `'<\57script>'`, `'<\u{2f}script>'`, `'<\u002fscript>'`, `'</\x73cript>'`, `'</scrip\x74>'`, "`</scrip\\x74>`", `'<\/\script>'`,
		`'</\script>'`, `'<\/scr\ipt>'`, `'\</script>'`, `'</SCRIPT'`, `"</script>"`, "`</script>`", `'<\!--'`, `'<!\x2d-'`, `'<\x21--'`, "`<!\\x2d-`", `"<!--"`, "`<!--`", `'<!--<script>'`}
	for k := 0; k < n+len(fixedLits)*2; k++ {
		r := c.Rng.Fork()
		lit := c09JsGenLiteral(r)
		if k >= n {
			lit = fixedLits[(k-n)/2]
		}
		o := &minjs.Minifier{Version: []int{0, 5, 2015, 2022}[r.Intn(4)]}
		if k >= n {
			o = &minjs.Minifier{Version: []int{0, 2015}[(k-n)%2]}
		}
		out, err, crash := c09JsMinify(o, []byte("x="+lit))
		if crash != "" {
			c.R.Add(h.Finding{Stage: st.Name, Kind: "crash", What: crash, Input: h.Q([]byte(lit))})
			continue
		}
		if err != nil {
			st.Count(lit, false)
			st.Tag("rejected-by-minifier")
			continue
		}
		cases = append(cases, sc{lit, string(out), fmt.Sprintf("Version:%d", o.Version)})
	}
	var lines []string
	for _, cs := range cases {
		lines = append(lines, "spec.c09.js.lex "+h.HexS(cs.out))
	}
	lexed, err := h.Eval(lines)
	if err != nil {
		return err
	}
	lines = lines[:0]
	type pend struct {
		i   int
		tok string
	}
	var pends []pend
	for i, cs := range cases {
		toks, msg := c09JsToksOfLean(lexed[i])
		if toks == nil || len(toks) != 3 || toks[0].Text != "x" || toks[1].Text != "=" || (toks[2].K != 's' && toks[2].K != 't') {
			c.R.Add(h.Finding{Stage: st.Name, Kind: "fail", What: "the output of `x=LIT` does not lex to x = one-literal", Input: h.Q([]byte("x=" + cs.lit)), Config: cs.cfg, Impl: h.Q([]byte(cs.out)) + " " + msg})
			continue
		}
		pends = append(pends, pend{i, toks[2].Text})
		lines = append(lines, "spec.c09.js.strval "+h.HexS(cs.lit), "spec.c09.js.strval "+h.HexS(toks[2].Text))
	}
	vals, err := h.Eval(lines)
	if err != nil {
		return err
	}
	for j, p := range pends {
		cs := cases[p.i]
		res, err := node.ask(map[string]any{"id": j, "strs": []string{cs.lit, p.tok}})
		if err != nil {
			return err
		}
		if len(res.Vals) != 2 || res.Vals[0] == nil {
			st.Count(cs.lit, false)
			st.Tag("input-rejected-by-v8")
			continue
		}
		st.Count(cs.lit+" "+cs.cfg, cs.lit != p.tok)
		st.Tag("out-quote=" + p.tok[:1])
		report := func(kind, what, detail, sig string) {
			if _, ok := openSig[sig]; ok && sig != "" {
				c.R.ExcludedKnown++
				st.Tag("known=" + sig)
				return
			}
			c.R.Add(h.Finding{Stage: st.Name, Kind: kind, What: what, Input: h.Q([]byte("x=" + cs.lit)), Hex: h.HexS("x=" + cs.lit), Config: cs.cfg, Impl: h.Q([]byte(cs.out)) + " " + detail})
		}
		if res.Vals[1] == nil {
			report("fail", "V8 cannot evaluate the printed literal", "", "")
			continue
		}
		if *res.Vals[0] != *res.Vals[1] {
			report("fail", "the printed literal has a different value (V8)", *res.Vals[0]+" vs "+*res.Vals[1], "")
			continue
		}
		vin, ok1, m1 := h.DecodeReply(vals[2*j])
		vout, ok2, m2 := h.DecodeReply(vals[2*j+1])
		if !ok1 || !ok2 {
			report("fail", "the literal is not well formed for the specification decoder (spec.c09.js.strval) although V8 evaluates it", m1+" "+m2, "")
			continue
		}
		if !bytes.Equal(vin, vout) {
			report("fail", "the printed literal has a different value (spec.c09.js.strval)", h.Q(vin)+" vs "+h.Q(vout), "")
			continue
		}
		if w := c09JsWTF8(*res.Vals[0]); !bytes.Equal(w, vin) {
			report("diff", "spec.c09.js.strval disagrees with V8 on the value of the input literal", h.Q(vin)+" vs "+h.Q(w), "")
			continue
		}
		if c09JsContainsFold([]byte(p.tok), "</script") >= 0 {
			report("fail", "the printed literal contains `</script`", "", "embed-script-string")
			continue
		}
		if strings.Contains(p.tok, "<!--") {
			report("fail", "the printed literal contains `<!--`", "", "embed-comment-open")
			continue
		}
		if strings.ContainsAny(cs.lit, "\\") {
			st.Tag("hazard=escapes")
		}
		if cs.lit[0] != p.tok[0] {
			st.Tag("hazard=requoted")
		}
	}
	st.End()
	return nil
}

// ---------- the statement printer model of C01 against the hypotheses of js_token_sep ----------

func c09JsStmtModelStage(c *Ctx) error {
	st := c.R.StartStage("c09-js-stmt-model", "programs of the C01 fragment (expression statements, if/else, return, throw, blocks, function declarations; generator of C01) through the statement printer model `jsTokens` (model.c09.js.stmt): the written token list must satisfy the four hypotheses of the theorem js_token_sep (tokOk, adjChain, headOk, goalsOk), the independent lexer must read the model's bytes back as exactly these tokens, and the bytes must be the output of the real js.Minifier (KeepVarNames); non-trivial = the model covers the program")
	n := c.N(3000, 100000)
	type pc struct {
		src, enc string
		ver      int
	}
	var ps []pc
	var lines []string
	for k := 0; k < n; k++ {
		r := c.Rng.Fork()
		g := &c01Gen{r: r, forms: c01AllForms()}
		p := g.prog()
		ver := c01Versions[r.Intn(len(c01Versions))]
		ps = append(ps, pc{p.Src(), p.Enc(), ver})
		lines = append(lines, "model.c09.js.stmt "+h.Bool(c01Ver2020(ver))+" "+h.HexS(p.Enc()))
	}
	replies, err := h.Eval(lines)
	if err != nil {
		return err
	}
	for i, p := range ps {
		b, ok, msg := h.DecodeReply(replies[i])
		if !ok {
			st.Count(p.src, false)
			if strings.Contains(msg, "unmodelled") {
				st.Tag("unmodelled")
			} else {
				c.R.Add(h.Finding{Stage: st.Name, Kind: "diff", What: "model.c09.js.stmt failed", Input: h.Q([]byte(p.src)), Model: msg})
			}
			continue
		}
		items := h.DecodeListReply(b)
		if len(items) != 4 {
			continue
		}
		if string(items[3]) == "1" {
			st.Tag("guard(js_print_relex_partial)=holds")
		} else {
			st.Tag("guard(js_print_relex_partial)=fails")
		}
		st.Count(p.src, true)
		out, merr, crash := c01Minify(p.src, p.ver, true)
		if crash != "" || merr != nil {
			st.Tag("real-rejects")
			continue
		}
		hyp, relex := string(items[0]) == "1", string(items[1]) == "1"
		if hyp {
			st.Tag("hypotheses=hold")
		} else {
			st.Tag("hypotheses=fail")
			c.R.Add(h.Finding{Stage: st.Name, Kind: "diff", What: "the token list of the statement printer model violates a hypothesis of js_token_sep", Input: h.Q([]byte(p.src)), Model: h.Q(items[2])})
		}
		if relex {
			st.Tag("relex=same-tokens")
		} else {
			c.R.Add(h.Finding{Stage: st.Name, Kind: "diff", What: "the independent lexer does not read the model's bytes back as the written tokens", Input: h.Q([]byte(p.src)), Model: h.Q(items[2])})
		}
		if string(items[2]) == out {
			st.Tag("model=impl")
		} else {
			st.Tag("model≠impl")
			c.R.Add(h.Finding{Stage: st.Name, Kind: "diff", What: "the real printer writes other bytes than the statement printer model for this program (spacing / semicolon decision changed?)", Input: h.Q([]byte(p.src)), Impl: h.Q([]byte(out)), Model: h.Q(items[2])})
		}
	}
	st.End()
	return nil
}

// ---------- closed hazard programs: the output must compute what the input computes ----------

func c09JsClosedProgram(r *h.RNG) string {
	atom := func() string {
		return r.Pick([]string{"a", "b", "c", "2", "3", "10", "1.5", ".5", "5..valueOf()", "1e3", "0x10", "/b/.source.length", "/ab/g.source.length", "'s'.length", "`t${a}`.length", "[a,b].length", "(a)", "o.p", "o['q']", "f(a)", "typeof a", "void 0", "+b", "-b", "- -b", "+ +b", "!a", "!--k", "~a", "a++", "b--", "++a", "--b", "(a,b)"})
	}
	op := func() string {
		return r.Pick([]string{"+", "-", "*", "/", "%", "<", ">", "<=", ">=", "==", "!=", "===", "<<", ">>", ">>>", "&", "|", "^", "&&", "||", "??", " in ", " instanceof ", "**", ",", "+ +", "- -", "+ ++", "- --", "/ /b/.source.length*", "< !--", "-- >"[:0] + ">", "- ", "+ "})
	}
	var parts []string
	n := 1 + r.Intn(4)
	for i := 0; i < n; i++ {
		e := atom()
		for k := r.Intn(4); k > 0; k-- {
			o := op()
			rhs := atom()
			if o == " in " {
				rhs = "o"
			} else if o == " instanceof " {
				rhs = "Object"
			} else if o == "**" {
				e = "(" + e + ")"
			} else if o == "??" {
				e = "(" + e + ")"
				rhs = "(" + rhs + ")"
			}
			sep := ""
			if last := e[len(e)-1]; (last == '+' || last == '-') && (o[0] == '+' || o[0] == '-') || last == '-' && o[0] == '>' {
				sep = " "
			}
			e = e + sep + o
			if f := rhs[0]; (o[len(o)-1] == '+' && f == '+') || (o[len(o)-1] == '-' && f == '-') || (o[len(o)-1] == '/' && f == '/') || (o[len(o)-1] == '<' && f == '!') {
				e += " "
			}
			e += rhs
		}
		parts = append(parts, e)
	}
	stmts := "var a=3,b=4,c=5,k=7,o={p:1,q:2,s:3},f=function(x){return x+1},result=[];"
	for _, p := range parts {
		switch r.Intn(5) {
		case 0:
			stmts += "if(" + p + ")result.push(1);else result.push(2);"
		case 1:
			stmts += "result.push(function(){return " + p + "}());"
		case 2:
			stmts += "result.push(typeof(" + p + "));"
		default:
			stmts += "result.push(" + p + ");"
		}
	}
	return stmts + "result.push(a,b,c,k)"
}

func c09JsEvalStage(c *Ctx, node *c09JsNode, openSig map[string]string) error {
	st := c.R.StartStage("c09-js-eval", "closed programs built from the token-gluing hazards (`+ +`, `- --`, `/ /re/`, `< !--`, `a-- >b`, `typeof x`, `x in o`, `5..valueOf()`, `.5`, templates) over fixed numbers, run in a fresh V8 context before and after the real js.Minifier (random options): the final `result` must be the same — a glued or split token that still parses changes it; non-trivial = the input runs without error and the output differs from the input")
	n := c.N(800, 40000)
	type ec struct {
		src, out, cfg string
	}
	var cases []ec
	for k := 0; k < n; k++ {
		r := c.Rng.Fork()
		src := c09JsClosedProgram(r)
		o, cfg := c09JsOpts(r)
		out, err, crash := c09JsMinify(o, []byte(src))
		if crash != "" {
			c.R.Add(h.Finding{Stage: st.Name, Kind: "crash", What: crash, Input: h.Q([]byte(src)), Config: cfg})
			continue
		}
		if err != nil {
			st.Count(src, false)
			st.Tag("rejected-by-minifier")
			continue
		}
		cases = append(cases, ec{src, string(out), cfg})
	}
	for lo := 0; lo < len(cases); lo += 200 {
		hi := lo + 200
		if hi > len(cases) {
			hi = len(cases)
		}
		var codes []string
		for _, cs := range cases[lo:hi] {
			codes = append(codes, cs.src, cs.out)
		}
		res, err := node.ask(map[string]any{"id": lo, "run": codes})
		if err != nil {
			return err
		}
		if len(res.Runs) != len(codes) {
			return fmt.Errorf("c09-js-eval: %d results for %d programs", len(res.Runs), len(codes))
		}
		for i, cs := range cases[lo:hi] {
			a, b := res.Runs[2*i], res.Runs[2*i+1]
			if !strings.HasPrefix(a, "v:") {
				st.Count(cs.src, false)
				st.Tag("input-throws")
				continue
			}
			st.Count(cs.src+" "+cs.cfg, cs.src != cs.out)
			if a == b {
				st.Tag("same-result")
				continue
			}
			c.R.Add(h.Finding{Stage: st.Name, Kind: "fail", What: "the output computes something else than the input (token glued or split?)", Input: h.Q([]byte(cs.src)), Hex: h.HexS(cs.src), Config: cs.cfg, Impl: h.Q([]byte(cs.out)) + " input: " + trunc2(a) + " output: " + trunc2(b)})
		}
	}
	st.End()
	return nil
}

func trunc2(s string) string {
	if len(s) > 200 {
		return s[:200] + "…"
	}
	return s
}

package main

// C09 — JSON: hypothesis `NumFix` of `json_second_pass_fixed` (Proofs/C09Json.lean) checked on the real code: the
// number writer of json.go (minify.Number + the `0.` repair + the keep-the-lexeme rule for exponents) reproduces its
// own outputs, so that the second pass over a JSON output is the identity.

import (
	"bytes"
	"encoding/json"
	"fmt"
	"strings"

	minjson "github.com/tdewolff/minify/v2/json"

	"verifharness/h"
)

func c09JsonNumber(r *h.RNG) string {
	var b strings.Builder
	if r.Chance(30) {
		b.WriteByte('-')
	}
	digits := func(n int, zeros int) {
		for i := 0; i < n; i++ {
			if r.Chance(zeros) {
				b.WriteByte('0')
			} else {
				b.WriteByte(byte('0' + r.Intn(10)))
			}
		}
	}
	if r.Chance(25) {
		b.WriteByte('0')
	} else {
		b.WriteByte(byte('1' + r.Intn(9)))
		digits(r.Intn([]int{2, 6, 24}[r.Intn(3)]), 40)
	}
	if r.Chance(55) {
		b.WriteByte('.')
		digits(1+r.Intn([]int{2, 6, 24}[r.Intn(3)]), 40)
	}
	if r.Chance(45) {
		b.WriteByte("eE"[r.Intn(2)])
		if r.Chance(60) {
			b.WriteByte("+-"[r.Intn(2)])
		}
		digits(1+r.Intn([]int{1, 2, 4}[r.Intn(3)]), 30)
	}
	return b.String()
}

func c09JsonStage(c *Ctx) {
	st := c.R.StartStage("c09-json-fixpoint", "generated JSON number lexemes (RFC 8259 grammar: sign, leading zero, long digit runs, fractions, exponents of every spelling) inside a small document, precisions 0/1/3/8: real json minifier twice; the output must be valid JSON (encoding/json) and at precision 0 the second pass must return the same bytes (hypothesis NumFix of json_second_pass_fixed; at precision > 0 it is false — numFix_precision_counterexample — and only measured); non-trivial = the first pass changed the number")
	defer st.End()
	n := c.N(20000, 400000)
	for k := 0; k < n; k++ {
		r := c.Rng.Fork()
		num := c09JsonNumber(r)
		prec := []int{0, 0, 1, 3, 8}[r.Intn(5)]
		in := []byte(`{"k": [ ` + num + ` , ` + c09JsonNumber(r) + ` ]}`)
		mz := &minjson.Minifier{Precision: prec}
		var o1, o2 bytes.Buffer
		e1 := mz.Minify(nil, &o1, bytes.NewReader(in), nil)
		key := fmt.Sprintf("%s prec=%d", in, prec)
		if e1 != nil {
			c.R.Add(h.Finding{Stage: st.Name, Kind: "fail", What: "valid JSON rejected", Input: key, Hex: h.Hex(in), Impl: e1.Error()})
			continue
		}
		st.Count(key, len(o1.Bytes()) != len(in)-6)
		if !json.Valid(o1.Bytes()) {
			c.R.Add(h.Finding{Stage: st.Name, Kind: "fail", What: "output is not valid JSON (encoding/json)", Input: key, Hex: h.Hex(in), Impl: o1.String()})
			continue
		}
		e2 := mz.Minify(nil, &o2, bytes.NewReader(append([]byte(nil), o1.Bytes()...)), nil)
		if e2 != nil {
			c.R.Add(h.Finding{Stage: st.Name, Kind: "fail", What: "output of a successful pass is rejected by the same minifier", Input: key, Hex: h.Hex(in), Impl: o1.String() + " " + e2.Error()})
			continue
		}
		if !bytes.Equal(o1.Bytes(), o2.Bytes()) {
			st.Tag(fmt.Sprintf("second-pass=changes(prec=%d)", prec))
			if prec > 0 {
				// Precision > 0: a lexeme with an exponent is not rounded by the first pass but its respelling is by the second
				// (`-67E-1` -> `-6.7` -> `-7`; Lean: numFix_precision_counterexample).  Both outputs are valid JSON: measured only.
				if !json.Valid(o2.Bytes()) {
					c.R.Add(h.Finding{Stage: st.Name, Kind: "fail", What: "second output is not valid JSON", Input: key, Hex: h.Hex(in), Impl: o2.String()})
				}
				continue
			}
			c.R.Add(h.Finding{Stage: st.Name, Kind: "diff", What: "hypothesis NumFix does not hold on the real code: the second pass changes a number", Input: key, Hex: h.Hex(in), Impl: o1.String() + " -> " + o2.String()})
		} else {
			st.Tag("second-pass=fixed-point")
		}
	}
}

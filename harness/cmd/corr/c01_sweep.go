package main

// C01 — sweep generator: seeded JS programs outside the simple expression fragment.  Programs are deterministic and
// terminate by construction (bounded loops, call DAG, no Date / Math.random); they only use the free identifiers of
// the host world of tools/jsrun.mjs (functions f g h k, variables a…z, objects o1 o2) plus what they declare.
// Every random choice comes from the *h.RNG.

import (
	"fmt"
	"regexp"
	"strings"

	"verifharness/h"
)

// c01SwAvoid switches off syntactic forms that fall under known findings of the minifier (see c01SwClassify for the
// keys).  When a key is true the generator never emits that form and c01SweepFixed skips the programs tagged with it.
var c01SwAvoid = map[string]bool{}

func c01SwAv(key string) bool { return c01SwAvoid[key] }

var c01SwHostFns = []string{"f", "g", "h", "k"}
var c01SwPoolVars = []string{"a", "b", "c", "d", "e", "p", "q", "r", "s", "t", "u", "v", "w", "x", "y", "z"}
var c01SwHostObjs = []string{"o1", "o2"}
var c01SwHostProps = []string{"m", "n", "p", "q", "x", "length"}

// precedence levels of produced expression text
const (
	c01SwPComma = iota + 1
	c01SwPAssign
	c01SwPCond
	c01SwPOr // || and ?? (never mixed without parentheses)
	c01SwPAnd
	c01SwPBitOr
	c01SwPBitXor
	c01SwPBitAnd
	c01SwPEq
	c01SwPRel
	c01SwPShift
	c01SwPAdd
	c01SwPMul
	c01SwPExp
	c01SwPUnary
	c01SwPUpdate
	c01SwPCall
	c01SwPPrimary
)

const (
	c01SwFnPlain = iota
	c01SwFnGen
	c01SwFnAsync
	c01SwFnArrow
)

type c01SwFunc struct {
	name     string
	np       int
	ptypes   []int // 0 any, 1 object pattern, 2 array pattern
	kind     int
	cost     int
	retFn    bool     // returns a closure: result only used in call position
	defNames []string // simple parameters with a default value
}

type c01SwClass struct {
	name    string
	methods []string
	getters []string
	setters []string
	statics []string
	gens    []string
	nctor   int
}

type c01SwVar struct {
	name string
	ro   bool // not an assignment target (const, loop counter, function, class)
	fn   *c01SwFunc
	cls  *c01SwClass // the binding is this class
	inst *c01SwClass // the binding holds an instance / tracked object literal
}

type c01SwScope struct {
	fnBoundary bool
	vars       []*c01SwVar
	lex        map[string]bool
	used       map[string]bool
	noShadow   bool
	noDecl     bool // S11: no lexical / function / class declaration directly in this block
}

type c01SwLabel struct {
	name string
	loop bool
}

type c01SwFctx struct {
	kinds     map[string]int // 1 var-kind (var, parameter, function), 2 lexical-kind
	canReturn bool
	gen       bool
	async     bool
	argsOK    bool
	ntOK      bool // new.target allowed
	noVar     bool // direct body of a class static block: no `var` (S5)
	noIf      bool // direct body of a class static block: no `if` (S6)
	superOK   bool
	labels    []c01SwLabel
	loops     int
	switches  int
	mult      int
	cost      int
	limit     int
	planned   []string
	top       bool
	shadowed  map[string]bool // undefined / NaN / Infinity declared locally
}

type c01SwG struct {
	r          *h.RNG
	uid        int
	scopes     []*c01SwScope
	fx         []*c01SwFctx
	banned     map[string]int
	strict     bool
	inParams   int
	inClass    int
	inArgs     int // inside a call argument list (see args)
	inStatic   int // inside a class static block (nested functions included)
	staticBase int // index of the first scope of the innermost static block
	priv       [][]string
	nodes      int
	maxNodes   int
}

func (g *c01SwG) chance(p int) bool { return g.r.Chance(p) }
func (g *c01SwG) strictNow() bool   { return g.strict || g.inClass > 0 }
func (g *c01SwG) intn(n int) int    { return g.r.Intn(n) }
func (g *c01SwG) pick(s []string) string {
	return g.r.Pick(s)
}
func (g *c01SwG) fresh(prefix string) string {
	g.uid++
	return fmt.Sprintf("%s%d", prefix, g.uid)
}
func (g *c01SwG) cur() *c01SwScope { return g.scopes[len(g.scopes)-1] }
func (g *c01SwG) f() *c01SwFctx    { return g.fx[len(g.fx)-1] }

func (g *c01SwG) push(fnBoundary bool) *c01SwScope {
	s := &c01SwScope{fnBoundary: fnBoundary, lex: map[string]bool{}, used: map[string]bool{}}
	g.scopes = append(g.scopes, s)
	return s
}
func (g *c01SwG) pop() { g.scopes = g.scopes[:len(g.scopes)-1] }

func (g *c01SwG) pushF(fc *c01SwFctx) {
	if fc.kinds == nil {
		fc.kinds = map[string]int{}
	}
	if fc.mult == 0 {
		fc.mult = 1
	}
	if fc.limit == 0 {
		fc.limit = 60
	}
	fc.shadowed = map[string]bool{}
	g.fx = append(g.fx, fc)
}
func (g *c01SwG) popF() *c01SwFctx {
	fc := g.f()
	g.fx = g.fx[:len(g.fx)-1]
	return fc
}

func (g *c01SwG) fnScope() *c01SwScope {
	for i := len(g.scopes) - 1; i >= 0; i-- {
		if g.scopes[i].fnBoundary {
			return g.scopes[i]
		}
	}
	return g.scopes[0]
}

func (g *c01SwG) use(name string) {
	for _, s := range g.scopes {
		s.used[name] = true
	}
}

func c01SwIsPool(name string) bool {
	for _, n := range c01SwPoolVars {
		if n == name {
			return true
		}
	}
	return false
}

// lookup finds the innermost declaration of name (nil: free identifier of the host world)
func (g *c01SwG) lookup(name string) *c01SwVar {
	for i := len(g.scopes) - 1; i >= 0; i-- {
		vs := g.scopes[i].vars
		for j := len(vs) - 1; j >= 0; j-- {
			if vs[j].name == name {
				return vs[j]
			}
		}
	}
	return nil
}

// canLex reports whether `let name` may be declared in the current block now.
func (g *c01SwG) canLex(name string) bool {
	s := g.cur()
	if s.lex[name] || s.used[name] || g.banned[name] > 0 {
		return false
	}
	if g.f().kinds[name] == 1 {
		return false
	}
	if s.noShadow && c01SwIsPool(name) {
		return false
	}
	return true
}

func (g *c01SwG) canVar(name string) bool {
	return g.f().kinds[name] != 2 && g.banned[name] == 0
}

func (g *c01SwG) declLex(v *c01SwVar) {
	s := g.cur()
	s.lex[v.name] = true
	g.f().kinds[v.name] = 2
	s.vars = append(s.vars, v)
}

func (g *c01SwG) declVar(v *c01SwVar) {
	g.f().kinds[v.name] = 1
	s := g.fnScope()
	for _, o := range s.vars {
		if o.name == v.name {
			return
		}
	}
	s.vars = append(s.vars, v)
}

// visible returns all declared bindings visible here, innermost first, shadowed ones removed.
func (g *c01SwG) visible() []*c01SwVar {
	seen := map[string]bool{}
	var out []*c01SwVar
	for i := len(g.scopes) - 1; i >= 0; i-- {
		vs := g.scopes[i].vars
		for j := len(vs) - 1; j >= 0; j-- {
			if !seen[vs[j].name] {
				seen[vs[j].name] = true
				out = append(out, vs[j])
			}
		}
	}
	return out
}

// readable picks an identifier whose value is a plain value (never a program function or class).
func (g *c01SwG) readable() string {
	for try := 0; try < 8; try++ {
		var name string
		if g.chance(50) {
			name = g.pick(c01SwPoolVars)
			if v := g.lookup(name); v != nil && (v.fn != nil || v.cls != nil) {
				continue
			}
		} else {
			vis := g.visible()
			if len(vis) == 0 {
				continue
			}
			v := vis[g.intn(len(vis))]
			if v.fn != nil || v.cls != nil {
				continue
			}
			name = v.name
		}
		if g.banned[name] > 0 {
			continue
		}
		g.use(name)
		return name
	}
	return g.pick(c01SwHostObjs)
}

// assignable picks an identifier that may be assigned.
func (g *c01SwG) assignable() string {
	for try := 0; try < 8; try++ {
		var name string
		if g.chance(55) {
			name = g.pick(c01SwPoolVars)
		} else {
			vis := g.visible()
			if len(vis) == 0 {
				continue
			}
			name = vis[g.intn(len(vis))].name
		}
		if v := g.lookup(name); v != nil && (v.ro || v.fn != nil || v.cls != nil || v.inst != nil) {
			continue
		}
		if g.banned[name] > 0 || name == "undefined" || name == "NaN" || name == "Infinity" {
			continue
		}
		if g.staticOuter(name) {
			continue
		}
		g.use(name)
		return name
	}
	n := g.pick(c01SwPoolVars[:5])
	if v := g.lookup(n); v != nil && (v.ro || v.fn != nil || v.cls != nil || v.inst != nil) || g.banned[n] > 0 || g.staticOuter(n) {
		return "o1.x"
	}
	g.use(n)
	return n
}

// staticOuter: (S5) inside a class static block, is name a binding declared outside of that block?
func (g *c01SwG) staticOuter(name string) bool {
	if g.inStatic == 0 || !c01SwAv("S5-static-var") {
		return false
	}
	for i := len(g.scopes) - 1; i >= 0; i-- {
		for _, v := range g.scopes[i].vars {
			if v.name == name {
				return i < g.staticBase
			}
		}
	}
	return false
}

func c01SwWrap(s string, have, want int) string {
	if have < want {
		return "(" + s + ")"
	}
	return s
}

// ---------------------------------------------------------------- literals

var c01SwNums = []string{"0", "1", "2", "3", "7", "10", "-1", "0x1F", "0XaB", "0o17", "0O7", "0b101", "0B11", "1e3", "1E-2", "1.5e+2", ".5", "5.", "1_000",
	"0.000001", "1e21", "1e-7", "123456789012345680000", "0.1", "1.0", "0.50", "9007199254740993", "1_0.0_1", "0xFFFFFFFF", "2147483648",
	"4294967296", "1e100", "0.1e1", "100000", "1000000", "0x10000", "1e400", "5e-324", "0.0", "12.50e1", "0x0", ".0"}
var c01SwNumsSloppy = []string{"017", "089", "00", "08.5", "0777"}
var c01SwBigs = []string{"10n", "0n", "0x10n", "1_000n", "0b11n", "0o7n", "123456789012345678901234567890n"}
var c01SwNumMember = []string{"5..toString()", "5 .toString()", ".5.toString()", "1e3.toString()", "0x10.toString()", "(5).toFixed(1)", "1_0.0.toString()",
	"5.0.toFixed(2)", "1.5.toString(2)", "255..toString(16)", "1e21.toString()", "0b11.toString()", "2..constructor === Number", "1.e2.toString()"}

func (g *c01SwG) num() string {
	k := g.intn(100)
	switch {
	case k < 1 && !g.strictNow() && g.chance(3):
		return g.pick(c01SwNumsSloppy)
	case k < 12:
		return "-0"
	case k < 45:
		return g.pick(c01SwNums[:7])
	}
	return g.pick(c01SwNums)
}

var c01SwStrs = []string{`""`, `''`, `"s"`, `'0'`, `"a"`, `'b'`, `"it's"`, `'say "hi"'`, `"\n"`, `'\x41'`, `"A"`, `"\u{1F600}"`, `'\0'`, `"a\
b"`, `"</script>"`, `'<\/script>'`, `"<!--"`, `'-->'`, "\"`\"", `'\''`, `"\""`, `"\\"`, `"a\tb"`, `'\v\f\b'`, `"${x}"`, "'`${a}`'", `"\r\n"`, `"😀"`,
	`" "`, "\" \"", `"\x00"`, `'\0a'`, `"\ud83d"`, `'a\\nb'`, `"\a\c"`, `"length"`, `"m"`, `"p"`, `"__proto__"`, `"x y"`, `'1'`, `"-1"`,
	`"1e3"`, `"0x10"`, `" 12 "`, `"true"`, `"null"`, `"undefined"`, `"]]>"`, `"<![CDATA["`, `"\\u0041"`, `"\
"`, `'\u{41}\u{00042}'`, `"é"`, `"\xe9"`, `"</SCRIPT"`, `"<script"`, `'\\'`, `"'"`}
var c01SwStrsSloppy = []string{`"\101"`, `'\08'`, `"\7"`, `'\1a'`}

func (g *c01SwG) str() string {
	if !g.strictNow() && g.chance(2) {
		return g.pick(c01SwStrsSloppy)
	}
	if g.chance(40) {
		return g.pick(c01SwStrs[:8])
	}
	st := g.pick(c01SwStrs)
	if c01SwAv("S9-line-continuation") && st == "\"\\\n\"" {
		st = `"a\
b"`
	}
	return st
}

var c01SwRegexes = []string{`/a+b/g`, `/[/]/`, `/\//`, `/[\]/]/`, `/(?<n>a)|b/u`, `/a/gimsuy`, `/^s$/`, `/[^a-z0-9]/i`, `/\d+\.\d*/`, `/(a)(b)?/`, `/[/\\]/g`,
	`/\u{1F600}/u`, `/a|b|/`, `/[a-z]{1,2}/y`, `/\bx\b/m`, `/./s`, `/=/`, `/[=]/`, `/\s*\/\*/`, `/(?:)/`, `/(?=s)s/`, `/(?<!a)0/`, `/[A-\x5a]/`, `/\//g`, `/[[]/`, `/a{2}/`, `/}/`, `/\$&/`, `/</`, `/<\/script>/i`}

func (g *c01SwG) regex() string { return g.pick(c01SwRegexes) }

var c01SwUndeclared = []string{"zz9", "undeclared1", "window", "nope", "module", "exports1"}

// ---------------------------------------------------------------- expressions

func (g *c01SwG) hostFn() string { return g.pick(c01SwHostFns) }

// args produces a call argument list (without parentheses)
// V8 rejects a valid destructuring assignment that stands unparenthesised in an argument list after an argument that
// is not itself a valid pattern (`h([0], [] = 0)`); a minifier legitimately removes the parentheses, so none is generated there.
func (g *c01SwG) args(d, max int) string {
	g.inArgs++
	defer func() { g.inArgs-- }()
	n := g.intn(max + 1)
	parts := make([]string, 0, n)
	for i := 0; i < n; i++ {
		switch {
		case g.chance(8):
			parts = append(parts, "..."+g.iterable(d-1))
		case g.chance(3): // bigints only meet bigints (mixed arithmetic throws from operators a minifier treats as pure)
			parts = append(parts, g.pick([]string{g.pick(c01SwBigs), g.pick(c01SwBigs) + " * " + g.pick(c01SwBigs), "typeof " + g.pick(c01SwBigs), "-" + g.pick(c01SwBigs), g.pick(c01SwBigs) + " ** 2n"}))
		default:
			parts = append(parts, g.expr(d-1, c01SwPAssign))
		}
	}
	return strings.Join(parts, ", ")
}

// iterable produces an expression that is (mostly) iterable
func (g *c01SwG) iterable(d int) string {
	switch g.intn(8) {
	case 0:
		return g.str()
	case 1:
		return g.readable()
	case 2:
		if fn := g.callable(c01SwFnGen); fn != nil {
			return g.callText(fn, d)
		}
	case 3:
		return "new Set([" + g.args(d, 3) + "])"
	}
	return g.arrayLit(d)
}

func (g *c01SwG) arrayLit(d int) string {
	n := g.intn(4)
	parts := make([]string, 0, n)
	for i := 0; i < n; i++ {
		switch {
		case g.chance(6):
			parts = append(parts, "")
		case g.chance(8):
			parts = append(parts, "..."+g.iterable(d-1))
		default:
			parts = append(parts, g.expr(d-1, c01SwPAssign))
		}
	}
	s := strings.Join(parts, ", ")
	if n > 0 && parts[n-1] == "" {
		s += ","
	}
	return "[" + s + "]"
}

var c01SwKeys = []string{"p", "q", "m", "x", "y", "n", "length", "a", "b"}
var c01SwOddKeys = []string{`"a b"`, `'c'`, `1`, `0x10`, `1e3`, `.5`, `"0"`, `"-1"`, `1n`, `"__proto__x"`, `if`, `get`, `set`, `async`, `static`, `new`, `"p"`, `'q'`, `1_0`, `"constructor"`}
var c01SwUserMethods = []string{"mA", "mB", "go", "run", "mC"}
var c01SwUserGetters = []string{"val", "gA", "gB"}

// objectLit produces an object literal; when meta != nil methods/getters with trackable names are recorded.
func (g *c01SwG) objectLit(d int, meta *c01SwClass) string {
	n := g.intn(4)
	if meta != nil {
		n += 2
	}
	var parts []string
	usedM := map[string]bool{}
	for i := 0; i < n; i++ {
		k := g.intn(100)
		switch {
		case k < 30:
			parts = append(parts, g.pick(c01SwKeys)+": "+g.expr(d-1, c01SwPAssign))
		case k < 40:
			key := g.pick(c01SwOddKeys)
			parts = append(parts, key+": "+g.expr(d-1, c01SwPAssign))
		case k < 48:
			parts = append(parts, "["+g.expr(d-1, c01SwPAssign)+"]: "+g.expr(d-1, c01SwPAssign))
		case k < 56:
			parts = append(parts, g.readable()) // shorthand
		case k < 62:
			parts = append(parts, "..."+g.expr(d-1, c01SwPAssign))
		case k < 80 && d > 1:
			name := g.pick(c01SwUserMethods)
			if usedM[name] {
				continue
			}
			usedM[name] = true
			kind := c01SwFnPlain
			pre := ""
			if g.chance(12) {
				kind, pre = c01SwFnGen, "*"
			} else if g.chance(8) {
				kind, pre = c01SwFnAsync, "async "
			}
			txt, fn := g.function(d-1, kind, "", &c01SwFctx{canReturn: true, argsOK: true, superOK: true, ntOK: true, limit: 30}, "method")
			parts = append(parts, pre+name+txt)
			if meta != nil {
				if kind == c01SwFnGen {
					meta.gens = append(meta.gens, name)
				} else if kind == c01SwFnPlain {
					meta.methods = append(meta.methods, name)
				}
			}
			_ = fn
		case k < 92 && d > 1:
			name := g.pick(c01SwUserGetters)
			if usedM[name] {
				continue
			}
			usedM[name] = true
			body := g.fnBody(d-1, &c01SwFctx{canReturn: true, argsOK: true, superOK: true}, nil, 2)
			parts = append(parts, "get "+name+"()"+body)
			if meta != nil {
				meta.getters = append(meta.getters, name)
			}
			if g.chance(60) {
				pn := g.fresh("s")
				body := g.fnBody(d-1, &c01SwFctx{canReturn: true, argsOK: true, superOK: true}, []string{pn}, 2)
				parts = append(parts, "set "+name+"("+pn+")"+body)
				if meta != nil {
					meta.setters = append(meta.setters, name)
				}
			}
		default:
			parts = append(parts, g.pick(c01SwKeys)+": "+g.atom(c01SwPAssign))
		}
	}
	if len(parts) == 0 {
		return "{}"
	}
	s := strings.Join(parts, ", ")
	if g.chance(10) {
		s += ","
	}
	return "{" + s + "}"
}

func (g *c01SwG) template(d int) string {
	var b strings.Builder
	b.WriteByte('`')
	n := 1 + g.intn(3)
	chunks := []string{"a", "", " ", "\\n", "\\`", "\\${", "$", "{", "</script>", "'", "\"", "\\\\", "x\ny", "\\u{41}", "\\x41", "${", "}", "$$", "\\0", "<!--"}
	for i := 0; i < n; i++ {
		c := g.pick(chunks)
		if c == "${" {
			c = "\\${"
		}
		b.WriteString(c)
		if i < n-1 || g.chance(50) {
			b.WriteString("${")
			if d > 1 && g.chance(15) {
				b.WriteString(g.template(d - 1))
			} else {
				b.WriteString(g.expr(d-1, c01SwPComma))
			}
			b.WriteString("}")
		}
	}
	b.WriteByte('`')
	return b.String()
}

func (g *c01SwG) atom(prec int) string {
	k := g.intn(100)
	switch {
	case k < 34:
		return g.readable()
	case k < 52:
		n := g.num()
		if strings.HasPrefix(n, "-") {
			return c01SwWrap(n, c01SwPUnary, prec)
		}
		return n
	case k < 64:
		return g.str()
	case k < 70:
		w := g.pick([]string{"undefined", "NaN", "Infinity"})
		return w
	case k < 76:
		return g.pick([]string{"null", "true", "false"})
	case k < 80:
		return g.pick(c01SwHostObjs)
	case k < 83:
		return "this"
	case k < 86:
		return c01SwWrap("typeof "+g.pick(c01SwUndeclared), c01SwPUnary, prec)
	case k < 89:
		if g.f().argsOK && g.inParams == 0 {
			return g.pick([]string{"arguments[0]", "arguments.length", "arguments[1]"})
		}
		return "[]"
	case k < 92:
		return g.pick(c01SwNumMember)
	case k < 94:
		return g.regex() + g.pick([]string{".source", ".flags", ".lastIndex", ".global"})
	case k < 96:
		return c01SwWrap("void 0", c01SwPUnary, prec)
	case k < 98:
		return "{}"
	}
	return g.hostFn() + "()"
}

var c01SwBinOps = []struct {
	op   string
	prec int
}{
	{"+", c01SwPAdd}, {"-", c01SwPAdd}, {"*", c01SwPMul}, {"/", c01SwPMul}, {"%", c01SwPMul}, {"<<", c01SwPShift}, {">>", c01SwPShift}, {">>>", c01SwPShift},
	{"<", c01SwPRel}, {">", c01SwPRel}, {"<=", c01SwPRel}, {">=", c01SwPRel}, {"==", c01SwPEq}, {"!=", c01SwPEq}, {"===", c01SwPEq}, {"!==", c01SwPEq},
	{"&", c01SwPBitAnd}, {"^", c01SwPBitXor}, {"|", c01SwPBitOr}, {"+", c01SwPAdd}, {"-", c01SwPAdd}, {"===", c01SwPEq}, {"<", c01SwPRel}, {"+", c01SwPAdd},
}
var c01SwAssignOps = []string{"=", "=", "=", "=", "+=", "-=", "*=", "/=", "%=", "**=", "<<=", ">>=", ">>>=", "&=", "|=", "^=", "&&=", "||=", "??=", "&&=", "||=", "??="}

// ws returns a separator that is sometimes a newline (ASI-sensitive adjacency that continues the expression)
func (g *c01SwG) ws() string {
	if g.chance(6) {
		return "\n"
	}
	return " "
}

// target produces a simple assignment target
func (g *c01SwG) target(d int) string {
	k := g.intn(100)
	switch {
	case k < 60:
		return g.assignable()
	case k < 80:
		return g.pick(c01SwHostObjs) + "." + g.pick(c01SwHostProps[:5])
	case k < 90:
		return g.readable() + "[" + g.expr(d-1, c01SwPComma) + "]"
	}
	return g.readable() + "." + g.pick(c01SwHostProps[:5])
}

// pattern produces a destructuring pattern.  decl: declare fresh bindings (names collected in *names), else assign to targets.
func (g *c01SwG) pattern(d int, decl bool, names *[]string, arr bool) string {
	leaf := func() string {
		var t string
		if decl {
			t = g.fresh("d")
			*names = append(*names, t)
		} else {
			t = g.target(1)
		}
		if g.chance(30) {
			g.inParams++ // initialisers of a pattern: no yield/await/arguments tricks
			t += " = " + g.expr(c01SwMin(d-1, 1), c01SwPAssign)
			g.inParams--
		}
		return t
	}
	elem := func() string {
		if d > 1 && g.chance(25) {
			p := g.pattern(d-1, decl, names, g.chance(50))
			if g.chance(50) {
				if strings.HasPrefix(p, "[") {
					p += " = []"
				} else {
					p += " = {}"
				}
			}
			return p
		}
		return leaf()
	}
	n := 1 + g.intn(3)
	var parts []string
	if arr {
		for i := 0; i < n; i++ {
			if g.chance(10) {
				parts = append(parts, "")
			} else {
				parts = append(parts, elem())
			}
		}
		if g.chance(25) {
			if decl {
				t := g.fresh("d")
				*names = append(*names, t)
				parts = append(parts, "..."+t)
			} else {
				parts = append(parts, "..."+g.target(1))
			}
		} else if parts[len(parts)-1] == "" {
			parts = append(parts, "")
		}
		return "[" + strings.Join(parts, ", ") + "]"
	}
	for i := 0; i < n; i++ {
		key := g.pick(c01SwKeys)
		switch {
		case g.chance(12):
			parts = append(parts, "["+g.expr(1, c01SwPAssign)+"]: "+elem())
		case g.chance(10):
			parts = append(parts, g.pick([]string{`"a b"`, `0`, `1`, `'p'`})+": "+elem())
		case decl && g.chance(35):
			// shorthand binding of a property name: only if the name can be declared (handled by caller via fresh names) -> use key: name
			parts = append(parts, key+": "+elem())
		case !decl && g.chance(25):
			nm := g.assignable()
			if strings.Contains(nm, ".") {
				parts = append(parts, key+": "+nm)
			} else {
				parts = append(parts, nm) // shorthand
			}
		default:
			parts = append(parts, key+": "+elem())
		}
	}
	if g.chance(20) {
		if decl {
			t := g.fresh("d")
			*names = append(*names, t)
			parts = append(parts, "..."+t)
		} else {
			parts = append(parts, "..."+g.assignable())
		}
	}
	return "{" + strings.Join(parts, ", ") + "}"
}

func c01SwMin(a, b int) int {
	if a < b {
		return a
	}
	return b
}

// patternSource produces a value to destructure
func (g *c01SwG) patternSource(d int, arr bool) string {
	if g.chance(20) {
		return g.expr(d-1, c01SwPAssign)
	}
	if arr {
		return g.arrayLit(d)
	}
	return g.objectLit(c01SwMin(d, 1), nil)
}

// callable returns a visible program function of the given kind that fits the cost budget (nil if none)
func (g *c01SwG) callable(kind int) *c01SwFunc {
	var cands []*c01SwFunc
	fc := g.f()
	for _, v := range g.visible() {
		if v.fn != nil && v.fn.kind == kind && g.banned[v.name] == 0 && fc.cost+fc.mult*v.fn.cost <= fc.limit {
			cands = append(cands, v.fn)
		}
	}
	if len(cands) == 0 {
		return nil
	}
	return cands[g.intn(len(cands))]
}

func (g *c01SwG) callText(fn *c01SwFunc, d int) string {
	fc := g.f()
	fc.cost += fc.mult * fn.cost
	g.use(fn.name)
	g.inArgs++
	defer func() { g.inArgs-- }()
	var parts []string
	n := fn.np
	if g.chance(15) {
		n += g.intn(3) - 1
	}
	for i := 0; i < n; i++ {
		t := 0
		if i < len(fn.ptypes) {
			t = fn.ptypes[i]
		}
		switch {
		case t == 1 && g.chance(85):
			parts = append(parts, g.objectLit(1, nil))
		case t == 2 && g.chance(85):
			parts = append(parts, g.arrayLit(c01SwMin(d, 2)))
		case g.chance(6):
			parts = append(parts, "..."+g.arrayLit(c01SwMin(d, 2)))
		default:
			parts = append(parts, g.expr(d-1, c01SwPAssign))
		}
	}
	s := fn.name + "(" + strings.Join(parts, ", ") + ")"
	if fn.retFn {
		s += "(" + g.args(d, 2) + ")"
	}
	return s
}

// instance returns a visible tracked instance / object literal binding
func (g *c01SwG) instance() *c01SwVar {
	var cands []*c01SwVar
	for _, v := range g.visible() {
		if v.inst != nil && g.banned[v.name] == 0 {
			cands = append(cands, v)
		}
	}
	if len(cands) == 0 {
		return nil
	}
	return cands[g.intn(len(cands))]
}

func (g *c01SwG) class() *c01SwVar {
	var cands []*c01SwVar
	for _, v := range g.visible() {
		if v.cls != nil && g.banned[v.name] == 0 {
			cands = append(cands, v)
		}
	}
	if len(cands) == 0 {
		return nil
	}
	return cands[g.intn(len(cands))]
}

// instanceUse produces an expression using a tracked instance
func (g *c01SwG) instanceUse(v *c01SwVar, d int) string {
	c := v.inst
	g.use(v.name)
	fc := g.f()
	k := g.intn(100)
	switch {
	case k < 45 && len(c.methods) > 0 && fc.cost+fc.mult*8 <= fc.limit:
		fc.cost += fc.mult * 8
		return v.name + g.pick([]string{".", ".", "?."}) + g.pick(c.methods) + "(" + g.args(d, 2) + ")"
	case k < 60 && len(c.getters) > 0 && fc.cost+fc.mult*4 <= fc.limit:
		fc.cost += fc.mult * 4
		return v.name + "." + g.pick(c.getters)
	case k < 72 && len(c.setters) > 0 && fc.cost+fc.mult*4 <= fc.limit:
		fc.cost += fc.mult * 4
		return "(" + v.name + "." + g.pick(c.setters) + " = " + g.expr(d-1, c01SwPAssign) + ")"
	case k < 84 && len(c.gens) > 0 && fc.cost+fc.mult*8 <= fc.limit:
		fc.cost += fc.mult * 8
		return "[..." + v.name + "." + g.pick(c.gens) + "(" + g.args(d, 1) + ")]"
	case k < 92:
		return v.name + "." + g.pick(c01SwKeys)
	}
	return v.name
}

func (g *c01SwG) expr(d, prec int) string {
	s, p := g.expr1(d)
	if g.chance(4) {
		return "(" + s + ")"
	}
	return c01SwWrap(s, p, prec)
}

func (g *c01SwG) expr1(d int) (string, int) {
	g.nodes++
	if d <= 0 || g.nodes > g.maxNodes {
		return g.atom(c01SwPPrimary), c01SwPPrimary
	}
	fc := g.f()
	k := g.intn(100)
	switch {
	case k < 10:
		return g.atom(c01SwPPrimary), c01SwPPrimary
	case k < 26: // host call
		return g.hostFn() + g.callWs() + "(" + g.args(d, 3) + ")", c01SwPCall
	case k < 32: // method call on host object / value
		o := g.pick(c01SwHostObjs)
		if g.chance(40) {
			o = g.readable()
		}
		m := g.pick(c01SwHostProps[:4])
		switch g.intn(8) {
		case 0:
			return o + "?." + m + "(" + g.args(d, 2) + ")", c01SwPCall
		case 1:
			return o + "." + m + "?.(" + g.args(d, 2) + ")", c01SwPCall
		case 2:
			return o + "?.[" + `"` + m + `"` + "](" + g.args(d, 2) + ")", c01SwPCall
		case 3:
			return o + `["` + m + `"](` + g.args(d, 2) + ")", c01SwPCall
		case 4:
			return o + "." + m + "." + g.pick(c01SwHostProps[:4]) + "(" + g.args(d, 2) + ")", c01SwPCall
		}
		return o + "." + m + "(" + g.args(d, 2) + ")", c01SwPCall
	case k < 38: // member access
		o := g.readable()
		if g.chance(30) {
			o = g.pick(c01SwHostObjs)
		}
		if g.chance(12) {
			o = g.hostFn() + "(" + g.args(d, 1) + ")"
		}
		switch g.intn(8) {
		case 0:
			return o + "?." + g.pick(c01SwHostProps), c01SwPCall
		case 1:
			return o + "?.[" + g.expr(d-1, c01SwPComma) + "]", c01SwPCall
		case 2:
			return o + "[" + g.expr(d-1, c01SwPComma) + "]", c01SwPCall
		case 3:
			return o + "?." + g.pick(c01SwHostProps) + "." + g.pick(c01SwHostProps), c01SwPCall
		case 4:
			return o + "." + g.pick(c01SwHostProps) + "?." + g.pick(c01SwHostProps), c01SwPCall
		case 5:
			return o + "\n[" + g.expr(d-1, c01SwPComma) + "]", c01SwPCall
		}
		return o + "." + g.pick(c01SwHostProps), c01SwPCall
	case k < 44: // program function call / instance use / value call
		switch g.intn(6) {
		case 0, 1, 2:
			if fn := g.callable(c01SwFnPlain); fn != nil {
				return g.callText(fn, d), c01SwPCall
			}
			if fn := g.callable(c01SwFnArrow); fn != nil {
				return g.callText(fn, d), c01SwPCall
			}
		case 3:
			if v := g.instance(); v != nil {
				s := g.instanceUse(v, d)
				return s, c01SwPCall
			}
		case 4:
			if fn := g.callable(c01SwFnGen); fn != nil {
				if g.chance(50) {
					return "[..." + g.callText(fn, d) + "]", c01SwPPrimary
				}
				return g.callText(fn, d) + ".next(" + g.args(d, 1) + ").value", c01SwPCall
			}
		case 5:
			if fn := g.callable(c01SwFnAsync); fn != nil {
				h1 := g.hostFn()
				pn := g.fresh("r")
				return g.callText(fn, d) + ".then(" + pn + " => " + h1 + "(" + pn + "), " + pn + " => " + g.hostFn() + "(" + pn + "))", c01SwPCall
			}
		}
		v := g.readable()
		if g.chance(60) {
			return v + "?.(" + g.args(d, 2) + ")", c01SwPCall
		}
		return g.hostFn() + "(" + g.args(d, 1) + ")" + g.callWs() + "(" + g.args(d, 1) + ")", c01SwPCall
	case k < 55: // binary
		if g.chance(8) {
			l := g.expr(d-1, c01SwPUpdate)
			r := g.expr(d-1, c01SwPExp)
			return l + " ** " + r, c01SwPExp
		}
		if g.chance(8) {
			l := g.expr(d-1, c01SwPRel)
			if strings.HasPrefix(l, "{") {
				l = "(" + l + ")"
			}
			if g.chance(50) {
				rhs := g.pick([]string{g.hostFn(), "Object", "Array", "Error", "Function"})
				if v := g.class(); v != nil && g.chance(50) {
					rhs = v.name
					g.use(rhs)
				}
				return l + " instanceof " + rhs, c01SwPRel
			}
			return l + " in " + g.pick([]string{"o1", "o2", "{p: 1}", "[1, 2]", "o1", "{[" + g.readable() + "]: 1}"}), c01SwPRel
		}
		op := c01SwBinOps[g.intn(len(c01SwBinOps))]
		l := g.expr(d-1, op.prec)
		r := g.expr(d-1, op.prec+1)
		return l + g.ws() + op.op + " " + r, op.prec
	case k < 61: // logical
		switch g.intn(3) {
		case 0:
			return g.expr(d-1, c01SwPOr) + " || " + g.expr(d-1, c01SwPAnd), c01SwPOr
		case 1:
			return g.expr(d-1, c01SwPAnd) + " && " + g.expr(d-1, c01SwPBitOr), c01SwPAnd
		}
		if g.chance(20) {
			return g.expr(d-1, c01SwPBitOr) + " ?? " + g.expr(d-1, c01SwPBitOr) + " ?? " + g.expr(d-1, c01SwPBitOr), c01SwPCond
		}
		return g.expr(d-1, c01SwPBitOr) + " ?? " + g.expr(d-1, c01SwPBitOr), c01SwPCond
	case k < 66: // conditional
		return g.expr(d-1, c01SwPOr) + " ? " + g.expr(d-1, c01SwPAssign) + " : " + g.expr(d-1, c01SwPAssign), c01SwPCond
	case k < 75: // assignment
		if d > 1 && g.chance(15) && g.inArgs == 0 {
			arr := g.chance(50)
			pat := g.pattern(2, false, nil, arr)
			s := pat + " = " + g.patternSource(d, arr)
			return "(" + s + ")", c01SwPPrimary
		}
		op := g.pick(c01SwAssignOps)
		return g.target(d) + " " + op + " " + g.expr(d-1, c01SwPAssign), c01SwPAssign
	case k < 78: // update
		t := g.target(d)
		switch g.intn(4) {
		case 0:
			return t + "++", c01SwPUpdate
		case 1:
			return t + "--", c01SwPUpdate
		case 2:
			return "++" + t, c01SwPUnary
		}
		return "--" + t, c01SwPUnary
	case k < 84: // unary
		op := g.pick([]string{"!", "-", "+", "~", "typeof ", "void ", "!", "-", "!!"})
		if op == "void " && c01SwAv("K3-pure-binary") {
			op = "!"
		}
		e := g.expr(d-1, c01SwPUnary)
		if (op == "-" || op == "+") && (strings.HasPrefix(e, op)) {
			e = " " + e
		}
		if g.chance(12) {
			o := g.pick(c01SwHostObjs)
			if g.chance(40) {
				o = g.readable()
			}
			if g.chance(50) {
				return "delete " + o + "." + g.pick(c01SwHostProps[:5]), c01SwPUnary
			}
			return "delete " + o + "[" + g.expr(d-1, c01SwPComma) + "]", c01SwPUnary
		}
		if fc.async && g.inParams == 0 && g.chance(30) {
			return "await " + e, c01SwPUnary
		}
		return op + e, c01SwPUnary
	case k < 87: // comma
		return g.expr(d-1, c01SwPAssign) + ", " + g.expr(d-1, c01SwPAssign), c01SwPComma
	case k < 90:
		return g.arrayLit(d), c01SwPPrimary
	case k < 93:
		return g.objectLit(d, nil), c01SwPPrimary
	case k < 96: // templates
		if g.chance(35) {
			return g.hostFn() + g.pick([]string{"", "", "\n", " "}) + g.template(d), c01SwPCall
		}
		return g.template(d), c01SwPPrimary
	case k < 98: // new
		switch g.intn(5) {
		case 0:
			return "new " + g.hostFn(), c01SwPCall
		case 1:
			if v := g.class(); v != nil && fc.cost+fc.mult*10 <= fc.limit {
				fc.cost += fc.mult * 10
				g.use(v.name)
				return "new " + v.name + "(" + g.args(d, v.cls.nctor) + ")", c01SwPCall
			}
		case 2:
			return "new (" + g.hostFn() + "(" + g.args(d, 1) + "))(" + g.args(d, 1) + ")", c01SwPCall
		case 3:
			return "new " + g.pick(c01SwHostObjs) + "." + g.pick(c01SwHostProps[:4]) + "(" + g.args(d, 1) + ")", c01SwPCall
		}
		return "new " + g.hostFn() + "(" + g.args(d, 2) + ")", c01SwPCall
	}
	return g.special(d)
}

func (g *c01SwG) callWs() string {
	if g.chance(3) {
		return "\n"
	}
	return ""
}

var c01SwBuiltins = []string{".map(%s)", ".forEach(%s)", ".filter(%s)", ".some(%s)", ".find(%s)", ".reduce(%s, 0)", ".flatMap(%s)"}

// special: closures, IIFEs, callbacks, regex uses, yield, misc
func (g *c01SwG) special(d int) (string, int) {
	fc := g.f()
	k := g.intn(100)
	switch {
	case k < 25 && d > 1 && fc.cost+fc.mult*10 <= fc.limit: // IIFE
		inner := &c01SwFctx{canReturn: true, argsOK: true, ntOK: true, limit: c01SwMax(4, (fc.limit-fc.cost)/fc.mult)}
		if g.chance(50) {
			inner.argsOK, inner.ntOK = fc.argsOK, fc.ntOK
			txt, fn := g.function(d-1, c01SwFnArrow, "", inner, "arrow")
			fc.cost += fc.mult * fn.cost
			return "(" + txt + ")(" + g.args(d, fn.np) + ")", c01SwPCall
		}
		txt, fn := g.function(d-1, c01SwFnPlain, "", inner, "expr")
		fc.cost += fc.mult * fn.cost
		switch g.intn(4) {
		case 0:
			return "(function" + txt + "(" + g.args(d, fn.np) + "))", c01SwPPrimary
		case 1:
			return "(function" + txt + ").call(" + g.pick(c01SwHostObjs) + ", " + g.expr(d-1, c01SwPAssign) + ")", c01SwPCall
		}
		return "(function" + txt + ")(" + g.args(d, fn.np) + ")", c01SwPCall
	case k < 45 && d > 1 && fc.cost+fc.mult*12 <= fc.limit: // builtin with callback
		inner := &c01SwFctx{canReturn: true, argsOK: fc.argsOK, ntOK: fc.ntOK, limit: c01SwMax(4, (fc.limit-fc.cost)/(fc.mult*3))}
		txt, fn := g.function(c01SwMin(d-1, 2), c01SwFnArrow, "", inner, "arrow")
		fc.cost += fc.mult * 3 * fn.cost
		arr := g.pick([]string{"[1, 2, 3]", "[a, b]", "[0, 1]", `"ab".split("")`, "Object.keys({p: 1, q: 2})", "Array.from({length: 2})", "[...\"xy\"]"})
		return g.hostFn() + "(" + arr + fmt.Sprintf(g.pick(c01SwBuiltins), txt) + ")", c01SwPCall
	case k < 58: // regex use
		re := g.regex()
		s := g.pick([]string{g.str(), g.readable(), `"a/b"`, `"aab"`, `"s0"`})
		switch g.intn(5) {
		case 0:
			return re + ".exec(" + s + ")", c01SwPCall
		case 1:
			return "String(" + s + ").replace(" + re + ", " + g.str() + ")", c01SwPCall
		case 2:
			return "String(" + s + ").match(" + re + ")", c01SwPCall
		case 3:
			return "String(" + s + ").split(" + re + ")", c01SwPCall
		}
		return re + ".test(" + s + ")", c01SwPCall
	case k < 68:
		if fc.gen && g.inParams == 0 {
			if g.chance(25) {
				return "yield* " + g.iterable(d-1), c01SwPAssign
			}
			if g.chance(15) {
				return "yield", c01SwPAssign
			}
			return "yield " + g.expr(d-1, c01SwPAssign), c01SwPAssign
		}
		return "[" + g.args(d, 2) + "].length", c01SwPCall
	case k < 76:
		if fc.ntOK && g.chance(30) && g.inParams == 0 {
			return "new.target", c01SwPCall
		}
		return g.pick([]string{"Object.keys(", "JSON.stringify(", "Array.isArray(", "String(", "Number(", "Boolean(", "Object.entries(", "Array.from("}) + g.expr(d-1, c01SwPAssign) + ")", c01SwPCall
	case k < 84:
		if fc.superOK && g.inParams == 0 {
			return "super." + g.pick([]string{"mA", "mB", "x", "val"}), c01SwPCall
		}
		return g.pick(c01SwNumMember), c01SwPCall
	case k < 90:
		if len(g.priv) > 0 && len(g.priv[len(g.priv)-1]) > 0 && g.inParams == 0 {
			p := g.pick(g.priv[len(g.priv)-1])
			if g.chance(25) {
				return "this." + p + " = " + g.expr(d-1, c01SwPAssign), c01SwPAssign
			}
			return "this." + p, c01SwPCall
		}
		return "this." + g.pick(c01SwKeys), c01SwPCall
	case k < 95:
		// object with coercion hooks
		ob := "{valueOf() { return " + g.hostFn() + "(" + g.atom(c01SwPAssign) + "), 1 }, toString() { return \"t\" }}"
		if g.chance(30) {
			return "`${" + ob + "}`", c01SwPPrimary
		}
		return g.pick([]string{"+", "1 + ", "\"\" + ", "2 * "}) + ob, c01SwPUnary
	}
	return g.hostFn() + "(" + g.expr(d-1, c01SwPAssign) + ", " + g.expr(d-1, c01SwPAssign) + ")", c01SwPCall
}

func c01SwMax(a, b int) int {
	if a > b {
		return a
	}
	return b
}

// ---------------------------------------------------------------- functions and classes

// params declares the parameters of the function whose scope has just been pushed and returns the list text.
func (g *c01SwG) params(d int, fn *c01SwFunc, form string) string {
	n := g.intn(4)
	if form == "arrow" && g.chance(30) {
		n = 1
	}
	fc := g.f()
	var parts []string
	seen := map[string]bool{}
	simple := true
	name := func() string {
		for try := 0; try < 6; try++ {
			var nm string
			switch k := g.intn(100); {
			case k < 45:
				nm = g.pick(c01SwPoolVars)
			case k < 50 && form != "arrow" && !g.strict && !c01SwAv("S7-shadow-global"):
				nm = g.pick([]string{"undefined", "NaN", "Infinity"})
			default:
				nm = g.fresh("p")
			}
			if (nm == "undefined" || nm == "NaN" || nm == "Infinity") && strings.Contains(strings.Join(parts, ","), nm) {
				continue // an earlier default reads the global of that name (TDZ)
			}
			if !seen[nm] && g.banned[nm] == 0 && !g.cur().used[nm] { // not read by the default of an earlier parameter (TDZ)
				seen[nm] = true
				return nm
			}
		}
		return g.fresh("p")
	}
	declare := func(nm string) {
		fc.kinds[nm] = 1
		g.cur().vars = append(g.cur().vars, &c01SwVar{name: nm})
		if nm == "undefined" || nm == "NaN" || nm == "Infinity" {
			fc.shadowed[nm] = true
		}
	}
	g.inParams++
	for i := 0; i < n; i++ {
		k := g.intn(100)
		switch {
		case i == n-1 && k < 15:
			nm := name()
			parts = append(parts, "..."+nm)
			declare(nm)
			fn.ptypes = append(fn.ptypes, 0)
			simple = false
		case k < 35:
			nm := name()
			parts = append(parts, nm+" = "+g.expr(c01SwMin(d-1, 2), c01SwPAssign))
			declare(nm)
			fn.defNames = append(fn.defNames, nm)
			fn.ptypes = append(fn.ptypes, 0)
			simple = false
		case k < 50 && d > 0:
			arr := g.chance(50)
			var names []string
			p := g.pattern(2, true, &names, arr)
			if g.chance(60) {
				if arr {
					p += " = []"
				} else {
					p += " = {}"
				}
			}
			parts = append(parts, p)
			for _, nm := range names {
				declare(nm)
			}
			if arr {
				fn.ptypes = append(fn.ptypes, 2)
			} else {
				fn.ptypes = append(fn.ptypes, 1)
			}
			simple = false
		default:
			nm := name()
			parts = append(parts, nm)
			declare(nm)
			fn.ptypes = append(fn.ptypes, 0)
		}
	}
	g.inParams--
	fn.np = n
	if form == "arrow" && n == 1 && simple && g.chance(70) {
		return parts[0]
	}
	return "(" + strings.Join(parts, ", ") + ")"
}

// function produces "(params) {body}" (or "params => body" for arrows) and its metadata; fc is the fresh function context.
func (g *c01SwG) function(d, kind int, name string, fc *c01SwFctx, form string) (string, *c01SwFunc) {
	fc.gen = kind == c01SwFnGen
	fc.async = kind == c01SwFnAsync || fc.async
	inArgs := g.inArgs
	g.inArgs = 0
	defer func() { g.inArgs = inArgs }()
	g.pushF(fc)
	g.push(true)
	fn := &c01SwFunc{name: name, kind: kind}
	ptxt := g.params(d, fn, form)
	s1 := c01SwAv("S1-param-default") && len(fn.defNames) > 0
	if s1 {
		fc.argsOK = false // a dropped default would change the aliasing of `arguments`
	}
	var txt string
	if form == "arrow" {
		if g.chance(50) && !s1 {
			e := g.expr(d, c01SwPAssign)
			if strings.HasPrefix(e, "{") {
				e = "(" + e + ")"
			}
			txt = ptxt + " => " + e
		} else {
			txt = ptxt + " => " + g.body(d, fn)
		}
		if fc.async {
			txt = "async " + txt
		}
	} else {
		txt = ptxt + " " + g.body(d, fn)
	}
	g.pop()
	g.popF()
	fn.cost = c01SwMax(1, fc.cost)
	return txt, fn
}

// body produces the braces and statements of the current function (scope already pushed)
func (g *c01SwG) body(d int, fn *c01SwFunc) string {
	fc := g.f()
	if form := g.intn(100); form < 25 && !g.strict {
		// plan vars that are used before their declaration
		for i := 0; i <= g.intn(2); i++ {
			nm := g.fresh("v")
			fc.planned = append(fc.planned, nm)
			g.declVar(&c01SwVar{name: nm})
		}
	} else if form < 50 {
		nm := g.fresh("v")
		fc.planned = append(fc.planned, nm)
		g.declVar(&c01SwVar{name: nm})
	}
	var list []c01SwStmt
	if g.chance(6) && !g.strict && len(fc.shadowed) == 0 && !c01SwAv("S7-shadow-global") {
		w := g.pick([]string{"undefined", "NaN", "Infinity"})
		if fc.kinds[w] == 0 {
			fc.shadowed[w] = true
			g.declVar(&c01SwVar{name: w})
			list = append(list, c01SwStmt{"var " + w + " = " + g.atom(c01SwPAssign), true})
		}
	}
	if pre := g.s1Use(fn); pre != "" {
		list = append(list, c01SwStmt{pre, true})
	}
	n := 1 + g.intn(4)
	list = append(list, g.stmtList(d, n, true)...)
	if fc.gen {
		list = append(list, c01SwStmt{"yield " + g.expr(c01SwMin(d, 2), c01SwPAssign), true})
	}
	if fc.canReturn && g.chance(75) {
		if fn != nil && fn.kind == c01SwFnPlain && fn.name != "" && d > 1 && g.chance(12) {
			inner := &c01SwFctx{canReturn: true, argsOK: true, ntOK: true, limit: 20}
			if g.chance(50) {
				txt, f2 := g.function(d-1, c01SwFnPlain, "", inner, "expr")
				list = append(list, c01SwStmt{"return function" + txt, true})
				fc.cost += f2.cost
			} else {
				inner.argsOK, inner.ntOK = fc.argsOK, fc.ntOK
				txt, f2 := g.function(d-1, c01SwFnArrow, "", inner, "arrow")
				list = append(list, c01SwStmt{"return " + txt, true})
				fc.cost += f2.cost
			}
			fn.retFn = true
		} else {
			list = append(list, c01SwStmt{"return " + g.retVal(c01SwMin(d, 3)), true})
		}
	}
	for _, nm := range fc.planned {
		list = append(list, c01SwStmt{"var " + nm, true})
	}
	fc.planned = nil
	return "{" + g.join(list, true) + "}"
}

// s1Use: (S1) a statement that uses every simple parameter that has a default value
func (g *c01SwG) s1Use(fn *c01SwFunc) string {
	if fn == nil || len(fn.defNames) == 0 || !c01SwAv("S1-param-default") {
		return ""
	}
	for _, nm := range fn.defNames {
		g.use(nm)
	}
	return g.hostFn() + "(" + strings.Join(fn.defNames, ", ") + ")"
}

// retVal produces the operand of a return statement; (K1) never a literal undefined / void
func (g *c01SwG) retVal(d int) string {
	if !c01SwAv("K1-return-undefined") {
		return g.expr(d, c01SwPComma)
	}
	for try := 0; try < 6; try++ {
		e := g.expr(d, c01SwPAssign)
		if !strings.Contains(e, "undefined") && !strings.Contains(e, "void") {
			return e
		}
	}
	return g.hostFn() + "(" + g.readable() + ")"
}

// fnBody produces a whole small function body for accessors: pushes context and scope itself
func (g *c01SwG) fnBody(d int, fc *c01SwFctx, params []string, n int) string {
	fc.ntOK = true
	g.pushF(fc)
	g.push(true)
	for _, p := range params {
		fc.kinds[p] = 1
		g.cur().vars = append(g.cur().vars, &c01SwVar{name: p})
	}
	list := g.stmtList(c01SwMin(d, 2), g.intn(n), true)
	if len(params) == 0 {
		list = append(list, c01SwStmt{"return " + g.retVal(c01SwMin(d, 2)), true})
	} else {
		list = append(list, c01SwStmt{g.hostFn() + "(" + params[0] + ")", true})
	}
	g.pop()
	g.popF()
	return " {" + g.join(list, true) + "}"
}

// funcDecl produces a function declaration and registers it in the current scope (var-kind at function level, lexical in blocks)
func (g *c01SwG) funcDecl(d int, register bool) (string, *c01SwVar) {
	kind := c01SwFnPlain
	switch k := g.intn(100); {
	case k < 18:
		kind = c01SwFnGen
	case k < 26:
		kind = c01SwFnAsync
	}
	name := g.fresh("t")
	fc := &c01SwFctx{canReturn: true, argsOK: true, ntOK: true}
	txt, fn := g.function(d, kind, name, fc, "decl")
	pre := "function "
	if kind == c01SwFnGen {
		pre = "function* "
	} else if kind == c01SwFnAsync {
		pre = "async function "
	}
	v := &c01SwVar{name: name, ro: true, fn: fn}
	if register {
		g.registerFn(v)
	}
	return pre + name + txt, v
}

func (g *c01SwG) registerFn(v *c01SwVar) {
	if g.cur().fnBoundary {
		g.declVar(v)
	} else {
		g.declLex(v)
	}
}

// classDecl produces a class declaration (or expression text after `class`), registering private names while generating
func (g *c01SwG) classDecl(d int) (string, *c01SwVar) {
	name := g.fresh("C")
	c := &c01SwClass{name: name}
	var base *c01SwVar
	ext := ""
	switch k := g.intn(100); {
	case k < 25:
		if base = g.class(); base != nil {
			ext = " extends " + base.name
			g.use(base.name)
		}
	case k < 32:
		ext = " extends " + g.pick([]string{"Array", "Error", "Object", "Map"})
	case k < 35:
		ext = " extends " + g.hostFn()
	case k < 37:
		ext = " extends null"
	}
	derived := ext != ""
	var privs []string
	np := g.intn(3)
	for i := 0; i < np; i++ {
		privs = append(privs, "#"+g.pick([]string{"p", "q", "x", "a"})+fmt.Sprint(i))
	}
	g.priv = append(g.priv, privs)
	g.inClass++
	defer func() { g.priv = g.priv[:len(g.priv)-1]; g.inClass-- }()
	fieldCtx := func() *c01SwFctx { return &c01SwFctx{argsOK: false, superOK: derived, ntOK: true, limit: 20} }
	fieldExpr := func() string {
		fc := fieldCtx()
		g.pushF(fc)
		g.push(true)
		e := g.expr(c01SwMin(d, 2), c01SwPAssign)
		g.pop()
		g.popF()
		return e
	}
	var parts []string
	for _, p := range privs {
		parts = append(parts, p+" = "+fieldExpr()+";")
	}
	nm := 1 + g.intn(5)
	usedM := map[string]bool{}
	hasCtor := false
	for i := 0; i < nm; i++ {
		k := g.intn(100)
		switch {
		case k < 14:
			parts = append(parts, g.pick(c01SwKeys)+" = "+fieldExpr()+";")
		case k < 20:
			key := g.pick([]string{`"a b"`, `1`, `[` + g.atom(c01SwPAssign) + `]`, `'q'`, `0x10`})
			parts = append(parts, key+" = "+fieldExpr()+";")
		case k < 28:
			sname := g.pick([]string{"s1", "s2", "sx"})
			if usedM[sname] {
				continue
			}
			usedM[sname] = true
			parts = append(parts, "static "+sname+" = "+fieldExpr()+";")
			c.statics = append(c.statics, sname)
		case k < 31:
			parts = append(parts, g.pick(c01SwKeys)+";")
		case k < 42 && !hasCtor:
			hasCtor = true
			fc := &c01SwFctx{canReturn: false, argsOK: true, superOK: derived, ntOK: true, limit: 30}
			g.pushF(fc)
			g.push(true)
			fn := &c01SwFunc{}
			ptxt := g.params(d, fn, "ctor")
			var list []c01SwStmt
			if c01SwAv("S1-param-default") && len(fn.defNames) > 0 {
				fc.argsOK = false
			}
			if derived {
				list = append(list, c01SwStmt{"super(" + g.args(c01SwMin(d, 2), 2) + ")", true})
			}
			if pre := g.s1Use(fn); pre != "" {
				list = append(list, c01SwStmt{pre, true})
			}
			list = append(list, c01SwStmt{"this." + g.pick(c01SwKeys) + " = " + g.expr(c01SwMin(d, 2), c01SwPAssign), true})
			list = append(list, g.stmtList(c01SwMin(d, 2), g.intn(3), true)...)
			for _, nm := range fc.planned {
				list = append(list, c01SwStmt{"var " + nm, true})
			}
			g.pop()
			g.popF()
			if ext == " extends null" {
				continue
			}
			c.nctor = fn.np
			parts = append(parts, "constructor"+ptxt+" {"+g.join(list, true)+"}")
		case k < 64:
			mname := g.pick(c01SwUserMethods)
			if usedM[mname] {
				continue
			}
			usedM[mname] = true
			kind, pre := c01SwFnPlain, ""
			switch r := g.intn(100); {
			case r < 15:
				kind, pre = c01SwFnGen, "*"
			case r < 22:
				kind, pre = c01SwFnAsync, "async "
			}
			st := ""
			if g.chance(15) {
				st = "static "
			}
			txt, _ := g.function(d-1, kind, "", &c01SwFctx{canReturn: true, argsOK: true, superOK: true, ntOK: true, limit: 30}, "method")
			parts = append(parts, st+pre+mname+txt)
			if st == "" {
				if kind == c01SwFnGen {
					c.gens = append(c.gens, mname)
				} else if kind == c01SwFnPlain {
					c.methods = append(c.methods, mname)
				}
			}
		case k < 78:
			gname := g.pick(c01SwUserGetters)
			if usedM[gname] {
				continue
			}
			usedM[gname] = true
			parts = append(parts, "get "+gname+"()"+g.fnBody(d-1, &c01SwFctx{canReturn: true, argsOK: true, superOK: true, limit: 20}, nil, 2))
			c.getters = append(c.getters, gname)
			if g.chance(60) {
				pn := g.fresh("s")
				parts = append(parts, "set "+gname+"("+pn+")"+g.fnBody(d-1, &c01SwFctx{canReturn: true, argsOK: true, superOK: true, limit: 20}, []string{pn}, 2))
				c.setters = append(c.setters, gname)
			}
		case k < 84 && len(g.priv[len(g.priv)-1]) > 0:
			pm := "#pm" + fmt.Sprint(i)
			txt, _ := g.function(d-1, c01SwFnPlain, "", &c01SwFctx{canReturn: true, argsOK: true, superOK: true, ntOK: true, limit: 20}, "method")
			parts = append(parts, pm+txt)
			mname := "call" + fmt.Sprint(i)
			parts = append(parts, mname+"(...r) { return this."+pm+"(...r) }")
			c.methods = append(c.methods, mname)
		case k < 88:
			fc := &c01SwFctx{argsOK: false, superOK: true, ntOK: true, limit: 20, noVar: c01SwAv("S5-static-var"), noIf: c01SwAv("S6-static-if")}
			g.pushF(fc)
			g.push(true)
			oldBase := g.staticBase
			g.staticBase = len(g.scopes) - 1
			g.inStatic++
			// S12: a lexical declaration directly in a static block is neither renamed nor reserved by the renamer
			g.cur().noDecl = c01SwAv("S12-static-lexical")
			list := g.stmtList(c01SwMin(d, 2), 1+g.intn(2), !c01SwAv("S12-static-lexical"))
			for _, nm := range fc.planned {
				list = append(list, c01SwStmt{"var " + nm, true})
			}
			g.inStatic--
			g.staticBase = oldBase
			g.pop()
			g.popF()
			parts = append(parts, "static {"+g.join(list, true)+"}")
		case k < 92:
			parts = append(parts, "["+g.expr(c01SwMin(d, 2), c01SwPAssign)+"]() { return "+g.pick([]string{"1", g.readable(), g.str()})+" }")
		default:
			parts = append(parts, "static "+g.pick([]string{"sm", "sn"})+"() { return "+g.retVal(c01SwMin(d, 2))+" }")
		}
	}
	v := &c01SwVar{name: name, ro: true, cls: c}
	return "class " + name + ext + " {" + strings.Join(parts, "\n") + "}", v
}

// ---------------------------------------------------------------- statements

type c01SwStmt struct {
	text string
	semi bool // terminated by `;` (or ASI), as opposed to a compound statement ending in `}`
}

func c01SwStartsIdent(s string) bool {
	if s == "" {
		return false
	}
	c := s[0]
	return c >= 'a' && c <= 'z' || c >= 'A' && c <= 'Z' || c == '_' || c == '$'
}

// join renders a statement list; some `;` are replaced by a newline where automatic semicolon insertion applies.
func (g *c01SwG) join(list []c01SwStmt, last bool) string {
	var b strings.Builder
	for i, s := range list {
		if s.text == "" {
			continue
		}
		b.WriteString(s.text)
		if s.semi {
			switch {
			case i == len(list)-1:
				if !(last && g.chance(30)) {
					b.WriteString(";")
				}
			case g.chance(12) && c01SwStartsIdent(list[i+1].text) && !strings.HasPrefix(list[i+1].text, "in ") && !strings.HasPrefix(list[i+1].text, "instanceof ") && !strings.HasSuffix(s.text, "\\"):
				// ASI
			default:
				b.WriteString(";")
			}
		}
		if i < len(list)-1 {
			if g.chance(85) {
				b.WriteString("\n")
			} else if !s.semi || strings.HasSuffix(b.String(), ";") {
				b.WriteString(" ")
			} else {
				b.WriteString("\n")
			}
		}
	}
	return b.String()
}

func c01SwExprStmt(e string) c01SwStmt {
	if strings.HasPrefix(e, "{") || strings.HasPrefix(e, "function") || strings.HasPrefix(e, "class") || strings.HasPrefix(e, "async function") || strings.HasPrefix(e, "let") {
		e = "(" + e + ")"
	}
	return c01SwStmt{e, true}
}

// stmtList produces n statements in the current scope; fnLevel: the list is the direct body of a function / program
func (g *c01SwG) stmtList(d, n int, fnLevel bool) []c01SwStmt {
	var out []c01SwStmt
	var pending []c01SwStmt
	for i := 0; i < n; i++ {
		if fnLevel && d > 1 && g.chance(10) && g.nodes < g.maxNodes {
			// hoisted function: body generated (and registered) now, text emitted at the end of the list
			txt, v := g.funcDecl(d-1, true)
			pending = append(pending, c01SwStmt{txt, false})
			out = append(out, g.useFn(v, d)...)
			continue
		}
		out = append(out, g.stmt(d, fnLevel)...)
	}
	return append(out, pending...)
}

// block produces "{ … }" with a fresh block scope; tail: optional jump statement appended
func (g *c01SwG) block(d, n int, tail string) string { return g.blockND(d, n, tail, false) }

// blockND: noDecl — (S11) declarations are wrapped in an inner block instead of standing directly in this block
func (g *c01SwG) blockND(d, n int, tail string, noDecl bool) string {
	g.push(false)
	g.cur().noDecl = noDecl
	list := g.stmtList(d, n, false)
	list = g.notLone(list)
	if tail != "" {
		list = append(list, c01SwStmt{tail, true})
	}
	g.pop()
	return "{" + g.join(list, true) + "}"
}

func c01SwIsDecl(t string) bool {
	for _, kw := range []string{"let ", "let[", "let{", "const ", "const[", "const{", "class ", "function ", "function*", "async function"} {
		if strings.HasPrefix(t, kw) {
			return true
		}
	}
	return false
}

// notLone: (S10) a block never consists of a single declaration
func (g *c01SwG) notLone(list []c01SwStmt) []c01SwStmt {
	if !c01SwAv("S10-lone-decl") && !c01SwAv("S15-class-effects") {
		return list
	}
	n, decl := 0, false
	for _, s := range list {
		if s.text != "" {
			n++
			decl = c01SwIsDecl(s.text)
			if !c01SwAv("S10-lone-decl") {
				decl = c01SwReLoneClass.MatchString(s.text) // (S15) only a lone class is under an open finding
			}
		}
	}
	if n == 1 && decl {
		list = append(list, c01SwExprStmt(g.hostFn()+"("+g.atom(c01SwPAssign)+")"))
	}
	return list
}

// jump produces a jump statement valid here ("" if none chosen)
func (g *c01SwG) jump(d int) string {
	fc := g.f()
	var opts []string
	if fc.canReturn {
		if c01SwAv("K1-return-undefined") {
			opts = append(opts, "return "+g.retVal(c01SwMin(d, 2)), "return "+g.retVal(c01SwMin(d, 2)))
		} else {
			opts = append(opts, "return", "return "+g.expr(c01SwMin(d, 2), c01SwPComma))
		}
	}
	if fc.loops > 0 || fc.switches > 0 {
		opts = append(opts, "break")
	}
	if fc.loops > 0 {
		opts = append(opts, "continue")
	}
	for _, l := range fc.labels {
		opts = append(opts, "break "+l.name)
		if l.loop {
			opts = append(opts, "continue "+l.name)
		}
	}
	opts = append(opts, "throw "+g.expr(c01SwMin(d, 2), c01SwPComma))
	return g.pick(opts)
}

func (g *c01SwG) cond(d int) string {
	if g.chance(50) {
		return g.readable()
	}
	return g.expr(c01SwMin(d, 2), c01SwPComma)
}

// loopOK reserves budget for a loop of the given bound
func (g *c01SwG) loopOK(bound int) bool {
	fc := g.f()
	return fc.cost+fc.mult*bound*2 <= fc.limit && fc.mult*bound <= 48
}

func (g *c01SwG) loopBody(d, bound int, label string, pre string) string {
	fc := g.f()
	fc.mult *= bound
	fc.loops++
	if label != "" {
		fc.labels = append(fc.labels, c01SwLabel{label, true})
	}
	g.push(false)
	var list []c01SwStmt
	if pre != "" {
		list = append(list, c01SwStmt{pre, true})
	}
	list = append(list, g.stmtList(d-1, 1+g.intn(3), false)...)
	if g.chance(25) && !fc.noIf {
		list = append(list, c01SwStmt{"if (" + g.cond(d) + ") " + g.jump(d), true})
		list = append(list, g.stmt(d-1, false)...)
	}
	list = g.notLone(list)
	g.pop()
	if label != "" {
		fc.labels = fc.labels[:len(fc.labels)-1]
	}
	fc.loops--
	fc.mult /= bound
	fc.cost += fc.mult * bound
	return "{" + g.join(list, true) + "}"
}

// useFn produces statements that call a freshly declared function
func (g *c01SwG) useFn(v *c01SwVar, d int) []c01SwStmt {
	fn := v.fn
	fc := g.f()
	if fc.cost+fc.mult*fn.cost > fc.limit {
		return nil
	}
	ed := c01SwMin(d, 2)
	switch fn.kind {
	case c01SwFnGen:
		switch g.intn(3) {
		case 0:
			return []c01SwStmt{c01SwExprStmt(g.hostFn() + "(..." + g.callText(fn, ed) + ")")}
		case 1:
			if g.loopOK(4) {
				it := g.fresh("i")
				call := g.callText(fn, ed)
				g.push(false)
				g.declLex(&c01SwVar{name: it, ro: true})
				body := g.loopBody(d, 4, "", g.hostFn()+"("+it+")")
				g.pop()
				return []c01SwStmt{{"for (const " + it + " of " + call + ") " + body, false}}
			}
		}
		it := g.fresh("it")
		call := g.callText(fn, ed)
		kw := "var "
		if fc.noVar {
			kw = "const "
			g.declLex(&c01SwVar{name: it, ro: true})
		} else {
			g.declLexOrVar(it)
		}
		return []c01SwStmt{{kw + it + " = " + call, true}, c01SwExprStmt(g.hostFn() + "(" + it + ".next().value, " + it + ".next(" + g.atom(c01SwPAssign) + "), " + it + ".return(7), " + it + ".next().done)")}
	case c01SwFnAsync:
		r := g.fresh("r")
		return []c01SwStmt{c01SwExprStmt(g.callText(fn, ed) + ".then(" + r + " => " + g.hostFn() + "(" + r + ")).catch(" + r + " => " + g.hostFn() + "(\"rej\", " + r + "))")}
	}
	if !fn.retFn && g.chance(20) {
		g.use(fn.name)
		fc.cost += fc.mult * fn.cost
		return []c01SwStmt{c01SwExprStmt(g.hostFn() + "(new " + fn.name + "(" + g.args(ed, fn.np) + "))")}
	}
	if g.chance(35) {
		return []c01SwStmt{c01SwExprStmt(g.assignable() + " = " + g.callText(fn, ed))}
	}
	return []c01SwStmt{c01SwExprStmt(g.hostFn() + "(" + g.callText(fn, ed) + ")")}
}

// declLexOrVar registers a plain var name in the function scope
func (g *c01SwG) declLexOrVar(name string) { g.declVar(&c01SwVar{name: name}) }

func (g *c01SwG) useClass(v *c01SwVar, d int) []c01SwStmt {
	c := v.cls
	fc := g.f()
	var out []c01SwStmt
	if fc.cost+fc.mult*30 > fc.limit {
		return nil
	}
	fc.cost += fc.mult * 10
	g.use(v.name)
	in := g.fresh("i")
	out = append(out, c01SwStmt{"const " + in + " = new " + v.name + "(" + g.args(c01SwMin(d, 2), c01SwMax(c.nctor, 0)) + ")", true})
	iv := &c01SwVar{name: in, ro: true, inst: c}
	g.declLex(iv)
	n := 1 + g.intn(3)
	for i := 0; i < n; i++ {
		out = append(out, c01SwExprStmt(g.hostFn()+"("+g.instanceUse(iv, c01SwMin(d, 2))+")"))
	}
	if len(c.statics) > 0 && g.chance(60) {
		out = append(out, c01SwExprStmt(g.hostFn()+"("+v.name+"."+g.pick(c.statics)+")"))
	}
	if g.chance(30) {
		out = append(out, c01SwExprStmt(g.hostFn()+"("+in+", "+in+" instanceof "+v.name+")"))
	}
	return out
}

// stmt produces one statement (sometimes a declaration followed by its uses).  In a block marked noDecl (S11) a
// result that would declare something directly in the block is discarded and replaced by a host call.
func (g *c01SwG) stmt(d int, fnLevel bool) []c01SwStmt {
	if !g.cur().noDecl {
		return g.stmt1(d, fnLevel)
	}
	fc := g.f()
	fs := g.fnScope()
	nvars := len(fs.vars)
	planned := append([]string(nil), fc.planned...)
	g.push(false)
	list := g.stmt1(d, false)
	g.pop()
	for _, st := range list {
		isDecl := c01SwIsDecl(st.text)
		if !c01SwAv("S11-else-lexical") && !c01SwAv("S12-static-lexical") {
			// only the function-declaration part of S11 is open (S11f)
			isDecl = c01SwReFnStart.MatchString(st.text)
		}
		if isDecl {
			fs.vars = fs.vars[:nvars]
			fc.planned = planned
			return []c01SwStmt{c01SwExprStmt(g.hostFn() + "(" + g.args(1, 2) + ")")}
		}
	}
	return list
}

func (g *c01SwG) stmt1(d int, fnLevel bool) []c01SwStmt {
	g.nodes++
	fc := g.f()
	fc.cost += fc.mult
	if d <= 0 || g.nodes > g.maxNodes {
		return []c01SwStmt{c01SwExprStmt(g.hostFn() + "(" + g.args(1, 2) + ")")}
	}
	ed := c01SwMin(d, 3)
	k := g.intn(100)
	if fc.noIf && (k >= 34 && k < 44 || k >= 69 && k < 72) {
		k = 0
	}
	switch {
	case k < 20: // expression statement
		if g.chance(60) {
			return []c01SwStmt{c01SwExprStmt(g.hostFn() + "(" + g.args(ed, 3) + ")")}
		}
		if c01SwAv("K3-pure-binary") { // a discarded value is always an assignment, update or call
			e, p := g.expr1(ed)
			if p != c01SwPAssign && p != c01SwPCall && p != c01SwPUpdate {
				e = g.hostFn() + "(" + c01SwWrap(e, p, c01SwPAssign) + ")"
			}
			return []c01SwStmt{c01SwExprStmt(e)}
		}
		return []c01SwStmt{c01SwExprStmt(g.expr(ed, c01SwPComma))}
	case k < 34:
		return g.declStmt(d)
	case k < 44:
		return g.ifStmt(d)
	case k < 58:
		return g.loopStmt(d)
	case k < 62:
		return g.switchStmt(d)
	case k < 69:
		return g.tryStmt(d)
	case k < 72:
		return []c01SwStmt{{"if (" + g.cond(d) + ") " + g.jump(d), true}}
	case k < 75: // block with shadowing declarations
		return []c01SwStmt{{g.block(d-1, 1+g.intn(3), ""), false}}
	case k < 78: // labelled block
		l := g.fresh("L")
		fc.labels = append(fc.labels, c01SwLabel{l, false})
		b := g.block(d-1, 1+g.intn(3), "")
		fc.labels = fc.labels[:len(fc.labels)-1]
		return []c01SwStmt{{l + ": " + b, false}}
	case k < 85 && d > 1: // function declaration + use
		txt, v := g.funcDecl(d-1, true)
		out := []c01SwStmt{{txt, false}}
		return append(out, g.useFn(v, d)...)
	case k < 89 && d > 1:
		txt, v := g.classDecl(d - 1)
		g.declLex(v)
		out := []c01SwStmt{{txt, false}}
		return append(out, g.useClass(v, d)...)
	case k < 93:
		return g.asiStmt(d)
	case k < 95 && d > 1: // closure bound to a const and called
		inner := &c01SwFctx{canReturn: true, argsOK: true, ntOK: true}
		nm := g.fresh("c")
		var txt string
		var fn *c01SwFunc
		if g.chance(50) {
			inner.argsOK, inner.ntOK = fc.argsOK, fc.ntOK
			txt, fn = g.function(d-1, c01SwFnArrow, nm, inner, "arrow")
		} else {
			txt, fn = g.function(d-1, c01SwFnPlain, nm, inner, "expr")
			txt = "function" + g.pick([]string{"", " " + g.fresh("n")}) + txt
		}
		kw := g.kwLCV()
		v := &c01SwVar{name: nm, ro: true, fn: fn}
		if kw == "var" {
			g.declVar(v)
		} else {
			g.declLex(v)
		}
		out := []c01SwStmt{{kw + " " + nm + " = " + txt, true}}
		return append(out, g.useFn(v, d)...)
	case k < 97 && d > 1: // tracked object literal
		nm := g.fresh("ob")
		meta := &c01SwClass{name: nm}
		txt := g.objectLit(d-1, meta)
		iv := &c01SwVar{name: nm, ro: true, inst: meta}
		g.declLex(iv)
		out := []c01SwStmt{{"const " + nm + " = " + txt, true}}
		for i := 0; i <= g.intn(3); i++ {
			out = append(out, c01SwExprStmt(g.hostFn()+"("+g.instanceUse(iv, c01SwMin(d, 2))+")"))
		}
		return out
	case k < 98 && !c01SwAv("K3-pure-binary"):
		return []c01SwStmt{{"", false}, {";", false}}
	}
	return []c01SwStmt{c01SwExprStmt(g.hostFn() + "(" + g.args(ed, 3) + ")")}
}

func (g *c01SwG) declStmt(d int) []c01SwStmt {
	fc := g.f()
	ed := c01SwMin(d, 3)
	k := g.intn(100)
	if fc.noVar && k < 30 {
		k = 30 + g.intn(40)
	}
	switch {
	case k < 30: // var (planned, redeclared or fresh)
		var nm string
		switch {
		case len(fc.planned) > 0 && g.chance(70):
			nm = fc.planned[0]
			fc.planned = fc.planned[1:]
		case g.chance(30):
			for _, v := range g.fnScope().vars {
				if fc.kinds[v.name] == 1 && !v.ro && v.fn == nil && v.cls == nil && v.inst == nil && !strings.HasPrefix(v.name, "p") && g.banned[v.name] == 0 && g.chance(40) {
					nm = v.name
				}
			}
		case g.chance(25) && !fc.top && !(g.inStatic > 0 && c01SwAv("S5-static-var")):
			nm = g.pick(c01SwPoolVars)
			if !g.canVar(nm) || g.lookupLexBetween(nm) {
				nm = ""
			}
		}
		if nm == "" {
			nm = g.fresh("v")
		}
		if g.lookupLexBetween(nm) {
			nm = g.fresh("v")
		}
		g.banned[nm]++
		init := g.expr(ed, c01SwPAssign)
		g.banned[nm]--
		g.declVar(&c01SwVar{name: nm})
		if g.chance(12) {
			return []c01SwStmt{{"var " + nm, true}}
		}
		if g.chance(15) {
			n2 := g.fresh("v")
			g.declVar(&c01SwVar{name: n2})
			return []c01SwStmt{{"var " + nm + " = " + init + ", " + n2 + g.pick([]string{"", " = " + g.atom(c01SwPAssign)}), true}}
		}
		return []c01SwStmt{{"var " + nm + " = " + init, true}}
	case k < 70: // let / const
		kw := g.pick([]string{"let", "const", "let"})
		nm := ""
		if g.chance(40) {
			c := g.pick(c01SwPoolVars)
			if g.canLex(c) && !(fc.top && len(g.scopes) == 1 && g.chance(70)) {
				nm = c
			}
		}
		if nm == "" {
			nm = g.fresh("l")
		}
		g.banned[nm]++
		init := g.expr(ed, c01SwPAssign)
		g.banned[nm]--
		if !g.canLex(nm) { // the initialiser may have used the name through a nested closure path
			nm = g.fresh("l")
		}
		g.declLex(&c01SwVar{name: nm, ro: kw == "const"})
		if kw == "let" && g.chance(12) {
			return []c01SwStmt{{"let " + nm, true}}
		}
		return []c01SwStmt{{kw + " " + nm + " = " + init, true}}
	default: // destructuring declaration
		arr := g.chance(50)
		var names []string
		pat := g.pattern(2, true, &names, arr)
		src := g.patternSource(ed, arr)
		kw := g.kwLCV()
		if kw == "var" && !arr && len(names) == 0 && c01SwAv("S16-hoist-empty-pattern") {
			kw = "let" // (S16) a var object pattern that binds nothing is hoisted into an unparenthesised `{…}=…`
		}
		for _, nm := range names {
			if kw == "var" {
				g.declVar(&c01SwVar{name: nm})
			} else {
				g.declLex(&c01SwVar{name: nm, ro: kw == "const"})
			}
		}
		out := []c01SwStmt{{kw + " " + pat + " = " + src, true}}
		if c01SwAv("S3-destructure-block") && kw != "var" && len(names) > 0 { // every binding is used: the declaration cannot be dropped
			out = append(out, c01SwExprStmt(g.hostFn()+"("+strings.Join(names, ", ")+")"))
		}
		return out
	}
}

// lookupLexBetween: is there a lexical binding of name in a block scope between here and the function scope (a `var` would clash)?
func (g *c01SwG) lookupLexBetween(name string) bool {
	for i := len(g.scopes) - 1; i >= 0; i-- {
		if g.scopes[i].lex[name] {
			return true
		}
		if g.scopes[i].fnBoundary {
			break
		}
	}
	return false
}

func (g *c01SwG) ifStmt(d int) []c01SwStmt {
	var b strings.Builder
	n := 1 + g.intn(3)
	hasElse := g.chance(60)
	flow := make([]bool, n+1)
	anyFlow := false
	for i := 0; i < n; i++ {
		flow[i] = g.chance(45)
		anyFlow = anyFlow || flow[i]
	}
	if hasElse {
		flow[n] = g.chance(25)
		anyFlow = anyFlow || flow[n]
	}
	// S11: when one branch ends in a flow statement the minifier flattens its siblings into the enclosing block
	noDecl := anyFlow && (c01SwAv("S11-else-lexical") || c01SwAv("S11f-else-function"))
	min := 0
	if c01SwAv("K3-pure-binary") {
		min = 1 // no `if (cond) {}` whose condition would be dropped
	}
	for i := 0; i < n; i++ {
		if i > 0 {
			b.WriteString(g.pick([]string{" else ", "\nelse "}))
		}
		b.WriteString("if (" + g.cond(d) + ") ")
		tail := ""
		if flow[i] {
			tail = g.jump(d)
		}
		if tail == "" && g.chance(20) {
			b.WriteString(g.hostFn() + "(" + g.args(2, 2) + ");")
		} else if tail != "" && g.chance(25) {
			b.WriteString(tail + ";")
		} else {
			b.WriteString(g.blockND(d-1, min+g.intn(3-min), tail, noDecl))
		}
	}
	if hasElse {
		tail := ""
		if flow[n] {
			tail = g.jump(d)
		}
		b.WriteString(" else " + g.blockND(d-1, 1+g.intn(2), tail, noDecl))
	}
	out := []c01SwStmt{{b.String(), false}}
	if g.chance(50) {
		out = append(out, g.stmt(d-1, false)...)
	}
	return out
}

// kwLCV / kwLV pick a declaration keyword; `var` is not available directly inside a class static block (S5)
func (g *c01SwG) kwLCV() string {
	kw := g.pick([]string{"let", "const", "var"})
	if kw == "var" && g.f().noVar {
		kw = "let"
	}
	return kw
}
func (g *c01SwG) kwLV() string {
	kw := g.pick([]string{"let", "var", "let"})
	if kw == "var" && g.f().noVar {
		kw = "let"
	}
	return kw
}

func (g *c01SwG) loopStmt(d int) []c01SwStmt {
	fc := g.f()
	bound := 2 + g.intn(3)
	if !g.loopOK(bound) {
		return []c01SwStmt{c01SwExprStmt(g.hostFn() + "(" + g.args(2, 2) + ")")}
	}
	label, lp := "", ""
	if g.chance(30) {
		label = g.fresh("L")
		lp = label + ": "
	}
	ed := c01SwMin(d, 2)
	form := g.intn(8)
	if fc.noVar && form >= 5 {
		form = 0 // the other loop forms need a `var` counter
	}
	switch form {
	case 0, 1: // for with let / var counter
		i := g.fresh("i")
		kw := g.kwLV()
		g.push(false)
		if kw == "var" {
			g.declVar(&c01SwVar{name: i, ro: true})
		} else {
			g.declLex(&c01SwVar{name: i, ro: true})
		}
		upd := g.pick([]string{i + "++", "++" + i, i + " += 1", i + "++, " + g.hostFn() + "(" + i + ")"})
		head := "for (" + kw + " " + i + " = 0; " + i + " < " + fmt.Sprint(bound) + "; " + upd + ") "
		if g.chance(15) {
			j := g.fresh("j")
			g.declLexOrVarKind(kw, j)
			head = "for (" + kw + " " + i + " = 0, " + j + " = " + g.atom(c01SwPAssign) + "; " + i + " < " + fmt.Sprint(bound) + "; " + upd + ") "
		}
		body := g.loopBody(d, bound, label, "")
		g.pop()
		return []c01SwStmt{{lp + head + body, false}}
	case 2: // for-in
		kname := g.fresh("k")
		src := g.pick([]string{"o1", "o2", "{p: 1, q: 2}", "[1, 2]", g.readable(), `"ab"`, "{p: 1, ...o1}"})
		g.push(false)
		kw := g.kwLCV()
		g.declLexOrVarKind(kw, kname)
		body := g.loopBody(d, 3, label, "")
		g.pop()
		return []c01SwStmt{{lp + "for (" + kw + " " + kname + " in " + src + ") " + body, false}}
	case 3, 4: // for-of
		src := g.iterable(ed)
		g.push(false)
		kw := g.kwLCV()
		var head string
		if g.chance(30) {
			var names []string
			last := g.atom(c01SwPAssign) // before the bindings exist: the iterable must not read them (TDZ)
			pat := g.pattern(1, true, &names, g.chance(50))
			for _, nm := range names {
				g.declLexOrVarKind(kw, nm)
			}
			head = "for (" + kw + " " + pat + " of [[1, 2], {p: 1}, " + last + "]) "
		} else if g.chance(15) {
			head = "for (" + g.target(1) + " of " + src + ") "
		} else {
			kname := g.fresh("e")
			g.declLexOrVarKind(kw, kname)
			head = "for (" + kw + " " + kname + " of " + src + ") "
		}
		body := g.loopBody(d, 4, label, "")
		g.pop()
		return []c01SwStmt{{lp + head + body, false}}
	case 5: // while
		n := g.fresh("n")
		g.declVar(&c01SwVar{name: n, ro: true})
		body := g.loopBody(d, bound, label, "")
		return []c01SwStmt{{"var " + n + " = 0", true}, {lp + "while (" + n + "++ < " + fmt.Sprint(bound) + g.pick([]string{"", " && (" + g.cond(1) + ")", ""}) + ") " + body, false}}
	case 6: // do-while
		n := g.fresh("n")
		g.declVar(&c01SwVar{name: n, ro: true})
		body := g.loopBody(d, bound, label, "")
		return []c01SwStmt{{"var " + n + " = 0", true}, {lp + "do " + body + " while (++" + n + " < " + fmt.Sprint(bound) + ")", true}}
	default: // for(;;) with explicit break
		n := g.fresh("n")
		g.declVar(&c01SwVar{name: n, ro: true})
		fc.mult *= bound
		fc.loops++
		if label != "" {
			fc.labels = append(fc.labels, c01SwLabel{label, true})
		}
		g.push(false)
		list := []c01SwStmt{{"if (" + n + "++ >= " + fmt.Sprint(bound) + ") break", true}}
		list = append(list, g.stmtList(d-1, 1+g.intn(2), false)...)
		g.pop()
		if label != "" {
			fc.labels = fc.labels[:len(fc.labels)-1]
		}
		fc.loops--
		fc.mult /= bound
		return []c01SwStmt{{"var " + n + " = 0", true}, {lp + "for (;;) {" + g.join(list, true) + "}", false}}
	}
}

func (g *c01SwG) declLexOrVarKind(kw, name string) {
	if kw == "var" {
		g.declVar(&c01SwVar{name: name, ro: true})
	} else {
		g.declLex(&c01SwVar{name: name, ro: true})
	}
}

func (g *c01SwG) switchStmt(d int) []c01SwStmt {
	fc := g.f()
	var b strings.Builder
	b.WriteString("switch (" + g.cond(d) + ") {")
	n := 2 + g.intn(3)
	defAt := -1
	if g.chance(70) {
		defAt = g.intn(n)
	}
	fc.switches++
	g.push(false)
	g.cur().noShadow = true
	for i := 0; i < n; i++ {
		if i == defAt {
			b.WriteString("\ndefault:")
		} else {
			b.WriteString("\ncase " + g.pick([]string{g.atom(c01SwPAssign), "0", "1", `"s"`, "true", "null", g.hostFn() + "(" + fmt.Sprint(i) + ")"}) + ":")
			if g.chance(15) {
				b.WriteString(" case " + g.atom(c01SwPAssign) + ":")
			}
		}
		g.push(false)
		g.cur().noShadow = true
		list := g.stmtList(d-1, g.intn(3), false)
		if g.chance(55) {
			list = append(list, c01SwStmt{g.pick([]string{"break", "break", "break", g.jump(d)}), true})
		}
		g.pop()
		b.WriteString(" " + g.join(list, false))
	}
	g.pop()
	fc.switches--
	b.WriteString("\n}")
	return []c01SwStmt{{b.String(), false}}
}

func (g *c01SwG) tryStmt(d int) []c01SwStmt {
	var b strings.Builder
	tail := ""
	if g.chance(30) {
		tail = g.jump(d)
	}
	b.WriteString("try " + g.block(d-1, 1+g.intn(3), tail))
	form := g.intn(10)
	if form < 8 { // catch
		g.push(false)
		switch k := g.intn(100); {
		case k < 20:
			b.WriteString(" catch ")
		case k < 30:
			var names []string
			pat := g.pattern(1, true, &names, false)
			for _, nm := range names {
				g.declLex(&c01SwVar{name: nm})
			}
			b.WriteString(" catch (" + pat + ") ")
		default:
			e := g.fresh("e")
			if g.chance(25) && g.canLex("e") {
				e = "e"
			}
			g.declLex(&c01SwVar{name: e})
			b.WriteString(" catch (" + e + ") ")
			if g.chance(60) {
				g.use(e)
			}
		}
		tail := ""
		if g.chance(20) {
			tail = g.jump(d)
		}
		// the catch body shares the scope of the parameter for declaration purposes
		list := g.stmtList(d-1, 1+g.intn(2), false)
		if tail != "" {
			list = append(list, c01SwStmt{tail, true})
		}
		g.pop()
		b.WriteString("{" + g.join(list, true) + "}")
	}
	if form >= 6 {
		tail := ""
		if g.chance(35) {
			tail = g.jump(d)
		}
		b.WriteString(" finally " + g.block(d-1, 1+g.intn(2), tail))
	}
	return []c01SwStmt{{b.String(), false}}
}

// asiStmt: statements whose meaning depends on line terminators
func (g *c01SwG) asiStmt(d int) []c01SwStmt {
	fc := g.f()
	t := g.assignable()
	r := g.readable()
	u := g.assignable()
	hf := g.hostFn()
	switch g.intn(12) {
	case 0: // no ASI: call continues
		return []c01SwStmt{{t + " = " + hf + "\n(" + g.expr(2, c01SwPComma) + ")", true}}
	case 1:
		return []c01SwStmt{{t + " = " + r + "\n[" + g.atom(c01SwPAssign) + "]", true}}
	case 2:
		return []c01SwStmt{{t + " = " + r + "\n+ " + hf + "(1)", true}}
	case 3:
		return []c01SwStmt{{t + " = " + r + "\n- " + hf + "(1)", true}}
	case 4:
		return []c01SwStmt{{t + " = " + r + "\n/ 2 / " + g.atom(c01SwPUnary), true}}
	case 5:
		return []c01SwStmt{{t + " = " + hf + "\n`x${" + r + "}`", true}}
	case 6: // restricted production: a ⏎ ++b  is two statements
		return []c01SwStmt{{t + " = " + r + "\n++" + u, true}}
	case 7:
		return []c01SwStmt{{t + " = " + r + "\n--\n" + u, true}}
	case 8:
		if fc.canReturn && !fc.noIf && !c01SwAv("K1-return-undefined") {
			return []c01SwStmt{{"if (" + g.cond(1) + ") { return\n" + hf + "(" + r + ") }", false}}
		}
		return []c01SwStmt{{t + " = " + r + "++\n" + hf + "(" + t + ")", true}}
	case 9:
		if fc.loops > 0 && !fc.noIf {
			return []c01SwStmt{{"if (" + g.cond(1) + ") { " + g.pick([]string{"break", "continue"}) + "\n" + hf + "(" + r + ") }", false}}
		}
		if fc.noVar {
			return []c01SwStmt{{t + " = " + r + "\n" + hf + "(" + g.str() + ")", true}}
		}
		return []c01SwStmt{{"var " + g.freshVar() + " = " + r + "\n" + hf + "(" + g.str() + ")", true}}
	case 10:
		return []c01SwStmt{{t + " = " + r + "\n/" + g.pick([]string{"a", "x", "1"}) + "/g.exec(" + g.str() + ")", true}} // division, not a regex
	}
	return []c01SwStmt{{"throw " + hf + "\n(" + r + ")", true}, c01SwExprStmt(hf + "(1)")}
}

func (g *c01SwG) freshVar() string {
	nm := g.fresh("v")
	g.declVar(&c01SwVar{name: nm})
	return nm
}

// ---------------------------------------------------------------- programs

func (g *c01SwG) program() string {
	g.uid = 0
	g.scopes = nil
	g.fx = nil
	g.banned = map[string]int{}
	g.priv = nil
	g.nodes = 0
	g.maxNodes = 50 + g.intn(110)
	g.strict = g.chance(10)
	top := &c01SwFctx{top: true, limit: 500}
	g.pushF(top)
	g.push(true)
	n := 3 + g.intn(6)
	d := 2 + g.intn(2)
	if g.chance(15) {
		d = 4
	}
	var list []c01SwStmt
	if g.strict {
		list = append(list, c01SwStmt{g.pick([]string{`"use strict"`, `'use strict'`}), true})
	}
	count := 0
	for count < n {
		var ss []c01SwStmt
		switch k := g.intn(100); {
		case k < 22 && d > 1: // function-local material wrapped in a function that is then called
			txt, v := g.funcDecl(d, false)
			if g.chance(25) { // call before the declaration (hoisting)
				g.registerFn(v)
				ss = append(g.useFn(v, d), c01SwStmt{txt, false})
			} else {
				ss = []c01SwStmt{{txt, false}}
				g.registerFn(v)
				ss = append(ss, g.useFn(v, d)...)
			}
		case k < 50: // guarded statements: the host throws now and then
			g.push(false)
			inner := g.stmtList(d, 1+g.intn(2), false)
			g.pop()
			e := g.fresh("e")
			ss = []c01SwStmt{{"try {" + g.join(inner, true) + "} catch (" + e + ") { " + g.hostFn() + "(" + e + ") }", false}}
		default:
			ss = g.stmtList(d, 1, true)
		}
		list = append(list, ss...)
		count += len(ss)
		if count > 25 {
			break
		}
	}
	for _, nm := range top.planned {
		list = append(list, c01SwStmt{"var " + nm, true})
	}
	g.pop()
	g.popF()
	return g.join(list, false)
}

// c01SweepPrograms returns n generated programs (deterministic in rng).
func c01SweepPrograms(rng *h.RNG, n int) []string {
	out := make([]string, 0, n)
	for i := 0; i < n; i++ {
		g := &c01SwG{r: rng.Fork()}
		out = append(out, g.program())
	}
	return out
}

// ---------------------------------------------------------------- hand-written programs

// c01SweepFixed returns the hand-written programs that exercise none of the forms switched off in c01SwAvoid.
func c01SweepFixed() []string {
	var out []string
	for _, e := range c01SweepFixedTagged() {
		skip := false
		for _, t := range e.Tags {
			skip = skip || c01SwAvoid[t]
		}
		if !skip {
			out = append(out, e.Src)
		}
	}
	return out
}

// c01SwFixedExtra: tags that the syntactic classifier is too narrow to find (marker substring -> keys)
var c01SwFixedExtra = []struct {
	marker string
	tags   []string
}{
	{"x=void(f(1)+1);if(g(2)+1){}", []string{"K3-pure-binary"}},
}

// c01SweepFixedTagged returns every hand-written program with the avoid keys of the known findings it exercises.
func c01SweepFixedTagged() []struct {
	Src  string
	Tags []string
} {
	raw := c01SwFixedRaw()
	out := make([]struct {
		Src  string
		Tags []string
	}, len(raw))
	for i, src := range raw {
		tags := c01SwClassify(src)
		for _, x := range c01SwFixedExtra {
			if strings.Contains(src, x.marker) {
				for _, t := range x.tags {
					dup := false
					for _, u := range tags {
						dup = dup || u == t
					}
					if !dup {
						tags = append(tags, t)
					}
				}
			}
		}
		out[i].Src, out[i].Tags = src, tags
	}
	return out
}

// c01SwFixedRaw: hand-written programs, the classic nasty form of each construct, one per string.
func c01SwFixedRaw() []string {
	bt := "`"
	return []string{
		// scoping, hoisting, block flattening
		`let x=2;if(a){throw 1}else{let x=3;h(x)}h(x)`,
		`function t1(p){let x=2;if(p){return 1}else{let x=3;h(x)}h(x);return x}f(t1(a),t1(0))`,
		`function t1(p){if(p){return f(1)}else{const c=g(2);h(()=>c)}var c=5;return c}k(t1(a),t1(0),t1(1))`,
		`function t1(p){if(p)throw f(1);else{class C{m(){return 1}}h(new C().m())}return typeof C}try{k(t1(a))}catch(e){g(e)}k(t1(0))`,
		`h(typeof t2,v1);var v1=f(1);function t2(){return 1}h(typeof t2,v1);{function t3(){return g(2)}h(t3())}`,
		`function t1(){h(v);var v=1;{var v=2;let w=v;{let w=3;h(w)}h(w)}for(var v=5;v<6;v++){}return v}f(t1())`,
		`var r1=[];for(let i=0;i<3;i++){r1.push(()=>i)}for(var j=0;j<3;j++){r1.push(()=>j)}f(r1.map(c=>c()))`,
		`function t1(){var r=[];for(let i=0;i<2;i++){let i2=i*2;r.push(function(){return i2+i})}return r.map(q=>q())}f(t1())`,
		`L1:for(var i=0;i<3;i++){L2:for(var j=0;j<3;j++){if(j==1)continue L1;if(i==2)break L1;f(i,j)}}g(i,j)`,
		`L:{f(1);if(a)break L;f(2)}M:if(b){g(1);if(c)break M;g(2)}else{g(3)}`,
		`function t1(x){switch(x){case 0:f(0);default:f("d");case 1:f(1);break;case 2:f(2)}}t1(0);t1(1);t1(2);t1(3);t1(a)`,
		`function t1(x){switch(x){case 1:let y=f(1);return y;case 2:{let y=g(2);return y}default:return h(x)}}k(t1(1),t1(2),t1(a))`,
		`function t1(){try{return f(1)}finally{g(2)}}function t2(){try{return f(1)}finally{return g(2)}}function t3(){for(var i=0;i<2;i++){try{continue}finally{h(i)}}return i}k(t1(),t2(),t3())`,
		`function t1(){for(var i=0;i<3;i++){try{if(i==1)throw i;f(i)}catch{g("c");break}finally{h("f",i)}}return i}k(t1())`,
		`function t1(p){try{throw p}catch(e){var e=2;h(e)}return typeof e}f(t1(a))`,
		`function t1(){try{throw 1}catch({message:m="d"}){return m}}function t2(){try{f(1)}catch(e){return e}finally{g(2)}return 3}k(t1(),t2())`,
		// shadowed undefined / NaN / Infinity
		`function q1(undefined){return undefined}function q2(){var undefined=5;return undefined}function q3(NaN,Infinity){return[NaN,Infinity,-Infinity]}f(q1(1),q2(),q3(2,3))`,
		`function q1(p){var Infinity=p;return 1/0===Infinity}function q2({undefined}){return undefined}function q3(){let NaN=1;return NaN===NaN}f(q1(a),q2({undefined:5}),q3())`,
		`function t1(p){f(p);p=1;return undefined}function t2(p){f(p);return void 0}function t3(p){f(p);g(p);return}k(t1(a),t2(b),t3(c))`,
		// parameters
		`function t1(p=f(1),q=g(p)){return[p,q]}k(t1(),t1(0),t1(undefined,2))`,
		`function t1(p=f(1)){}function t2(p=x++){}function t3({p=g(2)}={}){}function t4([p=h(3)]=[]){}t1();t2();t3();t4();k(x)`,
		`function t1(a,b=2,...c){return[a,b,c,arguments.length,t1.length>=0]}f(t1(1),t1(1,undefined,3,4))`,
		`function t1(p){p=2;return arguments[0]}function t2(p){"use strict";p=2;return arguments[0]}function t3(p,q=1){p=2;return arguments[0]}f(t1(1),t2(1),t3(1))`,
		`function t1({p,q:[r,,s=f(1)]=[],...u}={},[v,...w]=[1,2,3]){return[p,r,s,u,v,w]}g(t1(),t1({p:1,q:[2,3],z:4},"ab"))`,
		// closures, this, arguments
		`var o={v:1,m(){return this.v},n:()=>this===o,p(){return(()=>this.v)()},q:function(){return function(){return this}.call(7)}};f(o.m(),o.n(),o.p(),(0,o.m)(),(o.m)(),typeof o.q())`,
		`function t1(){return function(){return arguments.length+arguments[0]}}function t2(){return()=>arguments[0]}f(t1()(1,2),t2(5)(6))`,
		`var c1=(function(){var n=0;return{inc:function(){return++n},get:()=>n}})();c1.inc();c1.inc();f(c1.get());(function(){f(this===undefined,typeof this)})();(()=>{g(typeof this)})()`,
		`function C(v){if(!new.target)return new C(v);this.v=v}C.prototype.get=function(){return this.v};f(C(1).get(),new C(2).get(),new C(3)instanceof C,new C,new C().v)`,
		// classes
		`class A{#p=f(1);static s=g(2);x=h(3);static #c=0;constructor(v){this.v=v;A.#c++}get p(){return this.#p}set p(v){this.#p=v}static get c(){return A.#c}#m(){return this.v}m(){return this.#m()}static has(o){return #p in o}}var i=new A(5);i.p=7;k(i.p,i.m(),A.c,A.s,A.has(i),A.has({}),i)`,
		`class A{constructor(){f("A",new.target===B)}m(){return"Am"}static s(){return"As"}}class B extends A{constructor(){g("B");super();h(this.m())}m(){return"B"+super.m()}static s(){return"B"+super.s()}}new B;k(B.s(),new B instanceof A)`,
		`class A{["m"+f(1)](){return 1}static[g(2)]=3;*gen(){yield 1;yield*[2,3]}async am(){return 4}get [h("k")](){return 5}}var i=new A;k([...i.gen()],Object.getOwnPropertyNames(A.prototype).length);i.am().then(v=>k(v))`,
		`var C=class N{static n=1;m(){return N.n}};var D=class extends C{};f(new D().m(),typeof N);class E extends Array{sum(){return this.reduce((p,q)=>p+q,0)}}g(E.from([1,2,3]).sum(),new E(3).length)`,
		`class A{static{f(1);this.x=g(2)}static y=h(this.x);z=k(3)}new A;new A;f(A.x,A.y)`,
		`class A{x=1;'y z'=2;3=3;[a]=4;static 'p q'=5}f(new A,A['p q']);class B{get(){return 1}set(v){f(v)}static(){return 2}async(){return 3}}var b=new B;g(b.get(),b.set(1),b.static(),b.async())`,
		// generators, iterators, destructuring, spread
		`function*g1(){var r=yield 1;f(r);try{yield 2}finally{g("cleanup")}yield 3}var it=g1();h(it.next("a"),it.next("b"),it.return(9),it.next());k(...g1(),[...g1()].length)`,
		`function*g1(){yield*g2();return 5}function*g2(){var x=yield 1;yield x*2}var it=g1();f(it.next().value,it.next(4).value,it.next());var[p,...q]=g1();g(p,q)`,
		`var it={[Symbol.iterator](){var n=0;return{next(){f("next",n);return{done:n>=2,value:n++}},return(){g("ret");return{}}}}};for(var v of it){h(v);if(v)break}var[x1]=it;k(x1,...it)`,
		`var{a:a1=f(1),b:{c:c1}={c:g(2)},...r1}={b:undefined,d:4,e:5};h(a1,c1,r1);var[x1,,y1=h(3),...z1]=[1,2,undefined,4,5];k(x1,y1,z1);[a,b]=[b,a];({p:o1.p,q:o2["q"]}={p:1,q:2})`,
		`var i=0;var arr=[];[arr[i++],arr[i++]]=[f(1),g(2)];h(arr,i);var o={};({[f("k")]:o.x=g("d")}={});k(o);for(var[p1,q1]of[[1,2],[3,4]])f(p1,q1);for(var{length:n1}of["ab","c"])g(n1)`,
		`f(...[1,2],...("ab"),...new Set([3,3]));var o={...{p:1,q:2},q:3,...null,..."xy",...[9]};g(o,[...[1,,3]],{...o1},Math.max(...[1,5,3]))`,
		// optional chaining, nullish, logical assignment, exponent
		`f(a?.b,a?.[b],a?.(b),a?.b.c.d,a?.b(c),o1?.m?.(1),o1.zz?.yy.xx,(a?.b).c)`,
		`f(null?.x,undefined?.[g(1)],null?.x.y.z(h(2)),(null)?.x);x=a??b;y=a??b??c;z=(a??b)||c;w=a??(b||c);v=(a&&b)??c;k(x,y,z,w,v)`,
		`a&&=(f(1),g(2));b||=(f(3),g(4));c??=(f(5),g(6));o1.p&&=f(7);o1[g(8)]||=h(9);o2.q??=k(10);x=y||=(z,2);k(a,b,c,x,y)`,
		`f(2**3**2,(-2)**2,(2**3)**2,-(2**2),2**-1,(a,2)**2,(!a)**2,(typeof a)**2,(a?1:2)**3,(+a)**2,(a++)**2,(--b)**2);x=2;x**=3;x**=(1,2);g(x)`,
		// comma, conditional, logical with side effects
		`x=(f(1),g(2));y=(f(3),g(4))?h(5):k(6);z=f(7)&&(g(8),h(9));w=(f=g,1)?f(1):f(2);k(x,y,z,w)`,
		`if(f(1),g(2))h(3);else k(4);while(f(5),0);for(x=(f(6),1);x<2;x++,g(7));x=a?b?f(1):g(2):c?h(3):k(4);y=a?f(1):(g(2),h(3));k(x,y)`,
		`x=f(1)||g(2)&&h(3);y=(f(4)||g(5))&&h(6);z=f(7)&&g(8)||h(9);w=!(f(10)&&g(11));v=!f(12)||!g(13);k(x,y,z,w,v,!a==!b,!(a==b),!(a<b),!(a>=b))`,
		`x=void(f(1)+1);if(g(2)+1){}y=void f(3);(f(4),g(5));h(6)+k(7);-f(8);typeof g(9);[f(10)];({p:g(11)});k(x,y)`,
		`x=""?1:2;y="0"?1:2;z=[]?1:2;w=0n?1:2;v=-0?1:2;u=NaN?1:2;t=" "?1:2;s=null??1;r=void 0??2;q=""||3;p=""&&4;f(x,y,z,w,v,u,t,s,r,q,p,!"",!"a",!!"")`,
		// typeof, delete, void, in, instanceof, new
		`f(typeof zz9,typeof zz9==="undefined",typeof a,typeof f,typeof null,typeof(()=>1),typeof class{},typeof 1n,typeof Symbol());var o={p:1,q:2};g(delete o.p,delete o["q"],delete o.zz,o,"p"in o,"toString"in o,1 in[1,2],2 in[1,2])`,
		`f(new g,new g(),new g(1),new(g()),new(g())(),new g.h,new(g.h),new g().h,new(o1.m)(2),new o1.m(2),new new g()(),[]instanceof Array,o1 instanceof g,!(a instanceof g),!("p"in o1))`,
		// object literals
		`var p=1,q=2;var o={p,q,m(){return 1},get g1(){return f("get")},set g1(v){g("set",v)},["c"+1]:3,"s t":4,5:5,0x10:6,1e3:7,.5:8,"__proto__x":9,async am(){},*gm(){},async*agm(){},get:10,set:11,static:12,if:13,new:14};o.g1;o.g1=2;h(o,Object.keys(o))`,
		`var o1a={__proto__:{inherited:1}};var o2a={"__proto__":{inherited:2}};var o3a={["__proto__"]:{own:3}};var __proto__={sh:4};var o4a={__proto__};f(o1a.inherited,o2a.inherited,o3a.inherited,Object.keys(o3a),Object.keys(o4a),o4a.sh)`,
		`var o={valueOf(){f("valueOf");return 1},toString(){g("toString");return"s"}};h(o+1,o+"",` + bt + `${o}` + bt + `,o*2,o<2,o==1,[o]+"",-o,+o);k(String(o),Number(o))`,
		// numbers
		`f(0x1F,0XaB,0o17,0O7,0b101,0B11,1e3,1E-2,1.5e+2,.5,5.,1_000,0.000001,1e21,1e-7,123456789012345680000,0.1+0.2,1.0,0.50,9007199254740993,1_0.0_1,0xFFFFFFFF,-0,+0,0/-1,1/-0,1e400,-1e400,5e-324,1000000,100000,1e5,12e3,0.00001,1.5e-7)`,
		`f(5..toString(),5 .toString(),.5.toString(),1e3.toString(),0x10.toString(),(5).toFixed(1),1_0.0.toString(),5.0.toFixed(2),255..toString(16),1e21.toString(),1.e2.toString(),2..constructor===Number,-5..toString(),(-5).toString(),1..valueOf())`,
		`f(10n,0n,0x10n,1_000n,0b11n,-10n,10n*2n,2n**64n,7n/2n,typeof 10n,10n==10,10n===10n,10n<11,BigInt(9007199254740993n)+1n,123456789012345678901234567890n)`,
		`x=1;y=2;f(x+ +y,x- -y,x+ ++y,x- --y,x++ +y,x-- -y,+ +x,- -x,+-x,-+x,- - -x,x+-y,x-+y,!-x,~-x,-~x,typeof-x,void+x,x++-y,x---y,x+++y)`,
		`f(1/2,1/ /a/.lastIndex,a/b/c,a/(b/c),(a/b)/c,a++/2,a--/b/2,2/a++,[1]/2,(a)/2/1,x=a/2/ /x/g.lastIndex)`,
		// strings and templates
		"f(\"it's\",'say \"hi\"',\"\\n\",'\\x41',\"A\",\"\\u{1F600}\",'\\0',\"a\\\nb\",\"</script>\",'<\\/script>',\"<!--\",\"-->\",\"`\",'\\'',\"\\\"\",\"\\\\\",\"a\\tb\",'\\v\\f\\b',\"${x}\",\"\\r\\n\",\"\\u2028\\u2029\",\"\\ud83d\",'\\\\n',\"\\a\\c\",\"]]>\",\"\\xe9\",\"é\")",
		"f(\"\\101\",'\\08','\\1a',\"\\7\",\"\\0\",'\\00','\\0a',\"\\x00\",017,089,00,08.5,0777)",
		"x=1;y=\"s\";f(`a${x}b`,`${x}${y}`,`x${`y${x}`}z`,`\\n\\``,`\\${x}`,`$`,`{`,`</script>`,`'\"`,`\\\\`,`line1\nline2`,`\\u{41}\\x41`,`$${x}`,`${x}$`,`\\0`,`<!--`,`${\"${\"}`,`${`${`${x}`}`}`,`a${x+y}b${x*2}c`,`${{p:1}.p}`,`${[1,2]}`,``)",
		"f`a${1}b`;g`\\n${a}\\u{41}`;h`\\unicode and \\xerxes`;k`</script>${b}`;f``;f`${1}${2}`;o1.m`x${1}`;g`a``b`;h(String.raw`a\\n${1}\\${}`);k((f)`x`,new g`y`)",
		// regular expressions
		`f(/a+b/g.test("aab"),/[/]/.test("/"),/\//.source,/[\]/]/.exec("]"),/(?<n>a)|b/u.exec("a").groups.n,/a/gimsuy.flags,/[/\\]/g.source,/\u{1F600}/u.test("😀"),"a/b".split(/\//),/=/.test("="),/[=]/.source,/(?:)/.source,/}/.source,/[[]/.source,/\$&/.source,/<\/script>/i.test("</SCRIPT>"))`,
		`x=4;y=2;g1=1;f(x/y/g1,x/ /y/g.lastIndex);if(a)/x/.test(b)&&f(1);var r=/a/g;r.lastIndex=1;g(r.exec("aa"),r.lastIndex,r);h("aXbX".replace(/X/g,(m,i)=>i),"abc".match(/b/).index,"a1b2".replace(/\d/g,"$&$&"))`,
		// ASI
		"x=a\n(f(1))\ny=b\n[0]\nz=c\n+f(2)\nw=d\n-g(3)\nv=e\n/2/1\nu=f\n`t`\ng(x,y,z,w,v,u)",
		"function t1(){return\nf(1)}function t2(){return(\nf(2))}function t3(p){p\n++\nq\nreturn[p,q]}function t4(){var i=0;L:for(;i<2;i++){continue\nL}return i}k(t1(),t2(),t3(1),t4())",
		"x=1\ny=2\nvar z=x\n++y\nvar w=function(){return 3}\n;(function(){f(4)})()\nlet l=5\n;[x,y]=[y,x]\nconst c=6\n;`${f(7)}`\nk(x,y,z,w(),l,c)\nthrow g(8)\nh(9)",
		"var a1=1,b1=2\nvar c1=a1\n/b1/1\nf(c1)\ndo f(1); while(0) g(2)\nif(a)f(3)\nelse g(4)\nfor(var i=0;i<1;i++)f(5)\nh(i)\nclass A{x=1\ny=2;*g(){}\nstatic\ns=3}k(new A,A.s)",
		// async
		`async function t1(){f(1);await null;f(2);try{await Promise.reject(3)}catch(e){f(e)}return 4}g("before");t1().then(v=>h(v));g("after");Promise.resolve().then(()=>k("micro"))`,
		`async function*ag(){yield 1;yield 2}(async()=>{for await(var v of ag())f(v);var[x,y]=await Promise.all([g(1),g(2)]);h(x,y)})();var af=async x=>await x;var ag2=async(x,y)=>x+y;af(1).then(k);ag2(1,2).then(k)`,
		// misc
		`var x=0;function t1(){x++;return x}f(t1()+t1()*t1(),x);x=1;g(x+(x=2)+x,x);var y=[1,2,3];h(y[x=0],y[x++],y[x],x);o1[f(1)]=g(2);o1[h(3)]+=k(4)`,
		`f([,],[,,],[1,,],[,1],[1,,2],[...[,]],[,].length,[1,2,3,].length,{a:1,}.a,((a,b,)=>1).length>=0,g(1,))`,
		`label:function t1(){}if(a)function t2(){return 1}else function t3(){return 2}f(typeof t1,typeof t2,typeof t3)`,
		`var o={f(){return this}};x=(o.f)()===o;y=(0,o.f)()===o;z=(o.f||0)()===o;w=(a?o.f:o.f)()===o;eval1=(1,g);v=o?.f()===o;f(x,y,z,w,v)`,
		`f(1<2<3,3>2>1,1==1==1,"b"+1+2,1+2+"b","3"*"4",[]+[],[]+{},1+null,1+undefined,"5"-2,"5"+2,true+true,null==undefined,null===undefined,NaN!=NaN,0===-0,Object.is(0,-0),[1]==1,"1"==1)`,
		`f(1+2,"a"+"b",1+"a",2*3,7%3,1<<2,-1>>>28,5&3,5|3,5^3,~5,!0,!1,!!"",1/3,0.1*3,1e21+1,2**53+1,"a"<"b",1/0,-1/0,0/0,1e3*1e3,0xff+1,"abc".length,"abc"[1],[1,2][1],+"12",+"",-"x",void 0===undefined)`,
	}
}

// ---------------------------------------------------------------- classification of program texts

// c01SwScan blanks the contents of string, template and regular expression literals and of comments (so that the
// remaining text is code only) and matches brackets.  open[i] = index of the closing bracket for an opening one at i.
func c01SwScan(src string) (code []byte, open map[int]int, close map[int]int) {
	code = []byte(src)
	open, close = map[int]int{}, map[int]int{}
	var stack []int
	prevSig := func(i int) (byte, string) { // previous significant byte and, if it ends a word, that word
		j := i - 1
		for j >= 0 && (code[j] == ' ' || code[j] == '\n' || code[j] == '\t' || code[j] == '\r') {
			j--
		}
		if j < 0 {
			return 0, ""
		}
		e := j + 1
		for j >= 0 && (code[j] == '_' || code[j] == '$' || code[j] >= '0' && code[j] <= '9' || code[j] >= 'a' && code[j] <= 'z' || code[j] >= 'A' && code[j] <= 'Z') {
			j--
		}
		return code[e-1], string(code[j+1 : e])
	}
	blank := func(a, b int) {
		for k := a; k < b && k < len(code); k++ {
			if code[k] != '\n' {
				code[k] = ' '
			}
		}
	}
	n := len(code)
	for i := 0; i < n; i++ {
		c := code[i]
		switch {
		case c == '"' || c == '\'':
			j := i + 1
			for j < n && code[j] != c {
				if code[j] == '\\' {
					j++
				}
				j++
			}
			blank(i+1, j)
			i = j
		case c == '`':
			j, depth := i+1, 0
			for j < n {
				if code[j] == '\\' {
					j += 2
					continue
				}
				if depth == 0 && code[j] == '`' {
					break
				}
				if code[j] == '$' && j+1 < n && code[j+1] == '{' {
					depth++
					j += 2
					continue
				}
				if depth > 0 && code[j] == '{' {
					depth++
				} else if depth > 0 && code[j] == '}' {
					depth--
				}
				j++
			}
			blank(i+1, j)
			i = j
		case c == '/' && i+1 < n && code[i+1] == '/':
			j := i
			for j < n && code[j] != '\n' {
				j++
			}
			blank(i, j)
			i = j
		case c == '/' && i+1 < n && code[i+1] == '*':
			j := i + 2
			for j+1 < n && !(code[j] == '*' && code[j+1] == '/') {
				j++
			}
			blank(i, j+2)
			i = j + 1
		case c == '/':
			p, w := prevSig(i)
			isRe := p == 0 || strings.IndexByte("(,=:[!&|?{};+-*%<>~^", p) >= 0
			switch w {
			case "return", "typeof", "case", "void", "in", "of", "throw", "yield", "else", "do", "instanceof", "delete", "new":
				isRe = true
			}
			if !isRe {
				continue
			}
			j, cls := i+1, false
			for j < n && code[j] != '\n' {
				if code[j] == '\\' {
					j += 2
					continue
				}
				if code[j] == '[' {
					cls = true
				} else if code[j] == ']' {
					cls = false
				} else if code[j] == '/' && !cls {
					break
				}
				j++
			}
			if j < n && code[j] == '/' {
				blank(i+1, j)
				i = j
			}
		case c == '(' || c == '[' || c == '{':
			stack = append(stack, i)
		case c == ')' || c == ']' || c == '}':
			if len(stack) > 0 {
				o := stack[len(stack)-1]
				stack = stack[:len(stack)-1]
				open[o] = i
				close[i] = o
			}
		}
	}
	return code, open, close
}

var (
	c01SwReStaticBlock = regexp.MustCompile(`\bstatic\s*\{`)
	c01SwReVarDecl     = regexp.MustCompile(`\bvar\b`)
	c01SwReVarNames    = regexp.MustCompile(`\bvar\s+([A-Za-z_$][\w$]*)`)
	c01SwReCatch       = regexp.MustCompile(`\bcatch\s*\(\s*([A-Za-z_$][\w$]*)\s*\)`)
	c01SwReElse        = regexp.MustCompile(`\belse\s*\{`)
	c01SwReFlowEnd     = regexp.MustCompile(`\b(return|throw|break|continue)\b[^;{}]*;?\s*\}?\s*$`)
	c01SwReFlowBlock   = regexp.MustCompile(`\b(return|throw|break|continue)\b[^;{}]*;?\s*$`)
	c01SwReDeclStart   = regexp.MustCompile(`^\s*(let\b|const\b|class\b|function\b|async\s+function\b)`)
	c01SwReDestrStart  = regexp.MustCompile(`^\s*(let|const)\s*[\[{]`)
	c01SwReReturn      = regexp.MustCompile(`\breturn\b([^;{}]*)`)
	c01SwReAssignName  = regexp.MustCompile(`\b([A-Za-z_$][\w$]*)\s*=[^=>]`)
	c01SwReVoidBin     = regexp.MustCompile(`\bvoid\s*\(\s*[\w$.]+\s*(?:[-+*/%^&|]|<<|>>>?)\s*[\w$.]+\s*\)`)
	c01SwReIfBinEmpty  = regexp.MustCompile(`\bif\s*\(\s*[\w$.]+\s*(?:[-+*/%^&|]|<<|>>>?|[<>]=?|[!=]==?)\s*[\w$.]+\s*\)\s*(?:\{\s*\}|;)`)
	c01SwReStmtBin     = regexp.MustCompile(`(?:^|[;{}])\s*[A-Za-z_$][\w$.]*\s*(?:[-+*/%^&|]|<<|>>>?|[<>]=?|[!=]==?)\s*[A-Za-z_$][\w$.]*\s*(?:;|\}|$)`)
	c01SwReMath        = regexp.MustCompile(`\bMath\s*\.\s*(trunc|abs|pow)\s*\(`)
	c01SwReStaticNum   = regexp.MustCompile(`\bstatic\s+[0-9.]`)
	c01SwReIf          = regexp.MustCompile(`\bif\s*\(`)
	c01SwReShadowDecl  = regexp.MustCompile(`\b(var|let|const)\s+(?:[\w$]+\s*(?:=[^,;]*)?,\s*)*(undefined|NaN|Infinity)\b`)
	c01SwReShadowParam = regexp.MustCompile(`(?:^|[(,{\[:]|\.\.\.)\s*(undefined|NaN|Infinity)\s*(?:$|[,)=}\]])`)
	c01SwReLineCont    = regexp.MustCompile("(?:\"(?:\\\\\\r?\\n)+\"|'(?:\\\\\\r?\\n)+')\\s*(?:\\?[^.?]|&&|\\|\\|)|(?:!|\\bif\\s*\\(|\\bwhile\\s*\\()\\s*(?:\"(?:\\\\\\r?\\n)+\"|'(?:\\\\\\r?\\n)+')")
	c01SwReBlockHead   = regexp.MustCompile(`\b(if|for|while|catch)\s*$`)
	c01SwReWordEnd     = regexp.MustCompile(`\b(else|do|try|finally)\s*$`)
	c01SwReExprStmt    = regexp.MustCompile(`^\s*(var|let|const|if|for|while|do|switch|try|return|throw|break|continue|function|class|async)\b`)
)

// c01SwTopSplit splits text at top-level (bracket depth 0) separator bytes.
func c01SwTopSplit(text string, seps string) []string {
	var out []string
	depth, start := 0, 0
	for i := 0; i < len(text); i++ {
		switch c := text[i]; {
		case c == '(' || c == '[' || c == '{':
			depth++
		case c == ')' || c == ']' || c == '}':
			depth--
		case depth == 0 && strings.IndexByte(seps, c) >= 0:
			out = append(out, text[start:i])
			start = i + 1
		}
	}
	return append(out, text[start:])
}

func c01SwNonEmpty(parts []string) []string {
	var out []string
	for _, p := range parts {
		if strings.TrimSpace(p) != "" {
			out = append(out, p)
		}
	}
	return out
}

// c01SwClassify returns the avoid keys whose narrow syntactic trigger the program text matches (it errs on the side
// of not matching).  It is meant for programs that already failed, to attribute the failure to a known finding.
func c01SwClassify(src string) []string {
	codeB, open, closeM := c01SwScan(src)
	code := string(codeB)
	found := map[string]bool{}
	wordIn := func(text, name string) bool {
		return regexp.MustCompile(`(^|[^\w$.])` + regexp.QuoteMeta(name) + `($|[^\w$])`).MatchString(text)
	}
	// blocks: classification of every `{…}` by what precedes it
	isStmtBlock := func(o int) (kind string, ok bool) { // kind: "loop", "else", "if", "other"
		before := code[:o]
		tb := strings.TrimRight(before, " \n\t\r")
		if tb == "" {
			return "other", true
		}
		if m := c01SwReWordEnd.FindStringSubmatch(before); m != nil {
			if m[1] == "else" {
				return "else", true
			}
			if m[1] == "do" {
				return "loop", true
			}
			return "other", true
		}
		switch tb[len(tb)-1] {
		case ')':
			po, ok := closeM[len(tb)-1]
			if !ok {
				return "", false
			}
			if m := c01SwReBlockHead.FindStringSubmatch(code[:po]); m != nil {
				switch m[1] {
				case "for", "while":
					return "loop", true
				case "if":
					return "if", true
				}
				return "other", true
			}
			return "", false
		case '{', '}', ';':
			return "other", true
		}
		return "", false
	}
	// direct statements of a block
	direct := func(o, c int) []string { return c01SwNonEmpty(c01SwTopSplit(code[o+1:c], ";\n")) }
	declRe := c01SwReDeclStart
	hasDirectDecl := func(o, c int) bool {
		inner := code[o+1 : c]
		depth := 0
		for i := 0; i < len(inner); i++ {
			switch inner[i] {
			case '(', '[', '{':
				depth++
			case ')', ']', '}':
				depth--
			}
			if depth == 0 && (i == 0 || strings.IndexByte(";{}\n", inner[i]) >= 0 || inner[i-1] == ';' || inner[i-1] == '}' || inner[i-1] == '\n') {
				rest := inner[i:]
				if i > 0 || true {
					rest = strings.TrimLeft(rest, ";}\n \t")
				}
				if declRe.MatchString(rest) {
					return true
				}
			}
		}
		return false
	}
	// static blocks
	for _, m := range c01SwReStaticBlock.FindAllStringIndex(code, -1) {
		o := m[1] - 1
		c, ok := open[o]
		if !ok {
			continue
		}
		inner := code[o+1 : c]
		// blank the bodies of nested functions: a `var` there is function scoped
		ib := []byte(inner)
		for bo, bc := range open {
			if bo <= o || bc >= c || code[bo] != '{' {
				continue
			}
			tb := strings.TrimRight(code[:bo], " \n\t\r")
			isFn := strings.HasSuffix(tb, "=>")
			if strings.HasSuffix(tb, ")") {
				if po, ok := closeM[len(tb)-1]; ok && !c01SwReBlockHead.MatchString(code[:po]) && !regexp.MustCompile(`\b(switch|with)\s*$`).MatchString(code[:po]) {
					isFn = true
				}
			}
			if isFn {
				for k := bo + 1; k < bc; k++ {
					ib[k-o-1] = ' '
				}
			}
		}
		inner = string(ib)
		if c01SwReVarDecl.MatchString(inner) {
			found["S5-static-var"] = true
		}
		if hasDirectDecl(o, c) {
			found["S12-static-lexical"] = true
		}
		outer := code[:o] + code[c:]
		for _, vm := range c01SwReVarNames.FindAllStringSubmatch(outer, -1) {
			if regexp.MustCompile(`(^|[^\w$.])` + regexp.QuoteMeta(vm[1]) + `\s*(=[^=]|\+\+|--|[-+*/%&|^]=)`).MatchString(inner) {
				found["S5-static-var"] = true
			}
		}
		if c01SwReIf.MatchString(inner) {
			found["S6-static-if"] = true
		}
	}
	if c01SwReStaticNum.MatchString(code) {
		found["S4-static-num"] = true
	}
	// catch parameter redeclared by var
	for _, m := range c01SwReCatch.FindAllStringSubmatch(code, -1) {
		if regexp.MustCompile(`\bvar\s+(?:[\w$]+\s*(?:=[^,;]*)?,\s*)*` + regexp.QuoteMeta(m[1]) + `\b`).MatchString(code) {
			found["S8-catch-var"] = true
		}
	}
	// S11: else { decl … } after a branch that ends in a flow statement, or if (…) { decl … } else <flow>
	for _, m := range c01SwReElse.FindAllStringIndex(code, -1) {
		o := m[1] - 1
		c, ok := open[o]
		if !ok {
			continue
		}
		before := strings.TrimRight(code[:m[0]], " \n\t\r")
		thenFlow := c01SwReFlowEnd.MatchString(before)
		if thenFlow && hasDirectDecl(o, c) {
			found["S11-else-lexical"] = true
		}
		// the else block itself ends in a flow statement and the then-block declares directly
		inner := strings.TrimRight(code[o+1:c], " \n\t\r;")
		if c01SwReFlowBlock.MatchString(inner) && strings.HasSuffix(before, "}") {
			if to, ok := closeM[len(before)-1]; ok && hasDirectDecl(to, len(before)-1) {
				found["S11-else-lexical"] = true
			}
		}
	}
	if m := regexp.MustCompile(`\}\s*else\s+(return|throw|break|continue)\b`).FindAllStringIndex(code, -1); m != nil {
		for _, mm := range m {
			if to, ok := closeM[mm[0]]; ok && hasDirectDecl(to, mm[0]) {
				found["S11-else-lexical"] = true
			}
		}
	}
	declRe = c01SwReFnStart
	// S11f: the same with a function declaration: else { function … } after a branch that ends in a flow statement, or if (…) { decl … } else <flow>
	for _, m := range c01SwReElse.FindAllStringIndex(code, -1) {
		o := m[1] - 1
		c, ok := open[o]
		if !ok {
			continue
		}
		before := strings.TrimRight(code[:m[0]], " \n\t\r")
		thenFlow := c01SwReFlowEnd.MatchString(before)
		if thenFlow && hasDirectDecl(o, c) {
			found["S11f-else-function"] = true
		}
		// the else block itself ends in a flow statement and the then-block declares directly
		inner := strings.TrimRight(code[o+1:c], " \n\t\r;")
		if c01SwReFlowBlock.MatchString(inner) && strings.HasSuffix(before, "}") {
			if to, ok := closeM[len(before)-1]; ok && hasDirectDecl(to, len(before)-1) {
				found["S11f-else-function"] = true
			}
		}
	}
	if m := regexp.MustCompile(`\}\s*else\s+(return|throw|break|continue)\b`).FindAllStringIndex(code, -1); m != nil {
		for _, mm := range m {
			if to, ok := closeM[mm[0]]; ok && hasDirectDecl(to, mm[0]) {
				found["S11f-else-function"] = true
			}
		}
	}
	declRe = c01SwReDeclStart
	// blocks: S3, S10
	for o, c := range open {
		if code[o] != '{' {
			continue
		}
		kind, ok := isStmtBlock(o)
		if !ok {
			continue
		}
		st := direct(o, c)
		if len(st) != 1 {
			continue
		}
		if bo := strings.IndexByte(st[0], '{'); bo >= 0 && !c01SwReDestrStart.MatchString(st[0]) {
			// `class C{…}h()` / `function t(){…}x` are two statements without a separator
			depth, end := 0, -1
			for i := bo; i < len(st[0]) && end < 0; i++ {
				switch st[0][i] {
				case '{':
					depth++
				case '}':
					depth--
					if depth == 0 {
						end = i
					}
				}
			}
			if end >= 0 && strings.TrimSpace(st[0][end+1:]) != "" {
				continue
			}
		}
		if c01SwReDestrStart.MatchString(st[0]) {
			found["S3-destructure-block"] = true
		}
		if c01SwReLoneClass.MatchString(st[0]) {
			found["S15-class-effects"] = true // a block whose only statement is a class (declaration or initialiser)
		}
		if (kind == "loop" || kind == "else") && c01SwReDeclStart.MatchString(st[0]) {
			found["S10-lone-decl"] = true
		}
	}
	// S16: `var {…} = …` whose object pattern binds no name (hoistVars turns it into an expression statement `{…}=…`)
	for _, m := range c01SwReVarObj.FindAllStringIndex(code, -1) {
		o := m[1] - 1
		if c, ok := open[o]; ok {
			if !c01SwReBindName.MatchString(code[o : c+1]) {
				found["S16-hoist-empty-pattern"] = true
			}
		}
	}
	// K1: return a,b,undefined / expression statements followed by return undefined | void 0 | return;
	for _, m := range c01SwReReturn.FindAllStringSubmatchIndex(code, -1) {
		arg := code[m[2]:m[3]]
		if nl := strings.IndexByte(arg, '\n'); nl >= 0 && strings.TrimSpace(arg[:nl]) == "" {
			arg = "" // restricted production: `return ⏎ x` returns nothing
		}
		items := c01SwTopSplit(arg, ",")
		last := strings.TrimSpace(items[len(items)-1])
		last = strings.Trim(last, "() ")
		undef := last == "" || last == "undefined" || last == "void 0"
		if !undef {
			continue
		}
		if len(items) >= 3 {
			found["K1-return-undefined"] = true
			continue
		}
		if len(items) > 1 {
			continue
		}
		// only at the end of a function body: what follows is `}` (after optional `;` and var declarations)
		after := strings.TrimLeft(code[m[3]:], "; \n\t\r")
		if !strings.HasPrefix(after, "}") {
			continue
		}
		// preceding statements of the same list
		j := m[0] - 1
		depth := 0
		for j >= 0 {
			if code[j] == ')' || code[j] == ']' || code[j] == '}' {
				depth++
			} else if code[j] == '(' || code[j] == '[' || code[j] == '{' {
				if depth == 0 {
					break
				}
				depth--
			}
			j--
		}
		prev := c01SwNonEmpty(c01SwTopSplit(code[j+1:m[0]], ";\n"))
		nexpr := 0
		for k := len(prev) - 1; k >= 0; k-- {
			if c01SwReExprStmt.MatchString(prev[k]) || strings.HasSuffix(strings.TrimSpace(prev[k]), "}") {
				break
			}
			nexpr++
		}
		if nexpr >= 2 {
			found["K1-return-undefined"] = true
		}
	}
	// K2: assignment to F inside the condition of c ? F(x) : F(y) / if (c) F(x); else F(y)
	seenName := map[string]bool{}
	for _, m := range c01SwReAssignName.FindAllStringSubmatch(code, -1) {
		nm := m[1]
		if seenName[nm] {
			continue
		}
		seenName[nm] = true
		q := regexp.QuoteMeta(nm)
		if regexp.MustCompile(`(^|[^\w$.])`+q+`\s*=[^=>][^;{}]*\?\s*`+q+`\s*\([^;{}]*:\s*`+q+`\s*\(`).MatchString(code) ||
			regexp.MustCompile(`\bif\s*\([^;{}]*(^|[^\w$.])`+q+`\s*=[^=>][^;{}]*\)\s*(return\s+)?`+q+`\s*\([^;{}]*\)\s*;?\s*(else\s*)?(return\s+)?`+q+`\s*\(`).MatchString(code) {
			found["K2-call-merge"] = true
		}
	}
	// K3
	if c01SwReVoidBin.MatchString(code) || c01SwReIfBinEmpty.MatchString(code) || c01SwReStmtBin.MatchString(code) {
		found["K3-pure-binary"] = true
	}
	if c01SwReMath.MatchString(code) {
		found["K4-math"] = true
	}
	// function heads: S1, S7 (parameters)
	for o, c := range open {
		if code[o] != '(' {
			continue
		}
		after := strings.TrimLeft(code[c+1:], " \n\t\r")
		arrow := strings.HasPrefix(after, "=>")
		if !arrow && !strings.HasPrefix(after, "{") {
			continue
		}
		if !arrow {
			if c01SwReBlockHead.MatchString(code[:o]) || regexp.MustCompile(`\b(switch|with)\s*$`).MatchString(code[:o]) {
				continue
			}
		}
		params := code[o+1 : c]
		var body string
		if arrow {
			rest := strings.TrimLeft(after[2:], " \n\t\r")
			if strings.HasPrefix(rest, "{") {
				bo := len(code) - len(rest)
				if bc, ok := open[bo]; ok {
					body = code[bo : bc+1]
				}
			} else {
				end := strings.IndexAny(rest, ";\n")
				if end < 0 {
					end = len(rest)
				}
				body = rest[:end]
			}
		} else {
			bo := len(code) - len(after)
			if bc, ok := open[bo]; ok {
				body = code[bo : bc+1]
			}
		}
		for _, prm := range c01SwTopSplit(params, ",") {
			if c01SwReShadowParam.MatchString(prm) {
				found["S7-shadow-global"] = true
			}
			eq := -1
			depth := 0
			for i := 0; i < len(prm) && eq < 0; i++ {
				switch prm[i] {
				case '(', '[', '{':
					depth++
				case ')', ']', '}':
					depth--
				case '=':
					if depth == 0 && i+1 < len(prm) && prm[i+1] != '=' && prm[i+1] != '>' {
						eq = i
					}
				}
			}
			if eq < 0 {
				continue
			}
			nm := strings.TrimSpace(prm[:eq])
			if !regexp.MustCompile(`^[A-Za-z_$][\w$]*$`).MatchString(nm) {
				continue
			}
			if !wordIn(body, nm) || wordIn(body, "arguments") {
				found["S1-param-default"] = true
			}
		}
	}
	if c01SwReShadowDecl.MatchString(code) {
		found["S7-shadow-global"] = true
	}
	if c01SwReLineCont.MatchString(src) {
		found["S9-line-continuation"] = true
	}
	var out []string
	for _, k := range c01SwKeys2 {
		if found[k] {
			out = append(out, k)
		}
	}
	return out
}

// c01SwKeys2 lists the avoid keys in reporting order.
var c01SwReFnStart = regexp.MustCompile(`^(async\s+)?function\b`)
var c01SwReLoneClass = regexp.MustCompile(`^\s*(class\b|(let|const)\s+[\w$]+\s*=\s*class\b)`)
var c01SwReVarObj = regexp.MustCompile(`\bvar\s*\{`)

// an identifier in binding position of a pattern: followed by , } ] or = and not a property key (not followed by :)
var c01SwReBindName = regexp.MustCompile(`[A-Za-z_$][\w$]*\s*[,}\]=]`)

var c01SwKeys2 = []string{"S15-class-effects", "S16-hoist-empty-pattern", "S11f-else-function", "S1-param-default", "S3-destructure-block", "S4-static-num", "S5-static-var", "S6-static-if", "S7-shadow-global", "S8-catch-var",
	"S9-line-continuation", "S10-lone-decl", "S11-else-lexical", "S12-static-lexical", "K1-return-undefined", "K2-call-merge", "K3-pure-binary", "K4-math"}

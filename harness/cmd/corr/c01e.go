package main

// C01E — string literal rewriting of the JS minifier (growth item E of C01): `minifyString` and `replaceEscapes`
// in js/util.go.  Everything goes through the PUBLIC API (`js.Minifier.Minify`); the literal is taken back out of
// the output text.  Per generated literal and call site:
//
//   (i)   CORRESPONDENCE: output literal vs the Lean model (`model.c01e.minify allowTemplate lit` for '…' / "…",
//         `model.c01e.template lit` for a substitution-free template) — finding kind "diff";
//   (ii)  THE PROPERTY ITSELF on the implementation's output, independent of the model: V8 (tools/jsstr.mjs)
//         evaluates input and output literal, in sloppy and in strict mode; where the input is valid in a mode the
//         output must be valid in that mode and denote the same sequence of UTF-16 code units — finding kind "fail".
//         The Lean specification `spec.c01e.decode` is evaluated on the same pairs (`holds`), and
//   (iii) SPEC VALIDATION: `spec.c01e.decode` must agree with V8 on every literal seen (input or output), both modes
//         — a disagreement is a finding of kind "diff" (the specification is wrong, not the code);
//   (iv)  the `</script` / `<!--` guards: the output literal contains neither `</script` (any letter case) nor `<!--`
//         within 8 bytes of some `<` of the input (the guard works on raw text) — otherwise "fail".
//
// Call sites: `x=<lit>` with Version 0 (allowTemplate) and Version 5 (no template); allowTemplate=false sites:
// property names `({<lit>:1})`, `import<lit>`, `export*from<lit>`, import alias `import{<lit> as y}from"m"`.

import (
	"bufio"
	"bytes"
	"encoding/hex"
	"encoding/json"
	"fmt"
	"os/exec"
	"path/filepath"
	"sort"
	"strconv"
	"strings"
	"sync"
	"time"

	"github.com/tdewolff/minify/v2"
	"github.com/tdewolff/minify/v2/js"

	"verifharness/h"
)

// ---------- call sites ----------

type c01eSite struct {
	name           string
	pre, post      string // input text around the literal
	opre, opost    string // expected output text around the literal
	module         bool   // module code is strict: only the strict-mode value is compared
	allowTemplate  bool
	backtickInputs bool // template literals make sense here
}

var c01eSites = []c01eSite{
	{name: "expr", pre: "x=", opre: "x=", allowTemplate: true, backtickInputs: true},
	{name: "prop", pre: "({", post: ":1})", opre: "({", opost: ":1})"},
	{name: "import", pre: "import ", opre: "import", module: true},
	{name: "export", pre: "export * from ", opre: "export*from", module: true},
	{name: "alias", pre: "import{", post: " as y}from\"m\"", opre: "import{", opost: " as y}from\"m\"", module: true},
}

type c01eCase struct {
	lit  []byte
	site int
	ver  int
	out  []byte // literal in the output; nil: no literal came out (parse error, converted property name)
	note string
}

func (c *c01eCase) allowTemplate() bool {
	return c01eSites[c.site].allowTemplate && (c.ver == 0 || 2015 <= c.ver)
}

func (c *c01eCase) key() string {
	return fmt.Sprintf("%s v%d %s", c01eSites[c.site].name, c.ver, h.Q(c.lit))
}

var c01eM = minify.New()

// c01eRun calls the real minifier on site.pre+lit+site.post and cuts the literal out of the output.
func c01eRun(c *c01eCase) (crash string) {
	s := c01eSites[c.site]
	src := make([]byte, 0, len(s.pre)+len(c.lit)+len(s.post))
	src = append(append(append(src, s.pre...), c.lit...), s.post...)
	var outb bytes.Buffer
	var err error
	crash = h.Safely(10*time.Second, func() {
		o := &js.Minifier{Version: c.ver}
		err = o.Minify(c01eM, &outb, bytes.NewReader(src), nil)
	})
	if crash != "" {
		return crash
	}
	if err != nil {
		c.note = "rejected"
		return ""
	}
	out := outb.Bytes()
	if !bytes.HasPrefix(out, []byte(s.opre)) || !bytes.HasSuffix(out, []byte(s.opost)) || len(out) < len(s.opre)+len(s.opost)+1 {
		c.note = "shape"
		return ""
	}
	o := out[len(s.opre) : len(out)-len(s.opost)]
	if q := o[0]; (q != '\'' && q != '"' && q != '`') || len(o) < 2 || o[len(o)-1] != q {
		c.note = "converted" // property name turned into an identifier or a number by the parser
		return ""
	}
	c.out = append([]byte(nil), o...)
	return ""
}

// c01eRunAll runs the cases on all CPUs.
func c01eRunAll(ctx *Ctx, st *h.Stage, cases []c01eCase) {
	var wg sync.WaitGroup
	w := h.Workers
	if w < 1 {
		w = 1
	}
	var mu sync.Mutex
	for k := 0; k < w; k++ {
		lo, hi := len(cases)*k/w, len(cases)*(k+1)/w
		wg.Add(1)
		go func(lo, hi int) {
			defer wg.Done()
			for i := lo; i < hi; i++ {
				if crash := c01eRun(&cases[i]); crash != "" {
					mu.Lock()
					ctx.R.Add(h.Finding{Stage: st.Name, Kind: "crash", What: "js.Minify: " + crash, Input: cases[i].key(), Hex: hex.EncodeToString(cases[i].lit), Config: fmt.Sprintf("site=%s Version=%d", c01eSites[cases[i].site].name, cases[i].ver)})
					mu.Unlock()
				}
			}
		}(lo, hi)
	}
	wg.Wait()
}

// ---------- V8 oracle ----------

// c01eNode evaluates the literals with V8; result[i] == nil: rejected. `ok[i]` distinguishes the empty string from rejection.
func c01eNode(root string, strict bool, lits [][]byte) (vals [][]int, ok []bool, err error) {
	vals = make([][]int, len(lits))
	ok = make([]bool, len(lits))
	if len(lits) == 0 {
		return
	}
	const chunk = 20000
	nproc := 4
	type part struct{ lo, hi int }
	var parts []part
	per := (len(lits) + nproc - 1) / nproc
	for lo := 0; lo < len(lits); lo += per {
		hi := lo + per
		if hi > len(lits) {
			hi = len(lits)
		}
		parts = append(parts, part{lo, hi})
	}
	errs := make([]error, len(parts))
	var wg sync.WaitGroup
	for pi, p := range parts {
		wg.Add(1)
		go func(pi int, p part) {
			defer wg.Done()
			var in bytes.Buffer
			for lo := p.lo; lo < p.hi; lo += chunk {
				hi := lo + chunk
				if hi > p.hi {
					hi = p.hi
				}
				hs := make([]string, hi-lo)
				for i := lo; i < hi; i++ {
					hs[i-lo] = hex.EncodeToString(lits[i])
				}
				b, _ := json.Marshal(hs)
				in.Write(b)
				in.WriteByte('\n')
			}
			args := []string{filepath.Join(root, "tools", "jsstr.mjs")}
			if strict {
				args = append(args, "strict")
			}
			cmd := exec.Command("/usr/bin/node", args...)
			cmd.Stdin = &in
			var stderr bytes.Buffer
			cmd.Stderr = &stderr
			out, e := cmd.Output()
			if e != nil {
				errs[pi] = fmt.Errorf("node jsstr.mjs: %v: %s", e, stderr.String())
				return
			}
			sc := bufio.NewScanner(bytes.NewReader(out))
			sc.Buffer(make([]byte, 1<<20), 1<<30)
			i := p.lo
			for sc.Scan() {
				var arr []*[]int
				if e := json.Unmarshal(sc.Bytes(), &arr); e != nil {
					errs[pi] = fmt.Errorf("node jsstr.mjs: bad reply: %v", e)
					return
				}
				for _, v := range arr {
					if i >= p.hi {
						errs[pi] = fmt.Errorf("node jsstr.mjs: too many replies")
						return
					}
					if v != nil {
						ok[i] = true
						vals[i] = *v
					}
					i++
				}
			}
			if i != p.hi {
				errs[pi] = fmt.Errorf("node jsstr.mjs: %d replies for %d literals", i-p.lo, p.hi-p.lo)
			}
		}(pi, p)
	}
	wg.Wait()
	for _, e := range errs {
		if e != nil {
			return nil, nil, e
		}
	}
	return
}

// c01eParseUnits parses a reply of spec.c01e.decode: "N" or "S" + decimal code units.
func c01eParseUnits(b []byte) (v []int, ok bool) {
	if len(b) == 0 || b[0] != 'S' {
		return nil, false
	}
	if len(b) == 1 {
		return []int{}, true
	}
	for _, p := range strings.Split(string(b[1:]), ",") {
		n, _ := strconv.Atoi(p)
		v = append(v, n)
	}
	return v, true
}

func c01eEq(a, b []int) bool {
	if len(a) != len(b) {
		return false
	}
	for i := range a {
		if a[i] != b[i] {
			return false
		}
	}
	return true
}

func c01eShow(v []int, ok bool) string {
	if !ok {
		return "rejected"
	}
	return fmt.Sprint(v)
}

// c01eEval: correspondence, property (V8 + spec) and spec validation for a batch of cases that were run.
func c01eEval(ctx *Ctx, st *h.Stage, cases []c01eCase) error {
	// distinct literals
	idx := map[string]int{}
	var lits [][]byte
	add := func(b []byte) int {
		if i, ok := idx[string(b)]; ok {
			return i
		}
		idx[string(b)] = len(lits)
		lits = append(lits, b)
		return len(lits) - 1
	}
	type ref struct{ in, out int }
	refs := make([]ref, len(cases))
	var lines []string
	lineOf := make([]int, len(cases))
	for i := range cases {
		c := &cases[i]
		lineOf[i] = -1
		if c.out == nil {
			st.Tag("skipped=" + c.note)
			if c.note == "shape" && st.Dist["skipped=shape"] <= 3 {
				ctx.R.Note("%s: output has not the expected shape for %s", st.Name, c.key())
			}
			continue
		}
		refs[i] = ref{add(c.lit), add(c.out)}
		lineOf[i] = len(lines)
		if c.lit[0] == '`' {
			lines = append(lines, "model.c01e.template "+h.Hex(c.lit))
		} else {
			lines = append(lines, "model.c01e.minify "+h.Bool(c.allowTemplate())+" "+h.Hex(c.lit))
		}
	}
	nModel := len(lines)
	for _, l := range lits {
		lines = append(lines, "spec.c01e.decode "+h.Bool(false)+" "+h.Hex(l), "spec.c01e.decode "+h.Bool(true)+" "+h.Hex(l))
	}
	var rep []string
	var nodeS, nodeT [][]int
	var okS, okT []bool
	var errM, errS, errT error
	var wg sync.WaitGroup
	wg.Add(3)
	go func() { defer wg.Done(); rep, errM = h.Eval(lines) }()
	go func() { defer wg.Done(); nodeS, okS, errS = c01eNode(h.Root(), false, lits) }()
	go func() { defer wg.Done(); nodeT, okT, errT = c01eNode(h.Root(), true, lits) }()
	wg.Wait()
	for _, e := range []error{errM, errS, errT} {
		if e != nil {
			return e
		}
	}
	// (iii) spec validation
	specS := make([][]int, len(lits))
	specT := make([][]int, len(lits))
	sokS := make([]bool, len(lits))
	sokT := make([]bool, len(lits))
	for i, l := range lits {
		for mode := 0; mode < 2; mode++ {
			b, ok, msg := h.DecodeReply(rep[nModel+2*i+mode])
			if !ok {
				ctx.R.Add(h.Finding{Stage: st.Name, Kind: "diff", What: "spec.c01e.decode: model error " + msg, Input: h.Q(l), Hex: hex.EncodeToString(l)})
				continue
			}
			v, vok := c01eParseUnits(b)
			nv, nok := nodeS[i], okS[i]
			if mode == 1 {
				nv, nok = nodeT[i], okT[i]
				specT[i], sokT[i] = v, vok
			} else {
				specS[i], sokS[i] = v, vok
			}
			if vok != nok || (vok && !c01eEq(v, nv)) {
				ctx.R.Add(h.Finding{Stage: st.Name, Kind: "diff", What: "specification decodeLit disagrees with V8 (" + []string{"sloppy", "strict"}[mode] + ")", Input: h.Q(l), Hex: hex.EncodeToString(l), Impl: "V8 " + c01eShow(nv, nok), Model: "spec " + c01eShow(v, vok)})
			}
		}
	}
	// (i), (ii), (iv)
	for i := range cases {
		c := &cases[i]
		if c.out == nil {
			st.Count(c.key(), false)
			continue
		}
		st.Count(c.key(), !bytes.Equal(c.out, c.lit))
		cfg := fmt.Sprintf("site=%s Version=%d allowTemplate=%v", c01eSites[c.site].name, c.ver, c.allowTemplate())
		st.Tag("outquote=" + string(c.out[0:1]))
		// (i)
		got, ok, msg := h.DecodeReply(rep[lineOf[i]])
		if !ok {
			ctx.R.Add(h.Finding{Stage: st.Name, Kind: "diff", What: "model error " + msg, Input: c.key(), Hex: hex.EncodeToString(c.lit), Config: cfg, Impl: h.Q(c.out)})
		} else if !bytes.Equal(got, c.out) {
			ctx.R.Add(h.Finding{Stage: st.Name, Kind: "diff", What: "minifyString/replaceEscapes: model != implementation", Input: c.key(), Hex: hex.EncodeToString(c.lit), Config: cfg, Impl: h.Q(c.out), Model: h.Q(got)})
		}
		// (ii)
		r := refs[i]
		valid := false
		for mode := 0; mode < 2; mode++ {
			if mode == 0 && c01eSites[c.site].module {
				continue
			}
			nin, nout, okin, okout := nodeS[r.in], nodeS[r.out], okS[r.in], okS[r.out]
			sin, sout, sokin, sokout := specS[r.in], specS[r.out], sokS[r.in], sokS[r.out]
			if mode == 1 {
				nin, nout, okin, okout = nodeT[r.in], nodeT[r.out], okT[r.in], okT[r.out]
				sin, sout, sokin, sokout = specT[r.in], specT[r.out], sokT[r.in], sokT[r.out]
			}
			mname := []string{"sloppy", "strict"}[mode]
			if okin {
				valid = true
				if !okout || !c01eEq(nin, nout) {
					ctx.R.Add(h.Finding{Stage: st.Name, Kind: "fail", What: "string value changed (V8, " + mname + " mode): " + c01eShow(nin, okin) + " -> " + c01eShow(nout, okout), Input: c.key(), Hex: hex.EncodeToString(c.lit), Config: cfg, Impl: h.Q(c.out)})
				}
			}
			if sokin && (!sokout || !c01eEq(sin, sout)) {
				ctx.R.Add(h.Finding{Stage: st.Name, Kind: "fail", What: "string value changed (spec.c01e.decode, " + mname + " mode): " + c01eShow(sin, sokin) + " -> " + c01eShow(sout, sokout), Input: c.key(), Hex: hex.EncodeToString(c.lit), Config: cfg, Impl: h.Q(c.out)})
			}
		}
		if valid {
			st.Tag("input=valid")
		} else {
			st.Tag("input=invalid-js(outside the property)")
		}
		// (iv)
		if lo := bytes.ToLower(c.out); bytes.Contains(lo, []byte("</script")) || bytes.Contains(lo, []byte("<!--")) {
			ctx.R.Add(h.Finding{Stage: st.Name, Kind: "fail", What: "output literal contains </script (any letter case) or <!--", Input: c.key(), Hex: hex.EncodeToString(c.lit), Config: cfg, Impl: h.Q(c.out)})
		}
	}
	return nil
}

// ---------- generators ----------

// c01eAlpha: every branch of replaceEscapes / minifyString has a trigger byte here.
var c01eAlpha = [][]byte{{'\\'}, {'x'}, {'u'}, {'{'}, {'}'}, {'0'}, {'1'}, {'4'}, {'7'}, {'8'}, {'a'}, {'n'}, {'\''}, {'"'}, {'`'}, {'$'}, {'<'}, {'/'}, {'\n'}, {'\r'}, {0xE2, 0x80, 0xA8}}

// c01eItems: whole escape sequences and characters; sequences of these reach the branches that need 4+ bytes per item
// (the former failing families K-C01E-1..6 are all sequences of at most three of them).
var c01eItems = c01eU([]string{
	"a", "1", "8", "0", "{", "}", "$", "<", "/", "'", "\"", "`", "\n", "\r", "\r\n", " ", "\xc3\xa9", "\xf0\x9f\x98\x80", "/script>",
	`\n`, `\r`, `\t`, `\b`, `\f`, `\v`, `\0`, `\00`, `\000`, `\'`, `\"`, "\\`", `\\`, `\$`, `\{`, `\/`, `\a`, `\8`, `\9`, `\<`,
	"\\\n", "\\\r", "\\\r\n", "\\\xe2\x80\xa8", "\\\xc3\xa9",
	`\x24`, `\x7b`, `\x7B`, `\x5c`, `\x27`, `\x22`, `\x60`, `\x0a`, `\x0d`, `\x31`, `\x38`, `\x3c`, `\x2f`, `\x00`, `\x41`, `\x7f`, `\x80`, `\xff`,
	`%u0024`, `%u007b`, `%u005C`, `%u005c`, `%u0027`, `%u0022`, `%u0060`, `%u000a`, `%u000d`, `%u0031`, `%u0038`, `%u003c`, `%u0000`, `%u0041`, `%u00e9`,
	`%u2028`, `%u2029`, `%ud83d`, `%ude00`, `%uFFFF`, `%u{5c}`, `%u{24}`, `%u{7b}`, `%u{a}`, `%u{0}`, `%u{31}`, `%u{00041}`, `%u{1F600}`, `%u{10FFFF}`, `%u{10FFFE}`, `%u{0000041}`,
	`\1`, `\7`, `\12`, `\15`, `\42`, `\47`, `\44`, `\61`, `\70`, `\71`, `\74`, `\074`, `\134`, `\140`, `\173`, `\177`, `\200`, `\377`, `\400`, `\060`, `\001`,
})

// c01eU writes `%u` for backslash-u (so that no tool ever decodes the escapes in this source file).
func c01eU(l []string) []string {
	out := make([]string, len(l))
	for i, s := range l {
		out[i] = strings.ReplaceAll(s, "%u", "\\u")
	}
	return out
}

// c01eReduced: the items behind the former defects, for longer exhaustive sequences.
var c01eReduced = c01eU([]string{
	"1", "8", "{", "$", "\r", "\n", "'", "\"", "`", `\n`, `\0`, `\00`, `\000`, "\\\n", `\x24`, `\x7b`, `%u005c`, `\x31`, `\61`, `\8`, `\74`, `\074`, `\200`, `%u{a}`, `\x27`, `\$`, `\{`, `\r`, "a",
})

func c01eLex(body []byte, q byte) bool {
	// the body must come out of the lexer as one literal: no raw quote of its own kind, no raw newline in '…'/"…",
	// no `${` in a template, no backslash at the end
	for i := 0; i < len(body); i++ {
		c := body[i]
		if c == '\\' {
			i++
			if i >= len(body) {
				return false
			}
			continue
		}
		if c == q {
			return false
		}
		if q != '`' && (c == '\n' || c == '\r') {
			return false
		}
		if q == '`' && c == '$' && i+1 < len(body) && body[i+1] == '{' {
			return false
		}
	}
	return true
}

// c01eCasesFor adds the call-site / version combinations for one body.
func c01eCasesFor(dst []c01eCase, body []byte, allSites bool) []c01eCase {
	for _, q := range []byte{'\'', '"', '`'} {
		if !c01eLex(body, q) {
			continue
		}
		lit := make([]byte, 0, len(body)+2)
		lit = append(append(append(lit, q), body...), q)
		dst = append(dst, c01eCase{lit: lit, site: 0, ver: 0}, c01eCase{lit: lit, site: 0, ver: 5})
		if allSites && q != '`' {
			for s := 1; s < len(c01eSites); s++ {
				dst = append(dst, c01eCase{lit: lit, site: s, ver: 0})
			}
		}
	}
	return dst
}

var c01eRawPool = []string{"a", "Z", "0", "1", "7", "8", "9", " ", "{", "}", "$", "<", "/", ">", "!", "-", "'", "\"", "`", "\xc3\xa9", "\xe2\x82\xac", "\xf0\x9f\x98\x80", "\xe2\x80\xa8", "\xe2\x80\xa9", "\xef\xbb\xbf", "script", "</script>", "</SCRIPT", "</scRipt ", "<\\/Script", "<!--", "${", "\t", "\x7f"}

func c01eGenBody(r *h.RNG) []byte {
	var b []byte
	n := 1 + r.Intn(12)
	for i := 0; i < n; i++ {
		switch k := r.Intn(20); {
		case k < 7:
			b = append(b, r.Pick(c01eItems)...)
		case k < 11:
			b = append(b, r.Pick(c01eRawPool)...)
		case k == 11:
			b = append(b, fmt.Sprintf(`\x%02x`, r.Intn(256))...)
		case k == 12:
			b = append(b, fmt.Sprintf(`\x%02X`, r.Intn(128))...)
		case k == 13:
			b = append(b, fmt.Sprintf("\\u%04x", r.Intn(0x10000))...)
		case k == 14:
			b = append(b, fmt.Sprintf("\\u%04X", []int{0, 9, 10, 13, 0x22, 0x24, 0x27, 0x30, 0x39, 0x3c, 0x5c, 0x60, 0x7b, 0x7f, 0x80, 0xff, 0x7ff, 0x800, 0x2028, 0xd7ff, 0xd800, 0xdfff, 0xe000, 0xffff}[r.Intn(24)])...)
		case k == 15:
			b = append(b, fmt.Sprintf("\\u{%s%x}", strings.Repeat("0", r.Intn(4)), []int{0, 10, 13, 0x24, 0x31, 0x3c, 0x5c, 0x7b, 0x80, 0x7ff, 0x800, 0xffff, 0x10000, 0x1f600, 0x10fffe, 0x10ffff, 0x110000, r.Intn(0x110000)}[r.Intn(18)])...)
		case k == 16:
			b = append(b, fmt.Sprintf(`\%o`, r.Intn(512))...)
		case k == 17:
			b = append(b, '\\', byte(32+r.Intn(95)))
		case k == 18:
			b = append(b, fmt.Sprintf(`\%03o`, r.Intn(256))...)
		default:
			b = append(b, byte(32+r.Intn(95)))
		}
	}
	return b
}

// ---------- regression corpus: the former failing families (fixed in /repo by 91e473c, a17ee5e, 465573c, c30b0df) ----------

var c01eRegression = c01eU([]string{
	`'%u005Cn'`, `'%u{5c}n'`, `'a%u005C'`, `'%u{5C}u0041'`,
	`'\x24{a}\n\n'`, `'%u0024{a}\n\n'`, `'\44{a}\n\n'`, `'$\x7ba}\n\n'`, `'$%u007ba}\n\n'`, `'$\173a}\n\n'`, "`\\x24{a}`", "`$\\x7ba}`", "`$\\\n{`", "`$\\\r{`", "`$\\\xe2\x80\xa8{`", `"\n\n\x24{a"`,
	`'\0001'`, `'\0\61'`, `'\0\x31'`, `'\0%u0031'`, "'\\0\\\n1'", "`\\0\\x38`", "`\\0\\\n8`", `'\0\x38'`, `'\00\x31'`, `'\000\61'`, `'\0%u{31}'`, `'\0\8'`, `'\0\061'`,
	`'\377'`, `'\200'`, `'$\277'`, `'\074'`, `'\74'`,
	"`\r\\n`", "`a\r\\n`", "`\r\\\n\n`", "`\r%u000a`", "`\r\\x0a`", "`\r%u{a}`", "`\r\r\\n`", "`\r\n\\n`",
	`'\08\n\n'`, `'\09\n\n\n'`, `'\74\n\n\n'`, `'\074\n\n\n'`, `'\0\8\n\n\n'`, `'\0\61\n\n\n'`, `'\00\x31\n\n\n'`, `'\008\n\n\n'`, `'\0008\n\n\n'`, `'\200\n\n\n'`,
	// from js_test.go / util_test.go (pinned spellings)
	`"string\0%uFFFFstring"`, `"string\000\12\015\042\47\411string"`, `' %u{0}%u{0}%u{0\0\ '`, `"\x00\x31 \0%u0000"`, "`\\n\\'\\$\\$\\{`", `"\42''"`, `'\47""'`, `'\140""\'\''`,
	`'</script>'`, `'<\/script>'`, `'\x3c/script>'`, `'</scr\x69pt>'`,
	// 42d690f: every `</script`, any letter case
	`'</script'`, `'</SCRIPT x'`, `'<\/ScRiPt'`, `'</scrip'`, `'a</scriptb</Script/>'`, "`</sCRIPT\n`", `'\</script'`, `'<\/script'`, `'<\/scrip'`,
})

func c01eEnumChars(dst *[]c01eCase, body []byte, n int, allSites bool) {
	*dst = c01eCasesFor(*dst, body, allSites && len(body) <= 2)
	if n == 0 {
		return
	}
	for _, a := range c01eAlpha {
		nb := make([]byte, 0, len(body)+3)
		nb = append(append(nb, body...), a...)
		c01eEnumChars(dst, nb, n-1, allSites)
	}
}

func c01eEnumItems(dst *[]c01eCase, items []string, body []byte, n int) {
	if len(body) > 0 {
		*dst = c01eCasesFor(*dst, body, false)
	}
	if n == 0 {
		return
	}
	for _, a := range items {
		nb := make([]byte, 0, len(body)+len(a))
		nb = append(append(nb, body...), a...)
		c01eEnumItems(dst, items, nb, n-1)
	}
}

func c01eStage(ctx *Ctx, name, rule string, exhaustive bool, cases []c01eCase) error {
	st := ctx.R.StartStage(name, rule)
	st.Exhaustive = exhaustive
	c01eRunAll(ctx, st, cases)
	// evaluate in slices to bound memory
	const slice = 600000
	for lo := 0; lo < len(cases); lo += slice {
		hi := lo + slice
		if hi > len(cases) {
			hi = len(cases)
		}
		if err := c01eEval(ctx, st, cases[lo:hi]); err != nil {
			return err
		}
	}
	st.End()
	return nil
}

func init() {
	register("C01E", func(c *Ctx) error {
		nontriv := "non-trivial = the output literal differs from the input literal"
		// ---- regression corpus + known findings ----
		var cases []c01eCase
		for _, s := range c01eRegression {
			lit := []byte(s)
			cases = append(cases, c01eCase{lit: lit, site: 0, ver: 0}, c01eCase{lit: lit, site: 0, ver: 5})
			if lit[0] != '`' {
				for k := 1; k < len(c01eSites); k++ {
					cases = append(cases, c01eCase{lit: lit, site: k, ver: 0})
				}
			}
		}
		if err := c01eStage(c, "regression", "the former failing families of minifyString/replaceEscapes (fixed by 91e473c, a17ee5e, 465573c, c30b0df) and the suite's pinned string cases, every call site; "+nontriv, true, cases); err != nil {
			return err
		}
		for _, k := range h.Known("C01E") {
			if k.Status != "open" {
				continue
			}
			kc := c01eCase{lit: []byte(k.ReplayStr("literal")), site: 0, ver: 0}
			crash := c01eRun(&kc)
			still := crash == "" && kc.out != nil && string(kc.out) == k.ReplayStr("observed")
			c.R.AddKnown(k.ID, still, k.What, h.Q(kc.out))
		}

		// ---- exhaustive: bytes ----
		L := c.N(4, 5)
		if c.Search {
			L = 5
		}
		cases = nil
		c01eEnumChars(&cases, nil, L, true)
		if err := c01eStage(c, "bytes", fmt.Sprintf("EXHAUSTIVE: every literal body of at most %d symbols over the 21-symbol alphabet \\ x u { } 0 1 4 7 8 a n ' \" ` $ < / LF CR U+2028 that the lexer accepts, as '…', \"…\" and `…`, through x=<lit> with Version 0 (allowTemplate) and Version 5 (no template); bodies of at most 2 symbols also as property name, import, export and alias string; %s", L, nontriv), true, cases); err != nil {
			return err
		}

		// ---- exhaustive: items ----
		cases = nil
		c01eEnumItems(&cases, c01eItems, nil, c.N(2, 3))
		c01eEnumItems(&cases, c01eReduced, nil, c.N(3, 4))
		if err := c01eStage(c, "items", fmt.Sprintf("EXHAUSTIVE: every sequence of at most %d of %d items (whole escape sequences of every kind, raw characters incl. 2/3/4-byte UTF-8, CR, LF, CRLF, U+2028, /script>) and of at most %d of the %d items behind the former defects; %s", c.N(2, 3), len(c01eItems), c.N(3, 4), len(c01eReduced), nontriv), true, cases); err != nil {
			return err
		}

		// ---- seeded random longer literals, all call sites ----
		cases = nil
		n := c.N(40000, 600000)
		if c.Search {
			n *= 4
		}
		for i := 0; i < n; i++ {
			cases = c01eCasesFor(cases, c01eGenBody(c.Rng.Fork()), i%4 == 0)
		}
		sort.SliceStable(cases, func(i, j int) bool { return false })
		if err := c01eStage(c, "random", "seeded random bodies of 1-12 items (items of the exhaustive stage, raw pool incl. </script>, <!--, ${, BOM, random \\xHH \\uHHHH \\u{…} octal and identity escapes, printable ASCII) at every call site; "+nontriv, false, cases); err != nil {
			return err
		}
		return nil
	})
}

package main

// C04B — independent oracle: rule trees of input and output built from the raw *lexer* tokens (CSS Syntax 3 §5.4
// "consume a list of rules / declarations"), an own selector normaliser with specificity, at-rule prelude comparison.
// Nothing here uses the dependency *parser* or the Lean model; declaration values are paired and handed to the Lean
// value judgement (spec.c04b.decl).

import (
	"fmt"
	"strings"

	"github.com/tdewolff/parse/v2"
	pcss "github.com/tdewolff/parse/v2/css"
)

func c04bLex(src string) []c04Tok {
	l := pcss.NewLexer(parse.NewInputString(src))
	var ts []c04Tok
	for {
		tt, data := l.Next()
		if tt == pcss.ErrorToken {
			return ts
		}
		if tt == pcss.CommentToken {
			continue // comments are not cascade input; a comment also separates tokens like white space does not (ignored)
		}
		ts = append(ts, c04Tok{tt, append([]byte{}, data...)})
		if len(ts) > 4000000 {
			return ts
		}
	}
}

type c04bNode struct {
	kind      string // "rule", "at", "decl", "raw"
	name      string
	prelude   []c04Tok
	value     []c04Tok
	important bool
	hasBlock  bool
	blockKind string // "rules", "decls", "raw"
	kids      []*c04bNode
	raw       []c04Tok
}

type c04bP struct {
	ts []c04Tok
	i  int
}

func (p *c04bP) eof() bool { return p.i >= len(p.ts) }
func (p *c04bP) skipWs() {
	for !p.eof() && p.ts[p.i].tt == pcss.WhitespaceToken {
		p.i++
	}
}

func c04bOpens(t c04Tok) bool {
	return t.tt == pcss.LeftParenthesisToken || t.tt == pcss.LeftBracketToken || t.tt == pcss.LeftBraceToken || t.tt == pcss.FunctionToken
}
func c04bCloses(t c04Tok) bool {
	return t.tt == pcss.RightParenthesisToken || t.tt == pcss.RightBracketToken || t.tt == pcss.RightBraceToken
}

// until consumes tokens up to (excluding) the first token at nesting depth 0 for which stop is true; a closing brace
// at depth 0 always stops.
func (p *c04bP) until(stop func(c04Tok) bool) []c04Tok {
	var out []c04Tok
	depth := 0
	for !p.eof() {
		t := p.ts[p.i]
		if depth == 0 && (stop(t) || t.tt == pcss.RightBraceToken) {
			break
		}
		if c04bOpens(t) {
			depth++
		} else if c04bCloses(t) && depth > 0 {
			depth--
		}
		out = append(out, t)
		p.i++
	}
	return out
}

func c04bTrim(ts []c04Tok) []c04Tok {
	for len(ts) > 0 && ts[0].tt == pcss.WhitespaceToken {
		ts = ts[1:]
	}
	for len(ts) > 0 && ts[len(ts)-1].tt == pcss.WhitespaceToken {
		ts = ts[:len(ts)-1]
	}
	return ts
}

var c04bRuleBlocks = map[string]bool{"media": true, "supports": true, "document": true, "keyframes": true, "container": true, "layer": true, "scope": true, "starting-style": true}
var c04bDeclBlocks = map[string]bool{"font-face": true, "page": true, "counter-style": true, "property": true, "viewport": true, "font-palette-values": true}

func c04bBareName(name string) string {
	n := strings.ToLower(strings.TrimPrefix(name, "@"))
	if strings.HasPrefix(n, "-") {
		if i := strings.IndexByte(n[1:], '-'); i >= 0 {
			n = n[i+2:]
		}
	}
	return n
}

func (p *c04bP) atRule() *c04bNode {
	n := &c04bNode{kind: "at", name: strings.ToLower(string(p.ts[p.i].data))}
	p.i++
	n.prelude = c04bTrim(p.until(func(t c04Tok) bool { return t.tt == pcss.SemicolonToken || t.tt == pcss.LeftBraceToken }))
	if p.eof() {
		return n
	}
	switch p.ts[p.i].tt {
	case pcss.SemicolonToken:
		p.i++
	case pcss.LeftBraceToken:
		p.i++
		n.hasBlock = true
		bare := c04bBareName(n.name)
		switch {
		case c04bRuleBlocks[bare]:
			n.blockKind = "rules"
			n.kids = p.ruleList(false)
		case c04bDeclBlocks[bare]:
			n.blockKind = "decls"
			n.kids = p.declList()
		default:
			n.blockKind = "raw"
			depth := 0
			for !p.eof() {
				t := p.ts[p.i]
				if depth == 0 && t.tt == pcss.RightBraceToken {
					break
				}
				if c04bOpens(t) {
					depth++
				} else if c04bCloses(t) && depth > 0 {
					depth--
				}
				n.raw = append(n.raw, t)
				p.i++
			}
		}
		if !p.eof() && p.ts[p.i].tt == pcss.RightBraceToken {
			p.i++
		}
	}
	return n
}

func (p *c04bP) ruleList(top bool) []*c04bNode {
	var out []*c04bNode
	for {
		p.skipWs()
		if p.eof() {
			return out
		}
		t := p.ts[p.i]
		switch {
		case t.tt == pcss.RightBraceToken:
			if !top {
				return out
			}
			p.i++
			out = append(out, &c04bNode{kind: "raw", raw: []c04Tok{t}})
		case t.tt == pcss.CDOToken || t.tt == pcss.CDCToken:
			p.i++ // ignored at the top level, CSS Syntax 3 §5.4.1
			if !top {
				out = append(out, &c04bNode{kind: "raw", raw: []c04Tok{t}})
			}
		case t.tt == pcss.AtKeywordToken:
			out = append(out, p.atRule())
		default:
			pre := c04bTrim(p.until(func(t c04Tok) bool { return t.tt == pcss.LeftBraceToken }))
			if p.eof() || p.ts[p.i].tt != pcss.LeftBraceToken {
				out = append(out, &c04bNode{kind: "raw", raw: pre})
				continue
			}
			p.i++
			n := &c04bNode{kind: "rule", prelude: pre, hasBlock: true, blockKind: "decls"}
			n.kids = p.declList()
			if !p.eof() && p.ts[p.i].tt == pcss.RightBraceToken {
				p.i++
			}
			out = append(out, n)
		}
	}
}

func c04bSplitImportant(ts []c04Tok) ([]c04Tok, bool) { return c04SplitImportant(c04bTrim(ts)) }

func (p *c04bP) declList() []*c04bNode {
	var out []*c04bNode
	for {
		p.skipWs()
		if p.eof() {
			return out
		}
		t := p.ts[p.i]
		switch {
		case t.tt == pcss.RightBraceToken:
			return out
		case t.tt == pcss.SemicolonToken:
			p.i++
		case t.tt == pcss.AtKeywordToken:
			out = append(out, p.atRule())
		default:
			start := p.i
			name := ""
			// IE hacks `*zoom`, `_height` are delimiters / identifiers in front of the name
			j := p.i
			if p.ts[j].tt == pcss.DelimToken && (string(p.ts[j].data) == "*") && j+1 < len(p.ts) {
				name = "*"
				j++
			}
			if p.ts[j].tt == pcss.IdentToken || p.ts[j].tt == pcss.CustomPropertyNameToken {
				name += string(p.ts[j].data)
				k := j + 1
				for k < len(p.ts) && p.ts[k].tt == pcss.WhitespaceToken {
					k++
				}
				if k < len(p.ts) && p.ts[k].tt == pcss.ColonToken {
					p.i = k + 1
					val := p.until(func(t c04Tok) bool { return t.tt == pcss.SemicolonToken })
					n := &c04bNode{kind: "decl", name: name}
					if !strings.HasPrefix(name, "--") {
						n.name = strings.ToLower(name)
						n.value, n.important = c04bSplitImportant(val)
					} else {
						n.value = val
					}
					out = append(out, n)
					continue
				}
			}
			// not a declaration: a nested rule (`prelude { … }`) or junk up to the next semicolon
			p.i = start
			var raw []c04Tok
			depth := 0
			for !p.eof() {
				t := p.ts[p.i]
				if depth == 0 && (t.tt == pcss.SemicolonToken || t.tt == pcss.RightBraceToken) {
					break
				}
				if c04bOpens(t) {
					depth++
				} else if c04bCloses(t) && depth > 0 {
					depth--
				}
				raw = append(raw, t)
				p.i++
				if depth == 0 && t.tt == pcss.RightBraceToken {
					break
				}
			}
			out = append(out, &c04bNode{kind: "raw", raw: raw})
		}
	}
}

func c04bTree(src string, inline bool) []*c04bNode {
	p := &c04bP{ts: c04bLex(src)}
	if inline {
		var out []*c04bNode
		for !p.eof() {
			out = append(out, p.declList()...)
			if !p.eof() && p.ts[p.i].tt == pcss.RightBraceToken {
				out = append(out, &c04bNode{kind: "raw", raw: []c04Tok{p.ts[p.i]}})
				p.i++
			}
		}
		return out
	}
	return p.ruleList(true)
}

// ---------- selectors ----------

var c04bSelListFns = map[string]bool{"not": true, "is": true, "where": true, "matches": true, "has": true, "any": true, "-webkit-any": true, "-moz-any": true, "host": true, "host-context": true, "slotted": true, "cue": true, "cue-region": true, "current": true}
var c04bNthFns = map[string]bool{"nth-child": true, "nth-last-child": true, "nth-of-type": true, "nth-last-of-type": true, "nth-col": true, "nth-last-col": true}
var c04bFoldFns = map[string]bool{"lang": true, "dir": true}

// c04bUnescape resolves CSS escapes (CSS Syntax 3 §4.3.7) in identifier or string content.
func c04bUnescape(s string) string {
	var sb strings.Builder
	for i := 0; i < len(s); i++ {
		if s[i] != '\\' {
			sb.WriteByte(s[i])
			continue
		}
		i++
		if i >= len(s) {
			sb.WriteRune(0xFFFD)
			break
		}
		c := s[i]
		isHex := func(c byte) bool { return c >= '0' && c <= '9' || c >= 'a' && c <= 'f' || c >= 'A' && c <= 'F' }
		switch {
		case isHex(c):
			v := 0
			n := 0
			for i < len(s) && n < 6 && isHex(s[i]) {
				d := s[i]
				switch {
				case d <= '9':
					v = v*16 + int(d-'0')
				case d >= 'a':
					v = v*16 + int(d-'a') + 10
				default:
					v = v*16 + int(d-'A') + 10
				}
				i++
				n++
			}
			if i < len(s) && (s[i] == ' ' || s[i] == '\t' || s[i] == '\n' || s[i] == '\r' || s[i] == '\f') {
				i++
			}
			i--
			if v == 0 || v > 0x10FFFF || v >= 0xD800 && v <= 0xDFFF {
				v = 0xFFFD
			}
			if v < 256 {
				sb.WriteByte(byte(v)) // the Lean side works on Latin-1 bytes; equality is all that matters here
			} else {
				sb.WriteRune(rune(v))
			}
		case c == '\r':
			if i+1 < len(s) && s[i+1] == '\n' {
				i++
			}
		case c == '\n' || c == '\f':
		default:
			sb.WriteByte(c)
		}
	}
	return sb.String()
}

type c04bSelCtx int

const (
	c04bCtxSel c04bSelCtx = iota
	c04bCtxNth
	c04bCtxFold
	c04bCtxKeep
)

func c04bIsCombinator(t c04Tok) bool {
	if t.tt == pcss.ColumnToken {
		return true
	}
	if t.tt == pcss.DelimToken {
		d := string(t.data)
		return d == ">" || d == "+" || d == "~"
	}
	return false
}

// c04bSelNorm: normal form of a selector list read from raw lexer tokens (white space significant as descendant
// combinator only between two compound selectors).
func c04bSelNorm(ts []c04Tok, html bool) string {
	ts = c04bTrim(ts)
	var parts []string
	stack := []c04bSelCtx{}
	ctx := func() c04bSelCtx {
		if len(stack) == 0 {
			return c04bCtxSel
		}
		return stack[len(stack)-1]
	}
	inAttr := false
	phase := 0
	prev := "" // "dot", "colon", ""
	pendingWs := false
	lastSig := "start" // kind of the last emitted token: "start", "open", "comb", "comma", "part"
	emit := func(s, kind string) {
		if pendingWs {
			if lastSig == "part" && kind == "part" {
				parts = append(parts, " ")
			}
			pendingWs = false
		}
		parts = append(parts, s)
		lastSig = kind
	}
	// An+B: the formula is its text without white space, whatever the token boundaries (`2N + 1`, `2n+1`)
	anb := func(s string) {
		pendingWs = false
		if lastSig == "anb" {
			parts[len(parts)-1] += s
		} else {
			parts = append(parts, s)
		}
		lastSig = "anb"
	}
	for i, t := range ts {
		d := string(t.data)
		if inAttr {
			switch {
			case t.tt == pcss.WhitespaceToken:
			case t.tt == pcss.RightBracketToken:
				inAttr = false
				emit("]", "part")
			case t.tt == pcss.DelimToken && d == "=" || t.tt == pcss.IncludeMatchToken || t.tt == pcss.DashMatchToken || t.tt == pcss.PrefixMatchToken || t.tt == pcss.SuffixMatchToken || t.tt == pcss.SubstringMatchToken:
				phase = 1
				emit(d, "part")
			case phase == 1 && t.tt == pcss.StringToken && len(d) >= 2:
				phase = 2
				emit("\""+c04bUnescape(d[1:len(d)-1])+"\"", "part")
			case phase == 1 && t.tt == pcss.IdentToken:
				phase = 2
				emit("\""+c04bUnescape(d)+"\"", "part")
			case phase == 2 && t.tt == pcss.IdentToken:
				emit(" flag:"+strings.ToLower(d), "part")
			default:
				emit(d, "part")
			}
			prev = ""
			continue
		}
		c := ctx()
		switch {
		case t.tt == pcss.WhitespaceToken:
			if c == c04bCtxNth {
				// An+B: white space is not significant except around `of`
			} else {
				pendingWs = true
			}
			prev = ""
			continue
		case t.tt == pcss.FunctionToken:
			name := strings.ToLower(d[:len(d)-1])
			nc := c
			if prev == "colon" {
				switch {
				case c04bSelListFns[name]:
					nc = c04bCtxSel
				case c04bNthFns[name]:
					nc = c04bCtxNth
				case c04bFoldFns[name]:
					nc = c04bCtxFold
				default:
					nc = c04bCtxKeep
				}
			}
			emit(name+"(", "part")
			stack = append(stack, nc)
			lastSig = "open"
		case t.tt == pcss.LeftParenthesisToken:
			emit("(", "part")
			stack = append(stack, c)
			lastSig = "open"
		case t.tt == pcss.RightParenthesisToken:
			pendingWs = false
			if len(stack) > 0 {
				stack = stack[:len(stack)-1]
			}
			parts = append(parts, ")")
			lastSig = "part"
		case t.tt == pcss.CommaToken:
			pendingWs = false
			parts = append(parts, ",")
			lastSig = "comma"
		case c == c04bCtxSel && c04bIsCombinator(t):
			pendingWs = false
			parts = append(parts, d)
			lastSig = "comb"
		case c == c04bCtxSel && t.tt == pcss.LeftBracketToken:
			emit("[", "part")
			inAttr = true
			phase = 0
		case c == c04bCtxSel && t.tt == pcss.ColonToken:
			// a colon directly after white space starts a new compound selector
			emit(":", "part")
			prev = "colon"
			continue
		case c == c04bCtxSel && t.tt == pcss.DelimToken && d == ".":
			emit(".", "part")
			prev = "dot"
			continue
		case t.tt == pcss.IdentToken:
			switch c {
			case c04bCtxSel:
				nsPrefix := i+1 < len(ts) && ts[i+1].tt == pcss.DelimToken && string(ts[i+1].data) == "|"
				switch {
				case prev == "dot":
				case prev == "colon":
					d = strings.ToLower(d)
				case nsPrefix:
				case html:
					d = strings.ToLower(d)
				}
				emit(c04bUnescapeKeep(d), "part")
			case c04bCtxNth:
				d = strings.ToLower(d)
				if d == "of" {
					stack[len(stack)-1] = c04bCtxSel
					parts = append(parts, " of ")
					pendingWs = false
					lastSig = "open"
				} else {
					anb(d)
				}
			case c04bCtxFold:
				emit(strings.ToLower(d), "part")
			default:
				emit(d, "part")
			}
		default:
			if c == c04bCtxNth {
				anb(strings.ToLower(d))
			} else {
				emit(d, "part")
			}
		}
		prev = ""
	}
	return strings.Join(parts, "\x00")
}

// identifiers are compared as written (the minifier does not touch escapes outside attribute values)
func c04bUnescapeKeep(s string) string { return s }

func c04bSpecLess(a, b [3]int) bool {
	for i := 0; i < 3; i++ {
		if a[i] != b[i] {
			return a[i] < b[i]
		}
	}
	return false
}

// c04bSpecificity: Selectors 4 §17 over raw tokens; a comma-separated list yields its maximum.
func c04bSpecificity(ts []c04Tok) [3]int {
	var best, cur [3]int
	first := true
	flush := func() {
		if first || c04bSpecLess(best, cur) {
			best = cur
		}
		first = false
		cur = [3]int{}
	}
	colons := 0
	dot := false
	for i := 0; i < len(ts); i++ {
		t := ts[i]
		d := string(t.data)
		pc, pd := colons, dot
		if t.tt != pcss.ColonToken {
			colons = 0
		}
		dot = false
		switch {
		case t.tt == pcss.CommaToken:
			flush()
		case t.tt == pcss.HashToken:
			cur[0]++
		case t.tt == pcss.LeftBracketToken:
			cur[1]++
			for i < len(ts) && ts[i].tt != pcss.RightBracketToken {
				i++
			}
		case t.tt == pcss.ColonToken:
			colons = pc + 1
		case t.tt == pcss.DelimToken && d == ".":
			dot = true
		case t.tt == pcss.IdentToken:
			switch {
			case pd:
				cur[1]++
			case pc == 1:
				l := strings.ToLower(d)
				if l == "before" || l == "after" || l == "first-line" || l == "first-letter" {
					cur[2]++
				} else {
					cur[1]++
				}
			case pc >= 2:
				cur[2]++
			case i+1 < len(ts) && ts[i+1].tt == pcss.DelimToken && string(ts[i+1].data) == "|":
			default:
				cur[2]++
			}
		case t.tt == pcss.FunctionToken:
			name := strings.ToLower(d[:len(d)-1])
			// arguments up to the matching parenthesis
			depth := 0
			j := i + 1
			for ; j < len(ts); j++ {
				if ts[j].tt == pcss.FunctionToken || ts[j].tt == pcss.LeftParenthesisToken {
					depth++
				} else if ts[j].tt == pcss.RightParenthesisToken {
					if depth == 0 {
						break
					}
					depth--
				}
			}
			args := ts[i+1 : j]
			add := func(s [3]int) {
				for k := range cur {
					cur[k] += s[k]
				}
			}
			switch {
			case pc == 1 && (name == "not" || name == "is" || name == "matches" || name == "has" || name == "any" || name == "-webkit-any" || name == "-moz-any"):
				add(c04bSpecificity(args))
			case pc == 1 && name == "where":
			case pc == 1 && (name == "nth-child" || name == "nth-last-child"):
				cur[1]++
				for k, a := range args {
					if a.tt == pcss.IdentToken && strings.EqualFold(string(a.data), "of") {
						add(c04bSpecificity(args[k+1:]))
						break
					}
				}
			case pc == 1:
				cur[1]++
			case pc >= 2:
				cur[2]++
				if name == "slotted" {
					add(c04bSpecificity(args))
				}
			}
			i = j
		}
	}
	flush()
	return best
}

// ---------- at-rule preludes ----------

func c04bPreludeNorm(name string, ts []c04Tok) string {
	var parts []string
	isImport := name == "@import"
	selDepth := -1 // inside `selector(`: a selector, white space matters
	depth := 0
	var selToks []c04Tok
	first := true
	for _, t := range ts {
		d := string(t.data)
		if selDepth >= 0 {
			if c04bOpens(t) {
				depth++
			} else if c04bCloses(t) {
				depth--
				if depth == selDepth {
					parts = append(parts, "selector("+c04bSelNorm(selToks, true)+")")
					selDepth = -1
					selToks = nil
					continue
				}
			}
			selToks = append(selToks, t)
			continue
		}
		if t.tt == pcss.WhitespaceToken {
			continue
		}
		if c04bOpens(t) {
			if t.tt == pcss.FunctionToken && strings.EqualFold(d, "selector(") && c04bBareName(name) == "supports" {
				selDepth = depth
				depth++
				continue
			}
			depth++
		} else if c04bCloses(t) {
			depth--
		}
		if isImport && first {
			if t.tt == pcss.URLToken && strings.HasSuffix(d, ")") {
				u := strings.Trim(d[4:len(d)-1], " \t\r\n\f")
				if len(u) >= 2 && (u[0] == '"' || u[0] == '\'') && u[len(u)-1] == u[0] {
					u = u[1 : len(u)-1]
				}
				d = "\"" + u + "\""
			} else if t.tt == pcss.StringToken && len(d) >= 2 {
				d = "\"" + d[1:len(d)-1] + "\""
			}
		}
		first = false
		parts = append(parts, d)
	}
	return strings.Join(parts, "\x00")
}

func c04bRawNorm(ts []c04Tok) string {
	var parts []string
	for _, t := range ts {
		if t.tt == pcss.WhitespaceToken {
			continue
		}
		parts = append(parts, string(t.data))
	}
	for len(parts) > 0 && parts[len(parts)-1] == ";" {
		parts = parts[:len(parts)-1]
	}
	return strings.Join(parts, "\x00")
}

type c04bDeclPair struct {
	prop    string
	in, out []c04Tok
}

// c04bSameTree compares two rule trees; problem != "" is the first difference (clause: text).
func c04bSameTree(a, b []*c04bNode, path string, pairs *[]c04bDeclPair) string {
	if len(a) != len(b) {
		return fmt.Sprintf("structure: %s has %d items in the input and %d in the output", path, len(a), len(b))
	}
	for i := range a {
		x, y := a[i], b[i]
		at := fmt.Sprintf("%s/%d", path, i)
		if x.kind != y.kind {
			return fmt.Sprintf("structure: %s is a %s in the input and a %s in the output", at, x.kind, y.kind)
		}
		switch x.kind {
		case "rule":
			if c04bSelNorm(x.prelude, true) != c04bSelNorm(y.prelude, true) {
				return fmt.Sprintf("selector: %s %q became %q", at, c04TokStr(x.prelude), c04TokStr(y.prelude))
			}
			if c04bSpecificity(x.prelude) != c04bSpecificity(y.prelude) {
				return fmt.Sprintf("specificity: %s %q %v became %q %v", at, c04TokStr(x.prelude), c04bSpecificity(x.prelude), c04TokStr(y.prelude), c04bSpecificity(y.prelude))
			}
		case "at":
			if x.name != y.name {
				return fmt.Sprintf("at-rule name: %s %s became %s", at, x.name, y.name)
			}
			if c04bPreludeNorm(x.name, x.prelude) != c04bPreludeNorm(y.name, y.prelude) {
				return fmt.Sprintf("at-rule prelude: %s %s %q became %q", at, x.name, c04TokStr(x.prelude), c04TokStr(y.prelude))
			}
			if x.hasBlock != y.hasBlock || x.blockKind != y.blockKind {
				return fmt.Sprintf("structure: %s %s block changed", at, x.name)
			}
			if c04bRawNorm(x.raw) != c04bRawNorm(y.raw) {
				return fmt.Sprintf("raw tokens: %s %s block %q became %q", at, x.name, c04TokStr(x.raw), c04TokStr(y.raw))
			}
		case "decl":
			if x.name != y.name {
				return fmt.Sprintf("property name: %s %s became %s", at, x.name, y.name)
			}
			if strings.HasPrefix(x.name, "--") {
				if strings.Trim(c04TokStr(x.value), " \t\r\n\f") != strings.Trim(c04TokStr(y.value), " \t\r\n\f") {
					return fmt.Sprintf("custom property value: %s %s %q became %q", at, x.name, c04TokStr(x.value), c04TokStr(y.value))
				}
			} else {
				if x.important != y.important {
					return fmt.Sprintf("!important: %s %s", at, x.name)
				}
				*pairs = append(*pairs, c04bDeclPair{x.name, x.value, y.value})
			}
		case "raw":
			if c04bRawNorm(x.raw) != c04bRawNorm(y.raw) {
				return fmt.Sprintf("raw tokens: %s %q became %q", at, c04TokStr(x.raw), c04TokStr(y.raw))
			}
		}
		if p := c04bSameTree(x.kids, y.kids, at, pairs); p != "" {
			return p
		}
	}
	return ""
}

// c04bUnbalanced: parentheses or square brackets that are not closed inside their declaration / prelude swallow the rest
// of the style sheet (at least the following semicolon) into one component value (CSS Syntax 3 §5.4.8): parse-error territory.
func c04bUnbalanced(src string) bool {
	var stack []byte
	for _, t := range c04bLex(src) {
		switch t.tt {
		case pcss.LeftParenthesisToken, pcss.FunctionToken:
			stack = append(stack, ')')
		case pcss.LeftBracketToken:
			stack = append(stack, ']')
		case pcss.LeftBraceToken:
			stack = append(stack, '}')
		case pcss.RightParenthesisToken, pcss.RightBracketToken, pcss.RightBraceToken:
			if len(stack) == 0 || stack[len(stack)-1] != t.data[0] {
				return true
			}
			stack = stack[:len(stack)-1]
		case pcss.BadStringToken, pcss.BadURLToken:
			return true
		case pcss.SemicolonToken:
			// a semicolon inside parentheses or square brackets: the closing bracket is missing where the author meant it
			if len(stack) > 0 && stack[len(stack)-1] != '}' {
				return true
			}
		}
	}
	return len(stack) != 0
}

// c04bHasJunk: does the tree contain anything that is not a rule, at-rule or declaration (parse-error territory)?
func c04bHasJunk(ns []*c04bNode) bool {
	for _, n := range ns {
		if n.kind == "raw" {
			return true
		}
		if c04bHasJunk(n.kids) {
			return true
		}
	}
	return false
}

package main

// C09 — accepted input yields syntactically valid output that is accepted again.
// The proved part are corollaries of the per-language models (Props/C09.lean).  This runner is the tie / search on
// real documents: every corpus and benchmark document, byte-level mutations and splices of them and generated
// documents are minified with default and non-default options; whenever the first pass succeeds
//   (1) the second pass on the output must succeed, and
//   (2) if an independent parser accepts the INPUT (the minifiers are not validators) it must accept the OUTPUT:
//       JS: V8 syntax check (node vm.Script / SourceTextModule); JSON: encoding/json; XML and SVG: encoding/xml;
//       HTML: golang.org/x/net/html tree — same number of raw-text elements (a `</script` leaking into script text
//       or an unterminated comment changes it); CSS: an independent tokenizer-level balance checker.

import (
	"bufio"
	"bytes"
	"encoding/json"
	"encoding/xml"
	"fmt"
	"io"
	"os"
	"os/exec"
	"path/filepath"
	"reflect"
	"regexp"
	"sort"
	"strings"
	"time"

	"github.com/tdewolff/minify/v2"
	mincss "github.com/tdewolff/minify/v2/css"
	minhtml "github.com/tdewolff/minify/v2/html"
	minjs "github.com/tdewolff/minify/v2/js"
	minjson "github.com/tdewolff/minify/v2/json"
	minsvg "github.com/tdewolff/minify/v2/svg"
	minxml "github.com/tdewolff/minify/v2/xml"
	xhtml "golang.org/x/net/html"

	"verifharness/h"
)

type c09Doc struct {
	mt   string
	name string
	data []byte
}

func c09XMLValid(b []byte) bool {
	d := xml.NewDecoder(bytes.NewReader(b))
	d.Strict = true
	// any declared encoding is read as bytes: only well-formedness is judged (without this, encoding/xml rejects
	// `encoding='ISO-8859-1'` but overlooks the same declaration written with spaces around `=`)
	d.CharsetReader = func(_ string, r io.Reader) (io.Reader, error) { return r, nil }
	depth := 0
	for {
		t, err := d.Token()
		if err == io.EOF {
			return depth == 0
		}
		if err != nil {
			return false
		}
		switch t.(type) {
		case xml.StartElement:
			depth++
		case xml.EndElement:
			depth--
		}
	}
}

// encoding/xml is lenient about `<! … >` directives (it even accepts nested angle brackets); a mutated document that only
// it accepts is not evidence of well-formed input: require that every `<!` starts a comment, CDATA section or DOCTYPE
func c09XMLNoOddDirective(b []byte) bool {
	for i := 0; i+1 < len(b); i++ {
		if b[i] == '<' && b[i+1] == '!' {
			r := b[i+2:]
			if !(bytes.HasPrefix(r, []byte("--")) || bytes.HasPrefix(r, []byte("[CDATA[")) || bytes.HasPrefix(r, []byte("DOCTYPE"))) {
				return false
			}
		}
	}
	return true
}

// encoding/xml reads the pseudo-attributes of `<?xml …?>` with a lenient scan (`version=` followed by white space is simply
// "no version", the same text respelled `version="x"` is then an unsupported version): an input counts as well-formed only
// when every processing instruction with target `xml` is a proper XMLDecl / TextDecl (XML 1.0 [23], [77])
var c09ReXMLDecl = regexp.MustCompile(`^<\?xml(\s+version\s*=\s*("1\.[0-9]+"|'1\.[0-9]+'))?(\s+encoding\s*=\s*("[A-Za-z][A-Za-z0-9._-]*"|'[A-Za-z][A-Za-z0-9._-]*'))?(\s+standalone\s*=\s*("(yes|no)"|'(yes|no)'))?\s*\?>`)

func c09XMLDeclOK(b []byte) bool {
	for i := 0; i+5 < len(b); i++ {
		if b[i] == '<' && b[i+1] == '?' && (b[i+2] == 'x' || b[i+2] == 'X') && (b[i+3] == 'm' || b[i+3] == 'M') && (b[i+4] == 'l' || b[i+4] == 'L') {
			c := b[i+5]
			if c == ' ' || c == '\t' || c == '\n' || c == '\r' || c == '?' {
				if !c09ReXMLDecl.Match(b[i:]) {
					return false
				}
			}
		}
	}
	return true
}

// c09CSSValid: strings and comments terminated, (), [], {} balanced outside strings/comments.
func c09CSSValid(b []byte) bool {
	var stack []byte
	for i := 0; i < len(b); i++ {
		c := b[i]
		switch {
		case c == '/' && i+1 < len(b) && b[i+1] == '*':
			j := bytes.Index(b[i+2:], []byte("*/"))
			if j < 0 {
				return false
			}
			i += 2 + j + 1
		case c == '"' || c == '\'':
			j := i + 1
			for j < len(b) && b[j] != c {
				if b[j] == '\\' {
					j++
				} else if b[j] == '\n' {
					return false
				}
				j++
			}
			if j >= len(b) {
				return false
			}
			i = j
		case c == '\\':
			i++
		case c == '(' || c == '[' || c == '{':
			stack = append(stack, c)
		case c == ')' || c == ']' || c == '}':
			if len(stack) == 0 {
				return false
			}
			o := stack[len(stack)-1]
			if (c == ')' && o != '(') || (c == ']' && o != '[') || (c == '}' && o != '{') {
				return false
			}
			stack = stack[:len(stack)-1]
		}
	}
	return len(stack) == 0
}

// raw-text element census of an HTML document by x/net/html
func c09HTMLCensus(b []byte) string {
	root, err := xhtml.Parse(bytes.NewReader(b))
	if err != nil {
		return "parse-error"
	}
	cnt := map[string]int{}
	var walk func(n *xhtml.Node)
	walk = func(n *xhtml.Node) {
		if n.Type == xhtml.ElementNode {
			switch n.Data {
			case "script", "style", "textarea", "title", "iframe", "noscript", "pre":
				cnt[n.Data]++
			}
		}
		for c := n.FirstChild; c != nil; c = c.NextSibling {
			walk(c)
		}
	}
	walk(root)
	var ks []string
	for k, v := range cnt {
		ks = append(ks, fmt.Sprintf("%s=%d", k, v))
	}
	sort.Strings(ks)
	return strings.Join(ks, ",")
}

type c09JS struct {
	cmd *exec.Cmd
	in  io.WriteCloser
	out *bufio.Scanner
}

func c09StartNode() (*c09JS, error) {
	cmd := exec.Command("node", "--experimental-vm-modules", "--no-warnings", filepath.Join(h.Root(), "tools", "jscheck.mjs"))
	in, err := cmd.StdinPipe()
	if err != nil {
		return nil, err
	}
	outp, err := cmd.StdoutPipe()
	if err != nil {
		return nil, err
	}
	if err := cmd.Start(); err != nil {
		return nil, err
	}
	sc := bufio.NewScanner(outp)
	sc.Buffer(make([]byte, 1<<20), 1<<28)
	return &c09JS{cmd, in, sc}, nil
}

func (j *c09JS) valid(src []byte) (bool, string) {
	req, _ := json.Marshal(map[string]any{"id": 1, "src": string(src)})
	j.in.Write(append(req, '\n'))
	if !j.out.Scan() {
		return true, "node died" // cannot judge
	}
	var r struct {
		Ok  bool
		Err string
	}
	json.Unmarshal(j.out.Bytes(), &r)
	return r.Ok, r.Err
}

func c09Options(r *h.RNG) (*minify.M, string) {
	m := minify.New()
	if r.Chance(40) {
		m.AddFunc("text/css", mincss.Minify)
		m.AddFunc("text/html", minhtml.Minify)
		m.AddFunc("image/svg+xml", minsvg.Minify)
		m.AddFuncRegexp(regexp.MustCompile("^(application|text)/(x-)?(java|ecma|j|live)script(1\\.[0-5])?$|^module$"), minjs.Minify)
		m.AddFuncRegexp(regexp.MustCompile("[/+]json$"), minjson.Minify)
		m.AddFuncRegexp(regexp.MustCompile("[/+]xml$"), minxml.Minify)
		return m, "default"
	}
	co := &mincss.Minifier{KeepCSS2: r.Bool(), Precision: []int{0, 0, 3}[r.Intn(3)]}
	ho := &minhtml.Minifier{KeepComments: r.Bool(), KeepSpecialComments: r.Bool(), KeepDefaultAttrVals: r.Bool(), KeepDocumentTags: r.Bool(), KeepEndTags: r.Bool(), KeepQuotes: r.Bool(), KeepWhitespace: r.Bool()}
	so := &minsvg.Minifier{KeepComments: r.Bool(), Precision: []int{0, 0, 4}[r.Intn(3)]}
	jo := &minjs.Minifier{KeepVarNames: r.Bool(), Version: []int{0, 5, 2015, 2019, 2020, 2022}[r.Intn(6)], Precision: []int{0, 0, 5}[r.Intn(3)]}
	jso := &minjson.Minifier{KeepNumbers: r.Bool(), Precision: []int{0, 0, 3}[r.Intn(3)]}
	xo := &minxml.Minifier{KeepWhitespace: r.Bool()}
	m.Add("text/css", co)
	m.Add("text/html", ho)
	m.Add("image/svg+xml", so)
	// as in minify.Default: all JavaScript / JSON / XML media types map to the same minifier (otherwise dropping a default
	// `type="text/javascript"` attribute would change which minifier sees the script on the second pass)
	m.AddRegexp(regexp.MustCompile("^(application|text)/(x-)?(java|ecma|j|live)script(1\\.[0-5])?$|^module$"), jo)
	m.AddRegexp(regexp.MustCompile("[/+]json$"), jso)
	m.AddRegexp(regexp.MustCompile("[/+]xml$"), xo)
	return m, fmt.Sprintf("css%+v html%+v svg%+v js%+v json%+v xml%+v", *co, *ho, *so, *jo, *jso, *xo)
}

func c09Docs(repo string, maxBytes int) []c09Doc {
	var docs []c09Doc
	ext := map[string]string{".html": "text/html", ".css": "text/css", ".js": "application/javascript", ".json": "application/json", ".svg": "image/svg+xml", ".xml": "text/xml"}
	dirs := map[string]string{"html": "text/html", "css": "text/css", "js": "application/javascript", "json": "application/json", "svg": "image/svg+xml", "xml": "text/xml"}
	var names []string
	for d := range dirs {
		names = append(names, d)
	}
	sort.Strings(names)
	for _, d := range names {
		files, _ := filepath.Glob(filepath.Join(repo, "tests", d, "corpus", "*"))
		sort.Strings(files)
		for _, f := range files {
			if b, err := os.ReadFile(f); err == nil && len(b) > 0 && len(b) <= maxBytes {
				docs = append(docs, c09Doc{dirs[d], "tests/" + d + "/corpus/" + filepath.Base(f), b})
			}
		}
	}
	files, _ := filepath.Glob(filepath.Join(repo, "_benchmarks", "sample_*"))
	sort.Strings(files)
	for _, f := range files {
		if b, err := os.ReadFile(f); err == nil && len(b) > 0 && len(b) <= maxBytes {
			docs = append(docs, c09Doc{ext[filepath.Ext(f)], "_benchmarks/" + filepath.Base(f), b})
		}
	}
	for mt, ss := range map[string][]string{
		"text/html": {`<!doctype html><html><head><title>T</title><style>a{color:red}</style><script>var a = '<\/script>', b = "\x3C/script>", c = /<\/script>/;</script></head><body><p class="x y">Hello <b>w</b> &amp; <a href="http://x/y?a=1&amp;b=2">l</a><textarea> a  b </textarea></p><pre> a  b </pre><svg><path d="M0 0L1 1z"/></svg><!-- c --><script type="text/template"><div></div></script></body></html>`},
		// regressions of repaired findings (K-C09-3 / 1557146, K-C09-JS-5..7 / a80add2, K-C09-HTML-8 / 1557146, K-C09-HTML-10 / 6635adc):
		// a payload that would minify to the end tag or comment opener of its host element; must pass every clause
		"text/html regressions": {
			`<style>a{b:< /style >}</style><p>x</p>`,
			`<style>a{b:c}d{e:< /STYLE >;f:g}</style><p>x</p>`,
			`<script>x = a< /script >/.test(b)</script><p>y</p>`,
			`<script>var a = '<\/scr\ipt>', b = '<\57script>', c = '<\x2fscript>', d = '</scrip\x74>', e = '<'+'!--<script>';</script><p>z</p>`,
			`<script>var s = "<!--", t = "<script>", u = "<\/script>";</script><p>after</p>`,
			`<p><&#115;cript>alert(1)<&#47;script></p><title><&#47;title>x</title>`,
			`<iframe><b title="&lt;/iframe&gt;">x</b></iframe><p>after</p>`,
			// script-data double-escaped state (`<!--` … `<script`): the `</script` that balances it sits in a comment the JS
			// minifier removes / a string it rewrites; `<!--<script` survives in a regex literal or a kept /*! */ comment
			`<script>var re=/<!--<script>/;/* </script> */ f()</script><p>x</p><script>g()</script>`,
			`<script>/*! <!--<SCRIPT > */ var s = "</script>"; f()</script><p>x</p>`,
			`<script>var re=/<!--<script\/>/i; // </script >` + "\n" + `f()</script><p>x</p><textarea> a </textarea>`,
			`<script>if(/<!--[\s\S]*<script /.test(d)){/* </SCRIPT/ */h()}</script><p>y</p>`,
		},
		"text/css":               {`@charset "utf-8";@import "a.css";@media (min-width:100px){a:hover>b.c#d[e="f"]{margin:0px 0px;color:#ff0000;background:url("x y.png") no-repeat 0% 0%;font:bold 12px/1 "Arial",sans-serif;content:"\"}"}}`},
		"application/javascript": {"function f(a,b){if(a){return b+1}else{return `x${a}`}}var x=/re[/]/g.test('s')?1e3:0x10;for(let i=0;i<3;i++){x+=i}class A{#p=1;static m(){}}a = b + +c; d = e - -f; g = h / /re/.exec('x'); i = j < !--k; l = 1..toString(); m = 2 .toString()\nlet n = a\n++b\nvar o = a ?? (b || c); p = a?.[0]?.(1)", "x=0x10.toString(2);y=0b101.toFixed(1);z=((5)).toFixed(2);w=(5.0).a;v=1e3.b;u=0o17.c;t=(1n).toString()"},
		"application/json":       {`{"a":[1.0e2,true,null,"sA"],"b":{"c":-0.0,"c":0.5}}`},
		"image/svg+xml":          {`<?xml version="1.0"?><svg xmlns="http://www.w3.org/2000/svg" width="10px"><g fill="#FF0000"><path d="M 10,10 L 20 20 A 5 5 0 0 1 30 30 z M.5.5 1-2"/></g><style>a{b:c}</style><text> a &lt; b </text></svg>`},
		"text/xml":               {`<?xml version="1.0"?><a b="c &amp; d &#60; &#9;" c='"'><![CDATA[ x < y ]]> <e> t </e><f></f><g>a]&gt;b</g></a>`, `<a>]]<!-- note -->&gt;<b><![CDATA[x]]]]><!--c--><![CDATA[>y]]></b><c>]]&#62;</c></a>`},
	} {
		for i, s := range ss {
			if mt == "text/html regressions" {
				docs = append(docs, c09Doc{"text/html", fmt.Sprintf("seed-regression-%d", i), []byte(s)})
				continue
			}
			docs = append(docs, c09Doc{mt, fmt.Sprintf("seed-%d", i), []byte(s)})
		}
	}
	sort.SliceStable(docs, func(i, j int) bool { return docs[i].mt+docs[i].name < docs[j].mt+docs[j].name })
	return docs
}

func init() {
	register("C09", func(c *Ctx) error {
		maxB := 4000000 // every corpus / benchmark document at its real size in both tiers (mutations use documents <= 60 KB)
		docs := c09Docs(c.Repo, maxB)
		node, err := c09StartNode()
		if err != nil {
			return fmt.Errorf("cannot start node: %v", err)
		}
		defer func() { node.in.Close(); node.cmd.Wait() }()
		if err := c09XmlStages(c); err != nil {
			return err
		}
		if err := c09CssStages(c); err != nil {
			return err
		}
		if err := c09HtmlStages(c); err != nil {
			return err
		}
		if err := c09JsStages(c); err != nil {
			return err
		}
		var pool [][]byte
		for _, d := range docs {
			if len(d.data) < 200000 {
				pool = append(pool, d.data)
			}
		}
		st := c.R.StartStage("double-minify", "every corpus/benchmark/seed document (size bound by tier) with default options, then seeded mutations/splices of documents <= 60 KB with default and random non-default options: first pass; if it succeeds the second pass on the output must succeed and, when the independent parser (V8 syntax-only, encoding/json, encoding/xml, x/net/html raw-text census, CSS balance checker) accepts the input, it must accept the output; non-trivial = first pass succeeded and changed the document")
		run := func(d c09Doc, m *minify.M, cfg string, mutated bool) {
			var out bytes.Buffer
			var err error
			in := append([]byte(nil), d.data...)
			if crash := h.Safely(120*time.Second, func() { err = m.Minify(d.mt, &out, bytes.NewReader(in)) }); crash != "" {
				c.R.Add(h.Finding{Stage: st.Name, Kind: "crash", What: crash, Input: d.name, Hex: h.Hex(trunc(d.data, 4000)), Config: cfg})
				return
			}
			key := fmt.Sprintf("%s %s %s %s", d.mt, d.name, map[bool]string{true: "mutated:" + h.Q(trunc(d.data, 120)), false: ""}[mutated], cfg)
			if err != nil {
				st.Count(key, false)
				st.Tag("rejected")
				return
			}
			o := append([]byte(nil), out.Bytes()...)
			st.Count(key, !bytes.Equal(o, d.data))
			st.Tag(d.mt)
			report := func(what, detail string) {
				c.R.Add(h.Finding{Stage: st.Name, Kind: "fail", What: what, Input: fmt.Sprintf("%s (%d bytes) %s", d.name, len(d.data), h.Q(trunc(d.data, 300))), Hex: h.Hex(trunc(d.data, 200000)), Config: cfg, Impl: h.Q(trunc(o, 300)) + " " + detail})
			}
			var out2 bytes.Buffer
			var err2 error
			if crash := h.Safely(120*time.Second, func() { err2 = m.Minify(d.mt, &out2, bytes.NewReader(append([]byte(nil), o...))) }); crash != "" {
				report("second pass "+crash, "")
				return
			}
			if err2 != nil {
				if d.mt == "application/json" && !json.Valid(d.data) && strings.Contains(err2.Error(), "expected colon character after object key") {
					c.R.ExcludedKnown++ // K-C09-1: truncated JSON `{"k":` is accepted, its output `{"k"` is not
					return
				}
				report("output of a successful pass is rejected by the same minifier", err2.Error())
				return
			}
			switch d.mt {
			case "application/json":
				if json.Valid(d.data) && !json.Valid(o) {
					report("output is not valid JSON (encoding/json) although the input is", "")
				}
			case "text/xml", "image/svg+xml":
				if c09XMLValid(d.data) && c09XMLNoOddDirective(d.data) && c09XMLDeclOK(d.data) && !c09XMLValid(o) {
					report("output is not well-formed XML (encoding/xml) although the input is", "")
				}
			case "text/css":
				// only for unmutated style sheets: on byte-mutated garbage (stray quotes pairing up across rules) the crude
				// balance checker's verdict on the input means nothing
				if !mutated && c09CSSValid(d.data) && !c09CSSValid(o) {
					report("output has unbalanced blocks/strings/comments although the input is balanced", "")
				}
			case "text/html":
				// only for unmutated documents: a document truncated inside a tag has no well-defined tree to compare with
				if strings.HasPrefix(d.name, "seed-regression-") && !mutated {
					if vi, vo := c09VisibleText(d.data), c09VisibleText(o); !bytes.Equal(vi, vo) {
						report("the visible text of the output differs from the visible text of the input (white space ignored)", h.Q(vi)+" vs "+h.Q(vo))
					}
				}
				if a, b := c09HTMLCensus(d.data), c09HTMLCensus(o); !mutated && a != b {
					report("x/net/html sees a different set of raw-text elements in the output", a+" vs "+b)
				}
			case "application/javascript":
				if len(d.data) < 1500000 {
					if ok, _ := node.valid(d.data); ok {
						if ok2, e2 := node.valid(o); !ok2 {
							report("V8 rejects the output although it accepts the input", e2)
						}
					}
				}
			}
		}
		mDef, _ := c09Options(h.NewRNG(0)) // seed 0 with Chance(40)… force default below
		mDef = minify.New()
		mDef.AddFunc("text/css", mincss.Minify)
		mDef.AddFunc("text/html", minhtml.Minify)
		mDef.AddFunc("image/svg+xml", minsvg.Minify)
		mDef.AddFuncRegexp(regexp.MustCompile("^(application|text)/(x-)?(java|ecma|j|live)script(1\\.[0-5])?$|^module$"), minjs.Minify)
		mDef.AddFuncRegexp(regexp.MustCompile("[/+]json$"), minjson.Minify)
		mDef.AddFuncRegexp(regexp.MustCompile("[/+]xml$"), minxml.Minify)
		for _, d := range docs {
			run(d, mDef, "default", false)
		}
		// every document at its real size once more under a random non-default option set
		for _, d := range docs {
			r := c.Rng.Fork()
			m, cfg := c09Options(r)
			for cfg == "default" {
				m, cfg = c09Options(r)
			}
			run(d, m, cfg, false)
		}
		n := c.N(1200, 40000)
		var small []c09Doc
		for _, d := range docs {
			if len(d.data) <= 60000 {
				small = append(small, d)
			}
		}
		for k := 0; k < n; k++ {
			r := c.Rng.Fork()
			d := small[r.Intn(len(small))]
			m, cfg := c09Options(r)
			mutated := r.Chance(70)
			if mutated {
				d = c09Doc{d.mt, d.name, c10Mutate(r, d.data, pool)}
			}
			run(d, m, cfg, mutated)
		}
		for _, k := range h.Known("C09") {
			if k.Status != "open" || len(strings.Split(k.ID, "-")) > 3 || k.ReplayStr("mediatype") == "" {
				continue // K-C09-<slice>-n are replayed by their slice (c09_<slice>.go)
			}
			var o1, o2 bytes.Buffer
			e1 := mDef.Minify(k.ReplayStr("mediatype"), &o1, strings.NewReader(k.ReplayStr("input")))
			e2 := mDef.Minify(k.ReplayStr("mediatype"), &o2, bytes.NewReader(o1.Bytes()))
			still := e1 == nil && e2 != nil
			if k.ReplayStr("mediatype") == "text/css" {
				still = e1 == nil && c09CSSValid([]byte(k.ReplayStr("input"))) && !c09CSSValid(o1.Bytes())
			}
			if k.ReplayStr("mediatype") == "text/html" {
				// the reader finds a different sequence of embedded elements / payloads in the output
				a, _ := c09ReadEmbedded([]byte(k.ReplayStr("input")))
				b, _ := c09ReadEmbedded(o1.Bytes())
				still = e1 == nil && (!reflect.DeepEqual(a.kinds, b.kinds) || c09HTMLCensus([]byte(k.ReplayStr("input"))) != c09HTMLCensus(o1.Bytes()) || len(c09VisibleText([]byte(k.ReplayStr("input")))) != len(c09VisibleText(o1.Bytes())))
			}
			c.R.AddKnown(k.ID, still, k.What, fmt.Sprintf("first pass: %q err=%v; second pass: %q err=%v", o1.String(), e1, o2.String(), e2))
		}
		st.End()
		c09JsonStage(c)
		c09EmbedStage(c, c09Docs(c.Repo, c.N(260000, 4000000)), node, mDef)
		return nil
	})
}

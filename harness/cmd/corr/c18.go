package main

// C18 — minify.DataURI and minify.Mediatype.
//
// Stages
//   contracts : the dependency functions the model takes by contract (base64.StdEncoding, parse.EncodeURL,
//               parse.DecodeURL, parse.DataURI) against their Lean models, and the Lean specification decoders
//               (RFC 3986 percent-decoding, RFC 4648 base64) against independent hand-written Go readers.
//   bytes     : exhaustive over every payload byte value 0..255 x shapes x encodings x media types x registries.
//   lookalike : deterministic sweep of percent-encoded URIs whose payload contains data-URI syntax (nested data URIs).
//   datauri   : generated data URIs (media types with parameters/case/whitespace, both encodings, partial and
//               invalid escapes, corrupt base64, malformed forms, token soup) + /repo/tests/data-uri/corpus.
//   mediatype : generated media type strings with quoted parameters + /repo/tests/mediatype/corpus.
//   known     : replay of the open known findings (the fixed ones K-C18-4/5/6 are regression inputs of the stages above).
// Every DataURI case runs the real minify.DataURI with eight registries: none; a catch-all pattern with an identity /
// shrinking / failing / nested stub (the last hands nested data: URIs back to minify.DataURI as sub-slices); a literal
// `text/plain` registration; the pattern `^text/`; both.  Which stub is asked, with what, and what it answers is computed
// from the C15 dispatch rule and the model's reading of the input — not taken from what the implementation did — and handed
// to the model as data; the implementation's recorded call must agree (else kind "fail": a registered minifier not asked).  The argument is copied before the call (the implementation gets a private buffer, sometimes with spare
// capacity) and the result is retained at return, so a result that aliases a clobbered argument is seen as what it is.  Checked per case: (a) model = implementation
// (kind "diff"); (b) the property itself on the implementation's output, by the Lean specification
// (`spec.c18.holds`) and by an independent Go reading (kind "fail"): the output is the input or reads per
// RFC 2397 as an equivalent media type and the (sub-)minified payload, and it is not longer than a validly
// encoded input.

import (
	"bytes"
	"encoding/base64"
	"errors"
	"fmt"
	"io"
	"os"
	"path/filepath"
	"regexp"
	"sort"
	"strings"
	"time"
	"unsafe"

	"github.com/tdewolff/minify/v2"
	"github.com/tdewolff/parse/v2"

	"verifharness/h"
)

// ---------- independent Go reading of RFC 2397 (no net/url; base64 through encoding/base64 with the
// alphabet check done by hand) ----------

func c18IsWs(c byte) bool { return c == ' ' || c == '\t' || c == '\n' || c == '\f' || c == '\r' }

func c18Hex(c byte) int {
	switch {
	case c >= '0' && c <= '9':
		return int(c - '0')
	case c >= 'a' && c <= 'f':
		return int(c-'a') + 10
	case c >= 'A' && c <= 'F':
		return int(c-'A') + 10
	}
	return -1
}

func c18PctDecode(p []byte) []byte {
	out := make([]byte, 0, len(p))
	for i := 0; i < len(p); i++ {
		if p[i] == '%' && i+2 < len(p) && c18Hex(p[i+1]) >= 0 && c18Hex(p[i+2]) >= 0 {
			out = append(out, byte(c18Hex(p[i+1])<<4|c18Hex(p[i+2])))
			i += 2
		} else {
			out = append(out, p[i])
		}
	}
	return out
}

const c18Alphabet = "ABCDEFGHIJKLMNOPQRSTUVWXYZabcdefghijklmnopqrstuvwxyz0123456789+/"

// strict RFC 4648: only alphabet characters and trailing padding, length a multiple of 4
func c18B64Strict(p []byte) ([]byte, bool) {
	if len(p)%4 != 0 {
		return nil, false
	}
	n := len(p)
	pad := 0
	for pad < 2 && n > 0 && p[n-1] == '=' {
		n--
		pad++
	}
	for _, c := range p[:n] {
		if strings.IndexByte(c18Alphabet, c) < 0 {
			return nil, false
		}
	}
	d, err := base64.StdEncoding.DecodeString(string(p))
	if err != nil {
		return nil, false
	}
	return d, true
}

type c18Read struct {
	ok   bool
	mt   string // raw media type text
	b64  bool
	data []byte
	head string
	raw  []byte
}

func c18GoRead(u []byte) c18Read {
	if !bytes.HasPrefix(u, []byte("data:")) {
		return c18Read{}
	}
	rest := u[5:]
	k := bytes.IndexByte(rest, ',')
	if k < 0 {
		return c18Read{}
	}
	head, p := string(rest[:k]), rest[k+1:]
	r := c18Read{head: head, raw: p, mt: head}
	if s := strings.LastIndexByte(head, ';'); s >= 0 && strings.TrimFunc(head[s+1:], func(r rune) bool { return r < 256 && c18IsWs(byte(r)) }) == "base64" {
		r.mt, r.b64 = head[:s], true
		d, ok := c18B64Strict(p)
		if !ok {
			return c18Read{}
		}
		r.ok, r.data = true, d
		return r
	}
	r.ok, r.data = true, c18PctDecode(p)
	return r
}

// normal form: whitespace deleted, lower case, omitted type = text/plain, defaults dropped
func c18Norm(mt string) string {
	var b []byte
	for i := 0; i < len(mt); i++ {
		c := mt[i]
		if c18IsWs(c) {
			continue
		}
		if c >= 'A' && c <= 'Z' {
			c += 32
		}
		b = append(b, c)
	}
	segs := strings.Split(string(b), ";")
	ty := segs[0]
	if ty == "text/plain" {
		ty = ""
	}
	out := ty
	for _, p := range segs[1:] {
		if p != "charset=us-ascii" {
			out += ";" + p
		}
	}
	return out
}

// "validly encoded": base64 payload that decodes strictly, or a percent-encoded payload in which every byte
// the encoding table wants escaped is escaped (and `%` only starts escapes)
func c18ValidlyEncoded(r c18Read) bool {
	if !r.ok {
		return false
	}
	if r.b64 {
		return true
	}
	p := r.raw
	for i := 0; i < len(p); i++ {
		if p[i] == '%' {
			if i+2 < len(p) && c18Hex(p[i+1]) >= 0 && c18Hex(p[i+2]) >= 0 {
				i += 2
				continue
			}
			return false
		}
		if parse.DataURIEncodingTable[p[i]] {
			return false
		}
	}
	return true
}

// ---------- registries ----------

var c18Regs = []string{"none", "identity", "shrink", "fail", "nested", "lit", "pat", "lit+pat"}

var c18TextPat = regexp.MustCompile(`^text/`)

// c18Selected is the C15 dispatch rule for the registries used here: does `m.Bytes(mediatype, …)` reach the recording stub?
// none: nothing registered; identity/shrink/fail/nested: a catch-all pattern; lit: a literal registration for `text/plain`;
// pat: the pattern `^text/`; lit+pat: both (the literal one is preferred, both are the same recording stub).
func c18Selected(reg string, mediatype []byte) bool {
	mimetype, _ := parse.Mediatype(append([]byte{}, mediatype...))
	switch reg {
	case "none":
		return false
	case "lit":
		return string(mimetype) == "text/plain"
	case "pat":
		return c18TextPat.Match(mimetype)
	case "lit+pat":
		return string(mimetype) == "text/plain" || c18TextPat.Match(mimetype)
	}
	return true
}

// c18StubAnswer is what the stub of registry `reg` answers for payload d (ok=false: it fails, the payload stays as it is)
func c18StubAnswer(reg string, d []byte) ([]byte, bool) {
	switch reg {
	case "identity":
		return append([]byte{}, d...), true
	case "shrink", "lit", "pat", "lit+pat":
		return bytes.ReplaceAll(d, []byte(" "), nil), true
	case "nested":
		rec := &c18Call{depth: 1}
		return c18NestedRewrite(c18Registry("nested", rec), append([]byte{}, d...), rec), true
	}
	return nil, false
}

type c18Call struct {
	called int
	in     []byte
	out    []byte
	ok     bool
	depth  int
	inner  int // nested DataURI calls made by the "nested" stub
}

// c18NestedRewrite is what an embedding minifier (svg/html/css) does with its payload: every nested `data:` URI — up to
// the next quote, parenthesis, whitespace or the end — is handed to minify.DataURI *as a sub-slice of the payload*.
func c18NestedRewrite(m *minify.M, b []byte, rec *c18Call) []byte {
	var out []byte
	for i := 0; i < len(b); {
		k := bytes.Index(b[i:], []byte("data:"))
		if k < 0 {
			out = append(out, b[i:]...)
			break
		}
		out = append(out, b[i:i+k]...)
		j := i + k
		e := j
		for e < len(b) && b[e] != '"' && b[e] != '\'' && b[e] != ')' && b[e] != ' ' && b[e] != '\n' {
			e++
		}
		rec.inner++
		out = append(out, minify.DataURI(m, b[j:e:e])...)
		i = e
	}
	return out
}

func c18Registry(kind string, rec *c18Call) *minify.M {
	m := minify.New()
	if kind == "none" {
		return m
	}
	stub := func(_ *minify.M, w io.Writer, r io.Reader, _ map[string]string) error {
		b, _ := io.ReadAll(r)
		if rec.depth > 0 { // a nested data URI's own payload: left alone
			w.Write(b)
			return nil
		}
		rec.called++
		rec.in = append([]byte{}, b...)
		switch kind {
		case "nested":
			rec.depth++
			o := c18NestedRewrite(m, b, rec)
			rec.depth--
			w.Write(o)
			rec.out, rec.ok = append([]byte{}, o...), true
		case "identity":
			w.Write(b)
			rec.out, rec.ok = append([]byte{}, b...), true
		case "shrink", "lit", "pat", "lit+pat":
			o := bytes.ReplaceAll(b, []byte(" "), nil)
			w.Write(o)
			rec.out, rec.ok = o, true
		case "fail":
			w.Write([]byte("partial"))
			return errors.New("stub failure")
		}
		return nil
	}
	switch kind {
	case "lit":
		m.AddFunc("text/plain", stub)
	case "pat":
		m.AddFuncRegexp(c18TextPat, stub)
	case "lit+pat":
		m.AddFuncRegexp(c18TextPat, stub)
		m.AddFunc("text/plain", stub)
	default:
		m.AddFuncRegexp(regexp.MustCompile(`(?s)^.*$`), stub)
	}
	return m
}

type c18Case struct {
	u       []byte // the argument as it was before the call (never handed to the implementation)
	reg     string
	out     []byte
	call    c18Call
	crash   string
	aliased bool // the returned slice shares memory with the argument
	argMod  bool // the argument's bytes were modified by the call (allowed: DataURI documents no such promise)
}

// c18RunOne calls the real minify.DataURI on a private copy of u (with `spare` bytes of extra capacity, as a slice cut out
// of a larger buffer has) and retains the result bytes as they are at return.
func c18RunOne(u []byte, reg string, spare int) c18Case {
	cs := c18Case{u: u, reg: reg}
	buf := make([]byte, len(u), len(u)+spare)
	copy(buf, u)
	for k := len(u); k < cap(buf); k++ {
		buf[:cap(buf)][k] = 0xAA
	}
	cs.crash = h.Safely(10*time.Second, func() {
		m := c18Registry(reg, &cs.call)
		res := minify.DataURI(m, buf)
		cs.out = append([]byte{}, res...)
		if len(res) > 0 && cap(buf) > 0 {
			lo, hi := &buf[:cap(buf)][0], &buf[:cap(buf)][cap(buf)-1]
			p := &res[0]
			cs.aliased = uintptr(unsafe.Pointer(p)) >= uintptr(unsafe.Pointer(lo)) && uintptr(unsafe.Pointer(p)) <= uintptr(unsafe.Pointer(hi))
		}
		cs.argMod = !bytes.Equal(buf[:len(u)], u)
	})
	return cs
}

// ---------- generators ----------

var c18Types = []string{"", "", "text/plain", "TEXT/PLAIN", "Text/Plain", "text/html", "image/svg+xml", "text/css", "x/y", " text/css ",
	"text/ plain", "application/octet-stream", "te xt/html", "a", "image/png"}
var c18RareTypes = []string{"text/plainx", "text/plain x", "TEXT/PLAIN+x", "text/plain=1", "base64"}
var c18Params = []string{";charset=us-ascii", ";CHARSET=US-ASCII", ";charset=utf-8", ";charset = us-ascii", "; charset=us-ascii ", ";a=b", ";base64x",
	"; version = 2.0", ";charset=us-asciiz", ";xcharset=us-ascii", ";", ";a", ";a=", ";charset=US-ASCII;charset=us-ascii", ";k=\"v w\"", ";a=b=c", ";charset=us-ascii;a=b"}
var c18RareParams = []string{";a=base64", ";base64;x=1", "=base64", ";base64=1", ";b=text/plain"}
var c18Markers = []string{";base64", ";base64", ";base64", "; base64", ";base64 ", ";\tbase64"}

func c18Payload(r *h.RNG) []byte {
	n := []int{0, 1, 2, 3, 4, 5, 6, 7, 8, 9, 10, 12, 16, 24, 40, 80}[r.Intn(16)]
	var al []byte
	switch r.Intn(7) {
	case 0: // every byte value
		al = nil
	case 1:
		al = []byte("abcxyz019-_.~")
	case 2:
		al = []byte("#%&<>\" {}|")
	case 3:
		al = []byte("ab #<>")
	case 4:
		al = []byte("a+b %2B+")
	case 5:
		al = []byte("abc\x00\x7f\x80\xff\n\r\t")
	case 6:
		al = []byte("AZaz09+/=,;:")
	}
	b := make([]byte, n)
	for i := range b {
		if al == nil {
			b[i] = byte(r.Intn(256))
		} else {
			b[i] = al[r.Intn(len(al))]
		}
	}
	return b
}

func c18PctEncode(r *h.RNG, d []byte, mode int) []byte {
	// mode 0: exactly the table, upper hex; 1: table, random hex case; 2: random subset escaped (may leave bytes raw);
	// 3: everything escaped; 4: raw
	var out []byte
	hexU, hexL := "0123456789ABCDEF", "0123456789abcdef"
	for _, c := range d {
		esc := false
		switch mode {
		case 0, 1:
			esc = parse.DataURIEncodingTable[c] || c == '+'
		case 2:
			esc = r.Bool()
		case 3:
			esc = true
		}
		if esc {
			hx := hexU
			if mode != 0 && r.Bool() {
				hx = hexL
			}
			out = append(out, '%', hx[c>>4], hx[c&15])
		} else {
			out = append(out, c)
		}
	}
	return out
}

// payload pieces that look like data URI syntax: a percent-encoded URI may contain them as ordinary data
var c18Lookalike = []string{";base64", ";base64,", "data:", ",", "%25", ";charset=", ";charset=us-ascii", "data:image/png;base64,iVBORw0KGgo=",
	"url(data:text/css;base64,QQ==)", "<image href=\"data:image/png;base64,iVBORw0KGgo=\"/>", "<svg xmlns=\"http://www.w3.org/2000/svg\">", "</svg>",
	"data:,a%20b", "text/plain", "=", ";", "<", "\"", " ", "#", "a", "%3C", "%3c", "%22", "%20", "%23"}

// c18GenLookalike: a percent-encoded (never base64-marked) URI whose payload is made of data-URI-like text; `raw` decides how
// many of the bytes the table wants escaped are left raw, which steers the outcome between "original wins" (many raw),
// "percent form" and "base64 form" (many escapes needed)
func c18GenLookalike(r *h.RNG) []byte {
	var sb bytes.Buffer
	sb.WriteString("data:")
	sb.WriteString(r.Pick([]string{"", "", "image/svg+xml", "text/html", "text/css;charset=utf-8", "image/svg+xml;charset=us-ascii", "text/plain"}))
	sb.WriteByte(',')
	n := 1 + r.Intn(7)
	raw := r.Intn(101) // percent of escapable bytes left raw
	for i := 0; i < n; i++ {
		t := r.Pick(c18Lookalike)
		if t[0] == '%' && len(t) == 3 { // already an escape
			sb.WriteString(t)
			continue
		}
		for k := 0; k < len(t); k++ {
			c := t[k]
			if (parse.DataURIEncodingTable[c] || c == '+') && r.Intn(100) >= raw {
				fmt.Fprintf(&sb, "%%%02X", c)
			} else {
				sb.WriteByte(c)
			}
		}
	}
	if r.Chance(30) {
		sb.WriteString(strings.Repeat(r.Pick([]string{"#", "\x00", "\xff", "<"}), 4+r.Intn(40))) // pushes towards base64
	}
	return sb.Bytes()
}

// c18LookalikeSweep: deterministic sweep of the three outcomes (original / percent / base64 wins) for percent-encoded URIs
// whose payload contains data-URI-like text: template x k raw escapable bytes x one escape x its position x media type
func c18LookalikeSweep() [][]byte {
	var out [][]byte
	tmpl := []string{";base64", "a;base64b", "data:image/png;base64,QUJD", "<svg><image href=\"data:image/png;base64,iVBORw0KGgo=\"/></svg>",
		"x,y;charset=utf-8", "data:,", "url(data:;base64,QQ==)", "data:text/html,%253Cp%253E", ";charset=us-ascii,", "base64"}
	escs := []string{"", "%23", "%3c", "%25", "%41", "%3B"}
	for ti, t := range tmpl {
		for k := 0; k <= 12; k++ {
			pad := strings.Repeat([]string{"<", "\"", " "}[k%3], k)
			for ei, e := range escs {
				mt := []string{"", "text/html", "image/svg+xml;charset=utf-8"}[(ti+k+ei)%3]
				out = append(out, []byte("data:"+mt+","+pad+e+t), []byte("data:"+mt+","+t+e+pad), []byte("data:"+mt+","+e+t+pad+e))
			}
		}
		// escapes everywhere: the percent / base64 forms win
		out = append(out, []byte("data:,"+pctAll([]byte(t))), []byte("data:,"+strings.Repeat("%23", 9)+t), []byte("data:text/html,"+strings.Repeat("%00%ff", 12)+t))
	}
	return out
}

func c18GenURI(r *h.RNG) []byte {
	switch {
	case r.Chance(12):
		return c18GenLookalike(r)
	case r.Chance(6): // token soup: exercises the scanner of parse.DataURI
		toks := []string{"data:", ";", ",", "=", "base64", " ", "text/plain", "charset=us-ascii", "%", "+", "a", "QUJD", "\n", "%41", "\"", "x/y"}
		n := r.Intn(9)
		s := ""
		if r.Chance(80) {
			s = "data:"
		}
		for i := 0; i < n; i++ {
			s += r.Pick(toks)
		}
		return []byte(s)
	case r.Chance(5): // malformed
		return []byte(r.Pick([]string{"", "data", "data:", "datx:x", "DATA:,x", "data:text/html", "data:;base64", "data:;base64,Q", "data:;base64,QQ=", "data:;base64,QQ",
			"data:;base64,====", "data:;base64,QQ==QQ==", "data:;base64,Q=Q=", "data:;base64,QUJD=", "data:,%", "data:,%4", "data:,%zz", "data:,%4g%G1", "data:,", "data:;base64,",
			"data:;base64,QU JD", "data:;base64,QU\nJD", "data:;base64,QUI=\r\n", "data:;base64,QQ=\n=", "data:;base64,QR==", "data:;base64,QUJ=", "data:,%%41", "data:,%4%41", " data:,x", "data:x"}))
	}
	var sb bytes.Buffer
	sb.WriteString("data:")
	if r.Chance(3) {
		sb.WriteString(r.Pick(c18RareTypes))
	} else {
		sb.WriteString(r.Pick(c18Types))
	}
	np := []int{0, 0, 0, 1, 1, 2, 3}[r.Intn(7)]
	for i := 0; i < np; i++ {
		if r.Chance(4) {
			sb.WriteString(r.Pick(c18RareParams))
		} else {
			sb.WriteString(r.Pick(c18Params))
		}
	}
	if r.Chance(3) { // a very long header (the helpers have no size rule for it, the model must agree)
		sb.WriteString(";k=" + strings.Repeat("v", 1000+r.Intn(100)))
	}
	d := c18Payload(r)
	if r.Chance(45) {
		sb.WriteString(r.Pick(c18Markers))
		if r.Chance(2) {
			sb.WriteString(";x")
		}
		sb.WriteByte(',')
		e := []byte(base64.StdEncoding.EncodeToString(d))
		if r.Chance(12) && len(e) > 0 { // corrupt
			switch r.Intn(5) {
			case 0:
				e[r.Intn(len(e))] = "!*-_ \n="[r.Intn(7)]
			case 1:
				e = e[:len(e)-1]
			case 2:
				e = append(e, '=')
			case 3:
				k := r.Intn(len(e))
				e = append(e[:k:k], append([]byte("\r\n"), e[k:]...)...)
			case 4:
				e = append(e, "QQ=="...)
			}
		}
		sb.Write(e)
	} else {
		sb.WriteByte(',')
		sb.Write(c18PctEncode(r, d, []int{0, 0, 1, 1, 2, 2, 3, 4, 4}[r.Intn(9)]))
	}
	return sb.Bytes()
}

func c18GenMediatype(r *h.RNG) []byte {
	if r.Chance(8) {
		al := "aB \t\"\\;=Z/"
		n := r.Intn(14)
		b := make([]byte, n)
		for i := range b {
			b[i] = al[r.Intn(len(al))]
		}
		return b
	}
	sp := func() string { return []string{"", "", " ", "  ", "\t", "\n ", "\r\n"}[r.Intn(7)] }
	var sb strings.Builder
	sb.WriteString(sp())
	sb.WriteString(r.Pick([]string{"text/html", "TEXT/HTML", "Video/MP4", "application/X-Thing", "text/html, text/css", "a", ""}))
	np := []int{0, 1, 1, 2, 2, 3, 4}[r.Intn(7)]
	for i := 0; i < np; i++ {
		sb.WriteString(sp() + ";" + sp())
		sb.WriteString(r.Pick([]string{"charset", "CharSet", "codecs", "Param", "Q"}))
		sb.WriteString(sp() + "=" + sp())
		switch r.Intn(6) {
		case 0:
			sb.WriteString(r.Pick([]string{"UTF-8", "utf-8", "1", "AbC"}))
		case 1, 2, 3:
			sb.WriteString("\"" + r.Pick([]string{"av01.0.05M.08", " ; ", "A B", "", "MiXed  Case", "x\ty", "ZZ", "a;b=C"}) + "\"")
		case 4:
			if r.Chance(30) {
				sb.WriteString("\"a\\\"B C\"") // quoted-pair
			} else {
				sb.WriteString("\"AB\"\"CD\"") // two adjacent strings
			}
		case 5:
			if r.Chance(25) {
				sb.WriteString("\"unterminated X") // no closing quote
			} else {
				sb.WriteString("Tok")
			}
		}
	}
	if r.Chance(6) { // the 1024-byte rule: a long unquoted run before / between strings
		sb.WriteString(";" + sp() + "K=" + strings.Repeat(r.Pick([]string{"Ab", "X ", "y"}), 500+r.Intn(40)) + r.Pick([]string{"", ";z=\"Q R\"", ";z=\"Q\";W=\"R S\""}))
	}
	sb.WriteString(sp())
	return []byte(sb.String())
}

// ---------- evaluation ----------

// c18Expect: what is expected of the call to the sub-minifier, independent of what the implementation did
type c18Expect struct {
	parsed   bool
	mt, data []byte // media type and decoded payload as parse.DataURI returns them (model)
	selected bool   // the registry's stub is selected for mt (C15 rule)
	answered bool   // … and answers (does not fail)
	answer   []byte
}

type c18Spec struct {
	ok      bool
	mt      string
	norm    string
	data    []byte
	trig    string // 3 chars 0/1: plus, paramNoType, b64Item
	valid   bool
}

var c18TrigIDs = []string{"K-C18-1", "K-C18-2", "K-C18-3"}

// clauses of the property a known finding is allowed to break
var c18TrigClauses = map[string]string{"K-C18-1": "payload,length", "K-C18-2": "mediatype", "K-C18-3": "mediatype,payload,unreadable,length,shortest"}

// c18Diff records a model/implementation disagreement, at most 6 per stage and kind: the report keeps 40 findings and the
// failing inputs (kind "fail") must not be crowded out by the disagreements that usually accompany them
var c18DiffCount = map[string]int{}

func c18Diff(c *Ctx, f h.Finding) {
	k := f.Stage + "|" + strings.SplitN(f.What, ":", 2)[0]
	c18DiffCount[k]++
	if c18DiffCount[k] <= 6 {
		c.R.Add(f)
	} else if c18DiffCount[k] == 7 {
		c.R.Note("further disagreements of kind %q in stage %s are counted, not listed", strings.SplitN(f.What, ":", 2)[0], f.Stage)
	}
}

func c18EvalURIs(c *Ctx, st *h.Stage, uris [][]byte) error {
	// 1. run the implementation
	var cases []c18Case
	for ui, u := range uris {
		for ri, reg := range c18Regs {
			cases = append(cases, c18RunOne(u, reg, []int{0, 0, 7, 64}[(ui+ri)%4]))
		}
	}
	// 2. how the dependency reads the input (model) and how RFC 2397 reads it (spec)
	var lines []string
	for _, cs := range cases {
		lines = append(lines, "model.c18.parse "+h.Hex(cs.u))
		lines = append(lines, "spec.c18.rfc "+h.Hex(cs.u))
	}
	rep0, err := h.Eval(lines)
	if err != nil {
		return err
	}
	// 3. the sub-minifier's answer is NOT taken from what the implementation did: by the C15 dispatch rule the stub of
	//    the registry is selected (or not) for the media type parse.DataURI returns, and answers for the decoded payload
	specs := make([]c18Spec, len(cases))
	exp := make([]c18Expect, len(cases))
	var hl []string
	for i, cs := range cases {
		b, ok, msg := h.DecodeReply(rep0[2*i+1])
		f := h.DecodeListReply(b)
		if !ok || len(f) != 6 {
			return fmt.Errorf("spec.c18.rfc: bad reply %q %s", rep0[2*i+1], msg)
		}
		specs[i] = c18Spec{ok: string(f[0]) == "1", mt: string(f[1]), norm: string(f[2]), data: f[3], trig: string(f[4]), valid: string(f[5]) == "1"}
		pb, ok, msg := h.DecodeReply(rep0[2*i])
		pf := h.DecodeListReply(pb)
		if !ok || len(pf) != 3 {
			return fmt.Errorf("model.c18.parse: bad reply %q %s", rep0[2*i], msg)
		}
		e := c18Expect{parsed: string(pf[0]) == "1", mt: pf[1], data: pf[2]}
		if e.parsed {
			e.selected = c18Selected(cs.reg, e.mt)
			if e.selected {
				e.answer, e.answered = c18StubAnswer(cs.reg, e.data)
			}
		}
		exp[i] = e
		has, so := int64(0), []byte{}
		if e.answered {
			has, so = 1, e.answer
		}
		hl = append(hl, "model.c18.datauri "+h.Hex(cs.u)+" "+h.Int(has)+" "+h.Hex(so))
		// what the result must decode to: the stub's answer for the RFC payload of the argument (else that payload itself)
		d := specs[i].data
		if e.selected {
			if a, ok := c18StubAnswer(cs.reg, d); ok {
				d = a
			}
		}
		hl = append(hl, "spec.c18.holds "+h.Hex(cs.u)+" "+h.Hex(cs.out)+" "+h.Hex(d))
	}
	hrep, err := h.Eval(hl)
	if err != nil {
		return err
	}
	for i, cs := range cases {
		sp := specs[i]
		key := fmt.Sprintf("DataURI(%s, %s)", cs.reg, h.Q(cs.u))
		gr := c18GoRead(cs.u)
		changed := !bytes.Equal(cs.out, cs.u)
		st.Count(key, changed || cs.call.called > 0)
		if cs.crash != "" {
			c.R.Add(h.Finding{Stage: st.Name, Kind: "crash", What: cs.crash, Input: h.Q(cs.u), Hex: h.Hex(cs.u), Config: cs.reg})
			continue
		}
		// branch tags
		switch {
		case !changed && !gr.ok:
			st.Tag("branch=unparsed-or-same")
		case !changed:
			st.Tag("branch=unchanged")
		case bytes.Contains(cs.out[:bytes.IndexByte(cs.out, ',')+1], []byte(";base64,")):
			st.Tag("branch=base64-out")
		default:
			st.Tag("branch=percent-out")
		}
		if gr.ok && !gr.b64 && (bytes.Contains(gr.raw, []byte(";base64")) || bytes.Contains(gr.raw, []byte("data:"))) {
			esc := "noescape"
			if bytes.IndexByte(gr.raw, '%') >= 0 {
				esc = "escapes"
			}
			switch {
			case !changed:
				st.Tag("lookalike-payload/" + esc + "=original-returned")
			case bytes.Contains(cs.out[:bytes.IndexByte(cs.out, ',')+1], []byte(";base64,")):
				st.Tag("lookalike-payload/" + esc + "=base64-out")
			default:
				st.Tag("lookalike-payload/" + esc + "=percent-out")
			}
		}
		if cs.aliased {
			st.Tag("result-aliases-argument")
		}
		if cs.argMod {
			st.Tag("argument-modified")
		}
		if cs.call.inner > 0 {
			st.Tag("nested-datauri-calls")
		}
		// (a) model = implementation
		mb, ok, msg := h.DecodeReply(hrep[2*i])
		mf := h.DecodeListReply(mb)
		if !ok || len(mf) != 4 {
			c18Diff(c, h.Finding{Stage: st.Name, Kind: "diff", What: "model.c18.datauri: model error " + msg, Input: h.Q(cs.u), Hex: h.Hex(cs.u), Config: cs.reg})
		} else {
			if !bytes.Equal(mf[0], cs.out) {
				c18Diff(c, h.Finding{Stage: st.Name, Kind: "diff", What: "model.c18.datauri", Input: h.Q(cs.u), Hex: h.Hex(cs.u), Config: cs.reg, Impl: h.Q(cs.out), Model: h.Q(mf[0])})
			}
		}
		// the sub-minifier: selected by the C15 rule for the media type parse.DataURI returns ⇒ called exactly once with the
		// decoded payload; not selected ⇒ not called.  A minifier that is registered for the type but never asked leaves the
		// payload un-minified: the property itself fails (kind "fail"), whatever the output looks like.
		e := exp[i]
		wantCalls := 0
		if e.selected {
			wantCalls = 1
		}
		if cs.call.called != wantCalls || (wantCalls == 1 && !bytes.Equal(cs.call.in, e.data)) {
			mimetype, _ := parse.Mediatype(append([]byte{}, e.mt...))
			c.R.Add(h.Finding{Stage: st.Name, Kind: "fail", What: "DataURI: the minifier registered for the media type is not called exactly once with the decoded payload", Input: h.Q(cs.u), Hex: h.Hex(cs.u), Config: "registry=" + cs.reg,
				Impl:  fmt.Sprintf("called %d time(s) with %s; output %s", cs.call.called, h.Q(cs.call.in), h.Q(cs.out)),
				Model: fmt.Sprintf("media type %q (mimetype %q): expected %d call(s) with %s", e.mt, mimetype, wantCalls, h.Q(e.data))})
			st.Tag("dispatch=wrong")
			continue
		}
		if e.selected {
			st.Tag("dispatch=called/" + cs.reg)
		} else if e.parsed && cs.reg != "none" {
			st.Tag("dispatch=not-selected/" + cs.reg)
		}
		// validation of the Lean specification reader against the independent Go reader
		if sp.ok != gr.ok || (sp.ok && (sp.mt != gr.mt || !bytes.Equal(sp.data, gr.data) || sp.norm != c18Norm(gr.mt) || sp.valid != c18ValidlyEncoded(gr))) {
			c18Diff(c, h.Finding{Stage: st.Name, Kind: "diff", What: "Lean rfcParse/mtNorm differs from the independent Go reading of RFC 2397", Input: h.Q(cs.u), Hex: h.Hex(cs.u),
				Impl: fmt.Sprintf("go ok=%v mt=%q norm=%q data=%s", gr.ok, gr.mt, c18Norm(gr.mt), h.Q(gr.data)), Model: fmt.Sprintf("lean ok=%v mt=%q norm=%q data=%s", sp.ok, sp.mt, sp.norm, h.Q(sp.data))})
		}
		// (b) the property on the implementation's output
		if !gr.ok {
			st.Tag("input=not-rfc2397")
			if !sp.ok && string(hrepGet(hrep[2*i+1])) != "1" {
				return fmt.Errorf("spec.c18.holds must be vacuous on %q", cs.u)
			}
			continue
		}
		want := gr.data
		if e.selected {
			if a, ok := c18StubAnswer(cs.reg, gr.data); ok {
				want = a
			}
		}
		clause := ""
		if changed {
			or := c18GoRead(cs.out)
			switch {
			case !or.ok:
				clause = "unreadable"
			case !bytes.Equal(or.data, want):
				clause = "payload"
			case c18Norm(or.mt) != c18Norm(gr.mt):
				clause = "mediatype"
			}
			// the length clause presupposes a sub-minifier that does not make the payload more expensive to encode
			// (`NonExpanding` of dataURI_length_partial: not longer, and not longer in percent-encoded form)
			if clause == "" && len(cs.out) > len(cs.u) && c18ValidlyEncoded(gr) &&
				(!e.answered || (len(e.answer) <= len(e.data) && c18PctLen(e.answer) <= c18PctLen(e.data))) {
				clause = "length"
			}
		}
		// "using whichever of base64 and percent-encoding is valid and shorter": the output (also when it is the input
		// itself) is not longer than either re-encoding of the expected payload under the output's own media type text
		if or := c18GoRead(cs.out); clause == "" && or.ok && bytes.Equal(or.data, want) {
			b64 := len("data:") + len(or.mt) + len(";base64,") + base64.StdEncoding.EncodedLen(len(want))
			pct := len("data:") + len(or.mt) + len(",") + c18PctLen(want)
			if len(cs.out) > b64 || len(cs.out) > pct {
				clause = "shortest"
			}
		}
		leanHolds := string(hrepGet(hrep[2*i+1])) == "1"
		if leanHolds != (clause == "" || clause == "length" || clause == "shortest") {
			c18Diff(c, h.Finding{Stage: st.Name, Kind: "diff", What: "Lean holdsDataURI differs from the independent Go evaluation (clause " + clause + ")", Input: h.Q(cs.u), Hex: h.Hex(cs.u), Config: cs.reg, Impl: h.Q(cs.out)})
		}
		if clause == "" {
			continue
		}
		// known findings: narrow triggers, and only the clauses they are known to break
		knownID := ""
		for k, id := range c18TrigIDs {
			if k < len(sp.trig) && sp.trig[k] == '1' && strings.Contains(c18TrigClauses[id], clause) {
				knownID = id
				break
			}
		}
		what := map[string]string{
			"unreadable": "output is not a data URL per RFC 2397",
			"payload":    "output decodes to a different payload",
			"mediatype":  "output has a different media type (beyond case, whitespace, default text/plain and charset=us-ascii)",
			"length":     "output is longer than a validly encoded input",
			"shortest":   "output is longer than the other encoding (base64 / percent) of the same payload",
		}[clause]
		if knownID != "" {
			c.R.ExcludedKnown++
			st.Tag("known=" + knownID)
			continue
		}
		c.R.Add(h.Finding{Stage: st.Name, Kind: "fail", What: "DataURI: " + what, Input: h.Q(cs.u), Hex: h.Hex(cs.u), Config: "registry=" + cs.reg,
			Impl: h.Q(cs.out), Model: fmt.Sprintf("input reads as mediatype %q payload %s; expected payload %s", gr.mt, h.Q(gr.data), h.Q(want))})
	}
	return nil
}

func c18PctLen(d []byte) int {
	n := len(d)
	for _, c := range d {
		if parse.DataURIEncodingTable[c] {
			n += 2
		}
	}
	return n
}

func hrepGet(s string) []byte {
	b, _, _ := h.DecodeReply(s)
	return b
}

func c18EvalMediatypes(c *Ctx, st *h.Stage, inputs [][]byte) error {
	outs := make([][]byte, len(inputs))
	crashes := make([]string, len(inputs))
	var lines []string
	for i, b := range inputs {
		in := append([]byte{}, b...)
		crashes[i] = h.Safely(10*time.Second, func() { outs[i] = append([]byte{}, minify.Mediatype(in)...) })
		lines = append(lines, "model.c18.mediatype "+h.Hex(b))
		lines = append(lines, "spec.c18.mediatype "+h.Hex(b)+" "+h.Hex(outs[i]))
	}
	rep, err := h.Eval(lines)
	if err != nil {
		return err
	}
	for i, b := range inputs {
		key := fmt.Sprintf("Mediatype(%s)", h.Q(b))
		st.Count(key, !bytes.Equal(outs[i], b))
		if crashes[i] != "" {
			c.R.Add(h.Finding{Stage: st.Name, Kind: "crash", What: crashes[i], Input: h.Q(b), Hex: h.Hex(b)})
			continue
		}
		mb, ok, msg := h.DecodeReply(rep[2*i])
		if !ok {
			c18Diff(c, h.Finding{Stage: st.Name, Kind: "diff", What: "model.c18.mediatype: model error " + msg, Input: h.Q(b), Hex: h.Hex(b)})
		} else if !bytes.Equal(mb, outs[i]) {
			c18Diff(c, h.Finding{Stage: st.Name, Kind: "diff", What: "model.c18.mediatype", Input: h.Q(b), Hex: h.Hex(b), Impl: h.Q(outs[i]), Model: h.Q(mb)})
		}
		sb, ok, msg := h.DecodeReply(rep[2*i+1])
		f := h.DecodeListReply(sb)
		if !ok || len(f) != 3 {
			return fmt.Errorf("spec.c18.mediatype: bad reply %s", msg)
		}
		exact, allowed, closed := f[0], string(f[1]) == "1", string(f[2]) == "1"
		if bytes.Contains(b, []byte("\"")) {
			st.Tag("quoted=yes")
		} else {
			st.Tag("quoted=no")
		}
		if len(b) >= 1024 {
			st.Tag("len>=1024")
		}
		if !closed {
			st.Tag("input=unterminated-quote")
			continue // a media type with an unterminated quoted string: outside the property
		}
		bad := ""
		switch {
		case len(outs[i]) > len(b):
			bad = "output longer than input"
		case !allowed:
			bad = "output is not the input with whitespace deleted and letters lower-cased outside quoted strings"
		case len(b) < 1024 && !bytes.Equal(exact, outs[i]):
			bad = "letters outside quoted strings left in upper case although the input is shorter than 1024 bytes"
		}
		if bad == "" {
			continue
		}
		c.R.Add(h.Finding{Stage: st.Name, Kind: "fail", What: "Mediatype: " + bad, Input: h.Q(b), Hex: h.Hex(b), Impl: h.Q(outs[i]), Model: "reference: " + h.Q(exact)})
	}
	return nil
}

func c18Corpus(dir string) [][]byte {
	var out [][]byte
	ents, _ := os.ReadDir(dir)
	names := []string{}
	for _, e := range ents {
		names = append(names, e.Name())
	}
	sort.Strings(names)
	for _, n := range names {
		if b, err := os.ReadFile(filepath.Join(dir, n)); err == nil {
			out = append(out, b)
		}
	}
	return out
}

// fixed regression inputs (the suite's own cases and the witnesses of the known findings' neighbours)
var c18Fixed = []string{"datx:x", "data:,text", "data:text/plain;charset=us-ascii,text", "data:TEXT/PLAIN;CHARSET=US-ASCII,text", "data:text/plain;charset=us-asciiz,text",
	"data:;base64,dGV4dA==", "data:text/svg+xml;base64,IyMjIyMj", "data:text/xml;version=2.0,content", "data:text/xml; version = 2.0,content", "data:,%23%23%23%23%23",
	"data:,%23%23%23%23%23%23", "data:text/x,<?xx?>", "data:text/other,\"<\u2318", "data:text/other,\"<\u2318>", "data:image/svg&#43;xml,%e2%ad%90",
	"data:,a%2Bb", "data:,a%2bb", "data:;charset=us-ascii,x", "data:text/plain;a=b,x", "data:text/plain,", "data:text/plain;base64,", "data:;base64,IyMjIyMj", "data:x/y;charset=us-ascii;base64,IyMjIyMj",
	"data:text/plain;charset=us-ascii;base64,IyMjIyMj", "data:x/y;charset=us-ascii;charset=us-ascii,x", "data:a=b,x", "data:text/html;BASE64,QQ==",
	// fixed finding K-C18-4 and neighbours: these must pass
	"data:text/plainx,abc", "data:text/plain x,abc", "data:TEXT/PLAIN+x;charset=us-ascii,abc", "data:text/plain=1,abc", "data:text/plainx;base64,IyMjIyMj", "data:text/plain;x=1,abc"}

func c18Contracts(c *Ctx) error {
	st := c.R.StartStage("contracts", "dependency contracts: base64.StdEncoding.Encode/Decode, parse.EncodeURL, parse.DecodeURL, parse.DataURI vs their Lean models; Lean spec decoders (pctDecode, b64Decode) vs hand-written Go readers; random byte strings over escape-heavy alphabets incl. CR/LF, padding and bad escapes; non-trivial = the function changes its input")
	defer st.End()
	n := c.N(3000, 60000)
	var lines []string
	type ck struct {
		op   string
		in   []byte
		want []byte
	}
	var cks []ck
	opt := func(ok bool, d []byte) []byte {
		if !ok {
			return []byte("30,_")
		}
		if len(d) == 0 {
			return []byte("31,_")
		}
		return []byte("31," + fmt.Sprintf("%x", d))
	}
	add := func(op string, in, want []byte) {
		cks = append(cks, ck{op, in, want})
		lines = append(lines, op+" "+h.Hex(in))
	}
	for i := 0; i < n; i++ {
		r := c.Rng.Fork()
		d := c18Payload(r)
		add("model.c18.b64enc", d, []byte(base64.StdEncoding.EncodeToString(d)))
		// base64 text: valid, corrupted, with CR/LF
		e := []byte(base64.StdEncoding.EncodeToString(d))
		if r.Chance(50) && len(e) > 0 {
			k := r.Intn(len(e) + 1)
			ins := []string{"\n", "\r\n", "=", "!", " ", "A", "-"}[r.Intn(7)]
			if r.Bool() {
				e = append(e[:k:k], append([]byte(ins), e[k:]...)...)
			} else if k < len(e) {
				e[k] = ins[0]
			}
		}
		if r.Chance(10) {
			e = c18Payload(r)
		}
		dec := make([]byte, base64.StdEncoding.DecodedLen(len(e)))
		nn, derr := base64.StdEncoding.Decode(dec, e)
		add("model.c18.b64dec", e, opt(derr == nil, dec[:nn]))
		sd, sok := c18B64Strict(e)
		add("spec.c18.b64", e, opt(sok, sd))
		// percent strings
		p := c18PctEncode(r, d, r.Intn(5))
		if r.Chance(30) && len(p) > 0 {
			p[r.Intn(len(p))] = "%+g%"[r.Intn(4)]
		}
		add("model.c18.encurl", d, parse.EncodeURL(append([]byte{}, d...), parse.DataURIEncodingTable))
		add("model.c18.decurl", p, parse.DecodeURL(append([]byte{}, p...)))
		add("spec.c18.pct", p, c18PctDecode(p))
	}
	rep, err := h.Eval(lines)
	if err != nil {
		return err
	}
	for i, k := range cks {
		st.Count(k.op+" "+h.Q(k.in), !bytes.Equal(k.in, k.want))
		st.Tag(k.op)
		got, ok, msg := h.DecodeReply(rep[i])
		if !ok || !bytes.Equal(got, k.want) {
			c18Diff(c, h.Finding{Stage: st.Name, Kind: "diff", What: k.op + " " + msg, Input: h.Q(k.in), Hex: h.Hex(k.in), Impl: h.Q(k.want), Model: h.Q(got)})
		}
	}
	return nil
}

func init() {
	register("C18", func(c *Ctx) error {
		if err := c18Contracts(c); err != nil {
			return err
		}

		// ---- exhaustive over payload byte values ----
		st := c.R.StartStage("bytes", "every payload byte value 0..255 x 6 payload shapes (b, bb, aba, 6 x b, 12 x b, b+'a'x5) x 4 input encodings (raw, percent upper, percent lower, base64) x 3 media types, each with 8 registries (none; catch-all identity, shrinking, failing, nested; literal text/plain; pattern ^text/; both); non-trivial = output differs from input or the sub-minifier ran")
		var uris [][]byte
		for b := 0; b < 256; b++ {
			bb := byte(b)
			shapes := [][]byte{{bb}, {bb, bb}, {'a', bb, 'a'}, bytes.Repeat([]byte{bb}, 6), bytes.Repeat([]byte{bb}, 12), append([]byte{bb}, "aaaaa"...)}
			for si, d := range shapes {
				mt := []string{"", "text/html", "text/plain;charset=us-ascii"}[(b+si)%3]
				uris = append(uris, append([]byte("data:"+mt+","), d...))
				uris = append(uris, []byte(fmt.Sprintf("data:%s,%s", mt, strings.ToUpper(pctAll(d)))))
				uris = append(uris, []byte(fmt.Sprintf("data:%s,%s", mt, pctAll(d))))
				uris = append(uris, []byte("data:"+mt+";base64,"+base64.StdEncoding.EncodeToString(d)))
			}
		}
		st.Exhaustive = true
		if err := c18EvalURIs(c, st, uris); err != nil {
			return err
		}
		st.End()

		// ---- which minifier is asked (deterministic) ----
		st = c.R.StartStage("dispatch", "17 media types (omitted, text/plain in 4 spellings, text/plain with default / other / several parameters, parameters after an omitted type, whitespace, other text/* and non-text types, text/plainx) x 6 payloads with and without spaces x 3 encodings (raw, percent, base64), each with 8 registries: none, catch-all identity / shrinking / failing / nested, a literal `text/plain` registration, the pattern `^text/`, both; oracle: the stub is called exactly once with the decoded payload iff the C15 rule selects it for the media type parse.DataURI returns, and the result carries its answer; all of called / not-selected must occur for lit and pat; non-trivial = output differs from input or the sub-minifier ran")
		{
			var du [][]byte
			types := []string{"", "text/plain", "TEXT/PLAIN", "Text/Plain", "text/plain;charset=us-ascii", "text/plain;charset=utf-8", "text/plain;charset=us-ascii;a=b", "text/plain;a=b;CHARSET=US-ASCII",
				";charset=utf-8", ";charset=us-ascii", " text/plain ", "text/plain ;charset=us-ascii", "text/html", "text/css;charset=us-ascii", "image/svg+xml", "text/plainx", "x/y"}
			pays := []string{"a b c", "  ", "a  b<p> x </p>", "nospace", " ", "# # # # # # # #"}
			for _, t := range types {
				for _, pl := range pays {
					du = append(du, []byte("data:"+t+","+pl), []byte("data:"+t+","+string(c18PctEncode(c.Rng, []byte(pl), 0))), []byte("data:"+t+";base64,"+base64.StdEncoding.EncodeToString([]byte(pl))))
				}
			}
			if err := c18EvalURIs(c, st, du); err != nil {
				return err
			}
			st.Exhaustive = true
			for _, want := range []string{"dispatch=called/lit", "dispatch=not-selected/lit", "dispatch=called/pat", "dispatch=not-selected/pat", "dispatch=called/shrink"} {
				if st.Dist[want] == 0 {
					c18Diff(c, h.Finding{Stage: st.Name, Kind: "diff", What: "generator gap: outcome never reached: " + want, Input: "(sweep)"})
				}
			}
		}
		st.End()

		// ---- data-URI-like text inside percent-encoded payloads (deterministic) ----
		st = c.R.StartStage("lookalike", "percent-encoded URIs whose payload contains data-URI syntax (`;base64`, `data:`, `,`, `%25`, `;charset=`, a nested data URI inside svg/css text): 10 templates x 0..12 raw escapable bytes x 6 escapes x 3 positions x 3 media types + fully escaped forms, each with 8 registries (none, identity, shrinking, failing, literal text/plain, pattern ^text/, both, nested = a stub that hands every nested data: URI to minify.DataURI as a sub-slice of its payload); the argument is retained before the call and the result at return; all three outcomes (original returned / percent / base64) are required to occur with and without escapes; non-trivial = output differs from input or the sub-minifier ran")
		if err := c18EvalURIs(c, st, c18LookalikeSweep()); err != nil {
			return err
		}
		st.Exhaustive = true
		for _, want := range []string{"lookalike-payload/escapes=original-returned", "lookalike-payload/escapes=percent-out", "lookalike-payload/escapes=base64-out",
			"lookalike-payload/noescape=original-returned", "lookalike-payload/noescape=percent-out", "nested-datauri-calls"} {
			if st.Dist[want] == 0 {
				c18Diff(c, h.Finding{Stage: st.Name, Kind: "diff", What: "generator gap: outcome never reached: " + want, Input: "(sweep)"})
			}
		}
		st.End()

		// ---- generated + corpus ----
		st = c.R.StartStage("datauri", "generated data URIs (15+5 types incl. omitted/upper-case/whitespace, 0-3 parameters incl. default charset variants, base64 markers with whitespace, payloads over 7 alphabets incl. all 256 byte values, 5 percent-encoding modes, corrupt base64, malformed forms, token soup, 1 KB headers, 12% percent-encoded URIs made of data-URI-like text with a random share of raw escapable bytes) + the suite's cases + tests/data-uri/corpus, each with 8 registries; non-trivial = output differs from input or the sub-minifier ran")
		uris = nil
		for _, s := range c18Fixed {
			uris = append(uris, []byte(s))
		}
		uris = append(uris, c18Corpus(filepath.Join(c.Repo, "tests", "data-uri", "corpus"))...)
		n := c.N(12000, 300000)
		if c.Search {
			n *= 4
		}
		for i := 0; i < n; i++ {
			uris = append(uris, c18GenURI(c.Rng.Fork()))
		}
		if err := c18EvalURIs(c, st, uris); err != nil {
			return err
		}
		st.End()

		// ---- Mediatype ----
		st = c.R.StartStage("mediatype", "generated media type strings (case, whitespace of 5 kinds around every token, 0-4 parameters, quoted values incl. empty/adjacent/with ; and whitespace, quoted-pair, unterminated quote, runs >= 1024 bytes, raw soup) + the suite's cases + tests/mediatype/corpus; non-trivial = output differs from input")
		var mts [][]byte
		for _, s := range []string{"text/html", "text/html; charset=UTF-8", "text/html; charset=UTF-8 ; param = \" ; \"", "text/html, text/css", `video/mp4; codecs="av01.0.05M.08"`, "", " ", "\"", "A", " A", "A ", "a=\"B\" ;c=\"D\"",
			// fixed findings K-C18-5, K-C18-6 and neighbours: these must pass
			"a  ;x=\"AB\";y=\"C\"", "A \t;X=\"AB\"\"CD\"\"EF\";Y=\"G H\"", "x=\"a\\\"B C\"", "X = \"a\\\\\" ; Y=\"B\\\"C\"", " a\\ B=\"C\""} {
			mts = append(mts, []byte(s))
		}
		mts = append(mts, c18Corpus(filepath.Join(c.Repo, "tests", "mediatype", "corpus"))...)
		n = c.N(20000, 400000)
		if c.Search {
			n *= 4
		}
		for i := 0; i < n; i++ {
			mts = append(mts, c18GenMediatype(c.Rng.Fork()))
		}
		if err := c18EvalMediatypes(c, st, mts); err != nil {
			return err
		}
		st.End()

		// ---- known findings ----
		for _, k := range h.Known("C18") {
			in := []byte(k.ReplayStr("input"))
			switch k.ReplayStr("api") {
			case "DataURI":
				if k.Status != "open" {
					continue
				}
				cs := c18RunOne(in, "none", 0)
				gr, or := c18GoRead(in), c18GoRead(cs.out)
				fails := cs.crash != "" || (gr.ok && !bytes.Equal(cs.out, in) && (!or.ok || !bytes.Equal(or.data, gr.data) || c18Norm(or.mt) != c18Norm(gr.mt)))
				c.R.AddKnown(k.ID, fails, k.What, h.Q(cs.out))
			case "Mediatype":
				if k.Status != "open" {
					continue
				}
				var out []byte
				h.Safely(10*time.Second, func() { out = minify.Mediatype(append([]byte{}, in...)) })
				c.R.AddKnown(k.ID, string(out) != k.ReplayStr("expected"), k.What, h.Q(out))
			}
		}
		return nil
	})
}

func pctAll(d []byte) string {
	var sb strings.Builder
	for _, c := range d {
		fmt.Fprintf(&sb, "%%%02x", c)
	}
	return sb.String()
}

package main

// C16 — options only restrict minification and are honoured.
//  stage cli-flags : every flag of the regenerated table (lean/Verif/Gen/CliFlags.lean) through the built command:
//                    `minify --type=T --<flag>[=v]` on stdin must produce exactly what the library produces with that
//                    option field set (set by reflection from the field name in the table).
//  stage honoured  : boolean option product per minifier x ECMAScript versions x precisions on corpus/seed documents:
//                    the kept constructs appear in the output as in the input (oracles independent of the models:
//                    x/net/html tokenizer, encoding/json, dependency JS lexer only for token classes).

import (
	"bytes"
	"encoding/json"
	"fmt"
	"io"
	"os"
	"os/exec"
	"path/filepath"
	"reflect"
	"regexp"
	"sort"
	"strconv"
	"strings"
	"time"

	"github.com/tdewolff/minify/v2"
	mincss "github.com/tdewolff/minify/v2/css"
	minhtml "github.com/tdewolff/minify/v2/html"
	minjs "github.com/tdewolff/minify/v2/js"
	minjson "github.com/tdewolff/minify/v2/json"
	minsvg "github.com/tdewolff/minify/v2/svg"
	minxml "github.com/tdewolff/minify/v2/xml"

	"verifharness/h"
)

var c16FlagRe = regexp.MustCompile(`"([a-z0-9-]+)=([a-z]+)\.([A-Za-z0-9]+)"`) // flag=package.Field (the translator names the option struct by its package)

func c16Flags() ([][3]string, error) {
	b, err := os.ReadFile(filepath.Join(h.Root(), "lean", "Verif", "Gen", "CliFlags.lean"))
	if err != nil {
		return nil, err
	}
	i := bytes.Index(b, []byte("def flags"))
	j := bytes.Index(b, []byte("def optionFields"))
	if i < 0 || j < i {
		return nil, fmt.Errorf("CliFlags.lean: unexpected shape")
	}
	var out [][3]string
	for _, m := range c16FlagRe.FindAllSubmatch(b[i:j], -1) {
		out = append(out, [3]string{string(m[1]), string(m[2]), string(m[3])})
	}
	if len(out) == 0 {
		return nil, fmt.Errorf("CliFlags.lean: no `flag=package.Field` entries found")
	}
	return out, nil
}

// the template flavours of cmd/minify: media type -> delimiters (README "Templates"; the registry facts are `cli_registry_ok`)
var c16TemplateDelims = map[string][2]string{
	"text/asp": {"<%", "%>"}, "text/x-ejs-template": {"<%", "%>"}, "application/x-httpd-php": {"<?", "?>"},
	"text/x-go-template": {"{{", "}}"}, "text/x-mustache-template": {"{{", "}}"}, "text/x-handlebars-template": {"{{", "}}"},
}

var c16ExtRe = regexp.MustCompile(`\("([a-z0-9]+)", "([^"]+)"\)`)

func c16ExtMap() ([][2]string, error) {
	b, err := os.ReadFile(filepath.Join(h.Root(), "lean", "Verif", "Gen", "CliExtMap.lean"))
	if err != nil {
		return nil, err
	}
	var out [][2]string
	for _, m := range c16ExtRe.FindAllSubmatch(b, -1) {
		out = append(out, [2]string{string(m[1]), string(m[2])})
	}
	if len(out) == 0 {
		return nil, fmt.Errorf("CliExtMap.lean: no extensions found")
	}
	return out, nil
}

// c16CLILib is what the command is documented to do for one media type: the six minifiers with the given option structs
// (missing kinds: defaults), the template flavours being the html options plus their delimiters
func c16CLILib(opts map[string]any, mime string, doc []byte) ([]byte, error) {
	get := func(kind string) minify.Minifier {
		if o, ok := opts[kind]; ok {
			return o.(minify.Minifier)
		}
		return c16New(kind).(minify.Minifier)
	}
	m := minify.New()
	m.Add("text/css", get("css"))
	hm := get("html").(*minhtml.Minifier)
	m.Add("text/html", hm)
	m.Add("image/svg+xml", get("svg"))
	m.AddRegexp(regexp.MustCompile("^(application|text)/(x-)?(java|ecma|j|live)script(1\\.[0-5])?$|^module$"), get("js"))
	m.AddRegexp(regexp.MustCompile("[/+]json$"), get("json"))
	m.AddRegexp(regexp.MustCompile("[/+]xml$"), get("xml"))
	for mt, dl := range c16TemplateDelims {
		t := *hm
		t.TemplateDelims = dl
		m.Add(mt, &t)
	}
	var out bytes.Buffer
	err := m.Minify(mime, &out, bytes.NewReader(append([]byte(nil), doc...)))
	return out.Bytes(), err
}

var c16Types = map[string]string{"css": "text/css", "html": "text/html", "js": "application/javascript", "json": "application/json", "svg": "image/svg+xml", "xml": "text/xml"}

var c16Seeds = map[string][]string{
	"html": {`<!DOCTYPE html><html><head><title>T</title><!-- c --><script type="text/javascript">var a = 1;</script></head><body><p class="x">Hello <b>w</b>  <i>z</i> </p><ul><li>a</li><li>b</li></ul><form method="get"><input type="text" value=""></form><!--[if IE]> x <![endif]--><table><tr><td>1</td></tr></table></body></html>`,
		`<div> <span> a </span> <span>b</span> </div> <p>x</p>`,
		"<pre><!--c-->\nx</pre><pre><!--[if IE]>a<![endif]-->\ny</pre><pre><!--# include file=\"a\" -->\nz</pre><textarea><!-- t -->\n a </textarea><title> <!-- t --> T </title><p>a <!-- c1 --> <b>b</b><!-- c2 --> <i>c</i> <!--[if IE]> <p>ie</p> <![endif]--> d</p> <!-- c3 --> <div>e</div><!-- c4 --><div> f </div> <!--# echo var=\"X\" --> g",
		"<p>x</p><!-- c --><div>y</div><ul><li>a</li><!-- c --><li>b</li></ul><select><!-- s --><option>1</option></select>"},
	"css":  {`a{margin:10.0px 1000000px;color:transparent;background-color:transparent;width:1e3px;height:0.00001em;opacity:.50;top:100000%}`},
	"js":   {"function f(alpha,beta){try{g()}catch(e){h()}var s='a\\nb\\nc';return alpha==null?beta:alpha}var k=Math.pow(f(1,2),2);", "let q=a?.b??c;let r=x**2;let t=`x${q}`;try{}catch{}",
		"x=a==null?undefined:a.b;y=b==null?void 0:b.c();z=c==null?undefined:c[0];w=d===null||d===undefined?undefined:d.e"},
	"json": {`{"a":[1.0e2,0.50,-0.0,1E+2,100000],"b":{"c":1.10}}`},
	"svg":  {`<svg xmlns="http://www.w3.org/2000/svg"><!-- c1 --><g><!-- c2 --><path d="M 10 10 L 20.50 20"/></g></svg>`},
	"xml":  {`<a> <b> x </b> <c>y</c> z </a>`, `<r><e> </e> t <f/> </r>`, `<p>line one <br/> line two</p>`, `<p>a <i>b</i> <![CDATA[c]]> d <!-- e --> f <g/> h</p>`},
}

func c16Lib(kind string, o any, doc []byte) ([]byte, error) {
	m := minify.New()
	m.AddFunc("text/css", mincss.Minify)
	m.AddFunc("text/html", minhtml.Minify)
	m.AddFunc("image/svg+xml", minsvg.Minify)
	m.AddFuncRegexp(regexp.MustCompile("^(application|text)/(x-)?(java|ecma|j|live)script(1\\.[0-5])?$|^module$"), minjs.Minify)
	m.AddFuncRegexp(regexp.MustCompile("[/+]json$"), minjson.Minify)
	m.AddFuncRegexp(regexp.MustCompile("[/+]xml$"), minxml.Minify)
	m.Add(c16Types[kind], o.(minify.Minifier))
	var out bytes.Buffer
	err := m.Minify(c16Types[kind], &out, bytes.NewReader(append([]byte(nil), doc...)))
	return out.Bytes(), err
}

func c16New(kind string) any {
	switch kind {
	case "css":
		return &mincss.Minifier{}
	case "html":
		return &minhtml.Minifier{}
	case "js":
		return &minjs.Minifier{}
	case "json":
		return &minjson.Minifier{}
	case "svg":
		return &minsvg.Minifier{}
	}
	return &minxml.Minifier{}
}

// ---------- oracles: see c16_oracles.go ----------

func c16JSONNumbers(b []byte) ([]string, bool) {
	d := json.NewDecoder(bytes.NewReader(b))
	d.UseNumber()
	var out []string
	for {
		t, err := d.Token()
		if err != nil {
			return out, err.Error() == "EOF"
		}
		if n, ok := t.(json.Number); ok {
			out = append(out, string(n))
		}
	}
}

func init() {
	register("C16", func(c *Ctx) error {
		minify.Warning.SetOutput(io.Discard) // KeepConditionalComments prints a deprecation warning per call
		flags, err := c16Flags()
		if err != nil {
			return err
		}
		// ---- stage cli-flags ----
		st := c.R.StartStage("cli-flags", "every CLI flag of the regenerated flag table x every file type of the regenerated extension table (incl. the template types asp/ejs/php/gohtml/tmpl/mustache/handlebars) through the built cmd/minify binary (stdin, --type=ext) vs the library registry in which the option field named in the table is set by reflection and the template flavours are copies of the html options with their delimiters (bool flags: on; numeric flags: several values); non-trivial = the flag changes the output for the document")
		dir, err := os.MkdirTemp("", "verif-c16-")
		if err != nil {
			return err
		}
		defer os.RemoveAll(dir)
		exe := filepath.Join(dir, "minify")
		build := exec.Command("go", "build", "-o", exe, "./cmd/minify")
		build.Dir = c.Repo
		if out, err := build.CombinedOutput(); err != nil {
			return fmt.Errorf("building cmd/minify: %v\n%s", err, out)
		}
		exts, err := c16ExtMap()
		if err != nil {
			return err
		}
		kindOfMime := func(mime string) string {
			for k, mt := range c16Types {
				if mt == mime {
					return k
				}
			}
			switch {
			case c16TemplateDelims[mime][0] != "":
				return "html"
			case strings.HasSuffix(mime, "json"):
				return "json"
			case strings.HasSuffix(mime, "/xml") || strings.HasSuffix(mime, "+xml"):
				return "xml"
			}
			return ""
		}
		for _, fl := range flags {
			flag, kind, field := fl[0], fl[1], fl[2]
			if fv := reflect.ValueOf(c16New(kind)).Elem().FieldByName(field); !fv.IsValid() {
				c.R.Add(h.Finding{Stage: st.Name, Kind: "fail", What: "CLI flag --" + flag + " is bound to a field that does not exist: " + kind + "." + field})
				continue
			}
			isBool := reflect.ValueOf(c16New(kind)).Elem().FieldByName(field).Kind() == reflect.Bool
			var vals []string
			if isBool {
				vals = []string{""}
			} else if strings.HasSuffix(flag, "version") {
				vals = []string{"5", "2015", "2019", "2020", "2022"}
			} else {
				vals = []string{"1", "3", "6"}
			}
			for _, em := range exts {
				ext, mime := em[0], em[1]
				dk := kindOfMime(mime)
				var docs []string
				if dk == "" {
					docs = []string{"<a> x </a>"}
				} else if dk == kind {
					docs = append(docs, c16Seeds[dk]...)
					if dl := c16TemplateDelims[mime]; dl[0] != "" {
						docs = append(docs, `<html><head><title>T</title></head><body><!-- c --><p class="`+dl[0]+` .C `+dl[1]+`">a `+dl[0]+` if .X `+dl[1]+` <b> b </b> `+dl[0]+` end `+dl[1]+`</p><ul><li>x</li></ul><form method="get"><input type="text" value=""></form></body></html>`)
					}
				} else {
					docs = c16Seeds[dk][:1]
				}
				if dk != kind && len(vals) > 1 {
					vals = vals[:1]
				}
				for _, doc := range docs {
					base, _ := c16CLILib(map[string]any{}, mime, []byte(doc))
					for _, v := range vals {
						o := c16New(kind)
						fv := reflect.ValueOf(o).Elem().FieldByName(field)
						arg := "--" + flag
						if v == "" {
							fv.SetBool(true)
						} else {
							n, _ := strconv.Atoi(v)
							fv.SetInt(int64(n))
							arg += "=" + v
						}
						want, lerr := c16CLILib(map[string]any{kind: o}, mime, []byte(doc))
						cmd := exec.Command(exe, "--type="+ext, arg)
						cmd.Stdin = strings.NewReader(doc)
						var stdout, stderr bytes.Buffer
						cmd.Stdout, cmd.Stderr = &stdout, &stderr
						cerr := cmd.Run()
						key := fmt.Sprintf("minify --type=%s %s < %q", ext, arg, doc)
						st.Count(key, !bytes.Equal(want, base))
						st.Tag(ext)
						if (cerr != nil) != (lerr != nil) || (lerr == nil && !bytes.Equal(stdout.Bytes(), want)) {
							c.R.Add(h.Finding{Stage: st.Name, Kind: "fail", What: "CLI flag --" + flag + " on a ." + ext + " input (" + mime + ") does not have the effect of option " + kind + "." + field, Input: h.Q([]byte(doc)), Hex: h.HexS(doc), Config: "minify --type=" + ext + " " + arg, Impl: h.Q(stdout.Bytes()) + " " + stderr.String(), Model: h.Q(want)})
						}
					}
				}
			}
		}
		st.End()

		// ---- oracle self test, known findings ----
		if err := c16SelfTest(); err != nil {
			return err
		}
		open := map[string]bool{}
		for _, k := range h.Known("C16") {
			if k.Status != "open" {
				continue
			}
			open[k.ID] = true
			cfg := c16ParseCfg(k.ReplayStr("kind"), k.ReplayStr("options"))
			out, err := c16Run(cfg, []byte(k.ReplayStr("input")), "")
			still := err == nil && string(out) != k.ReplayStr("expected")
			if k.Trigger == "blockFunctionDecl" { // judged by the syntax check, not by the exact bytes
				if n, nerr := c16StartNode(); nerr == nil {
					ok, _, judged := n.parses(out)
					still = err == nil && judged && !ok
					n.stop()
				}
			}
			c.R.AddKnown(k.ID, still, k.What, string(out))
		}
		// ---- fixed regression corpus: the inputs of the repaired findings K-C16-1..4; must pass ----
		stf := c.R.StartStage("fixed", "inputs of the findings repaired in /repo (44fae7b KeepEndTags, c5a4469 KeepDefaultAttrVals/input, 2252d4e property shorthand, 292d477 js Restore) with the expected bytes; non-trivial = an option is set")
		for _, f := range c16Fixed {
			cfg := c16ParseCfg(f[0], f[1])
			out, err := c16Run(cfg, []byte(f[2]), "")
			stf.Count(cfg.String()+" "+f[2], true)
			if err != nil || string(out) != f[3] {
				c.R.Add(h.Finding{Stage: stf.Name, Kind: "fail", What: f[0] + " " + f[1] + " is not honoured (regression of a repaired finding): expected " + h.Q([]byte(f[3])), Input: h.Q([]byte(f[2])), Hex: h.HexS(f[2]), Config: cfg.String(), Impl: h.Q(out)})
			}
		}
		stf.End()
		c16Honoured(c, open)
		return nil
	})
}

// kind, options, input, expected output
var c16Fixed = [][4]string{
	{"html", "KeepEndTags", `<body class="a"><p>x</p></body>`, `<body class=a><p>x</p></body>`},
	{"html", "KeepEndTags", `<table><colgroup span="2"></colgroup><tr><td>a</td></tr></table>`, `<table><colgroup span=2></colgroup><tr><td>a</td></tr></table>`},
	{"html", "KeepEndTags", `<html lang=en><head id=h></head><body><p>x</body></html>`, `<html lang=en><head id=h></head><p>x</html>`},
	{"html", "KeepDefaultAttrVals", `<input type="text" value="">`, `<input type=text value>`},
	{"html", "KeepDefaultAttrVals", `<input type="radio" value="on">`, `<input type=radio value=on>`},
	{"html", "", `<input type="text" value="">`, `<input>`},
	{"html", "KeepQuotes", `<img onclick="f()" onload='g(1)'>`, `<img onclick="f()" onload='g(1)'>`},
	{"js", "Version=5", `x={a:a,b:b}`, `x={a:a,b:b}`},
	{"js", "Version=2014", `x={a:a,b:b}`, `x={a:a,b:b}`},
	{"js", "Version=2015", `x={a:a,b:b}`, `x={a,b}`},
	{"js", "", `x={a:a,b:b}`, `x={a,b}`},
}

// c16Cfg is one option setting of one minifier
type c16Cfg struct {
	kind   string
	bools  map[string]bool
	ints   map[string]int
	delims [2]string
}

func (c c16Cfg) String() string {
	var p []string
	for k, v := range c.bools {
		if v {
			p = append(p, k)
		}
	}
	for k, v := range c.ints {
		if v != 0 {
			p = append(p, fmt.Sprintf("%s=%d", k, v))
		}
	}
	if c.delims[0] != "" {
		p = append(p, "TemplateDelims="+c.delims[0]+c.delims[1])
	}
	sort.Strings(p)
	return c.kind + " {" + strings.Join(p, ",") + "}"
}

func c16ParseCfg(kind, opts string) c16Cfg {
	cfg := c16Cfg{kind: kind, bools: map[string]bool{}, ints: map[string]int{}}
	for _, o := range strings.Split(opts, ",") {
		if o == "" {
			continue
		}
		if i := strings.IndexByte(o, '='); i >= 0 {
			n, _ := strconv.Atoi(o[i+1:])
			cfg.ints[o[:i]] = n
		} else {
			cfg.bools[o] = true
		}
	}
	return cfg
}

// c16Run minifies doc with the real minifier configured by cfg (fields set by reflection); params is appended to the media type
func c16Run(cfg c16Cfg, doc []byte, params string) ([]byte, error) {
	o := c16New(cfg.kind)
	ov := reflect.ValueOf(o).Elem()
	for k, v := range cfg.bools {
		if f := ov.FieldByName(k); f.IsValid() {
			f.SetBool(v)
		} else if v {
			return nil, fmt.Errorf("no option field %s.%s", cfg.kind, k)
		}
	}
	for k, v := range cfg.ints {
		if f := ov.FieldByName(k); f.IsValid() {
			f.SetInt(int64(v))
		} else if v != 0 {
			return nil, fmt.Errorf("no option field %s.%s", cfg.kind, k)
		}
	}
	if cfg.delims[0] != "" {
		ov.FieldByName("TemplateDelims").Set(reflect.ValueOf(cfg.delims))
	}
	m := minify.New()
	m.AddFunc("text/css", mincss.Minify)
	m.AddFunc("text/html", minhtml.Minify)
	m.AddFunc("image/svg+xml", minsvg.Minify)
	m.AddFuncRegexp(regexp.MustCompile("^(application|text)/(x-)?(java|ecma|j|live)script(1\\.[0-5])?$|^module$"), minjs.Minify)
	m.AddFuncRegexp(regexp.MustCompile("[/+]json$"), minjson.Minify)
	m.AddFuncRegexp(regexp.MustCompile("[/+]xml$"), minxml.Minify)
	m.Add(c16Types[cfg.kind], o.(minify.Minifier))
	var out bytes.Buffer
	err := m.Minify(c16Types[cfg.kind]+params, &out, bytes.NewReader(append([]byte(nil), doc...)))
	return out.Bytes(), err
}

var c16HTMLBools = []string{"KeepComments", "KeepConditionalComments", "KeepSpecialComments", "KeepDefaultAttrVals", "KeepDocumentTags", "KeepEndTags", "KeepQuotes", "KeepWhitespace"}

type c16Input struct {
	doc    []byte
	name   string
	corpus bool
}

func c16Honoured(c *Ctx, open map[string]bool) {
	st := c.R.StartStage("honoured", "per option an oracle that is independent of the Lean models, evaluated on the bytes the real minifier writes: "+
		"html: all 256 Keep* masks on seed/generated documents (sampled masks on corpus documents), template delimiter sets; js: KeepVarNames x Version {0,5,2015..2022} x Precision; "+
		"css: KeepCSS2 x Inline x Precision; json: KeepNumbers x Precision 0..17; svg: KeepComments x Precision; xml: KeepWhitespace; "+
		"oracles: comments / special comments / end-tag sequence / document tags / quoting / attribute multiset / word-and-space skeleton / template expressions (x/net/html tokenizer + raw attribute scan), "+
		"number lexemes (encoding/json), rounding bound |w-v| <= 10^(L-p+1)/2 (math/big), comments and numeric attributes (encoding/xml), identifiers and newer-syntax tokens (token classes), no exponent / no new `initial` (css tokens); "+
		"non-trivial = the option under test is set (or Version/Precision non-zero) and its oracle judged the case")
	gen := c16Gen{c.Rng.Fork()}
	sz := func(quick, thorough int) int { // widened when a proof or the translator is broken (-search)
		n := c.N(quick, thorough)
		if c.Search {
			n *= 3
		}
		return n
	}
	corpus := map[string][]c16Input{}
	for _, d := range c09Docs(c.Repo, c.N(40000, 400000)) {
		for k, mt := range c16Types {
			if d.mt == mt {
				corpus[k] = append(corpus[k], c16Input{d.data, d.name, true})
			}
		}
	}
	inputs := func(kind string, n int, g func() string) []c16Input {
		var r []c16Input
		for i, s := range c16Seeds[kind] {
			r = append(r, c16Input{[]byte(s), fmt.Sprintf("seed-%d", i), false})
		}
		for i := 0; i < n; i++ {
			r = append(r, c16Input{[]byte(g()), fmt.Sprintf("gen-%d", i), false})
		}
		return append(r, corpus[kind]...)
	}
	excluded := map[string]int{}
	judged := map[string]int{}
	fail := func(cfg c16Cfg, in c16Input, out []byte, opt, detail string) {
		c.R.Add(h.Finding{Stage: st.Name, Kind: "fail", What: cfg.kind + " " + opt + " is not honoured: " + detail, Input: h.Q(trunc(in.doc, 600)), Hex: h.Hex(trunc(in.doc, 100000)), Config: cfg.String(), Impl: h.Q(trunc(out, 600))})
	}
	run := func(cfg c16Cfg, in c16Input, params string) ([]byte, bool) {
		var out []byte
		var err error
		if crash := h.Safely(60*time.Second, func() { out, err = c16Run(cfg, in.doc, params) }); crash != "" {
			c.R.Add(h.Finding{Stage: st.Name, Kind: "crash", What: crash, Input: h.Q(trunc(in.doc, 300)), Hex: h.Hex(trunc(in.doc, 100000)), Config: cfg.String()})
			return nil, false
		}
		return out, err == nil
	}
	// verdict bookkeeping: opt = "kind.Option=value"
	check := func(cfg c16Cfg, in c16Input, out []byte, opt, res string) {
		if res == c16Skip {
			return
		}
		judged[opt]++
		st.Tag(opt)
		if res != "" {
			fail(cfg, in, out, opt, res)
		}
	}

	// ---------------- html ----------------
	hin := inputs("html", sz(300, 2500), func() string { return gen.html("", "") })
	for _, in := range hin {
		din := c16ScanHTML(in.doc)
		var masks []int
		if in.corpus {
			for i := 0; i < 10; i++ {
				masks = append(masks, gen.r.Intn(256))
			}
		} else {
			for mk := 0; mk < 256; mk++ {
				masks = append(masks, mk)
			}
		}
		outs := map[int][]byte{}
		for _, mk := range masks {
			cfg := c16Cfg{kind: "html", bools: map[string]bool{}, ints: map[string]int{}}
			for i, n := range c16HTMLBools {
				cfg.bools[n] = mk>>i&1 == 1
			}
			out, ok := run(cfg, in, "")
			st.Count(cfg.String()+" "+in.name+" "+h.Q(trunc(in.doc, 80)), mk != 0)
			if !ok {
				continue
			}
			outs[mk] = out
			dout := c16ScanHTML(out)
			b := cfg.bools
			if b["KeepComments"] {
				check(cfg, in, out, "html.KeepComments=on", c16OracleKeepComments(din, dout))
			}
			if b["KeepSpecialComments"] || b["KeepConditionalComments"] {
				n := "html.KeepSpecialComments=on"
				if !b["KeepSpecialComments"] {
					n = "html.KeepConditionalComments=on"
				}
				check(cfg, in, out, n, c16OracleKeepSpecial(din, dout, b["KeepComments"]))
			}
			if b["KeepEndTags"] {
				res, ex := c16OracleKeepEndTags(din, dout, b["KeepDocumentTags"], open["K-C16-1"])
				if ex {
					excluded["K-C16-1"]++
				}
				check(cfg, in, out, "html.KeepEndTags=on", res)
			}
			if b["KeepDocumentTags"] {
				check(cfg, in, out, "html.KeepDocumentTags=on", c16OracleKeepDocumentTags(din, dout))
			}
			if b["KeepQuotes"] {
				res, ex := c16OracleKeepQuotes(din, dout, open["K-C16-4"])
				if ex {
					excluded["K-C16-4"]++
				}
				check(cfg, in, out, "html.KeepQuotes=on", res)
			}
			if b["KeepDefaultAttrVals"] {
				res, ex := c16OracleKeepDefaults(din, dout, open["K-C16-2"])
				if ex {
					excluded["K-C16-2"]++
				}
				check(cfg, in, out, "html.KeepDefaultAttrVals=on", res)
			}
			if b["KeepWhitespace"] {
				check(cfg, in, out, "html.KeepWhitespace=on", c16OracleKeepWhitespace(din, dout))
			}
			check(cfg, in, out, "html.*=pre-text", c16OraclePreText(in.doc, out))
		}
		// the comment options do nothing else: same document, comments ignored, as with the three comment bits cleared
		for _, mk := range masks {
			if mk&7 == 0 || outs[mk] == nil {
				continue
			}
			off, ok := outs[mk&^7]
			cfg := c16Cfg{kind: "html", bools: map[string]bool{}, ints: map[string]int{}}
			for i, n := range c16HTMLBools {
				cfg.bools[n] = mk>>i&1 == 1
			}
			if !ok {
				cfgOff := c16Cfg{kind: "html", bools: map[string]bool{}, ints: map[string]int{}}
				for i, n := range c16HTMLBools {
					cfgOff.bools[n] = (mk&^7)>>i&1 == 1
				}
				if off, ok = run(cfgOff, in, ""); !ok {
					continue
				}
				outs[mk&^7] = off
			}
			for i, n := range c16HTMLBools[:3] {
				if mk>>i&1 == 1 {
					check(cfg, in, outs[mk], "html."+n+"=nothing-else", c16OracleNothingElse(outs[mk], off))
					break
				}
			}
		}
		// KeepConditionalComments is KeepSpecialComments (deprecated alias): same bytes for the same other options
		for _, mk := range masks {
			if mk>>1&1 == 1 && mk>>2&1 == 0 {
				if alias, ok := outs[mk&^2|4]; ok && outs[mk] != nil {
					res := ""
					if !bytes.Equal(alias, outs[mk]) {
						res = fmt.Sprintf("output with KeepSpecialComments instead: %s", h.Q(trunc(alias, 300)))
					}
					check(c16Cfg{kind: "html", bools: map[string]bool{"KeepConditionalComments": true}}, in, outs[mk], "html.KeepConditionalComments=alias", res)
				}
			}
		}
	}
	// template delimiters
	for _, dl := range [][2]string{{"{{", "}}"}, {"<%", "%>"}, {"<?", "?>"}} {
		for i, n := 0, sz(120, 1000); i < n; i++ {
			in := c16Input{[]byte(gen.html(dl[0], dl[1])), fmt.Sprintf("tmpl-%d", i), false}
			for k := 0; k < 6; k++ {
				mk := gen.r.Intn(256)
				cfg := c16Cfg{kind: "html", bools: map[string]bool{}, ints: map[string]int{}, delims: dl}
				for i, n := range c16HTMLBools {
					cfg.bools[n] = mk>>i&1 == 1
				}
				out, ok := run(cfg, in, "")
				has := bytes.Contains(in.doc, []byte(dl[0]))
				st.Count(cfg.String()+" "+h.Q(trunc(in.doc, 80)), has)
				if ok && has {
					check(cfg, in, out, "html.TemplateDelims="+dl[0]+dl[1], c16OracleTemplates(in.doc, out, dl[0], dl[1]))
				}
			}
		}
	}

	// ---------------- js ----------------
	versions := []int{0, 5, 2015, 2016, 2017, 2018, 2019, 2020, 2021, 2022}
	node, nodeErr := c16StartNode()
	if nodeErr != nil {
		c.R.Note("honoured: node not available (%v): the syntax oracle for js outputs is not evaluated", nodeErr)
	} else {
		defer node.stop()
	}
	for _, in := range inputs("js", sz(600, 6000), gen.js) {
		jin := c16ScanJS(in.doc)
		inParses := false
		if node != nil && len(in.doc) < 200000 {
			ok, _, judged := node.parses(in.doc)
			inParses = ok && judged
		}
		type jc struct {
			keep bool
			ver  int
			prec int
		}
		var cfgs []jc
		if in.corpus {
			for i := 0; i < 6; i++ {
				cfgs = append(cfgs, jc{gen.r.Bool(), versions[gen.r.Intn(len(versions))], 0})
			}
		} else {
			for _, v := range versions {
				cfgs = append(cfgs, jc{false, v, 0}, jc{true, v, 0})
			}
			for i := 0; i < 4; i++ {
				cfgs = append(cfgs, jc{gen.r.Bool(), versions[gen.r.Intn(len(versions))], 1 + gen.r.Intn(17)})
			}
		}
		for _, x := range cfgs {
			cfg := c16Cfg{kind: "js", bools: map[string]bool{"KeepVarNames": x.keep}, ints: map[string]int{"Version": x.ver, "Precision": x.prec}}
			out, ok := run(cfg, in, "")
			st.Count(cfg.String()+" "+in.name+" "+h.Q(trunc(in.doc, 80)), x.keep || x.ver != 0 || x.prec != 0)
			if !ok {
				continue
			}
			jout := c16ScanJS(out)
			if inParses {
				// the guarantees of the other properties under every option combination: the output is a program again
				res := c16Skip
				if ok, msg, judged := node.parses(out); judged {
					res = ""
					if !ok {
						res = "the input parses (V8), the output does not: " + msg
						if open["K-C16-5"] && c16TrigBlockFn(in.doc) && strings.Contains(msg, "has already been declared") {
							excluded["K-C16-5"]++
							res = c16Skip
						}
					}
				}
				opt := "js.*=syntax"
				if x.keep {
					opt = "js.KeepVarNames=syntax"
				}
				check(cfg, in, out, opt, res)
			}
			if x.keep {
				check(cfg, in, out, "js.KeepVarNames=on", c16OracleKeepVarNames(jin, jout))
			}
			if x.ver != 0 {
				res, ex := c16OracleVersion(jin, jout, x.ver, open["K-C16-3"])
				if ex {
					excluded["K-C16-3"]++
				}
				check(cfg, in, out, fmt.Sprintf("js.Version=%d", x.ver), res)
			}
			if !in.corpus {
				check(cfg, in, out, fmt.Sprintf("js.Precision=%d", x.prec), c16OracleNumbers(jin.nums, jout.nums, x.prec))
			}
		}
	}

	// ---------------- css ----------------
	precs := []int{0, 1, 2, 3, 5, 8, 15, 17}
	for _, inline := range []bool{false, true} {
		nPlain := 0
		g := func() string { nPlain++; return gen.css(nPlain%2 == 0) }
		if inline {
			g = gen.cssInline
		}
		ins := inputs("css", sz(500, 5000), g)
		if inline {
			ins = ins[len(c16Seeds["css"]) : len(ins)-len(corpus["css"])]
		}
		for idx, in := range ins {
			// the number-by-number comparison needs documents in which nothing but the number printer touches numbers
			plain := !inline && !in.corpus && idx >= len(c16Seeds["css"]) && (idx-len(c16Seeds["css"])+1)%2 == 0
			nin, expIn, iniIn := c16CSSNumbers(in.doc)
			cur := bytes.Count(bytes.ToLower(in.doc), []byte("currentcolor"))
			for _, keep := range []bool{false, true} {
				ps := precs
				if in.corpus {
					ps = []int{0, precs[gen.r.Intn(len(precs))]}
				}
				for _, p := range ps {
					cfg := c16Cfg{kind: "css", bools: map[string]bool{"KeepCSS2": keep, "Inline": inline}, ints: map[string]int{"Precision": p}}
					out, ok := run(cfg, in, "")
					st.Count(cfg.String()+" "+in.name+" "+h.Q(trunc(in.doc, 80)), keep || p != 0 || inline)
					if !ok {
						continue
					}
					nout, expOut, iniOut := c16CSSNumbers(out)
					if keep {
						res := ""
						if expOut && !expIn {
							res = "exponent notation introduced"
						} else if iniOut > iniIn+cur {
							res = "`initial` introduced"
						}
						check(cfg, in, out, "css.KeepCSS2=on", res)
					}
					if plain {
						check(cfg, in, out, fmt.Sprintf("css.Precision=%d", p), c16OracleNumbers(nin, nout, p))
					}
					if inline && p == 0 {
						// Inline is the `inline=1` media type parameter
						cfg2 := c16Cfg{kind: "css", bools: map[string]bool{"KeepCSS2": keep}, ints: map[string]int{}}
						out2, ok2 := run(cfg2, in, ";inline=1")
						res := ""
						if !ok2 || !bytes.Equal(out, out2) {
							res = fmt.Sprintf("with the media type parameter inline=1 instead: %s", h.Q(trunc(out2, 300)))
						}
						check(cfg, in, out, "css.Inline=on", res)
					}
				}
			}
		}
	}

	// ---------------- json ----------------
	for _, in := range inputs("json", sz(400, 4000), func() string { return gen.jsonDoc(3) }) {
		a, okIn := c16JSONNumbers(in.doc)
		for _, keep := range []bool{false, true} {
			for p := 0; p <= 17; p++ {
				if in.corpus && p%6 != 0 {
					continue
				}
				cfg := c16Cfg{kind: "json", bools: map[string]bool{"KeepNumbers": keep}, ints: map[string]int{"Precision": p}}
				out, ok := run(cfg, in, "")
				st.Count(cfg.String()+" "+in.name+" "+h.Q(trunc(in.doc, 80)), keep || p != 0)
				if !ok || !okIn {
					continue
				}
				b, _ := c16JSONNumbers(out)
				if keep {
					res := ""
					if strings.Join(a, " ") != strings.Join(b, " ") {
						res = fmt.Sprintf("number lexemes of the input %v, of the output %v", a, b)
					}
					check(cfg, in, out, "json.KeepNumbers=on", res)
				} else if len(a) > 0 {
					res := c16OracleNumbers(a, b, p)
					if res == c16Skip && len(a) != len(b) {
						res = fmt.Sprintf("%d numbers in the input, %d in the output", len(a), len(b))
					}
					check(cfg, in, out, fmt.Sprintf("json.Precision=%d", p), res)
				}
			}
		}
	}

	// ---------------- svg ----------------
	for _, in := range inputs("svg", sz(400, 4000), gen.svg) {
		for _, keep := range []bool{false, true} {
			for _, p := range precs {
				if in.corpus && p != 0 && p != 3 {
					continue
				}
				cfg := c16Cfg{kind: "svg", bools: map[string]bool{"KeepComments": keep}, ints: map[string]int{"Precision": p}}
				out, ok := run(cfg, in, "")
				st.Count(cfg.String()+" "+in.name+" "+h.Q(trunc(in.doc, 80)), keep || p != 0)
				if !ok {
					continue
				}
				if keep {
					check(cfg, in, out, "svg.KeepComments=on", c16OracleSVGComments(in.doc, out))
				}
				check(cfg, in, out, fmt.Sprintf("svg.Precision=%d", p), c16OracleSVGPrecision(in.doc, out, p))
				if p == 0 && !in.corpus {
					cfgI := c16Cfg{kind: "svg", bools: map[string]bool{"KeepComments": keep, "Inline": true}, ints: map[string]int{}}
					o1, ok1 := run(cfgI, in, "")
					o2, ok2 := run(cfg, in, ";inline=1")
					res := ""
					if ok1 != ok2 || !bytes.Equal(o1, o2) {
						res = fmt.Sprintf("Inline: %s, media type parameter inline=1: %s", h.Q(trunc(o1, 200)), h.Q(trunc(o2, 200)))
					}
					check(cfgI, in, o1, "svg.Inline=on", res)
				}
			}
		}
	}

	// ---------------- xml ----------------
	for _, in := range inputs("xml", sz(500, 5000), func() string { return "<r>" + gen.xmlDoc(3) + "</r>" }) {
		for _, keep := range []bool{false, true} {
			cfg := c16Cfg{kind: "xml", bools: map[string]bool{"KeepWhitespace": keep}, ints: map[string]int{}}
			out, ok := run(cfg, in, "")
			st.Count(cfg.String()+" "+in.name+" "+h.Q(trunc(in.doc, 80)), keep)
			if ok && keep {
				check(cfg, in, out, "xml.KeepWhitespace=on", c16XMLSpaces(in.doc, out))
			}
		}
	}

	// ---------------- coverage ----------------
	var ks []string
	for k := range judged {
		ks = append(ks, k)
	}
	sort.Strings(ks)
	var parts []string
	for _, k := range ks {
		parts = append(parts, fmt.Sprintf("%s:%d", k, judged[k]))
	}
	c.R.Note("honoured: cases judged per option value — %s", strings.Join(parts, " "))
	for _, want := range []string{"html.KeepComments=on", "html.KeepConditionalComments=on", "html.KeepConditionalComments=alias", "html.KeepComments=nothing-else", "html.KeepConditionalComments=nothing-else", "html.KeepSpecialComments=nothing-else", "html.*=pre-text", "html.KeepSpecialComments=on", "html.KeepDefaultAttrVals=on",
		"html.KeepDocumentTags=on", "html.KeepEndTags=on", "html.KeepQuotes=on", "html.KeepWhitespace=on", "html.TemplateDelims={{}}", "html.TemplateDelims=<%%>", "html.TemplateDelims=<??>",
		"js.KeepVarNames=on", "js.KeepVarNames=syntax", "js.*=syntax", "js.Version=5", "js.Version=2015", "js.Version=2016", "js.Version=2019", "js.Version=2020", "js.Version=2022", "js.Precision=0", "css.KeepCSS2=on", "css.Inline=on",
		"css.Precision=0", "css.Precision=3", "json.KeepNumbers=on", "json.Precision=0", "json.Precision=1", "json.Precision=17", "svg.KeepComments=on", "svg.Inline=on", "svg.Precision=0", "svg.Precision=3",
		"xml.KeepWhitespace=on"} {
		if judged[want] == 0 {
			c.R.Add(h.Finding{Stage: st.Name, Kind: "diff", What: "coverage hole: no case judged for " + want})
		}
	}
	for id, n := range excluded {
		c.R.ExcludedKnown += n
		c.R.Note("honoured: %d cases fall under the open known finding %s (that clause not judged)", n, id)
	}
	st.End()
}

var c16TagRe = regexp.MustCompile(`<!--[\s\S]*?-->|<!\[CDATA\[[\s\S]*?\]\]>|<[^>]*>`)

// c16XMLSpaces compares the text segments between tags of input and output (only when both have the same number of
// segments and no comments/CDATA are involved): a segment that starts (ends) with white space next to a tag and has other
// content must still start (end) with white space.
func c16XMLSpaces(in, out []byte) string {
	if bytes.Contains(in, []byte("<!--")) || bytes.Contains(in, []byte("<![CDATA[")) || bytes.Contains(in, []byte("<?")) || bytes.Contains(in, []byte("<!")) {
		return ""
	}
	a := c16TagRe.Split(string(in), -1)
	b := c16TagRe.Split(string(out), -1)
	ta := c16TagRe.FindAllString(string(in), -1)
	if len(a) != len(b) || len(ta) == 0 {
		return ""
	}
	isWS := func(c byte) bool { return c == ' ' || c == '\t' || c == '\n' || c == '\r' }
	for i := range a {
		x, y := a[i], b[i]
		if strings.TrimSpace(x) == "" {
			continue
		}
		if i > 0 && isWS(x[0]) && (len(y) == 0 || !isWS(y[0])) {
			return fmt.Sprintf("text %q became %q (leading space after %s lost)", x, y, ta[i-1])
		}
		if i < len(ta) && isWS(x[len(x)-1]) && (len(y) == 0 || !isWS(y[len(y)-1])) {
			return fmt.Sprintf("text %q became %q (trailing space before %s lost)", x, y, ta[i])
		}
	}
	return ""
}

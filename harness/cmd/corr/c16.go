package main

// C16 — options only restrict minification and are honoured.
//  stage cli-flags : every flag of the regenerated table (lean/Verif/Gen/CliFlags.lean) through the built command:
//                    `minify --type=T --<flag>[=v]` on stdin must produce exactly what the library produces with that
//                    option field set (set by reflection from the field name in the table).
//  stage honoured  : boolean option product per minifier x ECMAScript versions x precisions on corpus/seed documents:
//                    the kept constructs appear in the output as in the input (oracles independent of the models:
//                    x/net/html tokenizer, encoding/json, dependency JS lexer only for token classes).

import (
	"bytes"
	"encoding/json"
	"fmt"
	"os"
	"os/exec"
	"path/filepath"
	"reflect"
	"regexp"
	"sort"
	"strconv"
	"strings"
	"time"

	"github.com/tdewolff/minify/v2"
	mincss "github.com/tdewolff/minify/v2/css"
	minhtml "github.com/tdewolff/minify/v2/html"
	minjs "github.com/tdewolff/minify/v2/js"
	minjson "github.com/tdewolff/minify/v2/json"
	minsvg "github.com/tdewolff/minify/v2/svg"
	minxml "github.com/tdewolff/minify/v2/xml"
	"github.com/tdewolff/parse/v2"
	pjs "github.com/tdewolff/parse/v2/js"
	xhtml "golang.org/x/net/html"

	"verifharness/h"
)

var c16FlagRe = regexp.MustCompile(`"([a-z0-9-]+)=([a-z]+)\.([A-Za-z0-9]+)"`) // flag=package.Field (the translator names the option struct by its package)

func c16Flags() ([][3]string, error) {
	b, err := os.ReadFile(filepath.Join(h.Root(), "lean", "Verif", "Gen", "CliFlags.lean"))
	if err != nil {
		return nil, err
	}
	i := bytes.Index(b, []byte("def flags"))
	j := bytes.Index(b, []byte("def optionFields"))
	if i < 0 || j < i {
		return nil, fmt.Errorf("CliFlags.lean: unexpected shape")
	}
	var out [][3]string
	for _, m := range c16FlagRe.FindAllSubmatch(b[i:j], -1) {
		out = append(out, [3]string{string(m[1]), string(m[2]), string(m[3])})
	}
	if len(out) == 0 {
		return nil, fmt.Errorf("CliFlags.lean: no `flag=package.Field` entries found")
	}
	return out, nil
}

var c16Types = map[string]string{"css": "text/css", "html": "text/html", "js": "application/javascript", "json": "application/json", "svg": "image/svg+xml", "xml": "text/xml"}

var c16Seeds = map[string][]string{
	"html": {`<!DOCTYPE html><html><head><title>T</title><!-- c --><script type="text/javascript">var a = 1;</script></head><body><p class="x">Hello <b>w</b>  <i>z</i> </p><ul><li>a</li><li>b</li></ul><form method="get"><input type="text" value=""></form><!--[if IE]> x <![endif]--><table><tr><td>1</td></tr></table></body></html>`,
		`<div> <span> a </span> <span>b</span> </div> <p>x</p>`},
	"css":  {`a{margin:10.0px 1000000px;color:transparent;background-color:transparent;width:1e3px;height:0.00001em;opacity:.50;top:100000%}`},
	"js":   {"function f(alpha,beta){try{g()}catch(e){h()}var s='a\\nb\\nc';return alpha==null?beta:alpha}var k=Math.pow(f(1,2),2);", "let q=a?.b??c;let r=x**2;let t=`x${q}`;try{}catch{}",
		"x=a==null?undefined:a.b;y=b==null?void 0:b.c();z=c==null?undefined:c[0];w=d===null||d===undefined?undefined:d.e"},
	"json": {`{"a":[1.0e2,0.50,-0.0,1E+2,100000],"b":{"c":1.10}}`},
	"svg":  {`<svg xmlns="http://www.w3.org/2000/svg"><!-- c1 --><g><!-- c2 --><path d="M 10 10 L 20.50 20"/></g></svg>`},
	"xml":  {`<a> <b> x </b> <c>y</c> z </a>`, `<r><e> </e> t <f/> </r>`, `<p>line one <br/> line two</p>`, `<p>a <i>b</i> <![CDATA[c]]> d <!-- e --> f <g/> h</p>`},
}

func c16Lib(kind string, o any, doc []byte) ([]byte, error) {
	m := minify.New()
	m.AddFunc("text/css", mincss.Minify)
	m.AddFunc("text/html", minhtml.Minify)
	m.AddFunc("image/svg+xml", minsvg.Minify)
	m.AddFuncRegexp(regexp.MustCompile("^(application|text)/(x-)?(java|ecma|j|live)script(1\\.[0-5])?$|^module$"), minjs.Minify)
	m.AddFuncRegexp(regexp.MustCompile("[/+]json$"), minjson.Minify)
	m.AddFuncRegexp(regexp.MustCompile("[/+]xml$"), minxml.Minify)
	m.Add(c16Types[kind], o.(minify.Minifier))
	var out bytes.Buffer
	err := m.Minify(c16Types[kind], &out, bytes.NewReader(append([]byte(nil), doc...)))
	return out.Bytes(), err
}

func c16New(kind string) any {
	switch kind {
	case "css":
		return &mincss.Minifier{}
	case "html":
		return &minhtml.Minifier{}
	case "js":
		return &minjs.Minifier{}
	case "json":
		return &minjson.Minifier{}
	case "svg":
		return &minsvg.Minifier{}
	}
	return &minxml.Minifier{}
}

// ---------- oracles ----------

type c16HTMLFacts struct {
	comments  int
	endTags   map[string]int
	startTags map[string]int
	attrs     map[string]int // "tag name=value"
	unquoted  int
	skeleton  []string
}

func c16HTML(b []byte) c16HTMLFacts {
	f := c16HTMLFacts{endTags: map[string]int{}, startTags: map[string]int{}, attrs: map[string]int{}}
	z := xhtml.NewTokenizer(bytes.NewReader(b))
	raw := ""
	foreign := 0 // inside <svg>/<math>: that content belongs to another minifier, the HTML options do not apply
	for {
		tt := z.Next()
		if tt == xhtml.ErrorToken {
			break
		}
		var tagName string
		var moreAttr bool
		var rawTok []byte
		if tt == xhtml.StartTagToken || tt == xhtml.EndTagToken || tt == xhtml.SelfClosingTagToken {
			rawTok = append([]byte(nil), z.Raw()...)
			n, more := z.TagName() // may be called only once per token
			tagName, moreAttr = string(n), more
			if tagName == "svg" || tagName == "math" {
				if tt == xhtml.StartTagToken {
					foreign++
				} else if tt == xhtml.EndTagToken && foreign > 0 {
					foreign--
				}
				continue
			}
		}
		if foreign > 0 {
			continue
		}
		switch tt {
		case xhtml.CommentToken:
			if !bytes.HasPrefix(z.Raw(), []byte("<!--[if")) && !bytes.HasPrefix(z.Raw(), []byte("<!--#")) {
				f.comments++
			}
		case xhtml.EndTagToken:
			f.endTags[tagName]++
			f.skeleton = append(f.skeleton, "T")
			raw = ""
		case xhtml.StartTagToken, xhtml.SelfClosingTagToken:
			name, more := tagName, moreAttr
			f.startTags[name]++
			for more {
				var k, v []byte
				k, v, more = z.TagAttr()
				f.attrs[name+" "+string(k)+"="+string(v)]++
			}
			if regexp.MustCompile(`=[^"'\s>][^\s>]*`).Match(rawTok) {
				f.unquoted++
			}
			f.skeleton = append(f.skeleton, "T")
			if name == "script" || name == "style" || name == "textarea" || name == "pre" || name == "title" {
				raw = name
			}
		case xhtml.TextToken:
			if raw != "" {
				f.skeleton = append(f.skeleton, "R")
				continue
			}
			t := string(z.Text())
			fields := strings.Fields(t)
			if len(t) > 0 && strings.TrimLeft(t, " \t\r\n\f") != t {
				f.skeleton = append(f.skeleton, "_")
			}
			for i, w := range fields {
				if i > 0 {
					f.skeleton = append(f.skeleton, "_")
				}
				f.skeleton = append(f.skeleton, "w:"+w)
			}
			if len(fields) > 0 && strings.TrimRight(t, " \t\r\n\f") != t {
				f.skeleton = append(f.skeleton, "_")
			}
		}
	}
	return f
}

func c16JSONNumbers(b []byte) ([]string, bool) {
	d := json.NewDecoder(bytes.NewReader(b))
	d.UseNumber()
	var out []string
	for {
		t, err := d.Token()
		if err != nil {
			return out, err.Error() == "EOF"
		}
		if n, ok := t.(json.Number); ok {
			out = append(out, string(n))
		}
	}
}

type c16JSFacts struct {
	idents                                  map[string]bool
	exp, nullish, optchain, template, catch0 bool
}

func c16JS(b []byte) c16JSFacts {
	f := c16JSFacts{idents: map[string]bool{}}
	l := pjs.NewLexer(parse.NewInputBytes(append([]byte(nil), b...)))
	prevCatch := false
	for {
		tt, data := l.Next()
		if tt == pjs.ErrorToken {
			break
		}
		if tt == pjs.WhitespaceToken || tt == pjs.LineTerminatorToken || tt == pjs.CommentToken || tt == pjs.CommentLineTerminatorToken {
			continue
		}
		switch tt {
		case pjs.IdentifierToken:
			f.idents[string(data)] = true
		case pjs.ExpToken, pjs.ExpEqToken:
			f.exp = true
		case pjs.NullishToken, pjs.NullishEqToken:
			f.nullish = true
		case pjs.OptChainToken:
			f.optchain = true
		case pjs.TemplateToken, pjs.TemplateStartToken:
			f.template = true
		case pjs.OpenBraceToken:
			if prevCatch {
				f.catch0 = true
			}
		}
		prevCatch = tt == pjs.CatchToken
	}
	return f
}

var c16ExpRe = regexp.MustCompile(`[0-9.][eE][+-]?[0-9]`)

func init() {
	register("C16", func(c *Ctx) error {
		flags, err := c16Flags()
		if err != nil {
			return err
		}
		// ---- stage cli-flags ----
		st := c.R.StartStage("cli-flags", "every CLI flag of the regenerated flag table through the built cmd/minify binary (stdin, --type) vs the library with the option field named in the table set by reflection (bool flags: on; numeric flags: several values); non-trivial = the flag changes the output for the seed document")
		dir, err := os.MkdirTemp("", "verif-c16-")
		if err != nil {
			return err
		}
		defer os.RemoveAll(dir)
		exe := filepath.Join(dir, "minify")
		build := exec.Command("go", "build", "-o", exe, "./cmd/minify")
		build.Dir = c.Repo
		if out, err := build.CombinedOutput(); err != nil {
			return fmt.Errorf("building cmd/minify: %v\n%s", err, out)
		}
		for _, fl := range flags {
			flag, kind, field := fl[0], fl[1], fl[2]
			for _, doc := range c16Seeds[kind] {
				o := c16New(kind)
				fv := reflect.ValueOf(o).Elem().FieldByName(field)
				if !fv.IsValid() {
					c.R.Add(h.Finding{Stage: st.Name, Kind: "fail", What: "CLI flag --" + flag + " is bound to a field that does not exist: " + kind + "." + field})
					continue
				}
				var vals []string
				if fv.Kind() == reflect.Bool {
					vals = []string{""}
				} else if strings.HasSuffix(flag, "version") {
					vals = []string{"5", "2015", "2019", "2020", "2022"}
				} else {
					vals = []string{"1", "3", "6"}
				}
				base, _ := c16Lib(kind, c16New(kind), []byte(doc))
				for _, v := range vals {
					arg := "--" + flag
					if v == "" {
						fv.SetBool(true)
					} else {
						n, _ := strconv.Atoi(v)
						fv.SetInt(int64(n))
						arg += "=" + v
					}
					want, lerr := c16Lib(kind, o, []byte(doc))
					cmd := exec.Command(exe, "--type="+kind, arg)
					cmd.Stdin = strings.NewReader(doc)
					var stdout, stderr bytes.Buffer
					cmd.Stdout, cmd.Stderr = &stdout, &stderr
					cerr := cmd.Run()
					key := fmt.Sprintf("minify --type=%s %s < %q", kind, arg, doc)
					st.Count(key, !bytes.Equal(want, base))
					if (cerr != nil) != (lerr != nil) || (lerr == nil && !bytes.Equal(stdout.Bytes(), want)) {
						c.R.Add(h.Finding{Stage: st.Name, Kind: "fail", What: "CLI flag --" + flag + " does not have the effect of option " + kind + "." + field, Input: key, Impl: h.Q(stdout.Bytes()) + " " + stderr.String(), Model: h.Q(want)})
					}
				}
			}
		}
		st.End()

		// ---- stage honoured ----
		st = c.R.StartStage("honoured", "seed and corpus documents x option sets (full boolean product for json/xml/svg/css, sampled for html/js) x ECMAScript versions {0,5,2015,2016,2019,2020,2022} x precisions: kept constructs appear in the output as in the input (comments, end tags, document tags, quotes, default attribute values, whitespace skeleton, number lexemes, identifiers, no exponent with KeepCSS2, no syntax newer than the target version unless the input used it); non-trivial = at least one Keep*/Version option set")
		docs := map[string][][]byte{}
		for k, ss := range c16Seeds {
			for _, s := range ss {
				docs[k] = append(docs[k], []byte(s))
			}
		}
		for _, d := range c09Docs(c.Repo, c.N(40000, 400000)) {
			for k, mt := range c16Types {
				if d.mt == mt {
					docs[k] = append(docs[k], d.data)
				}
			}
		}
		kinds := []string{"css", "html", "js", "json", "svg", "xml"}
		n := c.N(900, 30000)
		for it := 0; it < n; it++ {
			r := c.Rng.Fork()
			kind := kinds[r.Intn(len(kinds))]
			doc := docs[kind][r.Intn(len(docs[kind]))]
			o := c16New(kind)
			ov := reflect.ValueOf(o).Elem()
			var cfg []string
			for i := 0; i < ov.NumField(); i++ {
				fld := ov.Type().Field(i)
				if !fld.IsExported() || fld.Name == "Inline" || fld.Name == "TemplateDelims" || fld.Name == "KeepConditionalComments" {
					continue
				}
				switch ov.Field(i).Kind() {
				case reflect.Bool:
					if r.Bool() {
						ov.Field(i).SetBool(true)
						cfg = append(cfg, fld.Name)
					}
				case reflect.Int:
					if fld.Name == "Version" {
						v := []int{0, 5, 2015, 2016, 2019, 2020, 2022}[r.Intn(7)]
						ov.Field(i).SetInt(int64(v))
						cfg = append(cfg, fmt.Sprintf("Version=%d", v))
					} else if r.Chance(25) {
						p := 1 + r.Intn(17)
						ov.Field(i).SetInt(int64(p))
						cfg = append(cfg, fmt.Sprintf("%s=%d", fld.Name, p))
					}
				}
			}
			sort.Strings(cfg)
			cfgS := strings.Join(cfg, ",")
			var out []byte
			var merr error
			if crash := h.Safely(60*time.Second, func() { out, merr = c16Lib(kind, o, doc) }); crash != "" {
				c.R.Add(h.Finding{Stage: st.Name, Kind: "crash", What: crash, Input: h.Q(trunc(doc, 300)), Config: kind + " " + cfgS})
				continue
			}
			key := fmt.Sprintf("%s {%s} %s", kind, cfgS, h.Q(trunc(doc, 100)))
			st.Count(key, len(cfg) > 0)
			st.Tag(kind)
			if merr != nil {
				continue
			}
			has := func(name string) bool {
				for _, x := range cfg {
					if x == name {
						return true
					}
				}
				return false
			}
			fail := func(what, detail string) {
				c.R.Add(h.Finding{Stage: st.Name, Kind: "fail", What: what, Input: h.Q(trunc(doc, 400)), Hex: h.Hex(trunc(doc, 100000)), Config: kind + " {" + cfgS + "}", Impl: h.Q(trunc(out, 400)) + " " + detail})
			}
			switch kind {
			case "json":
				if has("KeepNumbers") {
					a, ok := c16JSONNumbers(doc)
					b, _ := c16JSONNumbers(out)
					if ok && strings.Join(a, " ") != strings.Join(b, " ") {
						fail("KeepNumbers: number lexemes changed", "")
					}
				}
			case "xml":
				if has("KeepWhitespace") {
					if d := c16XMLSpaces(doc, out); d != "" {
						fail("xml KeepWhitespace: a space next to a tag was removed entirely", d)
					}
				}
			case "svg":
				if has("KeepComments") && bytes.Count(doc, []byte("<!--")) != bytes.Count(out, []byte("<!--")) {
					fail("svg KeepComments: comments removed", "")
				}
			case "css":
				if has("KeepCSS2") {
					if !c16ExpRe.Match(doc) && c16ExpRe.Match(out) {
						fail("css KeepCSS2: exponent notation introduced", "")
					}
					if bytes.Count(out, []byte("initial")) > bytes.Count(doc, []byte("initial")) {
						fail("css KeepCSS2: `initial` introduced", "")
					}
				}
			case "js":
				in, o2 := c16JS(doc), c16JS(out)
				if has("KeepVarNames") {
					for id := range o2.idents {
						if !in.idents[id] {
							fail("js KeepVarNames: identifier `"+id+"` does not occur in the input", "")
							break
						}
					}
				}
				ver := 0
				for _, x := range cfg {
					if strings.HasPrefix(x, "Version=") {
						ver, _ = strconv.Atoi(x[8:])
					}
				}
				if ver != 0 {
					for _, ft := range []struct {
						name      string
						since     int
						in, outHas bool
					}{{"template literal", 2015, in.template, o2.template}, {"**", 2016, in.exp, o2.exp}, {"optional catch binding", 2019, in.catch0, o2.catch0}, {"??", 2020, in.nullish, o2.nullish}, {"?.", 2020, in.optchain, o2.optchain}} {
						if ft.outHas && !ft.in && ver < ft.since {
							fail(fmt.Sprintf("js Version=%d: output uses %s (ES%d) although the input does not", ver, ft.name, ft.since), "")
						}
					}
				}
			case "html":
				in, o2 := c16HTML(doc), c16HTML(out)
				if has("KeepComments") && in.comments != o2.comments {
					fail("html KeepComments: comments removed", fmt.Sprintf("%d vs %d", in.comments, o2.comments))
				}
				if has("KeepEndTags") {
					for name, k := range in.endTags {
						if name == "html" || name == "head" || name == "body" || name == "colgroup" {
							continue
						}
						if o2.endTags[name] < k && in.startTags[name] >= k {
							fail("html KeepEndTags: end tag </"+name+"> removed", fmt.Sprintf("%d vs %d", k, o2.endTags[name]))
							break
						}
					}
				}
				if has("KeepDocumentTags") {
					for _, name := range []string{"html", "head", "body"} {
						if o2.startTags[name] < in.startTags[name] {
							fail("html KeepDocumentTags: <"+name+"> removed", "")
						}
					}
				}
				if has("KeepQuotes") && in.unquoted == 0 && o2.unquoted > 0 {
					fail("html KeepQuotes: quotes removed from an attribute value", "")
				}
				if has("KeepDefaultAttrVals") {
					for _, a := range []string{"script type=text/javascript", "form method=get", "input type=text", "style type=text/css", "link type=text/css", "button type=submit"} {
						if in.attrs[a] > o2.attrs[a] {
							fail("html KeepDefaultAttrVals: default attribute `"+a+"` removed", "")
						}
					}
				}
			}
		}
		st.End()
		return nil
	})
}

var c16TagRe = regexp.MustCompile(`<!--[\s\S]*?-->|<!\[CDATA\[[\s\S]*?\]\]>|<[^>]*>`)

// c16XMLSpaces compares the text segments between tags of input and output (only when both have the same number of
// segments and no comments/CDATA are involved): a segment that starts (ends) with white space next to a tag and has other
// content must still start (end) with white space.
func c16XMLSpaces(in, out []byte) string {
	if bytes.Contains(in, []byte("<!--")) || bytes.Contains(in, []byte("<![CDATA[")) || bytes.Contains(in, []byte("<?")) || bytes.Contains(in, []byte("<!")) {
		return ""
	}
	a := c16TagRe.Split(string(in), -1)
	b := c16TagRe.Split(string(out), -1)
	ta := c16TagRe.FindAllString(string(in), -1)
	if len(a) != len(b) || len(ta) == 0 {
		return ""
	}
	isWS := func(c byte) bool { return c == ' ' || c == '\t' || c == '\n' || c == '\r' }
	for i := range a {
		x, y := a[i], b[i]
		if strings.TrimSpace(x) == "" {
			continue
		}
		if i > 0 && isWS(x[0]) && (len(y) == 0 || !isWS(y[0])) {
			return fmt.Sprintf("text %q became %q (leading space after %s lost)", x, y, ta[i-1])
		}
		if i < len(ta) && isWS(x[len(x)-1]) && (len(y) == 0 || !isWS(y[len(y)-1])) {
			return fmt.Sprintf("text %q became %q (trailing space before %s lost)", x, y, ta[i])
		}
	}
	return ""
}

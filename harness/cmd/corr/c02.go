package main

// C02 — JS identifier shortening is capture-free and leaves public names alone.
//
// (i)  correspondence: every `renameScope` call of the real minifier (hook, build tag verif) is replayed on the
//      Lean model `Model.Rename.renameScope`; the per-call property is evaluated on the implementation's names by
//      `spec.c02.fresh`; the scope trees of the dependency parser are checked against `Spec.Scope.wfForest`.
// (ii) the property itself on the real OUTPUT TEXT, independent of model and hook:
//      static  — output(KeepVarNames) and output(renamed) are re-parsed and walked in parallel with a scope
//                resolver written here (ECMAScript scoping by NAME, no use of the parser's scope analysis):
//                α-equivalence, free names / property names / labels identical;
//      dynamic — input, keep-output and renamed outputs run in node `vm` contexts with a recording global.

import (
	"bytes"
	"encoding/json"
	"fmt"
	"os"
	"os/exec"
	"path/filepath"
	"reflect"
	"sort"
	"strconv"
	"strings"
	"time"
	"unsafe"

	"github.com/tdewolff/minify/v2/js"
	"github.com/tdewolff/parse/v2"
	pjs "github.com/tdewolff/parse/v2/js"

	"verifharness/h"
)

// ---------------------------------------------------------------- running the real minifier

var c02Events []js.VerifRenameEvent

type c02Run struct {
	out    string
	err    error
	crash  string
	events []js.VerifRenameEvent
}

func c02Minify(src string, keep, alpha bool) c02Run {
	var r c02Run
	c02Events = nil
	js.VerifRenameHook = func(ev js.VerifRenameEvent) { c02Events = append(c02Events, ev) }
	r.crash = h.Safely(60*time.Second, func() {
		o := &js.Minifier{KeepVarNames: keep}
		if alpha {
			f := reflect.ValueOf(o).Elem().FieldByName("useAlphabetVarNames")
			reflect.NewAt(f.Type(), unsafe.Pointer(f.UnsafeAddr())).Elem().SetBool(true)
		}
		var w bytes.Buffer
		r.err = o.Minify(nil, &w, strings.NewReader(src), nil)
		r.out = w.String()
	})
	r.events = c02Events
	c02Events = nil
	js.VerifRenameHook = nil
	return r
}

func c02Ints(xs []int) string {
	s := make([]string, len(xs))
	for i, x := range xs {
		s[i] = strconv.Itoa(x)
	}
	return h.ListS(s)
}

func c02EventLine(ev js.VerifRenameEvent) (string, int) {
	cfg := 0
	if strings.HasPrefix(ev.Alphabet, "abc") {
		cfg = 1
	}
	return fmt.Sprintf("model.c02.renameScope %s %s %s %s %s %s %s", h.Int(int64(cfg)), h.Bool(ev.Rename), h.Int(int64(ev.NumFuncArgs)),
		h.ListS(ev.Before), c02Ints(ev.Uses), h.ListS(ev.Undeclared), c02Ints(ev.Order)), cfg
}

// ---------------------------------------------------------------- scope trees of the dependency parser

type c02Scope struct {
	depth                   int
	rename, isFunc, hasWith bool
	decl, und, refs         []int
	fn                      *c02Scope       // enclosing function scope (or itself)
	varNames                map[string]bool // function scopes: names declared with `var`
	nVarDecls               int
}

type c02TreeB struct {
	ids         map[*pjs.Var]int
	names       []string
	scopes      []*c02Scope
	keep        bool
	hoistShadow bool // K-C02-5: a block scope declares lexically a name that the enclosing function declares with `var` (and the function has >= 2 var statements)
}

func (b *c02TreeB) id(v *pjs.Var) int {
	for v.Link != nil {
		v = v.Link
	}
	if i, ok := b.ids[v]; ok {
		return i
	}
	i := len(b.names)
	b.ids[v] = i
	b.names = append(b.names, string(v.Data))
	return i
}

func (b *c02TreeB) open(s *pjs.Scope, parent *c02Scope, rename, isFunc bool) *c02Scope {
	depth := 0
	if parent != nil {
		depth = parent.depth + 1
	}
	sc := &c02Scope{depth: depth, rename: rename, isFunc: isFunc, hasWith: s.HasWith}
	if isFunc || parent == nil {
		sc.fn = sc
		sc.varNames = map[string]bool{}
		sc.nVarDecls = len(s.VarDecls)
		for _, v := range s.Declared {
			if v.Decl == pjs.VariableDecl {
				sc.varNames[string(v.Data)] = true
			}
		}
	} else {
		sc.fn = parent.fn
		for _, v := range s.Declared {
			if sc.fn.nVarDecls >= 2 && sc.fn.varNames[string(v.Data)] {
				b.hoistShadow = true
			}
		}
	}
	for _, v := range s.Declared {
		sc.decl = append(sc.decl, b.id(v))
	}
	for _, v := range s.Undeclared {
		sc.und = append(sc.und, b.id(v))
	}
	b.scopes = append(b.scopes, sc)
	return sc
}

var c02ScopeType = reflect.TypeOf(pjs.Scope{})

// walk visits an AST value generically; cur is the scope the value stands in, flag the current `renamer.rename`.
func (b *c02TreeB) walk(v reflect.Value, cur *c02Scope, flag bool) {
	switch v.Kind() {
	case reflect.Interface:
		if !v.IsNil() {
			b.walk(v.Elem(), cur, flag)
		}
	case reflect.Ptr:
		if v.IsNil() {
			return
		}
		switch n := v.Interface().(type) {
		case *pjs.Scope:
			return
		case *pjs.Var:
			cur.refs = append(cur.refs, b.id(n))
		case *pjs.BlockStmt:
			s := b.open(&n.Scope, cur, flag, false)
			b.walk(reflect.ValueOf(n.List), s, flag)
		case *pjs.FuncDecl:
			f := !n.Body.Scope.HasWith && !b.keep
			s := b.open(&n.Body.Scope, cur, f, true)
			if n.Name != nil {
				inner := false
				for _, d := range n.Body.Scope.Declared {
					if d == n.Name {
						inner = true
					}
				}
				if inner {
					s.refs = append(s.refs, b.id(n.Name))
				} else {
					cur.refs = append(cur.refs, b.id(n.Name))
				}
			}
			b.walk(reflect.ValueOf(n.Params), s, f)
			b.walk(reflect.ValueOf(n.Body.List), s, f)
		case *pjs.MethodDecl:
			f := !n.Body.Scope.HasWith && !b.keep
			b.walk(reflect.ValueOf(n.Name), cur, flag)
			s := b.open(&n.Body.Scope, cur, f, true)
			b.walk(reflect.ValueOf(n.Params), s, f)
			b.walk(reflect.ValueOf(n.Body.List), s, f)
		case *pjs.ArrowFunc:
			f := !n.Body.Scope.HasWith && !b.keep
			s := b.open(&n.Body.Scope, cur, f, true)
			b.walk(reflect.ValueOf(n.Params), s, f)
			b.walk(reflect.ValueOf(n.Body.List), s, f)
		case *pjs.ForStmt:
			s := b.open(&n.Body.Scope, cur, flag, false)
			b.walk(reflect.ValueOf(&n.Init).Elem(), s, flag)
			b.walk(reflect.ValueOf(&n.Cond).Elem(), s, flag)
			b.walk(reflect.ValueOf(&n.Post).Elem(), s, flag)
			b.walk(reflect.ValueOf(n.Body.List), s, flag)
		case *pjs.ForInStmt:
			s := b.open(&n.Body.Scope, cur, flag, false)
			b.walk(reflect.ValueOf(&n.Init).Elem(), s, flag)
			b.walk(reflect.ValueOf(&n.Value).Elem(), s, flag)
			b.walk(reflect.ValueOf(n.Body.List), s, flag)
		case *pjs.ForOfStmt:
			s := b.open(&n.Body.Scope, cur, flag, false)
			b.walk(reflect.ValueOf(&n.Init).Elem(), s, flag)
			b.walk(reflect.ValueOf(&n.Value).Elem(), s, flag)
			b.walk(reflect.ValueOf(n.Body.List), s, flag)
		case *pjs.SwitchStmt:
			b.walk(reflect.ValueOf(&n.Init).Elem(), cur, flag)
			s := b.open(&n.Scope, cur, flag, false)
			b.walk(reflect.ValueOf(n.List), s, flag)
		case *pjs.TryStmt:
			b.walk(reflect.ValueOf(n.Body), cur, flag)
			if n.Catch != nil {
				s := b.open(&n.Catch.Scope, cur, flag, false)
				b.walk(reflect.ValueOf(&n.Binding).Elem(), s, flag)
				b.walk(reflect.ValueOf(n.Catch.List), s, flag)
			}
			b.walk(reflect.ValueOf(n.Finally), cur, flag)
		case *pjs.ClassDecl:
			if n.Name != nil {
				cur.refs = append(cur.refs, b.id(n.Name))
			}
			b.walk(reflect.ValueOf(&n.Extends).Elem(), cur, flag)
			for i := range n.List {
				el := &n.List[i]
				if el.StaticBlock != nil { // renamed like a block since fix 1b16362
					s := b.open(&el.StaticBlock.Scope, cur, flag, false)
					b.walk(reflect.ValueOf(el.StaticBlock.List), s, flag)
				} else if el.Method != nil {
					b.walk(reflect.ValueOf(el.Method), cur, flag)
				} else {
					b.walk(reflect.ValueOf(el.Field), cur, flag)
				}
			}
		default:
			b.walk(v.Elem(), cur, flag)
		}
	case reflect.Struct:
		if v.Type() == c02ScopeType {
			return
		}
		for i := 0; i < v.NumField(); i++ {
			if v.Type().Field(i).PkgPath != "" {
				continue
			}
			b.walk(v.Field(i), cur, flag)
		}
	case reflect.Slice:
		if v.Type().Elem().Kind() == reflect.Uint8 {
			return
		}
		for i := 0; i < v.Len(); i++ {
			b.walk(v.Index(i), cur, flag)
		}
	}
}

type c02WithVisitor struct{ global *pjs.Scope }

func (v c02WithVisitor) Enter(n pjs.INode) pjs.IVisitor {
	var scope *pjs.Scope
	switch n := n.(type) {
	case *pjs.FuncDecl:
		scope = &n.Body.Scope
	case *pjs.MethodDecl:
		scope = &n.Body.Scope
	case *pjs.ArrowFunc:
		scope = &n.Body.Scope
	}
	if scope != nil && scope.HasWith {
		for s := scope.Parent; s != nil && !s.Func.HasWith; s = s.Func.Parent {
			s.Func.HasWith = true
			if s.Func.Parent == nil {
				v.global.HasWith = true
			}
		}
	}
	return v
}
func (v c02WithVisitor) Exit(n pjs.INode) {}

// c02Tree parses src with the dependency parser and returns the `spec.c02.tree` request.
func c02Tree(src string, keep bool, cfg int) (line string, nscopes, nvars int, hoistShadow bool, err error) {
	ast, perr := pjs.Parse(parse.NewInputString(src), pjs.Options{WhileToFor: true})
	if perr != nil {
		return "", 0, 0, false, perr
	}
	// as Minify does (withVisitor, fix f7bc618): every function scope and the global scope enclosing a function with
	// `with` count as HasWith; the scopes point to the global scope as it was before parse/v2 copied it into the AST
	pjs.Walk(c02WithVisitor{&ast.BlockStmt.Scope}, ast)
	b := &c02TreeB{ids: map[*pjs.Var]int{}, keep: keep}
	root := b.open(&ast.BlockStmt.Scope, nil, false, false)
	root.isFunc = true
	b.walk(reflect.ValueOf(ast.BlockStmt.List), root, !keep && !ast.BlockStmt.Scope.HasWith)
	gs := make([][][]byte, len(b.scopes))
	for i, s := range b.scopes {
		var items []string
		bi := func(x bool) string {
			if x {
				return "1"
			}
			return "0"
		}
		items = append(items, strconv.Itoa(s.depth), bi(s.rename), bi(s.isFunc), bi(s.hasWith), strconv.Itoa(len(s.decl)), strconv.Itoa(len(s.und)), strconv.Itoa(len(s.refs)))
		for _, l := range [][]int{s.decl, s.und, s.refs} {
			for _, x := range l {
				items = append(items, strconv.Itoa(x))
			}
		}
		g := make([][]byte, len(items))
		for j, it := range items {
			g[j] = []byte(it)
		}
		gs[i] = g
	}
	return "spec.c02.tree " + h.Int(int64(cfg)) + " " + h.Groups(gs) + " " + h.ListS(b.names), len(b.scopes), len(b.names), b.hoistShadow, nil
}

// ---------------------------------------------------------------- independent resolver: α-equivalence of two outputs

type c02Bind struct{ id int }

type c02RScope struct {
	parent *c02RScope
	m      map[string]*c02Bind
}

type c02Side struct {
	cur   *c02RScope
	nbind int
}

func (s *c02Side) push(names []string) {
	sc := &c02RScope{parent: s.cur, m: map[string]*c02Bind{}}
	for _, n := range names {
		if _, ok := sc.m[n]; !ok {
			s.nbind++
			sc.m[n] = &c02Bind{s.nbind}
		}
	}
	s.cur = sc
}
func (s *c02Side) pop() { s.cur = s.cur.parent }
func (s *c02Side) lookup(n string) *c02Bind {
	for sc := s.cur; sc != nil; sc = sc.parent {
		if b, ok := sc.m[n]; ok {
			return b
		}
	}
	return nil
}

func c02VarName(v *pjs.Var) string { return string(v.Name()) }

func c02BindingNames(b pjs.IBinding, out *[]string) {
	switch x := b.(type) {
	case *pjs.Var:
		if x != nil {
			*out = append(*out, c02VarName(x))
		}
	case *pjs.BindingArray:
		for _, it := range x.List {
			if it.Binding != nil {
				c02BindingNames(it.Binding, out)
			}
		}
		if x.Rest != nil {
			c02BindingNames(x.Rest, out)
		}
	case *pjs.BindingObject:
		for _, it := range x.List {
			if it.Value.Binding != nil {
				c02BindingNames(it.Value.Binding, out)
			}
		}
		if x.Rest != nil {
			*out = append(*out, c02VarName(x.Rest))
		}
	}
}

// c02VarDeep collects the names declared by `var` anywhere below v, not entering functions or classes.
func c02VarDeep(v reflect.Value, out *[]string) {
	switch v.Kind() {
	case reflect.Interface:
		if !v.IsNil() {
			c02VarDeep(v.Elem(), out)
		}
	case reflect.Ptr:
		if v.IsNil() {
			return
		}
		switch n := v.Interface().(type) {
		case *pjs.Scope, *pjs.Var, *pjs.FuncDecl, *pjs.ArrowFunc, *pjs.MethodDecl, *pjs.ClassDecl:
			return
		case *pjs.VarDecl:
			if n.TokenType == pjs.VarToken {
				for _, it := range n.List {
					c02BindingNames(it.Binding, out)
				}
			}
			c02VarDeep(v.Elem(), out) // initialisers may contain nothing var-like except nested functions (skipped)
		default:
			c02VarDeep(v.Elem(), out)
		}
	case reflect.Struct:
		if v.Type() == c02ScopeType {
			return
		}
		for i := 0; i < v.NumField(); i++ {
			if v.Type().Field(i).PkgPath == "" {
				c02VarDeep(v.Field(i), out)
			}
		}
	case reflect.Slice:
		if v.Type().Elem().Kind() != reflect.Uint8 {
			for i := 0; i < v.Len(); i++ {
				c02VarDeep(v.Index(i), out)
			}
		}
	}
}

// c02Lexical: let/const/class/function declarations standing directly in a statement list.
func c02Lexical(list []pjs.IStmt, out *[]string) {
	for _, st := range list {
		switch n := st.(type) {
		case *pjs.VarDecl:
			if n.TokenType != pjs.VarToken {
				for _, it := range n.List {
					c02BindingNames(it.Binding, out)
				}
			}
		case *pjs.ClassDecl:
			if n.Name != nil {
				*out = append(*out, c02VarName(n.Name))
			}
		case *pjs.FuncDecl:
			if n.Name != nil {
				*out = append(*out, c02VarName(n.Name))
			}
		}
	}
}

// a function has two nested scopes: the parameters, and inside it the body (var, function and lexical
// declarations); parameter initialisers are resolved in the parameter scope only.
func c02ParamNames(params pjs.Params) []string {
	var names []string
	for _, p := range params.List {
		if p.Binding != nil {
			c02BindingNames(p.Binding, &names)
		}
	}
	if params.Rest != nil {
		c02BindingNames(params.Rest, &names)
	}
	return names
}

func c02BodyNames(body *pjs.BlockStmt) []string {
	var names []string
	c02VarDeep(reflect.ValueOf(body.List), &names)
	c02Lexical(body.List, &names)
	return names
}

type c02Alpha struct {
	a, b       c02Side
	structural string // first structural difference (outputs not aligned): the check does not apply
	fail       string // first violation of α-equivalence
	ab         map[*c02Bind]*c02Bind
	ba         map[*c02Bind]*c02Bind
	pairs      int
	bound      int
	bare       [][2][]*c02Bind
}

var c02IStmt = reflect.TypeOf((*pjs.IStmt)(nil)).Elem()

func (w *c02Alpha) mismatch(format string, a ...any) {
	if w.structural == "" {
		w.structural = fmt.Sprintf(format, a...)
	}
}

func (w *c02Alpha) pair(x, y *pjs.Var) {
	w.pairs++
	nx, ny := c02VarName(x), c02VarName(y)
	bx, by := w.a.lookup(nx), w.b.lookup(ny)
	if w.fail != "" {
		return
	}
	switch {
	case bx == nil && by == nil:
		if nx != ny {
			w.fail = fmt.Sprintf("free name %q became %q", nx, ny)
		}
	case bx == nil:
		w.fail = fmt.Sprintf("free name %q is captured by a declaration (%q)", nx, ny)
	case by == nil:
		w.fail = fmt.Sprintf("bound name %q became the free name %q", nx, ny)
	default:
		w.bound++
		if m, ok := w.ab[bx]; ok && m != by {
			w.fail = fmt.Sprintf("occurrence of %q (%q) resolves to a different declaration", nx, ny)
		} else if m, ok := w.ba[by]; ok && m != bx {
			w.fail = fmt.Sprintf("occurrences of different variables (%q) share the declaration %q", nx, ny)
		} else {
			w.ab[bx], w.ba[by] = by, bx
		}
	}
}

func (w *c02Alpha) pushBoth(na, nb []string) {
	if len(na) != len(nb) {
		w.mismatch("scopes declare %d and %d names", len(na), len(nb))
	}
	w.a.push(na)
	w.b.push(nb)
}
func (w *c02Alpha) popBoth() { w.a.pop(); w.b.pop() }

func (w *c02Alpha) fn(pa, pb pjs.Params, ba, bb *pjs.BlockStmt) {
	w.pushBoth(c02ParamNames(pa), c02ParamNames(pb))
	w.walk(reflect.ValueOf(pa), reflect.ValueOf(pb), false)
	w.pushBoth(c02BodyNames(ba), c02BodyNames(bb))
	w.walk(reflect.ValueOf(ba.List), reflect.ValueOf(bb.List), false)
	w.popBoth()
	w.popBoth()
}

func (w *c02Alpha) block(la, lb []pjs.IStmt) {
	var na, nb []string
	c02Lexical(la, &na)
	c02Lexical(lb, &nb)
	w.pushBoth(na, nb)
	w.walk(reflect.ValueOf(la), reflect.ValueOf(lb), false)
	w.popBoth()
}

func (w *c02Alpha) forScope(ia, ib pjs.IExpr) {
	var na, nb []string
	if d, ok := ia.(*pjs.VarDecl); ok && d.TokenType != pjs.VarToken {
		for _, it := range d.List {
			c02BindingNames(it.Binding, &na)
		}
	}
	if d, ok := ib.(*pjs.VarDecl); ok && d.TokenType != pjs.VarToken {
		for _, it := range d.List {
			c02BindingNames(it.Binding, &nb)
		}
	}
	w.pushBoth(na, nb)
}

func (w *c02Alpha) walk(x, y reflect.Value, asStmt bool) {
	if w.structural != "" {
		return
	}
	if x.Kind() != y.Kind() || x.Type() != y.Type() {
		w.mismatch("node types %v / %v", x.Type(), y.Type())
		return
	}
	switch x.Kind() {
	case reflect.Interface:
		if x.IsNil() != y.IsNil() {
			w.mismatch("optional part present on one side only (%v)", x.Type())
			return
		}
		if !x.IsNil() {
			if x.Elem().Type() != y.Elem().Type() {
				w.mismatch("node types %v / %v", x.Elem().Type(), y.Elem().Type())
				return
			}
			w.walk(x.Elem(), y.Elem(), x.Type() == c02IStmt)
		}
	case reflect.Ptr:
		if x.IsNil() != y.IsNil() {
			w.mismatch("optional part present on one side only (%v)", x.Type())
			return
		}
		if x.IsNil() {
			return
		}
		switch n := x.Interface().(type) {
		case *pjs.Scope:
			return
		case *pjs.Var:
			w.pair(n, y.Interface().(*pjs.Var))
		case *pjs.BlockStmt:
			w.block(n.List, y.Interface().(*pjs.BlockStmt).List)
		case *pjs.FuncDecl:
			m := y.Interface().(*pjs.FuncDecl)
			if n.Async != m.Async || n.Generator != m.Generator || (n.Name == nil) != (m.Name == nil) {
				w.mismatch("function heads differ")
				return
			}
			named := !asStmt && n.Name != nil
			if named { // function expression: the name is visible inside only
				w.pushBoth([]string{c02VarName(n.Name)}, []string{c02VarName(m.Name)})
			}
			if n.Name != nil {
				w.pair(n.Name, m.Name)
			}
			w.fn(n.Params, m.Params, &n.Body, &m.Body)
			if named {
				w.popBoth()
			}
		case *pjs.ArrowFunc:
			m := y.Interface().(*pjs.ArrowFunc)
			if n.Async != m.Async {
				w.mismatch("arrow heads differ")
				return
			}
			w.fn(n.Params, m.Params, &n.Body, &m.Body)
		case *pjs.MethodDecl:
			m := y.Interface().(*pjs.MethodDecl)
			if n.Static != m.Static || n.Async != m.Async || n.Generator != m.Generator || n.Get != m.Get || n.Set != m.Set {
				w.mismatch("method heads differ")
				return
			}
			w.walk(reflect.ValueOf(n.Name), reflect.ValueOf(m.Name), false)
			w.fn(n.Params, m.Params, &n.Body, &m.Body)
		case *pjs.ForStmt:
			m := y.Interface().(*pjs.ForStmt)
			w.forScope(n.Init, m.Init)
			w.walk(reflect.ValueOf(&n.Init).Elem(), reflect.ValueOf(&m.Init).Elem(), false)
			w.walk(reflect.ValueOf(&n.Cond).Elem(), reflect.ValueOf(&m.Cond).Elem(), false)
			w.walk(reflect.ValueOf(&n.Post).Elem(), reflect.ValueOf(&m.Post).Elem(), false)
			w.walk(reflect.ValueOf(n.Body), reflect.ValueOf(m.Body), true)
			w.popBoth()
		case *pjs.ForInStmt:
			m := y.Interface().(*pjs.ForInStmt)
			w.forScope(n.Init, m.Init)
			w.walk(reflect.ValueOf(&n.Init).Elem(), reflect.ValueOf(&m.Init).Elem(), false)
			w.walk(reflect.ValueOf(&n.Value).Elem(), reflect.ValueOf(&m.Value).Elem(), false)
			w.walk(reflect.ValueOf(n.Body), reflect.ValueOf(m.Body), true)
			w.popBoth()
		case *pjs.ForOfStmt:
			m := y.Interface().(*pjs.ForOfStmt)
			if n.Await != m.Await {
				w.mismatch("for-of heads differ")
				return
			}
			w.forScope(n.Init, m.Init)
			w.walk(reflect.ValueOf(&n.Init).Elem(), reflect.ValueOf(&m.Init).Elem(), false)
			w.walk(reflect.ValueOf(&n.Value).Elem(), reflect.ValueOf(&m.Value).Elem(), false)
			w.walk(reflect.ValueOf(n.Body), reflect.ValueOf(m.Body), true)
			w.popBoth()
		case *pjs.SwitchStmt:
			m := y.Interface().(*pjs.SwitchStmt)
			w.walk(reflect.ValueOf(&n.Init).Elem(), reflect.ValueOf(&m.Init).Elem(), false)
			var na, nb []string
			for _, c := range n.List {
				c02Lexical(c.List, &na)
			}
			for _, c := range m.List {
				c02Lexical(c.List, &nb)
			}
			w.pushBoth(na, nb)
			w.walk(reflect.ValueOf(n.List), reflect.ValueOf(m.List), false)
			w.popBoth()
		case *pjs.TryStmt:
			m := y.Interface().(*pjs.TryStmt)
			w.walk(reflect.ValueOf(n.Body), reflect.ValueOf(m.Body), true)
			if (n.Catch == nil) != (m.Catch == nil) || (n.Binding == nil) != (m.Binding == nil) {
				w.mismatch("catch clauses differ")
				return
			}
			if n.Catch != nil {
				var na, nb []string
				if n.Binding != nil {
					c02BindingNames(n.Binding, &na)
					c02BindingNames(m.Binding, &nb)
				}
				w.pushBoth(na, nb)
				w.walk(reflect.ValueOf(&n.Binding).Elem(), reflect.ValueOf(&m.Binding).Elem(), false)
				w.walk(reflect.ValueOf(n.Catch), reflect.ValueOf(m.Catch), true)
				w.popBoth()
			}
			w.walk(reflect.ValueOf(n.Finally), reflect.ValueOf(m.Finally), true)
		case *pjs.ClassDecl:
			m := y.Interface().(*pjs.ClassDecl)
			if (n.Name == nil) != (m.Name == nil) {
				w.mismatch("class heads differ")
				return
			}
			named := !asStmt && n.Name != nil
			if named {
				w.pushBoth([]string{c02VarName(n.Name)}, []string{c02VarName(m.Name)})
			}
			w.walk(x.Elem(), y.Elem(), false)
			if named {
				w.popBoth()
			}
		case *pjs.VarDecl:
			m := y.Interface().(*pjs.VarDecl)
			if n.TokenType != m.TokenType {
				w.mismatch("declaration kinds differ")
				return
			}
			if n.TokenType != pjs.VarToken {
				w.walk(x.Elem(), y.Elem(), false)
				return
			}
			// `var`: declarators without initialiser are ordered by NAME by the printer — compare them as sets
			split := func(d *pjs.VarDecl, s *c02Side) (rest []pjs.BindingElement, bare []*c02Bind) {
				for _, it := range d.List {
					if v, ok := it.Binding.(*pjs.Var); ok && it.Default == nil {
						bare = append(bare, s.lookup(c02VarName(v)))
					} else {
						rest = append(rest, it)
					}
				}
				return
			}
			ra, bareA := split(n, &w.a)
			rb, bareB := split(m, &w.b)
			if len(bareA) != len(bareB) {
				w.mismatch("var statements differ in bare declarators")
				return
			}
			w.bare = append(w.bare, [2][]*c02Bind{bareA, bareB})
			w.walk(reflect.ValueOf(ra), reflect.ValueOf(rb), false)
		default:
			w.walk(x.Elem(), y.Elem(), false)
		}
	case reflect.Struct:
		if x.Type() == c02ScopeType {
			return
		}
		for i := 0; i < x.NumField(); i++ {
			if x.Type().Field(i).PkgPath == "" {
				w.walk(x.Field(i), y.Field(i), false)
			}
		}
	case reflect.Slice:
		if x.Type().Elem().Kind() == reflect.Uint8 {
			if !bytes.Equal(x.Bytes(), y.Bytes()) {
				w.mismatch("token %q / %q", x.Bytes(), y.Bytes())
			}
			return
		}
		if x.Len() != y.Len() {
			w.mismatch("list lengths %d / %d (%v)", x.Len(), y.Len(), x.Type())
			return
		}
		st := x.Type().Elem() == c02IStmt
		for i := 0; i < x.Len(); i++ {
			w.walk(x.Index(i), y.Index(i), st)
		}
	case reflect.Bool:
		if x.Bool() != y.Bool() {
			w.mismatch("flags differ")
		}
	case reflect.Int, reflect.Int8, reflect.Int16, reflect.Int32, reflect.Int64:
		if x.Int() != y.Int() {
			w.mismatch("token types differ")
		}
	case reflect.Uint, reflect.Uint8, reflect.Uint16, reflect.Uint32, reflect.Uint64:
		if x.Uint() != y.Uint() {
			w.mismatch("token types differ")
		}
	}
}

// c02AlphaEq compares two programs: "" = α-equivalent; structural != "" = not aligned (no verdict).
func c02AlphaEq(ka, rb string) (fail, structural string, pairs, bound int, err error) {
	a, e1 := pjs.Parse(parse.NewInputString(ka), pjs.Options{})
	if e1 != nil {
		return "", "", 0, 0, fmt.Errorf("keep-output does not parse: %v", e1)
	}
	b, e2 := pjs.Parse(parse.NewInputString(rb), pjs.Options{})
	if e2 != nil {
		return "", "", 0, 0, fmt.Errorf("renamed output does not parse: %v", e2)
	}
	w := &c02Alpha{ab: map[*c02Bind]*c02Bind{}, ba: map[*c02Bind]*c02Bind{}}
	var na, nb []string
	c02VarDeep(reflect.ValueOf(a.BlockStmt.List), &na)
	c02Lexical(a.BlockStmt.List, &na)
	c02VarDeep(reflect.ValueOf(b.BlockStmt.List), &nb)
	c02Lexical(b.BlockStmt.List, &nb)
	w.pushBoth(na, nb)
	w.walk(reflect.ValueOf(a.BlockStmt.List), reflect.ValueOf(b.BlockStmt.List), false)
	if w.structural == "" && w.fail == "" {
		// top-level declarations are public: their names must be identical
		sort.Strings(na)
		sort.Strings(nb)
		if strings.Join(na, ",") != strings.Join(nb, ",") {
			w.fail = fmt.Sprintf("top-level declarations %v became %v", na, nb)
		}
		for _, p := range w.bare {
			want := map[*c02Bind]bool{}
			for _, y := range p[1] {
				want[y] = true
			}
			for _, x := range p[0] {
				if m, ok := w.ab[x]; ok && !want[m] && w.fail == "" {
					w.fail = "a `var` statement declares different variables"
				}
			}
		}
	}
	return w.fail, w.structural, w.pairs, w.bound, nil
}

// c02Idents lists the identifier-like tokens (variables, property names, labels) of a program.
func c02Idents(src string) map[string]int {
	out := map[string]int{}
	l := pjs.NewLexer(parse.NewInputString(src))
	for {
		tt, data := l.Next()
		if tt == pjs.ErrorToken {
			break
		}
		if tt == pjs.IdentifierToken || pjs.IsIdentifierName(tt) {
			out[string(data)]++
		}
		if tt == pjs.DivToken || tt == pjs.DivEqToken {
			// no regular expressions in generated programs
		}
	}
	return out
}

// ---------------------------------------------------------------- node execution

const c02NodeRunner = `
const vm = require('vm'); const fs = require('fs');
const cases = JSON.parse(fs.readFileSync(process.argv[2], 'utf8'));
const globals = JSON.parse(fs.readFileSync(process.argv[3], 'utf8'));
let prelude = "Function.prototype.toString=function(){return 'fn'};var $$t=[];function $$s(v){if(typeof v==='function')return 'fn';if(v===undefined)return 'undef';" +
 "if(typeof v==='object'&&v!==null){try{return JSON.stringify(v,function(k,x){return typeof x==='function'?'fn':x})}catch(e){return 'obj'}}return String(v)}" +
 "function R(){var a=[];for(var i=0;i<arguments.length;i++)a.push($$s(arguments[i]));$$t.push(a.join(','));return arguments[arguments.length-1]}";
const out = [];
for (const c of cases) {
  const traces = [];
  for (const src of c.srcs) {
    const sandbox = {};
    globals.forEach((g, i) => { sandbox[g] = 9000 + i; });
    const ctx = vm.createContext(sandbox);
    let end = 'ok';
    try {
      vm.runInContext(prelude, ctx);
      vm.runInContext(src, ctx, {timeout: 3000});
    } catch (e) {
      end = '!' + ((e && e.constructor && e.constructor.name) || 'throw');
      if (e && e.code === 'ERR_SCRIPT_EXECUTION_TIMEOUT') end = '!timeout';
    }
    let t = '';
    try { t = vm.runInContext('$$t.join("|")', ctx); } catch (e) { t = '?'; }
    traces.push(t + '#' + end);
  }
  out.push({id: c.id, traces});
}
fs.writeFileSync(process.argv[4], JSON.stringify(out));
`

type c02NodeCase struct {
	ID   int      `json:"id"`
	Srcs []string `json:"srcs"`
}
type c02NodeOut struct {
	ID     int      `json:"id"`
	Traces []string `json:"traces"`
}

func c02Node(cases []c02NodeCase) (map[int][]string, error) {
	res := map[int][]string{}
	if len(cases) == 0 {
		return res, nil
	}
	dir, err := os.MkdirTemp("", "verif-c02-")
	if err != nil {
		return nil, err
	}
	defer os.RemoveAll(dir)
	script := filepath.Join(dir, "run.js")
	if err := os.WriteFile(script, []byte(c02NodeRunner), 0o644); err != nil {
		return nil, err
	}
	gb, _ := json.Marshal(c02Globals)
	os.WriteFile(filepath.Join(dir, "globals.json"), gb, 0o644)
	const chunk = 400
	for lo := 0; lo < len(cases); lo += chunk {
		hi := lo + chunk
		if hi > len(cases) {
			hi = len(cases)
		}
		cb, _ := json.Marshal(cases[lo:hi])
		in, outp := filepath.Join(dir, "in.json"), filepath.Join(dir, "out.json")
		os.WriteFile(in, cb, 0o644)
		cmd := exec.Command("/usr/bin/node", "--stack-size=4000", script, in, filepath.Join(dir, "globals.json"), outp)
		if o, err := cmd.CombinedOutput(); err != nil {
			return nil, fmt.Errorf("node: %v: %s", err, o)
		}
		ob, err := os.ReadFile(outp)
		if err != nil {
			return nil, err
		}
		var outs []c02NodeOut
		if err := json.Unmarshal(ob, &outs); err != nil {
			return nil, err
		}
		for _, o := range outs {
			res[o.ID] = o.Traces
		}
	}
	return res, nil
}

// ---------------------------------------------------------------- known findings: trigger predicates (syntactic, on the input AST)

// c02ElseFlatten: an if whose one branch ends in throw/return/break/continue and whose other branch is a block
// containing a lexical declaration (K-C02-1; the flattened declaration lands in the enclosing scope).
func c02ElseFlatten(v reflect.Value) bool {
	found := false
	var rec func(reflect.Value)
	isFlow := func(s pjs.IStmt) bool {
		for {
			b, ok := s.(*pjs.BlockStmt)
			if !ok || len(b.List) == 0 {
				break
			}
			s = b.List[len(b.List)-1]
		}
		switch s.(type) {
		case *pjs.ReturnStmt, *pjs.ThrowStmt, *pjs.BranchStmt:
			return true
		}
		return false
	}
	hasLex := func(s pjs.IStmt) bool {
		b, ok := s.(*pjs.BlockStmt)
		if !ok {
			return false
		}
		var n []string
		c02Lexical(b.List, &n)
		return len(n) > 0
	}
	rec = func(v reflect.Value) {
		if found {
			return
		}
		switch v.Kind() {
		case reflect.Interface:
			if !v.IsNil() {
				rec(v.Elem())
			}
		case reflect.Ptr:
			if v.IsNil() {
				return
			}
			switch n := v.Interface().(type) {
			case *pjs.Scope, *pjs.Var:
				return
			case *pjs.IfStmt:
				if n.Body != nil && n.Else != nil && ((isFlow(n.Body) && hasLex(n.Else)) || (isFlow(n.Else) && hasLex(n.Body))) {
					found = true
					return
				}
			}
			rec(v.Elem())
		case reflect.Struct:
			if v.Type() == c02ScopeType {
				return
			}
			for i := 0; i < v.NumField(); i++ {
				if v.Type().Field(i).PkgPath == "" {
					rec(v.Field(i))
				}
			}
		case reflect.Slice:
			if v.Type().Elem().Kind() != reflect.Uint8 {
				for i := 0; i < v.Len(); i++ {
					rec(v.Index(i))
				}
			}
		}
	}
	rec(v)
	return found
}

// c02ArgUseShadow: a name mentioned in a parameter initialiser of a function is declared in the body of that
// function (K-C02-6: the dependency's scope analysis may then resolve body references to the outer variable,
// or — with a rest parameter — the initialiser to the body variable).
func c02ArgUseShadow(v reflect.Value) bool {
	found := false
	var names func(reflect.Value, map[string]bool)
	names = func(v reflect.Value, out map[string]bool) {
		switch v.Kind() {
		case reflect.Interface:
			if !v.IsNil() {
				names(v.Elem(), out)
			}
		case reflect.Ptr:
			if v.IsNil() {
				return
			}
			switch n := v.Interface().(type) {
			case *pjs.Scope:
				return
			case *pjs.Var:
				out[c02VarName(n)] = true
				return
			}
			names(v.Elem(), out)
		case reflect.Struct:
			if v.Type() == c02ScopeType {
				return
			}
			for i := 0; i < v.NumField(); i++ {
				if v.Type().Field(i).PkgPath == "" {
					names(v.Field(i), out)
				}
			}
		case reflect.Slice:
			if v.Type().Elem().Kind() != reflect.Uint8 {
				for i := 0; i < v.Len(); i++ {
					names(v.Index(i), out)
				}
			}
		}
	}
	check := func(params pjs.Params, body *pjs.BlockStmt) {
		used := map[string]bool{}
		for _, p := range params.List {
			if p.Default != nil {
				names(reflect.ValueOf(&p.Default).Elem(), used)
			}
			// initialisers nested in patterns
			var inner func(pjs.IBinding)
			inner = func(b pjs.IBinding) {
				switch x := b.(type) {
				case *pjs.BindingArray:
					for _, it := range x.List {
						if it.Default != nil {
							names(reflect.ValueOf(&it.Default).Elem(), used)
						}
						if it.Binding != nil {
							inner(it.Binding)
						}
					}
				case *pjs.BindingObject:
					for _, it := range x.List {
						if it.Value.Default != nil {
							names(reflect.ValueOf(&it.Value.Default).Elem(), used)
						}
						if it.Value.Binding != nil {
							inner(it.Value.Binding)
						}
					}
				}
			}
			if p.Binding != nil {
				inner(p.Binding)
			}
		}
		for _, n := range c02BodyNames(body) {
			if used[n] {
				found = true
			}
		}
	}
	var rec func(reflect.Value)
	rec = func(v reflect.Value) {
		if found {
			return
		}
		switch v.Kind() {
		case reflect.Interface:
			if !v.IsNil() {
				rec(v.Elem())
			}
		case reflect.Ptr:
			if v.IsNil() {
				return
			}
			switch n := v.Interface().(type) {
			case *pjs.Scope, *pjs.Var:
				return
			case *pjs.FuncDecl:
				check(n.Params, &n.Body)
			case *pjs.ArrowFunc:
				check(n.Params, &n.Body)
			case *pjs.MethodDecl:
				check(n.Params, &n.Body)
			}
			rec(v.Elem())
		case reflect.Struct:
			if v.Type() == c02ScopeType {
				return
			}
			for i := 0; i < v.NumField(); i++ {
				if v.Type().Field(i).PkgPath == "" {
					rec(v.Field(i))
				}
			}
		case reflect.Slice:
			if v.Type().Elem().Kind() != reflect.Uint8 {
				for i := 0; i < v.Len(); i++ {
					rec(v.Index(i))
				}
			}
		}
	}
	rec(v)
	return found
}

// c02LetOnlyBlock: a block statement consisting only of let/const declarations in which an initialiser mentions a
// name the block declares (K-C02-7: optimizeStmt drops the declarations and keeps the initialisers).
func c02LetOnlyBlock(v reflect.Value) bool {
	found := false
	var mentions func(reflect.Value, map[string]bool)
	mentions = func(v reflect.Value, out map[string]bool) {
		switch v.Kind() {
		case reflect.Interface:
			if !v.IsNil() {
				mentions(v.Elem(), out)
			}
		case reflect.Ptr:
			if v.IsNil() {
				return
			}
			switch n := v.Interface().(type) {
			case *pjs.Scope:
				return
			case *pjs.Var:
				out[c02VarName(n)] = true
				return
			}
			mentions(v.Elem(), out)
		case reflect.Struct:
			if v.Type() == c02ScopeType {
				return
			}
			for i := 0; i < v.NumField(); i++ {
				if v.Type().Field(i).PkgPath == "" {
					mentions(v.Field(i), out)
				}
			}
		case reflect.Slice:
			if v.Type().Elem().Kind() != reflect.Uint8 {
				for i := 0; i < v.Len(); i++ {
					mentions(v.Index(i), out)
				}
			}
		}
	}
	var rec func(reflect.Value)
	rec = func(v reflect.Value) {
		if found {
			return
		}
		switch v.Kind() {
		case reflect.Interface:
			if !v.IsNil() {
				rec(v.Elem())
			}
		case reflect.Ptr:
			if v.IsNil() {
				return
			}
			switch n := v.Interface().(type) {
			case *pjs.Scope, *pjs.Var:
				return
			case *pjs.BlockStmt:
				only := len(n.List) > 0
				var declared []string
				used := map[string]bool{}
				for _, st := range n.List {
					d, ok := st.(*pjs.VarDecl)
					if !ok || d.TokenType == pjs.VarToken {
						only = false
						break
					}
					for _, it := range d.List {
						c02BindingNames(it.Binding, &declared)
						if it.Default != nil {
							mentions(reflect.ValueOf(&it.Default).Elem(), used)
						}
					}
				}
				if only {
					for _, d := range declared {
						if used[d] {
							found = true
						}
					}
				}
			}
			rec(v.Elem())
		case reflect.Struct:
			if v.Type() == c02ScopeType {
				return
			}
			for i := 0; i < v.NumField(); i++ {
				if v.Type().Field(i).PkgPath == "" {
					rec(v.Field(i))
				}
			}
		case reflect.Slice:
			if v.Type().Elem().Kind() != reflect.Uint8 {
				for i := 0; i < v.Len(); i++ {
					rec(v.Index(i))
				}
			}
		}
	}
	rec(v)
	return found
}

type c02Trig struct {
	letOnlyBlock bool // K-C02-7
	elseFlatten  bool // K-C02-1
	argUseShadow bool // K-C02-6
	topLevelWith bool // K-C02-4
	parseErr     error
}

func c02Triggers(src string) c02Trig {
	ast, err := pjs.Parse(parse.NewInputString(src), pjs.Options{WhileToFor: true})
	if err != nil {
		return c02Trig{parseErr: err}
	}
	return c02Trig{elseFlatten: c02ElseFlatten(reflect.ValueOf(ast.BlockStmt.List)), topLevelWith: ast.BlockStmt.Scope.HasWith,
		argUseShadow: c02ArgUseShadow(reflect.ValueOf(ast.BlockStmt.List)), letOnlyBlock: c02LetOnlyBlock(reflect.ValueOf(ast.BlockStmt.List))}
}

// ---------------------------------------------------------------- the runner

type c02Case struct {
	id     int
	src    string
	class  string
	feat   map[string]int
	keep   c02Run
	freq   c02Run
	alpha  c02Run
	trig   c02Trig
	flagsOk     bool
	treeOK      bool
	hoistShadow bool
}

func c02Key(src string) string {
	if len(src) > 260 {
		return src[:260] + "…"
	}
	return src
}

func init() {
	register("C02", func(c *Ctx) error {
		if c.Replay != "" {
			return c02Replay(c)
		}
		// h.NewRNG makes the streams of neighbouring seeds shifted copies of each other (state = seed*γ + k,
		// step = +γ); every random choice still derives from VERIF_SEED, through a finalising mix.
		{
			z := c.Seed*0x9E3779B97F4A7C15 + 0xC02C02C02
			z = (z ^ (z >> 30)) * 0xBF58476D1CE4E5B9
			z = (z ^ (z >> 27)) * 0x94D049BB133111EB
			c.Rng = &h.RNG{S: z ^ (z >> 31)}
		}
		nprog := c.N(2000, 30000)
		if v, err := strconv.Atoi(os.Getenv("C02_N")); err == nil { // debugging aid
			nprog = v
		}
		if c.Search {
			nprog *= 3
		}
		var cases []*c02Case
		add := func(src, class string, feat map[string]int) {
			cases = append(cases, &c02Case{id: len(cases), src: src, class: class, feat: feat})
		}
		// fixed corpus: regression inputs and hand-written shapes
		for _, s := range c02Corpus {
			add(s, "corpus", nil)
		}
		// scopes with many bindings: > 54 (two-character names), ~1300 (do, if, in, of, as), > 3510 (three characters)
		sizes := []int{60, 300, 1300, 3600}
		if c.Thorough() {
			sizes = append(sizes, 700, 2000, 3600, 5000, 30000)
		}
		for i, n := range sizes {
			add(c02BigScope(c.Rng.Fork(), n, i), fmt.Sprintf("big%d", n), nil)
		}
		for i := 0; i < nprog; i++ {
			r := c.Rng.Fork()
			opt := c02Opt{maxDepth: 2 + r.Intn(3), classes: r.Chance(60), topDecls: r.Chance(50), with: r.Chance(25), varsOK: r.Chance(70)}
			src, feat := c02Program(r, opt)
			add(src, "gen", feat)
		}
		// programs under the triggers of the known findings (kept apart from the main sample)
		for i := 0; i < c.N(40, 400); i++ {
			add(c02TriggerProgram(c.Rng.Fork(), i), "trigger", nil)
		}

		if err := c02RunAll(c, cases); err != nil {
			return err
		}
		c02KnownReplays(c)
		return nil
	})
}

func c02RunAll(c *Ctx, cases []*c02Case) error {
	// ---- run the real minifier
	stE := c.R.StartStage("renameScope-events", "every renameScope call of js.Minify on generated programs (nesting of function/arrow/method/class/block/for/switch/catch scopes, shadowing, closures over loop variables, parameters with defaults and patterns, scopes with 60…3600 bindings reaching `do`,`if`,`in`,`of`,`as` and three-character names, free globals named like generated names, labels, property names, shorthand properties, object patterns, `with`; KeepVarNames on/off; both alphabets) replayed on Model.Rename.renameScope and judged by spec.c02.fresh; non-trivial = renaming on and at least two declared variables")
	type evRef struct {
		ci   int
		ev   js.VerifRenameEvent
		cfg  int
		what string
	}
	var lines []string
	var refs []evRef
	var fresh []string
	var freshRefs []evRef
	for _, cs := range cases {
		cs.trig = c02Triggers(cs.src)
		if cs.trig.parseErr != nil {
			c.R.Note("generated program rejected by the parser: %v: %s", cs.trig.parseErr, c02Key(cs.src))
			continue
		}
		cs.keep = c02Minify(cs.src, true, false)
		cs.freq = c02Minify(cs.src, false, false)
		cs.alpha = c02Minify(cs.src, false, true)
		for k, run := range []*c02Run{&cs.keep, &cs.freq, &cs.alpha} {
			cfgName := []string{"KeepVarNames", "default", "useAlphabetVarNames"}[k]
			if run.crash != "" {
				c.R.Add(h.Finding{Stage: stE.Name, Kind: "crash", What: run.crash, Input: cs.src, Config: cfgName})
				continue
			}
			if run.err != nil {
				c.R.Add(h.Finding{Stage: stE.Name, Kind: "diff", What: "minifier error on a generated program: " + run.err.Error(), Input: cs.src, Config: cfgName})
				continue
			}
			for _, ev := range run.events {
				l, cfg := c02EventLine(ev)
				lines = append(lines, l)
				refs = append(refs, evRef{cs.id, ev, cfg, cfgName})
				if ev.Rename {
					fresh = append(fresh, "spec.c02.fresh "+h.Int(int64(cfg))+" "+h.ListS(ev.After)+" "+h.ListS(ev.Undeclared))
					freshRefs = append(freshRefs, evRef{cs.id, ev, cfg, cfgName})
				}
				if k == 0 && ev.Rename {
					c.R.Add(h.Finding{Stage: stE.Name, Kind: "fail", What: "renaming switched on although KeepVarNames is set", Input: cs.src, Config: cfgName})
				}
				if ev.HasWith && ev.Rename {
					c.R.Add(h.Finding{Stage: stE.Name, Kind: "fail", What: "scope marked HasWith handed to the renamer with renaming on", Input: cs.src, Config: cfgName})
				}
			}
		}
	}
	rep, err := h.Eval(lines)
	if err != nil {
		return err
	}
	ndiff := 0
	for i, rf := range refs {
		ev := rf.ev
		key := fmt.Sprintf("%s before=%v uses=%v args=%d undeclared=%v rename=%v", rf.what, c02Trunc(ev.Before), c02TruncI(ev.Uses), ev.NumFuncArgs, c02Trunc(ev.Undeclared), ev.Rename)
		stE.Count(key, ev.Rename && len(ev.Before) >= 2)
		stE.Tag(fmt.Sprintf("rename=%v", ev.Rename))
		stE.Tag("alphabet=" + []string{"freq", "alpha"}[rf.cfg])
		switch n := len(ev.Before); {
		case n == 0:
			stE.Tag("declared=0")
		case n <= 54:
			stE.Tag("declared<=54")
		case n <= 3510:
			stE.Tag("declared<=3510")
		default:
			stE.Tag("declared>3510")
		}
		b, ok, msg := h.DecodeReply(rep[i])
		if !ok {
			c.R.Add(h.Finding{Stage: stE.Name, Kind: "diff", What: "model error: " + msg, Input: cases[rf.ci].src, Config: key})
			continue
		}
		got := h.DecodeListReply(b)
		var want [][]byte
		want = append(want, []byte("1"))
		for j := range ev.After {
			want = append(want, []byte(strconv.Itoa(ev.Order[j])), []byte(ev.After[j]))
		}
		if !c15EqLists(got, want) {
			if ndiff++; ndiff > 8 { // leave room in the report for failing inputs
				continue
			}
			what := "model.c02.renameScope"
			if len(got) > 0 && string(got[0]) != "1" {
				what = "sort order reported by the hook is not a valid descending-by-uses permutation"
			}
			c.R.Add(h.Finding{Stage: stE.Name, Kind: "diff", What: what, Input: cases[rf.ci].src, Config: key, Impl: c02ShowPairs(want), Model: c02ShowPairs(got)})
		}
	}
	repF, err := h.Eval(fresh)
	if err != nil {
		return err
	}
	for i, rf := range freshRefs {
		b, ok, msg := h.DecodeReply(repF[i])
		if !ok {
			c.R.Add(h.Finding{Stage: stE.Name, Kind: "diff", What: "spec error: " + msg, Input: cases[rf.ci].src})
		} else if string(b) != "1" {
			c.R.Add(h.Finding{Stage: stE.Name, Kind: "fail", What: "names handed out by one renameScope call are not fresh: " + string(b), Input: cases[rf.ci].src, Config: rf.what,
				Impl: fmt.Sprintf("after=%v undeclared=%v", c02Trunc(rf.ev.After), c02Trunc(rf.ev.Undeclared))})
		}
	}
	stE.End()

	// ---- getName directly: model against names observed in the events of the big scopes is covered above;
	// ---- scope trees of the parser: contract + guards + the traversal model's own verdict
	stT := c.R.StartStage("scope-trees", "scope tree of every generated program as delivered by parse/v2/js (declared/undeclared by Var identity, occurrences per scope, rename flags as computed in js.go) checked against Spec.Scope.wfForest (contract of the scope analysis), inputOk, flagsOk; captureFreeB evaluated on the naming produced by Model.Rename.renameForest; non-trivial = at least 3 scopes and a shadowed or free name")
	var tl []string
	var tci []int
	for _, cs := range cases {
		if cs.trig.parseErr != nil || len(cs.src) > 200000 {
			continue
		}
		l, ns, _, hs, err := c02Tree(cs.src, false, 0)
		if err != nil {
			continue
		}
		cs.hoistShadow = hs
		tl = append(tl, l)
		tci = append(tci, cs.id)
		stT.Count(c02Key(cs.src), ns >= 3)
	}
	if d := os.Getenv("C02_DUMP"); d != "" { // debugging aid
		os.WriteFile(d, []byte(strings.Join(tl, "\n")+"\n"), 0o644)
	}
	repT, err := h.Eval(tl)
	if err != nil {
		return err
	}
	for i, ci := range tci {
		cs := cases[ci]
		b, ok, msg := h.DecodeReply(repT[i])
		if !ok {
			c.R.Add(h.Finding{Stage: stT.Name, Kind: "diff", What: "spec.c02.tree error: " + msg, Input: cs.src})
			continue
		}
		got := h.DecodeListReply(b)
		if len(got) < 4 {
			continue
		}
		wf, fl, in, cf := string(got[0]) == "1", string(got[1]) == "1", string(got[2]) == "1", string(got[3]) == "1"
		cs.flagsOk, cs.treeOK = fl, wf && in
		stT.Tag(fmt.Sprintf("wf=%v flagsOk=%v inputOk=%v modelCaptureFree=%v", wf, fl, in, cf))
		if !wf {
			c.R.Add(h.Finding{Stage: stT.Name, Kind: "diff", What: "scope tree of parse/v2/js violates the assumed contract wfForest (undeclared ⊉ free variables, or a variable declared twice / referenced across branches)", Input: cs.src})
		} else if !in && cs.class != "trigger" && cs.class != "corpus" {
			c.R.Add(h.Finding{Stage: stT.Name, Kind: "diff", What: "input names inconsistent with the parser's resolution in an un-renamed scope (inputOk false)", Input: cs.src})
		} else if !fl {
			c.R.Add(h.Finding{Stage: stT.Name, Kind: "diff", What: "rename flags as computed by js.go switch renaming off below a renamed scope (flagsOk false; flags_ok_js says this cannot happen)", Input: cs.src})
		} else if wf && fl && in && !cf {
			c.R.Add(h.Finding{Stage: stT.Name, Kind: "diff", What: "model traversal not capture-free although the hypotheses of capture_free_partial hold (theorem/driver mismatch)", Input: cs.src})
		}
	}
	stT.End()

	// ---- the property on the output text
	stP := c.R.StartStage("output-alpha-and-trace", "the property on the real output: (a) keep-output and renamed outputs (both alphabets) re-parsed and compared by an independent scope resolver (α-equivalence: same binding structure, free names / property names / labels / top-level names identical), (b) identifier tokens of the keep-output ⊆ those of the input, (c) input, keep-output and both renamed outputs executed in node vm contexts with a recording global: traces equal; non-trivial = renamed output differs from keep-output in at least one identifier and the execution trace has ≥ 2 records")
	var ncs []c02NodeCase
	for _, cs := range cases {
		if cs.trig.parseErr != nil || cs.keep.err != nil || cs.freq.err != nil || cs.alpha.err != nil || cs.keep.crash+cs.freq.crash+cs.alpha.crash != "" {
			continue
		}
		if len(cs.src) > 400000 {
			continue
		}
		ncs = append(ncs, c02NodeCase{ID: cs.id, Srcs: []string{cs.src, cs.keep.out, cs.freq.out, cs.alpha.out}})
	}
	traces, err := c02Node(ncs)
	if err != nil {
		return err
	}
	knownSeen := map[string]bool{}
	for _, nc := range ncs {
		cs := cases[nc.ID]
		tr := traces[nc.ID]
		known := ""
		if cs.trig.argUseShadow { // the only open findings: scope analysis of the dependency
			known = "K-C02-6/8"
		}
		stP.Tag("class=" + cs.class)
		if known != "" {
			c.R.ExcludedKnown++
			stP.Tag("excluded=" + known)
		}
		var problems []string
		// (a) static
		aligned := 0
		for k, out := range []string{cs.freq.out, cs.alpha.out} {
			name := []string{"default", "useAlphabetVarNames"}[k]
			fail, structural, _, _, err := c02AlphaEq(cs.keep.out, out)
			switch {
			case err != nil:
				problems = append(problems, name+": "+err.Error())
			case structural != "":
				stP.Tag("alpha=unaligned")
			case fail != "":
				aligned++
				problems = append(problems, name+": not α-equivalent to the keep-output: "+fail)
			default:
				aligned++
				stP.Tag("alpha=ok")
			}
		}
		// (a') the two renamed outputs against each other: they went through the same restructuring, so they align even where
		// the keep-output does not (an else block merged only when names are shortened); a binding that kept its original
		// name captures differently under the two alphabets
		if fail, structural, _, _, err := c02AlphaEq(cs.freq.out, cs.alpha.out); err == nil {
			switch {
			case structural != "":
				stP.Tag("alpha2=unaligned")
			case fail != "":
				problems = append(problems, "default and useAlphabetVarNames outputs are not α-equivalent: "+fail)
			default:
				stP.Tag("alpha2=ok")
			}
		}
		// (b) keep-output introduces no identifier
		inIds, keepIds := c02Idents(cs.src), c02Idents(cs.keep.out)
		for n := range keepIds {
			if pjsKeyword(n) { // `while` is printed as `for`
				continue
			}
			if _, ok := inIds[n]; !ok {
				problems = append(problems, "KeepVarNames output contains the new identifier "+n)
				break
			}
		}
		// (c) dynamic
		if len(tr) == 4 {
			if strings.HasSuffix(tr[0], "#!SyntaxError") {
				stP.Tag("input=syntax-error")
				c.R.Note("generated program is not valid JS for node: %s", c02Key(cs.src))
				continue
			}
			for k := 1; k < 4; k++ {
				if tr[k] != tr[0] {
					problems = append(problems, fmt.Sprintf("%s output behaves differently in node: input trace %s, output trace %s", []string{"", "KeepVarNames", "default", "useAlphabetVarNames"}[k], c02TruncS(tr[0]), c02TruncS(tr[k])))
				}
			}
		}
		nontriv := cs.keep.out != cs.freq.out && len(tr) == 4 && strings.Count(tr[0], "|") >= 1
		stP.Count(c02Key(cs.src), nontriv)
		if len(problems) == 0 {
			continue
		}
		f := h.Finding{Stage: stP.Name, Kind: "fail", What: problems[0], Input: cs.src, Config: "class=" + cs.class,
			Impl: fmt.Sprintf("keep=%s | default=%s | alpha=%s", c02TruncS(cs.keep.out), c02TruncS(cs.freq.out), c02TruncS(cs.alpha.out))}
		if known != "" {
			// a failure under the trigger of an open known finding: counted, reported once per finding
			f.Known = known
			stP.Tag("known-failure=" + known)
			if knownSeen[known] {
				continue
			}
			knownSeen[known] = true
		}
		c.R.Add(f)
	}
	stP.End()

	// ---- shorthand printer model against the real printer
	stS := c.R.StartStage("shorthand", "shorthand property / object pattern whose variable is renamed: real output of `function f(){var NAME=1;return{NAME}}` and the pattern form against Model.Rename.printProp with the name the renamer chose; non-trivial = key differs from the new name")
	var sl []string
	type sref struct{ src, want string }
	var srefs []sref
	for _, n := range append(append([]string{}, c02Short...), c02Long...) {
		if !isIdent(n) || pjsKeyword(n) {
			continue
		}
		for form := 0; form < 2; form++ {
			var src string
			if form == 0 {
				src = fmt.Sprintf("function f(){var %s=1;return{%s}}", n, n)
			} else {
				src = fmt.Sprintf("function f(q){let{%s}=q;return %s}", n, n)
			}
			run := c02Minify(src, false, false)
			if run.err != nil || run.crash != "" {
				continue
			}
			// the variable receives the first free name: e (form 0) resp. t (form 1: q is an argument and comes first)
			nv := "e"
			if form == 1 {
				nv = "t"
			}
			sl = append(sl, "model.c02.printProp "+h.Bool(true)+" "+h.HexS(n)+" "+h.HexS(nv))
			srefs = append(srefs, sref{src, run.out})
		}
	}
	repS, err := h.Eval(sl)
	if err != nil {
		return err
	}
	for i, r := range srefs {
		b, ok, _ := h.DecodeReply(repS[i])
		stS.Count(r.src, true)
		if !ok || !strings.Contains(r.want, "{"+string(b)+"}") {
			c.R.Add(h.Finding{Stage: stS.Name, Kind: "diff", What: "model.c02.printProp", Input: r.src, Impl: r.want, Model: string(b)})
		}
	}
	stS.End()

	return nil
}

func pjsKeyword(n string) bool {
	_, ok := pjs.Keywords[n]
	return ok
}

func c02Trunc(xs []string) string {
	if len(xs) > 12 {
		return fmt.Sprintf("%v…(%d)", xs[:12], len(xs))
	}
	return fmt.Sprint(xs)
}
func c02TruncI(xs []int) string {
	if len(xs) > 12 {
		return fmt.Sprintf("%v…(%d)", xs[:12], len(xs))
	}
	return fmt.Sprint(xs)
}
func c02TruncS(s string) string {
	if len(s) > 400 {
		return s[:400] + "…"
	}
	return s
}
func c02ShowPairs(a [][]byte) string {
	if len(a) > 41 {
		return c15Show(a[:41]) + "…"
	}
	return c15Show(a)
}

package main

// C04 — state that accumulates: long style sheets and values at the limits of the code's guards.
//
// css.go keeps per-document state in the cssMinifier (tokensLevel, the recursion guard `100 < tokensLevel+1` of
// minifyTokens, the `100 < len(values)` guard of minifyProperty).  A single short declaration never gets near them.  Two
// stages do:
//   limits     single declarations: functions nested up to and beyond the recursion guard around every kind of leaf, values
//              of 90-110 and several hundred tokens (sides, layers, families), judged by model and oracle like the decl stage;
//   longsheet  sheets of 100-3000 declarations (keyword-only values, functions with a lone keyword, deep nesting, many
//              layers, all decl shapes), followed by and interleaved with probes of every value shape; judged per declaration
//              by the oracle, and every declaration must be written exactly as it is written when minified alone.

import (
	"fmt"
	"strings"

	"verifharness/h"
)

func c04Nest(d int, fn, leaf string) string {
	return strings.Repeat(fn+"(", d) + leaf + strings.Repeat(")", d)
}

// c04Leaf: something whose minified form differs from its source form, so that "left alone" and "minified" can be told apart
func c04Leaf(r *h.RNG) string {
	switch r.Intn(12) {
	case 0, 1:
		return c04Length(r)
	case 2:
		return c04Number(r)
	case 3:
		return c04ColorFunc(r)
	case 4:
		return c04Color(r)
	case 5:
		return c04String(r)
	case 6:
		return c04URL(r)
	case 7:
		return c04Number(r) + r.Pick([]string{" ", ",", " , ", "/", " + ", " - ", "*", " +", " -"}) + c04Number(r)
	case 8:
		return c04Length(r) + r.Pick([]string{" ", ",", " + ", " - "}) + c04Length(r)
	case 9:
		return r.Pick([]string{"0.50px", "0.0px", "+0.50", "000", "0.5%", "0.50em", "rgb(0255,000,0.0)", "rgb(255,0,0)", "hsl(0.0,100.0%,50.0%)", "#FF0000", "RED", "1 +0.5", "rgba(0,0,0,0.50)", "0.0deg", "0.0%"})
	case 10:
		return r.Pick([]string{"block", "auto", "item", "--x", "a b", "a,b", ""})
	}
	return c04Nest(1+r.Intn(3), r.Pick([]string{"calc", "f", "var", "rgb"}), c04Length(r))
}

func c04Depth(r *h.RNG) int {
	if r.Chance(70) {
		return 94 + r.Intn(14) // around the guard: 94..107
	}
	return []int{1, 2, 3, 10, 50, 90, 120, 200, 400}[r.Intn(9)]
}

func c04DeepValue(r *h.RNG) string {
	fn := r.Pick([]string{"f", "f", "calc", "var", "min", "translate", "F", "rgb", "counter"})
	v := c04Nest(c04Depth(r), fn, c04Leaf(r))
	switch r.Intn(6) {
	case 0:
		return v + " " + c04Length(r)
	case 1:
		return c04Length(r) + " " + v
	case 2: // two deep siblings: the level must have come back down for the second
		return v + r.Pick([]string{" ", ","}) + c04Nest(c04Depth(r), fn, c04Leaf(r))
	}
	return v
}

// c04WideValue: a value of about n top-level tokens
func c04WideValue(r *h.RNG, n int) (prop, value string) {
	switch r.Intn(7) {
	case 0: // space-separated lengths
		parts := make([]string, n)
		for i := range parts {
			parts[i] = c04Length(r)
		}
		return r.Pick([]string{"margin", "padding", "grid-template-columns", "width", "border-width"}), strings.Join(parts, " ")
	case 1: // layers of two tokens + comma
		ls := make([]string, (n+2)/3)
		for i := range ls {
			ls[i] = c04BgPosLayer(r)
		}
		return "background-position", strings.Join(ls, ",")
	case 2:
		ls := make([]string, (n+4)/5)
		for i := range ls {
			ls[i] = r.Pick([]string{"0 0 0.5px red", "1px 2px 0px 3px #FF0000", "inset 0 0 0 1px #000", "0.50px 0.0px blue", "0 0 0 0 rgb(255,0,0)"})
		}
		return "box-shadow", strings.Join(ls, ",")
	case 3:
		ls := make([]string, (n+1)/2)
		for i := range ls {
			ls[i] = c04FamilyItem(r)
		}
		return "font-family", strings.Join(ls, ",")
	case 4:
		ls := make([]string, (n+3)/4)
		for i := range ls {
			ls[i] = r.Pick([]string{"url(a.png) 0.5px 0.5px", "url(a) no-repeat", "linear-gradient(red,blue) 0% 0%/auto", "none 0 0", "url(b) left top"})
		}
		return "background", strings.Join(ls, ",") + r.Pick([]string{"", " #FF0000", " red"})
	case 5:
		ls := make([]string, (n+1)/2)
		for i := range ls {
			ls[i] = c04URangeItem(r)
		}
		return "unicode-range", strings.Join(ls, ",")
	}
	ls := make([]string, (n+3)/4)
	for i := range ls {
		ls[i] = r.Pick([]string{"opacity 0.50s ease", "all 0.0s", "width 1000ms linear 0.0s", "color 0.5s"})
	}
	return "transition", strings.Join(ls, ",")
}

func c04Width(r *h.RNG) int {
	if r.Chance(70) {
		return 90 + r.Intn(22) // around the guard of minifyProperty
	}
	return []int{5, 20, 60, 150, 300, 600}[r.Intn(6)]
}

var c04ProbeDecls = []string{
	"flex:1 1 0.5px", "flex:1 1 0.0px", "flex:0 0 0.50%", "box-shadow:0 0 0.5px red", "box-shadow:0.5px 0.5px 0 0 red", "background-position:0.5% 10px",
	"background-position:0.50% 0.5%", "background:url(a) 0.5px 0.5px", "background:url(a) 0.5% 0.50%", "margin:0.5px 0.50px 0.5px 0.50px", "margin:0.0px 0.5px",
	"width:0.50px", "color:#FF0000", "color:rgb(255,0,0)", "font-weight:bold", "font:bold 0.50em/1.0 \"Times\"", "transform:translate(0.50px,0.0px)",
	"width:calc(0.50px + 0.0px)", "border:0.5px none red", "outline:0.0px", "background-size:0.5px auto", "line-height:0.50", "opacity:0.50",
}

var c04KeywordDecls = []string{"display:block", "float:left", "position:absolute", "color:red", "visibility:hidden", "font-weight:bold", "content:none", "margin:auto", "color:RED", "width:auto",
	"overflow:hidden", "display:none", "text-align:center", "cursor:pointer", "box-sizing:border-box", "background:none", "font:caption", "flex:none", "border:none", "x:y"}

var c04LoneArgDecls = []string{"content:counter(item)", "color:var(--x)", "content:attr(title)", "width:env(safe-area-inset-top)", "list-style:symbols(cyclic)", "width:calc(auto)",
	"background:var(--bg)", "margin:var(--m) var(--m)", "content:counter(item) counter(item)", "width:f(g(h))", "transform:f(a)g(b)"}

// c04Filler: a declaration of the given dominant kind (or, one time in four, of any kind)
func c04Filler(r *h.RNG, shapes []c04Shape, kind int) string {
	if r.Chance(25) {
		kind = r.Intn(6)
	}
	switch kind {
	case 0:
		return r.Pick(c04KeywordDecls)
	case 1:
		return r.Pick(c04LoneArgDecls)
	case 2:
		return r.Pick([]string{"width", "transform", "x", "margin", "flex", "background-position", "color"}) + ":" + c04DeepValue(r)
	case 3:
		p, v := c04WideValue(r, c04Width(r))
		return p + ":" + v
	case 4:
		return r.Pick([]string{"--x:{a:b}", "--y: 0.50px", "*zoom:1", "_height:1px", "color:red!important", "filter:alpha(opacity=50)", "-ms-filter:\"alpha(opacity=50)\"", "width:1px\\9"})
	}
	return c04DeclText(r, shapes)
}

func c04ProbeRule(r *h.RNG, shapes []c04Shape) string {
	var ds []string
	for _, sh := range shapes {
		ds = append(ds, r.Pick(sh.props)+":"+sh.gen(r))
	}
	ds = append(ds, c04ProbeDecls...)
	return ".probe{" + strings.Join(ds, ";") + "}"
}

// c04LongSheet: n filler declarations in rules of 1-60 declarations (some inside @media), probes interleaved, and a rule with
// one declaration of every value shape at the end
func c04LongSheet(r *h.RNG, shapes []c04Shape, n int) string {
	var sb strings.Builder
	kind := r.Intn(6)
	done := 0
	for done < n {
		k := 1 + r.Intn(60)
		if r.Chance(20) {
			k = 1 + r.Intn(4)
		}
		if done+k > n {
			k = n - done
		}
		ds := make([]string, 0, k+1)
		for i := 0; i < k; i++ {
			ds = append(ds, c04Filler(r, shapes, kind))
		}
		if r.Chance(30) {
			ds = append(ds, r.Pick(c04ProbeDecls))
		}
		rule := c04Selector(r) + "{" + strings.Join(ds, r.Pick([]string{";", ";", "; ", ";\n"})) + r.Pick([]string{"", ";"}) + "}"
		if r.Chance(10) {
			rule = "@media screen{" + rule + "}"
		}
		sb.WriteString(rule)
		done += k
		if r.Chance(5) {
			kind = r.Intn(6)
		}
	}
	sb.WriteString(c04ProbeRule(r, shapes))
	return sb.String()
}

func c04Limits(c *Ctx) error {
	st := c.R.StartStage("limits", "single declarations at the limits of the guards of css.go: functions nested 1-400 deep (70% within 94-107 levels, the recursion guard of minifyTokens is at 100) around every kind of leaf (numbers, lengths, colours, colour functions, strings, url(), signed pairs, nested functions), alone, beside other values and as two deep siblings; values of 90-111 (70%) or 5-600 top-level tokens (sides, background-position / box-shadow / background / transition layers, families, unicode ranges; the guard of minifyProperty is at 100 tokens); stylesheet/inline, KeepCSS2 on/off; real css.Minify vs model.c04.decl and spec.c04.holds; non-trivial = the minifier changed the text")
	var cases []c04Case
	for _, d := range []int{98, 99, 100, 101, 102} { // the boundary itself, deterministically
		for _, leaf := range []string{"0.50px", "rgb(0255,000,0.0)", "hsl(0.0,100.0%,50.0%)", "+0.50", "1 +0.5", "\"a\\\nb\"", "000", "0.0px", "#FF0000", "item"} {
			for _, prop := range []string{"width", "flex", "color"} {
				cases = append(cases, c04Case{prop: prop, value: c04Nest(d, "f", leaf), tag: fmt.Sprintf("depth%d", d)})
			}
			cases = append(cases, c04Case{prop: "flex", value: "1 1 " + c04Nest(d, "f", leaf) + " 0.5px", tag: fmt.Sprintf("depth%d", d), css2: true})
		}
	}
	n := c.N(2000, 30000)
	if c.Search {
		n *= 3
	}
	for i := 0; i < n; i++ {
		r := c.Rng.Fork()
		k := c04Case{inline: r.Chance(20), css2: r.Chance(30), important: r.Pick([]string{"", "", "", "!important"})}
		if r.Bool() {
			k.prop, k.value, k.tag = r.Pick([]string{"width", "transform", "x", "margin", "flex", "background-position", "color", "background", "font", "box-shadow"}), c04DeepValue(r), "deep"
		} else {
			k.prop, k.value = c04WideValue(r, c04Width(r))
			k.tag = "wide"
		}
		cases = append(cases, k)
	}
	err := c04RunCases(c, st, cases, true)
	st.End()
	return err
}

func c04LongSheets(c *Ctx) error {
	st := c.R.StartStage("longsheet", "long style sheets, state that accumulates across declarations and rules: 100-3000 declarations per sheet (half 100-300, a fifth 1000-3000) with one dominant kind per stretch — keyword-only values, functions whose only argument is a keyword, functions nested up to and beyond the recursion guard, values of about 100 and more tokens / many layers, custom properties and hacks, all decl shapes —, rules of 1-60 declarations, some inside @media; probes (fractional values with a leading zero in flex / box-shadow / background(-position) / margin …) interleaved, and at the end a rule with one declaration of every value shape of the decl stage; checked: structure, every declaration value through spec.c04.holds, every distinct declaration written exactly as when minified alone with a fresh minifier (that one through model and oracle as in the decl stage); non-trivial = output differs from input")
	shapes := c04Shapes()
	var cases []c04SheetCase
	// deterministic first: exactly 99 / 100 / 101 / 150 leaking candidates of each simple kind in ONE rule and in one rule each
	for _, cnt := range []int{99, 100, 101, 150} {
		for _, d := range []string{"display:block", "content:counter(item)", "width:" + c04Nest(101, "f", "0.50px"), "color:#FF0000", "margin:0.0px"} {
			one := strings.Repeat(d+";", cnt)
			many := strings.Repeat("a{"+d+"}", cnt)
			probe := ".x{" + strings.Join(c04ProbeDecls, ";") + "}"
			cases = append(cases, c04SheetCase{src: "a{" + one + "}" + probe, tag: "fixed"}, c04SheetCase{src: many + probe, css2: true, tag: "fixed"})
		}
	}
	n := c.N(10, 250)
	if c.Search {
		n *= 3
	}
	for i := 0; i < n; i++ {
		r := c.Rng.Fork()
		var nd int
		switch k := r.Intn(10); {
		case k < 5:
			nd = 100 + r.Intn(200)
		case k < 8:
			nd = 300 + r.Intn(700)
		default:
			nd = 1000 + r.Intn(2000)
		}
		cases = append(cases, c04SheetCase{src: c04LongSheet(r, shapes, nd), css2: r.Chance(30), tag: fmt.Sprintf("decls<%d", map[bool]int{true: 300, false: map[bool]int{true: 1000, false: 3000}[nd < 1000]}[nd < 300])})
	}
	err := c04RunSheets(c, st, cases, true)
	st.End()
	return err
}

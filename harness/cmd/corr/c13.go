package main

// C13 — shared registry under concurrency.  The Lean side re-checks the regenerated structural facts
// (Verif.Gen.ConcFacts) and proves non-interference for every interleaving of the model.  This runner is
// the search/validation side on the real code: it builds cmd/race13 with the race detector and runs it
// with several goroutine counts and GOMAXPROCS values, in separate processes (determinism across processes).

import (
	"bufio"
	"bytes"
	"encoding/json"
	"fmt"
	"os"
	"os/exec"
	"path/filepath"
	"strings"

	"github.com/tdewolff/minify/v2"
	mincss "github.com/tdewolff/minify/v2/css"
	minhtml "github.com/tdewolff/minify/v2/html"
	minjs "github.com/tdewolff/minify/v2/js"
	minjson "github.com/tdewolff/minify/v2/json"
	minsvg "github.com/tdewolff/minify/v2/svg"
	minxml "github.com/tdewolff/minify/v2/xml"

	"verifharness/h"
)

type c13Cfg struct{ n, iters, procs int }

func init() {
	register("C13", func(c *Ctx) error {
		dir, err := os.MkdirTemp("", "verif-c13-")
		if err != nil {
			return err
		}
		defer os.RemoveAll(dir)
		exe := filepath.Join(dir, "race13")
		harn := filepath.Join(h.Root(), "harness")
		build := exec.Command("go", append(h.GoBuildArgs(), "-race", "-tags", "verif", "-o", exe, "./cmd/race13")...)
		build.Dir = harn
		build.Env = append(os.Environ(), "CGO_ENABLED=1")
		if out, err := build.CombinedOutput(); err != nil {
			return fmt.Errorf("building race13 with -race failed: %v\n%s", err, out)
		}
		cfgs := []c13Cfg{{8, 2, 0}, {2, 3, 1}, {16, 1, 2}}
		if c.Thorough() || c.Search {
			cfgs = []c13Cfg{{8, 6, 0}, {2, 10, 1}, {64, 3, 2}, {64, 3, 16}, {32, 4, 4}}
		}
		st := c.R.StartStage("race-stress", "cmd/race13 built with -race: N goroutines x {Minify,Bytes,String,Reader,Writer,Match} x documents of all media types (HTML with embedded CSS/JS/SVG/data-URI re-entering the registry, benchmark files <= 30 KB, an erroring document, an unregistered type) on ONE registry with shared option structs; each result compared with the sequential result; option structs and all package-level byte slices compared before/after; separate processes with different N and GOMAXPROCS must produce the same digest; non-trivial = a concurrent call of a minifying entry point")
		digest := ""
		for i, cf := range cfgs {
			cmd := exec.Command(exe, "-n", fmt.Sprint(cf.n), "-iters", fmt.Sprint(cf.iters), "-procs", fmt.Sprint(cf.procs), "-seed", fmt.Sprint(c.Seed+uint64(i)), "-repo", c.Repo)
			cmd.Env = append(os.Environ(), "GORACE=halt_on_error=0 exitcode=66")
			var stdout, stderr bytes.Buffer
			cmd.Stdout, cmd.Stderr = &stdout, &stderr
			runErr := cmd.Run()
			cfgS := fmt.Sprintf("goroutines=%d iters=%d GOMAXPROCS=%d", cf.n, cf.iters, cf.procs)
			sawSummary := false
			sc := bufio.NewScanner(&stdout)
			sc.Buffer(make([]byte, 1<<20), 1<<26)
			for sc.Scan() {
				line := sc.Text()
				if !strings.HasPrefix(line, "{") {
					continue
				}
				var ev map[string]any
				if json.Unmarshal([]byte(line), &ev) != nil {
					continue
				}
				switch ev["kind"] {
				case "mismatch":
					c.R.Add(h.Finding{Stage: st.Name, Kind: "fail", What: "concurrent call returned different bytes than the sequential call", Input: fmt.Sprintf("%v via %v: %v", ev["doc"], ev["entry"], ev["input"]), Config: cfgS, Impl: fmt.Sprint(ev["concurrent"]), Model: fmt.Sprint(ev["sequential"])})
				case "optmut":
					c.R.Add(h.Finding{Stage: st.Name, Kind: "fail", What: "user's option struct mutated by Minify", Input: fmt.Sprint(ev["which"]), Config: cfgS, Impl: fmt.Sprint(ev["after"]), Model: fmt.Sprint(ev["before"])})
				case "globalmut":
					c.R.Add(h.Finding{Stage: st.Name, Kind: "fail", What: "package-level byte slice written through", Input: fmt.Sprint(ev["var"]), Config: cfgS, Impl: fmt.Sprint(ev["after"]), Model: fmt.Sprint(ev["before"])})
				case "globalcap":
					c.R.Add(h.Finding{Stage: st.Name, Kind: "fail", What: "package-level byte slice has spare capacity: append to it writes shared memory", Input: fmt.Sprint(ev["var"]), Config: cfgS})
				case "summary":
					sawSummary = true
					calls := int(ev["calls"].(float64))
					for k := 0; k < calls; k++ {
						st.Evaluations++
					}
					st.Nontrivial += calls * 5 / 6 // Match calls are the trivial sixth
					if len(st.Samples) < 4 {
						st.Samples = append(st.Samples, cfgS+" docs="+fmt.Sprint(ev["doc_names"]))
					}
					st.Tag(cfgS)
					d := fmt.Sprint(ev["digest"])
					if digest == "" {
						digest = d
					} else if d != digest {
						c.R.Add(h.Finding{Stage: st.Name, Kind: "fail", What: "sequential outputs differ between two processes (nondeterminism)", Input: "digest of all (doc, entry point) outputs", Config: cfgS, Impl: d, Model: digest})
					}
				}
			}
			if races := strings.Count(stderr.String(), "WARNING: DATA RACE"); races > 0 {
				first := stderr.String()
				if i := strings.Index(first, "WARNING: DATA RACE"); i >= 0 {
					first = first[i:]
				}
				if len(first) > 1800 {
					first = first[:1800]
				}
				c.R.Add(h.Finding{Stage: st.Name, Kind: "fail", What: fmt.Sprintf("race detector: %d data race(s)", races), Input: "cmd/race13 " + cfgS, Config: cfgS, Impl: first})
			} else if runErr != nil || !sawSummary {
				msg := stderr.String()
				if len(msg) > 1500 {
					msg = msg[len(msg)-1500:]
				}
				c.R.Add(h.Finding{Stage: st.Name, Kind: "crash", What: fmt.Sprintf("stress process failed: %v", runErr), Input: "cmd/race13 " + cfgS, Impl: msg})
			}
		}
		c13HookCoverage(c)
		st.End()
		return nil
	})
}

// c13HookCoverage compares the package-level byte slices the translator found (Gen/ConcFacts.lean byteGlobals) with the
// names the VerifGlobals hooks expose to the run-time "never written through" check.  A slice the hooks do not list is still
// covered by the static facts (globalWrites, appendBases, globalArgs), so this is reported as a note, not as a finding.
func c13HookCoverage(c *Ctx) {
	b, err := os.ReadFile(filepath.Join(h.Root(), "lean", "Verif", "Gen", "ConcFacts.lean"))
	if err != nil {
		return
	}
	txt := string(b)
	i := strings.Index(txt, "def byteGlobals")
	if i < 0 {
		return
	}
	txt = txt[i:]
	if j := strings.Index(txt, "]"); j >= 0 {
		txt = txt[:j]
	}
	hooked := map[string]bool{}
	add := func(pkg string, m map[string][]byte) {
		for k := range m {
			hooked[pkg+"."+k] = true
		}
	}
	add("minify", minify.VerifGlobals())
	add("css", mincss.VerifGlobals())
	add("html", minhtml.VerifGlobals())
	add("js", minjs.VerifGlobals())
	add("json", minjson.VerifGlobals())
	add("svg", minsvg.VerifGlobals())
	add("xml", minxml.VerifGlobals())
	var missing []string
	n := 0
	for _, f := range strings.Split(txt, "\"") {
		if strings.Contains(f, ".") && !strings.ContainsAny(f, " \n,[") {
			n++
			if !hooked[f] && !strings.HasSuffix(f, "._Hash_text") {
				missing = append(missing, f)
			}
		}
	}
	if len(missing) > 0 {
		c.R.Note("package-level byte slices not exposed by the VerifGlobals hooks (covered by the static facts only): %s", strings.Join(missing, ", "))
	} else {
		c.R.Note("all %d package-level byte slices found by the translator are exposed by the VerifGlobals hooks", n)
	}
}

package main

// C20 — killing the CLI at any instant never loses the user's only copy.
//
// The real command (`go build /repo/cmd/minify`) runs in scratch directories under strace.
//  (1) op-sequence tie: the system calls that touch the scratch tree, normalised to model ops, must equal
//      `Model.CliFs.minifyOps` (order, paths, truncate flag; write chunking free), the final tree must equal
//      `run ops orig`, the bytes read/written must equal the model's `inputBytes`/`outBytes` with the real
//      library called in-process;
//  (2) kill injection: for every system call N of a run the command is re-run from a fresh copy of the tree
//      with `strace -e inject=<call>:signal=SIGKILL:when=<n>`; `SafeInv` is then evaluated on the *real*
//      directory (in Go, independent of the model, and through `spec.c20.safeinv`), and the real directory is
//      compared with the model's `step` semantics applied to the system calls that completed (kernel contract).

import (
	"bufio"
	"bytes"
	"fmt"
	"os"
	"os/exec"
	"path/filepath"
	"regexp"
	"sort"
	"strconv"
	"strings"
	"sync"
	"syscall"
	"time"

	"github.com/tdewolff/minify/v2"
	"github.com/tdewolff/minify/v2/css"
	"github.com/tdewolff/minify/v2/html"
	"github.com/tdewolff/minify/v2/js"
	"github.com/tdewolff/minify/v2/json"
	"github.com/tdewolff/minify/v2/svg"
	"github.com/tdewolff/minify/v2/xml"

	"verifharness/h"
)

const c20Trace = "rename,renameat,renameat2,openat,open,creat,write,pwrite64,writev,close,unlink,unlinkat,rmdir,fchmodat,chmod,fchmod,utimensat,mkdir,mkdirat,copy_file_range,sendfile,fchownat,chown,lchown,fchown,ftruncate,truncate,symlink,symlinkat,link,linkat"

// ---------- the library configured like cmd/minify/main.go run() ----------

var cliExtMap = map[string]string{
	"asp": "text/asp", "css": "text/css", "ejs": "text/x-ejs-template", "gohtml": "text/x-go-template",
	"handlebars": "text/x-handlebars-template", "htm": "text/html", "html": "text/html",
	"js": "application/javascript", "json": "application/json", "mjs": "application/javascript",
	"mustache": "text/x-mustache-template", "php": "application/x-httpd-php", "rss": "application/rss+xml",
	"svg": "image/svg+xml", "tmpl": "text/x-go-template", "webmanifest": "application/manifest+json",
	"xhtml": "application/xhtml-xml", "xml": "text/xml",
}

func cliMinifier() *minify.M {
	m := minify.New()
	htmlMinifier := html.Minifier{}
	m.Add("text/css", &css.Minifier{})
	m.Add("text/html", &htmlMinifier)
	m.Add("image/svg+xml", &svg.Minifier{})
	m.AddRegexp(regexp.MustCompile("^(application|text)/(x-)?(java|ecma|j|live)script(1\\.[0-5])?$|^module$"), &js.Minifier{})
	m.AddRegexp(regexp.MustCompile("[/+]json$"), &json.Minifier{})
	m.AddRegexp(regexp.MustCompile("[/+]xml$"), &xml.Minifier{})
	aspMinifier := htmlMinifier
	aspMinifier.TemplateDelims = [2]string{"<%", "%>"}
	m.Add("text/asp", &aspMinifier)
	m.Add("text/x-ejs-template", &aspMinifier)
	phpMinifier := htmlMinifier
	phpMinifier.TemplateDelims = [2]string{"<?", "?>"}
	m.Add("application/x-httpd-php", &phpMinifier)
	tmplMinifier := htmlMinifier
	tmplMinifier.TemplateDelims = [2]string{"{{", "}}"}
	m.Add("text/x-go-template", &tmplMinifier)
	m.Add("text/x-mustache-template", &tmplMinifier)
	m.Add("text/x-handlebars-template", &tmplMinifier)
	return m
}

// cliLib is what `minify()` computes from the bytes it read: the library output, or the original on error.
var cliLibMemo = struct {
	sync.Mutex
	m map[string][2][]byte
}{m: map[string][2][]byte{}}

func cliLib(mimetype string, b []byte) (out []byte, ok bool) {
	k := mimetype + "\x00" + string(b)
	cliLibMemo.Lock()
	if v, hit := cliLibMemo.m[k]; hit {
		cliLibMemo.Unlock()
		return v[0], v[1] != nil
	}
	cliLibMemo.Unlock()
	out, ok = cliLibRaw(mimetype, b)
	cliLibMemo.Lock()
	if ok {
		cliLibMemo.m[k] = [2][]byte{out, {1}}
	} else {
		cliLibMemo.m[k] = [2][]byte{out, nil}
	}
	cliLibMemo.Unlock()
	return out, ok
}

func cliLibRaw(mimetype string, b []byte) (out []byte, ok bool) {
	var w bytes.Buffer
	var err error
	crash := h.Safely(60*time.Second, func() {
		err = cliMinifier().Minify(mimetype, &w, bytes.NewReader(append([]byte{}, b...)))
	})
	if crash != "" || err != nil {
		return append([]byte{}, b...), false
	}
	return w.Bytes(), true
}

func cliMime(path string) string {
	ext := filepath.Ext(path)
	if len(ext) > 0 {
		ext = ext[1:]
	}
	return cliExtMap[ext]
}

// ---------- building the command ----------

func cliBuild(repo string) (bin, dir string, err error) {
	dir, err = os.MkdirTemp("", "verif-cli-")
	if err != nil {
		return "", "", err
	}
	bin = filepath.Join(dir, "minify")
	cmd := exec.Command("go", "build", "-o", bin, "./cmd/minify")
	cmd.Dir = repo
	cmd.Env = append(os.Environ(), "CGO_ENABLED=0")
	if out, e := cmd.CombinedOutput(); e != nil {
		os.RemoveAll(dir)
		return "", "", fmt.Errorf("go build cmd/minify: %v\n%s", e, out)
	}
	return bin, dir, nil
}

// ---------- trees ----------

type cliTree map[string][]byte // relative path of a regular file → content

func (t cliTree) clone() cliTree {
	o := cliTree{}
	for k, v := range t {
		o[k] = v
	}
	return o
}

func (t cliTree) paths() []string {
	ps := make([]string, 0, len(t))
	for p := range t {
		ps = append(ps, p)
	}
	sort.Strings(ps)
	return ps
}

func (t cliTree) dirs() []string {
	set := map[string]bool{}
	for p := range t {
		for d := filepath.Dir(p); d != "." && d != "/"; d = filepath.Dir(d) {
			set[d] = true
		}
	}
	ds := make([]string, 0, len(set))
	for d := range set {
		ds = append(ds, d)
	}
	sort.Strings(ds)
	return ds
}

// materialise writes the tree below dir (with a fixed old mtime so that nothing depends on the clock).
func (t cliTree) materialise(dir string, extraDirs []string) error {
	for _, d := range extraDirs {
		if err := os.MkdirAll(filepath.Join(dir, d), 0o755); err != nil {
			return err
		}
	}
	for _, p := range t.paths() {
		full := filepath.Join(dir, p)
		if err := os.MkdirAll(filepath.Dir(full), 0o755); err != nil {
			return err
		}
		if err := os.WriteFile(full, t[p], 0o644); err != nil {
			return err
		}
	}
	return nil
}

// readTree reads every non-directory below dir (symbolic links are followed; dangling ones are absent).
func readTree(dir string) (cliTree, []string, error) {
	t := cliTree{}
	var dirs []string
	err := filepath.Walk(dir, func(p string, info os.FileInfo, err error) error {
		if err != nil {
			return err
		}
		rel, _ := filepath.Rel(dir, p)
		if rel == "." {
			return nil
		}
		if info.IsDir() {
			dirs = append(dirs, rel)
			return nil
		}
		b, e := os.ReadFile(p)
		if e == nil {
			t[rel] = b
		}
		return nil
	})
	sort.Strings(dirs)
	return t, dirs, err
}

func treeEq(a, b cliTree) (bool, string) {
	for p, v := range a {
		w, ok := b[p]
		if !ok {
			return false, "only left: " + p
		}
		if !bytes.Equal(v, w) {
			return false, fmt.Sprintf("content of %s differs (%d vs %d bytes)", p, len(v), len(w))
		}
	}
	for p := range b {
		if _, ok := a[p]; !ok {
			return false, "only right: " + p
		}
	}
	return true, ""
}

func treeStr(t cliTree) string {
	var sb strings.Builder
	for _, p := range t.paths() {
		v := t[p]
		if len(v) > 48 {
			fmt.Fprintf(&sb, "%s=<%d bytes %q…> ", p, len(v), v[:24])
		} else {
			fmt.Fprintf(&sb, "%s=%q ", p, v)
		}
	}
	return sb.String()
}

// ---------- strace ----------

type sysCall struct {
	Tid  int
	Name string
	Args []string
	Ret  int64
	Done bool // a numeric result was printed (the call ran)
	Ord  int  // ordinal of this call among the calls of the same name made by the same thread (1-based; strace's `when=`)
	Raw  string
	// file descriptor arguments resolved when the call was *entered* (another thread may reuse the number
	// before the exit of a close is reported)
	fdAt    fdInfo
	fdKnown bool
}

// traceEvent: a call is entered and left; single-line calls do both at once.
type traceEvent struct {
	c           *sysCall
	enter, exit bool
}

var reLine = regexp.MustCompile(`^(\d+)\s+(.*)$`)
var reResult = regexp.MustCompile(`\)\s+= `)
var reResumed = regexp.MustCompile(`^<\.\.\. (\w+) resumed>(.*)$`)

// splitArgs splits a strace argument list on top-level commas.
func splitArgs(s string) []string {
	var out []string
	depth, inStr, esc := 0, false, false
	start := 0
	for i := 0; i < len(s); i++ {
		ch := s[i]
		if inStr {
			if esc {
				esc = false
			} else if ch == '\\' {
				esc = true
			} else if ch == '"' {
				inStr = false
			}
			continue
		}
		switch ch {
		case '"':
			inStr = true
		case '[', '{', '(':
			depth++
		case ']', '}', ')':
			depth--
		case ',':
			if depth == 0 {
				out = append(out, strings.TrimSpace(s[start:i]))
				start = i + 1
			}
		}
	}
	if strings.TrimSpace(s[start:]) != "" {
		out = append(out, strings.TrimSpace(s[start:]))
	}
	return out
}

func parseCall(tid int, text string) (sysCall, bool) {
	// NAME(ARGS) = RET …   |   NAME(ARGS <unfinished …> (never completed)
	op := strings.IndexByte(text, '(')
	if op <= 0 {
		return sysCall{}, false
	}
	c := sysCall{Tid: tid, Name: text[:op], Raw: text}
	rest := text[op+1:]
	locs := reResult.FindAllStringIndex(rest, -1)
	if len(locs) == 0 {
		c.Args = splitArgs(strings.TrimSuffix(strings.TrimSpace(rest), ")"))
		return c, true
	}
	eq, after := locs[len(locs)-1][0], locs[len(locs)-1][1]
	c.Args = splitArgs(rest[:eq])
	ret := strings.Fields(rest[after:])
	if len(ret) > 0 {
		if v, err := strconv.ParseInt(ret[0], 0, 64); err == nil {
			c.Ret, c.Done = v, true
		}
	}
	return c, true
}

// parseStrace returns the calls in order of completion (a call that never completed comes last, Done=false)
// and the enter/exit events in log order.
func parseStrace(path string) ([]*sysCall, []traceEvent, bool, error) {
	f, err := os.Open(path)
	if err != nil {
		return nil, nil, false, err
	}
	defer f.Close()
	sc := bufio.NewScanner(f)
	sc.Buffer(make([]byte, 1<<20), 1<<26)
	pending := map[int]*sysCall{}
	pendText := map[int]string{}
	ords := map[string]int{}
	var calls []*sysCall
	var events []traceEvent
	killed := false
	count := func(tid int, name string) int {
		k := strconv.Itoa(tid) + ":" + name
		ords[k]++
		return ords[k]
	}
	for sc.Scan() {
		m := reLine.FindStringSubmatch(sc.Text())
		if m == nil {
			continue
		}
		tid, _ := strconv.Atoi(m[1])
		text := m[2]
		if strings.HasPrefix(text, "+++") {
			if strings.Contains(text, "killed by SIGKILL") {
				killed = true
			}
			continue
		}
		if strings.HasPrefix(text, "---") {
			continue
		}
		if r := reResumed.FindStringSubmatch(text); r != nil {
			pc := pending[tid]
			if pc == nil {
				continue
			}
			full, ok := parseCall(tid, pendText[tid]+r[2])
			delete(pending, tid)
			if ok {
				pc.Args, pc.Ret, pc.Done, pc.Raw = full.Args, full.Ret, full.Done, full.Raw
				calls = append(calls, pc)
				events = append(events, traceEvent{c: pc, exit: true})
			}
			continue
		}
		if strings.HasSuffix(text, "<unfinished ...>") {
			t := strings.TrimSpace(strings.TrimSuffix(text, "<unfinished ...>"))
			if c, ok := parseCall(tid, t); ok {
				pc := &sysCall{}
				*pc = c
				pc.Done = false
				pc.Ord = count(tid, pc.Name)
				pending[tid] = pc
				pendText[tid] = t
				events = append(events, traceEvent{c: pc, enter: true})
			}
			continue
		}
		if c, ok := parseCall(tid, text); ok {
			pc := &sysCall{}
			*pc = c
			pc.Ord = count(tid, pc.Name)
			calls = append(calls, pc)
			events = append(events, traceEvent{c: pc, enter: true, exit: true})
		}
	}
	tids := make([]int, 0, len(pending))
	for tid := range pending {
		tids = append(tids, tid)
	}
	sort.Ints(tids)
	for _, tid := range tids {
		pc := pending[tid]
		pc.Done = false
		calls = append(calls, pc)
		events = append(events, traceEvent{c: pc, exit: true})
	}
	return calls, events, killed, sc.Err()
}

// ---------- normalisation of system calls to model ops ----------

type c20Op struct {
	Kind string // rename openRead openTrunc write close remove mkdir chmod chown chtimes other
	A, B string
	N    int64 // write: bytes
	Call *sysCall
}

func (o c20Op) String() string {
	switch o.Kind {
	case "rename":
		return "rename " + o.A + " " + o.B
	case "write":
		return "write " + o.A + " " + strconv.FormatInt(o.N, 10)
	}
	return o.Kind + " " + o.A
}

type normaliser struct {
	scratch string
	isDir   func(rel string) bool
	fds     map[int]fdInfo
	notes   []string
}

type fdInfo struct {
	path  string
	write bool
	skip  bool
}

func unq(s string) (string, bool) {
	if len(s) < 2 || s[0] != '"' {
		return "", false
	}
	s = strings.TrimSuffix(s, "...")
	v, err := strconv.Unquote(s)
	if err != nil {
		return "", false
	}
	return v, true
}

// rel maps a path argument into the scratch tree ("" = outside).
func (n *normaliser) rel(arg string) string {
	p, ok := unq(arg)
	if !ok || p == "" {
		return ""
	}
	if filepath.IsAbs(p) {
		r, err := filepath.Rel(n.scratch, filepath.Clean(p))
		if err != nil || r == ".." || strings.HasPrefix(r, "../") {
			return ""
		}
		return r
	}
	return filepath.Clean(p)
}

// pathArg picks the path argument following an optional dirfd argument.
func pathArgs(c *sysCall) []string {
	var ps []string
	for _, a := range c.Args {
		if strings.HasPrefix(a, "\"") {
			ps = append(ps, a)
		}
	}
	return ps
}

// enter resolves the file-descriptor argument of a call at the moment the call is entered.
func (n *normaliser) enter(c *sysCall) {
	atoi := func(s string) int {
		v, _ := strconv.Atoi(strings.TrimSpace(s))
		return v
	}
	if len(c.Args) == 0 {
		return
	}
	switch c.Name {
	case "close":
		fd := atoi(c.Args[0])
		c.fdAt, c.fdKnown = n.fds[fd]
		delete(n.fds, fd)
	case "write", "pwrite64", "writev", "ftruncate", "fchmod", "fchown", "sendfile":
		c.fdAt, c.fdKnown = n.fds[atoi(c.Args[0])]
	case "copy_file_range":
		if len(c.Args) > 2 {
			c.fdAt, c.fdKnown = n.fds[atoi(c.Args[2])]
		}
	}
}

// feed is called when a call is left; inTree says whether the call refers to the scratch tree (kill points).
func (n *normaliser) feed(c *sysCall) (ops []c20Op, inTree bool) {
	ps := pathArgs(c)
	switch c.Name {
	case "openat", "open", "creat":
		if len(ps) < 1 {
			return nil, false
		}
		p := n.rel(ps[0])
		if p == "" {
			return nil, false
		}
		flags := strings.Join(c.Args, " ")
		if !c.Done || c.Ret < 0 {
			return nil, true
		}
		wr := strings.Contains(flags, "O_WRONLY") || strings.Contains(flags, "O_RDWR") || c.Name == "creat"
		if n.isDir(p) && !wr {
			n.fds[int(c.Ret)] = fdInfo{path: p, skip: true}
			return nil, true
		}
		n.fds[int(c.Ret)] = fdInfo{path: p, write: wr}
		switch {
		case wr && (strings.Contains(flags, "O_TRUNC") || c.Name == "creat"):
			return []c20Op{{Kind: "openTrunc", A: p, Call: c}}, true
		case wr:
			return []c20Op{{Kind: "other", A: "open-for-write-without-truncate " + p, Call: c}}, true
		default:
			return []c20Op{{Kind: "openRead", A: p, Call: c}}, true
		}
	case "close":
		fi, ok := c.fdAt, c.fdKnown
		if !ok {
			return nil, false
		}
		if c.Done && c.Ret == 0 {
			if fi.skip {
				return nil, true
			}
			return []c20Op{{Kind: "close", A: fi.path, Call: c}}, true
		}
		return nil, true
	case "write", "pwrite64", "writev":
		fi, ok := c.fdAt, c.fdKnown
		if !ok {
			return nil, false
		}
		if c.Done && c.Ret > 0 {
			kind := "write"
			if c.Name != "write" {
				kind = "other"
			}
			return []c20Op{{Kind: kind, A: fi.path, N: c.Ret, Call: c}}, true
		}
		return nil, true
	case "copy_file_range", "sendfile":
		fi, ok := c.fdAt, c.fdKnown
		if !ok {
			return nil, false
		}
		if c.Done && c.Ret > 0 {
			return []c20Op{{Kind: "write", A: fi.path, N: c.Ret, Call: c}}, true
		}
		return nil, true
	case "ftruncate", "fchmod", "fchown":
		fi, ok := c.fdAt, c.fdKnown
		if !ok {
			return nil, false
		}
		return []c20Op{{Kind: "other", A: c.Name + " " + fi.path, Call: c}}, true
	case "rename", "renameat", "renameat2", "link", "linkat", "symlink", "symlinkat":
		if len(ps) < 2 {
			return nil, false
		}
		a, b := n.rel(ps[0]), n.rel(ps[1])
		if strings.HasPrefix(c.Name, "symlink") {
			a = n.rel(ps[1])
			b = a
		}
		if a == "" && b == "" {
			return nil, false
		}
		if !c.Done || c.Ret != 0 {
			return nil, true
		}
		if strings.HasPrefix(c.Name, "rename") {
			return []c20Op{{Kind: "rename", A: a, B: b, Call: c}}, true
		}
		return []c20Op{{Kind: "other", A: c.Name + " " + a + " " + b, Call: c}}, true
	case "unlink", "unlinkat", "rmdir", "mkdir", "mkdirat", "chmod", "fchmodat", "chown", "lchown", "fchownat", "utimensat", "truncate":
		if len(ps) < 1 {
			return nil, false
		}
		p := n.rel(ps[0])
		if p == "" {
			return nil, false
		}
		if !c.Done || c.Ret != 0 {
			if c.Done && !strings.HasPrefix(c.Name, "mkdir") {
				n.notes = append(n.notes, "failing call: "+c.Raw)
			}
			return nil, true
		}
		kind := map[string]string{"unlink": "remove", "unlinkat": "remove", "mkdir": "mkdir", "mkdirat": "mkdir",
			"chmod": "chmod", "fchmodat": "chmod", "chown": "chown", "lchown": "chown", "fchownat": "chown",
			"utimensat": "chtimes"}[c.Name]
		if kind == "" {
			return []c20Op{{Kind: "other", A: c.Name + " " + p, Call: c}}, true
		}
		return []c20Op{{Kind: kind, A: p, Call: c}}, true
	}
	return nil, false
}

// coalesce merges consecutive writes to the same path (write chunking is free).
func coalesce(ops []c20Op) []c20Op {
	var out []c20Op
	for _, o := range ops {
		if o.Kind == "write" && len(out) > 0 && out[len(out)-1].Kind == "write" && out[len(out)-1].A == o.A {
			out[len(out)-1].N += o.N
			continue
		}
		out = append(out, o)
	}
	return out
}

func opStrings(ops []c20Op) []string {
	s := make([]string, len(ops))
	for i, o := range ops {
		s[i] = o.String()
	}
	return s
}

// ---------- running the command ----------

type cliRun struct {
	Exit   int
	Killed bool
	Stdout []byte
	Stderr []byte
	Calls  []*sysCall
	Ops    []c20Op    // normalised, not coalesced
	Points []*sysCall // every call that refers to the scratch tree, in order (kill points)
	Notes  []string
	Tree   cliTree
	Dirs   []string
}

// runCLI materialises the tree in a fresh scratch directory, runs the command there (under strace unless
// trace is false) and reads the directory back.
func runCLI(bin string, tree cliTree, extraDirs []string, prep func(dir string) error, args []string, stdin []byte, inject []string, trace bool) (*cliRun, error) {
	dir, err := os.MkdirTemp("", "verif-c20-")
	if err != nil {
		return nil, err
	}
	defer os.RemoveAll(dir)
	work := filepath.Join(dir, "w")
	if err := os.Mkdir(work, 0o755); err != nil {
		return nil, err
	}
	if err := tree.materialise(work, extraDirs); err != nil {
		return nil, err
	}
	if prep != nil {
		if err := prep(work); err != nil {
			return nil, err
		}
	}
	initialDirs := map[string]bool{}
	filepath.Walk(work, func(p string, info os.FileInfo, err error) error {
		if err == nil && info.IsDir() {
			r, _ := filepath.Rel(work, p)
			initialDirs[r] = true
		}
		return nil
	})
	log := filepath.Join(dir, "strace.log")
	full := make([]string, len(args))
	for i, a := range args {
		full[i] = strings.ReplaceAll(a, "$PWD", work)
	}
	var cmd *exec.Cmd
	if trace {
		sargs := []string{"-f", "-o", log, "-e", "trace=" + c20Trace}
		for _, in := range inject {
			sargs = append(sargs, "-e", "inject="+in)
		}
		sargs = append(sargs, bin)
		sargs = append(sargs, full...)
		cmd = exec.Command("strace", sargs...)
	} else {
		cmd = exec.Command(bin, full...)
	}
	cmd.Dir = work
	cmd.Stdin = bytes.NewReader(stdin)
	var so, se bytes.Buffer
	cmd.Stdout, cmd.Stderr = &so, &se
	cmd.Env = append(os.Environ(), "HOME="+dir)
	rerr := cmd.Run()
	r := &cliRun{Stdout: so.Bytes(), Stderr: se.Bytes()}
	if ee, ok := rerr.(*exec.ExitError); ok {
		if ws, ok := ee.Sys().(syscall.WaitStatus); ok && ws.Signaled() {
			r.Killed = true
			r.Exit = 128 + int(ws.Signal())
		} else {
			r.Exit = ee.ExitCode()
		}
	} else if rerr != nil {
		return nil, fmt.Errorf("running %v: %v", cmd.Args, rerr)
	}
	if trace {
		calls, events, killed, err := parseStrace(log)
		if err != nil {
			return nil, err
		}
		r.Calls = calls
		r.Killed = r.Killed || killed
		n := &normaliser{scratch: work, fds: map[int]fdInfo{}}
		created := map[string]bool{}
		n.isDir = func(rel string) bool { return initialDirs[rel] || created[rel] }
		for _, ev := range events {
			c := ev.c
			if ev.enter {
				n.enter(c)
			}
			if !ev.exit {
				continue
			}
			ops, in := n.feed(c)
			for _, o := range ops {
				if o.Kind == "mkdir" {
					created[o.A] = true
				}
			}
			r.Ops = append(r.Ops, ops...)
			if in {
				r.Points = append(r.Points, c)
			}
		}
		r.Notes = n.notes
	}
	r.Tree, r.Dirs, err = readTree(work)
	return r, err
}

// ---------- tasks and scenarios ----------

type c20Task struct {
	Srcs []string
	Dst  string
	Root string
	Sep  string
	Sync bool
	Skip bool
}

type c20Scenario struct {
	Name     string
	Tree     cliTree
	Dirs     []string // extra (empty) directories
	Prep     func(dir string) error
	Args     []string
	Stdin    []byte
	Tasks    []c20Task
	OutDir   string   // `os.MkdirAll(output)` of run() when the destination is a directory
	Seq      bool     // tasks run one after the other (single task or -v): global order is defined
	Preserve bool     // the preserve options are in force (output is a path and input is not stdin)
	Lexical  bool     // inside the model's "same file = same spelling" domain: compare with the model
	Inject   []string // extra strace injections (write error)
	WriteErr bool     // the injected write error makes every write fail before any byte is stored
	Inputs   []string // input files (default: all task sources)
	Extra    cliTree  // files created by Prep (links), as the user sees them before the run
	AliasDst []string // other names of a destination (links)
	Mime     string   // --type given: the mimetype of every task
	// Refuse: two sources map to one destination — the command must refuse before touching anything (exit 1, tree
	// unchanged, no mutating system call). If it does not, SafeInv is judged with Intended (every user file must
	// survive as the original or as its OWN complete output) after the run and at every kill point.
	Refuse   bool
	Intended cliTree
}

func (s *c20Scenario) cmdline() string {
	return "minify " + strings.Join(s.Args, " ")
}

func (s *c20Scenario) orig() cliTree {
	if s.Extra == nil {
		return s.Tree
	}
	o := s.Tree.clone()
	for k, v := range s.Extra {
		o[k] = v
	}
	return o
}

func (s *c20Scenario) inputs() []string {
	if s.Inputs != nil {
		return s.Inputs
	}
	seen := map[string]bool{}
	var in []string
	for _, t := range s.Tasks {
		for _, p := range t.Srcs {
			if p != "" && !seen[p] {
				seen[p] = true
				in = append(in, p)
			}
		}
	}
	return in
}

func (s *c20Scenario) dsts() map[string]bool {
	d := map[string]bool{}
	for _, t := range s.Tasks {
		if t.Dst != "" {
			d[t.Dst] = true
		}
	}
	for _, a := range s.AliasDst {
		d[a] = true
	}
	return d
}

// c20Refused: the destination is one of the sources and its backup name is taken — the task is refused (fix 44ee05b).
func c20Refused(t c20Task, tree cliTree) bool {
	if t.Dst == "" {
		return false
	}
	if _, ok := tree[t.Dst]; !ok {
		return false
	}
	if _, ok := tree[t.Dst+".bak"]; !ok {
		return false
	}
	for _, s := range t.Srcs {
		if s == t.Dst {
			return true
		}
	}
	return false
}

// c20Intended is the Go-side statement of "the complete new output" of every destination: the real library applied
// to the original bytes of the sources (joined with the separator), task after task. Independent of the model
// and of what the command actually wrote.
func c20Intended(sc *c20Scenario) cliTree {
	tree := sc.orig().clone()
	final := cliTree{}
	for _, t := range sc.Tasks {
		if t.Dst == "" || t.Skip || (t.Sync && t.Srcs[0] == t.Dst) || c20Refused(t, tree) {
			continue
		}
		var parts [][]byte
		for _, s := range t.Srcs {
			if s == "" {
				parts = append(parts, sc.Stdin)
			} else {
				parts = append(parts, tree[s])
			}
		}
		in := bytes.Join(parts, []byte(t.Sep))
		out := in
		if !t.Sync {
			mt := cliMime(t.Srcs[0])
			if sc.Mime != "" {
				mt = sc.Mime
			} else if t.Srcs[0] == "" {
				mt = cliExtMap[strings.TrimPrefix(filepath.Ext(t.Dst), ".")]
			}
			out, _ = cliLib(mt, in)
		}
		tree[t.Dst] = out
		final[t.Dst] = out
		for _, a := range sc.AliasDst {
			final[a] = out
		}
	}
	return final
}

// c20SafeInv is the property, evaluated on a real directory, written independently of the Lean side.
func c20SafeInv(orig, cur, final cliTree, inputs []string, dsts map[string]bool) (bool, string) {
	for _, p := range inputs {
		o, ok := orig[p]
		if !ok {
			continue
		}
		c, cok := cur[p]
		here := cok && bytes.Equal(c, o)
		b, bok := cur[p+".bak"]
		inBak := bok && bytes.Equal(b, o)
		f, fok := final[p]
		done := dsts[p] && cok && fok && bytes.Equal(c, f)
		if !(here || inBak || done) {
			return false, fmt.Sprintf("input %s: original bytes neither at %s nor at %s.bak, and %s does not hold the complete new output", p, p, p, p)
		}
		if !dsts[p] && !here {
			return false, fmt.Sprintf("input %s is only read but was modified", p)
		}
	}
	return true, ""
}

func hexFiles(t cliTree) string {
	var gs [][][]byte
	for _, p := range t.paths() {
		gs = append(gs, [][]byte{[]byte(p), t[p]})
	}
	return h.Groups(gs)
}

func flag01(bs ...bool) string {
	items := make([][]byte, len(bs))
	for i, b := range bs {
		if b {
			items[i] = []byte("1")
		} else {
			items[i] = []byte("0")
		}
	}
	return h.List(items)
}

// c20Req renders the common argument block of the model.c20.* ops.
func c20Req(op string, tree cliTree, dirs []string, t c20Task, preserve bool, stdin []byte, wok bool, chunks [][]byte, extra ...string) string {
	parts := []string{op, hexFiles(tree), h.ListS(dirs), h.ListS(t.Srcs), h.HexS(t.Dst), h.HexS(t.Root), h.HexS(t.Sep),
		flag01(t.Sync, t.Skip, preserve, preserve, preserve, true, true), h.Hex(stdin), h.Bool(wok), h.List(chunks)}
	parts = append(parts, extra...)
	return strings.Join(parts, " ")
}

func decodeTree(b []byte) cliTree {
	items := h.DecodeListReply(b)
	t := cliTree{}
	for i := 0; i+1 < len(items); i += 2 {
		if _, dup := t[string(items[i])]; !dup {
			t[string(items[i])] = items[i+1]
		}
	}
	return t
}

// ---------- content generators ----------

func c20Content(rng *h.RNG, ext string, size int) []byte {
	if size == 0 {
		return []byte{}
	}
	if size == 1 {
		return []byte(map[string]string{"css": "a", "js": "a", "html": "a", "json": "1", "svg": "a", "xml": "a"}[ext])
	}
	var unit func(i int) string
	var head, tail string
	switch ext {
	case "css":
		unit = func(i int) string {
			return fmt.Sprintf(".c%d  {  color : #ff0000 ;  margin : 0px %dpx ; }\n", rng.Intn(1000), i%97)
		}
	case "js":
		// (no long runs of `var` declarations: merging them is quadratic in the JS minifier)
		unit = func(i int) string { return fmt.Sprintf("if ( x%d ) { g( %d , \"s%d\" ) ; }\n", i%7, rng.Intn(1000), i) }
	case "html":
		head, tail = "<!doctype html><html><body>\n", "</body></html>\n"
		unit = func(i int) string { return fmt.Sprintf("<p  class=\"c%d\" >  text   %d </p>\n", i%13, rng.Intn(1000)) }
	case "json":
		head, tail = "[ 0", " ]\n"
		unit = func(i int) string { return fmt.Sprintf(" ,\n { \"k%d\" : [ %d , 1.50 ] }", i, rng.Intn(1000)) }
	case "svg":
		head, tail = "<svg xmlns=\"http://www.w3.org/2000/svg\">\n", "</svg>\n"
		unit = func(i int) string { return fmt.Sprintf("  <path  d=\"M %d 0 L 10 10\" />\n", rng.Intn(1000)) }
	case "xml":
		head, tail = "<root>\n", "</root>\n"
		unit = func(i int) string { return fmt.Sprintf("  <item  id=\"%d\" >  %d  </item>\n", i, rng.Intn(1000)) }
	default:
		unit = func(i int) string { return fmt.Sprintf("line %d %d\n", i, rng.Intn(1000)) }
	}
	var sb bytes.Buffer
	sb.WriteString(head)
	for i := 0; sb.Len()+len(tail) < size; i++ {
		sb.WriteString(unit(i))
	}
	sb.WriteString(tail)
	return sb.Bytes()
}

// ---------- scenarios ----------

func c20Scenarios(rng *h.RNG, size int, ext string) []c20Scenario {
	f := func(name string) string { return name + "." + ext }
	sep := ""
	if cliExtMap[ext] == "application/javascript" {
		sep = ";\n"
	}
	content := func() []byte { return c20Content(rng, ext, size) }
	small := func(e string) []byte { return c20Content(rng, e, 40+rng.Intn(200)) }
	var out []c20Scenario
	add := func(s c20Scenario) {
		s.Name = fmt.Sprintf("%s/%s/%d", s.Name, ext, size)
		out = append(out, s)
	}
	a, b := f("a"), f("b")
	// in place
	add(c20Scenario{Name: "inplace", Tree: cliTree{a: content(), "other.txt": []byte("keep")}, Args: []string{"-o", a, a},
		Tasks: []c20Task{{Srcs: []string{a}, Dst: a, Root: "."}}, Seq: true, Preserve: true, Lexical: true})
	// in place, nested path
	add(c20Scenario{Name: "inplace-nested", Tree: cliTree{"d/e/" + a: content()}, Args: []string{"-o", "d/e/" + a, "d/e/" + a},
		Tasks: []c20Task{{Srcs: []string{"d/e/" + a}, Dst: "d/e/" + a, Root: "d/e"}}, Seq: true, Preserve: true, Lexical: true})
	// separate file, existing destination directory
	add(c20Scenario{Name: "separate", Tree: cliTree{a: content()}, Args: []string{"-o", f("out"), a},
		Tasks: []c20Task{{Srcs: []string{a}, Dst: f("out"), Root: "."}}, Seq: true, Preserve: true, Lexical: true})
	// separate file overwriting an existing one, destination directory to be created
	add(c20Scenario{Name: "separate-mkdir", Tree: cliTree{a: content(), f("old"): small(ext)}, Args: []string{"-o", "n1/n2/" + f("out"), a},
		Tasks: []c20Task{{Srcs: []string{a}, Dst: "n1/n2/" + f("out"), Root: "."}}, Seq: true, Preserve: true, Lexical: true})
	add(c20Scenario{Name: "separate-overwrite", Tree: cliTree{a: content(), f("old"): small(ext)}, Args: []string{"-o", f("old"), a},
		Tasks: []c20Task{{Srcs: []string{a}, Dst: f("old"), Root: "."}}, Seq: true, Preserve: true, Lexical: true})
	// file into directory
	add(c20Scenario{Name: "file-to-dir", Tree: cliTree{"s/" + a: content()}, Args: []string{"-o", "out/", "s/" + a},
		Tasks: []c20Task{{Srcs: []string{"s/" + a}, Dst: "out/" + a, Root: "s"}}, OutDir: "out", Seq: true, Preserve: true, Lexical: true})
	// bundle
	add(c20Scenario{Name: "bundle", Tree: cliTree{a: content(), b: small(ext), f("c"): small(ext)}, Args: []string{"-b", "-o", f("out"), a, b, f("c")},
		Tasks: []c20Task{{Srcs: []string{a, b, f("c")}, Dst: f("out"), Root: ".", Sep: sep}}, Seq: true, Preserve: true, Lexical: true})
	// bundle onto its first / its last input
	add(c20Scenario{Name: "bundle-onto-first", Tree: cliTree{a: content(), b: small(ext)}, Args: []string{"-b", "-o", a, a, b},
		Tasks: []c20Task{{Srcs: []string{a, b}, Dst: a, Root: ".", Sep: sep}}, Seq: true, Preserve: true, Lexical: true})
	add(c20Scenario{Name: "bundle-onto-last", Tree: cliTree{a: small(ext), b: content()}, Args: []string{"-b", "-o", b, a, b},
		Tasks: []c20Task{{Srcs: []string{a, b}, Dst: b, Root: ".", Sep: sep}}, Seq: true, Preserve: true, Lexical: true})
	// stdin → file, file → stdout
	add(c20Scenario{Name: "stdin-to-file", Tree: cliTree{"other.txt": []byte("keep")}, Args: []string{"--type", ext, "-o", f("out")}, Stdin: content(),
		Tasks: []c20Task{{Srcs: []string{""}, Dst: f("out"), Root: ""}}, Seq: true, Preserve: false, Lexical: true})
	add(c20Scenario{Name: "file-to-stdout", Tree: cliTree{a: content()}, Args: []string{a},
		Tasks: []c20Task{{Srcs: []string{a}, Dst: "", Root: "."}}, Seq: true, Preserve: false, Lexical: true})
	// directory → directory (mirror), parallel workers and sequential (-v)
	dirTree := func() cliTree {
		return cliTree{"in/" + a: content(), "in/b.css": small("css"), "in/sub/g.js": small("js"), "in/sub/deep/h.json": small("json"),
			"in/sub/i.html": small("html"), "in/skip.txt": []byte("not selected"), "in/.hidden.css": []byte("a { }")}
	}
	dirTasks := func(outp, root string, withSync bool) []c20Task {
		rel := func(p string) string { r, _ := filepath.Rel(root, p); return r }
		var ts []c20Task
		names := []string{"in/" + a, "in/b.css", "in/skip.txt", "in/sub/deep/h.json", "in/sub/g.js", "in/sub/i.html"}
		sort.Strings(names)
		for _, p := range names {
			if p == "in/skip.txt" {
				if withSync {
					ts = append(ts, c20Task{Srcs: []string{p}, Dst: filepath.Join(outp, rel(p)), Root: root, Sync: true})
				}
				continue
			}
			ts = append(ts, c20Task{Srcs: []string{p}, Dst: filepath.Join(outp, rel(p)), Root: root})
		}
		return ts
	}
	if a != "b.css" && size < 1<<20 {
		add(c20Scenario{Name: "dir-to-dir-seq", Tree: dirTree(), Args: []string{"-v", "-r", "-o", "out/", "in/"},
			Tasks: dirTasks("out", "in", false), OutDir: "out", Seq: true, Preserve: true, Lexical: true})
		add(c20Scenario{Name: "dir-to-dir-par", Tree: dirTree(), Args: []string{"-r", "-o", "out/", "in/"},
			Tasks: dirTasks("out", "in", false), OutDir: "out", Seq: false, Preserve: true, Lexical: true})
		add(c20Scenario{Name: "dir-to-dir-noslash", Tree: dirTree(), Args: []string{"-v", "-r", "-o", "out", "in"},
			Tasks: dirTasks("out", ".", false), OutDir: "out", Seq: true, Preserve: true, Lexical: true})
		// sync: unselected files are copied
		add(c20Scenario{Name: "sync-seq", Tree: dirTree(), Args: []string{"-v", "-r", "--sync", "-o", "out/", "in/"},
			Tasks: dirTasks("out", "in", true), OutDir: "out", Seq: true, Preserve: true, Lexical: true})
		add(c20Scenario{Name: "sync-par", Tree: dirTree(), Args: []string{"-r", "--sync", "-o", "out/", "in/"},
			Tasks: dirTasks("out", "in", true), OutDir: "out", Seq: false, Preserve: true, Lexical: true})
		// whole directory in place (sync of a file onto itself is a no-op)
		add(c20Scenario{Name: "dir-inplace-seq", Tree: dirTree(), Args: []string{"-v", "-r", "--sync", "-o", "in/", "in/"},
			Tasks: dirTasks("in", "in", true), OutDir: "in", Seq: true, Preserve: true, Lexical: true})
		add(c20Scenario{Name: "dir-inplace-par", Tree: dirTree(), Args: []string{"-r", "-o", "in/", "in/"},
			Tasks: dirTasks("in", "in", false), OutDir: "in", Seq: false, Preserve: true, Lexical: true})
	}
	return out
}

// scenarios whose point is the error paths; independent of ext/size loops
func c20ErrorScenarios(rng *h.RNG) []c20Scenario {
	bad := []byte("var a = 1 ;\nvar = ;\n")
	good := c20Content(rng, "js", 300)
	css := c20Content(rng, "css", 3000)
	return []c20Scenario{
		{Name: "minifier-error-inplace", Tree: cliTree{"a.js": bad}, Args: []string{"-o", "a.js", "a.js"},
			Tasks: []c20Task{{Srcs: []string{"a.js"}, Dst: "a.js", Root: "."}}, Seq: true, Preserve: true, Lexical: true},
		{Name: "minifier-error-separate", Tree: cliTree{"a.js": bad}, Args: []string{"-o", "o/out.js", "a.js"},
			Tasks: []c20Task{{Srcs: []string{"a.js"}, Dst: "o/out.js", Root: "."}}, Seq: true, Preserve: true, Lexical: true},
		{Name: "minifier-error-bundle-onto-input", Tree: cliTree{"a.js": good, "b.js": bad}, Args: []string{"-b", "-o", "a.js", "a.js", "b.js"},
			Tasks: []c20Task{{Srcs: []string{"a.js", "b.js"}, Dst: "a.js", Root: ".", Sep: ";\n"}}, Seq: true, Preserve: true, Lexical: true},
		// the minifier fails late, after content it rewrites in place: the original bytes must be written
		{Name: "minifier-error-late-inplace", Tree: cliTree{"a.html": c19LateFail(rng, "html")}, Args: []string{"-o", "a.html", "a.html"},
			Tasks: []c20Task{{Srcs: []string{"a.html"}, Dst: "a.html", Root: "."}}, Seq: true, Preserve: true, Lexical: true},
		{Name: "minifier-error-late-separate", Tree: cliTree{"a.xml": c19LateFail(rng, "xml")}, Args: []string{"-o", "o/out.xml", "a.xml"},
			Tasks: []c20Task{{Srcs: []string{"a.xml"}, Dst: "o/out.xml", Root: "."}}, Seq: true, Preserve: true, Lexical: true},
		// regressions of K-C20-1 / K-C20-2 / K-C19-1 (fixed by 3823c65, 44ee05b)
		{Name: "regress-bak-input", Tree: cliTree{"a.css.bak": css}, Args: []string{"--type=css", "-o", "a.css", "a.css.bak"},
			Tasks: []c20Task{{Srcs: []string{"a.css.bak"}, Dst: "a.css", Root: "."}}, Seq: true, Preserve: true, Lexical: true, Mime: "text/css"},
		{Name: "regress-bak-input-overwrite", Tree: cliTree{"a.css.bak": css, "a.css": []byte("old { }")}, Args: []string{"--type=css", "-o", "a.css", "a.css.bak"},
			Tasks: []c20Task{{Srcs: []string{"a.css.bak"}, Dst: "a.css", Root: "."}}, Seq: true, Preserve: true, Lexical: true, Mime: "text/css"},
		{Name: "regress-bak-exists", Tree: cliTree{"a.css": css, "a.css.bak": []byte("PRECIOUS\n")}, Args: []string{"-o", "a.css", "a.css"},
			Tasks: []c20Task{{Srcs: []string{"a.css"}, Dst: "a.css", Root: "."}}, Seq: true, Preserve: true, Lexical: true},
		{Name: "regress-bundle-bak-input", Tree: cliTree{"a.css": css, "a.css.bak": []byte("b { color : blue ; }")}, Args: []string{"--type=css", "-b", "-o", "a.css", "a.css", "a.css.bak"},
			Tasks: []c20Task{{Srcs: []string{"a.css", "a.css.bak"}, Dst: "a.css", Root: "."}}, Seq: true, Preserve: true, Lexical: true, Mime: "text/css"},
		{Name: "write-error-inplace", Tree: cliTree{"a.css": css}, Args: []string{"-o", "a.css", "a.css"},
			Tasks: []c20Task{{Srcs: []string{"a.css"}, Dst: "a.css", Root: "."}}, Seq: true, Preserve: true, Lexical: true,
			Inject: []string{"write:error=ENOSPC"}, WriteErr: true},
		{Name: "write-error-bundle-onto-input", Tree: cliTree{"a.js": good, "b.js": good}, Args: []string{"-b", "-o", "b.js", "a.js", "b.js"},
			Tasks: []c20Task{{Srcs: []string{"a.js", "b.js"}, Dst: "b.js", Root: ".", Sep: ";\n"}}, Seq: true, Preserve: true, Lexical: true,
			Inject: []string{"write:error=ENOSPC"}, WriteErr: true},
		{Name: "write-error-separate", Tree: cliTree{"a.css": css}, Args: []string{"-o", "out.css", "a.css"},
			Tasks: []c20Task{{Srcs: []string{"a.css"}, Dst: "out.css", Root: "."}}, Seq: true, Preserve: true, Lexical: true,
			Inject: []string{"write:error=ENOSPC"}, WriteErr: true},
	}
}

// c20CollisionScenarios: two sources, one destination (regression of K-C19-2; seeded change C20-m5).
func c20CollisionScenarios(rng *h.RNG) []c20Scenario {
	var out []c20Scenario
	for _, ext := range []string{"css", "js"} {
		f := "style." + ext
		own := c20Content(rng, ext, 400+rng.Intn(2000))
		other := c20Content(rng, ext, 300+rng.Intn(2000))
		ownOut, _ := cliLib(cliExtMap[ext], own)
		th, ve := "theme/"+f, "vendor/"+f
		tree := func() cliTree {
			return cliTree{th: own, ve: other, "theme/keep.txt": []byte("keep"), "theme/sub/x." + ext: c20Content(rng, ext, 200)}
		}
		twoTasks := []c20Task{{Srcs: []string{th}, Dst: th, Root: "theme"}, {Srcs: []string{ve}, Dst: th, Root: "vendor"}}
		intended := cliTree{th: ownOut}
		for _, par := range []bool{false, true} {
			v := []string{"-v"}
			suffix := "-seq"
			if par {
				v, suffix = nil, "-par"
			}
			arg := func(a ...string) []string { return append(append([]string{}, v...), a...) }
			out = append(out,
				// one of the two is written in place
				c20Scenario{Name: "collide-file-file-inplace" + suffix + "/" + ext, Tree: tree(), Args: arg("-o", "theme/", th, ve),
					Tasks: twoTasks, Seq: !par, Refuse: true, Intended: intended, Inputs: []string{th, ve}},
				c20Scenario{Name: "collide-file-file-inplace-reversed" + suffix + "/" + ext, Tree: tree(), Args: arg("-o", "theme/", ve, th),
					Tasks: []c20Task{twoTasks[1], twoTasks[0]}, Seq: !par, Refuse: true, Intended: intended, Inputs: []string{th, ve}},
				// a directory in place plus a file that maps onto one of its files
				c20Scenario{Name: "collide-dir-file-inplace" + suffix + "/" + ext, Tree: tree(), Args: arg("-r", "-o", "theme/", "theme/", ve),
					Tasks: []c20Task{{Srcs: []string{th}, Dst: th, Root: "theme"}, {Srcs: []string{"theme/sub/x." + ext}, Dst: "theme/sub/x." + ext, Root: "theme"}, twoTasks[1]},
					Seq:   !par, Refuse: true, Intended: cliTree{th: ownOut}, Inputs: []string{th, ve, "theme/sub/x." + ext}},
				// same base name from different directories into a fresh directory
				c20Scenario{Name: "collide-file-file-outdir" + suffix + "/" + ext, Tree: tree(), Args: arg("-o", "out/", th, ve),
					Tasks: []c20Task{{Srcs: []string{th}, Dst: "out/" + f, Root: "theme"}, {Srcs: []string{ve}, Dst: "out/" + f, Root: "vendor"}},
					Seq:   !par, Refuse: true, Intended: cliTree{}, Inputs: []string{th, ve}},
				c20Scenario{Name: "collide-dir-file-outdir" + suffix + "/" + ext, Tree: tree(), Args: arg("-r", "-o", "out/", "theme/", ve),
					Tasks: []c20Task{{Srcs: []string{th}, Dst: "out/" + f, Root: "theme"}, {Srcs: []string{ve}, Dst: "out/" + f, Root: "vendor"}},
					Seq:   !par, Refuse: true, Intended: cliTree{}, Inputs: []string{th, ve, "theme/sub/x." + ext}},
			)
		}
	}
	return out
}

// scenarios outside the lexical "same file" model: only the property is evaluated on the real directory
func c20AliasScenarios(rng *h.RNG) []c20Scenario {
	css := c20Content(rng, "css", 2000)
	return []c20Scenario{
		{Name: "alias-absolute-dst", Tree: cliTree{"a.css": css}, Args: []string{"-o", "$PWD/a.css", "a.css"},
			Tasks: []c20Task{{Srcs: []string{"a.css"}, Dst: "a.css", Root: "."}}, Seq: true},
		{Name: "alias-dotdot-dst", Tree: cliTree{"d/a.css": css}, Args: []string{"-o", "d/../d/a.css", "d/a.css"},
			Tasks: []c20Task{{Srcs: []string{"d/a.css"}, Dst: "d/a.css", Root: "d"}}, Seq: true},
		{Name: "alias-hardlink", Tree: cliTree{"a.css": css}, Args: []string{"-o", "b.css", "a.css"},
			Prep:  func(dir string) error { return os.Link(filepath.Join(dir, "a.css"), filepath.Join(dir, "b.css")) },
			Tasks: []c20Task{{Srcs: []string{"a.css"}, Dst: "b.css", Root: "."}}, Seq: true, Inputs: []string{"a.css"}},
		{Name: "alias-symlink-dst", Tree: cliTree{"a.css": css}, Args: []string{"-o", "l.css", "a.css"},
			Prep:  func(dir string) error { return os.Symlink("a.css", filepath.Join(dir, "l.css")) },
			Tasks: []c20Task{{Srcs: []string{"a.css"}, Dst: "l.css", Root: "."}}, Seq: true, Inputs: []string{"a.css"}},
		{Name: "alias-symlink-src", Tree: cliTree{"a.css": css}, Args: []string{"-o", "a.css", "l.css"},
			Prep:  func(dir string) error { return os.Symlink("a.css", filepath.Join(dir, "l.css")) },
			Tasks: []c20Task{{Srcs: []string{"l.css"}, Dst: "a.css", Root: "."}}, Seq: true, Inputs: []string{"l.css"}, Extra: cliTree{"l.css": css}, AliasDst: []string{"l.css"}},
	}
}

// ---------- the runner ----------

type c20Pending struct {
	kind  string // ops | run | plan | exec | safe
	sc    *c20Scenario
	what  string
	want  string
	want2 string
	wantT cliTree
	key   string
	cfg   string
}

type c20Runner struct {
	c          *Ctx
	bin        string
	lines      []string
	pend       []c20Pending
	nDiff      map[string]int
	suppressed int
	gaps       int
	intended   map[string]cliTree
}

// addDiff records a model/implementation difference, at most two per kind of difference and sixteen in all, so
// that the report (capped) keeps room for failing inputs of the property itself.
func (r *c20Runner) addDiff(f h.Finding) {
	if r.nDiff == nil {
		r.nDiff = map[string]int{}
	}
	k := f.What
	if len(k) > 36 {
		k = k[:36]
	}
	r.nDiff[k]++
	if r.nDiff[k] > 2 || r.nDiff[""] >= 16 {
		r.suppressed++
		return
	}
	r.nDiff[""]++
	r.c.R.Add(f)
}

// addFail records a failing input of the property, at most three per kind of failure.
func (r *c20Runner) addFail(f h.Finding) {
	if r.nDiff == nil {
		r.nDiff = map[string]int{}
	}
	k := "fail:" + f.What
	if len(k) > 34 {
		k = k[:34]
	}
	r.nDiff[k]++
	if r.nDiff[k] > 3 {
		r.suppressed++
		return
	}
	r.c.R.Add(f)
}

func (r *c20Runner) ask(line string, p c20Pending) {
	r.lines = append(r.lines, line)
	r.pend = append(r.pend, p)
}

// perTask groups real ops by the task whose destination / sources they name.
func c20OwnerOf(sc *c20Scenario, o c20Op) int {
	for i, t := range sc.Tasks {
		if t.Dst != "" && (o.A == t.Dst || o.A == t.Dst+".bak" || o.B == t.Dst || o.B == t.Dst+".bak") {
			return i
		}
	}
	for i, t := range sc.Tasks {
		for _, s := range t.Srcs {
			if o.A == s {
				return i
			}
		}
	}
	for i, t := range sc.Tasks {
		// attribute climbing: parent directories of the destination
		if t.Dst != "" && (o.Kind == "chmod" || o.Kind == "chown" || o.Kind == "chtimes") && strings.HasPrefix(t.Dst, o.A+"/") {
			return i
		}
	}
	return -1
}

// reference runs a scenario to completion and compares it with the model. Returns the reference run.
func (r *c20Runner) reference(st *h.Stage, sc *c20Scenario, run *cliRun) (*cliRun, error) {
	c := r.c
	key := sc.Name + ": " + sc.cmdline()
	st.Count(key, len(run.Ops) > 0)
	st.Tag("shape=" + strings.SplitN(sc.Name, "/", 2)[0])
	if run.Killed {
		c.R.Add(h.Finding{Stage: st.Name, Kind: "crash", What: "command killed without injection", Input: key})
		return run, nil
	}
	for _, n := range run.Notes {
		r.addDiff(h.Finding{Stage: st.Name, Kind: "diff", What: "unexpected failing system call: " + n, Input: key, Config: treeStr(sc.Tree)})
	}
	for _, o := range run.Ops {
		if o.Kind == "other" {
			r.addDiff(h.Finding{Stage: st.Name, Kind: "diff", What: "system call outside the model's op alphabet: " + o.A, Input: key, Impl: o.Call.Raw})
		}
	}
	// the property on the final state, and "no other file modified"
	if r.intended == nil {
		r.intended = map[string]cliTree{}
	}
	r.intended[sc.Name] = c20Intended(sc)
	if sc.Intended != nil {
		r.intended[sc.Name] = sc.Intended
	}
	if ok, why := c20SafeInv(sc.orig(), run.Tree, r.intended[sc.Name], sc.inputs(), sc.dsts()); !ok {
		r.addFail(h.Finding{Stage: st.Name, Kind: "fail", What: "after the complete run: " + why, Input: key, Config: "tree before: " + treeStr(sc.Tree), Impl: "tree after: " + treeStr(run.Tree)})
	}
	if sc.Refuse {
		mut := 0
		for _, o := range run.Ops {
			switch o.Kind {
			case "rename", "openTrunc", "write", "remove", "mkdir", "other":
				mut++
			}
		}
		same, why := treeEq(sc.orig(), run.Tree)
		if run.Exit == 0 || mut > 0 || !same {
			r.addDiff(h.Finding{Stage: st.Name, Kind: "diff", What: "two sources with one destination: the command must refuse before touching anything", Input: key,
				Impl: fmt.Sprintf("exit %d, %d mutating system calls, %s; ops: %s", run.Exit, mut, why, strings.Join(opStrings(run.Ops), "; "))})
		} else {
			st.Tag("refused-before-touching-anything")
		}
	}
	if !sc.Lexical {
		// regression of K-C19-4 (fixed by 3823c65): no backup is left behind, whatever the spelling of the same file
		for p := range run.Tree {
			if strings.HasSuffix(p, ".bak") {
				r.addFail(h.Finding{Stage: st.Name, Kind: "fail", What: "a file minified onto itself (differently spelled / linked) leaves a backup behind: " + p, Input: key, Impl: "tree after: " + treeStr(run.Tree)})
			}
		}
		return run, nil
	}
	// ---- model side: tasks one after the other on the evolving model tree ----
	r.compareWithModel(st, sc, run, key)
	return run, nil
}

// compareWithModel issues the vdrv requests for one reference run (answers are checked in flush()).
func (r *c20Runner) compareWithModel(st *h.Stage, sc *c20Scenario, run *cliRun, key string) {
	tree := sc.Tree.clone()
	dirSet := map[string]bool{}
	for _, d := range sc.Tree.dirs() {
		dirSet[d] = true
	}
	for _, d := range sc.Dirs {
		dirSet[d] = true
	}
	var wantOps []string // the model's global op sequence is assembled from the replies; here: expectations from Go for exit code etc.
	_ = wantOps
	// run()'s MkdirAll(output)
	var topMk []string
	if sc.OutDir != "" {
		cur := ""
		for _, comp := range strings.Split(sc.OutDir, "/") {
			if cur == "" {
				cur = comp
			} else {
				cur += "/" + comp
			}
			if !dirSet[cur] {
				topMk = append(topMk, "mkdir "+cur)
				dirSet[cur] = true
			}
		}
	}
	fails := 0
	type taskExp struct{ line string }
	realOps := coalesce(run.Ops)
	var perTask = make([][]string, len(sc.Tasks))
	var unowned []string
	var realMk []string
	isDst := sc.dsts()
	for _, o := range realOps {
		if o.Kind == "mkdir" {
			realMk = append(realMk, o.String())
			continue
		}
		if (o.Kind == "chmod" || o.Kind == "chown" || o.Kind == "chtimes") && !isDst[o.A] {
			realMk = append(realMk, o.String()) // attributes of mirrored directories: several tasks climb through the same directory
			continue
		}
		i := c20OwnerOf(sc, o)
		if i < 0 {
			unowned = append(unowned, o.String())
			continue
		}
		perTask[i] = append(perTask[i], o.String())
	}
	for _, u := range unowned {
		r.addDiff(h.Finding{Stage: st.Name, Kind: "diff", What: "system call on a path that belongs to no task: " + u, Input: key})
	}
	var seqWant []string
	seqWant = append(seqWant, topMk...)
	for i, t := range sc.Tasks {
		// what the real library makes of the bytes this task reads
		var parts [][]byte
		for _, s := range t.Srcs {
			if s == "" {
				parts = append(parts, sc.Stdin)
			} else {
				parts = append(parts, tree[s])
			}
		}
		in := bytes.Join(parts, []byte(t.Sep))
		var outB []byte
		libOk := true
		if t.Sync {
			outB = in
		} else {
			mt := cliMime(t.Srcs[0])
			if sc.Mime != "" {
				mt = sc.Mime
			} else if t.Srcs[0] == "" {
				mt = cliExtMap[strings.TrimPrefix(filepath.Ext(t.Dst), ".")]
			}
			outB, libOk = cliLib(mt, in)
		}
		if !libOk {
			fails++
		}
		noop := t.Skip || (t.Sync && t.Srcs[0] == t.Dst)
		refused := !noop && c20Refused(t, tree)
		if refused {
			fails++
			noop = true
		}
		dirs := make([]string, 0, len(dirSet))
		for d := range dirSet {
			dirs = append(dirs, d)
		}
		sort.Strings(dirs)
		wok := !sc.WriteErr
		chunks := [][]byte{outB}
		if len(outB) == 0 || sc.WriteErr {
			chunks = nil
		}
		cfg := fmt.Sprintf("task %d: srcs=%v dst=%q root=%q sync=%v", i, t.Srcs, t.Dst, t.Root, t.Sync)
		small := len(in) <= 1<<16
		if !noop {
			lo, so := "1", h.Hex(outB)
			if !libOk {
				lo, so = "0", "-"
			}
			r.ask(c20Req("model.c20.plan", tree, dirs, t, sc.Preserve, sc.Stdin, wok, chunks, h.HexS(lo), so),
				c20Pending{kind: "plan", sc: sc, key: key, cfg: cfg, want: string(in), want2: string(outB)})
		}
		r.ask(c20Req("model.c20.ops", tree, dirs, t, sc.Preserve, sc.Stdin, wok, chunks),
			c20Pending{kind: "ops", sc: sc, key: key, cfg: cfg, want: strings.Join(perTask[i], "\n"), what: fmt.Sprint(i)})
		r.ask(c20Req("model.c20.enabled", tree, dirs, t, sc.Preserve, sc.Stdin, wok, chunks),
			c20Pending{kind: "enabled", sc: sc, key: key, cfg: cfg})
		// advance the Go-side expectation of the tree (independent of the model): dst gets outB, .bak disappears
		next := tree.clone()
		if !noop && t.Dst != "" {
			if sc.WriteErr {
				// in place: restored; separate: the destination exists and is empty
				inPlace := false
				for _, s := range t.Srcs {
					if s == t.Dst {
						inPlace = true
					}
				}
				if !inPlace {
					next[t.Dst] = []byte{}
				}
			} else {
				next[t.Dst] = outB
			}
			for d := filepath.Dir(t.Dst); d != "." && d != "/"; d = filepath.Dir(d) {
				dirSet[d] = true
			}
		}
		if small || len(sc.Tasks) == 1 {
			r.ask(c20Req("model.c20.run", tree, dirs, t, sc.Preserve, sc.Stdin, wok, chunks, h.Int(-1)),
				c20Pending{kind: "run", sc: sc, key: key, cfg: cfg, wantT: next})
		}
		tree = next
	}
	// Go-side oracle of the final tree (independent of the model): every destination holds the library output
	if ok, why := treeEq(tree, run.Tree); !ok {
		r.addDiff(h.Finding{Stage: st.Name, Kind: "diff", What: "final tree is not 'every destination holds the library output, nothing else changed' (Go oracle): " + why,
			Input: key, Config: "tree before: " + treeStr(sc.Tree), Impl: "tree after: " + treeStr(run.Tree)})
	}
	wantExit := 0
	if sc.WriteErr {
		wantExit = 1 // a failed write is reported (fix ad69de8)
	}
	if fails > 0 {
		wantExit = 1
	}
	if run.Exit != wantExit {
		r.addDiff(h.Finding{Stage: st.Name, Kind: "diff", What: fmt.Sprintf("exit status %d, expected %d", run.Exit, wantExit), Input: key, Impl: string(run.Stderr)})
	}
	// mkdir calls: exactly the missing directories, each before the first open below it
	sort.Strings(realMk)
	r.pend = append(r.pend, c20Pending{kind: "mkdirs", sc: sc, key: key, want: strings.Join(realMk, "\n"), what: strings.Join(topMk, "\n")})
	r.lines = append(r.lines, "echo -")
	if sc.Seq {
		// global order of a sequential run
		r.pend = append(r.pend, c20Pending{kind: "seq", sc: sc, key: key, want: strings.Join(opStrings(realOps), "\n"), what: strings.Join(topMk, "\n")})
		r.lines = append(r.lines, "echo -")
	}
}

// flush evaluates the queued model requests and compares.
func (r *c20Runner) flush(stage string) error {
	rep, err := evalSharded(r.lines)
	if err != nil {
		return err
	}
	type acc struct {
		ops     [][]string
		mk      map[string]bool
		dirAttr []string
	}
	per := map[*c20Scenario]*acc{}
	get := func(sc *c20Scenario) *acc {
		if per[sc] == nil {
			per[sc] = &acc{mk: map[string]bool{}}
		}
		return per[sc]
	}
	for i, p := range r.pend {
		b, ok, msg := h.DecodeReply(rep[i])
		if !ok {
			r.addDiff(h.Finding{Stage: stage, Kind: "diff", What: "model error: " + msg, Input: p.key, Config: p.cfg})
			continue
		}
		switch p.kind {
		case "plan":
			items := h.DecodeListReply(b)
			if len(items) != 3 {
				r.addDiff(h.Finding{Stage: stage, Kind: "diff", What: "bad plan reply", Input: p.key, Config: p.cfg})
				continue
			}
			w := []string{p.want, p.want2}
			if string(items[0]) != w[0] {
				r.addDiff(h.Finding{Stage: stage, Kind: "diff", What: "bytes read by the task (inputBytes)", Input: p.key, Config: p.cfg, Impl: h.Q(c20clip([]byte(w[0]))), Model: h.Q(c20clip(items[0]))})
			}
			if string(items[1]) != w[1] {
				r.addDiff(h.Finding{Stage: stage, Kind: "diff", What: "bytes written by the task (outBytes)", Input: p.key, Config: p.cfg, Impl: h.Q(c20clip([]byte(w[1]))), Model: h.Q(c20clip(items[1]))})
			}
		case "ops":
			items := h.DecodeListReply(b)
			var ms []string
			var cur []c20Op
			for _, it := range items {
				s := string(it)
				if strings.HasPrefix(s, "mkdir ") {
					get(p.sc).mk[s] = true
					continue
				}
				f := strings.Fields(s)
				if (f[0] == "chmod" || f[0] == "chown" || f[0] == "chtimes") && len(f) > 1 && !p.sc.dsts()[f[1]] {
					get(p.sc).dirAttr = append(get(p.sc).dirAttr, s)
					continue
				}
				o := c20Op{Kind: f[0], A: ""}
				if len(f) > 1 {
					o.A = f[1]
				}
				if f[0] == "rename" && len(f) > 2 {
					o.B = f[2]
				}
				if f[0] == "write" && len(f) > 2 {
					o.N, _ = strconv.ParseInt(f[2], 10, 64)
				}
				cur = append(cur, o)
			}
			ms = opStrings(coalesce(cur))
			// a write of 0 bytes is no system call
			var ms2 []string
			for _, s := range ms {
				if strings.HasPrefix(s, "write ") && strings.HasSuffix(s, " 0") {
					continue
				}
				ms2 = append(ms2, s)
			}
			get(p.sc).ops = append(get(p.sc).ops, items2strings(items))
			if strings.Join(ms2, "\n") != p.want {
				r.addDiff(h.Finding{Stage: stage, Kind: "diff", What: "system-call sequence of task " + p.what + " differs from minifyOps", Input: p.key, Config: p.cfg,
					Impl: strings.ReplaceAll(p.want, "\n", "; "), Model: strings.Join(ms2, "; ")})
			}
		case "enabled":
			if string(b) != "ok" {
				r.addDiff(h.Finding{Stage: stage, Kind: "diff", What: "model: a precondition fails along minifyOps (success path inconsistent) at op " + string(b), Input: p.key, Config: p.cfg})
			}
		case "run":
			mt := decodeTree(b)
			if ok, why := treeEq(p.wantT, mt); !ok {
				r.addDiff(h.Finding{Stage: stage, Kind: "diff", What: "tree after the task differs from `run (minifyOps …)`: " + why, Input: p.key, Config: p.cfg,
					Impl: treeStr(p.wantT), Model: treeStr(mt)})
			}
		case "mkdirs":
			want := map[string]bool{}
			for _, s := range strings.Split(p.what, "\n") {
				if s != "" {
					want[s] = true
				}
			}
			for s := range get(p.sc).mk {
				want[s] = true
			}
			var ws []string
			for s := range want {
				ws = append(ws, s)
			}
			ws = append(ws, get(p.sc).dirAttr...)
			sort.Strings(ws)
			if strings.Join(ws, "\n") != p.want {
				r.addDiff(h.Finding{Stage: stage, Kind: "diff", What: "directories created and directory attributes set", Input: p.key, Impl: strings.ReplaceAll(p.want, "\n", "; "), Model: strings.Join(ws, "; ")})
			}
		case "seq":
			var all []string
			if p.what != "" {
				all = append(all, strings.Split(p.what, "\n")...)
			}
			seen := map[string]bool{}
			for _, s := range all {
				seen[s] = true
			}
			var ops []c20Op
			for _, s := range all {
				ops = append(ops, c20Op{Kind: "mkdir", A: strings.TrimPrefix(s, "mkdir ")})
			}
			for _, task := range get(p.sc).ops {
				for _, s := range task {
					f := strings.Fields(s)
					o := c20Op{Kind: f[0]}
					if len(f) > 1 {
						o.A = f[1]
					}
					if f[0] == "rename" && len(f) > 2 {
						o.B = f[2]
					}
					if f[0] == "write" && len(f) > 2 {
						o.N, _ = strconv.ParseInt(f[2], 10, 64)
						if o.N == 0 {
							continue
						}
					}
					if f[0] == "mkdir" {
						if seen[s] {
							continue
						}
						seen[s] = true
					}
					ops = append(ops, o)
				}
			}
			got := strings.Join(opStrings(coalesce(ops)), "\n")
			if got != p.want {
				r.addDiff(h.Finding{Stage: stage, Kind: "diff", What: "global system-call order of the sequential run", Input: p.key,
					Impl: strings.ReplaceAll(p.want, "\n", "; "), Model: strings.ReplaceAll(got, "\n", "; ")})
			}
		case "exec":
			mt := decodeTree(b)
			if ok, why := treeEq(p.wantT, mt); !ok {
				r.addDiff(h.Finding{Stage: stage, Kind: "diff", What: "directory after the kill differs from the model's semantics of the completed system calls (" + p.what + "): " + why,
					Input: p.key, Config: p.cfg, Impl: treeStr(p.wantT), Model: treeStr(mt)})
			}
		case "safe":
			if string(b) != p.want {
				r.addDiff(h.Finding{Stage: stage, Kind: "diff", What: "spec.c20.safeinv disagrees with the Go evaluation of SafeInv (" + p.what + ")", Input: p.key, Config: p.cfg, Impl: p.want, Model: string(b)})
			}
		}
	}
	r.lines, r.pend = nil, nil
	return nil
}

// evalSharded spreads few but heavy request lines (whole trees in hex) over several vdrv processes.
func evalSharded(lines []string) ([]string, error) {
	n := len(lines)
	out := make([]string, n)
	w := h.Workers
	if w > n {
		w = n
	}
	if w <= 1 {
		return h.Eval(lines)
	}
	errs := make([]error, w)
	done := make(chan int, w)
	for k := 0; k < w; k++ {
		go func(k int) {
			defer func() { done <- k }()
			var idx []int
			var part []string
			for i := k; i < n; i += w {
				idx = append(idx, i)
				part = append(part, lines[i])
			}
			rep, err := h.Eval(part)
			if err != nil {
				errs[k] = err
				return
			}
			for j, i := range idx {
				out[i] = rep[j]
			}
		}(k)
	}
	for k := 0; k < w; k++ {
		<-done
	}
	for _, e := range errs {
		if e != nil {
			return nil, e
		}
	}
	return out, nil
}

// parallelDo runs f(0..n-1) on a small pool.
func parallelDo(n, workers int, f func(i int)) {
	if workers > n {
		workers = n
	}
	ch := make(chan int)
	done := make(chan bool)
	for w := 0; w < workers; w++ {
		go func() {
			for i := range ch {
				f(i)
			}
			done <- true
		}()
	}
	for i := 0; i < n; i++ {
		ch <- i
	}
	close(ch)
	for w := 0; w < workers; w++ {
		<-done
	}
}

func items2strings(items [][]byte) []string {
	s := make([]string, len(items))
	for i, it := range items {
		s[i] = string(it)
	}
	return s
}

func c20clip(b []byte) []byte {
	if len(b) > 200 {
		return append(append([]byte{}, b[:200]...), "…"...)
	}
	return b
}

// killSweep re-runs the scenario once per kill point of the reference run.
func (r *c20Runner) killSweep(st *h.Stage, sc *c20Scenario, ref *cliRun, contract bool) error {
	c := r.c
	final := ref.Tree               // what the reference run wrote (source of the write data for the contract check)
	intended := r.intended[sc.Name] // "the complete new output" for SafeInv (Go oracle, not the command's own result)
	total := len(ref.Points)
	covered := map[int]bool{}
	refStr := opStrings(ref.Ops)
	type job struct {
		name string
		ord  int
		idx  int
		run  *cliRun
		err  error
		inj  []string
	}
	process := func(j *job) {
		run, inj := j.run, j.inj
		key := fmt.Sprintf("%s: %s killed at system call %d/%d (%s #%d)", sc.Name, sc.cmdline(), j.idx+1, total, j.name, j.ord)
		if !run.Killed {
			st.Tag("not-killed")
			return
		}
		done := 0
		for _, p := range run.Points {
			if p.Done {
				done++
			}
		}
		covered[done] = true
		st.Count(key, true)
		st.Tag("shape=" + strings.SplitN(sc.Name, "/", 2)[0])
		ok, why := c20SafeInv(sc.orig(), run.Tree, intended, sc.inputs(), sc.dsts())
		replay := fmt.Sprintf("cd <fresh copy of the tree> && strace -f -e trace=%s -e inject=%s minify %s", c20Trace, strings.Join(inj, " -e inject="), strings.Join(sc.Args, " "))
		if !ok {
			r.addFail(h.Finding{Stage: st.Name, Kind: "fail", What: "SafeInv violated after kill: " + why, Input: key,
				Config: "replay: " + replay + " | tree before: " + treeStr(sc.Tree), Impl: "tree after kill: " + treeStr(run.Tree)})
		}
		// files that take no part must be untouched at every crash point
		part := map[string]bool{}
		for _, t := range sc.Tasks {
			part[t.Dst], part[t.Dst+".bak"] = true, true
			for _, s := range t.Srcs {
				part[s+".bak"] = true // aliases: the backup is named after the source
			}
		}
		for p := range sc.Tree {
			if strings.HasSuffix(p, ".bak") {
				delete(part, p) // an existing *.bak is never a backup of this run
			}
		}
		for _, t := range sc.Tasks {
			part[t.Dst] = true
		}
		for p, v := range sc.Tree {
			if !part[p] {
				if w, ok := run.Tree[p]; !ok || !bytes.Equal(v, w) {
					r.addFail(h.Finding{Stage: st.Name, Kind: "fail", What: "a file that is neither destination nor backup changed: " + p, Input: key, Config: "replay: " + replay, Impl: treeStr(run.Tree)})
				}
			}
		}
		// spec side in Lean on the same three trees
		if treeSize(sc.Tree) < 1<<16 {
			var dl []string
			for d := range sc.dsts() {
				dl = append(dl, d)
			}
			sort.Strings(dl)
			want := "0"
			if ok {
				want = "1"
			}
			r.ask(strings.Join([]string{"spec.c20.safeinv", hexFiles(sc.orig()), hexFiles(run.Tree), hexFiles(intended), h.ListS(sc.inputs()), h.ListS(dl)}, " "),
				c20Pending{kind: "safe", sc: sc, key: key, want: want, what: why})
		}
		if contract && sc.Seq && treeSize(sc.Tree) < 1<<16 {
			// the completed calls must be a prefix of the reference sequence, and the model's semantics of
			// that prefix must give the directory that is really there
			got := opStrings(run.Ops)
			if len(got) > len(refStr) || strings.Join(got, "\n") != strings.Join(refStr[:len(got)], "\n") {
				r.addDiff(h.Finding{Stage: st.Name, Kind: "diff", What: "killed run is not a prefix of the reference run", Input: key, Impl: strings.Join(got, "; "), Model: strings.Join(refStr, "; ")})
			}
			var gs [][][]byte
			off := map[string]int64{}
			for _, o := range run.Ops {
				switch o.Kind {
				case "rename":
					gs = append(gs, [][]byte{[]byte("rename"), []byte(o.A), []byte(o.B)})
				case "write":
					data := final[o.A]
					lo, hi := off[o.A], off[o.A]+o.N
					if hi > int64(len(data)) {
						hi = int64(len(data))
					}
					if lo > hi {
						lo = hi
					}
					off[o.A] = hi
					gs = append(gs, [][]byte{[]byte("write"), []byte(o.A), data[lo:hi]})
				case "openTrunc":
					off[o.A] = 0
					gs = append(gs, [][]byte{[]byte(o.Kind), []byte(o.A)})
				case "other":
				default:
					gs = append(gs, [][]byte{[]byte(o.Kind), []byte(o.A)})
				}
			}
			r.ask("model.c20.exec "+hexFiles(sc.Tree)+" "+h.Groups(gs),
				c20Pending{kind: "exec", sc: sc, key: key, wantT: run.Tree, what: strings.Join(got, "; ")})
		}
	}
	runJobs := func(jobs []*job) error {
		parallelDo(len(jobs), 8, func(i int) {
			j := jobs[i]
			j.inj = append(append([]string{}, sc.Inject...), fmt.Sprintf("%s:signal=SIGKILL:when=%d", j.name, j.ord))
			j.run, j.err = runCLI(r.bin, sc.Tree, sc.Dirs, sc.Prep, sc.Args, sc.Stdin, j.inj, true)
		})
		for _, j := range jobs {
			if j.err != nil {
				return j.err
			}
			process(j)
		}
		return nil
	}
	skip := func(pt *sysCall) bool {
		// the write-error injection occupies the write call; the state before it is covered by its neighbours
		return sc.WriteErr && pt.Name == "write"
	}
	var jobs []*job
	for i, pt := range ref.Points {
		if !skip(pt) {
			jobs = append(jobs, &job{name: pt.Name, ord: pt.Ord, idx: i})
		}
	}
	if err := runJobs(jobs); err != nil {
		return err
	}
	if sc.Seq {
		// strace counts per thread and per system call: a goroutine that moved to another thread shifts the kill
		// point, and a boundary whose (call, ordinal) is reached earlier by another thread cannot be hit at all.
		// Boundaries separated only by calls that change no file content or name (openRead, close, chmod, chown,
		// chtimes, failed calls) leave the same directory state: coverage is required per state class.
		mut := map[*sysCall]bool{}
		for _, o := range ref.Ops {
			switch o.Kind {
			case "rename", "openTrunc", "write", "remove", "mkdir", "other":
				mut[o.Call] = true
			}
		}
		cls := make([]int, total+1)
		for k := 0; k < total; k++ {
			cls[k+1] = cls[k]
			if mut[ref.Points[k]] {
				cls[k+1]++
			}
		}
		clsCovered := func() map[int]bool {
			m := map[int]bool{}
			for k := range covered {
				if k <= total {
					m[cls[k]] = true
				}
			}
			return m
		}
		for round := 0; round < 6; round++ {
			cc := clsCovered()
			var again []*job
			for k := 0; k < total; k++ {
				if cc[cls[k]] || skip(ref.Points[k]) {
					continue
				}
				pt := ref.Points[k]
				again = append(again, &job{name: pt.Name, ord: pt.Ord, idx: k})
				for o := pt.Ord - 1; o >= 1 && o >= pt.Ord-round; o-- {
					again = append(again, &job{name: pt.Name, ord: o, idx: k})
				}
			}
			if len(again) == 0 {
				break
			}
			st.Tag("retried-boundary")
			if err := runJobs(again); err != nil {
				return err
			}
		}
		cc := clsCovered()
		missing, raw := 0, 0
		var which []string
		for k := 0; k < total; k++ {
			if !covered[k] && !skip(ref.Points[k]) {
				raw++
			}
			if !cc[cls[k]] && !skip(ref.Points[k]) {
				missing++
				which = append(which, fmt.Sprintf("%d:%s#%d", k, ref.Points[k].Name, ref.Points[k].Ord))
			}
		}
		if raw > 0 {
			st.Tag(fmt.Sprintf("boundaries-covered-only-through-an-equal-state=%d", raw-missing))
		}
		if missing > 0 {
			st.Tag(fmt.Sprintf("uncovered-states=%d", missing))
			r.gaps++
			if r.gaps <= 8 {
				c.R.Note("%s: %d of %d system-call boundaries (directory states) were not hit by the kill sweep: %v", sc.Name, missing, total, which)
			}
		} else {
			st.Tag("all-directory-states-hit")
		}
	}
	return nil
}

func treeSize(t cliTree) int {
	n := 0
	for _, v := range t {
		n += len(v)
	}
	return n
}

// asyncKills kills the untraced command after random delays (kills inside a system call, e.g. a large write).
func (r *c20Runner) asyncKills(st *h.Stage, sc *c20Scenario, final cliTree, n int) error {
	c := r.c
	for i := 0; i < n; i++ {
		dir, err := os.MkdirTemp("", "verif-c20a-")
		if err != nil {
			return err
		}
		work := filepath.Join(dir, "w")
		os.Mkdir(work, 0o755)
		if err := sc.Tree.materialise(work, sc.Dirs); err != nil {
			os.RemoveAll(dir)
			return err
		}
		cmd := exec.Command(r.bin, sc.Args...)
		cmd.Dir = work
		delay := time.Duration(c.Rng.Intn(6000)) * time.Microsecond
		if err := cmd.Start(); err != nil {
			os.RemoveAll(dir)
			return err
		}
		time.Sleep(delay)
		cmd.Process.Kill()
		cmd.Wait()
		cur, _, _ := readTree(work)
		key := fmt.Sprintf("%s: %s SIGKILL after %v", sc.Name, sc.cmdline(), delay)
		partial := false
		for d := range sc.dsts() {
			if v, ok := cur[d]; ok && !bytes.Equal(v, final[d]) && !bytes.Equal(v, sc.Tree[d]) {
				partial = true
			}
		}
		st.Count(key, partial)
		if partial {
			st.Tag("partial-destination")
		}
		if ok, why := c20SafeInv(sc.Tree, cur, final, sc.inputs(), sc.dsts()); !ok {
			r.addFail(h.Finding{Stage: st.Name, Kind: "fail", What: "SafeInv violated after asynchronous kill: " + why, Input: key, Config: "tree before: " + treeStr(sc.Tree), Impl: "tree after kill: " + treeStr(cur)})
		}
		os.RemoveAll(dir)
	}
	return nil
}

func init() {
	register("C20", func(c *Ctx) error {
		bin, bdir, err := cliBuild(c.Repo)
		if err != nil {
			return err
		}
		defer os.RemoveAll(bdir)
		if _, err := exec.LookPath("strace"); err != nil {
			return fmt.Errorf("strace not found: %v", err)
		}
		r := &c20Runner{c: c, bin: bin}
		thorough := c.Thorough() || c.Search
		sizes := []int{0, 1, 4096, 1 << 20}
		exts := []string{"css", "js"}
		if thorough {
			exts = []string{"css", "js", "html", "json", "svg", "xml"}
		}

		// ---- stage 1: op-sequence equality for all shapes × sizes ----
		st := c.R.StartStage("opseq", "real CLI under strace vs Model.CliFs.minifyOps: per task the normalised system calls, the bytes read/written (real library in-process), the tree after each task, exit status; non-trivial = at least one system call touched the scratch tree")
		type refd struct {
			sc  c20Scenario
			run *cliRun
		}
		var refs []refd
		var all []c20Scenario
		for _, ext := range exts {
			for _, size := range sizes {
				all = append(all, c20Scenarios(c.Rng.Fork(), size, ext)...)
			}
		}
		all = append(all, c20ErrorScenarios(c.Rng.Fork())...)
		all = append(all, c20AliasScenarios(c.Rng.Fork())...)
		all = append(all, c20CollisionScenarios(c.Rng.Fork())...)
		t0 := time.Now()
		runs := make([]*cliRun, len(all))
		rerrs := make([]error, len(all))
		parallelDo(len(all), 8, func(i int) {
			sc := &all[i]
			if sc.WriteErr {
				// the ordinal of the destination write is found by a dry run without the error
				d, err := runCLI(r.bin, sc.Tree, sc.Dirs, sc.Prep, sc.Args, sc.Stdin, nil, true)
				if err != nil {
					rerrs[i] = err
					return
				}
				ord := 0
				for _, o := range d.Ops {
					if o.Kind == "write" {
						ord = o.Call.Ord
						break
					}
				}
				if ord == 0 {
					ord = 1 // no write to the destination at all: the comparison with the model will say so
				}
				sc.Inject = []string{fmt.Sprintf("write:error=ENOSPC:when=%d+", ord)}
			}
			runs[i], rerrs[i] = runCLI(r.bin, sc.Tree, sc.Dirs, sc.Prep, sc.Args, sc.Stdin, sc.Inject, true)
		})
		if os.Getenv("C20_TIMING") != "" {
			fmt.Fprintln(os.Stderr, "reference runs done", time.Since(t0))
		}
		for i := range all {
			if rerrs[i] != nil {
				return rerrs[i]
			}
			sc := &all[i]
			run, err := r.reference(st, sc, runs[i])
			if err != nil {
				return err
			}
			refs = append(refs, refd{*sc, run})
		}
		if os.Getenv("C20_TIMING") != "" {
			fmt.Fprintln(os.Stderr, "comparisons queued", time.Since(t0), len(r.lines), "lines")
		}
		if err := r.flush(st.Name); err != nil {
			return err
		}
		st.End()

		// ---- stage 2: kill injection ----
		st2 := c.R.StartStage("kill", "the real CLI re-run once per system call of the reference run with strace inject=…:signal=SIGKILL:when=N; SafeInv evaluated on the real directory (Go and spec.c20.safeinv), directory compared with the model's semantics of the completed calls; non-trivial = the command was really killed")
		for i := range refs {
			sc, ref := &refs[i].sc, refs[i].run
			shape := strings.SplitN(sc.Name, "/", 2)[0]
			parts := strings.Split(sc.Name, "/")
			size := 0
			if len(parts) == 3 {
				size, _ = strconv.Atoi(parts[2])
			}
			want := thorough
			if !want {
				switch {
				case shape == "inplace" && (size == 0 || size == 4096 || size == 1<<20) && parts[1] == "css":
					want = true
				case shape == "inplace" && size == 1 && parts[1] == "js":
					want = true
				case shape == "bundle-onto-last" && size == 4096 && parts[1] == "js":
					want = true
				case shape == "write-error-inplace", shape == "minifier-error-inplace", shape == "alias-absolute-dst", shape == "alias-symlink-src",
					strings.HasPrefix(shape, "collide-"),
					shape == "regress-bak-input", shape == "regress-bak-input-overwrite", shape == "regress-bak-exists", shape == "regress-bundle-bak-input":
					want = true
				case shape == "dir-inplace-par" && size == 4096 && parts[1] == "css":
					want = true
				}
			}
			if !want || ref == nil {
				continue
			}
			if err := r.killSweep(st2, sc, ref, sc.Lexical); err != nil {
				return err
			}
		}
		if err := r.flush(st2.Name); err != nil {
			return err
		}
		st2.Exhaustive = true
		st2.End()

		// ---- stage 3 (thorough): kills at random instants, also inside a large write ----
		if thorough {
			st3 := c.R.StartStage("async-kill", "untraced command killed after a random delay (0–6 ms), in place on a 4 MiB file; SafeInv on the real directory; non-trivial = the destination was caught partially written")
			big := c20Content(c.Rng.Fork(), "css", 4<<20)
			sc := c20Scenario{Name: "inplace-async/css/4MiB", Tree: cliTree{"a.css": big}, Args: []string{"-q", "-o", "a.css", "a.css"},
				Tasks: []c20Task{{Srcs: []string{"a.css"}, Dst: "a.css", Root: "."}}}
			full, err := runCLI(r.bin, sc.Tree, nil, nil, sc.Args, nil, nil, false)
			if err != nil {
				return err
			}
			if err := r.asyncKills(st3, &sc, full.Tree, 150); err != nil {
				return err
			}
			st3.End()
		}

		if r.gaps > 8 {
			c.R.Note("%d sweeps in all left some directory state unvisited (strace counts per thread)", r.gaps)
		}
		if r.suppressed > 0 {
			c.R.Note("%d further model/implementation differences of kinds already reported were not listed", r.suppressed)
		}

		// ---- known findings ----
		for _, k := range h.Known("C20") {
			if k.Status != "open" {
				continue
			}
			args := strings.Fields(k.ReplayStr("args"))
			tree := cliTree{}
			if m, ok := k.Replay["tree"].(map[string]any); ok {
				for p, v := range m {
					tree[p], _ = []byte(fmt.Sprint(v)), true
				}
			}
			lost := k.ReplayStr("lost")
			run, err := runCLI(r.bin, tree, nil, nil, args, nil, nil, false)
			if err != nil {
				return err
			}
			_, still := run.Tree[lost]
			_, bak := run.Tree[lost+".bak"]
			fails := !still && !bak
			c.R.AddKnown(k.ID, fails, k.What, "tree after: "+treeStr(run.Tree))
		}
		return nil
	})
}

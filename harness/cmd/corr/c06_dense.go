package main

// C06 — generator of "dense" documents and measured feature tags.
//
// The documents of c06Doc (c06.go) have at most a handful of tokens between two pieces of character data.  The
// behaviours of xml.go that depend on what lies at, or far behind, a token boundary need other inputs:
//
//   - the trailing-space look-ahead of the text branch (`tb.Peek(i)` until a text / CDATA / tag / EOF) and the
//     TokenBuffer behind it (reallocation: Peek far ahead, then Shift): runs of 0–40 tokens that the look-ahead skips
//     (comments, processing instructions with 0–12 pseudo-attributes, DOCTYPE in the prolog) and empty CDATA
//     sections, between pieces of character data with every combination of white space on both sides of the run;
//   - the `brackets` count threaded through escapeCDEnd and the `omitSpace` flag: one logical string of character
//     data is cut at random positions into 1–6 pieces, every piece becomes a text (each character literally or as a
//     reference) or a CDATA section, with comments / empty CDATA / PIs between the pieces — so `]`, `]]`, `>`, `&gt;`,
//     `&#62;`, `]]>`, CR LF, and `&`/`<` followed by name characters are assembled across tokens in every split;
//   - attribute values built from a logical value whose first / last characters are quotes, references, white space;
//   - names, values, words, comments and CDATA sections whose lengths cross 64 / 128 / 256 / 1024 / 4096 bytes.
//
// c06Features measures on the token list of the REAL lexer which of these shapes a document contains; the tags
// go to the stage distribution (evidence), so the coverage of every shape is visible per run.

import (
	"fmt"
	"sort"
	"strconv"
	"strings"
	"unicode/utf8"

	pxml "github.com/tdewolff/parse/v2/xml"

	"verifharness/h"
)

// ---------- builder: segments of character data (merged, `]]>` repaired) and markup ----------

type c06Builder struct {
	r    *h.RNG
	segs []c06Seg
}

type c06Seg struct {
	text bool
	s    string
}

func (b *c06Builder) text(s string) {
	if s == "" {
		return
	}
	if n := len(b.segs); n > 0 && b.segs[n-1].text {
		b.segs[n-1].s += s
		return
	}
	b.segs = append(b.segs, c06Seg{true, s})
}

func (b *c06Builder) markup(s string) {
	if s != "" {
		b.segs = append(b.segs, c06Seg{false, s})
	}
}

// String: adjacent text segments were merged; a literal `]]>` that arose in one of them is written `]]&gt;`
// (same characters, well-formed input).
func (b *c06Builder) String() string {
	var sb strings.Builder
	for _, sg := range b.segs {
		if sg.text {
			sb.WriteString(strings.ReplaceAll(sg.s, "]]>", "]]&gt;"))
		} else {
			sb.WriteString(sg.s)
		}
	}
	return sb.String()
}

// ---------- lengths that cross buffer sizes ----------

var c06Lens = []int{31, 32, 33, 62, 63, 64, 65, 66, 127, 128, 129, 255, 256, 257, 511, 513, 1023, 1025, 4095, 4097, 5000}

func c06Long(r *h.RNG, unit string) string {
	n := c06Lens[r.Intn(len(c06Lens))]
	if r.Chance(60) { // mostly the small classes
		n = c06Lens[r.Intn(10)]
	}
	s := strings.Repeat(unit, n/len(unit)+1)
	return s[:n]
}

func c06DenseName(r *h.RNG, pool []string) string {
	if r.Chance(4) {
		return r.Pick([]string{"n", "x:", "_", "a.b-"}) + c06Long(r, "nM0.-_")
	}
	return r.Pick(pool)
}

// ---------- references ----------

func c06NumRef(r *h.RNG, v int) string {
	z := strings.Repeat("0", []int{0, 0, 0, 0, 1, 2, 7}[r.Intn(7)])
	switch r.Intn(3) {
	case 0:
		return "&#" + z + strconv.Itoa(v) + ";"
	case 1:
		return "&#x" + z + strconv.FormatInt(int64(v), 16) + ";"
	default:
		return "&#x" + z + strings.ToUpper(strconv.FormatInt(int64(v), 16)) + ";"
	}
}

var c06NamedRef = map[rune]string{'<': "&lt;", '>': "&gt;", '&': "&amp;", '"': "&quot;", '\'': "&apos;"}

// c06RefFor writes the character as a reference (named when there is a predefined entity and the coin says so)
func c06RefFor(r *h.RNG, c rune) string {
	if nm, ok := c06NamedRef[c]; ok && r.Chance(55) {
		return nm
	}
	return c06NumRef(r, int(c))
}

// c06RenderText writes a logical string as character data: `<` and `&` always as references, `>`, `]`, quotes and
// white space sometimes, any other character rarely.
func c06RenderText(r *h.RNG, s string) string {
	var sb strings.Builder
	for _, c := range s {
		switch {
		case c == '<' || c == '&':
			sb.WriteString(c06RefFor(r, c))
		case c == '>':
			if r.Chance(50) {
				sb.WriteString(c06RefFor(r, c))
			} else {
				sb.WriteRune(c)
			}
		case c == ']' || c == '"' || c == '\'':
			if r.Chance(15) {
				sb.WriteString(c06RefFor(r, c))
			} else {
				sb.WriteRune(c)
			}
		case c == ' ' || c == '\t' || c == '\n' || c == '\r':
			if r.Chance(12) {
				sb.WriteString(c06NumRef(r, int(c)))
			} else {
				sb.WriteRune(c)
			}
		case c < 0x80 && r.Chance(3):
			sb.WriteString(c06NumRef(r, int(c)))
		default:
			sb.WriteRune(c)
		}
	}
	return sb.String()
}

// c06RenderCData writes a logical string as CDATA section(s); at every `]]>` the string is continued in a new
// section, cut after the first or after the second `]`.
func c06RenderCData(r *h.RNG, s string) string {
	var sb strings.Builder
	for {
		i := strings.Index(s, "]]>")
		if i < 0 {
			break
		}
		cut := i + 1 + r.Intn(2)
		sb.WriteString("<![CDATA[" + s[:cut] + "]]>")
		s = s[cut:]
	}
	sb.WriteString("<![CDATA[" + s + "]]>")
	return sb.String()
}

// ---------- runs of tokens that the look-ahead skips ----------

var c06CommentBodies = []string{"", " c ", "x", " <a> & ]]> ", "\n", ">", "]]", "]", " - ", "<![CDATA[", "?>", "\r\n"}
var c06PIValues = []string{"\"x\"", "'y'", "\"a b\"", "\"&quot;\"", "\"\"", "\"'\"", "\"]]>\"", "\">\"", "'\"'", "\" a \"", "\"&#60;&amp;\"", "\"é\"", "\"?&gt;\"", "'?&#62;'", "\"&#63;&#x3e;\"", "\"&apos;&quot;&quot;\""}

// c06SkipDist: number of skipped tokens of a run, 0–40 (3 % 41–100, 1 % 101–300), all sizes around the initial
// capacity of the token buffer (8) and its growth steps
func c06SkipDist(r *h.RNG) int {
	switch k := r.Intn(100); {
	case k < 22:
		return 0
	case k < 40:
		return 1
	case k < 58:
		return 2 + r.Intn(7) // 2–8
	case k < 76:
		return 9 + r.Intn(8) // 9–16
	case k < 96:
		return 17 + r.Intn(24) // 17–40
	case k < 99:
		return 41 + r.Intn(60) // 41–100
	default:
		return 101 + r.Intn(200) // 101–300
	}
}

// skipRun appends contiguous markup of about n tokens that the trailing-space look-ahead passes over: a comment is one
// token, a PI with k pseudo-attributes k+2.  style 0: comments only (they also keep the `brackets` count), 1: mixed, 2: PIs.
func (b *c06Builder) skipRun(n, style int) {
	r := b.r
	for n > 0 {
		pi := style == 2 || (style == 1 && r.Chance(45))
		if pi && n >= 2 {
			k := r.Intn(13) // 0–12 pseudo-attributes
			if k > n-2 {
				k = n - 2
			}
			var sb strings.Builder
			sb.WriteString("<?" + r.Pick([]string{"pi", "xml-stylesheet", "p.i", "t", "php"}))
			if k == 0 && r.Chance(6) { // free-form data (words become value-less attribute tokens)
				// (a `>` or `/>` in the data is read by the lexer like the end of a tag: known finding K-C06-8, clause pi only)
				sb.WriteString(r.Pick([]string{" echo \"x\"; ", " some text", " a", " a=\"1\"  free text", " a=\"?&gt;\" ?&gt;", " a>b", " >", " ? >", " a />b ", " x=\"1\" > y  z "}))
				n -= 2
			}
			for i := 0; i < k; i++ {
				nm := r.Pick([]string{"href", "type", "a", "media", "title", "xml:id"}) + strconv.Itoa(i)
				eq := r.Pick([]string{"=", "=", "=", " =", "= ", " = "})
				sb.WriteString(c06TagWs(r) + nm + eq + r.Pick(c06PIValues))
			}
			sb.WriteString(r.Pick([]string{"", "", " ", "\n"}) + "?>")
			b.markup(sb.String())
			n -= k + 2
			continue
		}
		body := r.Pick(c06CommentBodies)
		if r.Chance(2) {
			body = c06Long(r, "c ")
		}
		b.markup("<!--" + body + "-->")
		n--
	}
}

// ---------- one run of character data, cut into tokens ----------

var c06WsAtoms = []string{" ", " ", " ", "  ", "\n", "\t", "\r\n", "\r", " \n ", "\t "}

const (
	c06ModeWs = iota
	c06ModeCdEnd
	c06ModeRef
	c06ModeMix
)

var c06AtomsWs = []string{"x", "yz", "cats", "10", "EUR", "price:", "é", "€", "a>b", "q;", "see", "below", "1"}
var c06AtomsCdEnd = []string{"]", "]", "]", "]]", ">", ">", "]]>", "]]>", "]>", "a", "x", " ", "]]]", "]]]]>", ">>", "]]>]]>", "] ]>", "]]\n>"}
var c06AtomsRef = []string{"<", "&", "&", "amp;", "lt;", "gt;", "#60;", "#x3c;", "#38;", "quot;", "apos;", "a", "x", ";", "#", "&#", "&lt", "<a>", "</a>", "<!--", "-->", "<![CDATA[", "]]>", "&amp;", "\"", "'", "<?", "?>", "&#x26;", "nbsp;", "#1;", "#x0;", "#xD800;"}

func c06Logical(r *h.RNG, mode int) string {
	var sb strings.Builder
	n := 1 + r.Intn(7)
	for i := 0; i < n; i++ {
		m := mode
		if mode == c06ModeMix {
			m = r.Intn(3)
		}
		switch m {
		case c06ModeWs:
			if r.Chance(3) {
				sb.WriteString(c06Long(r, r.Pick([]string{"w", "ab", "]", ">", "é"})))
			} else {
				sb.WriteString(r.Pick(c06AtomsWs))
			}
			if r.Chance(70) {
				sb.WriteString(r.Pick(c06WsAtoms))
			}
		case c06ModeCdEnd:
			sb.WriteString(r.Pick(c06AtomsCdEnd))
		default:
			sb.WriteString(r.Pick(c06AtomsRef))
			if r.Chance(15) {
				sb.WriteString(r.Pick(c06WsAtoms))
			}
		}
	}
	return sb.String()
}

func c06IsWsByte(c byte) bool { return c == ' ' || c == '\t' || c == '\n' || c == '\r' }

// chain writes one logical string of character data as 1–6 tokens.
func (b *c06Builder) chain(mode int) {
	r := b.r
	L := c06Logical(r, mode)
	// cut positions (never inside a UTF-8 sequence)
	var cand []int
	for i := 1; i < len(L); i++ {
		if utf8.RuneStart(L[i]) {
			cand = append(cand, i)
		}
	}
	k := r.Intn(6) // number of cuts 0–5
	if mode == c06ModeCdEnd && r.Chance(50) {
		k = len(cand) // every split position
		if k > 5 {
			k = 5
		}
	}
	cuts := map[int]bool{}
	for i := 0; i < k && len(cand) > 0; i++ {
		cuts[cand[r.Intn(len(cand))]] = true
	}
	var pieces []string
	start := 0
	for i := 1; i < len(L); i++ {
		if cuts[i] {
			pieces = append(pieces, L[start:i])
			start = i
		}
	}
	pieces = append(pieces, L[start:])
	// white space on both sides of every boundary, all four combinations; and at the outer edges
	force := 55
	if mode == c06ModeCdEnd {
		force = 15
	}
	edge := func(p string, left bool, want bool) string {
		if want {
			if left {
				return r.Pick(c06WsAtoms) + p
			}
			return p + r.Pick(c06WsAtoms)
		}
		if left {
			return strings.TrimLeft(p, " \t\r\n")
		}
		return strings.TrimRight(p, " \t\r\n")
	}
	for i := 0; i+1 < len(pieces); i++ {
		if r.Chance(force) {
			combo := r.Intn(4)
			pieces[i] = edge(pieces[i], false, combo&1 != 0)
			pieces[i+1] = edge(pieces[i+1], true, combo&2 != 0)
		}
	}
	if r.Chance(force) {
		pieces[0] = edge(pieces[0], true, r.Bool())
	}
	if r.Chance(force) {
		pieces[len(pieces)-1] = edge(pieces[len(pieces)-1], false, r.Bool())
	}
	style := func() int {
		if mode == c06ModeCdEnd {
			return []int{0, 0, 0, 0, 1}[r.Intn(5)]
		}
		return []int{0, 1, 1, 1, 2}[r.Intn(5)]
	}
	if r.Chance(25) { // between the preceding tag and the first piece
		b.skipRun(c06SkipDist(r), style())
	}
	for i, p := range pieces {
		if i > 0 {
			b.skipRun(c06SkipDist(r), style())
			if r.Chance(10) { // empty CDATA: dropped; stops the look-ahead, keeps omitSpace and brackets
				b.markup("<![CDATA[]]>")
				if r.Chance(50) {
					b.skipRun(c06SkipDist(r), style())
				}
			}
		}
		cd := 35
		if mode == c06ModeCdEnd {
			cd = 50
		}
		if r.Chance(cd) {
			b.markup(c06RenderCData(r, p))
		} else {
			b.text(c06RenderText(r, p))
		}
	}
	if r.Chance(25) { // between the last piece and the following tag
		b.skipRun(c06SkipDist(r), style())
	}
}

// ---------- attribute values ----------

var c06AttrAtoms = []string{"x", "yz", "a b", "=", "/", ">", "]]>", "amp;", "#38;", "lt;", "é", ";", "#", "v1"}
var c06AttrEdges = []string{"\"", "'", "&", "<", " ", "\t", "\n", ">", "\r", "\"\"", "''", "\"'", "&&", "  "}

// c06DenseAttrVal: a quoted literal for a logical value; the quote character, `<` and `&` are written as
// references, white space sometimes; the first and the last character are often a quote / reference / white space.
func c06DenseAttrVal(r *h.RNG) string {
	var lv strings.Builder
	if r.Chance(45) {
		lv.WriteString(r.Pick(c06AttrEdges))
	}
	for n := r.Intn(4); n > 0; n-- {
		switch {
		case r.Chance(3):
			lv.WriteString(c06Long(r, r.Pick([]string{"v", "\"", "'", "&", "<", "ab "})))
		case r.Chance(25):
			lv.WriteString(r.Pick(c06AttrEdges))
		default:
			lv.WriteString(r.Pick(c06AttrAtoms))
		}
	}
	if r.Chance(45) {
		lv.WriteString(r.Pick(c06AttrEdges))
	}
	q := '"'
	if r.Chance(30) {
		q = '\''
	}
	var sb strings.Builder
	sb.WriteRune(q)
	for _, c := range lv.String() {
		switch {
		case c == q || c == '<' || c == '&':
			sb.WriteString(c06RefFor(r, c))
		case c == '"' || c == '\'' || c == '>':
			if r.Chance(35) {
				sb.WriteString(c06RefFor(r, c))
			} else {
				sb.WriteRune(c)
			}
		case c == ' ' || c == '\t' || c == '\n' || c == '\r':
			if r.Chance(45) {
				sb.WriteString(c06NumRef(r, int(c)))
			} else {
				sb.WriteRune(c)
			}
		case c < 0x80 && r.Chance(3):
			sb.WriteString(c06NumRef(r, int(c)))
		default:
			sb.WriteRune(c)
		}
	}
	sb.WriteRune(q)
	return sb.String()
}

// ---------- elements and documents ----------

func (b *c06Builder) element(depth int) {
	r := b.r
	name := c06DenseName(r, c06Names)
	var st strings.Builder
	st.WriteString("<" + name)
	used := map[string]bool{}
	for k := []int{0, 0, 0, 1, 1, 2, 4}[r.Intn(7)]; k > 0; k-- {
		an := c06DenseName(r, c06AttrNames)
		if used[an] {
			continue
		}
		used[an] = true
		st.WriteString(c06TagWs(r) + an + r.Pick([]string{"=", "=", "=", " =", "= ", "\n=\n"}) + c06DenseAttrVal(r))
	}
	if r.Chance(15) {
		st.WriteString(c06TagWs(r))
	}
	if r.Chance(10) {
		b.markup(st.String() + "/>")
		return
	}
	b.markup(st.String() + ">")
	mode := []int{c06ModeWs, c06ModeWs, c06ModeCdEnd, c06ModeCdEnd, c06ModeRef, c06ModeMix}[r.Intn(6)]
	for n := []int{0, 1, 1, 1, 2, 2, 3, 4}[r.Intn(8)]; n > 0; n-- {
		switch k := r.Intn(100); {
		case k < 55:
			b.chain(mode)
		case k < 80 && depth > 0:
			b.element(depth - 1)
		case k < 88:
			b.text(r.Pick(c06WsAtoms))
		case k < 94: // white-space text, then markup that the empty-element look-ahead has already buffered
			b.text(r.Pick(c06WsAtoms))
			b.skipRun(1+r.Intn(12), []int{0, 1, 2}[r.Intn(3)])
		default:
			b.skipRun(c06SkipDist(r), r.Intn(3))
		}
	}
	end := "</" + name
	if r.Chance(15) {
		end += r.Pick([]string{" ", "\n", " \t", "\r\n"})
	}
	b.markup(end + ">")
}

var c06Doctypes = []string{
	"<!DOCTYPE a>", "<!DOCTYPE  a  SYSTEM  \"a.dtd\" >", "<!DOCTYPE a PUBLIC \"-//X//Y\" \"u\">",
	"<!DOCTYPE a [\n <!ENTITY e1 \"v 1\">\n <!ENTITY ent.2 \"&#60;w>\">\n]>",
	"<!DOCTYPE a [<!ELEMENT a ANY><!ATTLIST a id CDATA #IMPLIED> <!ENTITY e1 \"]\"> <!-- c > -->]>",
}

// c06DenseDoc: prolog (XML declaration, white space, comments, PIs, DOCTYPE), one root element, epilog.
// `broken` documents (3 %) carry character data outside the root element: not well-formed, the property oracles
// skip them, the model/implementation comparison still runs (look-ahead over DOCTYPE, EOF after a long run).
func c06DenseDoc(r *h.RNG) string {
	b := &c06Builder{r: r}
	broken := r.Chance(3)
	if r.Chance(25) {
		b.markup("<?xml" + r.Pick([]string{" ", "  "}) + "version=\"1.0\"" + r.Pick([]string{"", " encoding=\"UTF-8\"", " encoding='UTF-8'  standalone=\"yes\""}) + r.Pick([]string{"", " "}) + "?>")
	}
	misc := func() {
		for k := r.Intn(3); k > 0; k-- {
			if r.Chance(50) {
				b.text(r.Pick(c06WsAtoms))
			} else {
				b.skipRun(c06SkipDist(r), r.Intn(3))
			}
		}
	}
	if broken && r.Bool() {
		b.text(r.Pick([]string{"x ", " x ", "x\n", "]] "}))
	}
	misc()
	if r.Chance(35) {
		dt := r.Pick(c06Doctypes)
		if r.Chance(5) {
			dt = "<!DOCTYPE a [<!-- " + c06Long(r, "d ") + " -->]>"
		}
		b.markup(dt)
		misc()
	}
	b.element(2)
	misc()
	if broken && r.Bool() {
		b.text(r.Pick([]string{" x", "x ", " x "}))
		if r.Bool() {
			b.skipRun(c06SkipDist(r), r.Intn(3))
		}
	}
	return b.String()
}

// ---------- measured features (on the tokens of the real lexer) ----------

type c06Unit struct {
	r   rune
	ref bool
}

// c06Units splits character data / an attribute value body into literal characters and references (numeric
// references and the five predefined names are decoded; anything else stays literal).
func c06Units(data []byte) []c06Unit {
	var us []c06Unit
	for i := 0; i < len(data); {
		if data[i] == '&' {
			end := -1
			for j := i + 1; j < len(data) && j < i+24; j++ {
				if data[j] == ';' {
					end = j
					break
				}
			}
			if end > i+1 {
				body := string(data[i+1 : end])
				v := int64(-1)
				switch {
				case strings.HasPrefix(body, "#x"):
					if x, err := strconv.ParseInt(body[2:], 16, 32); err == nil {
						v = x
					}
				case strings.HasPrefix(body, "#"):
					if x, err := strconv.ParseInt(body[1:], 10, 32); err == nil {
						v = x
					}
				default:
					for c, nm := range c06NamedRef {
						if nm == "&"+body+";" {
							v = int64(c)
						}
					}
				}
				if v >= 0 {
					us = append(us, c06Unit{rune(v), true})
					i = end + 1
					continue
				}
			}
		}
		c, n := utf8.DecodeRune(data[i:])
		us = append(us, c06Unit{c, false})
		i += n
	}
	return us
}

func c06IsWsRune(c rune) bool { return c == ' ' || c == '\t' || c == '\n' || c == '\r' }

func c06Bucket(n int, bounds ...int) string {
	lo := 0
	for _, b := range bounds {
		if n <= b {
			if lo == b {
				return strconv.Itoa(b)
			}
			return fmt.Sprintf("%d-%d", lo, b)
		}
		lo = b + 1
	}
	return fmt.Sprintf("%d+", lo)
}

func c06Class(u c06Unit) string {
	s := ""
	switch u.r {
	case ' ':
		s = "SP"
	case '\t':
		s = "TAB"
	case '\n':
		s = "LF"
	case '\r':
		s = "CR"
	case ']', '>', '<', '&', '"', '\'':
		s = string(u.r)
	default:
		return "other"
	}
	if u.ref {
		return "ref(" + s + ")"
	}
	return s
}

// c06Features: the shapes listed at the top of this file that the document contains (each tag once per document).
func c06Features(toks []c06Tok) []string {
	set := map[string]bool{}
	tag := func(f string, a ...interface{}) { set[fmt.Sprintf(f, a...)] = true }

	// (1) trailing-space look-ahead: text ending in white space, number of tokens the look-ahead passes, where it stops
	longRuns := 0
	for i, t := range toks {
		if t.tt != pxml.TextToken {
			continue
		}
		us := c06Units(t.data)
		if len(us) == 0 || !c06IsWsRune(us[len(us)-1].r) {
			continue
		}
		all := true
		for _, u := range us {
			all = all && c06IsWsRune(u.r)
		}
		kind := "word+ws"
		if all {
			kind = "ws-only"
		}
		j := i + 1
		stop := "EOF"
	scan:
		for ; j < len(toks); j++ {
			switch toks[j].tt {
			case pxml.TextToken:
				n := c06Units(toks[j].data)
				stop = "text(non-space first)"
				if len(n) > 0 && c06IsWsRune(n[0].r) {
					stop = "text(space first)"
				}
				break scan
			case pxml.CDATAToken:
				switch {
				case len(toks[j].text) == 0:
					stop = "CDATA(empty)"
				case c06IsWsByte(toks[j].text[0]):
					stop = "CDATA(space first)"
				default:
					stop = "CDATA(non-space first)"
				}
				break scan
			case pxml.StartTagToken:
				stop = "start tag"
				break scan
			case pxml.EndTagToken:
				stop = "end tag"
				break scan
			}
		}
		skipped := j - i - 1
		if skipped >= 9 {
			longRuns++
		}
		tag("lookahead: %s, %s skipped, stop=%s", kind, c06Bucket(skipped, 0, 8, 16, 40, 100), stop)
		hasPI, hasDT := false, false
		for _, s := range toks[i+1 : j] {
			hasPI = hasPI || s.tt == pxml.StartTagPIToken
			hasDT = hasDT || s.tt == pxml.DOCTYPEToken
		}
		if hasPI {
			tag("lookahead: passes a PI")
		}
		if hasDT {
			tag("lookahead: passes DOCTYPE")
		}
	}
	tag("lookahead: texts with >=9 skipped tokens per document=%s", c06Bucket(longRuns, 0, 1, 2))

	// (2) empty-element look-ahead
	for i, t := range toks {
		if t.tt != pxml.StartTagCloseToken || i+1 >= len(toks) {
			continue
		}
		n := toks[i+1]
		switch {
		case n.tt == pxml.EndTagToken:
			tag("collapse: <a></a>")
		case n.tt == pxml.TextToken && len(strings.TrimLeft(string(n.data), " \t\r\n\f")) == 0:
			if i+2 < len(toks) && toks[i+2].tt == pxml.EndTagToken {
				tag("collapse: <a> </a>")
			} else if i+2 < len(toks) {
				tag("collapse: white-space text then %s (buffered, not collapsed)", toks[i+2].tt)
			}
		}
	}

	// (3) runs of character data: text / CDATA tokens with only comments and empty CDATA between them
	type piece struct {
		us    []c06Unit
		cdata bool
		gap   bool // a comment / empty CDATA between the previous piece and this one
	}
	var run []piece
	gap := false
	flush := func() {
		if len(run) == 0 {
			return
		}
		tag("chardata run: %s tokens", c06Bucket(len(run), 0, 1, 2, 3, 4, 5))
		type pos struct {
			u   c06Unit
			tok int
		}
		var flat []pos
		for k, p := range run {
			for _, u := range p.us {
				flat = append(flat, pos{u, k})
			}
			if k > 0 {
				prev := run[k-1]
				l, f := prev.us[len(prev.us)-1], p.us[0]
				tag("boundary: left token ends with %s", c06Class(l))
				tag("boundary: right token starts with %s", c06Class(f))
				if l.r == '\r' && f.r == '\n' {
					tag("boundary: CR | LF")
				}
				if c06IsWsRune(l.r) && c06IsWsRune(f.r) {
					tag("boundary: space | space")
				}
				if (l.r == '&' || l.r == '<') && (f.r == '#' || f.r >= 'a' && f.r <= 'z' || f.r >= 'A' && f.r <= 'Z' || f.r == '/' || f.r == '!' || f.r == '?') {
					tag("boundary: %c | name character", l.r)
				}
				if l.r == ']' && f.r == ']' {
					tag("boundary: ] | ]")
				}
				if l.r == ']' && f.r == '>' {
					tag("boundary: ] | >")
				}
			}
		}
		for i := 0; i+2 < len(flat); i++ {
			if flat[i].u.r != ']' || flat[i+1].u.r != ']' || flat[i+2].u.r != '>' {
				continue
			}
			n := 1
			if flat[i+1].tok != flat[i].tok {
				n++
			}
			if flat[i+2].tok != flat[i+1].tok {
				n++
			}
			g := ""
			for k := flat[i].tok + 1; k <= flat[i+2].tok; k++ {
				if run[k].gap {
					g = ", comment/empty CDATA in between"
				}
			}
			gt := "literal >"
			if run[flat[i+2].tok].cdata {
				gt = "> in CDATA"
			} else if flat[i+2].u.ref {
				gt = "reference to >"
			}
			tag("]]>: assembled from %d token(s)%s", n, g)
			tag("]]>: %s", gt)
			// the count of `]` has to be carried through a token that consists of `]` only
			if m := flat[i+1].tok; flat[i].tok < m && m < flat[i+2].tok {
				only := true
				for _, u := range run[m].us {
					only = only && u.r == ']'
				}
				if only {
					tag("]]>: count carried through a token of ] only, > in a later token")
				}
			}
		}
		run = nil
	}
	for _, t := range toks {
		switch {
		case t.tt == pxml.TextToken:
			if us := c06Units(t.data); len(us) > 0 {
				run = append(run, piece{us, false, gap})
				gap = false
			}
		case t.tt == pxml.CDATAToken && len(t.text) > 0:
			var us []c06Unit
			for _, c := range string(t.text) {
				us = append(us, c06Unit{c, false})
			}
			run = append(run, piece{us, true, gap})
			gap = false
		case t.tt == pxml.CommentToken || t.tt == pxml.CDATAToken:
			gap = len(run) > 0
		default:
			flush()
			gap = false
		}
	}
	flush()

	// (4) attribute values of elements: quote kind, first and last unit
	inPI := false
	for _, t := range toks {
		if t.tt == pxml.StartTagPIToken || t.tt == pxml.StartTagClosePIToken {
			inPI = t.tt == pxml.StartTagPIToken
		}
		if inPI || t.tt != pxml.AttributeToken || len(t.attrVal) < 2 {
			continue
		}
		q := t.attrVal[0]
		if q != '"' && q != '\'' {
			continue
		}
		us := c06Units(t.attrVal[1 : len(t.attrVal)-1])
		if len(us) == 0 {
			tag("attr %c: empty value", q)
			continue
		}
		tag("attr %c: first=%s", q, c06Class(us[0]))
		tag("attr %c: last=%s", q, c06Class(us[len(us)-1]))
		dq, sq := 0, 0
		for _, u := range us {
			if u.r == '"' {
				dq++
			} else if u.r == '\'' {
				sq++
			}
		}
		switch {
		case dq > sq:
			tag("attr %c: more \" than ' in the value", q)
		case sq > 0:
			tag("attr %c: ' in the value, not fewer than \"", q)
		}
	}

	// (5) lengths
	mx := map[string]int{}
	for _, t := range toks {
		k, n := "", 0
		switch t.tt {
		case pxml.StartTagToken:
			k, n = "element name", len(t.text)
		case pxml.AttributeToken:
			k, n = "attribute value", len(t.attrVal)
			if len(t.text) > mx["attribute name"] {
				mx["attribute name"] = len(t.text)
			}
		case pxml.TextToken:
			k, n = "text token", len(t.data)
		case pxml.CDATAToken:
			k, n = "CDATA text", len(t.text)
		case pxml.CommentToken:
			k, n = "comment", len(t.data)
		case pxml.DOCTYPEToken:
			k, n = "DOCTYPE", len(t.data)
		}
		if k != "" && n > mx[k] {
			mx[k] = n
		}
	}
	for k, n := range mx {
		if n >= 32 {
			tag("length: %s %s bytes", k, c06Bucket(n, 31, 63, 127, 255, 1023, 4095))
		}
	}
	tag("tokens per document: %s", c06Bucket(len(toks), 8, 16, 32, 64, 128))

	out := make([]string, 0, len(set))
	for k := range set {
		out = append(out, k)
	}
	sort.Strings(out)
	return out
}

package main

// C05B — generator of SVG documents (grammar directed, mostly well-formed; every branch of the loop of svg.go).

import (
	"fmt"
	"strings"

	"verifharness/h"
)

var c05bElems = []string{"g", "g", "path", "rect", "circle", "text", "tspan", "use", "linearGradient", "stop", "title", "desc", "a", "image", "symbol", "svg", "filter", "feOffset", "glyph", "switch", "line", "polygon", "marker", "mask", "pattern", "script"}
var c05bForeignElems = []string{"inkscape:grid", "sodipodi:namedview", "x:y", "dc:title", "rdf:RDF", "cc:Work", "xlink:x", "xml:y", "xmlns:z", ":a", "a:"}
var c05bSvgPrefixed = []string{"svg:g", "svg:rect", "svg:svg", "svg:style", "svg:metadata", "svg:foreignObject", "svg:defs", "svg:"}

var c05bDimAttrs = []string{"x", "y", "width", "height", "rx", "ry", "cx", "cy", "r", "x1", "y1", "x2", "y2", "font-size", "stroke-width", "offset", "opacity", "dx", "dy", "stdDeviation", "font-weight", "begin", "dur", "stroke-miterlimit", "letter-spacing", "k1"}
var c05bColorAttrs = []string{"fill", "stroke", "color", "stop-color", "flood-color", "lighting-color"}
var c05bNameAttrs = []string{"id", "class", "href", "font-family", "xlink:href", "xml:space", "xml:lang", "xml:id", "xlink:title", "xmlns:xlink"}
var c05bTextAttrs = []string{"transform", "points", "clip-path", "filter", "mask", "result", "in", "unicode", "glyph-name", "values", "systemLanguage", "data-x", "x-foo", "onclick", "title", "gradientTransform", "viewbox", "Fill", "D"}
var c05bForeignAttrs = []string{"inkscape:label", "sodipodi:docname", "xmlns:inkscape", "xmlns:sodipodi", "xmlns:svg", "xmlns:x", "x:y", "xl:href", "xmlns:xl", ":a", "a:", "xlinkx:href", "xmlx:space", "inkscape:version"}
var c05bRootAttrs = [][2]string{{"version", "1.1"}, {"version", "1.0"}, {"version", "1.10"}, {"x", "0"}, {"y", "0"}, {"x", "0px"}, {"y", "0.0"}, {"x", "1"}, {"preserveAspectRatio", "xMidYMid meet"}, {"preserveAspectRatio", " xMidYMid  meet "}, {"preserveAspectRatio", "xMidYMid"}, {"preserveAspectRatio", "none"},
	{"baseProfile", "none"}, {"baseProfile", "full"}, {"contentScriptType", "application/ecmascript"}, {"contentScriptType", "text/javascript"}, {"contentStyleType", "text/css"}, {"contentStyleType", "text/x"}, {"contentStyleType", " Text/CSS ; a=b "}, {"contentStyleType", "text/css;charset=\"A B\""},
	{"xmlns", "http://www.w3.org/2000/svg"}, {"xmlns", "x"}, {"xmlns:xlink", "http://www.w3.org/1999/xlink"}, {"type", "text/css"}}

var c05bUnits = []string{"", "", "", "px", "px", "PX", "Px", "em", "EM", "ex", "pt", "pc", "mm", "cm", "in", "IN", "%", "%", "deg", "rad", "s", "ms", "x", "e", "em1", "abc", "Q"}
var c05bNumbers = []string{"0", "0", "1", "5", "10", "100", "1000", "24", "0.5", ".5", "5.0", "5.", "0.0", "-0", "+0", "-0.0", "00", "05", "1e3", "1E3", "1e+3", "1e-3", "1.50", "-1.50", "+1.5", "12.340", "0.000", "100.0", "1e0", "0e5", "1e400", "1e", "1.e3", ".e3", "-", "+", ".", "1..2", "1e3e4", "0.1e1", "123456789", "0.000001", "1000000", "9e99"}
var c05bColorVals = []string{"#ff0000", "#FF0000", "#f00", "#F00", "#ffffff", "#fff", "#000000", "#aabbcc", "#AABBCC", "#aAbBcC", "#abcdef", "#c0c0c0", "#808080", "#ffa500", "#800080", "#f0ffff", "#fffff0", "#ff", "#ffff", "#fffffff", "#gggggg", "#", "red", "Red", "RED", "white", "black", "blue", "lightgoldenrodyellow", "fuchsia", "magenta", "yellow", "grey", "gray", "darkgrey", "transparent", "none", "currentColor", "inherit", "rgb(255,0,0)", "rgb(100%,0%,0%)", "url(#a)", "URL(#B)", "url(", "urL(x", "url", "u", "", "red icc-color(x)", "#ff0000 ", " red ", "rebeccapurple", "tan", "azure", "beige"}
var c05bWords = []string{"a", "b", "cats", "dogs", "1", "x:y", "#a", "url(#a)", ">", "\"", "'", "=", "/", ";", "é", "€", "&amp;", "&lt;", "&gt;", "&quot;", "&apos;", "&#60;", "&#38;", "&#x3c;", "&#65;", "&#32;", "&#9;", "&#10;", "&#xA0;", "&e1;", "&#38;lt;", "]", "]]", "10px", "1.0", "M0 0"}
var c05bWs = []string{" ", " ", " ", "  ", "\n", "\t", "\r\n", " \n  ", "\n\n", "\t "}
var c05bPathVals = []string{"M0 0L10 10", "M 100 100 L 300 100 L 200 100 z", "M0.5 0.6 M -100 0.5z", "m1 2 3 4", "M10,10 h5 v5 h-5 z", "M0 0C1 1 2 2 3 3", "M0 0A5 5 0 0 1 10 10", "", "x", "M", "10", "M1e3 1e3", " M 1 2 ", "M0 0L1 1&#32;L2 2", "M0 0 \"", "M0 0L.5.5.5.5"}
var c05bStyles = []string{"fill:red", "fill : red ; stroke : #ff0000", "a:b", "", " ", "fill:red;", "font-family:&quot;A&quot;", "content:'x'", "fill:url(#a)", "{", "a{b:c}", "x:\"y\";z:'w'", "a : b ; c : d", "stroke-width : 1.0px"}
var c05bCss = []string{"a{fill:red}", " a > b { color : red } ", "a { }", ".c { fill : #ff0000 ; }", "@media x { a { b : c } }", "/* c */ a{b:c}", "a::after{content:\"<&\"}", "a { b : '<' }", "x", "{a : true}", "a{b:c} ]]", "a &gt; b {c:d}", "a { b : &#60; }", "a{} &amp; b{}"}

func c05bWsp(r *h.RNG) string { return r.Pick(c05bWs) }

func c05bDim(r *h.RNG) string {
	s := r.Pick(c05bNumbers) + r.Pick(c05bUnits)
	if r.Chance(5) {
		s = " " + s + " "
	}
	return s
}

func c05bViewBox(r *h.RNG) string {
	n := 4
	if r.Chance(20) {
		n = r.Intn(7)
	}
	var sb strings.Builder
	for i := 0; i < n; i++ {
		if i > 0 {
			sb.WriteString(r.Pick([]string{" ", " ", " ", ",", ", ", " ,", "  ", " , ", "\n", ";", ""}))
		}
		if r.Chance(85) {
			sb.WriteString(r.Pick(c05bNumbers[:30]))
			if r.Chance(10) {
				sb.WriteString(r.Pick(c05bUnits))
			}
		} else {
			sb.WriteString(r.Pick(c05bWords))
		}
	}
	if r.Chance(5) {
		return " " + sb.String() + " "
	}
	return sb.String()
}

func c05bFreeText(r *h.RNG) string {
	n := r.Intn(4)
	var sb strings.Builder
	if r.Chance(15) {
		sb.WriteString(c05bWsp(r))
	}
	for i := 0; i < n; i++ {
		if i > 0 {
			sb.WriteString(c05bWsp(r))
		}
		sb.WriteString(r.Pick(c05bWords))
	}
	if r.Chance(15) {
		sb.WriteString(c05bWsp(r))
	}
	return sb.String()
}

// value for an attribute name (typed by the name, sometimes deliberately of another type)
func c05bAttrValue(r *h.RNG, name string) string {
	if r.Chance(8) {
		return c05bFreeText(r)
	}
	if r.Chance(6) {
		return c05bDim(r)
	}
	switch {
	case name == "viewBox":
		return c05bViewBox(r)
	case name == "d":
		return r.Pick(c05bPathVals)
	case name == "style":
		return r.Pick(c05bStyles)
	case c05bIn(c05bColorAttrs, name):
		return r.Pick(c05bColorVals)
	case c05bIn(c05bDimAttrs, name):
		return c05bDim(r)
	case name == "id" || name == "class" || name == "xml:id":
		return r.Pick([]string{"a", "b1", "1.50", "1.0", "a b", "x-y", "0", "1e3", "10px"})
	case strings.HasSuffix(name, "href"):
		return r.Pick([]string{"#a", "#1.50", "a.png", "1.0", "data:image/png;base64,AAAA", "http://x/?a=1&amp;b=2"})
	case name == "font-family":
		return r.Pick([]string{"Arial", "'A B'", "1.0", "a, b", "&quot;A&quot;"})
	case name == "xml:space":
		return r.Pick([]string{"preserve", "default"})
	case strings.HasPrefix(name, "xmlns"):
		return r.Pick([]string{"http://www.w3.org/2000/svg", "http://www.w3.org/1999/xlink", "http://www.inkscape.org/namespaces/inkscape", "u"})
	case name == "type":
		return r.Pick([]string{"text/css", "text/css", "text/x", " text/css ", "TEXT/CSS", "text/css;a=b"})
	}
	return c05bFreeText(r)
}

func c05bIn(l []string, s string) bool {
	for _, x := range l {
		if x == s {
			return true
		}
	}
	return false
}

// one attribute as source text (with its leading white space)
func c05bAttr(r *h.RNG, sb *strings.Builder, name, val string, wide bool) {
	sb.WriteString(r.Pick([]string{" ", " ", " ", "  ", "\n  ", "\t"}))
	sb.WriteString(name)
	if wide && r.Chance(2) {
		return // attribute without value
	}
	eq := "="
	if r.Chance(4) {
		eq = r.Pick([]string{" =", "= ", " = "})
	}
	sb.WriteString(eq)
	simple := val != "" && strings.IndexAny(val, " \t\r\n>\"'=/?<&") == -1
	switch {
	case wide && simple && r.Chance(6):
		sb.WriteString(val)
	case !strings.Contains(val, "'") && r.Chance(20):
		sb.WriteString("'" + val + "'")
	default:
		sb.WriteString(`"` + strings.ReplaceAll(val, `"`, "&quot;") + `"`)
	}
}

func c05bAttrs(r *h.RNG, sb *strings.Builder, elem string, wide bool) {
	n := r.Intn(4)
	if r.Chance(10) {
		n = 4 + r.Intn(4)
	}
	if elem == "defs" {
		n = []int{0, 1, 1, 2}[r.Intn(4)]
	}
	for i := 0; i < n; i++ {
		var name string
		switch k := r.Intn(100); {
		case k < 25:
			name = r.Pick(c05bDimAttrs)
		case k < 37:
			name = r.Pick(c05bColorAttrs)
		case k < 50:
			name = r.Pick(c05bNameAttrs)
		case k < 60:
			name = r.Pick(c05bForeignAttrs)
		case k < 70:
			name = r.Pick([]string{"viewBox", "d", "style", "style", "viewBox", "d"})
		case k < 82 || elem == "style":
			ra := c05bRootAttrs[r.Intn(len(c05bRootAttrs))]
			c05bAttr(r, sb, ra[0], ra[1], wide)
			continue
		default:
			name = r.Pick(c05bTextAttrs)
		}
		c05bAttr(r, sb, name, c05bAttrValue(r, name), wide)
	}
}

func c05bMisc(r *h.RNG, sb *strings.Builder) {
	switch r.Intn(8) {
	case 0, 1:
		sb.WriteString("<!--" + r.Pick([]string{"", " c ", "a-b", "<x>", " Created with Inkscape "}) + "-->")
	case 2:
		sb.WriteString("<?" + r.Pick([]string{"pi", "xml-stylesheet", "php"}) + r.Pick([]string{"", ` a="b"`, " x y ", ` href="a.css" type="text/css"`}) + "?>")
	}
}

func c05bText(r *h.RNG, sb *strings.Builder) {
	switch r.Intn(10) {
	case 0:
		sb.WriteString(c05bWsp(r))
	case 1:
		sb.WriteString("<![CDATA[" + r.Pick([]string{"", " ", "x", " a  b ", "<", "<<<<", "<<<<<", "a & b", "&&&&", " <&<& ", "]]", "a]]b"}) + "]]>")
	default:
		sb.WriteString(c05bFreeText(r))
	}
}

func c05bContent(r *h.RNG, sb *strings.Builder, depth int, wide bool) {
	n := r.Intn(4)
	if depth <= 0 {
		n = r.Intn(2)
	}
	for i := 0; i < n; i++ {
		switch k := r.Intn(100); {
		case k < 55 && depth > 0:
			c05bElement(r, sb, depth-1, wide)
		case k < 80:
			c05bText(r, sb)
		default:
			c05bMisc(r, sb)
		}
		if r.Chance(30) {
			sb.WriteString(c05bWsp(r))
		}
	}
}

func c05bElement(r *h.RNG, sb *strings.Builder, depth int, wide bool) {
	var name string
	switch k := r.Intn(100); {
	case k < 55:
		name = r.Pick(c05bElems)
	case k < 63:
		name = "style"
	case k < 70:
		name = "defs"
	case k < 76:
		name = "metadata"
	case k < 83:
		name = "foreignObject"
	case k < 92:
		name = r.Pick(c05bForeignElems)
	default:
		name = r.Pick(c05bSvgPrefixed)
	}
	sb.WriteString("<" + name)
	c05bAttrs(r, sb, name, wide)
	if r.Chance(10) {
		sb.WriteString(c05bWsp(r))
	}
	if r.Chance(30) || (name == "defs" && r.Chance(60)) {
		sb.WriteString("/>")
		return
	}
	sb.WriteString(">")
	switch {
	case name == "style" || name == "svg:style":
		switch r.Intn(6) {
		case 0:
		case 1:
			sb.WriteString(" <![CDATA[" + r.Pick(c05bCss) + "]]> ")
		case 2:
			sb.WriteString("<![CDATA[" + strings.ReplaceAll(strings.ReplaceAll(r.Pick(c05bCss), "&gt;", ">"), "&amp;", "&") + "]]>")
		default:
			sb.WriteString(r.Pick(c05bCss))
			if r.Chance(15) {
				sb.WriteString("<!--c-->" + r.Pick(c05bCss))
			}
		}
	case r.Chance(12):
		// empty
	case r.Chance(12):
		sb.WriteString(c05bWsp(r))
	default:
		c05bContent(r, sb, depth, wide)
	}
	if wide && r.Chance(2) {
		return // unclosed element
	}
	end := name
	if wide && r.Chance(2) {
		end = "g"
	}
	sb.WriteString("</" + end)
	if r.Chance(8) {
		sb.WriteString(c05bWsp(r))
	}
	sb.WriteString(">")
}

// c05bDoc: a whole document.  wide = also not well-formed shapes (value-less attributes, unquoted values,
// unclosed / mismatched elements, truncation).
func c05bDoc(r *h.RNG, wide bool) string {
	var sb strings.Builder
	if r.Chance(30) {
		sb.WriteString(r.Pick([]string{`<?xml version="1.0"?>`, `<?xml version="1.0" encoding="UTF-8" standalone="no"?>`, `<?xml version="1.0" ?>`}))
		sb.WriteString(r.Pick([]string{"", "\n"}))
	}
	if r.Chance(25) {
		sb.WriteString(r.Pick([]string{`<!DOCTYPE svg PUBLIC "-//W3C//DTD SVG 1.1//EN" "http://www.w3.org/Graphics/SVG/1.1/DTD/svg11.dtd">`, `<!DOCTYPE svg SYSTEM "foo.dtd">`,
			`<!DOCTYPE svg [ <!ENTITY e1 "v"> ]>`, `<!DOCTYPE svg PUBLIC "-//W3C//DTD SVG 1.1//EN" "foo.dtd" [<!ENTITY e1 "v">]>`, `<!DOCTYPE svg [ <!ENTITY e1 "]>"> ]>`, `<!DOCTYPE svg>`}))
		sb.WriteString(r.Pick([]string{"", "\n"}))
	}
	if r.Chance(20) {
		c05bMisc(r, &sb)
	}
	root := "svg"
	if r.Chance(6) {
		root = r.Pick([]string{"svg:svg", "g", "path", "style", "foreignObject", "metadata", "x:y"})
	}
	sb.WriteString("<" + root)
	// root attributes: namespace declarations and defaults
	if r.Chance(70) {
		c05bAttr(r, &sb, "xmlns", "http://www.w3.org/2000/svg", wide)
	}
	if r.Chance(30) {
		c05bAttr(r, &sb, "xmlns:xlink", "http://www.w3.org/1999/xlink", wide)
	}
	if r.Chance(25) {
		c05bAttr(r, &sb, r.Pick([]string{"xmlns:inkscape", "xmlns:sodipodi", "xmlns:svg", "xmlns:x", "xmlns:dc"}), "http://ns/"+fmt.Sprint(r.Intn(3)), wide)
	}
	nd := r.Intn(4)
	for i := 0; i < nd; i++ {
		ra := c05bRootAttrs[r.Intn(len(c05bRootAttrs))]
		c05bAttr(r, &sb, ra[0], ra[1], wide)
	}
	c05bAttrs(r, &sb, root, wide)
	if r.Chance(8) {
		sb.WriteString("/>")
	} else {
		sb.WriteString(">")
		if r.Chance(40) {
			sb.WriteString(c05bWsp(r))
		}
		c05bContent(r, &sb, 3, wide)
		if r.Chance(60) {
			c05bContent(r, &sb, 2, wide)
		}
		sb.WriteString("</" + root + ">")
	}
	if r.Chance(15) {
		sb.WriteString(c05bWsp(r))
	}
	if r.Chance(5) {
		c05bMisc(r, &sb)
	}
	s := sb.String()
	if wide && r.Chance(4) && len(s) > 4 {
		s = s[:r.Intn(len(s))]
	}
	return s
}

package main

// C07 — JSON minification preserves the value.
//
// Three ties / checks per generated valid JSON text (DESIGN.md §5 C07, docs/C07.md):
//   (i)   EVENT CONTRACT: the real dependency parser `parse/v2/json.Parser` is driven exactly like json.go drives it
//         (state := p.State(); gt, text := p.Next()) and its (state, grammar, text) sequence is compared with the
//         Lean contract `events (parseJ text)`;
//   (ii)  BYTES: `(&json.Minifier{..}).Minify(m, w, r, nil)` (public API) vs the Lean model `minifyText`; the number
//         shortener is not modelled here: the harness sends the real `minify.Number(lexeme, prec)` of every number
//         lexeme, so the JSON model is tied independently of the Number model (C08);
//   (iii) THE PROPERTY ITSELF on the implementation's output: both texts decoded by encoding/json (UseNumber,
//         token streams: order and duplicate keys kept), numbers compared exactly (normalised decimals, cross-checked
//         with math/big.Rat), output length <= input length, KeepNumbers => number lexemes byte-identical; and the
//         Lean specification side `spec.c07.holds` (parseJ, jvEq, bytewise strings) on the same pair.
//         A violation is a finding of kind "fail".

import (
	"bytes"
	stdjson "encoding/json"
	"fmt"
	"io"
	"math/big"
	"os"
	"path/filepath"
	"sort"
	"strings"
	"testing/iotest"
	"time"

	"github.com/tdewolff/minify/v2"
	mjson "github.com/tdewolff/minify/v2/json"
	"github.com/tdewolff/parse/v2"
	pjson "github.com/tdewolff/parse/v2/json"

	"verifharness/h"
)

// ---------- values and generators ----------

type c07V struct {
	kind  byte // 'l' literal, 'n' number, 's' string, 'a' array, 'o' object
	lex   string
	elems []*c07V
	keys  []string
}

var c07Special = []string{
	"0", "-0", "0.0", "-0.0", "0e0", "0E+5", "-0.0e-7", "1e400", "1E+2", "1E+03", "0.5", "-0.5", "-0.5e-10", "1e-3", "-1e-3",
	"12e-4", "123e-5", "1.234567e-4", "1.5e-3", "100e-3", "1e-2", "1e-1", "10e-2", "1.0", "1.3e1", "10000", "100000", "1e5",
	"1e+5", "1E-05", "0.001", "0.0001", "0.00001", "123456789012345678901234567890", "0.000000000000000000000000000001",
	"1e2147483647", "1e2147483648", "1e-2147483648", "1e-2147483649", "1e9223372036854775807", "1e9223372036854775808",
	"1e-9223372036854775808", "1e99999999999999999999", "9.99e99", "99.5", "9.5", "0.95", "999", "-999.999e3", "1.0e0",
	"5e-324", "1.7976931348623157e308", "0.1e1", "0.10", "10.01", "1e00", "1e-00", "1e007", "100.0e-2", "0.00e10",
}

var c07Strings = []string{
	`""`, `"a"`, `"abc def"`, `"\""`, `"\\"`, `"\\\\"`, `"\\\""`, `"\/"`, `"\b\f\n\r\t"`, `"\u0000"`, `"\u00e9\uD834\uDD1E"`, `"\uabCD"`,
	`"123"`, `"-1"`, `"0.5"`, `".5"`, `"-"`, `"1e-3"`, `"true"`, `"null"`, `"[1, 2]"`, `"{\"a\": 1}"`, `" , : "`, `"a\\"`, `"é€𝄞"`,
	"\"\xc3\xa9\"", "\"\x7f\x80\xff\"", `"\\u0041"`, `"'"`, `"</script>"`, `"  spaces  "`, `"\\\\\\"`, `"\"\"\""`, `"\\\/"`, `"a\"b\"c"`,
}

func c07Digits(r *h.RNG, n int) string {
	al := "0015599012345678"
	b := make([]byte, n)
	for i := range b {
		b[i] = al[r.Intn(len(al))]
	}
	return string(b)
}

func c07GenNumber(r *h.RNG) string {
	if r.Chance(12) {
		return r.Pick(c07Special)
	}
	var sb strings.Builder
	if r.Chance(30) {
		sb.WriteByte('-')
	}
	switch {
	case r.Chance(30):
		sb.WriteByte('0')
	default:
		n := 1 + r.Intn(4)
		if r.Chance(8) {
			n = 15 + r.Intn(30)
		} else if r.Chance(2) {
			n = 100 + r.Intn(300)
		}
		sb.WriteByte("123456789159"[r.Intn(12)])
		if r.Chance(35) {
			sb.WriteString(strings.Repeat("0", n-1))
		} else {
			sb.WriteString(c07Digits(r, n-1))
		}
	}
	if r.Chance(50) {
		sb.WriteByte('.')
		n := 1 + r.Intn(6)
		if r.Chance(6) {
			n = 15 + r.Intn(40)
		} else if r.Chance(2) {
			n = 100 + r.Intn(300)
		}
		switch r.Intn(4) {
		case 0:
			sb.WriteString(strings.Repeat("0", n))
		case 1:
			z := r.Intn(n)
			sb.WriteString(strings.Repeat("0", z))
			sb.WriteString(c07Digits(r, n-z))
		case 2:
			z := r.Intn(n)
			sb.WriteString(c07Digits(r, n-z))
			sb.WriteString(strings.Repeat("0", z))
		default:
			sb.WriteString(c07Digits(r, n))
		}
	}
	if r.Chance(45) {
		sb.WriteByte("eE"[r.Intn(2)])
		sb.WriteString([]string{"", "+", "-", "-"}[r.Intn(4)])
		exps := []string{"0", "1", "2", "3", "4", "5", "6", "7", "8", "9", "10", "11", "12", "15", "20", "99", "100", "308", "400", "00", "007", "010",
			"2147483647", "2147483648", "9223372036854775807", "9223372036854775808", "99999999999999999999"}
		if r.Chance(85) {
			sb.WriteString(exps[r.Intn(20)])
		} else {
			sb.WriteString(exps[r.Intn(len(exps))])
		}
	}
	return sb.String()
}

func c07GenString(r *h.RNG) string {
	if r.Chance(45) {
		return r.Pick(c07Strings)
	}
	var sb strings.Builder
	sb.WriteByte('"')
	n := r.Intn(10)
	if r.Chance(3) {
		n = 200 + r.Intn(2000)
	}
	for i := 0; i < n; i++ {
		switch r.Intn(12) {
		case 0:
			sb.WriteString([]string{`\"`, `\\`, `\/`, `\b`, `\f`, `\n`, `\r`, `\t`}[r.Intn(8)])
		case 1:
			fmt.Fprintf(&sb, `\u%c%c%c%c`, "0123456789abcdefABCDEF"[r.Intn(22)], "0123456789abcdefABCDEF"[r.Intn(22)], "0123456789abcdefABCDEF"[r.Intn(22)], "0123456789abcdefABCDEF"[r.Intn(22)])
		case 2:
			sb.WriteString([]string{"é", "€", "𝄞", "\xff", "\x80", "\x7f", "ü"}[r.Intn(7)])
		case 3:
			sb.WriteByte("0123456789-+.eE"[r.Intn(15)])
		case 4:
			sb.WriteByte(" ,:[]{}'/"[r.Intn(9)])
		default:
			sb.WriteByte(byte('a' + r.Intn(26)))
		}
	}
	sb.WriteByte('"')
	return sb.String()
}

func c07GenValue(r *h.RNG, depth int, budget *int) *c07V {
	*budget--
	k := r.Intn(100)
	if depth <= 0 || *budget <= 0 {
		k = r.Intn(60)
	}
	switch {
	case k < 30:
		return &c07V{kind: 'n', lex: c07GenNumber(r)}
	case k < 48:
		return &c07V{kind: 's', lex: c07GenString(r)}
	case k < 60:
		return &c07V{kind: 'l', lex: r.Pick([]string{"true", "false", "null"})}
	case k < 80:
		n := []int{0, 0, 1, 1, 2, 3, 4, 6}[r.Intn(8)]
		v := &c07V{kind: 'a'}
		for i := 0; i < n; i++ {
			v.elems = append(v.elems, c07GenValue(r, depth-1, budget))
		}
		return v
	default:
		n := []int{0, 0, 1, 1, 2, 3, 4}[r.Intn(7)]
		v := &c07V{kind: 'o'}
		pool := []string{`"a"`, `"b"`, `""`, `"a"`, `"1"`, `"\u0061"`}
		for i := 0; i < n; i++ {
			if r.Chance(50) {
				v.keys = append(v.keys, r.Pick(pool)) // duplicate keys are likely
			} else {
				v.keys = append(v.keys, c07GenString(r))
			}
			v.elems = append(v.elems, c07GenValue(r, depth-1, budget))
		}
		return v
	}
}

// c07Chain builds a value nested `depth` deep (alternating arrays and objects) around a leaf.
func c07Chain(r *h.RNG, depth int) *c07V {
	v := &c07V{kind: 'n', lex: c07GenNumber(r)}
	for i := 0; i < depth; i++ {
		if r.Bool() {
			w := &c07V{kind: 'a', elems: []*c07V{v}}
			if r.Chance(30) {
				w.elems = append(w.elems, &c07V{kind: 'l', lex: "null"})
			}
			if r.Chance(20) {
				w.elems = append([]*c07V{{kind: 'a'}}, w.elems...)
			}
			v = w
		} else {
			w := &c07V{kind: 'o', keys: []string{`"k"`}, elems: []*c07V{v}}
			if r.Chance(30) {
				w.keys = append(w.keys, `"k"`)
				w.elems = append(w.elems, &c07V{kind: 'o'})
			}
			v = w
		}
	}
	return v
}

func c07Ws(r *h.RNG, level int) string {
	switch level {
	case 0:
		return ""
	case 1:
		if r.Chance(60) {
			return ""
		}
		return r.Pick([]string{" ", " ", "\n", "\t", "\r\n", "  ", "\r", " \n "})
	default:
		n := r.Intn(5)
		if r.Chance(4) {
			n = 50 + r.Intn(200)
		}
		b := make([]byte, n)
		for i := range b {
			b[i] = " \t\n\r"[r.Intn(4)]
		}
		return string(b)
	}
}

// c07Render writes `ws value ws` with whitespace in every gap of the RFC 8259 grammar.
func c07Render(sb *bytes.Buffer, v *c07V, r *h.RNG, level int) {
	sb.WriteString(c07Ws(r, level))
	switch v.kind {
	case 'a':
		sb.WriteByte('[')
		if len(v.elems) == 0 {
			sb.WriteString(c07Ws(r, level))
		}
		for i, e := range v.elems {
			if i > 0 {
				sb.WriteByte(',')
			}
			c07Render(sb, e, r, level)
		}
		sb.WriteByte(']')
	case 'o':
		sb.WriteByte('{')
		if len(v.elems) == 0 {
			sb.WriteString(c07Ws(r, level))
		}
		for i, e := range v.elems {
			if i > 0 {
				sb.WriteByte(',')
			}
			sb.WriteString(c07Ws(r, level))
			sb.WriteString(v.keys[i])
			sb.WriteString(c07Ws(r, level))
			sb.WriteByte(':')
			c07Render(sb, e, r, level)
		}
		sb.WriteByte('}')
	default:
		sb.WriteString(v.lex)
	}
	sb.WriteString(c07Ws(r, level))
}

// ---------- the real code ----------

type c07Cfg struct {
	keep bool
	prec int
}

func (c c07Cfg) String() string { return fmt.Sprintf("KeepNumbers=%v Precision=%d", c.keep, c.prec) }

// c07Minify calls the public API on a private copy of the input; reader kinds vary how parse.NewInput gets the bytes.
func c07Minify(text []byte, cfg c07Cfg, readerKind int) (out []byte, err error, crash string) {
	in := make([]byte, len(text), len(text)+1+readerKind%2) // with and without spare capacity for the NUL terminator
	copy(in, text)
	var r io.Reader
	switch readerKind % 3 {
	case 0:
		r = bytes.NewBuffer(in) // parse.NewInput uses Bytes() directly: Number rewrites this buffer in place
	case 1:
		r = bytes.NewReader(in)
	default:
		r = iotest.OneByteReader(bytes.NewReader(in))
	}
	var w bytes.Buffer
	crash = h.Safely(20*time.Second, func() {
		m := minify.New()
		err = (&mjson.Minifier{Precision: cfg.prec, KeepNumbers: cfg.keep}).Minify(m, &w, r, nil)
	})
	return w.Bytes(), err, crash
}

type c07Ev struct {
	state, gram byte
	text        []byte
}

// c07Events drives the dependency parser exactly like json.go does.
func c07Events(text []byte) (evs []c07Ev, err error, crash string) {
	in := make([]byte, len(text))
	copy(in, text)
	crash = h.Safely(20*time.Second, func() {
		p := pjson.NewParser(parse.NewInputBytes(in))
		for {
			state := p.State()
			gt, t := p.Next()
			if gt == pjson.ErrorGrammar {
				err = p.Err()
				return
			}
			evs = append(evs, c07Ev{byte(state), byte(gt), append([]byte{}, t...)})
		}
	})
	return
}

func c07Number(lex []byte, prec int) (res []byte, crash string) {
	crash = h.Safely(5*time.Second, func() {
		res = append([]byte{}, minify.Number(append([]byte{}, lex...), prec)...)
	})
	return
}

// ---------- independent oracle: encoding/json token streams + exact decimal comparison ----------

type c07Tok struct {
	kind byte // 'd' delimiter, 's' string, 'n' number, 'l' literal
	s    string
}

func c07Tokens(b []byte) ([]c07Tok, error) {
	if !stdjson.Valid(b) {
		return nil, fmt.Errorf("not a valid JSON text")
	}
	dec := stdjson.NewDecoder(bytes.NewReader(b))
	dec.UseNumber()
	var toks []c07Tok
	for {
		t, err := dec.Token()
		if err == io.EOF {
			return toks, nil
		}
		if err != nil {
			return nil, err
		}
		switch x := t.(type) {
		case stdjson.Delim:
			toks = append(toks, c07Tok{'d', x.String()})
		case string:
			toks = append(toks, c07Tok{'s', x})
		case stdjson.Number:
			toks = append(toks, c07Tok{'n', string(x)})
		case bool:
			toks = append(toks, c07Tok{'l', fmt.Sprint(x)})
		case nil:
			toks = append(toks, c07Tok{'l', "null"})
		default:
			return nil, fmt.Errorf("unexpected token %T", t)
		}
	}
}

// c07Norm normalises a JSON number lexeme to (negative, significant digits without leading/trailing zeros, exponent
// of the last digit); zero is ("", 0) and never negative (-0 = 0 numerically).
func c07Norm(lex string) (neg bool, digits string, exp *big.Int, ok bool) {
	s := lex
	if strings.HasPrefix(s, "-") {
		neg = true
		s = s[1:]
	}
	mant, e := s, ""
	if i := strings.IndexAny(s, "eE"); i >= 0 {
		mant, e = s[:i], s[i+1:]
	}
	exp = new(big.Int)
	if e != "" {
		if _, ok := exp.SetString(strings.TrimPrefix(e, "+"), 10); !ok {
			return false, "", nil, false
		}
	}
	ip, fp := mant, ""
	if i := strings.IndexByte(mant, '.'); i >= 0 {
		ip, fp = mant[:i], mant[i+1:]
	}
	d := ip + fp
	if d == "" || strings.Trim(d, "0123456789") != "" {
		return false, "", nil, false
	}
	exp.Sub(exp, big.NewInt(int64(len(fp))))
	t := strings.TrimRight(d, "0")
	exp.Add(exp, big.NewInt(int64(len(d)-len(t))))
	t = strings.TrimLeft(t, "0")
	if t == "" {
		return false, "", new(big.Int), true
	}
	return neg, t, exp, true
}

func c07ExpSmall(lex string) bool {
	if i := strings.IndexAny(lex, "eE"); i >= 0 {
		return len(strings.TrimLeft(lex[i+1:], "+-0")) <= 4
	}
	return true
}

// c07NumEq: exact numeric equality of two number lexemes; cross-checked with math/big.Rat when exponents are small.
func c07NumEq(a, b string) (eq bool, note string) {
	na, da, ea, oka := c07Norm(a)
	nb, db, eb, okb := c07Norm(b)
	if !oka || !okb {
		return false, "unparsable number"
	}
	eq = na == nb && da == db && ea.Cmp(eb) == 0
	if c07ExpSmall(a) && c07ExpSmall(b) && len(a) < 2000 && len(b) < 2000 {
		ra, ok1 := new(big.Rat).SetString(a)
		rb, ok2 := new(big.Rat).SetString(b)
		if ok1 && ok2 && (ra.Cmp(rb) == 0) != eq {
			return eq, "oracle disagreement: normalised decimals vs big.Rat"
		}
	}
	return eq, ""
}

// c07Oracle evaluates the property on (input, output) with encoding/json; returns "" or the failing clause.
func c07Oracle(in, out []byte, cfg c07Cfg) (clause string, detail string) {
	ti, err := c07Tokens(in)
	if err != nil {
		return "oracle-input", err.Error()
	}
	to, err := c07Tokens(out)
	if err != nil {
		return "output is not a valid JSON text", err.Error()
	}
	if len(ti) != len(to) {
		return "different structure (token count)", fmt.Sprintf("%d vs %d tokens", len(ti), len(to))
	}
	for i := range ti {
		a, b := ti[i], to[i]
		if a.kind != b.kind {
			return "different structure (token kind)", fmt.Sprintf("token %d: %q vs %q", i, a.s, b.s)
		}
		if a.kind == 'n' {
			if cfg.keep {
				if a.s != b.s {
					return "KeepNumbers: number lexeme changed", fmt.Sprintf("token %d: %s vs %s", i, a.s, b.s)
				}
			} else if cfg.prec <= 0 {
				eq, note := c07NumEq(a.s, b.s)
				if note != "" {
					return note, fmt.Sprintf("token %d: %s vs %s", i, a.s, b.s)
				}
				if !eq {
					return "number value changed", fmt.Sprintf("token %d: %s vs %s", i, a.s, b.s)
				}
			}
		} else if a.s != b.s {
			return "string/literal/delimiter changed", fmt.Sprintf("token %d: %q vs %q", i, a.s, b.s)
		}
	}
	return "", ""
}

// ---------- cases ----------

// regression inputs of the fixed finding K-C07-1 (json.go keeps the lexeme when the repaired result would be longer)
var c07Expected = map[string]string{
	"1e-3": "1e-3", "[1e-3]": "[1e-3]", "12e-4": "12e-4", "-1e-3": "-1e-3", "1.234567e-4": "1.234567e-4", "1E-3": "1E-3",
	"[1E-3, -12e-4]": "[1E-3,-12e-4]", "123e-5": "123e-5", "1.5e-3": "0.0015", "1.25e-3": "0.00125", `{"x":-1e-3}`: `{"x":-1e-3}`,
}

type c07Case struct {
	text []byte
	desc string // origin
}

func c07StartsDot(b []byte) bool {
	return len(b) > 0 && b[0] == '.' || len(b) > 1 && b[0] == '-' && b[1] == '.'
}

// c07Enumerate: all JSON number lexemes up to length L over a small alphabet (exhaustive).
func c07Enumerate(L int) []string {
	al := []byte("0159-+.eE")
	var out []string
	var rec func(cur []byte)
	rec = func(cur []byte) {
		if len(cur) > 0 && stdjson.Valid(cur) {
			out = append(out, string(cur))
		}
		if len(cur) == L {
			return
		}
		for _, c := range al {
			// prune: a JSON number prefix never has these shapes
			n := len(cur)
			if n == 0 && (c == '+' || c == '.' || c == 'e' || c == 'E') {
				continue
			}
			if n > 0 {
				p := cur[n-1]
				if (c == '+' || c == '-') && p != 'e' && p != 'E' {
					continue
				}
				if (c == '.' || c == 'e' || c == 'E') && (p < '0' || p > '9') {
					continue
				}
			}
			rec(append(cur, c))
		}
	}
	rec(nil)
	return out
}

func init() {
	register("C07", func(c *Ctx) error {
		mult := 1
		if c.Search {
			mult = 4
		}
		var cases []c07Case
		add := func(text []byte, desc string) { cases = append(cases, c07Case{text, desc}) }

		// fixed regression corpus: test-suite pairs, special lexemes, every string shape, finding inputs
		for _, s := range []string{`{ "a": [1, 2] }`, `[{ "a": [{"x": null}, true] }]`, `{ "a": 1, "b": 2 }`, `{ "a": 1           , "b": 2 }`,
			"1.3e1", "1E+03", "0.1", "-0.1", "1.0", "10000", "[]", "{}", "[ ]", "{ }", "[[]]", "[{}]", "{\"a\":{}}", "{\"a\":[]}", " null ", "true", "false",
			`{"a":1,"a":2,"a":{"a":[]}}`, `[1e-3]`, "1e-3", "12e-4", "-1e-3", "1.234567e-4", "1E-3", "[1E-3, -12e-4]", "123e-5", "1.5e-3", "1.25e-3", `{"x":-1e-3}`, `[0.5,-0.5,0.50,-0.50e0]`, "\t[\r\n1\n,\r2 ]\n", `""`, `[[],[]]`, `[{},{}]`, `{"":""}`} {
			add([]byte(s), "fixed")
		}
		for _, s := range c07Special {
			add([]byte(s), "special-number")
			add([]byte("[ "+s+" , "+s+" ]"), "special-number")
			add([]byte("{\"k\":"+s+"}"), "special-number")
		}
		for _, s := range c07Strings {
			add([]byte(s), "string")
			add([]byte("{"+s+" : "+s+", "+s+":[ "+s+" ]}"), "string")
		}
		// exhaustive: every JSON number lexeme up to length L over {0,1,5,9,-,+,.,e,E}
		L := c.N(6, 8)
		enum := c07Enumerate(L)
		for i, s := range enum {
			if i%7 == 0 {
				add([]byte(s), "enum-number")
			} else {
				add([]byte("["+s+"]"), "enum-number")
			}
		}
		nEnum := len(enum)
		// generated values x whitespace decorations
		maxDepth := c.N(6, 40)
		nGen := c.N(4000, 60000) * mult
		for i := 0; i < nGen; i++ {
			r := c.Rng.Fork()
			budget := 4 + r.Intn(40)
			if r.Chance(5) {
				budget = 300
			}
			v := c07GenValue(r, 1+r.Intn(maxDepth), &budget)
			for _, level := range []int{r.Intn(3), 2} {
				var sb bytes.Buffer
				c07Render(&sb, v, r, level)
				add(sb.Bytes(), "generated")
			}
		}
		// deep nesting
		for i := 0; i < c.N(30, 300)*mult; i++ {
			r := c.Rng.Fork()
			d := 1 + r.Intn(maxDepth)
			if i%10 == 0 {
				d = c.N(300, 3000)
			}
			var sb bytes.Buffer
			c07Render(&sb, c07Chain(r, d), r, r.Intn(3))
			add(sb.Bytes(), "deep")
		}
		// repository corpus and benchmark files
		var files []string
		for _, g := range []string{"tests/json/corpus/*", "_benchmarks/*.json"} {
			m, _ := filepath.Glob(filepath.Join(c.Repo, g))
			sort.Strings(m)
			files = append(files, m...)
		}
		for _, f := range files {
			b, err := os.ReadFile(f)
			if err != nil {
				continue
			}
			add(b, "file:"+filepath.Base(f))
		}
		// byte-level mutations (mostly invalid JSON: outside the property, must not crash; also validates parseJ against json.Valid)
		nMut := c.N(3000, 40000) * mult
		var muts []c07Case
		for i := 0; i < nMut; i++ {
			r := c.Rng.Fork()
			src := cases[r.Intn(len(cases))].text
			if len(src) == 0 || len(src) > 400 {
				continue
			}
			b := append([]byte{}, src...)
			for k := 0; k <= r.Intn(2); k++ {
				p := r.Intn(len(b))
				switch r.Intn(4) {
				case 0:
					b = append(b[:p], b[p+1:]...)
				case 1:
					al := " \t,:[]{}\"\\0159-+.eEtrufalsn\x00\x1f/x"
					b[p] = al[r.Intn(len(al))]
				case 2:
					al := " ,:[]{}\"\\01-.e"
					b = append(b[:p], append([]byte{al[r.Intn(len(al))]}, b[p:]...)...)
				default:
					q := r.Intn(len(b))
					b[p], b[q] = b[q], b[p]
				}
				if len(b) == 0 {
					break
				}
			}
			muts = append(muts, c07Case{b, "mutation"})
		}

		configs := []c07Cfg{{false, 0}, {true, 0}, {false, -1}, {false, 1}, {false, 2}, {false, 3}, {false, 6}}

		// ===== stage 0: the hand-written RFC 8259 parser of the Spec vs encoding/json (validity) =====
		{
			st := c.R.StartStage("spec-validity", "spec parser parseJ accepts a text iff encoding/json.Valid does (generated valid texts and byte-level mutations of them); non-trivial = the text is invalid JSON or contains a container")
			var lines []string
			all := append(append([]c07Case{}, cases...), muts...)
			for _, cs := range all {
				lines = append(lines, "spec.c07.compact "+h.Hex(cs.text))
			}
			rep, err := h.Eval(lines)
			if err != nil {
				return err
			}
			for i, cs := range all {
				valid := stdjson.Valid(cs.text)
				_, ok, msg := h.DecodeReply(rep[i])
				st.Count(h.Q(cs.text), !valid || bytes.ContainsAny(cs.text, "[{"))
				st.Tag(fmt.Sprintf("valid=%v", valid))
				if ok != valid && (ok || msg == "invalid") {
					c.R.Add(h.Finding{Stage: st.Name, Kind: "diff", What: "spec parser parseJ and encoding/json.Valid disagree on validity", Input: h.Q(cs.text), Hex: h.Hex(cs.text),
						Impl: fmt.Sprintf("encoding/json.Valid=%v", valid), Model: fmt.Sprintf("parseJ accepts=%v %s", ok, msg)})
				} else if !ok && msg != "invalid" {
					c.R.Add(h.Finding{Stage: st.Name, Kind: "diff", What: "driver error: " + msg, Input: h.Q(cs.text), Hex: h.Hex(cs.text)})
				}
			}
			st.End()
		}

		// invalid inputs: outside the property, but the real code must not crash or hang on them
		{
			st := c.R.StartStage("invalid-no-crash", "byte-level mutations that are not valid JSON: Minify must return (error or not) without panic/timeout; nothing else is demanded; non-trivial = every case")
			for _, cs := range muts {
				if stdjson.Valid(cs.text) {
					cases = append(cases, c07Case{cs.text, "valid-mutation"})
					continue
				}
				st.Count(h.Q(cs.text), true)
				for _, cfg := range configs[:2] {
					if _, _, crash := c07Minify(cs.text, cfg, 0); crash != "" {
						c.R.Add(h.Finding{Stage: st.Name, Kind: "crash", What: crash, Input: h.Q(cs.text), Hex: h.Hex(cs.text), Config: cfg.String()})
					}
				}
			}
			st.End()
		}

		// ===== stage (i): event contract of the dependency parser =====
		type evInfo struct {
			evs   []c07Ev
			valid bool
		}
		infos := make([]evInfo, len(cases))
		{
			st := c.R.StartStage("event-contract", "real parse/v2/json.Parser driven like json.go (State before Next, grammar, text) vs Lean contract events(parseJ text), on every valid text (fixed, special lexemes, exhaustive small number lexemes, generated values x whitespace decorations, deep nesting, repository corpus/benchmarks, valid mutations); non-trivial = at least 3 events (a container)")
			var lines []string
			var idx []int
			for i, cs := range cases {
				if !stdjson.Valid(cs.text) {
					continue // corpus file that is not valid JSON: outside the property
				}
				evs, err, crash := c07Events(cs.text)
				if crash != "" {
					c.R.Add(h.Finding{Stage: st.Name, Kind: "crash", What: "json.Parser: " + crash, Input: h.Q(cs.text), Hex: h.Hex(cs.text)})
					continue
				}
				if err != io.EOF {
					c.R.Add(h.Finding{Stage: st.Name, Kind: "fail", What: "dependency parser rejects a valid JSON text", Input: h.Q(cs.text), Hex: h.Hex(cs.text), Impl: fmt.Sprint(err)})
					continue
				}
				infos[i] = evInfo{evs, true}
				lines = append(lines, "model.c07.events "+h.Hex(cs.text))
				idx = append(idx, i)
			}
			rep, err := h.Eval(lines)
			if err != nil {
				return err
			}
			for k, i := range idx {
				cs := cases[i]
				items := make([][]byte, len(infos[i].evs))
				for j, e := range infos[i].evs {
					items[j] = append([]byte{'0' + e.state, '0' + e.gram}, e.text...)
				}
				st.Count(h.Q(cs.text), len(items) >= 3)
				st.Tag("origin=" + strings.SplitN(cs.desc, ":", 2)[0])
				b, ok, msg := h.DecodeReply(rep[k])
				if !ok {
					c.R.Add(h.Finding{Stage: st.Name, Kind: "diff", What: "model error: " + msg, Input: h.Q(cs.text), Hex: h.Hex(cs.text)})
					continue
				}
				got := h.DecodeListReply(b)
				if !c15EqLists(got, items) {
					c.R.Add(h.Finding{Stage: st.Name, Kind: "diff", What: "event sequence of json.Parser differs from the contract `events`", Input: h.Q(cs.text), Hex: h.Hex(cs.text),
						Impl: c07ShowEvents(items), Model: c07ShowEvents(got)})
				}
			}
			st.End()
		}

		// ===== stages (ii) + (iii): bytes tie and the property on the real output =====
		stB := c.R.StartStage("bytes", "json.Minifier{Precision,KeepNumbers}.Minify (public API; reader kinds: bytes.Buffer used in place, bytes.Reader, one-byte reader) vs Lean model minifyText with the real minify.Number result of every number lexeme as table; configs KeepNumbers on/off, Precision -1,0,1,2,3,6; non-trivial = output differs from input (whitespace removed or a number rewritten) and the text has a container or a rewritten number")
		stP := c.R.StartStage("property", "the property on the implementation's output: encoding/json token streams of input and output (UseNumber; order, duplicate keys), numbers exactly equal at precision<=0 (normalised decimals, cross-checked with big.Rat), same structure at precision>0, len(out)<=len(in), KeepNumbers => lexemes identical; plus the Lean spec side spec.c07.holds (parseJ, jvEq bytewise strings); non-trivial = a number lexeme was rewritten or whitespace was removed")
		type hypCase struct {
			lex, res []byte
			prec     int
		}
		hyp := map[string]hypCase{}
		type job struct {
			ci    int
			cfg   c07Cfg
			out   []byte
			table [][]byte
			mode  int
		}
		var jobs []job
		var linesB, linesP []string
		for i, cs := range cases {
			if !infos[i].valid {
				continue
			}
			cfgs := configs
			if len(cs.text) > 100000 {
				cfgs = configs[:4]
			}
			for ci, cfg := range cfgs {
				if ci >= 2 && cs.desc != "special-number" && cs.desc != "fixed" && cs.desc != "enum-number" && (i+ci)%3 != 0 {
					continue // precision variants on a third of the generated cases
				}
				out, err, crash := c07Minify(cs.text, cfg, i+ci)
				key := cfg.String() + " " + h.Q(cs.text)
				if crash != "" {
					c.R.Add(h.Finding{Stage: stB.Name, Kind: "crash", What: crash, Input: h.Q(cs.text), Hex: h.Hex(cs.text), Config: cfg.String()})
					continue
				}
				if err != nil {
					c.R.Add(h.Finding{Stage: stP.Name, Kind: "fail", What: "Minify returns an error on a valid JSON text", Input: h.Q(cs.text), Hex: h.Hex(cs.text), Config: cfg.String(), Impl: err.Error()})
					continue
				}
				// table of real Number results
				var table [][]byte
				seen := map[string]bool{}
				changed, bigExp := false, false
				for _, e := range infos[i].evs {
					if e.gram != byte(pjson.NumberGrammar) {
						continue
					}
					res, crash := c07Number(e.text, cfg.prec)
					if crash != "" {
						c.R.Add(h.Finding{Stage: stB.Name, Kind: "crash", What: "minify.Number: " + crash, Input: h.Q(e.text), Config: cfg.String()})
						continue
					}
					hk := fmt.Sprintf("%d|%s", cfg.prec, e.text)
					if _, ok := hyp[hk]; !ok {
						hyp[hk] = hypCase{append([]byte{}, e.text...), res, cfg.prec}
					}
					if !cfg.keep && !bytes.Equal(res, e.text) {
						changed = true
					}
					if !c07ExpSmall(string(e.text)) {
						bigExp = true
					}
					if !seen[string(e.text)] {
						seen[string(e.text)] = true
						table = append(table, e.text, res)
					}
				}
				mode := 0
				if cfg.prec > 0 || bigExp {
					mode = 1
				}
				nontriv := !bytes.Equal(out, cs.text) && (len(infos[i].evs) >= 3 || changed)
				stB.Count(key, nontriv)
				stB.Tag("cfg=" + cfg.String())
				stP.Count(key, changed || len(out) < len(cs.text))
				if changed {
					stP.Tag("number-rewritten")
				}
				// (iii) Go-side oracle
				if clause, detail := c07Oracle(cs.text, out, cfg); clause != "" {
					kind := "fail"
					if clause == "oracle-input" || strings.HasPrefix(clause, "oracle disagreement") {
						kind = "diff"
					}
					c.R.Add(h.Finding{Stage: stP.Name, Kind: kind, What: clause, Input: h.Q(cs.text), Hex: h.Hex(cs.text), Config: cfg.String(), Impl: h.Q(out), Model: detail})
				}
				if len(out) > len(cs.text) {
					c.R.Add(h.Finding{Stage: stP.Name, Kind: "fail", What: "output longer than input", Input: h.Q(cs.text), Hex: h.Hex(cs.text), Config: cfg.String(), Impl: h.Q(out),
						Model: fmt.Sprintf("len(out)=%d len(in)=%d", len(out), len(cs.text))})
				}
				if want, ok := c07Expected[string(cs.text)]; ok && !cfg.keep && cfg.prec <= 0 && string(out) != want {
					c.R.Add(h.Finding{Stage: stP.Name, Kind: "diff", What: "regression input (fixed finding K-C07-1): output differs from the recorded one (a longer output is reported separately as fail)", Input: h.Q(cs.text), Hex: h.Hex(cs.text), Config: cfg.String(), Impl: h.Q(out), Model: h.Q([]byte(want))})
				}
				jobs = append(jobs, job{i, cfg, out, table, mode})
				linesB = append(linesB, "model.c07.minify "+h.Hex(cs.text)+" "+h.Bool(cfg.keep)+" "+h.Int(int64(cfg.prec))+" "+h.List(table))
				linesP = append(linesP, "spec.c07.holds "+h.Hex(cs.text)+" "+h.Hex(out)+" "+h.Bool(cfg.keep)+" "+h.Int(int64(mode)))
			}
		}
		repB, err := h.Eval(linesB)
		if err != nil {
			return err
		}
		repP, err := h.Eval(linesP)
		if err != nil {
			return err
		}
		for k, j := range jobs {
			cs := cases[j.ci]
			got, ok, msg := h.DecodeReply(repB[k])
			if !ok {
				c.R.Add(h.Finding{Stage: stB.Name, Kind: "diff", What: "model error: " + msg, Input: h.Q(cs.text), Hex: h.Hex(cs.text), Config: j.cfg.String(), Impl: h.Q(j.out)})
			} else if !bytes.Equal(got, j.out) {
				c.R.Add(h.Finding{Stage: stB.Name, Kind: "diff", What: "json.Minify output differs from model minifyText", Input: h.Q(cs.text), Hex: h.Hex(cs.text), Config: j.cfg.String(), Impl: h.Q(j.out), Model: h.Q(got)})
			}
			v, ok, msg := h.DecodeReply(repP[k])
			if !ok {
				c.R.Add(h.Finding{Stage: stP.Name, Kind: "diff", What: "spec error: " + msg, Input: h.Q(cs.text), Hex: h.Hex(cs.text), Config: j.cfg.String()})
				continue
			}
			switch string(v) {
			case "ok":
			case "invalid-input":
				c.R.Add(h.Finding{Stage: stP.Name, Kind: "diff", What: "spec parser rejects a text that encoding/json accepts", Input: h.Q(cs.text), Hex: h.Hex(cs.text)})
			default:
				c.R.Add(h.Finding{Stage: stP.Name, Kind: "fail", What: "spec.c07.holds: clause `" + string(v) + "` fails on the implementation's output", Input: h.Q(cs.text), Hex: h.Hex(cs.text), Config: j.cfg.String(), Impl: h.Q(j.out)})
			}
		}
		stB.End()
		stP.End()

		// ===== hypotheses of the theorems on `num`, checked on the real minify.Number =====
		{
			st := c.R.StartStage("num-hypotheses", "NumGrammar (result in the minifier grammar, not longer), NumDotShrinks (lexeme without exponent and result starting with `.`/`-.` => strictly shorter), NumValue (precision<=0: equal value) evaluated by the Lean spec (spec.c07.numHyp) on the real minify.Number result for every distinct (number lexeme, precision) met above, incl. all enumerated lexemes x all precisions; non-trivial = result differs from the lexeme")
			keys := make([]string, 0, len(hyp))
			for k := range hyp {
				keys = append(keys, k)
			}
			sort.Strings(keys)
			lines := make([]string, len(keys))
			for i, k := range keys {
				hc := hyp[k]
				lines[i] = "spec.c07.numHyp " + h.Hex(hc.lex) + " " + h.Hex(hc.res) + " " + h.Int(int64(hc.prec))
			}
			rep, err := h.Eval(lines)
			if err != nil {
				return err
			}
			for i, k := range keys {
				hc := hyp[k]
				st.Count(fmt.Sprintf("Number(%s,%d)=%s", hc.lex, hc.prec, hc.res), !bytes.Equal(hc.lex, hc.res))
				if c07StartsDot(hc.res) {
					st.Tag("result-starts-with-dot")
				}
				v, ok, msg := h.DecodeReply(rep[i])
				if !ok || string(v) != "ok" {
					c.R.Add(h.Finding{Stage: st.Name, Kind: "diff", What: "hypothesis on minify.Number does not hold: " + string(v) + msg, Input: h.Q(hc.lex), Hex: h.Hex(hc.lex), Config: fmt.Sprintf("Precision=%d", hc.prec), Impl: h.Q(hc.res)})
				}
			}
			st.End()
		}
		c.R.Note("exhaustive part: all %d JSON number lexemes of length <= %d over {0,1,5,9,-,+,.,e,E} (as top-level value or array element) x 7 configs", nEnum, L)

		// ===== known findings =====
		for _, k := range h.Known("C07") {
			in := []byte(k.ReplayStr("input"))
			if k.Status == "fixed" {
				continue
			}
			out, err, crash := c07Minify(in, c07Cfg{false, 0}, 0)
			still := crash == "" && err == nil && len(out) > len(in)
			c.R.AddKnown(k.ID, still, k.What, fmt.Sprintf("%s -> %s", h.Q(in), h.Q(out)))
		}
		return nil
	})
}

func c07ShowEvents(items [][]byte) string {
	st := []string{"Value", "ObjectKey", "ObjectValue", "Array"}
	var p []string
	for _, it := range items {
		if len(it) < 2 {
			p = append(p, "?")
			continue
		}
		s := "?"
		if int(it[0]-'0') < len(st) {
			s = st[it[0]-'0']
		}
		p = append(p, fmt.Sprintf("(%s,%s,%s)", s, pjson.GrammarType(it[1]-'0'), h.Q(it[2:])))
		if len(p) > 40 {
			p = append(p, "…")
			break
		}
	}
	return strings.Join(p, " ")
}

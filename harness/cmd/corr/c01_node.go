package main

// C01 — glue to the independent execution oracle tools/jsrun.mjs (node, fresh vm context per program, recording
// host world).  c01NodeCompare batches (input, output) program pairs through a few node processes.

import (
	"bufio"
	"bytes"
	"encoding/json"
	"fmt"
	"os/exec"
	"path/filepath"
	"sync"

	"verifharness/h"
)

type c01Pair struct {
	ID        int
	A, B      string
	Seed      int
	TraceGets bool
}

type c01NodeResult struct {
	ID        int
	Same      bool
	Skip, Why string
	OA, OB    string
}

const (
	c01NodeMaxProcs = 8
	c01NodeMaxBatch = 5000
	c01NodeMinBatch = 50
)

var c01NodeBin = "/usr/bin/node"

type c01NodeRequest struct {
	ID        int    `json:"id"`
	A         string `json:"a"`
	B         string `json:"b"`
	Seed      int    `json:"seed"`
	Mode      string `json:"mode"`
	TraceGets bool   `json:"traceGets,omitempty"`
}

type c01NodeReply struct {
	ID   int    `json:"id"`
	Same bool   `json:"same"`
	Skip string `json:"skip"`
	Why  string `json:"why"`
	OA   string `json:"oa"`
	OB   string `json:"ob"`
}

func c01NodeScript() string { return filepath.Join(h.Root(), "tools", "jsrun.mjs") }

// c01NodeCompare runs all pairs through `node <root>/tools/jsrun.mjs` (root = h.Root()), split over up to 8 node
// processes in parallel, at most 5000 pairs per process, and returns the results indexed like `pairs`.
// It is an error if node cannot be started, exits abnormally, or a reply is missing / out of order.
func c01NodeCompare(pairs []c01Pair) ([]c01NodeResult, error) {
	n := len(pairs)
	out := make([]c01NodeResult, n)
	if n == 0 {
		return out, nil
	}
	size := (n + c01NodeMaxProcs - 1) / c01NodeMaxProcs
	if size < c01NodeMinBatch {
		size = c01NodeMinBatch
	}
	if size > c01NodeMaxBatch {
		size = c01NodeMaxBatch
	}
	type span struct{ lo, hi int }
	var spans []span
	for lo := 0; lo < n; lo += size {
		hi := lo + size
		if hi > n {
			hi = n
		}
		spans = append(spans, span{lo, hi})
	}
	errs := make([]error, len(spans))
	sem := make(chan struct{}, c01NodeMaxProcs)
	var wg sync.WaitGroup
	for k, sp := range spans {
		wg.Add(1)
		sem <- struct{}{}
		go func(k, lo, hi int) {
			defer wg.Done()
			defer func() { <-sem }()
			errs[k] = c01NodeBatch(pairs[lo:hi], out[lo:hi])
		}(k, sp.lo, sp.hi)
	}
	wg.Wait()
	for _, e := range errs {
		if e != nil {
			return nil, e
		}
	}
	return out, nil
}

// c01NodeBatch runs one node process over pairs and fills out (same length).
func c01NodeBatch(pairs []c01Pair, out []c01NodeResult) error {
	var in bytes.Buffer
	enc := json.NewEncoder(&in)
	enc.SetEscapeHTML(false)
	for i, p := range pairs {
		// the position in the batch is the wire id, so that replies can be checked independently of caller ids
		if err := enc.Encode(c01NodeRequest{ID: i, A: p.A, B: p.B, Seed: p.Seed, Mode: "script", TraceGets: p.TraceGets}); err != nil {
			return fmt.Errorf("jsrun: encode request: %v", err)
		}
	}
	cmd := exec.Command(c01NodeBin, "--max-old-space-size=2048", c01NodeScript())
	cmd.Stdin = &in
	var stdout, stderr bytes.Buffer
	cmd.Stdout = &stdout
	cmd.Stderr = &stderr
	if err := cmd.Run(); err != nil {
		return fmt.Errorf("jsrun: %v: %s", err, c01NodeClip(stderr.String(), 400))
	}
	sc := bufio.NewScanner(&stdout)
	sc.Buffer(make([]byte, 1<<20), 1<<28)
	i := 0
	for sc.Scan() {
		line := sc.Bytes()
		if len(bytes.TrimSpace(line)) == 0 {
			continue
		}
		if i >= len(pairs) {
			return fmt.Errorf("jsrun: more replies than requests (%d)", len(pairs))
		}
		var r c01NodeReply
		if err := json.Unmarshal(line, &r); err != nil {
			return fmt.Errorf("jsrun: undecodable reply %d: %v: %s", i, err, c01NodeClip(string(line), 200))
		}
		if r.ID != i {
			return fmt.Errorf("jsrun: reply %d carries id %d (replies out of order or missing)", i, r.ID)
		}
		out[i] = c01NodeResult{ID: pairs[i].ID, Same: r.Same, Skip: r.Skip, Why: r.Why, OA: r.OA, OB: r.OB}
		i++
	}
	if err := sc.Err(); err != nil {
		return fmt.Errorf("jsrun: reading replies: %v", err)
	}
	if i != len(pairs) {
		return fmt.Errorf("jsrun: %d replies for %d requests (stderr: %s)", i, len(pairs), c01NodeClip(stderr.String(), 400))
	}
	return nil
}

func c01NodeClip(s string, n int) string {
	if len(s) > n {
		return s[:n] + "…"
	}
	return s
}

package main

// C14 — I/O failures surface as errors, never as silent truncation or deadlock.
//
// Fault sweep on the real code (public API only: m.Minify, m.Reader, m.Writer):
//   * writer sweep: count the real Write calls n of an input (incl. probes), then for EVERY k ≤ n run
//     against a sticky failing writer (fails from its k-th call on) → the call must return an error
//     that errors.Is the injected one (valid input) / a non-nil error (input with a syntax error);
//     k = n+1 → must succeed with identical output.  Same through m.Writer: Close must return it, and
//     Close must return at all (watchdog).
//   * reader sweep: the reader fails after every byte offset k (with and without a short final read,
//     several Read sizes) → m.Minify returns that error; through m.Reader the consumer reads it.
//   * both at once; unknown media type through m.Writer (the goroutine ends before reading).
// The property itself is judged on the implementation's behaviour (kind "fail"/"crash"); in addition the
// verdict is compared with the prediction of the regenerated exit skeleton (model.c14.predict, kind "diff").

import (
	"bytes"
	"errors"
	"fmt"
	"io"
	"runtime"
	"strings"
	"sync"
	"time"

	"github.com/tdewolff/minify/v2"

	"verifharness/h"
)

var errInjW = errors.New("injected writer failure")
var errInjR = errors.New("injected reader failure")

// flavours of the injected reader failure: the plain error; one that wraps io.EOF ("connection closed by peer: EOF") and one
// that wraps io.ErrUnexpectedEOF — only the identical value io.EOF means a clean end of input (io.Reader contract)
var errInjRFlavours = []error{errInjR, errors.Join(errInjR, io.EOF), errors.Join(errInjR, io.ErrUnexpectedEOF)}
var errInjRNames = []string{"plain", "wraps-io.EOF", "wraps-io.ErrUnexpectedEOF"}

// stickyW fails from its k-th Write call on (k = 0: never) and keeps failing.
type stickyW struct {
	k, calls int
	chunks   [][]byte // accepted chunks
	keep     bool
	acc      bytes.Buffer
}

func (s *stickyW) Write(b []byte) (int, error) {
	s.calls++
	if s.k > 0 && s.calls >= s.k {
		return 0, errInjW
	}
	if s.keep {
		s.chunks = append(s.chunks, append([]byte(nil), b...))
	}
	s.acc.Write(b)
	return len(b), nil
}

// failR delivers data[:k] in Reads of at most chunk bytes, then fails (and keeps failing); short: the
// error is returned together with the last bytes.  It deliberately has no Bytes() method.
type failR struct {
	data  []byte
	k     int
	chunk int
	short bool
	pos   int
	err   error // nil: errInjR
}

func (r *failR) fail() error {
	if r.err != nil {
		return r.err
	}
	return errInjR
}

func (r *failR) Read(p []byte) (int, error) {
	if r.pos >= r.k {
		return 0, r.fail()
	}
	n := len(p)
	if n > r.chunk {
		n = r.chunk
	}
	if n > r.k-r.pos {
		n = r.k - r.pos
	}
	copy(p, r.data[r.pos:r.pos+n])
	r.pos += n
	if r.short && r.pos == r.k {
		return n, r.fail()
	}
	return n, nil
}

type c14Res struct {
	in       ioInput
	n        int   // Write calls of the clean run (incl. probes)
	err0     error // error of the clean run
	evals    int
	nontriv  int
	tags     map[string]int
	lines    []string // model requests
	wants    []string // observed verdict classes
	keys     []string
	findings []h.Finding
}

func c14Class(err error) string {
	switch {
	case err == nil:
		return "ok"
	case errors.Is(err, errInjW):
		return "err:writer"
	case errors.Is(err, errInjR):
		return "err:reader"
	}
	return "err:other"
}

func (res *c14Res) add(kind, what, cfg, impl string) {
	in := res.in
	res.findings = append(res.findings, h.Finding{Stage: "fault-sweep", Kind: kind, What: what,
		Input: fmt.Sprintf("%s %s %s", in.mt, in.name, h.Q(clip(in.data, 200))), Hex: h.Hex(clip(in.data, 4096)), Config: cfg, Impl: impl})
}

func clip(b []byte, n int) []byte {
	if len(b) > n {
		return b[:n]
	}
	return b
}

const c14Timeout = 20 * time.Second

// c14Sweep runs the whole fault sweep for one input. ks: which k of the writer sweep also go through m.Writer.
func c14Sweep(m *minify.M, in ioInput, rng *h.RNG, maxK int, maxOff int) *c14Res {
	res := &c14Res{in: in, tags: map[string]int{}}
	// clean run
	cw := &stickyW{keep: true}
	var err0 error
	if crash := h.Safely(c14Timeout, func() { err0 = m.Minify(in.mt, cw, bytes.NewReader(in.data)) }); crash != "" {
		res.add("crash", "clean run: "+crash, "", "")
		return res
	}
	res.n, res.err0 = cw.calls, err0
	n := cw.calls
	valid := err0 == nil
	out0 := append([]byte(nil), cw.acc.Bytes()...)
	if valid {
		res.tags["input=valid"]++
	} else {
		res.tags["input=syntax-error"]++
	}
	if n == 0 {
		// no Write call at all, not even the zero-length probe: a writer that is already broken can never be noticed
		sw := &stickyW{k: 1}
		var err error
		if crash := h.Safely(c14Timeout, func() { err = m.Minify(in.mt, sw, bytes.NewReader(in.data)) }); crash != "" {
			res.add("crash", "m.Minify with failing writer: "+crash, "sticky writer k=1 of n=0 calls", "")
		} else if err == nil && valid {
			res.evals++
			res.add("fail", "Minify never calls Write (no probe): a writer that fails from its first call is reported as success", "sticky writer k=1 of n=0 calls", "err=nil, 0 write calls")
		}
	}
	// ---- writer sweep ----
	ks := make([]int, 0, n+1)
	if n+1 <= maxK {
		for k := 1; k <= n+1; k++ {
			ks = append(ks, k)
		}
	} else { // sampled (thorough tier, huge inputs): first/last 200 and random ones
		seen := map[int]bool{}
		for k := 1; k <= 200; k++ {
			seen[k] = true
		}
		for k := n - 198; k <= n+1; k++ {
			seen[k] = true
		}
		for len(seen) < maxK {
			seen[1+rng.Intn(n+1)] = true
		}
		for k := range seen {
			ks = append(ks, k)
		}
	}
	for _, k := range ks {
		cfg := fmt.Sprintf("sticky writer k=%d of n=%d calls", k, n)
		sw := &stickyW{k: k}
		var err error
		if crash := h.Safely(c14Timeout, func() { err = m.Minify(in.mt, sw, bytes.NewReader(in.data)) }); crash != "" {
			res.add("crash", "m.Minify with failing writer: "+crash, cfg, "")
			continue
		}
		res.evals++
		if k > 1 && k <= n {
			res.nontriv++
		}
		cl := c14Class(err)
		switch {
		case k <= n && err == nil:
			res.add("fail", "writer failed but Minify reported success (output truncated)", cfg, fmt.Sprintf("err=nil, %d of %d output bytes accepted", sw.acc.Len(), len(out0)))
		case k <= n && valid && cl != "err:writer":
			res.add("fail", "writer failed but Minify returned a different error", cfg, "err="+err.Error())
		case k == n+1 && valid && (err != nil || !bytes.Equal(sw.acc.Bytes(), out0)):
			res.add("diff", "healthy writer: run not reproducible", cfg, fmt.Sprint(err))
		}
		if k <= n && !bytes.HasPrefix(out0, sw.acc.Bytes()) {
			res.add("diff", "bytes accepted before the failure are not a prefix of the clean output", cfg, "")
		}
		if valid {
			res.lines = append(res.lines, "model.c14.predict "+h.HexS(in.pkg)+" "+h.Int(int64(n-1))+" "+h.Int(int64(k))+" "+h.Bool(false))
			res.wants = append(res.wants, cl)
			res.keys = append(res.keys, cfg)
		}
		res.tags["minify/"+cl]++
		// through m.Writer: Close returns the error, and returns
		sw2 := &stickyW{k: k}
		var werr, cerr error
		closed := false
		crash := h.Safely(c14Timeout, func() {
			wc := m.Writer(in.mt, sw2)
			cut := 0
			if len(in.data) > 0 {
				cut = rng.Intn(len(in.data) + 1)
			}
			if _, e := wc.Write(in.data[:cut]); e != nil {
				werr = e
			}
			if _, e := wc.Write(in.data[cut:]); e != nil {
				werr = e
			}
			cerr = wc.Close()
			closed = true
		})
		res.evals++
		if crash != "" {
			res.add("crash", "m.Writer with failing writer: Close did not return: "+crash, cfg, "")
			continue
		}
		_ = closed
		wcl := c14Class(cerr)
		if wcl == "ok" && werr != nil {
			wcl = c14Class(werr)
		}
		switch {
		case k <= n && cerr == nil && werr == nil:
			res.add("fail", "writer failed but m.Writer's Write and Close reported success", cfg, "")
		case k <= n && valid && wcl != "err:writer":
			res.add("fail", "writer failed but m.Writer returned a different error", cfg, fmt.Sprintf("write err=%v close err=%v", werr, cerr))
		case k == n+1 && valid && (cerr != nil || werr != nil || !bytes.Equal(sw2.acc.Bytes(), out0)):
			res.add("fail", "healthy writer: m.Writer differs from m.Minify", cfg, fmt.Sprintf("write err=%v close err=%v", werr, cerr))
		}
		res.tags["writer/"+wcl]++
	}
	// ---- reader sweep ----
	offs := make([]int, 0, len(in.data)+1)
	if len(in.data)+1 <= maxOff {
		for k := 0; k <= len(in.data); k++ {
			offs = append(offs, k)
		}
	} else {
		offs = append(offs, 0, 1, len(in.data)-1, len(in.data))
		for len(offs) < maxOff {
			offs = append(offs, rng.Intn(len(in.data)+1))
		}
	}
	for _, k := range offs {
		for _, short := range []bool{false, true} {
			chunk := []int{1, 3, 64, 512, 1 << 20}[rng.Intn(5)]
			fl := rng.Intn(len(errInjRFlavours))
			rerrv := errInjRFlavours[fl]
			cfg := fmt.Sprintf("reader fails after %d of %d bytes short=%v readsize<=%d error=%s", k, len(in.data), short, chunk, errInjRNames[fl])
			var err error
			sw := &stickyW{}
			if crash := h.Safely(c14Timeout, func() {
				err = m.Minify(in.mt, sw, &failR{data: in.data, k: k, chunk: chunk, short: short, err: rerrv})
			}); crash != "" {
				res.add("crash", "m.Minify with failing reader: "+crash, cfg, "")
				continue
			}
			res.evals++
			if k > 0 {
				res.nontriv++
			}
			cl := c14Class(err)
			if err == nil {
				res.add("fail", "reader failed but Minify reported success", cfg, fmt.Sprintf("err=nil, %d output bytes", sw.acc.Len()))
			} else if cl != "err:reader" {
				res.add("fail", "reader failed but Minify returned a different error", cfg, "err="+err.Error())
			}
			res.lines = append(res.lines, "model.c14.predict "+h.HexS(in.pkg)+" "+h.Int(0)+" "+h.Int(1<<30)+" "+h.Bool(true))
			res.wants = append(res.wants, cl)
			res.keys = append(res.keys, cfg)
			res.tags["minify/"+cl]++
			// through m.Reader: the consumer gets the error
			var rerr error
			if crash := h.Safely(c14Timeout, func() {
				rd := m.Reader(in.mt, &failR{data: in.data, k: k, chunk: chunk, short: short, err: rerrv})
				_, rerr = io.ReadAll(rd)
			}); crash != "" {
				res.add("crash", "m.Reader with failing reader: "+crash, cfg, "")
				continue
			}
			res.evals++
			if rerr == nil {
				res.add("fail", "reader failed but m.Reader's consumer saw a clean EOF", cfg, "")
			} else if !errors.Is(rerr, errInjR) {
				res.add("fail", "reader failed but m.Reader returned a different error", cfg, "err="+rerr.Error())
			}
			res.tags["reader/"+c14Class(rerr)]++
		}
	}
	// ---- both at once: failing reader and a writer that fails from its first call ----
	for _, k := range []int{0, len(in.data) / 2, len(in.data)} {
		cfg := fmt.Sprintf("reader fails after %d bytes and writer fails from call 1", k)
		var err error
		if crash := h.Safely(c14Timeout, func() {
			err = m.Minify(in.mt, &stickyW{k: 1}, &failR{data: in.data, k: k, chunk: 7})
		}); crash != "" {
			res.add("crash", "both failing: "+crash, cfg, "")
			continue
		}
		res.evals++
		cl := c14Class(err)
		if cl != "err:reader" && cl != "err:writer" {
			res.add("fail", "reader and writer failed but Minify did not return either error", cfg, fmt.Sprint(err))
		}
		res.lines = append(res.lines, "model.c14.predict "+h.HexS(in.pkg)+" "+h.Int(0)+" "+h.Int(1)+" "+h.Bool(true))
		res.wants = append(res.wants, cl)
		res.keys = append(res.keys, cfg)
		res.tags["both/"+cl]++
	}
	return res
}

// c14NotExist: m.Writer for a media type without minifier — the goroutine ends without reading;
// pending and later Writes must fail (not block) and Close must return ErrNotExist.
func c14NotExist(c *Ctx, st *h.Stage, m *minify.M) {
	for _, size := range []int{0, 1, 100, 70000} {
		for _, chunks := range []int{1, 3} {
			cfg := fmt.Sprintf("m.Writer(\"x/unknown\") %d bytes in %d writes", size, chunks)
			var werrs []error
			var cerr error
			sw := &stickyW{}
			crash := h.Safely(c14Timeout, func() {
				wc := m.Writer("x/unknown", sw)
				data := bytes.Repeat([]byte("a"), size)
				for i := 0; i < chunks; i++ {
					_, e := wc.Write(data[i*size/chunks : (i+1)*size/chunks])
					werrs = append(werrs, e)
				}
				cerr = wc.Close()
			})
			st.Count(cfg, true)
			st.Tag("notexist")
			if crash != "" {
				c.R.Add(h.Finding{Stage: st.Name, Kind: "crash", What: "m.Writer for an unknown media type: " + crash, Input: cfg})
				continue
			}
			if !errors.Is(cerr, minify.ErrNotExist) {
				c.R.Add(h.Finding{Stage: st.Name, Kind: "fail", What: "Close does not return the minifier's error (ErrNotExist)", Input: cfg, Impl: fmt.Sprint(cerr)})
			}
			if sw.calls != 0 {
				c.R.Add(h.Finding{Stage: st.Name, Kind: "fail", What: "output written for an unknown media type", Input: cfg})
			}
		}
	}
}

func init() {
	register("C14", func(c *Ctx) error {
		m := ioNewM()
		maxSize := c.N(2048, 64<<10)
		ngen := c.N(30, 120)
		maxK := c.N(1<<30, 3000)
		maxOff := c.N(2049, 4097)
		if c.Search {
			maxSize, ngen = c.N(8192, 256<<10), c.N(40, 200)
		}
		var inputs []ioInput
		inputs = append(inputs, ioCorpus(c.Repo, maxSize, true)...)
		if !c.Thorough() {
			// quick: keep the sweep quadratic only in small inputs: prefixes of big files are cut at 2 KiB already
		}
		for _, t := range ioTypes {
			inputs = append(inputs, ioInput{t.mt, t.pkg, "empty", []byte{}})
			for i := 0; i < ngen; i++ {
				r := c.Rng.Fork()
				inputs = append(inputs, ioInput{t.mt, t.pkg, fmt.Sprintf("generated#%d", i), ioGen(r, t.pkg, 1+i%3)})
			}
		}
		inputs = append(inputs, ioInvalid...)
		inputs = append(inputs, ioTruncated(c.Rng.Fork(), c.N(12, 60))...)
		// the same documents through a media type with parameters: `;inline=1` switches the svg and css minifiers to their inline
		// mode (the mode an HTML host asks for), which has its own exits
		{
			n := 0
			for _, in := range append([]ioInput(nil), inputs...) {
				if (in.pkg == "svg" || in.pkg == "css") && !strings.Contains(in.mt, ";") && len(in.data) <= 4096 {
					inputs = append(inputs, ioInput{in.mt + ";inline=1", in.pkg, in.name + " (inline=1)", in.data})
					if n++; n >= c.N(80, 400) {
						break
					}
				}
			}
		}
		if c.Replay != "" {
			if in, ok := ioReplayInput(c.Replay); ok {
				inputs = append([]ioInput{in}, inputs...)
			}
		}
		for _, k := range h.Known("C14") {
			if k.Status == "fixed" {
				inputs = append(inputs, ioInput{k.ReplayStr("mediatype"), ioPkgOf(k.ReplayStr("mediatype")), "fixed:" + k.ID, []byte(k.ReplayStr("input"))})
			}
		}
		st := c.R.StartStage("fault-sweep", "for each input (corpus/benchmark files or their first bytes up to the tier's size, generated documents of the six media types incl. embedded css/js/svg/json, inputs with syntax errors): EVERY k in 1..n+1 (n = real Write calls incl. probes) against a sticky failing writer through m.Minify and m.Writer; reader failing after EVERY byte offset x {short final read, not} x random Read size through m.Minify and m.Reader; both at once; non-trivial = failure strikes after at least one accepted write / delivered byte")
		results := make([]*c14Res, len(inputs))
		var wg sync.WaitGroup
		sem := make(chan struct{}, runtime.NumCPU())
		for i := range inputs {
			rng := c.Rng.Fork()
			wg.Add(1)
			sem <- struct{}{}
			go func(i int, rng *h.RNG) {
				defer wg.Done()
				defer func() { <-sem }()
				results[i] = c14Sweep(m, inputs[i], rng, maxK, maxOff)
			}(i, rng)
		}
		wg.Wait()
		var lines, wants, keys []string
		for _, res := range results {
			key := fmt.Sprintf("%s %s (%d bytes, %d write calls)", res.in.mt, res.in.name, len(res.in.data), res.n)
			for i := 0; i < res.evals; i++ {
				st.Count(fmt.Sprintf("%s #%d", key, i), i < res.nontriv)
			}
			for t, n := range res.tags {
				st.Dist[t] += n
			}
			st.Tag("pkg=" + res.in.pkg)
			for _, f := range res.findings {
				c.R.Add(f)
			}
			for i := range res.lines {
				lines = append(lines, res.lines[i])
				wants = append(wants, res.wants[i])
				keys = append(keys, key+": "+res.keys[i])
			}
		}
		st.Exhaustive = !c.Thorough() // quick tier: every k and every offset of every input
		c14NotExist(c, st, m)
		st.End()

		// model predictions
		st2 := c.R.StartStage("model-verdict", "verdict class (ok / err:writer / err:reader) of every sweep case on syntactically valid input compared with the regenerated exit skeleton's prediction (model.c14.predict); non-trivial = a failure was injected")
		rep, err := h.Eval(lines)
		if err != nil {
			return err
		}
		ndiff := 0
		for i := range lines {
			st2.Count(keys[i], wants[i] != "ok")
			b, ok, msg := h.DecodeReply(rep[i])
			if !ok {
				c.R.Add(h.Finding{Stage: st2.Name, Kind: "diff", What: "model error: " + msg, Input: keys[i]})
				continue
			}
			got := string(b)
			// both failing: the model knows which check comes first; the implementation must agree
			if got != wants[i] && ndiff < 10 {
				ndiff++
				c.R.Add(h.Finding{Stage: st2.Name, Kind: "diff", What: "verdict differs from the exit skeleton's prediction", Input: keys[i], Impl: wants[i], Model: got})
			}
		}
		// the simple model (writes then probe) against the skeleton interpreter, and wfExit of every package
		var l2 []string
		for _, t := range ioTypes {
			l2 = append(l2, "model.c14.wf "+h.HexS(t.pkg))
		}
		rep2, err := h.Eval(l2)
		if err != nil {
			return err
		}
		for i, t := range ioTypes {
			st2.Count("wfExit "+t.pkg, true)
			if b, ok, _ := h.DecodeReply(rep2[i]); !ok || string(b) != "1" {
				c.R.Add(h.Finding{Stage: st2.Name, Kind: "diff", What: "regenerated exit skeleton of package " + t.pkg + " is not well-formed (probe / error checks no longer dominate the success return)", Input: t.pkg})
			}
		}
		st2.End()
		return nil
	})
}

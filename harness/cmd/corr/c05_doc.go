package main

// C05 (iii) — documents: the element tree and all functional attributes are kept.  Input and output of
// svg.Minify are read with encoding/xml (raw tokens) and compared as trees modulo what the property
// allows to disappear: comments, processing instructions, DOCTYPE, `metadata` elements, elements and
// attributes in a foreign namespace (any prefix other than xlink:/xml:), default-valued root attributes
// (and `type="text/css"` on style, `xmlns` in inline mode).  Attribute values are compared by meaning:
// lengths/numbers by value (unit lower-cased, `px` dropped, zero without unit), viewBox number-wise,
// colours by RGB value, `d` through the path interpreter, everything else literally; character data
// modulo whitespace collapsing/trimming.  Also: replay of the open known findings.

import (
	"encoding/xml"
	"fmt"
	"math/big"
	"strings"

	"verifharness/h"
)

type c05Node struct {
	raw      string // qualified name exactly as written (for the nesting check)
	name     string // qualified name, svg: prefix normalised away
	attrs    [][2]string
	children []*c05Node
	text     string // for text nodes (name == "")
}

// raw qualified name; the `svg:` prefix (elements of the SVG namespace written with a prefix) is normalised away
func c05QName(n xml.Name) string {
	if n.Space != "" && n.Space != "svg" {
		return n.Space + ":" + n.Local
	}
	return n.Local
}

// c05ParseXML builds the raw tree; error if not well-formed (encoding/xml syntax, tag nesting)
func c05ParseXML(s string) (*c05Node, error) {
	dec := xml.NewDecoder(strings.NewReader(s))
	dec.Strict = true
	root := &c05Node{name: "#root"}
	stack := []*c05Node{root}
	for {
		t, err := dec.RawToken()
		if err != nil {
			if err.Error() == "EOF" {
				break
			}
			return nil, err
		}
		top := stack[len(stack)-1]
		switch v := t.(type) {
		case xml.StartElement:
			n := &c05Node{name: c05QName(v.Name), raw: v.Name.Space + ":" + v.Name.Local}
			for _, a := range v.Attr {
				if a.Name.Space == "xmlns" {
					continue // namespace declarations of prefixes are compared through the names that use them
				}
				n.attrs = append(n.attrs, [2]string{c05QName(a.Name), a.Value})
			}
			top.children = append(top.children, n)
			stack = append(stack, n)
		case xml.EndElement:
			if len(stack) == 1 || top.raw != v.Name.Space+":"+v.Name.Local {
				return nil, fmt.Errorf("end tag </%s> does not match <%s>", c05QName(v.Name), top.name)
			}
			stack = stack[:len(stack)-1]
		case xml.CharData:
			top.children = append(top.children, &c05Node{text: string(v)})
		}
	}
	if len(stack) != 1 {
		return nil, fmt.Errorf("unclosed element <%s>", stack[len(stack)-1].name)
	}
	return root, nil
}

func c05Prefix(name string) string {
	if i := strings.IndexByte(name, ':'); i >= 0 {
		return name[:i]
	}
	return ""
}

var c05RootDefaults = map[string]string{
	"version": "1.1", "x": "0", "y": "0", "preserveAspectRatio": "xMidYMid meet", "baseProfile": "none",
	"contentScriptType": "application/ecmascript", "contentStyleType": "text/css",
}

// c05Dim parses number+unit; ok=false if the whole string is not of that form
func c05Dim(s string) (v *big.Rat, unit string, ok bool) {
	n := c05NumLen(s)
	if n == 0 {
		return nil, "", false
	}
	lx := s[:n]
	unit = s[n:]
	for _, ch := range unit {
		if !(ch == '%' || ch >= 'a' && ch <= 'z' || ch >= 'A' && ch <= 'Z') {
			return nil, "", false
		}
	}
	lx = strings.TrimSuffix(lx, ".")
	if strings.HasPrefix(lx, "+") {
		lx = lx[1:]
	}
	if strings.HasPrefix(lx, ".") {
		lx = "0" + lx
	}
	if strings.HasPrefix(lx, "-.") {
		lx = "-0" + lx[1:]
	}
	r, good := new(big.Rat).SetString(lx)
	if !good {
		return nil, "", false
	}
	unit = strings.ToLower(unit)
	if unit == "px" || r.Sign() == 0 {
		unit = ""
	}
	return r, unit, true
}

var c05ColorNames = map[string]string{
	"red": "#ff0000", "blue": "#0000ff", "black": "#000000", "white": "#ffffff", "tan": "#d2b48c", "navy": "#000080",
	"gray": "#808080", "green": "#008000", "yellow": "#ffff00", "fuchsia": "#ff00ff", "magenta": "#ff00ff",
	"silver": "#c0c0c0", "olive": "#808000", "teal": "#008080", "aqua": "#00ffff", "cyan": "#00ffff",
	"orange": "#ffa500", "purple": "#800080", "maroon": "#800000", "lime": "#00ff00", "gold": "#ffd700",
	"pink": "#ffc0cb", "azure": "#f0ffff", "beige": "#f5f5dc", "khaki": "#f0e68c", "plum": "#dda0dd",
	"coral": "#ff7f50", "indigo": "#4b0082", "ivory": "#fffff0", "linen": "#faf0e6", "peru": "#cd853f",
	"salmon": "#fa8072", "sienna": "#a0522d", "snow": "#fffafa", "tomato": "#ff6347", "violet": "#ee82ee", "wheat": "#f5deb3",
	"bisque": "#ffe4c4", "brown": "#a52a2a", "crimson": "#dc143c", "orchid": "#da70d6", "grey": "#808080",
}

var c05ColorAttrs = map[string]bool{"fill": true, "stroke": true, "color": true, "stop-color": true, "flood-color": true, "lighting-color": true}

func c05Color(v string) string {
	l := strings.ToLower(v)
	if hx, ok := c05ColorNames[l]; ok && l == v {
		return hx
	}
	if len(l) == 4 && l[0] == '#' {
		return "#" + strings.Repeat(l[1:2], 2) + strings.Repeat(l[2:3], 2) + strings.Repeat(l[3:4], 2)
	}
	if len(l) == 7 && l[0] == '#' {
		return l
	}
	return v
}

var c05LiteralAttrs = map[string]bool{"id": true, "class": true, "href": true, "xlink:href": true, "font-family": true, "name": true}

func c05SameAttr(name, a, b string) bool {
	if a == b {
		return true
	}
	if c05LiteralAttrs[name] {
		return false
	}
	switch {
	case name == "d":
		ok, _ := c05Close(a, b, 1e-9)
		return ok
	case name == "viewBox":
		fa := strings.FieldsFunc(a, func(r rune) bool { return r == ' ' || r == ',' })
		fb := strings.FieldsFunc(b, func(r rune) bool { return r == ' ' || r == ',' })
		if len(fa) != len(fb) {
			return false
		}
		for i := range fa {
			if !c05SameAttr("", fa[i], fb[i]) {
				return false
			}
		}
		return true
	case c05ColorAttrs[name]:
		if c05Color(a) == c05Color(b) {
			return true
		}
	}
	va, ua, oka := c05Dim(a)
	vb, ub, okb := c05Dim(b)
	return oka && okb && va.Cmp(vb) == 0 && ua == ub
}

func c05CollapseWS(s string) string { return strings.Join(strings.Fields(s), " ") }

var c05TextContent = map[string]bool{"text": true, "tspan": true, "textPath": true, "tref": true}

// c05Flush appends the pending character data to out: whitespace collapsed and trimmed, except that inside
// text content elements a boundary space next to a sibling element is significant and kept.
func c05Flush(out *c05Node, pending *strings.Builder, last bool) {
	raw := pending.String()
	pending.Reset()
	t := c05CollapseWS(raw)
	if c05TextContent[out.name] && raw != "" {
		ws := func(b byte) bool { return b == ' ' || b == '\n' || b == '\t' || b == '\r' }
		if ws(raw[0]) && len(out.children) > 0 && t != "" {
			t = " " + t
		}
		if ws(raw[len(raw)-1]) && !last && t != "" {
			t += " "
		}
	}
	if t != "" {
		out.children = append(out.children, &c05Node{text: t})
	}
}

// c05Expected applies to the INPUT tree what the property allows to disappear
func c05Expected(n *c05Node, inline bool) *c05Node {
	out := &c05Node{name: n.name, text: n.text}
	for _, a := range n.attrs {
		p := c05Prefix(a[0])
		if p != "" && p != "xlink" && p != "xml" {
			continue // foreign-namespace attribute, xmlns:* declarations
		}
		if n.name == "svg" {
			if inline && a[0] == "xmlns" {
				continue
			}
			if def, ok := c05RootDefaults[a[0]]; ok && (a[1] == def || (a[0] == "x" || a[0] == "y") && c05SameAttr("", a[1], def)) {
				continue
			}
		}
		if n.name == "style" && a[0] == "type" && a[1] == "text/css" {
			continue
		}
		out.attrs = append(out.attrs, a)
	}
	var pending strings.Builder
	for _, ch := range n.children {
		if ch.name == "" {
			pending.WriteString(ch.text)
			continue
		}
		if ch.name == "metadata" || c05Prefix(ch.name) != "" {
			continue
		}
		c05Flush(out, &pending, false)
		out.children = append(out.children, c05Expected(ch, inline))
	}
	c05Flush(out, &pending, true)
	return out
}

func c05TreeDiff(path string, want, got *c05Node) string {
	if want.name != got.name {
		return fmt.Sprintf("%s: element <%s> became <%s>", path, want.name, got.name)
	}
	if want.name == "" {
		if want.text != got.text {
			return fmt.Sprintf("%s: text %q became %q", path, want.text, got.text)
		}
		return ""
	}
	p := path + "/" + want.name
	gm := map[string]string{}
	for _, a := range got.attrs {
		gm[a[0]] = a[1]
	}
	for _, a := range want.attrs {
		g, ok := gm[a[0]]
		if !ok {
			return fmt.Sprintf("%s: attribute %s=%q lost", p, a[0], a[1])
		}
		if !c05SameAttr(a[0], a[1], g) {
			return fmt.Sprintf("%s: attribute %s=%q became %q", p, a[0], a[1], g)
		}
		delete(gm, a[0])
	}
	for k, v := range gm {
		return fmt.Sprintf("%s: attribute %s=%q appeared", p, k, v)
	}
	if len(want.children) != len(got.children) {
		names := func(n *c05Node) string {
			var s []string
			for _, c := range n.children {
				if c.name == "" {
					s = append(s, "#text")
				} else {
					s = append(s, c.name)
				}
			}
			return strings.Join(s, ",")
		}
		return fmt.Sprintf("%s: children [%s] became [%s]", p, names(want), names(got))
	}
	for i := range want.children {
		if d := c05TreeDiff(p, want.children[i], got.children[i]); d != "" {
			return d
		}
	}
	return ""
}

// c05CheckDoc returns "" if the output document keeps what the property demands
func c05CheckDoc(in, out string, inline bool) string {
	ti, err := c05ParseXML(in)
	if err != nil {
		return "" // not a well-formed input: outside the property's quantifier
	}
	to, err := c05ParseXML(out)
	if err != nil {
		return "output is not well-formed XML: " + err.Error()
	}
	want := c05Expected(ti, inline)
	return c05TreeDiff("", want, c05StripNothing(to))
}

// the output tree is compared as it is, except that its character data is merged/collapsed like the input's
func c05StripNothing(n *c05Node) *c05Node {
	out := &c05Node{name: n.name, text: n.text, attrs: n.attrs}
	var pending strings.Builder
	for _, ch := range n.children {
		if ch.name == "" {
			pending.WriteString(ch.text)
			continue
		}
		c05Flush(out, &pending, false)
		out.children = append(out.children, c05StripNothing(ch))
	}
	c05Flush(out, &pending, true)
	return out
}

// ---------- document generator ----------

var c05Elems = []string{"g", "g", "path", "path", "rect", "circle", "ellipse", "line", "use", "defs", "linearGradient", "stop", "text", "title", "desc", "svg", "a", "clipPath", "symbol", "polygon"}
var c05LeafText = map[string]bool{"text": true, "title": true, "desc": true}

// pool of generated paths that fall under no known-finding trigger (filled by c05Docs)
var c05PathPool []string

func c05GenAttrs(r *h.RNG, el string, depth int, sb *strings.Builder, isRoot bool) {
	n := r.Intn(4)
	used := map[string]bool{}
	put := func(k, v string) {
		if used[k] {
			return
		}
		used[k] = true
		q := `"`
		if r.Chance(15) {
			q = `'`
		}
		sb.WriteString(" " + k + "=" + q + v + q)
	}
	if isRoot || el == "svg" {
		if r.Chance(60) && isRoot {
			put("xmlns", "http://www.w3.org/2000/svg")
		}
		for _, kv := range [][2]string{{"version", "1.1"}, {"x", "0"}, {"y", "0px"}, {"preserveAspectRatio", "xMidYMid meet"}, {"baseProfile", "none"}, {"contentScriptType", "application/ecmascript"}, {"contentStyleType", "text/css"}, {"version", "1.2"}, {"x", "5"}, {"preserveAspectRatio", "none"}, {"baseProfile", "full"}} {
			if r.Chance(20) {
				put(kv[0], kv[1])
			}
		}
		if r.Chance(50) {
			put("viewBox", r.Pick([]string{"0 0 100 100", "0,0,10.0,1e1", "0 0  10 10", "-5.0 -5 +10 010", "0 0 100", "0 0 1e2 100.50"}))
		}
		if r.Chance(30) {
			put("xmlns:inkscape", "http://www.inkscape.org/namespaces/inkscape")
		}
	}
	if el == "path" {
		put("d", c05PathPool[r.Intn(len(c05PathPool))])
	}
	for i := 0; i < n; i++ {
		switch r.Intn(14) {
		case 0:
			put("id", r.Pick([]string{"a", "b1", "layer_1", "x-y"}))
		case 1:
			put(r.Pick([]string{"width", "height", "x", "y", "r", "cx", "cy", "stroke-width", "font-size"}),
				r.Pick([]string{"10", "10.0", "10px", "1e1", "0.50em", "100%", "0px", "0.0", "12PT", "+5", ".5mm", "1000", "100", "-0.5", "1.50E+1cm"}))
		case 2:
			put(r.Pick([]string{"fill", "stroke", "color", "stop-color", "flood-color"}),
				r.Pick([]string{"red", "#ff0000", "#f00", "#FF0000", "blue", "#0000ff", "none", "url(#a)", "currentColor", "#123456", "#aabbcc", "tan", "#d2b48c", "white", "#fff", "black", "#000000", "magenta", "#808080", "gray", "rgb(1,2,3)", "fuchsia", "#f0ffff", "#ffa500", "orange", "Red"}))
		case 3:
			put("transform", r.Pick([]string{"translate(1 2)", "scale(2)", "rotate(45)", "matrix(1 0 0 1 0 0)"}))
		case 4:
			put("class", r.Pick([]string{"a", "a b", "x1"}))
		case 5:
			put("style", r.Pick([]string{"fill:red", "stroke: #ff0000; fill : none", ""}))
		case 6:
			put(r.Pick([]string{"inkscape:label", "sodipodi:nodetypes", "inkscape:connector-curvature"}), r.Pick([]string{"x", "cc", "0"}))
		case 7:
			put("points", "0,0 10,10 5.0,1e1")
		case 8:
			put(r.Pick([]string{"opacity", "fill-opacity", "offset"}), r.Pick([]string{"0.5", ".50", "1.0", "50%", "0"}))
		case 9:
			put("href", "#a")
		case 10:
			put("fill-rule", "evenodd")
		case 11:
			put("data-x", r.Pick([]string{"a&amp;b", "a&lt;b", "it's", "say &quot;x&quot;", "1.50"}))
		case 12:
			put(r.Pick([]string{"xlink:href", "xml:lang", "xml:space", "xlink:title"}), r.Pick([]string{"#a", "en", "preserve", "default", "1.50"}))
		case 13:
			put(r.Pick([]string{"id", "class", "href", "font-family"}), r.Pick([]string{"1.50", "1.0", "010", "1e1", "+5"}))
		}
	}
}

func c05GenElem(r *h.RNG, sb *strings.Builder, depth int, isRoot bool) {
	el := "svg"
	if !isRoot {
		el = r.Pick(c05Elems)
	}
	sb.WriteString("<" + el)
	c05GenAttrs(r, el, depth, sb, isRoot)
	if el == "defs" && r.Chance(50) {
		// keep the known off-by-one (void defs with exactly one attribute is dropped) out of the mainstream
		sb.WriteString("></defs>")
		return
	}
	kids := 0
	if depth < 3 {
		kids = r.Intn(4)
	}
	if isRoot && kids == 0 {
		kids = 1
	}
	if c05LeafText[el] {
		sb.WriteString(">")
		sb.WriteString(r.Pick([]string{"hello", "  a  b ", "x &amp; y", "a&#65;b", "<![CDATA[c d]]>", "<![CDATA[a<b]]>", "", " "}))
		sb.WriteString("</" + el + ">")
		return
	}
	if kids == 0 {
		if el == "defs" {
			sb.WriteString("></defs>")
			return
		}
		sb.WriteString(r.Pick([]string{"/>", "></" + el + ">", " />", ">  </" + el + ">", ">\n</" + el + " >"}))
		return
	}
	sb.WriteString(">")
	for i := 0; i < kids; i++ {
		sb.WriteString(r.Pick([]string{"", "", "\n", "  ", "\n\t"}))
		switch r.Intn(14) {
		case 0:
			sb.WriteString("<!-- comment " + r.Pick([]string{"", "<g>", "x"}) + " -->")
		case 1:
			sb.WriteString(`<metadata><rdf:RDF xmlns:rdf="u"><cc:Work/></rdf:RDF>` + r.Pick([]string{"", "text", "<g/>"}) + `</metadata>`)
		case 2:
			sb.WriteString(`<sodipodi:namedview id="base" inkscape:zoom="1.5">` + r.Pick([]string{"", "<inkscape:grid/>", "<g/>"}) + `</sodipodi:namedview>`)
		case 3:
			sb.WriteString(`<inkscape:perspective id="p"/>`)
		default:
			c05GenElem(r, sb, depth+1, false)
		}
	}
	sb.WriteString(r.Pick([]string{"", "\n", " "}))
	sb.WriteString("</" + el + ">")
}

func c05GenDoc(r *h.RNG) string {
	var sb strings.Builder
	if r.Chance(30) {
		sb.WriteString(`<?xml version="1.0" encoding="UTF-8"?>` + r.Pick([]string{"", "\n"}))
	}
	if r.Chance(20) {
		sb.WriteString(`<!DOCTYPE svg PUBLIC "-//W3C//DTD SVG 1.1//EN" "http://www.w3.org/Graphics/SVG/1.1/DTD/svg11.dtd">` + "\n")
	}
	if r.Chance(10) {
		sb.WriteString("<!-- Generator: x -->\n")
	}
	c05GenElem(r, &sb, 0, true)
	if r.Chance(20) {
		sb.WriteString("\n")
	}
	return sb.String()
}

func c05Docs(c *Ctx) error {
	n := c.N(12000, 200000)
	if c.Search {
		n *= 3
	}
	st := c.R.StartStage("documents", "generated well-formed SVG documents (nested elements, void/empty/whitespace-only elements, comments, PIs, DOCTYPE, metadata, sodipodi/inkscape elements and attributes, default and non-default root attributes, lengths in every notation, viewBox, colours, path data, text with entities/CDATA), standalone and inline; input and output read with encoding/xml and compared as trees modulo comments, PIs, DOCTYPE, metadata, foreign-namespace items and default root attributes, attribute values by meaning; non-trivial = output differs from input and input contains at least one removable item or rewritable value")
	{
		var cand, lines []string
		for i := 0; i < 600+n/4; i++ {
			d := c05GenPath(c.Rng.Fork(), false, false)
			cand = append(cand, d)
			lines = append(lines, c05HoldsLine(d, d))
		}
		rep, err := h.Eval(lines)
		if err != nil {
			return err
		}
		c05PathPool = []string{"M0 0L10 10", ""}
		for i, d := range cand {
			if vd := c05DecodeHolds(rep[i]); vd.err == "" && vd.validIn && vd.hazards == "" {
				c05PathPool = append(c05PathPool, d)
			}
		}
	}
	// former known findings K-C05-1, 6, 9 (fixed in /repo) must pass
	for _, doc := range []string{
		`<svg xmlns:xlink="http://www.w3.org/1999/xlink"><use xlink:href="#a"/><text xml:space="preserve"> a </text></svg>`,
		`<svg:svg xmlns:svg="http://www.w3.org/2000/svg"><svg:g></svg:g><svg:rect width="1.0"/></svg:svg>`,
		`<svg><g id="1.50" class="1.0"/><a href="#1.50"/></svg>`,
	} {
		out, err, crash := c05MinifyDoc(doc, false)
		st.Count(h.Q([]byte(doc)), true)
		if crash != "" || err != nil {
			c.R.Add(h.Finding{Stage: st.Name, Kind: "crash", What: fmt.Sprint(crash, err), Input: h.Q([]byte(doc))})
		} else if d := c05CheckDoc(doc, out, false); d != "" {
			c.R.Add(h.Finding{Stage: st.Name, Kind: "fail", What: "regression document (fixed finding): " + d, Input: h.Q([]byte(doc)), Impl: h.Q([]byte(out))})
		}
	}
	for i := 0; i < n; i++ {
		r := c.Rng.Fork()
		doc := c05GenDoc(r)
		inline := r.Chance(30)
		out, err, crash := c05MinifyDoc(doc, inline)
		key := fmt.Sprintf("inline=%v %s", inline, h.Q([]byte(doc)))
		if crash != "" {
			c.R.Add(h.Finding{Stage: st.Name, Kind: "crash", What: "svg.Minify: " + crash, Input: h.Q([]byte(doc)), Hex: h.HexS(doc), Config: fmt.Sprintf("inline=%v", inline)})
			continue
		}
		st.Count(key, out != doc && strings.ContainsAny(doc, "!:") )
		if err != nil {
			c.R.Add(h.Finding{Stage: st.Name, Kind: "fail", What: "svg.Minify returns an error on a well-formed document: " + err.Error(), Input: h.Q([]byte(doc)), Hex: h.HexS(doc)})
			continue
		}
		if d := c05CheckDoc(doc, out, inline); d != "" {
			c.R.Add(h.Finding{Stage: st.Name, Kind: "fail", What: "document structure/attributes not preserved: " + d, Input: h.Q([]byte(doc)), Hex: h.HexS(doc), Config: fmt.Sprintf("inline=%v", inline), Impl: h.Q([]byte(out))})
		}
		if len(out) > len(doc) {
			st.Tag("longer")
		}
		if inline {
			st.Tag("inline")
		} else {
			st.Tag("standalone")
		}
	}
	st.End()
	return nil
}

// ---------- known findings ----------

func c05Known(c *Ctx) error {
	var lines []string
	type kp struct {
		k   h.KnownEntry
		out string
	}
	var paths []kp
	for _, k := range h.Known("C05") {
		if k.Status != "open" {
			continue
		}
		if p := k.ReplayStr("path"); p != "" {
			out, crash := c05Direct(p)
			if crash != "" {
				c.R.Add(h.Finding{Stage: "known", Kind: "crash", What: crash, Input: p})
				continue
			}
			paths = append(paths, kp{k, out})
			lines = append(lines, c05HoldsLine(p, out))
			continue
		}
		if d := k.ReplayStr("doc"); d != "" {
			out, err, crash := c05MinifyDoc(d, false)
			if crash != "" || err != nil {
				c.R.Add(h.Finding{Stage: "known", Kind: "crash", What: fmt.Sprint(crash, err), Input: d})
				continue
			}
			diff := c05CheckDoc(d, out, false)
			c.R.AddKnown(k.ID, diff != "", k.What, fmt.Sprintf("%s -> %s (%s)", d, out, diff))
		}
	}
	rep, err := h.Eval(lines)
	if err != nil {
		return err
	}
	for i, p := range paths {
		vd := c05DecodeHolds(rep[i])
		fails := vd.err == "" && !(vd.validOut && vd.equiv)
		c.R.AddKnown(p.k.ID, fails, p.k.What, fmt.Sprintf("%s -> %s", p.k.ReplayStr("path"), p.out))
	}
	return nil
}

package main

// C12 — all entry points produce the same bytes for any chunking of the stream.
//
// Real code, public API only: m.Minify (the oracle: plain reader-to-writer call), m.Reader, m.Writer,
// m.ResponseWriter, m.Middleware (httptest), m.Bytes, m.String.
//   * partitions: EXHAUSTIVE over all 2^(n-1) partitions of short inputs of the six media types (plus a
//     variant of each with empty chunks), through every entry point; consumer read sizes varied;
//   * corpus: random partitions (incl. empty and 1-byte chunks) of corpus/benchmark files under randomised
//     pacing (runtime.Gosched) with GOMAXPROCS 1/2/16;
//   * traces: instrumented readers/writers record what is observable from outside (Write/Close calls and
//     returns, writes to the underlying writer, source EOF, consumer reads); every trace must be accepted by
//     the transition system interpreted from the regenerated skeleton (model.c12.acceptsW / acceptsR);
//   * close-delivers: a minifier that writes late and fails, invalid input, unknown media type: all output
//     and the minifier's error are there when Close returns;
//   * middleware: Content-Type first, else path extension; Content-Length removed.
// A difference to the plain call is a Finding "fail"; a rejected trace / model mismatch is a "diff".

import (
	"bytes"
	"encoding/hex"
	"encoding/json"
	"errors"
	"fmt"
	"io"
	"mime"
	"net/http"
	"net/http/httptest"
	"os"
	"path"
	"regexp"
	"runtime"
	"strconv"
	"strings"
	"sync"
	"time"

	"github.com/tdewolff/minify/v2"
	"github.com/tdewolff/parse/v2"

	"verifharness/h"
)

const c12Timeout = 20 * time.Second

// ---- instrumentation ----

type evLog struct {
	mu  sync.Mutex
	evs [][][]byte
}

func (l *evLog) add(items ...[]byte) {
	if l == nil {
		return
	}
	cp := make([][]byte, len(items))
	for i, it := range items {
		cp[i] = append([]byte(nil), it...)
	}
	l.mu.Lock()
	l.evs = append(l.evs, cp)
	l.mu.Unlock()
}

type pacer struct {
	mu sync.Mutex
	r  *h.RNG
}

func (p *pacer) yield() {
	if p == nil {
		return
	}
	p.mu.Lock()
	k := p.r.Intn(4)
	p.mu.Unlock()
	for ; k > 1; k-- {
		runtime.Gosched()
	}
}

// logW is the underlying writer of a Writer / ResponseWriter run
type logW struct {
	buf  bytes.Buffer
	log  *evLog
	pace *pacer
}

func (w *logW) Write(b []byte) (int, error) {
	w.pace.yield()
	w.log.add([]byte("out"), b)
	return w.buf.Write(b)
}

// chunkR delivers exactly the given chunks, one per Read (split further if the buffer is smaller); an empty
// chunk is a (0, nil) Read.  No Bytes() method.
type chunkR struct {
	chunks [][]byte
	log    *evLog
	pace   *pacer
	eof    bool
}

func (r *chunkR) Read(p []byte) (int, error) {
	r.pace.yield()
	if len(r.chunks) == 0 {
		if !r.eof {
			r.eof = true
			r.log.add([]byte("srceof"))
		}
		return 0, io.EOF
	}
	c := r.chunks[0]
	n := copy(p, c)
	if n == len(c) {
		r.chunks = r.chunks[1:]
	} else {
		r.chunks[0] = c[n:]
	}
	return n, nil
}

func c12ErrCode(err error) string {
	switch {
	case err == nil:
		return "nil"
	case errors.Is(err, minify.ErrNotExist):
		return "notexist"
	case errors.Is(err, io.ErrClosedPipe):
		return "closedpipe"
	}
	return "min"
}

func errText(err error) string {
	if err == nil {
		return "<nil>"
	}
	return err.Error()
}

// ---- entry points ----

func c12Plain(m *minify.M, mt string, input []byte) ([]byte, error) {
	var buf bytes.Buffer
	err := m.Minify(mt, &buf, bytes.NewReader(input))
	return buf.Bytes(), err
}

func c12Writer(m *minify.M, mt string, chunks [][]byte, pace *pacer, log *evLog) (out []byte, nfail int, cerr error) {
	w := &logW{log: log, pace: pace}
	wc := m.Writer(mt, w)
	for _, c := range chunks {
		pace.yield()
		log.add([]byte("wcall"), c)
		_, err := wc.Write(c)
		if err != nil {
			nfail++
		}
		log.add([]byte("wret"), []byte(map[bool]string{true: "1", false: "0"}[err != nil]))
	}
	pace.yield()
	log.add([]byte("ccall"))
	cerr = wc.Close()
	out = append([]byte(nil), w.buf.Bytes()...) // taken at the moment Close returns
	log.add([]byte("cret"), []byte(c12ErrCode(cerr)))
	return
}

// recW is the http.ResponseWriter under the minifying response writer
type recW struct {
	*httptest.ResponseRecorder
	lw *logW
}

func (r *recW) Write(b []byte) (int, error) {
	r.lw.Write(b)
	return r.ResponseRecorder.Write(b)
}

func c12RespWriter(m *minify.M, contentType, uri string, chunks [][]byte, pace *pacer, log *evLog) (out []byte, cerr error) {
	rec := &recW{httptest.NewRecorder(), &logW{log: log, pace: pace}}
	req := httptest.NewRequest("GET", uri, nil)
	rw := m.ResponseWriter(rec, req)
	if contentType != "" {
		rec.Header().Set("Content-Type", contentType)
	}
	for _, c := range chunks {
		pace.yield()
		log.add([]byte("wcall"), c)
		_, err := rw.Write(c)
		log.add([]byte("wret"), []byte(map[bool]string{true: "1", false: "0"}[err != nil]))
	}
	log.add([]byte("ccall"))
	cerr = rw.Close()
	out = append([]byte(nil), rec.Body.Bytes()...)
	log.add([]byte("cret"), []byte(c12ErrCode(cerr)))
	return
}

func c12Middleware(m *minify.M, contentType, uri string, chunks [][]byte, withErr bool) (out []byte, hdr http.Header, gotErr error) {
	next := http.HandlerFunc(func(w http.ResponseWriter, r *http.Request) {
		if contentType != "" {
			w.Header().Set("Content-Type", contentType)
		}
		w.Header().Set("Content-Length", "12345")
		w.Header().Set("X-Keep", "1")
		w.WriteHeader(200)
		for _, c := range chunks {
			w.Write(c)
		}
	})
	var hnd http.Handler
	if withErr {
		hnd = m.MiddlewareWithError(next, func(w http.ResponseWriter, r *http.Request, err error) { gotErr = err })
	} else {
		hnd = m.Middleware(next)
	}
	rec := httptest.NewRecorder()
	hnd.ServeHTTP(rec, httptest.NewRequest("GET", uri, nil))
	return rec.Body.Bytes(), rec.Header(), gotErr
}

func c12Reader(m *minify.M, mt string, chunks [][]byte, readSize func(i int) int, pace *pacer, log *evLog) (out []byte, err error) {
	cp := make([][]byte, len(chunks))
	copy(cp, chunks)
	rd := m.Reader(mt, &chunkR{chunks: cp, log: log, pace: pace})
	for i := 0; ; i++ {
		pace.yield()
		buf := make([]byte, readSize(i))
		n, e := rd.Read(buf)
		if e != nil {
			out = append(out, buf[:n]...)
			if n > 0 {
				log.add([]byte("read"), []byte(strconv.Itoa(len(buf))), buf[:n])
			}
			if e == io.EOF {
				e = nil
			}
			log.add([]byte("done"), []byte(c12ErrCode(e)))
			return out, e
		}
		log.add([]byte("read"), []byte(strconv.Itoa(len(buf))), buf[:n])
		out = append(out, buf[:n]...)
	}
}

// ---- partitions ----

func c12Partition(input []byte, mask uint64, empties uint64) [][]byte {
	var chunks [][]byte
	start := 0
	add := func(c []byte) {
		if empties&(1<<uint(len(chunks)%60)) != 0 {
			chunks = append(chunks, []byte{})
		}
		chunks = append(chunks, c)
	}
	for i := 0; i+1 < len(input); i++ {
		if mask&(1<<uint(i)) != 0 {
			add(input[start : i+1])
			start = i + 1
		}
	}
	if len(input) > 0 {
		add(input[start:])
	}
	if empties&(1<<59) != 0 || (len(input) == 0 && empties != 0) {
		chunks = append(chunks, []byte{})
	}
	return chunks
}

func c12RandomPartition(r *h.RNG, input []byte) [][]byte {
	var chunks [][]byte
	pos := 0
	style := r.Intn(4)
	for pos < len(input) {
		var n int
		switch {
		case r.Chance(8):
			n = 0
		case r.Chance(15) || style == 0:
			n = 1
		case style == 1:
			n = 1 + r.Intn(16)
		case style == 2:
			n = 1 + r.Intn(700)
		default:
			n = 1 + r.Intn(len(input))
		}
		if n > len(input)-pos {
			n = len(input) - pos
		}
		chunks = append(chunks, input[pos:pos+n])
		pos += n
	}
	if r.Chance(20) {
		chunks = append(chunks, []byte{})
	}
	return chunks
}

func c12Desc(chunks [][]byte) string {
	s := ""
	for i, c := range chunks {
		if i > 0 {
			s += "|"
		}
		if i > 12 {
			return s + fmt.Sprintf("…(%d chunks)", len(chunks))
		}
		s += string(clip(c, 24))
	}
	return strconv.QuoteToASCII(s)
}

var c12Short = map[string][]string{
	"text/css":               {"a{b:c}", "a{b:1px}", "@x{a:b}", "a{}b{c:d}", "a{b:#fff}", ""},
	"text/html":              {"<p>a</p>", "<a b=c>", "a &amp;b", "<p> a  b", "<!--x-->a", "a<br>b c"},
	"application/javascript": {"a=1;b=2", "var a=1", "if(a)b()", "a=b?1:2", "x=>x+1", "a ( )"},
	"application/json":       {"[1,2,3]", `{"a":1}`, "[1.0e1]", ` [ 1 ] `, `{"a":[]}`, "[1,,2]"},
	"image/svg+xml":          {"<svg/>", "<a b=''/>", "<g> </g>", "<svg></svg>"[:10], "<a>b</a>", "<p d='M0'>"},
	"text/xml":               {"<a>b</a>", "<a b='c'/>", "<a> b </a>"[:10], "<a/><b/>", "<?x y?>", "<a>&lt;"},
}

type c12Trace struct {
	key  string
	line string
}

type c12Run struct {
	m       *minify.M
	c       *Ctx
	st      *h.Stage
	mu      sync.Mutex
	traces  []c12Trace
	nreject int
}

func (x *c12Run) fail(what, key, impl, want string) {
	x.c.R.Add(h.Finding{Stage: x.st.Name, Kind: "fail", What: what, Input: key, Impl: impl, Model: want})
}

// failIn records a property failure with the exact input for replay
func (x *c12Run) failIn(input []byte, what, key, impl, want string) {
	x.c.R.Add(h.Finding{Stage: x.st.Name, Kind: "fail", What: what, Input: key, Hex: h.Hex(clip(input, 8192)), Impl: impl, Model: want})
}

// ioReplayInput extracts (media type, input bytes) from a replay file written by ./check
func ioReplayInput(path string) (ioInput, bool) {
	b, err := os.ReadFile(path)
	if err != nil {
		return ioInput{}, false
	}
	var rp struct {
		Finding struct {
			Input string `json:"input"`
			Hex   string `json:"input_hex"`
		} `json:"finding"`
	}
	if json.Unmarshal(b, &rp) != nil || rp.Finding.Input == "" {
		return ioInput{}, false
	}
	mt := strings.Fields(rp.Finding.Input)[0]
	var data []byte
	if rp.Finding.Hex != "" && rp.Finding.Hex != "-" {
		data, _ = hex.DecodeString(rp.Finding.Hex)
	}
	return ioInput{mt, ioPkgOf(mt), "replay", data}, true
}

// one chunking of one input through every streaming entry point, compared with the plain call
func (x *c12Run) check(mt string, input []byte, chunks [][]byte, idx int, pace *pacer, trace bool) int {
	want, werr := c12Plain(x.m, mt, input)
	key := fmt.Sprintf("%s input=%s chunks=%s", mt, h.Q(clip(input, 60)), c12Desc(chunks))
	fail := func(what, key, impl, want string) { x.failIn(input, what, key, impl, want) }
	exists := "1"
	if errors.Is(werr, minify.ErrNotExist) {
		exists = "0"
	}
	n := 0
	// Writer
	{
		var log *evLog
		if trace {
			log = &evLog{}
		}
		var out []byte
		var cerr error
		crash := h.Safely(c12Timeout, func() { out, _, cerr = c12Writer(x.m, mt, chunks, pace, log) })
		n++
		if crash != "" {
			x.c.R.Add(h.Finding{Stage: x.st.Name, Kind: "crash", What: "m.Writer: " + crash, Input: key})
		} else {
			if !bytes.Equal(out, want) {
				fail("m.Writer output differs from the plain call (at the moment Close returned)", key, h.Q(clip(out, 200)), h.Q(clip(want, 200)))
			}
			if errText(cerr) != errText(werr) {
				fail("m.Writer: Close does not return the plain call's error", key, errText(cerr), errText(werr))
			}
			if trace {
				x.addTrace(key+" via=Writer", "model.c12.acceptsW "+h.HexS("writer")+" "+h.Groups(log.evs)+" "+h.Hex(want)+" "+h.HexS(c12ErrCode(werr))+" "+h.HexS(exists))
			}
		}
	}
	// ResponseWriter (Content-Type header)
	{
		var log *evLog
		if trace {
			log = &evLog{}
		}
		var out []byte
		var cerr error
		crash := h.Safely(c12Timeout, func() { out, cerr = c12RespWriter(x.m, mt, "/", chunks, pace, log) })
		n++
		if crash != "" {
			x.c.R.Add(h.Finding{Stage: x.st.Name, Kind: "crash", What: "m.ResponseWriter: " + crash, Input: key})
		} else if exists == "1" {
			wantRW, werrRW := want, werr
			if len(chunks) == 0 {
				// no Write call at all: the response writer never selects a minifier (lazy, on first Write);
				// identical to the plain call exactly when the minifier maps "" to "" without error
				wantRW, werrRW = nil, nil
				if ioPkgOf(mt) != "" && (len(want) != 0 || werr != nil) {
					fail("plain call on empty input produces output or an error: a response without any Write would differ from it", key, h.Q(want)+" "+errText(werr), "\"\" <nil>")
				}
			}
			if !bytes.Equal(out, wantRW) {
				fail("m.ResponseWriter output differs from the plain call (at the moment Close returned)", key, h.Q(clip(out, 200)), h.Q(clip(wantRW, 200)))
			}
			if errText(cerr) != errText(werrRW) {
				fail("m.ResponseWriter: Close does not return the plain call's error", key, errText(cerr), errText(werrRW))
			}
			if trace {
				x.addTrace(key+" via=ResponseWriter", "model.c12.acceptsW "+h.HexS("rw")+" "+h.Groups(log.evs)+" "+h.Hex(want)+" "+h.HexS(c12ErrCode(werr))+" "+h.HexS("1"))
			}
		} else if !bytes.Equal(out, input) || cerr != nil { // no minifier: passthrough
			fail("m.ResponseWriter without a matching minifier does not pass the bytes through", key, h.Q(clip(out, 200)), h.Q(clip(input, 200)))
		}
	}
	// Reader, consumer read sizes varied
	{
		sizes := [][]int{{1}, {2, 1, 3}, {7}, {4096}, {1, 512}, {3, 3, 100}}[idx%6]
		var log *evLog
		if trace {
			log = &evLog{}
		}
		var out []byte
		var rerr error
		crash := h.Safely(c12Timeout, func() {
			out, rerr = c12Reader(x.m, mt, chunks, func(i int) int { return sizes[i%len(sizes)] }, pace, log)
		})
		n++
		if crash != "" {
			x.c.R.Add(h.Finding{Stage: x.st.Name, Kind: "crash", What: "m.Reader: " + crash, Input: key})
		} else {
			if !bytes.Equal(out, want) {
				fail("m.Reader output differs from the plain call", key, h.Q(clip(out, 200)), h.Q(clip(want, 200)))
			}
			if errText(rerr) != errText(werr) {
				fail("m.Reader: the consumer does not get the plain call's error", key, errText(rerr), errText(werr))
			}
			if trace && exists == "1" {
				x.addTrace(key+" via=Reader", "model.c12.acceptsR "+h.Groups(log.evs)+" "+h.Hex(want)+" "+h.HexS(c12ErrCode(werr)))
			}
		}
	}
	// Middleware (handler writes the chunks)
	if idx%4 == 0 {
		var out []byte
		var merr error
		crash := h.Safely(c12Timeout, func() { out, _, merr = c12Middleware(x.m, mt, "/", chunks, true) })
		n++
		if crash != "" {
			x.c.R.Add(h.Finding{Stage: x.st.Name, Kind: "crash", What: "m.MiddlewareWithError: " + crash, Input: key})
		} else if exists == "1" {
			wantMW, werrMW := want, werr
			if len(chunks) == 0 {
				wantMW, werrMW = nil, nil
			}
			if !bytes.Equal(out, wantMW) {
				fail("Middleware output differs from the plain call", key, h.Q(clip(out, 200)), h.Q(clip(wantMW, 200)))
			}
			if errText(merr) != errText(werrMW) {
				fail("MiddlewareWithError does not report the plain call's error", key, errText(merr), errText(werrMW))
			}
		}
	}
	return n
}

func (x *c12Run) addTrace(key, line string) {
	x.mu.Lock()
	x.traces = append(x.traces, c12Trace{key, line})
	x.mu.Unlock()
}

// Bytes / String against the plain call and the skeleton's interpretation
func (x *c12Run) bytesString(mt string, input []byte) {
	want, werr := c12Plain(x.m, mt, input)
	key := fmt.Sprintf("%s input=%s", mt, h.Q(clip(input, 60)))
	in2 := append([]byte(nil), input...)
	ob, eb := x.m.Bytes(mt, in2)
	os, es := x.m.String(mt, string(input))
	x.st.Count(key+" via=Bytes/String", len(input) > 0)
	expOut := want
	if werr != nil {
		expOut = input
	}
	if !bytes.Equal(ob, expOut) || errText(eb) != errText(werr) {
		x.fail("m.Bytes differs from the plain call (output on success, input+error otherwise)", key, h.Q(clip(ob, 200))+" "+errText(eb), h.Q(clip(expOut, 200))+" "+errText(werr))
	}
	if os != string(expOut) || errText(es) != errText(werr) {
		x.fail("m.String differs from the plain call", key, strconv.QuoteToASCII(os)+" "+errText(es), h.Q(clip(expOut, 200))+" "+errText(werr))
	}
	exists := "1"
	if errors.Is(werr, minify.ErrNotExist) {
		exists = "0"
	}
	x.addTrace(key+" via=Bytes/String model", "model.c12.bytes "+h.Hex(input)+" "+h.Hex(want)+" "+h.HexS(c12ErrCode(werr))+" "+h.HexS(exists)+" # "+h.Hex(ob)+" "+c12ErrCode(eb))
}

func init() {
	register("C12", func(c *Ctx) error {
		m := ioNewM()
		// a minifier that slurps, waits, writes late in three pieces and fails
		errBoom := errors.New("boom")
		m.AddFunc("x/late-fail", func(_ *minify.M, w io.Writer, r io.Reader, _ map[string]string) error {
			z := parse.NewInput(r)
			n := z.Len()
			time.Sleep(time.Millisecond)
			runtime.Gosched()
			w.Write([]byte("par"))
			runtime.Gosched()
			w.Write([]byte("ti"))
			w.Write([]byte("al:" + strconv.Itoa(n)))
			return errBoom
		})
		defer runtime.GOMAXPROCS(runtime.GOMAXPROCS(0))

		// ---------- stage 1: exhaustive partitions of short inputs ----------
		maxLen := c.N(8, 10)
		if c.Search {
			maxLen = c.N(10, 12)
		}
		st := c.R.StartStage("partitions", fmt.Sprintf("EXHAUSTIVE: all 2^(n-1) partitions of short inputs (<= %d bytes, six media types, valid and invalid, plus a no-minifier type) and for each a variant with empty chunks, through m.Writer, m.ResponseWriter, m.Reader (six consumer read-size patterns), every 4th also MiddlewareWithError; m.Bytes/m.String per input; oracle = byte-identical output and same error as the plain m.Minify call; non-trivial = more than one chunk", maxLen))
		x := &c12Run{m: m, c: c, st: st}
		types := map[string][]string{}
		for k, v := range c12Short {
			types[k] = v
		}
		if c.Replay != "" {
			if in, ok := ioReplayInput(c.Replay); ok && len(in.data) <= maxLen+2 {
				types[in.mt] = append([]string{string(in.data)}, types[in.mt]...)
				maxLen = maxLen + 2
			}
		}
		types["x/unknown"] = []string{"abc", ""}
		types["x/late-fail"] = []string{"abcd", ""}
		var mts []string
		for _, t := range ioTypes {
			mts = append(mts, t.mt)
		}
		mts = append(mts, "x/unknown", "x/late-fail")
		var wg sync.WaitGroup
		sem := make(chan struct{}, runtime.NumCPU())
		type cnt struct {
			key string
			n   int
			nt  bool
		}
		var cmu sync.Mutex
		var counts []cnt
		for _, mt := range mts {
			for _, s := range types[mt] {
				input := []byte(s)
				if len(input) > maxLen {
					input = input[:maxLen]
				}
				x.bytesString(mt, input)
				nparts := uint64(1)
				if len(input) > 1 {
					nparts = 1 << uint(len(input)-1)
				}
				wg.Add(1)
				sem <- struct{}{}
				go func(mt string, input []byte, nparts uint64) {
					defer wg.Done()
					defer func() { <-sem }()
					for mask := uint64(0); mask < nparts; mask++ {
						for variant := 0; variant < 2; variant++ {
							emp := uint64(0)
							if variant == 1 {
								emp = (mask*0x9E3779B97F4A7C15)>>3 | 1 | (mask&1)<<59
							}
							chunks := c12Partition(input, mask, emp)
							n := x.check(mt, input, chunks, int(mask)*2+variant, nil, true)
							cmu.Lock()
							counts = append(counts, cnt{fmt.Sprintf("%s %q mask=%d empties=%v", mt, input, mask, variant == 1), n, len(chunks) > 1})
							cmu.Unlock()
						}
					}
				}(mt, input, nparts)
			}
		}
		wg.Wait()
		for _, k := range counts {
			for i := 0; i < k.n; i++ {
				st.Count(fmt.Sprintf("%s #%d", k.key, i), k.nt)
			}
			st.Tag(fmt.Sprintf("chunks>1=%v", k.nt))
		}
		st.Exhaustive = true
		st.End()

		// ---------- stage 2: random partitions of corpus files under randomised pacing ----------
		maxSize := c.N(16<<10, 256<<10)
		rounds := c.N(4, 8)
		if c.Search {
			rounds *= 3
		}
		st2 := c.R.StartStage("corpus-pacing", "random partitions (1-byte, small, medium, huge and empty chunks) of corpus/benchmark files and generated documents of the six media types through m.Writer, m.ResponseWriter, m.Reader, Middleware under randomised pacing (runtime.Gosched in producer, consumer, source reader and underlying writer) with GOMAXPROCS 1, 2, 16; oracle = plain m.Minify; non-trivial = more than one chunk")
		x2 := &c12Run{m: m, c: c, st: st2}
		inputs := ioCorpus(c.Repo, maxSize, true)
		for _, t := range ioTypes {
			for i := 0; i < c.N(4, 20); i++ {
				inputs = append(inputs, ioInput{t.mt, t.pkg, fmt.Sprintf("generated#%d", i), ioGen(c.Rng.Fork(), t.pkg, 1+i%3)})
			}
		}
		inputs = append(inputs, ioInvalid...)
		if c.Replay != "" {
			if in, ok := ioReplayInput(c.Replay); ok {
				inputs = append([]ioInput{in}, inputs...)
			}
		}
		for _, procs := range []int{1, 2, 16} {
			runtime.GOMAXPROCS(procs)
			var wg2 sync.WaitGroup
			var cmu2 sync.Mutex
			type c2 struct {
				key string
				n   int
				nt  bool
			}
			var cs []c2
			for ii, in := range inputs {
				for rd := 0; rd < rounds; rd++ {
					rng := c.Rng.Fork()
					wg2.Add(1)
					sem <- struct{}{}
					go func(in ioInput, rng *h.RNG, idx int) {
						defer wg2.Done()
						defer func() { <-sem }()
						chunks := c12RandomPartition(rng, in.data)
						n := x2.check(in.mt, in.data, chunks, idx, &pacer{r: rng.Fork()}, len(in.data) <= 4096)
						cmu2.Lock()
						cs = append(cs, c2{fmt.Sprintf("%s %s procs=%d round=%d chunks=%d", in.mt, in.name, procs, idx, len(chunks)), n, len(chunks) > 1})
						cmu2.Unlock()
					}(in, rng, ii*rounds+rd)
				}
			}
			wg2.Wait()
			for _, k := range cs {
				for i := 0; i < k.n; i++ {
					st2.Count(fmt.Sprintf("%s #%d", k.key, i), k.nt)
				}
			}
			st2.Tag(fmt.Sprintf("GOMAXPROCS=%d", procs))
		}
		runtime.GOMAXPROCS(runtime.NumCPU())
		st2.End()

		// ---------- stage "histories": results retained across calls (c12_hist.go) ----------
		// (before the model comparisons: the report keeps the first 40 findings, failing inputs must not be crowded out by diffs)
		if err := c12Histories(c); err != nil {
			return err
		}

		// ---------- stage 3: Close delivers everything; unknown type; mediatype selection ----------
		st3 := c.R.StartStage("close-and-middleware", "late-writing failing minifier / invalid input / unknown media type through m.Writer and m.ResponseWriter: output complete and error returned at the moment Close returns; middleware: stub minifiers per media type, Content-Type x path extension x Content-Length: minifier chosen = Content-Type if non-empty else extension type, Content-Length deleted, other headers kept; compared with model.c12.pick / model.c12.whdr")
		for i := 0; i < c.N(40, 400); i++ {
			rng := c.Rng.Fork()
			input := bytes.Repeat([]byte("x"), rng.Intn(2000))
			chunks := c12RandomPartition(rng, input)
			var out []byte
			var cerr error
			key := fmt.Sprintf("x/late-fail %d bytes in %d chunks", len(input), len(chunks))
			via := "m.Writer"
			crash := h.Safely(c12Timeout, func() {
				if i%2 == 0 {
					out, _, cerr = c12Writer(m, "x/late-fail", chunks, &pacer{r: rng.Fork()}, nil)
				} else {
					via = "m.ResponseWriter"
					out, cerr = c12RespWriter(m, "x/late-fail", "/", chunks, &pacer{r: rng.Fork()}, nil)
				}
			})
			st3.Count(key+" via="+via, true)
			st3.Tag("late-fail")
			if crash != "" {
				c.R.Add(h.Finding{Stage: st3.Name, Kind: "crash", What: via + ": " + crash, Input: key})
				continue
			}
			want, wantErr := "partial:"+strconv.Itoa(len(input)), errBoom
			if via == "m.ResponseWriter" && len(chunks) == 0 {
				// a response without any Write never selects a minifier (lazy selection on the first Write, see docs/C12.md):
				// nothing is written and Close reports nothing — the stub's output for empty input is not owed
				want, wantErr = "", nil
			}
			if string(out) != want {
				c.R.Add(h.Finding{Stage: st3.Name, Kind: "fail", What: via + ": output incomplete when Close returned", Input: key, Impl: h.Q(out), Model: want})
			}
			if cerr != wantErr {
				c.R.Add(h.Finding{Stage: st3.Name, Kind: "fail", What: via + ": Close did not return the minifier's error", Input: key, Impl: errText(cerr), Model: errText(wantErr)})
			}
		}
		// middleware media type selection with stub minifiers
		sm := minify.New()
		stub := func(name string) minify.MinifierFunc {
			return func(_ *minify.M, w io.Writer, r io.Reader, _ map[string]string) error {
				b, _ := io.ReadAll(r)
				w.Write([]byte("[" + name + ":" + strconv.Itoa(len(b)) + "]"))
				return nil
			}
		}
		stubTypes := []string{"text/css", "text/html", "text/javascript", "application/javascript", "application/json", "image/svg+xml", "text/xml", "application/xml"}
		for _, t := range stubTypes {
			sm.AddFunc(t, stub(t))
		}
		// minifiers registered by PATTERN (as minify.Default and the README do): the middleware must select them exactly as the plain call does,
		// also when the Content-Type carries parameters
		sm.AddFuncRegexp(regexp.MustCompile("[/+]json$"), stub("json-pattern"))
		sm.AddFuncRegexp(regexp.MustCompile("^text/x-[a-z]+$"), stub("x-pattern"))
		cts := []string{"", "text/css", "text/html; charset=utf-8", "application/json", "image/svg+xml", "text/plain", "TEXT/CSS", "application/octet-stream", " text/css",
			"application/ld+json", "application/ld+json; charset=utf-8", "text/x-foo ; q=1", "text/x-foo", "application/manifest+json;v=2"}
		uris := []string{"/", "/a.css", "/a.html", "/a.js", "/a.json", "/a.svg", "/a.xml", "/a.txt", "/dir.css/a", "/a.CSS", "/a.css?x=1", "/a"}
		var lines []string
		type mwCase struct{ key, got, ct, ext string }
		var mws []mwCase
		for _, ct := range cts {
			for _, uri := range uris {
				body := []byte("0123456789")
				out, hdr, _ := c12Middleware(sm, ct, uri, [][]byte{body[:4], body[4:]}, false)
				key := fmt.Sprintf("Content-Type=%q uri=%q", ct, uri)
				st3.Count(key, ct != "" && path.Ext(uri) != "")
				st3.Tag("middleware")
				ext := mime.TypeByExtension(path.Ext(uri))
				// the reference rule, evaluated on the real behaviour
				eff := ext
				if ct != "" {
					eff = ct
				}
				// byte-identical to the plain reader-to-writer call for the effective media type (pass-through when that call says not-exist)
				want := string(body)
				var plainOut bytes.Buffer
				if perr := sm.Minify(eff, &plainOut, bytes.NewReader(body)); perr == nil {
					want = plainOut.String()
				} else if !errors.Is(perr, minify.ErrNotExist) {
					want = "error:" + perr.Error()
				}
				if string(out) != want {
					c.R.Add(h.Finding{Stage: st3.Name, Kind: "fail", What: "middleware picked the wrong minifier (rule: Content-Type first, else path extension)", Input: key, Impl: h.Q(out), Model: want})
				}
				if hdr.Get("Content-Length") != "" {
					c.R.Add(h.Finding{Stage: st3.Name, Kind: "fail", What: "middleware left a stale Content-Length", Input: key, Impl: hdr.Get("Content-Length")})
				}
				if hdr.Get("X-Keep") != "1" {
					c.R.Add(h.Finding{Stage: st3.Name, Kind: "fail", What: "middleware dropped an unrelated header", Input: key})
				}
				lines = append(lines, "model.c12.pick "+h.HexS(ct)+" "+h.HexS(ext))
				mws = append(mws, mwCase{key, eff, ct, ext})
			}
		}
		lines = append(lines, "model.c12.whdr "+h.ListS([]string{"Content-Type", "Content-Length", "X-Keep"}), "model.c12.wf")
		rep, err := h.Eval(lines)
		if err != nil {
			return err
		}
		ndiff := 0
		for i, mw := range mws {
			b, ok, msg := h.DecodeReply(rep[i])
			if (!ok || string(b) != mw.got) && ndiff < 6 {
				ndiff++
				c.R.Add(h.Finding{Stage: st3.Name, Kind: "diff", What: "model.c12.pick differs from the reference rule " + msg, Input: mw.key, Impl: mw.got, Model: string(b)})
			}
		}
		if b, ok, _ := h.DecodeReply(rep[len(mws)]); !ok || len(h.DecodeListReply(b)) != 2 {
			c.R.Add(h.Finding{Stage: st3.Name, Kind: "diff", What: "model.c12.whdr: the WriteHeader skeleton no longer deletes exactly Content-Length", Input: "Content-Type,Content-Length,X-Keep", Model: string(b)})
		}
		st3.Count("wfSkel/wfInputUses of the regenerated skeleton", true)
		if b, ok, _ := h.DecodeReply(rep[len(mws)+1]); !ok || string(b) != "1" {
			c.R.Add(h.Finding{Stage: st3.Name, Kind: "diff", What: "regenerated wrapper skeleton / reader-use facts are not well-formed", Input: "Gen/Wrappers.lean"})
		}
		st3.End()

		// ---------- stage 4: trace acceptance ----------
		st4 := c.R.StartStage("traces", "every recorded event trace of stages 1-2 (Write/Close calls and returns, writes to the underlying writer, source EOF, consumer Reads) must be a run of the transition system interpreted from the regenerated skeleton (model.c12.acceptsW for Writer and ResponseWriter, model.c12.acceptsR for Reader); Bytes/String results against model.c12.bytes; non-trivial = trace has more than 6 events")
		all := append(x.traces, x2.traces...)
		tl := make([]string, len(all))
		extra := make([]string, len(all))
		for i, t := range all {
			tl[i] = t.line
			if j := bytes.Index([]byte(t.line), []byte(" # ")); j >= 0 {
				tl[i], extra[i] = t.line[:j], t.line[j+3:]
			}
		}
		rep2, err := h.Eval(tl)
		if err != nil {
			return err
		}
		nrej, nbdiff := 0, 0
		for i, t := range all {
			st4.Count(t.key, len(tl[i]) > 200)
			b, ok, msg := h.DecodeReply(rep2[i])
			if extra[i] != "" { // Bytes/String
				parts := h.DecodeListReply(b)
				var wantB, wantE string
				fmt.Sscanf(extra[i], "%s %s", &wantB, &wantE)
				if (!ok || len(parts) != 2 || h.Hex(parts[0]) != wantB || string(parts[1]) != wantE) && nbdiff < 6 {
					nbdiff++
					c.R.Add(h.Finding{Stage: st4.Name, Kind: "diff", What: "model.c12.bytes differs from m.Bytes " + msg, Input: t.key})
				}
				continue
			}
			if (!ok || string(b) != "1") && nrej < 10 {
				nrej++
				c.R.Add(h.Finding{Stage: st4.Name, Kind: "diff", What: "event trace of the real run is not a run of the model " + msg, Input: t.key, Impl: clipS(tl[i], 600)})
			}
		}
		st4.End()
		return nil
	})
}

func clipS(s string, n int) string {
	if len(s) > n {
		return s[:n] + "…"
	}
	return s
}

package main

// C02 — fixed corpus, programs under the triggers of the known findings, replay of known findings and of replay files.

import (
	"encoding/json"
	"fmt"
	"os"
	"strings"

	"verifharness/h"
)

// hand-written shapes and regression inputs (always run first)
var c02Corpus = []string{
	`function f(){var abc=1;R(1,abc);return{abc}}R(2,f().abc);`,
	`function f(q){let{abc,e:t}=q;return R(1,abc,t)}f({abc:5,e:6});`,
	`function f(x){var y=x+1;return function(z){var x=z+y;return R(1,x,y,z,e,t)}}R(2,f(1)(2));`,
	`(function g(n){if(n<2)return R(1,n);return g(n-1)})(3);`,
	`function f(){let e=1,t=2;{let e=3;R(1,e,t)}{let t=4;R(2,e,t)}R(3,e,t)}f();`,
	`function f(a,b=a,{c,d:[e]}={c:1,d:[2]},...r){R(1,a,b,c,e,r)}f(7);`,
	`function f(){try{throw {m:1}}catch(err){R(1,err.m);let t=err.m;R(2,t)}finally{let e=3;R(3,e)}}f();`,
	`function f(){try{throw 1}catch{let z=2;R(1,z,e)}}f();`,
	`function f(){const fs=[];for(let i=0;i<3;i++){let j=i*2;fs.push(()=>R(1,i,j))}fs.forEach(f=>f())}f();`,
	`function f(){e:for(let e=0;e<2;e++){t:for(let t=0;t<2;t++){if(R(1,e,t))continue e;R(2,t)}}}f();`,
	`function f(o){for(const k in o){R(1,k,o[k])}for(const v of [1,2]){let k=v;R(2,k)}}f({e:1,t:2});`,
	`function f(v){switch(v){case 1:let a=1;R(1,a);break;default:let b=2;R(2,b)}}f(1);f(2);`,
	`class A{constructor(v){this.v=v}e(t){return R(1,this.v,t)}static t(e){return R(2,e)}get n(){let s=3;return R(3,s)}}new A(1).e(2);A.t(4);new A(5).n;`,
	`function f(){var a=1;{var b=2;let c=3;R(1,a,b,c)}if(R(2,1)){var d=4}R(3,a,b,d)}f();`,
	`function f(){var a=1;for(var i=0;i<1;i++){let e=i;var t=e+a;R(1,e,t)}{let n=5;var s=n;R(2,n,s,t)}}f();`,
	`function f(o){let q=1;with(o){R(1,q,e)}(function(){let z=2;R(2,z,q)})()}f({q:7,e:8});`,
	`function f(){return{e(t){return R(1,t)},get t(){return R(2,e)},n:function e(){return typeof e}}}R(3,f().e(1),f().t,f().n());`,
	`var top1=1;let top2=2;function top3(){return R(1,top1,top2)}top3();R(2,typeof top3);`,
	`function f(){let undefined$=1;let x;R(1,x===void 0,undefined$)}f();`,
	`function f(e){return t=>n=>R(1,e,t,n)}f(1)(2)(3);`,
	`function f(){let a=1,b=2;let o={a,b,c:a};let{a:x,b:y,c}=o;R(1,x,y,c)}f();`,
	`function f(){function e(){return 1}function t(){return e()+1}{function n(){return t()}R(1,n())}}f();`,
	`function f(a=b){let b=1;R(1,a,b)}f();function g(a=b){var b=2;R(2,a,b)}g();`,
	// fixed findings (must pass): K-C02-1 (456a78f), K-C02-2 (f7bc618), K-C02-4 (ce69f48), K-C02-5 (2712531), K-C02-7 (4f65ca1)
	`let x=2;if(R(1,0)){throw 1}else{let x=3;R(2,x)}R(3,x);`,
	`if(R(1,0)){throw 1}else{let G=3;R(2,G)}R(3,G);`,
	`{let x=2;if(R(1,0)){throw 1}else{let x=3;R(2,x)}R(3,x)}`,
	`function q(o){with(o){}let x=2;if(R(1,0)){return 1}else{let x=3;R(2,x)}R(3,x)}q({});`,
	`if(R(1,0)){throw 1}else{if(R(2,0)){throw 2}else{let G=3;R(3,G)}R(4,G)}R(5,G);`,
	`function g(){let z=1;function f(o){let e=2;with(o){return R(1,z,e)}}return f}g()({});`,
	`{let y=1;function f(o){with(o){return R(1,y)}}f({y:5})}`,
	`function a(){let p=1;return()=>{let q=2;return{m(o){with(o){return R(1,p,q)}}}}}a()().m({p:8});`,
	`{let y=1;with({y:5}){R(1,y)}}`,
	`{for(let i=0;i<2;i++){var t=1;R(1,t,i)}}var i=7;R(2,i);`,
	`function f(o){with(o){for(let x=0;x<1;x++){var w=1;R(1,w,x)}}var x=7;R(2,x)}f({});`,
	`function f(){{let z=1;let w=R(1,z)}}f();`,
	`{let a=1;let w=R(1,a)}`,
	// K-C02-3 class static block (1b16362)
	`function f(){let z=1;class A{static{let e=2;R(1,z,e)}}}f();`,
	`function t(p1){class C{static{let e=R(1,1);R(2,e,p1)}}}t(5);`,
}

// c02TriggerProgram: programs under the narrow triggers of the open known findings.
func c02TriggerProgram(r *h.RNG, i int) string {
	x, y := r.Pick([]string{"x", "e", "t", "val"}), r.Pick([]string{"z", "q", "outer"})
	switch i % 10 {
	case 9: // K-C02-8: a name read by a parameter initialiser and declared with var in the body, used from a block
		return "function t(p=c){{c=5}var c;R(1,c)}t(1);"
	case 8: // K-C02-7: block of declarations only, a later initialiser mentions an earlier name
		return fmt.Sprintf("function f(){{let %s=1;let w=R(1,%s)}}f();", y, y)
	case 6: // K-C02-6: a name of a parameter initialiser is declared in the body and used from a closure before that
		return fmt.Sprintf("function f(%s){function j(v=%s){let g=()=>%s;let %s=1;return R(1,g(),v)}return j()}f(5);", y, y, y, y)
	case 7: // K-C02-6 with a rest parameter: the initialiser is resolved to the body variable
		return fmt.Sprintf("function f(%s){function j(v=%s,...w){var %s=1;return R(1,%s,v)}return j()}f(5);", y, y, y, y)
	case 5: // K-C02-5: `var` hoisted into a block whose lexical declaration has the same name
		return fmt.Sprintf("function f(o){with(o){for(let %s=0;%s<1;%s++){var w=1;R(1,w,%s)}}var %s=7;R(2,%s)}f({});", x, x, x, x, x, x)
	case 0: // K-C02-1 at top level: duplicate lexical declaration after else-flattening
		return fmt.Sprintf("let %s=2;if(R(1,0)){throw 1}else{let %s=3;R(2,%s)}R(3,%s);", x, x, x, x)
	case 1: // K-C02-1: capture of a free name at top level
		return fmt.Sprintf("if(R(1,0)){throw 1}else{let G=3;R(2,G)}R(3,G);")
	case 2: // K-C02-2: `with` function below a renamed function
		return fmt.Sprintf("function g(){let %s=1;function f(o){let e=2;with(o){return R(1,%s,e)}}return f}g()({});", y, y)
	case 3: // formerly K-C02-3 (fixed by 1b16362): must pass now
		return fmt.Sprintf("function f(){let %s=1;class A{static{let e=2;R(1,%s,e)}}}f();", y, y)
	default: // K-C02-4: top-level `with`, block-scoped variable renamed
		return fmt.Sprintf("{let %s=1;with({%s:5}){R(1,%s)}}", y, y, y)
	}
}

// c02KnownReplays replays the exact inputs of the open known findings on the real code.
func c02KnownReplays(c *Ctx) {
	for _, k := range h.Known("C02") {
		if k.Status != "open" {
			continue
		}
		src := k.ReplayStr("input")
		keep := k.ReplayStr("config") == "KeepVarNames"
		run := c02Minify(src, keep, false)
		if run.err != nil || run.crash != "" {
			c.R.AddKnown(k.ID, true, k.What, "minifier error: "+fmt.Sprint(run.err)+run.crash)
			continue
		}
		tr, err := c02Node([]c02NodeCase{{ID: 0, Srcs: []string{src, run.out}}})
		if err != nil || len(tr[0]) != 2 {
			c.R.AddKnown(k.ID, true, k.What, "node oracle unavailable: "+fmt.Sprint(err))
			continue
		}
		still := tr[0][0] != tr[0][1]
		c.R.AddKnown(k.ID, still, k.What, fmt.Sprintf("output %s; input trace %s, output trace %s", run.out, tr[0][0], tr[0][1]))
	}
}

// c02Replay re-runs the input of a replay file through all checks.
func c02Replay(c *Ctx) error {
	b, err := os.ReadFile(c.Replay)
	if err != nil {
		return err
	}
	var rf struct {
		Finding h.Finding `json:"finding"`
		Input   string    `json:"input"`
	}
	if err := json.Unmarshal(b, &rf); err != nil {
		return err
	}
	src := rf.Finding.Input
	if src == "" {
		src = rf.Input
	}
	if strings.TrimSpace(src) == "" {
		return fmt.Errorf("replay file has no input")
	}
	return c02RunAll(c, []*c02Case{{id: 0, src: src, class: "replay"}})
}

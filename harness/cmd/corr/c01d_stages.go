package main

// C01D — stages of the runner (see c01d.go for the overview).

import (
	"bufio"
	"bytes"
	"encoding/json"
	"fmt"
	"os"
	"os/exec"
	"path/filepath"
	"regexp"
	"strings"
	"sync"

	"verifharness/h"
)

// ---------- node side of the semantics validation (tools/jsdecl.mjs) ----------

type c01dDeclReq struct {
	ID     int      `json:"id"`
	Src    string   `json:"src"`
	Script []string `json:"script"`
	Names  []string `json:"names"`
}

func c01dNodeObs(reqs []c01dDeclReq) ([]string, error) {
	out := make([]string, len(reqs))
	if len(reqs) == 0 {
		return out, nil
	}
	const procs = 8
	size := (len(reqs) + procs - 1) / procs
	var wg sync.WaitGroup
	errs := make([]error, procs)
	for k := 0; k < procs; k++ {
		lo, hi := k*size, (k+1)*size
		if lo >= len(reqs) {
			break
		}
		if hi > len(reqs) {
			hi = len(reqs)
		}
		wg.Add(1)
		go func(k, lo, hi int) {
			defer wg.Done()
			var in bytes.Buffer
			enc := json.NewEncoder(&in)
			enc.SetEscapeHTML(false)
			for i := lo; i < hi; i++ {
				r := reqs[i]
				r.ID = i - lo
				enc.Encode(r)
			}
			cmd := exec.Command(c01NodeBin, filepath.Join(h.Root(), "tools", "jsdecl.mjs"))
			cmd.Stdin = &in
			var so, se bytes.Buffer
			cmd.Stdout, cmd.Stderr = &so, &se
			if err := cmd.Run(); err != nil {
				errs[k] = fmt.Errorf("jsdecl.mjs: %v: %s", err, c01NodeClip(se.String(), 300))
				return
			}
			sc := bufio.NewScanner(&so)
			sc.Buffer(make([]byte, 1<<20), 1<<26)
			n := 0
			for sc.Scan() {
				var rep struct {
					ID  int    `json:"id"`
					Obs string `json:"obs"`
				}
				if err := json.Unmarshal(sc.Bytes(), &rep); err != nil || rep.ID != n {
					errs[k] = fmt.Errorf("jsdecl.mjs: bad reply %d", n)
					return
				}
				out[lo+n] = rep.Obs
				n++
			}
			if n != hi-lo {
				errs[k] = fmt.Errorf("jsdecl.mjs: %d replies for %d requests: %s", n, hi-lo, c01NodeClip(se.String(), 300))
			}
		}(k, lo, hi)
	}
	wg.Wait()
	for _, e := range errs {
		if e != nil {
			return nil, e
		}
	}
	return out, nil
}

// ---------- cases ----------

type c01dCase struct {
	src                                             string
	enc                                             string // encoding of the input with annotations ("" = outside the Lean fragment / syntax error)
	perr, uerr                                      error
	realK, realR                                    string // real outputs with KeepVarNames / with renaming
	errK, errR                                      error
	known                                           string // id of the known finding whose trigger the input satisfies ("-" = none)
	trigDone, trigForeign, trigForLet, trigDangling bool
}

var c01dScripts = [][]string{{"v1", "v2", "u", "v0"}, {"v3", "t7", "v1", "u", "v2"}}

func c01dRunLine(enc string, script []string) string {
	return "spec.c01d.run " + h.HexS(enc) + " " + h.ListS(script) + " " + h.Int(8) + " " + h.ListS(c01dObsNames)
}

func c01dDecode(rep string) string {
	b, ok, msg := h.DecodeReply(rep)
	if !ok {
		return "!" + msg
	}
	return string(b)
}

func c01dPrepare(c *Ctx, srcs []string) []*c01dCase {
	cases := make([]*c01dCase, len(srcs))
	for i, src := range srcs {
		cs := &c01dCase{src: src}
		cs.enc, cs.perr, cs.uerr = c01dEncode(src, true)
		var crash string
		cs.realK, cs.errK, crash = c01dReal(src, true)
		if crash != "" {
			c.R.Add(h.Finding{Stage: "prepare", Kind: "crash", What: "js.Minify KeepVarNames: " + crash, Input: src})
		}
		cs.realR, cs.errR, crash = c01dReal(src, false)
		if crash != "" {
			c.R.Add(h.Finding{Stage: "prepare", Kind: "crash", What: "js.Minify: " + crash, Input: src})
		}
		cases[i] = cs
	}
	return cases
}

// c01dTriggers asks the Lean side which known-finding guard an input falls under.
func c01dTriggers(cases []*c01dCase) error {
	var lines []string
	var idx []int
	for i, cs := range cases {
		if cs.enc != "" {
			lines = append(lines, "trig.c01d.known "+h.HexS(cs.enc))
			idx = append(idx, i)
		}
	}
	rep, err := h.Eval(lines)
	if err != nil {
		return err
	}
	for k, i := range idx {
		cases[i].known = c01dDecode(rep[k])
		if strings.HasPrefix(cases[i].known, "!") {
			return fmt.Errorf("trig.c01d.known: %s", cases[i].known)
		}
	}
	return nil
}

// stage model: real bytes (KeepVarNames) = model bytes
func c01dStageModel(c *Ctx, name string, cases []*c01dCase) error {
	st := c.R.StartStage(name, "programs of the Lean fragment (parsed, encoded with scope annotations): bytes of js.Minify{KeepVarNames} = model.c01d.min; non-trivial = the model is defined")
	defer st.End()
	var lines []string
	var idx []int
	for i, cs := range cases {
		if cs.perr != nil {
			st.Tag("input-syntax-error")
			continue
		}
		if cs.uerr != nil {
			st.Tag("outside-fragment")
			continue
		}
		if cs.errK != nil {
			st.Tag("minify-error")
			continue
		}
		lines = append(lines, "model.c01d.min "+h.HexS(cs.enc))
		idx = append(idx, i)
	}
	rep, err := h.Eval(lines)
	if err != nil {
		return err
	}
	ndiff := 0
	for k, i := range idx {
		cs := cases[i]
		b, ok, msg := h.DecodeReply(rep[k])
		if !ok {
			if msg == "unmodelled" {
				st.Tag("unmodelled")
				st.Count(cs.src, false)
				continue
			}
			return fmt.Errorf("model.c01d.min: %s on %q", msg, cs.src)
		}
		st.Count(cs.src, true)
		st.Tag("compared")
		if strings.Count(cs.src, "var ") > strings.Count(cs.realK, "var ") {
			st.Tag("var-declarations-merged-or-hoisted")
		}
		if string(b) != cs.realK {
			ndiff++
			if ndiff > 8 {
				continue // leave room for the failing inputs of the later stages (the report keeps 40 findings)
			}
			c.R.Add(h.Finding{Stage: name, Kind: "diff", What: "model.c01d.min differs from js.Minify{KeepVarNames}", Input: cs.src, Impl: cs.realK, Model: string(b), Seed: c.Seed})
		}
	}
	return nil
}

// stage spec: the Lean semantics on the input and on the REAL outputs (re-parsed)
func c01dStageSpec(c *Ctx, name string, cases []*c01dCase) error {
	st := c.R.StartStage(name, "Lean semantics (Spec/JsDeclSem) run on the input and on the re-parsed real output (KeepVarNames and renaming), 2 host scripts: identical observation; non-trivial = the input run is not stuck and has a trace or a throw")
	defer st.End()
	type job struct {
		ci     int
		script int
		which  string // "in" | "K" | "R"
	}
	var lines []string
	var jobs []job
	encOut := map[string]string{}
	for i, cs := range cases {
		if cs.enc == "" {
			continue
		}
		for si := range c01dScripts {
			lines = append(lines, c01dRunLine(cs.enc, c01dScripts[si]))
			jobs = append(jobs, job{i, si, "in"})
		}
		for _, w := range []string{"K", "R"} {
			out, oerr := cs.realK, cs.errK
			if w == "R" {
				out, oerr = cs.realR, cs.errR
			}
			if oerr != nil {
				continue
			}
			enc, perr, uerr := c01dEncode(out, false)
			key := fmt.Sprint(i, w)
			if perr != nil {
				encOut[key] = "!syntax " + perr.Error()
				continue
			}
			if uerr != nil {
				encOut[key] = "!outside " + uerr.Error()
				continue
			}
			encOut[key] = enc
			for si := range c01dScripts {
				lines = append(lines, c01dRunLine(enc, c01dScripts[si]))
				jobs = append(jobs, job{i, si, w})
			}
		}
	}
	rep, err := h.Eval(lines)
	if err != nil {
		return err
	}
	obs := map[string]string{}
	for k, j := range jobs {
		obs[fmt.Sprint(j.ci, j.which, j.script)] = c01dDecode(rep[k])
	}
	for i, cs := range cases {
		if cs.enc == "" {
			continue
		}
		for si := range c01dScripts {
			in := obs[fmt.Sprint(i, "in", si)]
			if strings.HasPrefix(in, "!") {
				return fmt.Errorf("spec.c01d.run: %s on %q", in, cs.src)
			}
			if in == "syntax" {
				st.Tag("input-early-error")
				continue
			}
			if strings.HasPrefix(in, "stuck") {
				st.Tag("input-" + in)
				continue
			}
			st.Count(cs.src+fmt.Sprint(" script ", si), !strings.HasPrefix(in, "trace=|completion=normal"))
			for _, w := range []string{"K", "R"} {
				cfg := "KeepVarNames"
				out := cs.realK
				if w == "R" {
					cfg, out = "renaming", cs.realR
				}
				eo, ok := encOut[fmt.Sprint(i, w)]
				if !ok {
					continue // minify error
				}
				var got string
				if strings.HasPrefix(eo, "!syntax") {
					got = "syntax (" + strings.SplitN(eo, "\n", 2)[0] + ")"
				} else if strings.HasPrefix(eo, "!outside") {
					st.Tag("output-outside-fragment")
					continue
				} else {
					got = obs[fmt.Sprint(i, w, si)]
				}
				if got == in {
					st.Tag("same-" + w)
					continue
				}
				if id := c01dKnownTrigger(cs, cfg); id != "" {
					c.R.ExcludedKnown++
					st.Tag("known-" + id)
					continue
				}
				if !c01dFactEmptyBody && w == "K" && strings.HasPrefix(eo, "!syntax") && (strings.Contains(out, ")}") || strings.HasSuffix(out, ")")) {
					c.R.ExcludedKnown++
					st.Tag("known-K-C01D-7")
					continue
				}
				c.R.Add(h.Finding{Stage: name, Kind: "fail", What: "Lean semantics: the real output behaves differently from the input", Input: cs.src, Config: cfg + fmt.Sprint(" script=", c01dScripts[si]), Impl: out + "  => " + got, Model: in, Seed: c.Seed})
			}
		}
	}
	return nil
}

// stage specnode: the Lean semantics against node on the inputs (validates the hand-written semantics)
func c01dStageSpecNode(c *Ctx, name string, cases []*c01dCase) error {
	st := c.R.StartStage(name, "Lean semantics vs node (tools/jsdecl.mjs) on the generated inputs: identical observation string (trace, completion, global bindings); non-trivial = not stuck on either side")
	defer st.End()
	var lines []string
	var reqs []c01dDeclReq
	var idx []int
	for i, cs := range cases {
		if cs.enc == "" {
			continue
		}
		si := i % len(c01dScripts)
		lines = append(lines, c01dRunLine(cs.enc, c01dScripts[si]))
		reqs = append(reqs, c01dDeclReq{Src: cs.src, Script: c01dScripts[si], Names: c01dObsNames})
		idx = append(idx, i)
	}
	rep, err := h.Eval(lines)
	if err != nil {
		return err
	}
	nobs, err := c01dNodeObs(reqs)
	if err != nil {
		return err
	}
	nd := 0
	for k, i := range idx {
		l := c01dDecode(rep[k])
		n := nobs[k]
		if strings.HasPrefix(l, "stuck") || strings.HasPrefix(n, "stuck") {
			st.Tag("stuck")
			st.Count(cases[i].src, false)
			continue
		}
		st.Count(cases[i].src, true)
		if l == "syntax" {
			st.Tag("early-error")
		}
		if strings.Contains(l, "ReferenceError") {
			st.Tag("ReferenceError")
		}
		if strings.Contains(l, "TypeError") {
			st.Tag("TypeError")
		}
		if strings.Contains(l, "<tdz>") {
			st.Tag("tdz-global")
		}
		if l != n {
			nd++
			if nd > 6 {
				continue
			}
			c.R.Add(h.Finding{Stage: name, Kind: "diff", What: "the Lean semantics disagrees with node on an input (the specification is wrong)", Input: cases[i].src, Impl: n, Model: l, Seed: c.Seed})
		}
	}
	return nil
}

// stage node: input vs real output under node (independent oracle, tools/jsrun.mjs of C01)
func c01dStageNode(c *Ctx, name string, cases []*c01dCase, rule string) error {
	st := c.R.StartStage(name, rule)
	defer st.End()
	var pairs []c01Pair
	type meta struct {
		ci  int
		cfg string
		out string
	}
	var metas []meta
	for i, cs := range cases {
		if cs.perr != nil {
			st.Tag("input-syntax-error")
			continue
		}
		for _, w := range []string{"KeepVarNames", "renaming"} {
			out, oerr := cs.realK, cs.errK
			if w == "renaming" {
				out, oerr = cs.realR, cs.errR
			}
			if oerr != nil {
				st.Tag("minify-error")
				continue
			}
			for seed := 0; seed < 2; seed++ {
				pairs = append(pairs, c01Pair{ID: len(pairs), A: cs.src, B: out, Seed: int(c.Seed)*7 + seed})
				metas = append(metas, meta{i, w, out})
			}
		}
	}
	res, err := c01NodeCompare(pairs)
	if err != nil {
		return err
	}
	for k, r := range res {
		m := metas[k]
		cs := cases[m.ci]
		if r.Skip != "" {
			st.Tag("skip: " + r.Skip)
			continue
		}
		st.Count(cs.src, true)
		if r.Same {
			continue
		}
		if m.cfg == "renaming" && (strings.Contains(r.OA+r.OB+r.Why, "before initialization") || strings.Contains(r.OA+r.OB+r.Why, "is not defined")) {
			// the message of an engine error (it names the variable) reached the trace through string concatenation
			st.Tag("skip: error message with a variable name in the trace")
			continue
		}
		if id := c01dKnownTrigger(cs, m.cfg); id != "" {
			c.R.ExcludedKnown++
			st.Tag("known-" + id)
			continue
		}
		if !c01dFactEmptyBody && m.cfg == "KeepVarNames" && strings.Contains(r.Why, "output does not parse: Unexpected") &&
			(strings.Contains(m.out, ")}") || strings.HasSuffix(m.out, ")")) {
			// K-C01D-7: a var declaration that lost all its items is the only statement of a loop body: nothing is
			// written for it (signature: names kept, the output ends a statement with `)` before `}` / the end)
			c.R.ExcludedKnown++
			st.Tag("known-K-C01D-7")
			continue
		}
		if cs.known == "-" && !c01dFactWhile && m.cfg == "KeepVarNames" && strings.Contains(cs.src, "while(") &&
			strings.Contains(r.Why, "has already been declared") {
			// outside the Lean fragment there is no Lean-side guard for K-C01D-1: names kept, a while loop in the
			// input, and the output redeclares a let / const name
			c.R.ExcludedKnown++
			st.Tag("known-K-C01D-1 (signature: while + redeclaration in the output)")
			continue
		}
		if cs.known == "-" && strings.Contains(r.OA, `"completion":{"type":"throw","value":{"$error":"ReferenceError"}}`) &&
			(strings.HasPrefix(r.Why, "completion:") || strings.Contains(r.Why, "extra in output")) {
			// programs outside the Lean fragment have no Lean-side guard: the signature of K-C01-3 (C01) is a
			// ReferenceError of the input that the output does not raise (a dropped `pure` expression), the traces
			// agreeing up to that point
			c.R.ExcludedKnown++
			st.Tag("known-K-C01-3 (signature: ReferenceError of the input lost)")
			continue
		}
		c.R.Add(h.Finding{Stage: name, Kind: "fail", What: "node: the real output behaves differently from the input: " + r.Why, Input: cs.src, Config: m.cfg, Impl: m.out + "  => " + r.OB, Model: r.OA, Seed: c.Seed})
	}
	return nil
}

// c01dKnownTrigger: narrow triggers of the open known findings.
func c01dKnownTrigger(cs *c01dCase, cfg string) string {
	if cs.known != "" && cs.known != "-" {
		return cs.known
	}
	if !cs.trigDone {
		cs.trigForeign, cs.trigForLet, cs.trigDangling = c01dAstTriggers(cs.src)
		cs.trigDone = true
	}
	if cs.trigForeign && !c01dFactOwnFunction {
		return "K-C01D-4"
	}
	if c01dTrigCatchVar(cs.src) {
		if cfg == "renaming" {
			return "K-C01-6"
		}
		// names kept: only wrong when the catch binding was dropped although a `var` of the block refers to it
		if strings.Count(cs.realK, "catch{") > strings.Count(cs.src, "catch{") {
			return "K-C01D-2"
		}
	}
	if cfg == "renaming" && cs.trigForLet {
		return "K-C01D-5"
	}
	if cs.trigDangling && !c01dFactLoops {
		return "K-C01D-6"
	}
	return ""
}

// c01dFactOwnFunction: mergeVarDeclExprStmt checks that the assignment target belongs to the function (read from the
// source by the translator; when true K-C01D-4 cannot occur and its trigger is off)
var c01dFactOwnFunction bool

// c01dFactLoops: endsInIf optimizes loop bodies first (K-C01D-6 cannot occur); c01dFactWhile: isShadowed knows while
var c01dFactLoops, c01dFactWhile, c01dFactEmptyBody bool

func c01dLoadFacts() error {
	rep, err := h.Eval([]string{"model.c01d.facts"})
	if err != nil {
		return err
	}
	b, ok, msg := h.DecodeReply(rep[0])
	if !ok || len(b) != 5 {
		return fmt.Errorf("model.c01d.facts: %s %q", msg, b)
	}
	c01dFactOwnFunction = b[0] == '1'
	c01dFactWhile = b[1] == '1'
	c01dFactLoops = b[3] == '1'
	c01dFactEmptyBody = b[4] == '1'
	return nil
}

var c01dCatchVarRe = regexp.MustCompile(`catch\((\w+)\)\{`)

// c01dTrigCatchVar: a `var` inside a catch block redeclares the catch parameter (K-C01-6: the scope analysis of the
// dependency splits it into a second variable, visible when names are changed)
func c01dTrigCatchVar(src string) bool {
	for _, m := range c01dCatchVarRe.FindAllStringSubmatchIndex(src, -1) {
		name := src[m[2]:m[3]]
		depth, end := 1, m[1]
		for end < len(src) && depth > 0 {
			switch src[end] {
			case '{':
				depth++
			case '}':
				depth--
			}
			end++
		}
		body := src[m[1]:end]
		if regexp.MustCompile(`var [^;]*\b` + regexp.QuoteMeta(name) + `\b`).MatchString(body) {
			return true
		}
	}
	return false
}

// c01dCorpus: hand-written programs, one per branch of the declaration handling (and the inputs of the findings).
var c01dCorpus = []string{
	"var a;a=5",
	"var a,b;b=5;g(a,b)",
	"var a=g();var b=2",
	"let a=1;let b=2;const c=3;const d=4;g(a,b,c,d)",
	"var a;for(var b=0;b<3;b++)g(b)",
	"var a=1;for(var b=0;b<3;b++)g(b)",
	"g();var a=1;g();var b=2;g(a,b)",
	"function f(){g();var a=1;g();var b=2;g(a,b)}f()",
	"function f(){g(a);var a=1;if(a){var b=2;g(b)}for(var i=0;i<2;i++){var c=i}g(c)}f()",
	"function f(a){g(a);var a=1;var b;g(a,b)}f(3)",
	"function f(){g();{let a=1;var b=2;g(a,b)}var a=3;g(a)}f()",
	"function f(){try{g();throw 1}catch(a){var a=1;g(a)}var b=2;g(a,b)}f()",
	"function f(){var a;a=g(a)}f()",
	"function f(){var a;b=1;var b;g(a,b)}f()",
	"function f(){x=1;y=2;var x,y,z;g(x,y,z)}f()",
	"function f(){g(),x=1;var x,z;g(x,z)}f()",
	"function f(){x=1;for(var y=0;y<1;y++);var x;g(x,y)}f()",
	"function f(){for(var i=0,j=1;i<j;i++);for(var i=0;i<2;i++);g(i,j)}f()",
	"function f(){var a=1;while(a)a=g()}f()",
	"function f(){{let a=1;for(;g(a);){}}var a;g(a)}f()",
	"function f(){var a;{var b=1;a=2;g(a,b)}}f()",
	"function f(){{a=5}{a=6}var a;g(a)}f()",
	"function f(){for(let a=0;a<1;a++){var b=1}var a=2;var c=3;var d=4;g(a,b,c,d)}f()",
	"g(x);let x=1",
	"g(typeof x);let x=1",
	"x=1;let x",
	"const c=1;c=2",
	"{g(y);let y=1}",
	"var abcd=1;for(var i=0;i<1;i++)g(abcd);var c=2",
	"var abcd=1;var efgh=2;c=3;var c;g(c)",
	"if(a){var b=1}else{var c=2}g(b,c)",
	"if(g())var a=1;else var b=2;g(a,b)",
	"function f(){if(g())return;else{var a=1;g(a)}g(a)}f()",
	"var i=0;while(i<2){var b=g(i);i++}g(b)",
	"for(;i<1;i++){if(g())var a}",
	"function f(){var d=0;b=1;var b;g(b)}f()",
	"var b;function f(){var d=0;b=1}f();g(b)",
	"for(;b;){let a=8;g(a);b=0}var a;var b;g(a)",
	"function a(){var name,z;g(z);try{}catch(name){var name}}a()",
	// the inputs of the repaired findings K-C01D-4, 6, 7 and their variants
	"function f(){var d=0;b=1}f();var b;g(b)",
	"function f(){b=1;var d=0;g(d)}f();var b;g(b)",
	"function f(){b=1;for(var d=0;d<1;d++);}f();var b;g(b)",
	"if(a)for(;b;b=0){if(c)for(;d;d=0)g(1);var e}else g(2);var z=1",
	"if(a)for(;b;b=0){if(c)for(;d;d=0)g(1);{}}else g(2)",
	"if(a)for(;b;b=0){if(c)for(;d;d=0)g(1);{let y=1}}else g(2)",
	"if(b){for(var i=0;i<2;i++){if(g(a))for(;j<2;j++){a=b;c++}else var d,b,d}}else{d=h(c=d,a||c)}",
	"{let b=0;var longname2=2;g(b)}var longname1=1;b=7;for(;c;c=0){var b}",
}

func c01dReplayInput(path string) string {
	b, err := os.ReadFile(path)
	if err != nil {
		return ""
	}
	var obj struct {
		Finding struct {
			Input string `json:"input"`
		} `json:"finding"`
		Diffs []struct {
			Input string `json:"input"`
		} `json:"correspondence_diffs"`
	}
	if json.Unmarshal(b, &obj) != nil {
		return ""
	}
	if obj.Finding.Input != "" {
		return obj.Finding.Input
	}
	if len(obj.Diffs) > 0 {
		return obj.Diffs[0].Input
	}
	return ""
}

// c01dKnownReplays replays the exact inputs of the open known findings on the real code, judged by node.
func c01dKnownReplays(c *Ctx) error {
	var pairs []c01Pair
	type meta struct {
		k   h.KnownEntry
		out string
	}
	var metas []meta
	for _, k := range h.Known("C01D") {
		if k.Status != "open" && k.Status != "fixed" {
			continue
		}
		src := k.ReplayStr("src")
		keep, _ := k.Replay["keep"].(bool)
		out, err, crash := c01dReal(src, keep)
		if err != nil || crash != "" {
			if k.Status == "open" {
				c.R.AddKnown(k.ID, true, k.What, fmt.Sprint(err, crash))
			} else {
				c.R.Add(h.Finding{Stage: "known", Kind: "crash", What: "regression input of the repaired finding " + k.ID + ": " + fmt.Sprint(err, crash), Input: src})
			}
			continue
		}
		for seed := 0; seed < 3; seed++ {
			pairs = append(pairs, c01Pair{ID: len(pairs), A: src, B: out, Seed: seed})
			metas = append(metas, meta{k, out})
		}
	}
	res, err := c01NodeCompare(pairs)
	if err != nil {
		return err
	}
	still := map[string]bool{}
	obs := map[string]string{}
	for i, r := range res {
		id := metas[i].k.ID
		obs[id] = metas[i].out
		if r.Skip == "" && !r.Same {
			still[id] = true
			obs[id] = metas[i].out + "  => " + r.Why
		}
	}
	st := c.R.StartStage("fixed-regression", "the exact inputs of the repaired findings (status fixed in meta/C01D.known.json): input vs real output under node, 3 host worlds; they must agree")
	defer st.End()
	seen := map[string]bool{}
	for _, m := range metas {
		if !seen[m.k.ID] {
			seen[m.k.ID] = true
			if m.k.Status == "open" {
				c.R.AddKnown(m.k.ID, still[m.k.ID], m.k.What, obs[m.k.ID])
				continue
			}
			st.Count(m.k.ID+" "+m.k.ReplayStr("src"), true)
			if still[m.k.ID] {
				cfg := "renaming"
				if keep, _ := m.k.Replay["keep"].(bool); keep {
					cfg = "KeepVarNames"
				}
				c.R.Add(h.Finding{Stage: "fixed-regression", Kind: "fail", What: "the repaired finding " + m.k.ID + " is back", Input: m.k.ReplayStr("src"), Config: cfg, Impl: obs[m.k.ID], Seed: c.Seed})
			}
		}
	}
	return nil
}

func c01dRunAll(c *Ctx, prefix string, srcs []string, withNode bool) error {
	cases := c01dPrepare(c, srcs)
	if err := c01dTriggers(cases); err != nil {
		return err
	}
	if err := c01dStageModel(c, prefix+"model", cases); err != nil {
		return err
	}
	if err := c01dStageSpec(c, prefix+"spec", cases); err != nil {
		return err
	}
	if err := c01dStageSpecNode(c, prefix+"spec-vs-node", cases); err != nil {
		return err
	}
	if withNode {
		return c01dStageNode(c, prefix+"node", cases, "input vs real output (KeepVarNames and renaming) under node, 2 host worlds")
	}
	return nil
}

func init() {
	register("C01D", func(c *Ctx) error {
		if p := os.Getenv("C01D_DEBUG"); p != "" {
			return c01dDebug(p)
		}
		if err := c01dLoadFacts(); err != nil {
			return err
		}
		if c.Replay != "" {
			if src := c01dReplayInput(c.Replay); src != "" {
				return c01dRunAll(c, "replay-", []string{src}, true)
			}
		}
		if err := c01dKnownReplays(c); err != nil {
			return err
		}
		if err := c01dRunAll(c, "corpus-", c01dCorpus, true); err != nil {
			return err
		}
		// 1. programs of the Lean fragment
		n := c.N(1500, 30000)
		if c.Search {
			n *= 3
		}
		srcs := make([]string, n)
		for i := range srcs {
			srcs[i] = c01dProgram(c.Rng.Fork(), 1+c.Rng.Intn(6), false)
		}
		if err := c01dRunAll(c, "", srcs, true); err != nil {
			return err
		}
		// 2. larger programs outside the model: node only
		m := c.N(800, 18000)
		if c.Search {
			m *= 3
		}
		ext := make([]string, m)
		for i := range ext {
			ext[i] = c01dProgram(c.Rng.Fork(), 3+c.Rng.Intn(8), true)
		}
		ecases := c01dPrepare(c, ext)
		for _, cs := range ecases {
			cs.known = "-"
		}
		return c01dStageNode(c, "node-ext", ecases, "larger programs with forms outside the Lean fragment (closures over loop variables, destructuring, for-in/of, do-while, switch, labels, finally): input vs real output under node")
	})
}

package main

// C05 — SVG path data: (i) correspondence of the Lean model `Model.SvgPath.shorten` with the real
// `ShortenPathData` (direct and through `svg.Minify` on `<path d="…"/>` documents) on paths whose
// coordinates are k/8 with |k| < 2^23 (float64 arithmetic exact); (ii) the property itself on the REAL
// output: exact segment equivalence judged by the Lean spec (`spec.c05.holds`) on the exact domain,
// and a float-tolerance comparison by an independent Go interpreter (c05_interp.go) on general decimals;
// (iii) documents (c05_doc.go).  Known findings (meta/C05.known.json) are replayed first.

import (
	"bytes"
	"fmt"
	"math/big"
	"strings"
	"time"

	"github.com/tdewolff/minify/v2"
	"github.com/tdewolff/minify/v2/svg"
	pstrconv "github.com/tdewolff/parse/v2/strconv"

	"verifharness/h"
)

// ---------- real code ----------

func c05Direct(d string) (out string, crash string) {
	crash = h.Safely(10*time.Second, func() {
		p := svg.NewPathData(&svg.Minifier{})
		b := []byte(d)
		out = string(p.ShortenPathData(b))
	})
	return
}

func c05MinifyDoc(doc string, inline bool) (out string, err error, crash string) {
	crash = h.Safely(10*time.Second, func() {
		m := minify.New()
		var w bytes.Buffer
		var params map[string]string
		if inline {
			params = map[string]string{"inline": "1"}
		}
		err = svg.Minify(m, &w, strings.NewReader(doc), params)
		out = w.String()
	})
	return
}

// c05ViaDoc runs the path through svg.Minify inside <path d="…"/> and extracts the attribute again.
func c05ViaDoc(d string) (out string, ok bool, crash string) {
	o, err, crash := c05MinifyDoc(`<path d="`+d+`"/>`, false)
	if crash != "" || err != nil {
		return "", false, crash
	}
	if !strings.HasPrefix(o, `<path d="`) || !strings.HasSuffix(o, `"/>`) {
		return o, false, ""
	}
	return o[len(`<path d="`) : len(o)-len(`"/>`)], true, ""
}

func c05CollapseSpaces(d string) string {
	var sb strings.Builder
	prev := false
	for i := 0; i < len(d); i++ {
		if d[i] == ' ' {
			if !prev {
				sb.WriteByte(' ')
			}
			prev = true
		} else {
			sb.WriteByte(d[i])
			prev = false
		}
	}
	return strings.TrimSpace(sb.String())
}

// ---------- exact-domain generator ----------

// values are integers in units of 1/8
type c05Grp struct {
	k    byte // upper-case kind letter
	rel  bool
	args []int64 // eighths; flags 0/8
}

type c05Gen struct {
	r          *h.RNG
	x, y       int64
	x0, y0     int64
	lc, lq     *[2]int64
	avoidCurve bool // previous group was z / zero-length / degenerate: keep curve commands rare (known-finding triggers)
	allowHaz   bool
}

func (g *c05Gen) val() int64 {
	r := g.r
	switch r.Intn(10) {
	case 0, 1, 2, 3:
		return int64(r.Intn(161)) - 80 // small, often colliding
	case 4, 5:
		return (int64(r.Intn(41)) - 20) * 8 // small integers
	case 6:
		return (int64(r.Intn(41)) - 20) * 800 // hundreds: the 00 → e2 rewrite
	case 7:
		return (int64(r.Intn(2001)) - 1000) * 8000 // thousands
	case 8:
		return int64(r.Intn(1<<21)) - 1<<20
	default:
		return int64(r.Intn(1<<24)) - 1<<23
	}
}

// pt returns a target point, frequently colliding with the current point in one or both coordinates
func (g *c05Gen) pt() (int64, int64) {
	r := g.r
	switch r.Intn(12) {
	case 0:
		return g.x, g.y
	case 1, 2:
		return g.x, g.val()
	case 3, 4:
		return g.val(), g.y
	case 5:
		return g.x0, g.y0
	default:
		return g.val(), g.val()
	}
}

func (g *c05Gen) refl(o *[2]int64) (int64, int64) {
	if o == nil {
		return g.x, g.y
	}
	return 2*g.x - o[0], 2*g.y - o[1]
}

// group produces one argument group of kind k, tracking the SVG state
func (g *c05Gen) group(k byte, rel bool) c05Grp {
	r := g.r
	ox, oy := int64(0), int64(0)
	if rel {
		ox, oy = g.x, g.y
	}
	var a []int64
	var nlc, nlq *[2]int64
	special := false
	switch k {
	case 'M':
		nx, ny := g.val(), g.val()
		a = []int64{nx - ox, ny - oy}
		g.x, g.y, g.x0, g.y0 = nx, ny, nx, ny
	case 'L':
		nx, ny := g.pt()
		if !g.allowHaz && nx == g.x && ny == g.y && r.Chance(50) {
			nx += 8
		}
		special = nx == g.x && ny == g.y
		a = []int64{nx - ox, ny - oy}
		g.x, g.y = nx, ny
	case 'H':
		nx := g.val()
		if r.Chance(10) {
			nx = g.x
		}
		a = []int64{nx - ox}
		g.x = nx
	case 'V':
		ny := g.val()
		if r.Chance(10) {
			ny = g.y
		}
		a = []int64{ny - oy}
		g.y = ny
	case 'C':
		nx, ny := g.pt()
		c1x, c1y, c2x, c2y := g.val(), g.val(), g.val(), g.val()
		switch r.Intn(10) {
		case 0, 1, 2:
			c1x, c1y = g.refl(g.lc) // C → S
		case 3:
			special = true // degenerate
			pick := func() (int64, int64) {
				if r.Bool() {
					return g.x, g.y
				}
				return nx, ny
			}
			c1x, c1y = pick()
			c2x, c2y = pick()
		}
		special = (c1x == g.x && c1y == g.y || c1x == nx && c1y == ny) && (c2x == g.x && c2y == g.y || c2x == nx && c2y == ny)
		a = []int64{c1x - ox, c1y - oy, c2x - ox, c2y - oy, nx - ox, ny - oy}
		nlc = &[2]int64{c2x, c2y}
		g.x, g.y = nx, ny
	case 'S':
		nx, ny := g.pt()
		c2x, c2y := g.val(), g.val()
		if r.Chance(15) {
			if r.Bool() {
				c2x, c2y = g.x, g.y
			} else {
				c2x, c2y = nx, ny
			}
			special = true
		}
		{
			c1x, c1y := g.refl(g.lc)
			special = (c1x == g.x && c1y == g.y || c1x == nx && c1y == ny) && (c2x == g.x && c2y == g.y || c2x == nx && c2y == ny)
		}
		a = []int64{c2x - ox, c2y - oy, nx - ox, ny - oy}
		nlc = &[2]int64{c2x, c2y}
		g.x, g.y = nx, ny
	case 'Q':
		nx, ny := g.pt()
		cx, cy := g.val(), g.val()
		switch r.Intn(10) {
		case 0, 1, 2:
			cx, cy = g.refl(g.lq)
		case 3:
			special = true
			if r.Bool() {
				cx, cy = g.x, g.y
			} else {
				cx, cy = nx, ny
			}
		}
		special = cx == g.x && cy == g.y || cx == nx && cy == ny
		a = []int64{cx - ox, cy - oy, nx - ox, ny - oy}
		nlq = &[2]int64{cx, cy}
		g.x, g.y = nx, ny
	case 'T':
		nx, ny := g.pt()
		cx, cy := g.refl(g.lq)
		special = (cx == nx && cy == ny) || (cx == g.x && cy == g.y)
		a = []int64{nx - ox, ny - oy}
		nlq = &[2]int64{cx, cy}
		g.x, g.y = nx, ny
	case 'A':
		nx, ny := g.pt()
		rx, ry := g.val(), g.val()
		if rx < 0 {
			rx = -rx
		}
		if ry < 0 {
			ry = -ry
		}
		rot := (int64(r.Intn(73)) - 36) * 40
		a = []int64{rx, ry, rot, int64(r.Intn(2)) * 8, int64(r.Intn(2)) * 8, nx - ox, ny - oy}
		g.x, g.y = nx, ny
	case 'Z':
		g.x, g.y = g.x0, g.y0
		special = true
	}
	g.lc, g.lq = nlc, nlq
	g.avoidCurve = special
	return c05Grp{k: k, rel: rel, args: a}
}

// c05NumStr renders k/8 in a random notation of the SVG number grammar
func c05NumStr(r *h.RNG, k int64, allowTrailDot bool) string {
	neg := k < 0
	if neg {
		k = -k
	}
	ip := fmt.Sprint(k / 8)
	fr := fmt.Sprintf("%03d", (k%8)*125)
	fr = strings.TrimRight(fr, "0")
	sign := ""
	if neg {
		sign = "-"
	} else if r.Chance(4) {
		sign = "+"
	}
	if neg && k == 0 {
		sign = ""
	}
	if k == 0 && r.Chance(10) {
		sign = "-" // negative zero
	}
	mode := r.Intn(20)
	switch {
	case mode < 11: // canonical-ish
		if fr == "" {
			if allowTrailDot && r.Chance(3) {
				return sign + ip + "."
			}
			if r.Chance(5) {
				return sign + ip + ".0"
			}
			return sign + ip
		}
		if ip == "0" && r.Chance(60) {
			return sign + "." + fr
		}
		return sign + ip + "." + fr
	case mode < 13: // superfluous zeros
		s := ip
		if r.Bool() {
			s = "0" + s
		}
		if fr != "" || r.Bool() {
			s += "." + fr + strings.Repeat("0", r.Intn(3))
			if strings.HasSuffix(s, ".") {
				s += "0"
			}
		}
		return sign + s
	default: // exponent notation: digits D with fl fraction digits = value·10^fl; move the point
		D := ip + fr
		fl := len(fr)
		nf := r.Intn(len(D) + 3) // new number of fraction digits
		e := nf - fl             // value = D·10^-nf · 10^e
		for len(D) < nf+1 {
			D = "0" + D
		}
		m := D[:len(D)-nf]
		f := D[len(D)-nf:]
		m = strings.TrimLeft(m, "0")
		s := m
		if f != "" {
			if m == "" && r.Bool() {
				s = "0"
			}
			s += "." + f
		} else if m == "" {
			s = "0"
		}
		ec := "e"
		if r.Chance(30) {
			ec = "E"
		}
		es := fmt.Sprint(e)
		if e >= 0 && r.Chance(30) {
			es = "+" + es
		}
		if e == 0 && r.Chance(50) {
			es = "-0"
		}
		return sign + s + ec + es
	}
}

func c05Sep(r *h.RNG, must bool, wide bool) string {
	if !must && r.Chance(60) {
		return ""
	}
	seps := []string{" ", " ", " ", ",", ", ", " ,", "  "}
	if wide {
		seps = append(seps, "\n", "\t", "\r\n", " \t ")
	}
	return r.Pick(seps)
}

// c05Render writes the groups as path data with random notation, separators, implicit repetition
func c05Render(r *h.RNG, gs []c05Grp, wide bool, trailDot bool) string {
	var sb strings.Builder
	prevLex := ""      // previous number lexeme ("" after a letter or flag)
	var implK byte = 0 // command implied for a bare argument group (0 = none)
	implRel := false
	if r.Chance(10) {
		sb.WriteString(c05Sep(r, true, wide))
	}
	for _, g := range gs {
		letter := g.k
		if g.rel {
			letter |= 0x20
		}
		if implK != 0 && implK == g.k && implRel == g.rel && g.k != 'Z' && r.Chance(70) {
			// implicit repetition (or implicit lineto after moveto): no letter
		} else {
			sb.WriteString(c05Sep(r, false, wide))
			sb.WriteByte(letter)
			prevLex = ""
			implK, implRel = g.k, g.rel
			if g.k == 'M' {
				implK = 'L'
			}
			if g.k == 'Z' {
				implK = 0
			}
		}
		for i, v := range g.args {
			if g.k == 'A' && (i == 3 || i == 4) {
				sb.WriteString(c05Sep(r, prevLex != "", wide))
				if v != 0 {
					sb.WriteByte('1')
				} else {
					sb.WriteByte('0')
				}
				prevLex = ""
				continue
			}
			lx := c05NumStr(r, v, trailDot)
			must := false
			if prevLex != "" {
				c0 := lx[0]
				pHasDotOrExp := strings.ContainsAny(prevLex, ".eE")
				if c0 >= '0' && c0 <= '9' {
					must = true
				} else if c0 == '.' && !pHasDotOrExp {
					must = true
				}
			}
			sb.WriteString(c05Sep(r, must, wide))
			sb.WriteString(lx)
			prevLex = lx
		}
	}
	if r.Chance(10) {
		sb.WriteString(c05Sep(r, true, wide))
	}
	return sb.String()
}

// c05GenPath generates a valid path on the exact domain
func c05GenPath(r *h.RNG, allowHaz bool, wide bool) string {
	g := &c05Gen{r: r, allowHaz: allowHaz}
	var gs []c05Grp
	n := 1 + r.Intn(9)
	if r.Chance(5) {
		n = 20 + r.Intn(20)
	}
	kinds := []byte("LLLHVCCSSQQTTAZMLCQ")
	// first: moveto (+ implicit linetos)
	rel := r.Chance(40)
	gs = append(gs, g.group('M', rel))
	for len(gs) < n+1 {
		k := kinds[r.Intn(len(kinds))]
		if g.avoidCurve && !allowHaz && (k == 'C' || k == 'S' || k == 'Q' || k == 'T') {
			k = []byte("LHVAM")[r.Intn(5)]
		}
		if g.avoidCurve && allowHaz && r.Chance(60) {
			k = []byte("CSQT")[r.Intn(4)]
		}
		if k == 'Z' && len(gs) > 0 && gs[len(gs)-1].k == 'Z' && r.Chance(80) {
			k = 'M'
		}
		if !r.Chance(35) {
			rel = r.Chance(50)
		}
		reps := 1
		if k != 'Z' && r.Chance(30) {
			reps = 2 + r.Intn(2)
		}
		for j := 0; j < reps; j++ {
			if j > 0 && g.avoidCurve && !allowHaz && (k == 'C' || k == 'S' || k == 'Q' || k == 'T') {
				break
			}
			gs = append(gs, g.group(k, rel))
			if k == 'M' {
				k = 'L'
			}
		}
	}
	return c05Render(r, gs, wide, allowHaz && r.Chance(30))
}

// c05Exact reports whether every number lexeme of d is parsed exactly by the dependency's ParseFloat
// and is a multiple of 1/8 below 2^24 (the domain on which the model claims byte equality).
func c05Exact(d string) bool {
	for i := 0; i < len(d); {
		n := c05NumLen(d[i:])
		if n == 0 {
			i++
			continue
		}
		lx := d[i : i+n]
		f, _ := pstrconv.ParseFloat([]byte(lx))
		if f != float64(int64(f*8))/8 || f > 1<<24 || f < -(1<<24) {
			return false
		}
		// the float must be the exact value of the lexeme (no underflow / rounding)
		if k := strings.IndexAny(lx, "eE"); k >= 0 && len(lx)-k > 5 {
			return false
		}
		q, ok := new(big.Rat).SetString(strings.TrimSuffix(strings.TrimPrefix(lx, "+"), "."))
		if !ok || q.Cmp(new(big.Rat).SetFloat64(f)) != 0 {
			return false
		}
		i += n
	}
	return true
}

// ---------- general decimals (tolerance oracle) ----------

func c05DecStr(r *h.RNG) string {
	digs := 1 + r.Intn(7)
	m := int64(r.Intn(9) + 1)
	for i := 1; i < digs; i++ {
		m = m*10 + int64(r.Intn(10))
	}
	e := r.Intn(8) - 4 - (digs - 1) // magnitude 1e-4 … 1e3
	s := fmt.Sprint(m)
	switch {
	case r.Chance(15):
		s = fmt.Sprintf("%de%d", m, e)
	case e >= 0:
		s += strings.Repeat("0", e)
	case -e < len(s):
		s = s[:len(s)+e] + "." + s[len(s)+e:]
	default:
		s = "." + strings.Repeat("0", -e-len(s)) + s
		if r.Chance(30) {
			s = "0" + s
		}
	}
	if r.Chance(45) {
		s = "-" + s
	}
	if r.Chance(12) {
		return "0"
	}
	return s
}

func c05GenDecPath(r *h.RNG) string {
	var sb strings.Builder
	n := 1 + r.Intn(8)
	letters := "LlHhVvCcSsQqTtAaZzLlCcMm"
	sb.WriteString(r.Pick([]string{"M", "m"}))
	sb.WriteString(c05DecStr(r) + " " + c05DecStr(r))
	prevZ := false
	for i := 0; i < n; i++ {
		c := letters[r.Intn(len(letters))]
		if prevZ && strings.ContainsRune("CcSsQqTt", rune(c)) {
			c = 'L'
		}
		prevZ = c == 'Z' || c == 'z'
		sb.WriteByte(c)
		reps := 1
		if !prevZ && r.Chance(25) {
			reps = 2
		}
		for j := 0; j < reps; j++ {
			ar := c05Arity(c)
			for k := 0; k < ar; k++ {
				if (c == 'A' || c == 'a') && (k == 3 || k == 4) {
					if k == 3 {
						sb.WriteString(r.Pick([]string{" 0", " 1", ",1", " , 0"}))
					} else {
						sb.WriteString(r.Pick([]string{" 0", " 1", "0", "1"}))
					}
					continue
				}
				if k > 0 || j > 0 {
					sb.WriteByte(' ')
				}
				s := c05DecStr(r)
				if (c == 'A' || c == 'a') && k < 2 {
					s = strings.TrimPrefix(s, "-")
				}
				sb.WriteString(s)
			}
		}
	}
	return sb.String()
}

// ---------- runner ----------

type c05Case struct {
	d       string
	direct  string
	viaDoc  string
	docOK   bool
	exact   bool
	crashed bool
}

func c05HoldsLine(in, out string) string {
	return "spec.c05.holds " + h.HexS(in) + " " + h.HexS(out)
}

type c05Verdict struct {
	validIn, validOut, equiv bool
	hazards                 string
	err                     string
}

func c05DecodeHolds(rep string) c05Verdict {
	b, ok, msg := h.DecodeReply(rep)
	if !ok {
		return c05Verdict{err: msg}
	}
	l := h.DecodeListReply(b)
	if len(l) < 4 {
		return c05Verdict{err: "short reply"}
	}
	return c05Verdict{validIn: string(l[0]) == "1", validOut: string(l[1]) == "1", equiv: string(l[2]) == "1", hazards: string(l[3])}
}

var c05Regression = []struct{ in, want string }{
	{"M2 2Z L3 3", "M2 2zL3 3"},
	{"M1e100 5e-100L1 2", ""},
	{"M0 0L100 100 1200 1200", ""},
	{"M.5.5.5.5 1e2.5", ""},
	{"M10 10A1 1 0 011 1 1 1 0 10-5 .5z", ""},
	{"M0 0C0 5 5 5 5 0S10-5 10 0z", ""},
	{"m1 1 0 0 5 0 0 5zm0 0", ""},
	{"M1. 2.L3. 4", ""},
	{"", ""},
	{"  ", ""},
	// former known findings K-C05-2, 3, 4, 5, 10 and the half-rewritten buffer (fixed in /repo)
	{"M0 0C1 1 2 2 3 3zC-2 -2 5 5 6 6", "M0 0C1 1 2 2 3 3zC-2-2 5 5 6 6"},
	{"M0 0C0 5 5 5 5 0L5 0S10 -5 10 0", "M0 0C0 5 5 5 5 0V0s5-5 5 0"},
	{"M0 0Q0 0 5 5T10 0", "M0 0T5 5t5-5"},
	{"M0 0C0 0 0 0 5 5S10 0 10 5", "M0 0S0 0 5 5s5-5 5 0"},
	{"M0 0C0 5 5 5 5 0 5 0 5 0 5 0 5 0 9 9 8 8", ""},
	{"M1.e5 2", "M1.e5 2"},
	{"M0 0A5 3 50. 1 1 4 4V9", "M0 0A5 3 50. 1 1 4 4V9"},
	{"M10 10 A5 3 50. 1 1 4 4", "M10 10A5 3 50. 1 1 4 4"},
}

// invalid inputs (bad arc flags): only model correspondence (the rest of the input is kept verbatim)
var c05Invalid = []string{"M 10 10 L 20 20 A 1 1 0 2", "M 10 10 L 20 20 A 1 1 0 2 0 1 1L5 5", "M0 0A1 1 0 1 x 5 5", "A1.1.0.0.0.0.2.3", "M1 1a5 5 0 0.5 1 1 1z"}

func init() {
	register("C05", func(c *Ctx) error {
		if err := c05Known(c); err != nil {
			return err
		}
		if err := c05Paths(c); err != nil {
			return err
		}
		if err := c05Mutated(c); err != nil {
			return err
		}
		if err := c05Tolerance(c); err != nil {
			return err
		}
		if err := c05Numbers(c); err != nil {
			return err
		}
		return c05Docs(c)
	})
}

// c05Paths: exact-domain correspondence + exact property
func c05Paths(c *Ctx) error {
	n := c.N(40000, 600000)
	if c.Search {
		n *= 3
	}
	st := c.R.StartStage("paths-exact", "generated valid path data over all 20 command letters (implicit repetition, implicit lineto after moveto, compact arc flags, every number notation incl. exponents, sign/dot adjacency, superfluous zeros, trailing dot; coordinates k/8, |k|<2^23, crafted collisions: zero-length lines, H/V-able lines, reflected and degenerate control points) + fixed regression inputs; real ShortenPathData directly and through svg.Minify on <path d=…/>; compared with the Lean model byte for byte and judged by the Lean spec (exact segment equivalence); non-trivial = output differs from input by more than whitespace and contains a rewritten command")
	var cases []c05Case
	add := func(d string) {
		cs := c05Case{d: d, exact: c05Exact(d)}
		var crash string
		cs.direct, crash = c05Direct(d)
		if crash != "" {
			c.R.Add(h.Finding{Stage: st.Name, Kind: "crash", What: "ShortenPathData: " + crash, Input: h.Q([]byte(d)), Hex: h.HexS(d)})
			return
		}
		if !strings.ContainsAny(d, "\n\t\r") {
			cs.viaDoc, cs.docOK, crash = c05ViaDoc(d)
			if crash != "" {
				c.R.Add(h.Finding{Stage: st.Name, Kind: "crash", What: "svg.Minify: " + crash, Input: h.Q([]byte(d)), Hex: h.HexS(d)})
				return
			}
		}
		cases = append(cases, cs)
	}
	for _, rg := range c05Regression {
		add(rg.in)
		if rg.want != "" {
			if got, _ := c05Direct(rg.in); got != rg.want {
				c.R.Add(h.Finding{Stage: st.Name, Kind: "fail", What: "regression input (fixed finding) no longer gives the repaired output", Input: h.Q([]byte(rg.in)), Impl: h.Q([]byte(got)), Model: h.Q([]byte(rg.want))})
			}
		}
	}
	for _, k := range h.Known("C05") {
		if k.Status == "fixed" {
			if p := k.ReplayStr("path"); p != "" {
				add(p)
			}
		}
	}
	for i := 0; i < n; i++ {
		r := c.Rng.Fork()
		add(c05GenPath(r, false, r.Chance(30)))
	}
	// a side stream that aims at the former known-finding triggers (curve after closepath / removed segment / degenerate curve, trailing dots)
	for i := 0; i < n/5; i++ {
		r := c.Rng.Fork()
		add(c05GenPath(r, true, false))
	}
	// batch: model (newPrecision 0 for the direct call, 15 inside svg.Minify) and spec verdicts
	var lines []string
	for _, cs := range cases {
		lines = append(lines, "model.c05.shorten "+h.HexS(cs.d)+" "+h.Int(0)+" "+h.Int(0))
		// inside a document the attribute value reaches ShortenPathData with runs of spaces collapsed and trimmed
		lines = append(lines, "model.c05.shorten "+h.HexS(c05CollapseSpaces(cs.d))+" "+h.Int(0)+" "+h.Int(15))
		lines = append(lines, c05HoldsLine(cs.d, cs.direct))
		if cs.docOK {
			lines = append(lines, c05HoldsLine(cs.d, cs.viaDoc))
		} else {
			lines = append(lines, "echo -")
		}
		lines = append(lines, "spec.c05.guards "+h.HexS(cs.d))
	}
	rep, err := h.Eval(lines)
	if err != nil {
		return err
	}
	for i, cs := range cases {
		m0, ok0, msg0 := h.DecodeReply(rep[5*i])
		m15, ok15, msg15 := h.DecodeReply(rep[5*i+1])
		vd := c05DecodeHolds(rep[5*i+2])
		key := h.Q([]byte(cs.d))
		nontriv := strings.Join(strings.Fields(strings.ReplaceAll(cs.d, ",", " ")), " ") != cs.direct && len(cs.direct) > 0
		st.Count(key, nontriv)
		if vd.err != "" {
			c.R.Add(h.Finding{Stage: st.Name, Kind: "diff", What: "spec.c05.holds: " + vd.err, Input: key, Hex: h.HexS(cs.d)})
			continue
		}
		if !vd.validIn {
			st.Tag("input=invalid")
			c.R.Add(h.Finding{Stage: st.Name, Kind: "diff", What: "generator produced path data the Lean spec rejects", Input: key, Hex: h.HexS(cs.d)})
			continue
		}
		if _, e := c05Interp(cs.d); e != nil && strings.TrimSpace(cs.d) != "" {
			c.R.Add(h.Finding{Stage: st.Name, Kind: "diff", What: "Lean spec and Go interpreter disagree on validity of the input: " + e.Error(), Input: key, Hex: h.HexS(cs.d)})
		}
		// guards of the Lean theorem path_geometry_partial, measured: scanGuard must hold on every valid input
		// without trailing-dot numbers (otherwise the guard is wider than documented)
		if gb, ok, _ := h.DecodeReply(rep[5*i+4]); ok {
			g := h.DecodeListReply(gb)
			if len(g) == 2 {
				sg, nh := string(g[0]) == "1", string(g[1]) == "1"
				st.Tag(fmt.Sprintf("theorem-guards scanGuard=%v noHazard=%v", sg, nh))
				if !sg && !strings.Contains(vd.hazards, "traildot") {
					c.R.Add(h.Finding{Stage: st.Name, Kind: "diff", What: "scanGuard (scanner reads the input as the specification does) fails on a valid input without trailing dot", Input: key, Hex: h.HexS(cs.d)})
				}
			}
		}
		haz := vd.hazards != ""
		if haz {
			st.Tag("trigger=" + strings.Split(vd.hazards, ",")[0])
		} else {
			st.Tag("trigger=none")
		}
		st.Tag(fmt.Sprintf("exact=%v", cs.exact))
		// (ii) the property on the real output
		outs := []struct {
			name, out string
			vd        c05Verdict
			have      bool
		}{{"ShortenPathData", cs.direct, vd, true}, {"svg.Minify", cs.viaDoc, c05Verdict{}, cs.docOK}}
		if cs.docOK {
			outs[1].vd = c05DecodeHolds(rep[5*i+3])
		}
		for _, o := range outs {
			if !o.have {
				continue
			}
			if o.vd.err != "" {
				c.R.Add(h.Finding{Stage: st.Name, Kind: "diff", What: "spec.c05.holds: " + o.vd.err, Input: key, Hex: h.HexS(cs.d)})
				continue
			}
			if !o.vd.validOut {
				c.R.Add(h.Finding{Stage: st.Name, Kind: "fail", What: o.name + ": output is not valid path data", Input: key, Hex: h.HexS(cs.d), Impl: h.Q([]byte(o.out))})
				continue
			}
			if !o.vd.equiv {
				if cs.exact {
					_, why := c05Close(cs.d, o.out, 1e-9)
					c.R.Add(h.Finding{Stage: st.Name, Kind: "fail", What: o.name + ": absolute segments differ (exact) " + why, Input: key, Hex: h.HexS(cs.d), Impl: h.Q([]byte(o.out))})
				}
				continue
			}
			// second opinion: the Go interpreter must agree on the exact domain
			if ok, why := c05Close(cs.d, o.out, 1e-9); !ok && strings.TrimSpace(cs.d) != "" {
				c.R.Add(h.Finding{Stage: st.Name, Kind: "diff", What: "Lean spec accepts but Go interpreter rejects: " + why, Input: key, Hex: h.HexS(cs.d), Impl: h.Q([]byte(o.out))})
			}
		}
		// (i) correspondence with the model (only on the exact domain)
		_ = haz
		if !cs.exact {
			continue
		}
		if !ok0 {
			c.R.Add(h.Finding{Stage: st.Name, Kind: "diff", What: "model error: " + msg0, Input: key, Hex: h.HexS(cs.d)})
			continue
		}
		if string(m0) != cs.direct {
			c.R.Add(h.Finding{Stage: st.Name, Kind: "diff", What: "model.c05.shorten vs ShortenPathData", Input: key, Hex: h.HexS(cs.d), Impl: h.Q([]byte(cs.direct)), Model: h.Q(m0)})
		}
		if cs.docOK {
			if !ok15 {
				c.R.Add(h.Finding{Stage: st.Name, Kind: "diff", What: "model error: " + msg15, Input: key, Hex: h.HexS(cs.d)})
			} else if string(m15) != cs.viaDoc {
				c.R.Add(h.Finding{Stage: st.Name, Kind: "diff", What: "model.c05.shorten vs svg.Minify <path d>", Input: key, Hex: h.HexS(cs.d), Impl: h.Q([]byte(cs.viaDoc)), Model: h.Q(m15)})
			}
		}
	}
	st.End()
	return nil
}

// c05Mutated: arbitrary (mostly invalid) path data: byte mutations of valid paths and fixed bad-flag inputs; only the
// model correspondence is checked (bad format: minified prefix + rest of the input verbatim; garbage bytes skipped)
func c05Mutated(c *Ctx) error {
	n := c.N(15000, 300000)
	st := c.R.StartStage("paths-mutated", "byte mutations (replace/insert/delete with one of `2.xeE-, AaZzLM0`) of generated valid exact paths + fixed inputs with bad arc flags and trailing-dot numbers; real ShortenPathData vs Lean model byte for byte (no validity assumed); non-trivial = output differs from input")
	var ds, outs []string
	var lines []string
	add := func(d string) {
		if !c05Exact(d) {
			return
		}
		out, crash := c05Direct(d)
		if crash != "" {
			c.R.Add(h.Finding{Stage: st.Name, Kind: "crash", What: "ShortenPathData: " + crash, Input: h.Q([]byte(d)), Hex: h.HexS(d)})
			return
		}
		ds = append(ds, d)
		outs = append(outs, out)
		lines = append(lines, "model.c05.shorten "+h.HexS(d)+" "+h.Int(0)+" "+h.Int(0))
	}
	for _, d := range c05Invalid {
		add(d)
	}
	alpha := "2.xeE-, AaZzLM0"
	for i := 0; i < n; i++ {
		r := c.Rng.Fork()
		b := []byte(c05GenPath(r, r.Chance(30), false))
		for k := 0; k < 1+r.Intn(2) && len(b) > 0; k++ {
			pos := r.Intn(len(b))
			ch := alpha[r.Intn(len(alpha))]
			switch r.Intn(3) {
			case 0:
				b[pos] = ch
			case 1:
				b = append(b[:pos], append([]byte{ch}, b[pos:]...)...)
			default:
				b = append(b[:pos], b[pos+1:]...)
			}
		}
		add(string(b))
	}
	rep, err := h.Eval(lines)
	if err != nil {
		return err
	}
	for i, d := range ds {
		key := h.Q([]byte(d))
		got, ok, msg := h.DecodeReply(rep[i])
		if !ok && strings.Contains(msg, "driver's range") {
			continue
		}
		st.Count(key, d != outs[i])
		if !ok {
			c.R.Add(h.Finding{Stage: st.Name, Kind: "diff", What: "model error: " + msg, Input: key, Hex: h.HexS(d)})
		} else if string(got) != outs[i] {
			c.R.Add(h.Finding{Stage: st.Name, Kind: "diff", What: "model.c05.shorten vs ShortenPathData (mutated input)", Input: key, Hex: h.HexS(d), Impl: h.Q([]byte(outs[i])), Model: h.Q(got)})
		}
	}
	st.End()
	return nil
}

// c05Tolerance: general decimals, float-tolerance oracle written in Go
func c05Tolerance(c *Ctx) error {
	n := c.N(20000, 300000)
	if c.Search {
		n *= 3
	}
	st := c.R.StartStage("paths-tolerance", "generated valid path data with general decimals (1-7 significant digits, magnitudes 1e-4..1e3, exponent notation); real ShortenPathData and svg.Minify; judged by the independent Go path interpreter with relative tolerance 1e-9; output must be valid path data for both the Go interpreter and the Lean lexer; non-trivial = output differs from input")
	type tc struct{ d, out string }
	var cs []tc
	var lines []string
	for i := 0; i < n; i++ {
		r := c.Rng.Fork()
		d := c05GenDecPath(r)
		out, crash := c05Direct(d)
		if crash != "" {
			c.R.Add(h.Finding{Stage: st.Name, Kind: "crash", What: "ShortenPathData: " + crash, Input: h.Q([]byte(d)), Hex: h.HexS(d)})
			continue
		}
		if i%2 == 1 {
			if o2, ok, crash := c05ViaDoc(d); crash != "" {
				c.R.Add(h.Finding{Stage: st.Name, Kind: "crash", What: "svg.Minify: " + crash, Input: h.Q([]byte(d)), Hex: h.HexS(d)})
				continue
			} else if ok {
				out = o2
			}
		}
		cs = append(cs, tc{d, out})
		lines = append(lines, c05HoldsLine(d, out))
	}
	rep, err := h.Eval(lines)
	if err != nil {
		return err
	}
	for i, t := range cs {
		key := h.Q([]byte(t.d))
		st.Count(key, t.d != t.out)
		vd := c05DecodeHolds(rep[i])
		if vd.err != "" {
			c.R.Add(h.Finding{Stage: st.Name, Kind: "diff", What: "spec.c05.holds: " + vd.err, Input: key})
			continue
		}
		if !vd.validIn {
			c.R.Add(h.Finding{Stage: st.Name, Kind: "diff", What: "generator produced path data the Lean spec rejects", Input: key, Hex: h.HexS(t.d)})
			continue
		}
		if !vd.validOut {
			c.R.Add(h.Finding{Stage: st.Name, Kind: "fail", What: "output does not lex/parse as path data (Lean spec)", Input: key, Hex: h.HexS(t.d), Impl: h.Q([]byte(t.out))})
			continue
		}
		ok, why := c05Close(t.d, t.out, 1e-9)
		if vd.hazards != "" {
			st.Tag("trigger=" + strings.Split(vd.hazards, ",")[0])
		} else {
			st.Tag("trigger=none")
		}
		if vd.equiv {
			st.Tag("exact-equal")
		} else {
			st.Tag("equal-within-tolerance-only")
		}
		if !ok {
			c.R.Add(h.Finding{Stage: st.Name, Kind: "fail", What: "path geometry changed beyond relative tolerance 1e-9: " + why, Input: key, Hex: h.HexS(t.d), Impl: h.Q([]byte(t.out))})
		}
	}
	st.End()
	return nil
}

// c05Numbers: the private copy of the Number model and the AppendFloat model against the real functions,
// and the printed-number shape contract (`goodNum`) on the real minify.Number
func c05Numbers(c *Ctx) error {
	n := c.N(50000, 600000)
	st := c.R.StartStage("numbers", "number lexemes in every notation (values k/8 and general decimals) through minify.Number at precision 0 and 15 vs the private model copy; shape contract goodNum on the real output; non-trivial = output differs from input")
	type nc struct {
		s    string
		prec int
		want string
	}
	var cs []nc
	var lines []string
	for i := 0; i < n; i++ {
		r := c.Rng.Fork()
		var s string
		if r.Bool() {
			g := &c05Gen{r: r}
			s = c05NumStr(r, g.val(), false)
		} else {
			s = c05DecStr(r)
		}
		prec := []int{0, 0, 15}[r.Intn(3)]
		want := string(minify.Number([]byte(s), prec))
		cs = append(cs, nc{s, prec, want})
		lines = append(lines, "model.c05.number "+h.HexS(s)+" "+h.Int(int64(prec)))
		lines = append(lines, "spec.c05.goodnum "+h.HexS(want))
	}
	rep, err := h.Eval(lines)
	if err != nil {
		return err
	}
	for i, t := range cs {
		key := fmt.Sprintf("Number(%q,%d)", t.s, t.prec)
		st.Count(key, t.s != t.want)
		got, ok, msg := h.DecodeReply(rep[2*i])
		if !ok || string(got) != t.want {
			c.R.Add(h.Finding{Stage: st.Name, Kind: "diff", What: "model.c05.number " + msg, Input: key, Impl: t.want, Model: string(got)})
		}
		gn, _, _ := h.DecodeReply(rep[2*i+1])
		if string(gn) != "1" {
			c.R.Add(h.Finding{Stage: st.Name, Kind: "diff", What: "number shape contract (goodNum) violated by the real minify.Number output", Input: key, Impl: t.want})
		}
	}
	st.End()
	return nil
}
